From Coq Require Import List NArith ZArith Lia Bool.
From Echo Require Import Base.Bytes Model.CborPA Proofs.CborPAProofs.
Import ListNotations.
Open Scope N_scope.

(* C13: the proposed guard (element budget + depth limit) is transparent: every input the unguarded
   decoder accepts within the depth limit is accepted by the guarded one with the same value.
   Simulation of the guarded run by the unguarded run, over the same step functions. *)

Definition with_bud (x : N) (s : st) : st := mkst (idx s) x (cur s) (peak s) (dmax s).

Section Sim.
Variable cu : cfg.
Variable b : bytes.
Variable m : N.
Local Notation L := (lenN b).
Hypothesis Hfit : L <= usize_max cu.
Hypothesis Hug : guard cu = false.
Hypothesis Hud : depth_limit cu = None.
Definition cg : cfg := mkcfg (usize_max cu) (isize_max cu) true (Some m).

Lemma uadd_cg x y : uadd cg x y = uadd cu x y.
Proof. reflexivity. Qed.
Lemma as_usize_cg n : as_usize cg n = as_usize cu n.
Proof. reflexivity. Qed.

Lemma read_uint_loop_cg k : forall i v, read_uint_loop cg b k i v = read_uint_loop cu b k i v.
Proof.
  induction k as [|k IH]; intros i v; cbn [read_uint_loop]; [reflexivity|].
  destruct (get b i); [|reflexivity]. rewrite uadd_cg. destruct (uadd cu i 1); [apply IH|reflexivity].
Qed.

Lemma read_len_cg i info : read_len cg b i info = read_len cu b i info.
Proof. unfold read_len, read_uint. rewrite !read_uint_loop_cg. reflexivity. Qed.

Lemma read_fbits_cg i n : read_fbits cg b i n = read_fbits cu b i n.
Proof. unfold read_fbits. rewrite uadd_cg. reflexivity. Qed.

Lemma peek2_cg i : peek2 cg b i = peek2 cu b i.
Proof. unfold peek2. rewrite uadd_cg. reflexivity. Qed.

Lemma head_cg x s : head cg b (with_bud x s) = let (o, s') := head cu b s in (o, with_bud x s').
Proof.
  unfold head. cbn [idx with_bud]. destruct (need b (idx s) 1); [|reflexivity].
  destruct (get b (idx s)); [|reflexivity].
  rewrite uadd_cg. destruct (uadd cu (idx s) 1); reflexivity.
Qed.

Lemma dec_scalar_cg major info kl x s :
  dec_scalar cg b major info kl (with_bud x s) =
  let (o, s') := dec_scalar cu b major info kl s in (o, with_bud x s').
Proof.
  unfold dec_scalar. cbn [idx with_bud].
  rewrite !read_len_cg, !read_fbits_cg, !peek2_cg.
  change (as_usize cg) with (as_usize cu). change (uadd cg) with (uadd cu).
  unfold alloc, set_idx, with_bud. cbn [idx bud cur peak dmax].
  repeat match goal with
  | |- context [if ?x then _ else _] => destruct x
  | |- context [match ?x with _ => _ end] => destruct x
  end; try reflexivity.
Qed.

(* every successful element consumes at least one byte *)
Definition arr_prog (ak : arr_k) : Prop := forall d kl n s acc v s',
  idx s <= L -> ak d kl n s acc = (Val v, s') -> idx s + n <= idx s'.
Definition map_prog (mk : map_k) : Prop := forall d kl n s acc last v s',
  idx s <= L -> mk d kl n s acc last = (Val v, s') -> idx s + n <= idx s'.

Lemma cast_not_val {A B} (r : res A) (v : B) : (forall a, r <> Val a) -> @cast A B r <> Val v.
Proof. destruct r; cbn; discriminate. Qed.

Lemma arr_step_prog dk ak F : dec_ok cu b dk F -> arr_prog ak -> arr_prog (arr_step dk ak).
Proof.
  intros Hd Ha d kl n s acc v s' Hi. unfold arr_step.
  destruct (n =? 0) eqn:En.
  - intros X; inversion X; subst. apply N.eqb_eq in En. lia.
  - apply N.eqb_neq in En.
    destruct (Hd (d + 1) kl s Hi) as [[Hm [Hs _]] _].
    destruct (dk (d + 1) kl s) as [o s1]. cbn [fst snd] in *.
    destruct o as [v1| | |]; try (cbn [cast]; discriminate).
    intros X. specialize (Hs eq_refl v1 eq_refl).
    apply Ha in X; [lia|]. unfold mono in Hm. lia.
Qed.

Lemma map_step_prog dk mk F : dec_ok cu b dk F -> map_prog mk -> map_prog (map_step b dk mk).
Proof.
  intros Hd Hmk d kl n s acc last v s' Hi. unfold map_step.
  destruct (n =? 0) eqn:En.
  - intros X; inversion X; subst. apply N.eqb_eq in En. lia.
  - apply N.eqb_neq in En. cbv zeta.
    destruct (Hd (d + 1) (kl + match last with Some p => lenN p | None => 0 end) s Hi) as [[Hm [Hs _]] _].
    destruct (dk (d + 1) (kl + match last with Some p => lenN p | None => 0 end) s) as [o s1]. cbn [fst snd] in *.
    destruct o as [k| | |]; try (cbn [cast]; discriminate).
    specialize (Hs eq_refl k eq_refl).
    destruct (slice b (idx s) (idx s1)) as [kb| | |]; try (cbn [cast]; discriminate).
    destruct (key_order kb last); [discriminate|].
    set (s2 := touch (lenN kb) _ s1).
    assert (Hi2 : idx s2 <= L) by (unfold s2, touch, mono in *; cbn; lia).
    destruct (Hd (d + 1) (kl + lenN kb) s2 Hi2) as [[Hm2 [Hs2 _]] _].
    destruct (dk (d + 1) (kl + lenN kb) s2) as [o2 s3]. cbn [fst snd] in *.
    destruct o2 as [w| | |]; try (cbn [cast]; discriminate).
    specialize (Hs2 eq_refl w eq_refl).
    intros X. apply Hmk in X; [|unfold mono in *; lia].
    unfold s2, touch, mono in *; cbn [idx] in *. lia.
Qed.

Lemma prog_all f : arr_prog (arr_items cu b f) /\ map_prog (map_items cu b f).
Proof.
  induction f as [|f [IHa IHm]].
  - split; intros ? ? ? ? ? ?; [|intros ?]; intros ? ? X; cbn in X; discriminate.
  - destruct (dec_all_ok cu b Hfit f) as [Hd _]. split.
    + exact (arr_step_prog _ _ _ Hd IHa).
    + exact (map_step_prog _ _ _ Hd IHm).
Qed.

Definition dsim (du dg : dec_k) : Prop := forall d kl su x v su',
  idx su <= L -> du d kl su = (Val v, su') -> dmax su' <= m -> idx su' <= x + 1 + idx su ->
  exists x', dg d kl (with_bud x su) = (Val v, with_bud x' su') /\ x + 1 + idx su <= x' + idx su' /\ x' <= x.
Definition asim (au ag : arr_k) : Prop := forall d kl n su acc x v su',
  idx su <= L -> au d kl n su acc = (Val v, su') -> dmax su' <= m -> idx su' <= x + n + idx su ->
  exists x', ag d kl n (with_bud x su) acc = (Val v, with_bud x' su') /\ x + n + idx su <= x' + idx su' /\ x' <= x.
Definition msim (mu mg : map_k) : Prop := forall d kl n su acc last x v su',
  idx su <= L -> mu d kl n su acc last = (Val v, su') -> dmax su' <= m -> idx su' <= x + n + idx su ->
  exists x', mg d kl n (with_bud x su) acc last = (Val v, with_bud x' su') /\ x + n + idx su <= x' + idx su' /\ x' <= x.

Lemma reserve_cu n s : reserve cu n s = Some s.
Proof. unfold reserve. rewrite Hug. reflexivity. Qed.
Lemma reserve_cg n x s : n <= x -> reserve cg n (with_bud x s) = Some (with_bud (x - n) s).
Proof.
  intros H. unfold reserve. cbn [guard cg bud with_bud].
  assert (E : (x <? n) = false) by (apply N.ltb_ge; exact H). rewrite E. reflexivity.
Qed.
Lemma with_cap_cg n sz kl x s :
  with_cap cg n sz kl (with_bud x s) = match with_cap cu n sz kl s with Some s' => Some (with_bud x s') | None => None end.
Proof. unfold with_cap. cbn [isize_max cg]. destruct (isize_max cu <? n * sz); reflexivity. Qed.
Lemma depth_cu d : depth_exceeded cu d = false.
Proof. unfold depth_exceeded. rewrite Hud. reflexivity. Qed.
Lemma depth_cg d : d <= m -> depth_exceeded cg d = false.
Proof. intros H. unfold depth_exceeded. cbn [depth_limit cg]. apply N.ltb_ge. exact H. Qed.

(* shared container part *)
Lemma container_sim sz kl n su0 s2 x v su' (Ku Kg : st -> res cval * st) :
  idx su0 < idx s2 -> idx s2 <= L -> idx su' <= x + 1 + idx su0 ->
  (forall s, idx s <= L -> Ku s = (Val v, su') -> idx s + n <= idx su') ->
  (forall s y, idx s <= L -> Ku s = (Val v, su') -> idx su' <= y + n + idx s ->
     exists y', Kg (with_bud y s) = (Val v, with_bud y' su') /\ y + n + idx s <= y' + idx su' /\ y' <= y) ->
  match reserve cu n s2 with
  | None => (Err EIncomplete, s2)
  | Some s => match with_cap cu n sz kl s with None => (Panic PCapacity, s) | Some s => Ku s end
  end = (Val v, su') ->
  exists x', match reserve cg n (with_bud x s2) with
             | None => (Err EIncomplete, with_bud x s2)
             | Some s => match with_cap cg n sz kl s with None => (Panic PCapacity, s) | Some s => Kg s end
             end = (Val v, with_bud x' su') /\ x + 1 + idx su0 <= x' + idx su' /\ x' <= x.
Proof.
  intros Hlt Hle Hx Hprog Hsim. rewrite reserve_cu.
  destruct (with_cap cu n sz kl s2) as [s3|] eqn:Ew; [|discriminate].
  assert (I3 : idx s3 = idx s2).
  { unfold with_cap in Ew. destruct (isize_max cu <? n * sz); [discriminate|]. inversion Ew. reflexivity. }
  intros H. pose proof (Hprog s3 ltac:(lia) H) as Hp.
  assert (Hn : n <= x) by lia.
  rewrite (reserve_cg n x s2 Hn). rewrite with_cap_cg, Ew.
  destruct (Hsim s3 (x - n) ltac:(lia) H ltac:(lia)) as [y' [E1 [E2 E3]]].
  exists y'. split; [exact E1|]. lia.
Qed.

Lemma dec_step_sim au ag mu mg F :
  arr_ok cu b au F -> map_ok cu b mu F -> arr_prog au -> map_prog mu -> asim au ag -> msim mu mg ->
  dsim (dec_step cu b au mu) (dec_step cg b ag mg).
Proof.
  intros Hao Hmo Hap Hmp Has Hms d kl su x v su' Hi H Hd Hx.
  unfold dec_step in H |- *. rewrite depth_cu in H.
  change (enter d (with_bud x su)) with (with_bud x (enter d su)).
  set (s0 := enter d su) in *.
  assert (I0 : idx s0 = idx su /\ dmax s0 = N.max (dmax su) d) by (unfold s0, enter; cbn; auto).
  destruct I0 as [I0 D0].
  rewrite head_cg.
  destruct (head_spec cu b Hfit s0 ltac:(lia)) as [[b0 [Eh Hle]]|Eh]; rewrite Eh in H |- *; [|cbn [cast] in H; discriminate].
  set (s1 := set_idx s0 (idx s0 + 1)) in *.
  assert (I1 : idx s1 = idx su + 1 /\ dmax s1 = N.max (dmax su) d) by (unfold s1, set_idx; cbn; split; lia).
  destruct I1 as [I1 D1].
  cbv zeta in H |- *. cbn [idx with_bud].
  rewrite !read_len_cg. change (as_usize cg) with (as_usize cu).
  destruct (b0 / 32 =? 4).
  { pose proof (read_len_spec cu b Hfit (idx s1) (b0 mod 32) ltac:(lia)) as Hl.
    destruct (read_len cu b (idx s1) (b0 mod 32)) as [[n i]| | |]; try (cbn [cast] in H; discriminate).
    inversion Hl; subst.
    change (set_idx (with_bud x s1) i) with (with_bud x (set_idx s1 i)).
    set (s2 := set_idx s1 i) in *.
    assert (I2 : idx s2 = i /\ dmax s2 = N.max (dmax su) d) by (unfold s2, set_idx; cbn; split; lia).
    destruct I2 as [I2 D2].
    (* depth: the continuation is monotone in dmax *)
    assert (Hdm : d <= m).
    { rewrite reserve_cu in H. destruct (with_cap cu (as_usize cu n) size_value kl s2) as [s3|] eqn:Ew; [|discriminate].
      assert (D3 : dmax s3 = dmax s2 /\ idx s3 = idx s2).
      { unfold with_cap in Ew. destruct (isize_max cu <? as_usize cu n * size_value); [discriminate|]. inversion Ew. split; reflexivity. }
      destruct (Hao d kl (as_usize cu n) s3 [] ltac:(lia)) as [[Hm _] _]. rewrite H in Hm. unfold mono in Hm. cbn [snd] in Hm. lia. }
    rewrite (depth_cg d Hdm).
    apply (container_sim size_value kl (as_usize cu n) su s2 x v su'
             (fun s => au d kl (as_usize cu n) s []) (fun s => ag d kl (as_usize cu n) s [])); try lia.
    - intros s Hs E. exact (Hap _ _ _ _ _ _ _ Hs E).
    - intros s y Hs E Hy. exact (Has _ _ _ _ _ _ _ _ Hs E Hd Hy).
    - exact H. }
  destruct (b0 / 32 =? 5).
  { pose proof (read_len_spec cu b Hfit (idx s1) (b0 mod 32) ltac:(lia)) as Hl.
    destruct (read_len cu b (idx s1) (b0 mod 32)) as [[n i]| | |]; try (cbn [cast] in H; discriminate).
    inversion Hl; subst.
    change (set_idx (with_bud x s1) i) with (with_bud x (set_idx s1 i)).
    set (s2 := set_idx s1 i) in *.
    assert (I2 : idx s2 = i /\ dmax s2 = N.max (dmax su) d) by (unfold s2, set_idx; cbn; split; lia).
    destruct I2 as [I2 D2].
    assert (Hdm : d <= m).
    { rewrite reserve_cu in H. destruct (with_cap cu (as_usize cu n) size_entry kl s2) as [s3|] eqn:Ew; [|discriminate].
      assert (D3 : dmax s3 = dmax s2 /\ idx s3 = idx s2).
      { unfold with_cap in Ew. destruct (isize_max cu <? as_usize cu n * size_entry); [discriminate|]. inversion Ew. split; reflexivity. }
      destruct (Hmo d kl (as_usize cu n) s3 [] None ltac:(lia)) as [[Hm _] _]. rewrite H in Hm. unfold mono in Hm. cbn [snd] in Hm. lia. }
    rewrite (depth_cg d Hdm).
    apply (container_sim size_entry kl (as_usize cu n) su s2 x v su'
             (fun s => mu d kl (as_usize cu n) s [] None) (fun s => mg d kl (as_usize cu n) s [] None)); try lia.
    - intros s Hs E. exact (Hmp _ _ _ _ _ _ _ _ Hs E).
    - intros s y Hs E Hy. exact (Hms _ _ _ _ _ _ _ _ _ Hs E Hd Hy).
    - exact H. }
  rewrite dec_scalar_cg.
  destruct (dec_scalar cu b (b0 / 32) (b0 mod 32) kl s1) as [o s'] eqn:Es.
  inversion H; subst o s'.
  assert (Hi1 : idx s1 <= L) by lia.
  destruct (dec_scalar_spec cu b Hfit _ _ _ _ _ _ Hi1 Es) as [St _]. unfold sstep in St.
  assert (Hdm : d <= m) by lia.
  rewrite (depth_cg d Hdm). exists x. split; [reflexivity|]. lia.
Qed.

Lemma arr_step_sim du dg au ag F :
  dec_ok cu b du F -> arr_ok cu b au F -> arr_prog au -> dsim du dg -> asim au ag ->
  asim (arr_step du au) (arr_step dg ag).
Proof.
  intros Hdo Hao Hap Hds Has d kl n su acc x v su' Hi H Hd Hx.
  unfold arr_step in H |- *. destruct (n =? 0) eqn:En.
  { inversion H; subst. exists x. split; [reflexivity|]. apply N.eqb_eq in En. lia. }
  apply N.eqb_neq in En.
  destruct (Hdo (d + 1) kl su Hi) as [[Hm1 [Hs1 _]] _].
  destruct (du (d + 1) kl su) as [o s1] eqn:E1. cbn [fst snd] in *.
  destruct o as [v1| | |]; try (cbn [cast] in H; discriminate).
  specialize (Hs1 eq_refl v1 eq_refl).
  assert (Hi1 : idx s1 <= L) by (unfold mono in Hm1; lia).
  destruct (Hao d kl (n - 1) s1 (v1 :: acc) Hi1) as [[Hm2 _] _]. rewrite H in Hm2. cbn [snd] in Hm2.
  pose proof (Hap _ _ _ _ _ _ _ Hi1 H) as Hp.
  unfold mono in *.
  destruct (Hds (d + 1) kl su x v1 s1 Hi E1 ltac:(lia) ltac:(lia)) as [x1 [G1 [G2 G3]]].
  rewrite G1.
  destruct (Has d kl (n - 1) s1 (v1 :: acc) x1 v su' Hi1 H Hd ltac:(lia)) as [x' [A1 [A2 A3]]].
  exists x'. split; [exact A1|]. lia.
Qed.

Lemma map_step_sim du dg mu mg F :
  dec_ok cu b du F -> map_ok cu b mu F -> map_prog mu -> dsim du dg -> msim mu mg ->
  msim (map_step b du mu) (map_step b dg mg).
Proof.
  intros Hdo Hmo Hmp Hds Hms d kl n su acc last x v su' Hi H Hd Hx.
  unfold map_step in H |- *. destruct (n =? 0) eqn:En.
  { inversion H; subst. exists x. split; [reflexivity|]. apply N.eqb_eq in En. lia. }
  apply N.eqb_neq in En. cbv zeta in H |- *. cbn [idx with_bud].
  set (ll := match last with Some p => lenN p | None => 0 end) in *.
  destruct (Hdo (d + 1) (kl + ll) su Hi) as [[Hm1 [Hs1 _]] _].
  destruct (du (d + 1) (kl + ll) su) as [o s1] eqn:E1. cbn [fst snd] in *.
  destruct o as [k| | |]; try (cbn [cast] in H; discriminate).
  specialize (Hs1 eq_refl k eq_refl).
  assert (Hi1 : idx s1 <= L) by (unfold mono in Hm1; lia).
  destruct (slice b (idx su) (idx s1)) as [kb| | |] eqn:Es; try (cbn [cast] in H; discriminate).
  destruct (key_order kb last) eqn:Ek; [discriminate|].
  set (s2 := touch (lenN kb) (kl + ll) s1) in *.
  assert (I2 : idx s2 = idx s1 /\ dmax s2 = dmax s1) by (unfold s2, touch; cbn; auto).
  destruct I2 as [I2 D2].
  assert (Hi2 : idx s2 <= L) by lia.
  destruct (Hdo (d + 1) (kl + lenN kb) s2 Hi2) as [[Hm2 [Hs2 _]] _].
  destruct (du (d + 1) (kl + lenN kb) s2) as [o2 s3] eqn:E2. cbn [fst snd] in *.
  destruct o2 as [w| | |]; try (cbn [cast] in H; discriminate).
  specialize (Hs2 eq_refl w eq_refl).
  assert (Hi3 : idx s3 <= L) by (unfold mono in Hm2; lia).
  destruct (Hmo d kl (n - 1) s3 ((k, w) :: acc) (Some kb) Hi3) as [[Hm3 _] _]. rewrite H in Hm3. cbn [snd] in Hm3.
  pose proof (Hmp _ _ _ _ _ _ _ _ Hi3 H) as Hp.
  unfold mono in *.
  destruct (Hds (d + 1) (kl + ll) su x k s1 Hi E1 ltac:(lia) ltac:(lia)) as [x1 [G1 [G2 G3]]].
  rewrite G1. cbn [idx with_bud]. rewrite Es, Ek.
  change (touch (lenN kb) (kl + ll) (with_bud x1 s1)) with (with_bud x1 s2).
  destruct (Hds (d + 1) (kl + lenN kb) s2 x1 w s3 Hi2 E2 ltac:(lia) ltac:(lia)) as [x2 [K1 [K2 K3]]].
  rewrite K1.
  destruct (Hms d kl (n - 1) s3 ((k, w) :: acc) (Some kb) x2 v su' Hi3 H Hd ltac:(lia)) as [x' [A1 [A2 A3]]].
  exists x'. split; [exact A1|]. lia.
Qed.


(* ---- converse: the guard only removes behaviours; a value accepted under the guard is the value the
        unguarded decoder returns ---- *)
Definition dsimr (du dg : dec_k) : Prop := forall d kl su x v sg',
  dg d kl (with_bud x su) = (Val v, sg') ->
  exists su' x', du d kl su = (Val v, su') /\ sg' = with_bud x' su'.
Definition asimr (au ag : arr_k) : Prop := forall d kl n su acc x v sg',
  ag d kl n (with_bud x su) acc = (Val v, sg') ->
  exists su' x', au d kl n su acc = (Val v, su') /\ sg' = with_bud x' su'.
Definition msimr (mu mg : map_k) : Prop := forall d kl n su acc last x v sg',
  mg d kl n (with_bud x su) acc last = (Val v, sg') ->
  exists su' x', mu d kl n su acc last = (Val v, su') /\ sg' = with_bud x' su'.

Lemma reserve_cg_inv n x s s' : reserve cg n (with_bud x s) = Some s' -> s' = with_bud (x - n) s.
Proof.
  unfold reserve. cbn [guard cg bud with_bud]. destruct (x <? n); [discriminate|].
  intros X; inversion X. reflexivity.
Qed.

Lemma dec_step_simr au ag mu mg : asimr au ag -> msimr mu mg -> dsimr (dec_step cu b au mu) (dec_step cg b ag mg).
Proof.
  intros Has Hms d kl su x v sg' H.
  unfold dec_step in H |- *. rewrite depth_cu.
  change (enter d (with_bud x su)) with (with_bud x (enter d su)) in H.
  destruct (depth_exceeded cg d); [discriminate|].
  rewrite head_cg in H.
  destruct (head cu b (enter d su)) as [o1 s1].
  destruct o1 as [b0| | |]; try (cbn [cast] in H; discriminate).
  cbv zeta in H |- *. cbn [idx with_bud] in H.
  rewrite !read_len_cg in H. change (as_usize cg) with (as_usize cu) in H.
  destruct (b0 / 32 =? 4).
  { destruct (read_len cu b (idx s1) (b0 mod 32)) as [[n i]| | |]; try (cbn [cast] in H; discriminate).
    change (set_idx (with_bud x s1) i) with (with_bud x (set_idx s1 i)) in H.
    rewrite reserve_cu.
    destruct (reserve cg (as_usize cu n) (with_bud x (set_idx s1 i))) as [sr|] eqn:Er; [|discriminate].
    apply reserve_cg_inv in Er. subst sr. rewrite with_cap_cg in H.
    destruct (with_cap cu (as_usize cu n) size_value kl (set_idx s1 i)) as [s3|]; [|discriminate].
    exact (Has _ _ _ _ _ _ _ _ H). }
  destruct (b0 / 32 =? 5).
  { destruct (read_len cu b (idx s1) (b0 mod 32)) as [[n i]| | |]; try (cbn [cast] in H; discriminate).
    change (set_idx (with_bud x s1) i) with (with_bud x (set_idx s1 i)) in H.
    rewrite reserve_cu.
    destruct (reserve cg (as_usize cu n) (with_bud x (set_idx s1 i))) as [sr|] eqn:Er; [|discriminate].
    apply reserve_cg_inv in Er. subst sr. rewrite with_cap_cg in H.
    destruct (with_cap cu (as_usize cu n) size_entry kl (set_idx s1 i)) as [s3|]; [|discriminate].
    exact (Hms _ _ _ _ _ _ _ _ _ H). }
  rewrite dec_scalar_cg in H.
  destruct (dec_scalar cu b (b0 / 32) (b0 mod 32) kl s1) as [o s'].
  inversion H; subst. exists s', x. split; reflexivity.
Qed.

Lemma arr_step_simr du dg au ag : dsimr du dg -> asimr au ag -> asimr (arr_step du au) (arr_step dg ag).
Proof.
  intros Hds Has d kl n su acc x v sg' H.
  unfold arr_step in H |- *. destruct (n =? 0).
  { inversion H; subst. exists su, x. split; reflexivity. }
  destruct (dg (d + 1) kl (with_bud x su)) as [o sg1] eqn:E1.
  destruct o as [v1| | |]; try (cbn [cast] in H; discriminate).
  destruct (Hds _ _ _ _ _ _ E1) as [s1 [x1 [G1 G2]]]. subst sg1. rewrite G1.
  exact (Has _ _ _ _ _ _ _ _ H).
Qed.

Lemma map_step_simr du dg mu mg : dsimr du dg -> msimr mu mg -> msimr (map_step b du mu) (map_step b dg mg).
Proof.
  intros Hds Hms d kl n su acc last x v sg' H.
  unfold map_step in H |- *. destruct (n =? 0).
  { inversion H; subst. exists su, x. split; reflexivity. }
  cbv zeta in H |- *. cbn [idx with_bud] in H.
  set (ll := match last with Some p => lenN p | None => 0 end) in *.
  destruct (dg (d + 1) (kl + ll) (with_bud x su)) as [o sg1] eqn:E1.
  destruct o as [k| | |]; try (cbn [cast] in H; discriminate).
  destruct (Hds _ _ _ _ _ _ E1) as [s1 [x1 [G1 G2]]]. subst sg1. rewrite G1.
  cbn [idx with_bud] in H.
  destruct (slice b (idx su) (idx s1)) as [kb| | |]; try (cbn [cast] in H; discriminate).
  destruct (key_order kb last); [discriminate|].
  change (touch (lenN kb) (kl + ll) (with_bud x1 s1)) with (with_bud x1 (touch (lenN kb) (kl + ll) s1)) in H.
  destruct (dg (d + 1) (kl + lenN kb) (with_bud x1 (touch (lenN kb) (kl + ll) s1))) as [o2 sg3] eqn:E2.
  destruct o2 as [w| | |]; try (cbn [cast] in H; discriminate).
  destruct (Hds _ _ _ _ _ _ E2) as [s3 [x3 [K1 K2]]]. subst sg3. rewrite K1.
  exact (Hms _ _ _ _ _ _ _ _ _ H).
Qed.

Lemma simr_all f :
  dsimr (dec cu b f) (dec cg b f) /\ asimr (arr_items cu b f) (arr_items cg b f) /\ msimr (map_items cu b f) (map_items cg b f).
Proof.
  induction f as [|f [IHd [IHa IHm]]].
  - repeat split; intros *; intros X; cbn in X; discriminate.
  - split; [|split].
    + exact (dec_step_simr _ _ _ _ IHa IHm).
    + exact (arr_step_simr _ _ _ _ IHd IHa).
    + exact (map_step_simr _ _ _ _ IHd IHm).
Qed.

Theorem guard_sound_val v : result (dec_pa cg b) = Val v -> result (dec_pa cu b) = Val v.
Proof.
  unfold result, dec_pa.
  change (st0 b) with (with_bud L (st0 b)) at 1.
  destruct (dec cg b (fuel_for b) 0 0 (with_bud L (st0 b))) as [o sg'] eqn:E.
  destruct o as [v0| | |]; cbn [fst snd]; try discriminate.
  destruct (simr_all (fuel_for b)) as [Hs _].
  destruct (Hs _ _ _ _ _ _ E) as [su' [x' [G1 G2]]]. subst sg'. rewrite G1.
  cbn [idx with_bud]. destruct (idx su' =? L); cbn [fst]; [|discriminate]. exact (fun X => X).
Qed.

Lemma sim_all f :
  dsim (dec cu b f) (dec cg b f) /\ asim (arr_items cu b f) (arr_items cg b f) /\ msim (map_items cu b f) (map_items cg b f).
Proof.
  induction f as [|f [IHd [IHa IHm]]].
  - repeat split; intros until 1; intros X; cbn in X; discriminate.
  - destruct (dec_all_ok cu b Hfit f) as [Hdo [Hao Hmo]]. destruct (prog_all f) as [Hap Hmp].
    split; [|split].
    + exact (dec_step_sim _ _ _ _ _ Hao Hmo Hap Hmp IHa IHm).
    + exact (arr_step_sim _ _ _ _ _ Hdo Hao Hap IHd IHa).
    + exact (map_step_sim _ _ _ _ _ Hdo Hmo Hmp IHd IHm).
Qed.

(* The guard never changes the outcome of an input the unguarded decoder accepts within the depth limit. *)
Theorem guard_transparent_val v :
  result (dec_pa cu b) = Val v -> depth_max (dec_pa cu b) <= m -> result (dec_pa cg b) = Val v.
Proof.
  unfold result, depth_max, dec_pa.
  destruct (dec cu b (fuel_for b) 0 0 (st0 b)) as [o su'] eqn:E.
  destruct o as [v0| | |]; cbn [fst snd]; try discriminate.
  destruct (idx su' =? L) eqn:Ei; cbn [fst snd]; [|discriminate].
  intros X Hd; inversion X; subst v0.
  destruct (sim_all (fuel_for b)) as [Hs _].
  apply N.eqb_eq in Ei.
  destruct (Hs 0 0 (st0 b) L v su') as [x' [G1 _]]; [cbn; lia|exact E|exact Hd|cbn [st0 idx]; lia|].
  change (st0 b) with (with_bud L (st0 b)) at 1.
  replace (dec cg b (fuel_for b) 0 0 (with_bud L (st0 b))) with (Val v, with_bud x' su').
  cbn [idx with_bud fst]. apply N.eqb_eq in Ei. rewrite Ei. reflexivity.
Qed.
End Sim.

Theorem guard_sound_64 (b : bytes) v :
  result (dec_pa cfg_guarded b) = Val v -> result (dec_pa cfg_unguarded b) = Val v.
Proof. exact (guard_sound_val cfg_unguarded b guard_depth eq_refl eq_refl v). Qed.

Theorem guard_transparent_64 (b : bytes) v :
  lenN b <= usize_max cfg_unguarded ->
  result (dec_pa cfg_unguarded b) = Val v -> depth_max (dec_pa cfg_unguarded b) <= guard_depth ->
  result (dec_pa cfg_guarded b) = Val v.
Proof.
  intros Hfit. exact (guard_transparent_val cfg_unguarded b guard_depth Hfit eq_refl eq_refl v).
Qed.
