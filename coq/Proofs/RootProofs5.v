(* Lemmas about Model/Root.v (C06), part 5: applying ops to the accumulator tracks applying them
   to the store (acc_refines_store). *)
From Coq Require Import List NArith Lia Permutation Bool.
From Echo Require Import Base.FinMap Base.Order Base.Bytes Model.Root Proofs.RootProofs Proofs.RootProofs2 Proofs.RootProofs3 Proofs.RootProofs4.
Import ListNotations.
Open Scope N_scope.

(* membership in a sorted map after set / del *)
Section InSetDel.
  Context {K V : Type} (cmp : K -> K -> comparison) (L : OrderLaws cmp).
  Let ceq := ol_eq cmp L.
  Let cas := ol_antisym cmp L.
  Let ctr := ol_trans cmp L.

  Lemma in_set_iff k0 v0 k v (m : list (K * V)) : sorted cmp m ->
    (In (k, v) (set cmp k0 v0 m) <-> (k = k0 /\ v = v0) \/ (k <> k0 /\ In (k, v) m)).
  Proof.
    intros Hs. rewrite <- (sorted_find_iff cmp L _ k v (set_sorted cmp ceq cas k0 v0 m Hs)).
    rewrite <- (sorted_find_iff cmp L m k v Hs).
    destruct (key_dec cmp L k k0) as [->|Hne].
    - rewrite (find_set_same cmp ceq). split.
      + intros E; inversion E; subst. left; auto.
      + intros [[_ ->]|[H _]]; [reflexivity|contradiction].
    - rewrite (find_set_other cmp ceq) by exact Hne. split.
      + intros H. right; auto.
      + intros [[H _]|[_ H]]; [contradiction|exact H].
  Qed.

  Lemma in_del_iff k0 k v (m : list (K * V)) : sorted cmp m ->
    (In (k, v) (del cmp k0 m) <-> k <> k0 /\ In (k, v) m).
  Proof.
    intros Hs. rewrite <- (sorted_find_iff cmp L _ k v (del_sorted cmp ctr k0 m Hs)).
    rewrite <- (sorted_find_iff cmp L m k v Hs).
    destruct (key_dec cmp L k k0) as [->|Hne].
    - rewrite (find_del_same cmp ceq ctr) by exact Hs. split; [discriminate|intros [H _]; contradiction].
    - rewrite (find_del_other cmp ceq) by exact Hne. split; [intros H; split; auto|intros [_ H]; exact H].
  Qed.
End InSetDel.

(* local view of a representation at one instance *)
Section Local.
  Variables (a : acc) (s : state) (w : N) (st : store).
  Hypothesis R : Rep a s.
  Hypothesis Est : get_store s w = Some st.

  Lemma L_nodes n ty : find nkey_cmp (w, n) (a_nodes a) = Some ty <-> find N.compare n (st_nodes st) = Some ty.
  Proof.
    rewrite (rep_nodes a s R). split.
    - intros (st' & E & F). rewrite Est in E. inversion E; subst. exact F.
    - intros F. exists st. auto.
  Qed.
  Lemma L_natt n : find akey_cmp (node_alpha w n) (a_natt a) = find N.compare n (st_natt st).
  Proof. rewrite (rep_natt a s R), Est. reflexivity. Qed.
  Lemma L_eatt n : find akey_cmp (edge_beta w n) (a_eatt a) = find N.compare n (st_eatt st).
  Proof. rewrite (rep_eatt a s R), Est. reflexivity. Qed.
  Lemma L_edges eid e : In ((w, eid), e) (a_edges a) <-> In e (all_edges st) /\ eid = e_id e.
  Proof.
    rewrite (rep_edges a s R). split.
    - intros (st' & E & H). rewrite Est in E. inversion E; subst. exact H.
    - intros H. exists st. auto.
  Qed.
End Local.

(* replacing the store of one instance: conditions table by table *)
Lemma rep_put a a' s w st st2 :
  Rep a s -> get_store s w = Some st ->
  a_insts a' = a_insts a ->
  sorted nkey_cmp (a_nodes a') -> sorted nkey_cmp (a_edges a') ->
  sorted akey_cmp (a_natt a') -> sorted akey_cmp (a_eatt a') ->
  (forall w' n ty, find nkey_cmp (w', n) (a_nodes a') = Some ty <->
     if w' =? w then find N.compare n (st_nodes st2) = Some ty
     else find nkey_cmp (w', n) (a_nodes a) = Some ty) ->
  (forall w' n, find akey_cmp (node_alpha w' n) (a_natt a') =
     if w' =? w then find N.compare n (st_natt st2) else find akey_cmp (node_alpha w' n) (a_natt a)) ->
  (forall w' n, find akey_cmp (edge_beta w' n) (a_eatt a') =
     if w' =? w then find N.compare n (st_eatt st2) else find akey_cmp (edge_beta w' n) (a_eatt a)) ->
  (forall w' eid e, In ((w', eid), e) (a_edges a') <->
     if w' =? w then In e (all_edges st2) /\ eid = e_id e else In ((w', eid), e) (a_edges a)) ->
  Rep a' (put_store s w st2).
Proof.
  intros R Est Ei S1 S2 S3 S4 HN HA HB HE. split; auto.
  - intros w'. rewrite Ei. apply (rep_insts a s R).
  - rewrite Ei. apply (rep_insts_sorted a s R).
  - intros w' n ty. rewrite HN, get_put. destruct (w' =? w).
    + split; [intros F; exists st2; auto|intros (st' & E & F); inversion E; subst; exact F].
    + apply (rep_nodes a s R).
  - intros w' n. rewrite HA, get_put. destruct (w' =? w); [reflexivity|apply (rep_natt a s R)].
  - intros w' n. rewrite HB, get_put. destruct (w' =? w); [reflexivity|apply (rep_eatt a s R)].
  - intros w' eid e. rewrite HE, get_put. destruct (w' =? w).
    + split; [intros H; exists st2; auto|intros (st' & E & H); inversion E; subst; exact H].
    + apply (rep_edges a s R).
Qed.

(* a table that is not touched satisfies its condition *)
Lemma keep_nodes a s w st : Rep a s -> get_store s w = Some st ->
  forall w' n ty, find nkey_cmp (w', n) (a_nodes a) = Some ty <->
    if w' =? w then find N.compare n (st_nodes st) = Some ty else find nkey_cmp (w', n) (a_nodes a) = Some ty.
Proof.
  intros R Est w' n ty. destruct (w' =? w) eqn:E; [|tauto]. apply N.eqb_eq in E. subst. apply (L_nodes a s w st R Est).
Qed.
Lemma keep_natt a s w st : Rep a s -> get_store s w = Some st ->
  forall w' n, find akey_cmp (node_alpha w' n) (a_natt a) =
    if w' =? w then find N.compare n (st_natt st) else find akey_cmp (node_alpha w' n) (a_natt a).
Proof.
  intros R Est w' n. destruct (w' =? w) eqn:E; [|reflexivity]. apply N.eqb_eq in E. subst. apply (L_natt a s w st R Est).
Qed.
Lemma keep_eatt a s w st : Rep a s -> get_store s w = Some st ->
  forall w' n, find akey_cmp (edge_beta w' n) (a_eatt a) =
    if w' =? w then find N.compare n (st_eatt st) else find akey_cmp (edge_beta w' n) (a_eatt a).
Proof.
  intros R Est w' n. destruct (w' =? w) eqn:E; [|reflexivity]. apply N.eqb_eq in E. subst. apply (L_eatt a s w st R Est).
Qed.
Lemma keep_edges a s w st : Rep a s -> get_store s w = Some st ->
  forall w' eid e, In ((w', eid), e) (a_edges a) <->
    if w' =? w then In e (all_edges st) /\ eid = e_id e else In ((w', eid), e) (a_edges a).
Proof.
  intros R Est w' eid e. destruct (w' =? w) eqn:E; [|tauto]. apply N.eqb_eq in E. subst. apply (L_edges a s w st R Est).
Qed.

Lemma pair_neq_iff (w' n w id : N) : (w', n) <> (w, id) <-> (w' <> w \/ n <> id).
Proof.
  split.
  - intros H. destruct (N.eq_dec w' w) as [->|]; [|left; auto]. right. intros ->. apply H; reflexivity.
  - intros [H|H] E; inversion E; contradiction.
Qed.

(* ---- UpsertNode ---- *)
Lemma step_upsert_node a s w st id ty :
  Rep a s -> get_store s w = Some st ->
  Rep (mkAcc (a_insts a) (set nkey_cmp (w, id) ty (a_nodes a)) (a_edges a) (a_natt a) (a_eatt a))
      (put_store s w (insert_node st id ty)).
Proof.
  intros R Est. apply (rep_put a _ s w st); cbn; auto; try apply R.
  - apply (set_sorted nkey_cmp nk_eq nk_as). apply R.
  - intros w' n t. destruct (w' =? w) eqn:E.
    + apply N.eqb_eq in E. subst w'. destruct (N.eq_dec n id) as [->|Hne].
      * rewrite (find_set_same nkey_cmp nk_eq), (find_set_same N.compare n_eq). tauto.
      * rewrite (find_set_other nkey_cmp nk_eq) by (intros H; inversion H; contradiction).
        rewrite (find_set_other N.compare n_eq) by exact Hne. apply (L_nodes a s w st R Est).
    + rewrite (find_set_other nkey_cmp nk_eq); [tauto|]. intros H; inversion H; subst. rewrite N.eqb_refl in E. discriminate.
  - apply (keep_natt a s w st R Est).
  - apply (keep_eatt a s w st R Est).
  - apply (keep_edges a s w st R Est).
Qed.

(* ---- SetAttachment ---- *)
Lemma step_set_natt a s w st n v :
  WfStore st -> Rep a s -> get_store s w = Some st ->
  Rep (mkAcc (a_insts a) (a_nodes a) (a_edges a)
             (match v with Some x => set akey_cmp (node_alpha w n) x (a_natt a)
                         | None => del akey_cmp (node_alpha w n) (a_natt a) end) (a_eatt a))
      (put_store s w (set_node_att st n v)).
Proof.
  intros Wst R Est. pose proof (rep_natt_sorted a s R) as SA.
  apply (rep_put a _ s w st); cbn; auto; try apply R.
  - destruct v; [apply (set_sorted akey_cmp (ol_eq _ akey_order) (ol_antisym _ akey_order))
                |apply (del_sorted akey_cmp (ol_trans _ akey_order))]; exact SA.
  - apply (keep_nodes a s w st R Est).
  - intros w' n'. destruct (w' =? w) eqn:E.
    + apply N.eqb_eq in E. subst w'. destruct (N.eq_dec n' n) as [->|Hne].
      * destruct v as [x|]; cbn [set_opt].
        -- rewrite (find_set_same akey_cmp (ol_eq _ akey_order)), (find_set_same N.compare n_eq). reflexivity.
        -- rewrite (find_del_same akey_cmp (ol_eq _ akey_order) (ol_trans _ akey_order)) by exact SA.
           rewrite (find_del_same N.compare n_eq n_tr) by apply Wst. reflexivity.
      * assert (Hk : node_alpha w n' <> node_alpha w n) by (intros H; inversion H; contradiction).
        destruct v as [x|]; cbn [set_opt].
        -- rewrite (find_set_other akey_cmp (ol_eq _ akey_order)) by exact Hk.
           rewrite (find_set_other N.compare n_eq) by exact Hne. apply (L_natt a s w st R Est).
        -- rewrite (find_del_other akey_cmp (ol_eq _ akey_order)) by exact Hk.
           rewrite (find_del_other N.compare n_eq) by exact Hne. apply (L_natt a s w st R Est).
    + assert (Hk : node_alpha w' n' <> node_alpha w n).
      { intros H; inversion H; subst. rewrite N.eqb_refl in E. discriminate. }
      destruct v as [x|];
        [rewrite (find_set_other akey_cmp (ol_eq _ akey_order)) by exact Hk
        |rewrite (find_del_other akey_cmp (ol_eq _ akey_order)) by exact Hk]; reflexivity.
  - apply (keep_eatt a s w st R Est).
  - apply (keep_edges a s w st R Est).
Qed.

Lemma step_set_eatt a s w st n v :
  WfStore st -> Rep a s -> get_store s w = Some st ->
  Rep (mkAcc (a_insts a) (a_nodes a) (a_edges a) (a_natt a)
             (match v with Some x => set akey_cmp (edge_beta w n) x (a_eatt a)
                         | None => del akey_cmp (edge_beta w n) (a_eatt a) end))
      (put_store s w (set_edge_att st n v)).
Proof.
  intros Wst R Est. pose proof (rep_eatt_sorted a s R) as SA.
  apply (rep_put a _ s w st); cbn; auto; try apply R.
  - destruct v; [apply (set_sorted akey_cmp (ol_eq _ akey_order) (ol_antisym _ akey_order))
                |apply (del_sorted akey_cmp (ol_trans _ akey_order))]; exact SA.
  - apply (keep_nodes a s w st R Est).
  - apply (keep_natt a s w st R Est).
  - intros w' n'. destruct (w' =? w) eqn:E.
    + apply N.eqb_eq in E. subst w'. destruct (N.eq_dec n' n) as [->|Hne].
      * destruct v as [x|]; cbn [set_opt].
        -- rewrite (find_set_same akey_cmp (ol_eq _ akey_order)), (find_set_same N.compare n_eq). reflexivity.
        -- rewrite (find_del_same akey_cmp (ol_eq _ akey_order) (ol_trans _ akey_order)) by exact SA.
           rewrite (find_del_same N.compare n_eq n_tr) by apply Wst. reflexivity.
      * assert (Hk : edge_beta w n' <> edge_beta w n) by (intros H; inversion H; contradiction).
        destruct v as [x|]; cbn [set_opt].
        -- rewrite (find_set_other akey_cmp (ol_eq _ akey_order)) by exact Hk.
           rewrite (find_set_other N.compare n_eq) by exact Hne. apply (L_eatt a s w st R Est).
        -- rewrite (find_del_other akey_cmp (ol_eq _ akey_order)) by exact Hk.
           rewrite (find_del_other N.compare n_eq) by exact Hne. apply (L_eatt a s w st R Est).
    + assert (Hk : edge_beta w' n' <> edge_beta w n).
      { intros H; inversion H; subst. rewrite N.eqb_refl in E. discriminate. }
      destruct v as [x|];
        [rewrite (find_set_other akey_cmp (ol_eq _ akey_order)) by exact Hk
        |rewrite (find_del_other akey_cmp (ol_eq _ akey_order)) by exact Hk]; reflexivity.
  - apply (keep_edges a s w st R Est).
Qed.

(* ---- UpsertEdge ---- *)
Lemma in_all_edges_insert st e x : WfStore st ->
  (In x (all_edges (insert_edge st e)) <-> x = e \/ (In x (all_edges st) /\ e_id x <> e_id e)).
Proof.
  intros Wst. unfold all_edges, insert_edge. cbn [st_from].
  set (p := fun y => e_id y =? e_id e).
  assert (HP := flat_push_perm (e_from e) e (drop_edges p (st_from st)) (sorted_drop p _ (wfs_from st Wst))).
  assert (Hk : forall y, In y (flat_map snd (drop_edges p (st_from st))) <->
                         In y (flat_map snd (st_from st)) /\ e_id y <> e_id e).
  { intros y. rewrite drop_edges_flat. unfold keep. rewrite filter_In. unfold p.
    rewrite negb_true_iff, N.eqb_neq. tauto. }
  split.
  - intros H. apply (Permutation_in _ HP) in H. apply in_app_iff in H.
    destruct H as [H|[<-|[]]]; [right; apply Hk; exact H|left; reflexivity].
  - intros H. apply (Permutation_in _ (Permutation_sym HP)). apply in_app_iff.
    destruct H as [->|H]; [right; left; reflexivity|left; apply Hk; exact H].
Qed.

Lemma step_upsert_edge a s w st e :
  WfStore st -> Rep a s -> get_store s w = Some st ->
  Rep (mkAcc (a_insts a) (a_nodes a) (set nkey_cmp (w, e_id e) e (a_edges a)) (a_natt a) (a_eatt a))
      (put_store s w (insert_edge st e)).
Proof.
  intros Wst R Est. pose proof (rep_edges_sorted a s R) as SE.
  apply (rep_put a _ s w st); cbn; auto; try apply R.
  - apply (set_sorted nkey_cmp nk_eq nk_as). exact SE.
  - apply (keep_nodes a s w st R Est).
  - apply (keep_natt a s w st R Est).
  - apply (keep_eatt a s w st R Est).
  - intros w' eid x. rewrite (in_set_iff nkey_cmp nk_order) by exact SE. destruct (w' =? w) eqn:E.
    + apply N.eqb_eq in E. subst w'. rewrite (in_all_edges_insert st e x Wst). split.
      * intros [[H ->]|[Hne H]].
        -- inversion H; subst. split; [left; reflexivity|reflexivity].
        -- apply (L_edges a s w st R Est) in H. destruct H as [H ->]. split; [|reflexivity].
           right. split; [exact H|]. intros Eid. apply Hne. rewrite Eid. reflexivity.
      * intros [[->|[H Hne]] ->].
        -- left. auto.
        -- right. split; [intros Eq; inversion Eq; contradiction|]. apply (L_edges a s w st R Est). auto.
    + split.
      * intros [[H _]|[_ H]]; [inversion H; subst; rewrite N.eqb_refl in E; discriminate|exact H].
      * intros H. right. split; [|exact H]. intros Eq; inversion Eq; subst. rewrite N.eqb_refl in E. discriminate.
Qed.

(* ---- DeleteEdge ---- *)
Lemma delete_edge_exact_inv st from id st' :
  delete_edge_exact st from id = (st', true) ->
  st' = mkStore (st_nodes st) (drop_edges (fun x => e_id x =? id) (st_from st)) (st_natt st)
                (del N.compare id (st_eatt st)).
Proof.
  unfold delete_edge_exact. destruct (edge_owner st id) as [f|]; [|intros H; inversion H].
  destruct (f =? from); intros H; inversion H. reflexivity.
Qed.

Lemma step_delete_edge a s w st id :
  WfStore st -> Rep a s -> get_store s w = Some st ->
  Rep (mkAcc (a_insts a) (a_nodes a) (del nkey_cmp (w, id) (a_edges a)) (a_natt a)
             (del akey_cmp (edge_beta w id) (a_eatt a)))
      (put_store s w (mkStore (st_nodes st) (drop_edges (fun x => e_id x =? id) (st_from st)) (st_natt st)
                              (del N.compare id (st_eatt st)))).
Proof.
  intros Wst R Est. pose proof (rep_edges_sorted a s R) as SE. pose proof (rep_eatt_sorted a s R) as SA.
  apply (rep_put a _ s w st); cbn; auto; try apply R.
  - apply (del_sorted nkey_cmp nk_tr). exact SE.
  - apply (del_sorted akey_cmp (ol_trans _ akey_order)). exact SA.
  - apply (keep_nodes a s w st R Est).
  - apply (keep_natt a s w st R Est).
  - intros w' n'. destruct (w' =? w) eqn:E.
    + apply N.eqb_eq in E. subst w'. destruct (N.eq_dec n' id) as [->|Hne].
      * rewrite (find_del_same akey_cmp (ol_eq _ akey_order) (ol_trans _ akey_order)) by exact SA.
        rewrite (find_del_same N.compare n_eq n_tr) by apply Wst. reflexivity.
      * rewrite (find_del_other akey_cmp (ol_eq _ akey_order)) by (intros H; inversion H; contradiction).
        rewrite (find_del_other N.compare n_eq) by exact Hne. apply (L_eatt a s w st R Est).
    + rewrite (find_del_other akey_cmp (ol_eq _ akey_order)); [reflexivity|].
      intros H; inversion H; subst. rewrite N.eqb_refl in E. discriminate.
  - intros w' eid x. rewrite (in_del_iff nkey_cmp nk_order) by exact SE. destruct (w' =? w) eqn:E.
    + apply N.eqb_eq in E. subst w'. unfold all_edges. cbn [st_from]. rewrite drop_edges_flat. unfold keep.
      rewrite filter_In, negb_true_iff, N.eqb_neq. fold (all_edges st). split.
      * intros [Hne H]. apply (L_edges a s w st R Est) in H. destruct H as [H ->]. split; [|reflexivity].
        split; [exact H|]. intros Eid. apply Hne. rewrite Eid. reflexivity.
      * intros [[H Hne] ->]. split; [intros Eq; inversion Eq; contradiction|]. apply (L_edges a s w st R Est). auto.
    + split; [intros [_ H]; exact H|]. intros H. split; [|exact H].
      intros Eq; inversion Eq; subst. rewrite N.eqb_refl in E. discriminate.
Qed.

(* ---- DeleteNode ---- *)
Lemma delete_node_isolated_inv st id st' :
  delete_node_isolated st id = (st', DnOk) ->
  bucket_of st id = [] /\ existsb (fun e => e_to e =? id) (all_edges st) = false /\
  st' = mkStore (del N.compare id (st_nodes st)) (del N.compare id (st_from st))
                (del N.compare id (st_natt st)) (st_eatt st).
Proof.
  unfold delete_node_isolated. destruct (find N.compare id (st_nodes st)); [|intros H; inversion H].
  destruct (bucket_of st id) eqn:B; [|intros H; inversion H].
  destruct (existsb (fun e => e_to e =? id) (all_edges st)) eqn:X; intros H; inversion H. auto.
Qed.

Lemma in_bucket_of_wf st n e : WfStore st -> In e (all_edges st) -> e_from e = n -> In e (bucket_of st n).
Proof.
  intros Wst He Hf. unfold all_edges in He. apply in_flat_map in He. destruct He as ([n' b] & Hnb & He). cbn in He.
  apply (sorted_find_iff N.compare N_order) in Hnb; [|apply Wst].
  destruct (wfs_bucket st Wst n' b Hnb) as (_ & Hf' & _). rewrite (Hf' e He) in Hf. subst n'.
  unfold bucket_of. rewrite Hnb. exact He.
Qed.

Lemma step_delete_node a s w st id st' :
  WfStore st -> Rep a s -> get_store s w = Some st -> delete_node_isolated st id = (st', DnOk) ->
  existsb (fun kv => (fst (fst kv) =? w) && ((e_from (snd kv) =? id) || (e_to (snd kv) =? id))) (a_edges a) = false /\
  Rep (mkAcc (a_insts a) (del nkey_cmp (w, id) (a_nodes a)) (a_edges a)
             (del akey_cmp (node_alpha w id) (a_natt a)) (a_eatt a))
      (put_store s w st').
Proof.
  intros Wst R Est Hd. apply delete_node_isolated_inv in Hd. destruct Hd as (Hb & Hx & ->).
  pose proof (rep_nodes_sorted a s R) as SN. pose proof (rep_natt_sorted a s R) as SA.
  split.
  - match goal with |- ?x = false => destruct x eqn:X end; [|reflexivity]. exfalso.
    apply existsb_exists in X. destruct X as ([[w' eid] e] & Hin & C). cbn [fst snd] in C.
    apply andb_true_iff in C. destruct C as [C1 C2]. apply N.eqb_eq in C1. subst w'.
    apply (L_edges a s w st R Est) in Hin. destruct Hin as [He _].
    apply orb_true_iff in C2. destruct C2 as [C2|C2]; apply N.eqb_eq in C2.
    + pose proof (in_bucket_of_wf st id e Wst He C2) as H. rewrite Hb in H. destruct H.
    + assert (existsb (fun e => e_to e =? id) (all_edges st) = true); [|congruence].
      apply existsb_exists. exists e. split; [exact He|apply N.eqb_eq; exact C2].
  - assert (Hfrom : del N.compare id (st_from st) = st_from st).
    { apply del_absent; [apply Wst|]. unfold bucket_of in Hb.
      destruct (find N.compare id (st_from st)) as [b|] eqn:F; [|reflexivity].
      destruct (wfs_bucket st Wst id b F) as (Hne & _). subst b. contradiction. }
    rewrite Hfrom.
    apply (rep_put a _ s w st); cbn; auto; try apply R.
    + apply (del_sorted nkey_cmp nk_tr). exact SN.
    + apply (del_sorted akey_cmp (ol_trans _ akey_order)). exact SA.
    + intros w' n t. destruct (w' =? w) eqn:E.
      * apply N.eqb_eq in E. subst w'. destruct (N.eq_dec n id) as [->|Hne].
        -- rewrite (find_del_same nkey_cmp nk_eq nk_tr) by exact SN.
           rewrite (find_del_same N.compare n_eq n_tr) by apply Wst. tauto.
        -- rewrite (find_del_other nkey_cmp nk_eq) by (intros H; inversion H; contradiction).
           rewrite (find_del_other N.compare n_eq) by exact Hne. apply (L_nodes a s w st R Est).
      * rewrite (find_del_other nkey_cmp nk_eq); [tauto|]. intros H; inversion H; subst. rewrite N.eqb_refl in E. discriminate.
    + intros w' n'. destruct (w' =? w) eqn:E.
      * apply N.eqb_eq in E. subst w'. destruct (N.eq_dec n' id) as [->|Hne].
        -- rewrite (find_del_same akey_cmp (ol_eq _ akey_order) (ol_trans _ akey_order)) by exact SA.
           rewrite (find_del_same N.compare n_eq n_tr) by apply Wst. reflexivity.
        -- rewrite (find_del_other akey_cmp (ol_eq _ akey_order)) by (intros H; inversion H; contradiction).
           rewrite (find_del_other N.compare n_eq) by exact Hne. apply (L_natt a s w st R Est).
      * rewrite (find_del_other akey_cmp (ol_eq _ akey_order)); [reflexivity|].
        intros H; inversion H; subst. rewrite N.eqb_refl in E. discriminate.
    + apply (keep_eatt a s w st R Est).
    + apply (keep_edges a s w st R Est).
Qed.

(* ---- UpsertWarpInstance ---- *)
Lemma step_upsert_inst a s w i :
  Rep a s ->
  Rep (mkAcc (set N.compare w i (a_insts a)) (a_nodes a) (a_edges a) (a_natt a) (a_eatt a))
      (upsert_instance s w i).
Proof.
  intros R.
  assert (GS : forall w', get_store (upsert_instance s w i) w' = get_store s w' \/
                          (get_store s w' = None /\ get_store (upsert_instance s w i) w' = Some empty_store)).
  { intros w'. unfold upsert_instance, get_store. cbn. destruct (N.eq_dec w' w) as [->|Hne].
    - rewrite (find_set_same N.compare n_eq). fold (get_store s w). destruct (get_store s w); auto.
    - rewrite (find_set_other N.compare n_eq) by exact Hne. left; reflexivity. }
  split; cbn [a_insts a_nodes a_edges a_natt a_eatt]; try apply R.
  - intros w'. unfold get_inst, upsert_instance. cbn. destruct (N.eq_dec w' w) as [->|Hne].
    + rewrite !(find_set_same N.compare n_eq). reflexivity.
    + rewrite !(find_set_other N.compare n_eq) by exact Hne. apply (rep_insts a s R).
  - apply (set_sorted N.compare n_eq n_as). apply R.
  - intros w' n ty. rewrite (rep_nodes a s R). destruct (GS w') as [E|[E1 E2]].
    + rewrite E. tauto.
    + rewrite E1, E2. split; intros (st & E & F); [discriminate|inversion E; subst; discriminate].
  - intros w' n. rewrite (rep_natt a s R). destruct (GS w') as [E|[E1 E2]]; [rewrite E|rewrite E1, E2]; reflexivity.
  - intros w' n. rewrite (rep_eatt a s R). destruct (GS w') as [E|[E1 E2]]; [rewrite E|rewrite E1, E2]; reflexivity.
  - intros w' eid e. rewrite (rep_edges a s R). destruct (GS w') as [E|[E1 E2]].
    + rewrite E. tauto.
    + rewrite E1, E2. split; intros (st & E & F & _); [discriminate|inversion E; subst; destruct F].
Qed.

(* ---- DeleteWarpInstance ---- *)
Lemma step_delete_inst a s w :
  WfState s -> Rep a s ->
  Rep (mkAcc (del N.compare w (a_insts a))
             (filter (fun kv => negb (fst (fst kv) =? w)) (a_nodes a))
             (filter (fun kv => negb (fst (fst kv) =? w)) (a_edges a))
             (filter (fun kv => negb ((ak_owner (fst kv) =? 1) && (ak_warp (fst kv) =? w))) (a_natt a))
             (filter (fun kv => negb ((ak_owner (fst kv) =? 2) && (ak_warp (fst kv) =? w))) (a_eatt a)))
      (delete_instance s w).
Proof.
  intros Ws R.
  assert (GS : forall w', get_store (delete_instance s w) w' = if w' =? w then None else get_store s w').
  { intros w'. unfold delete_instance, get_store. cbn. destruct (w' =? w) eqn:E.
    - apply N.eqb_eq in E. subst. apply (find_del_same N.compare n_eq n_tr). apply Ws.
    - apply (find_del_other N.compare n_eq). intros ->. rewrite N.eqb_refl in E. discriminate. }
  change (filter (fun kv : nkey * N => negb (fst (fst kv) =? w)) (a_nodes a))
    with (fkey (fun k : nkey => negb (fst k =? w)) (a_nodes a)).
  change (filter (fun kv : akey * att => negb ((ak_owner (fst kv) =? 1) && (ak_warp (fst kv) =? w))) (a_natt a))
    with (fkey (fun k : akey => negb ((ak_owner k =? 1) && (ak_warp k =? w))) (a_natt a)).
  change (filter (fun kv : akey * att => negb ((ak_owner (fst kv) =? 2) && (ak_warp (fst kv) =? w))) (a_eatt a))
    with (fkey (fun k : akey => negb ((ak_owner k =? 2) && (ak_warp k =? w))) (a_eatt a)).
  split; cbn [a_insts a_nodes a_edges a_natt a_eatt].
  - intros w'. unfold get_inst, delete_instance. cbn. destruct (N.eq_dec w' w) as [->|Hne].
    + rewrite (find_del_same N.compare n_eq n_tr) by apply R.
      rewrite (find_del_same N.compare n_eq n_tr) by apply Ws. reflexivity.
    + rewrite !(find_del_other N.compare n_eq) by exact Hne. apply (rep_insts a s R).
  - apply (sorted_filter nkey_cmp nk_order (fun k => negb (fst k =? w))). apply R.
  - apply (sorted_filter nkey_cmp nk_order (fun k => negb (fst k =? w))). apply R.
  - apply (del_sorted N.compare n_tr). apply R.
  - apply (sorted_filter akey_cmp akey_order (fun k => negb ((ak_owner k =? 1) && (ak_warp k =? w)))). apply R.
  - apply (sorted_filter akey_cmp akey_order (fun k => negb ((ak_owner k =? 2) && (ak_warp k =? w)))). apply R.
  - intros w' n ty.
    change (filter _ (a_nodes a)) with (fkey (fun k : nkey => negb (fst k =? w)) (a_nodes a)).
    rewrite (find_filter nkey_cmp nk_order (fun k => negb (fst k =? w)) (w', n)) by apply R.
    cbn [fst]. rewrite GS. destruct (w' =? w); cbn [negb].
    + split; [discriminate|intros (st & E & _); discriminate].
    + apply (rep_nodes a s R).
  - intros w' n.
    change (filter _ (a_natt a)) with (fkey (fun k : akey => negb ((ak_owner k =? 1) && (ak_warp k =? w))) (a_natt a)).
    rewrite (find_filter akey_cmp akey_order (fun k => negb ((ak_owner k =? 1) && (ak_warp k =? w))) (node_alpha w' n)) by apply R.
    cbn [ak_owner ak_warp node_alpha]. rewrite GS. change (1 =? 1) with true. cbn [andb].
    destruct (w' =? w); cbn [negb]; [reflexivity|apply (rep_natt a s R)].
  - intros w' n.
    change (filter _ (a_eatt a)) with (fkey (fun k : akey => negb ((ak_owner k =? 2) && (ak_warp k =? w))) (a_eatt a)).
    rewrite (find_filter akey_cmp akey_order (fun k => negb ((ak_owner k =? 2) && (ak_warp k =? w))) (edge_beta w' n)) by apply R.
    cbn [ak_owner ak_warp edge_beta]. rewrite GS. change (2 =? 2) with true. cbn [andb].
    destruct (w' =? w); cbn [negb]; [reflexivity|apply (rep_eatt a s R)].
  - intros w' eid e. rewrite filter_In. cbn [fst]. rewrite GS. destruct (w' =? w); cbn [negb].
    + split; [intros [_ H]; discriminate|intros (st & E & _); discriminate].
    + rewrite (rep_edges a s R). tauto.
Qed.

(* ---- helpers for OpenPortal ---- *)
Section SetSame.
  Context {K V : Type} (cmp : K -> K -> comparison) (L : OrderLaws cmp).
  Let ceq := ol_eq cmp L.
  Let ctr := ol_trans cmp L.

  Lemma set_same k v (m : list (K * V)) : sorted cmp m -> find cmp k m = Some v -> set cmp k v m = m.
  Proof.
    induction m as [|[k1 v1] r IH]; cbn; intros Hs F; [discriminate|].
    destruct Hs as [Hlb Hs]. destruct (cmp k k1) eqn:E.
    - apply ceq in E. subst k1. inversion F; subst. reflexivity.
    - exfalso. assert (H : find cmp k r = None); [|congruence].
      apply (find_lb_none cmp ctr); [exact Hs|]. destruct r as [|[k2 v2] r2]; [exact I|]. cbn in *. eapply ctr; eauto.
    - f_equal. apply IH; auto.
  Qed.

  Lemma set_set k v1 v2 (m : list (K * V)) : set cmp k v2 (set cmp k v1 m) = set cmp k v2 m.
  Proof.
    induction m as [|[k1 v'] r IH]; cbn.
    - rewrite (proj2 (ceq k k) eq_refl). reflexivity.
    - destruct (cmp k k1) eqn:E; cbn.
      + rewrite (proj2 (ceq k k) eq_refl). reflexivity.
      + rewrite (proj2 (ceq k k) eq_refl). reflexivity.
      + rewrite E. f_equal. exact IH.
  Qed.
End SetSame.

Lemma akey_eqb_eq a b : akey_eqb a b = true -> a = b.
Proof.
  destruct a, b. unfold akey_eqb. cbn. rewrite !andb_true_iff, !N.eqb_eq. intros [[[-> ->] ->] ->]. reflexivity.
Qed.

Lemma rep_set_inst_same a s w i :
  Rep a s -> get_inst s w = Some i ->
  Rep (mkAcc (set N.compare w i (a_insts a)) (a_nodes a) (a_edges a) (a_natt a) (a_eatt a)) s.
Proof.
  intros R Ei. split; cbn [a_insts a_nodes a_edges a_natt a_eatt]; try apply R.
  - intros w'. destruct (N.eq_dec w' w) as [->|Hne].
    + rewrite (find_set_same N.compare n_eq). symmetry. exact Ei.
    + rewrite (find_set_other N.compare n_eq) by exact Hne. apply (rep_insts a s R).
  - apply (set_sorted N.compare n_eq n_as). apply R.
Qed.

Lemma step_set_att a s k v :
  WfState s -> Rep a s -> plane_valid k = true -> is_some (get_store s (ak_warp k)) = true ->
  Rep (acc_set_att a k v) (set_att_raw s k v).
Proof.
  intros Ws R PV HS. destruct k as [o p w l]. unfold plane_valid in PV. cbn [ak_owner ak_plane ak_warp ak_local] in *.
  unfold set_att_raw, acc_set_att. cbn [ak_owner ak_plane ak_warp ak_local].
  destruct (get_store s w) as [st|] eqn:Est; [|discriminate].
  pose proof (wst_store s Ws w st Est) as Wst.
  apply orb_true_iff in PV. destruct PV as [PV|PV]; apply andb_true_iff in PV; destruct PV as [Po Pp];
    apply N.eqb_eq in Po, Pp; subst o p.
  - change (1 =? 1) with true. cbv iota. apply (step_set_natt a s w st l v Wst R Est).
  - change (2 =? 1) with false. cbv iota. apply (step_set_eatt a s w st l v Wst R Est).
Qed.

Lemma owner_exists_inv s k w0 : owner_exists s k = Ok w0 ->
  plane_valid k = true /\ exists st, get_store s (ak_warp k) = Some st /\
    (if ak_owner k =? 1 then exists ty, find N.compare (ak_local k) (st_nodes st) = Some ty
     else has_edge st (ak_local k) = true).
Proof.
  unfold owner_exists. destruct (plane_valid k); cbn [negb]; [|discriminate].
  destruct (get_store s (ak_warp k)) as [st|]; [|discriminate]. intros H. split; [reflexivity|].
  exists st. split; [reflexivity|]. destruct (ak_owner k =? 1).
  - destruct (find N.compare (ak_local k) (st_nodes st)) as [ty|]; [exists ty; reflexivity|discriminate].
  - destruct (has_edge st (ak_local k)); [reflexivity|discriminate].
Qed.

Lemma acc_owner_check a s k st : Rep a s -> get_store s (ak_warp k) = Some st ->
  (if ak_owner k =? 1 then exists ty, find N.compare (ak_local k) (st_nodes st) = Some ty
   else has_edge st (ak_local k) = true) ->
  (if ak_owner k =? 1 then mem nkey_cmp (ak_warp k, ak_local k) (a_nodes a)
   else mem nkey_cmp (ak_warp k, ak_local k) (a_edges a)) = true.
Proof.
  intros R Est H. destruct (ak_owner k =? 1).
  - destruct H as (ty & F). apply (L_nodes a s _ st R Est) in F. unfold mem. rewrite F. reflexivity.
  - unfold has_edge, edge_owner in H.
    destruct (List.find (fun e => e_id e =? ak_local k) (all_edges st)) as [e|] eqn:F; [|discriminate].
    apply find_some in F. destruct F as [He Hid]. apply N.eqb_eq in Hid.
    assert (Hin : In ((ak_warp k, ak_local k), e) (a_edges a)) by (apply (L_edges a s _ st R Est); auto).
    apply (in_find nkey_cmp nk_eq nk_as nk_tr) in Hin; [|apply R]. unfold mem. rewrite Hin. reflexivity.
Qed.

Lemma step_open_portal a s k cw croot pi s' :
  WfState s -> Rep a s -> apply_open_portal s k cw croot pi = Ok s' ->
  exists a', acc_apply_op a (OpenPortal k cw croot pi) = Some a' /\ Rep a' s'.
Proof.
  intros Ws R H. unfold apply_open_portal in H.
  destruct (owner_exists s k) as [w0|] eqn:OE; [|discriminate].
  destruct (owner_exists_inv s k w0 OE) as (PV & stk & Estk & Hown).
  pose proof (acc_owner_check a s k stk R Estk Hown) as Hchk.
  cbn [acc_apply_op]. rewrite Hchk. cbn [negb].
  destruct (get_inst s cw) as [ex|] eqn:Ei.
  - destruct (oakey_eqb (i_parent ex) (Some k) && (i_root ex =? croot)) eqn:M; cbn [negb] in H; [|discriminate].
    apply andb_true_iff in M. destruct M as [M1 M2]. apply N.eqb_eq in M2.
    assert (Eex : ex = mkInst croot (Some k)).
    { destruct ex as [ro pa]. cbn in *. subst ro. destruct pa as [k'|]; [|discriminate].
      cbn in M1. apply akey_eqb_eq in M1. subst. reflexivity. }
    destruct (get_store s cw) as [cst|] eqn:Ec; [|discriminate].
    destruct pi as [ty|].
    + destruct (find N.compare croot (st_nodes cst)) as [ty'|] eqn:Fr.
      * destruct (ty' =? ty) eqn:Et; [|discriminate]. apply N.eqb_eq in Et. subst ty'. inversion H; subst s'. clear H.
        eexists. split; [reflexivity|].
        apply step_set_att; [exact Ws| |exact PV|rewrite Estk; reflexivity].
        assert (Hn : set nkey_cmp (cw, croot) ty (a_nodes a) = a_nodes a).
        { apply (set_same nkey_cmp nk_order); [apply R|]. apply (L_nodes a s cw cst R Ec). exact Fr. }
        rewrite Hn. apply (rep_set_inst_same a s cw); [exact R|rewrite Ei, Eex; reflexivity].
      * inversion H; subst s'. clear H.
        eexists. split; [reflexivity|].
        assert (Ws1 : WfState (put_store s cw (insert_node cst croot ty))).
        { apply wf_put_store; [exact Ws|rewrite Ec; reflexivity|]. apply wf_insert_node. apply (wst_store s Ws cw); exact Ec. }
        apply step_set_att; [exact Ws1| |exact PV|].
        -- apply (rep_set_inst_same (mkAcc (a_insts a) (set nkey_cmp (cw, croot) ty (a_nodes a)) (a_edges a) (a_natt a) (a_eatt a))).
           ++ apply (step_upsert_node a s cw cst croot ty R Ec).
           ++ unfold get_inst, put_store. cbn. fold (get_inst s cw). rewrite Ei, Eex. reflexivity.
        -- rewrite get_put. destruct (ak_warp k =? cw); [reflexivity|rewrite Estk; reflexivity].
    + destruct (find N.compare croot (st_nodes cst)) as [ty'|] eqn:Fr; [|discriminate].
      inversion H; subst s'. clear H.
      rewrite (rep_insts a s R), Ei. rewrite Eex. cbn [i_parent i_root].
      assert (Hk : oakey_eqb (Some k) (Some k) = true).
      { cbn. destruct k. unfold akey_eqb. cbn. rewrite !N.eqb_refl. reflexivity. }
      rewrite Hk, N.eqb_refl. cbn [andb].
      assert (Hm : mem nkey_cmp (cw, croot) (a_nodes a) = true).
      { unfold mem. rewrite (proj2 (L_nodes a s cw cst R Ec croot ty') Fr). reflexivity. }
      rewrite Hm. eexists. split; [reflexivity|].
      apply step_set_att; [exact Ws|exact R|exact PV|rewrite Estk; reflexivity].
  - destruct pi as [ty|]; [|discriminate]. inversion H; subst s'. clear H.
    eexists. split; [reflexivity|].
    assert (Ecn : get_store s cw = None).
    { pose proof (wst_sync s Ws cw) as Y. rewrite Ei in Y. destruct (get_store s cw); [discriminate|reflexivity]. }
    set (inst := mkInst croot (Some k)).
    set (X := insert_node empty_store croot ty).
    assert (Es1 : mkState (set N.compare cw X (s_stores s)) (set N.compare cw inst (s_insts s))
                  = put_store (upsert_instance s cw inst) cw X).
    { unfold put_store, upsert_instance. cbn. rewrite Ecn. rewrite (set_set N.compare N_order). reflexivity. }
    rewrite Es1.
    assert (Eu : get_store (upsert_instance s cw inst) cw = Some empty_store).
    { unfold upsert_instance, get_store. cbn. fold (get_store s cw). rewrite Ecn. apply (find_set_same N.compare n_eq). }
    assert (Wu : WfState (upsert_instance s cw inst)) by (apply wf_upsert_instance; exact Ws).
    assert (Ws1 : WfState (put_store (upsert_instance s cw inst) cw X)).
    { apply wf_put_store; [exact Wu|rewrite Eu; reflexivity|]. apply wf_insert_node, wf_empty_store. }
    apply step_set_att; [exact Ws1| |exact PV|].
    + apply (step_upsert_node (mkAcc (set N.compare cw inst (a_insts a)) (a_nodes a) (a_edges a) (a_natt a) (a_eatt a))
               (upsert_instance s cw inst) cw empty_store croot ty); [|exact Eu].
      apply step_upsert_inst; exact R.
    + rewrite get_put. destruct (ak_warp k =? cw); [reflexivity|].
      unfold upsert_instance, get_store. cbn. destruct (N.eq_dec (ak_warp k) cw) as [E|Hne].
      * rewrite E. rewrite (find_set_same N.compare n_eq). reflexivity.
      * rewrite (find_set_other N.compare n_eq) by exact Hne. fold (get_store s (ak_warp k)). rewrite Estk. reflexivity.
Qed.

(* one op: whenever the store accepts it, the accumulator does not panic and still represents it *)
Lemma step_op a s op s' :
  WfState s -> Rep a s -> apply_op s op = Ok s' ->
  exists a', acc_apply_op a op = Some a' /\ Rep a' s'.
Proof.
  intros Ws R H. destruct op as [k cw croot pi|w root p|w|w id ty|w id|w e|w from id|k v]; cbn [apply_op] in H.
  - eapply step_open_portal; eauto.
  - inversion H; subst. eexists. split; [reflexivity|]. apply step_upsert_inst; exact R.
  - destruct (get_inst s w); [|discriminate]. inversion H; subst. eexists. split; [reflexivity|].
    apply step_delete_inst; assumption.
  - destruct (get_store s w) as [st|] eqn:Es; [|discriminate]. inversion H; subst. eexists. split; [reflexivity|].
    apply step_upsert_node; assumption.
  - destruct (get_store s w) as [st|] eqn:Es; [|discriminate].
    destruct (delete_node_isolated st id) as [st' res] eqn:Hd. destruct res; try discriminate. inversion H; subst.
    destruct (step_delete_node a s w st id st' (wst_store s Ws w st Es) R Es Hd) as [Hx HR].
    cbn [acc_apply_op]. rewrite Hx. eexists. split; [reflexivity|exact HR].
  - destruct (get_store s w) as [st|] eqn:Es; [|discriminate]. inversion H; subst. eexists. split; [reflexivity|].
    apply step_upsert_edge; [apply (wst_store s Ws w); exact Es|exact R|exact Es].
  - destruct (get_store s w) as [st|] eqn:Es; [|discriminate].
    destruct (delete_edge_exact st from id) as [st' ok] eqn:Hd. destruct ok; [|discriminate]. inversion H; subst.
    apply delete_edge_exact_inv in Hd. subst st'. eexists. split; [reflexivity|].
    apply step_delete_edge; [apply (wst_store s Ws w); exact Es|exact R|exact Es].
  - unfold apply_set_attachment in H. destruct (owner_exists s k) as [w0|] eqn:OE; [|discriminate].
    inversion H; subst. destruct (owner_exists_inv s k w0 OE) as (PV & stk & Estk & _).
    eexists. split; [reflexivity|]. apply step_set_att; [exact Ws|exact R|exact PV|rewrite Estk; reflexivity].
Qed.

Lemma steps_ops ops : forall a s t s' t',
  WfState s -> Rep a s -> apply_ops_go s ops t = (None, s', t') ->
  exists a', acc_apply a ops = Some a' /\ Rep a' s' /\ WfState s'.
Proof.
  induction ops as [|op r IH]; cbn [apply_ops_go acc_apply]; intros a s t s' t' Ws R H.
  - inversion H; subst. exists a. auto.
  - destruct (apply_op s op) as [s1|e] eqn:E; [|discriminate].
    destruct (step_op a s op s1 Ws R E) as (a1 & Ea & R1). rewrite Ea.
    eapply (IH a1 s1); [eapply apply_op_wf; eauto|exact R1|exact H].
Qed.

(* acc_refines_store: an op sequence the store accepts never panics the accumulator, and the
   accumulator built from the pre-state + ops has the post-state's state root *)
Theorem acc_refines_store_w s ops s' :
  wf_state s = true -> apply_ops s ops = (None, s') ->
  exists a', acc_apply (from_state s) ops = Some a' /\
             forall r, acc_root_preimage a' r = root_preimage s' r.
Proof.
  intros W H. pose proof (wf_state_to_prop s W) as Ws. pose proof (from_state_rep s W) as R.
  unfold apply_ops in H. destruct (apply_ops_go s ops false) as [[[e|] s1] t1] eqn:G.
  - inversion H.
  - assert (s1 = s') by (destruct t1; inversion H; reflexivity). subst s1.
    destruct (steps_ops ops _ s false s' t1 Ws R G) as (a' & Ea & R' & Ws').
    exists a'. split; [exact Ea|]. intros r.
    apply acc_agrees_rep; [apply wf_state_of_prop; exact Ws'|exact R'].
Qed.
