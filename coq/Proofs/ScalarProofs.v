(* C19 proofs.  Part A: bit-pattern algebra (no Flocq content, closed under the global context).
   Part B: symmetry of sin/cos for arbitrary float primitives.  Part C: table facts and range.
   Part D: Q32.32.  Part E: PRNG. *)
From Coq Require Import NArith ZArith List Bool Lia.
From Flocq Require Import Core IEEE754.BinarySingleNaN IEEE754.Binary IEEE754.Bits.
From Echo Require Import Model.TrigTable Model.Scalar.
Import ListNotations.
Open Scope N_scope.

Ltac Zify.zify_post_hook ::= Z.to_euclidean_division_equations.

(* ------------------------------------------------------------------ Part A *)

Ltac unfold_bits :=
  unfold canonical, canonicalb, new, codec_canonicalize_f32, add_pos_zero, czero, is_zero, fneg, fabs,
         is_nan, is_inf, is_finite, is_subnormal, sign_of, expo, mant,
         CANON_NAN, NEG_ZERO, ONE, TWO31, TWO32, TWO23 in *.

Ltac split_bools :=
  repeat match goal with
  | |- context [?a =? ?b] => destruct (N.eqb_spec a b)
  | |- context [?a <=? ?b] => destruct (N.leb_spec a b)
  | |- context [?a <? ?b] => destruct (N.ltb_spec a b)
  | H : context [?a =? ?b] |- _ => destruct (N.eqb_spec a b)
  | H : context [?a <=? ?b] |- _ => destruct (N.leb_spec a b)
  | H : context [?a <? ?b] |- _ => destruct (N.ltb_spec a b)
  end.

Ltac bits := unfold_bits; split_bools; cbn [andb orb negb] in *; intros; try discriminate; try lia.

Lemma canonicalb_spec : forall b, canonicalb b = true <-> canonical b.
Proof.
  intro b. unfold canonical, canonicalb.
  rewrite !andb_true_iff, orb_true_iff, !negb_true_iff, N.ltb_lt, !N.eqb_neq, N.eqb_eq.
  split.
  - intros [[[H1 H2] H3] H4]. repeat split; auto.
    intro Hn. destruct H4 as [H4|H4]; [rewrite Hn in H4; discriminate | exact H4].
  - intros [H1 [H2 [H3 H4]]]. repeat split; auto.
    destruct (is_nan b); [right; auto | left; reflexivity].
Qed.

(* F32Scalar::new always lands in the canonical set: case analysis on the NaN / subnormal /
   negative-zero tests, which are tests on the exponent and mantissa fields. *)
Lemma new_canonical_l : forall b, b < TWO32 -> canonical (new b).
Proof.
  intros b Hb. unfold new.
  destruct (is_nan b) eqn:Hn.
  - apply canonicalb_spec. vm_compute. reflexivity.
  - destruct (is_subnormal b) eqn:Hs.
    + apply canonicalb_spec. vm_compute. reflexivity.
    + unfold add_pos_zero. destruct (N.eqb_spec b NEG_ZERO) as [E|E].
      * apply canonicalb_spec. vm_compute. reflexivity.
      * unfold canonical. repeat split; auto. intro H. rewrite H in Hn. discriminate.
Qed.

Lemma new_fixes_canonical : forall b, canonical b -> new b = b.
Proof.
  intros b [H1 [H2 [H3 H4]]]. unfold new.
  destruct (is_nan b) eqn:Hn.
  - symmetry. apply H4. reflexivity.
  - rewrite H3. unfold add_pos_zero. destruct (N.eqb_spec b NEG_ZERO); [contradiction | reflexivity].
Qed.

Lemma new_idempotent_l : forall b, b < TWO32 -> new (new b) = new b.
Proof. intros b Hb. apply new_fixes_canonical. apply new_canonical_l. exact Hb. Qed.

Lemma canonical_iff_fixed : forall b, b < TWO32 -> (canonical b <-> new b = b).
Proof.
  intros b Hb. split.
  - apply new_fixes_canonical.
  - intro H. rewrite <- H. apply new_canonical_l. exact Hb.
Qed.

Lemma codec_canonicalize_is_new : forall b, codec_canonicalize_f32 b = new b.
Proof. reflexivity. Qed.

(* Field-level reading of the canonical set: +0, a normal number of either sign, +-infinity, or the
   one quiet NaN. *)
Lemma canonical_classes_l : forall b,
  canonical b <->
  b < TWO32 /\ (b = 0 \/ (1 <= expo b <= 254) \/ b = 0x7f800000 \/ b = 0xff800000 \/ b = CANON_NAN).
Proof.
  intro b. split.
  - intros [H1 [H2 [H3 H4]]]. split; [exact H1|].
    destruct (is_nan b) eqn:Hn.
    + right; right; right; right. apply H4. reflexivity.
    + clear H4. revert H1 H2 H3 Hn. bits.
  - intros [H1 H]. apply canonicalb_spec.
    destruct H as [H|[H|[H|[H|H]]]]; try (subst b; vm_compute; reflexivity).
    revert H1 H. bits.
Qed.

(* sign-bit algebra *)
Lemma fneg_range : forall b, b < TWO32 -> fneg b < TWO32.
Proof. intros b. bits. Qed.
Lemma fabs_range : forall b, b < TWO32 -> fabs b < TWO32.
Proof. intros b. bits. Qed.
Lemma fneg_involutive : forall b, b < TWO32 -> fneg (fneg b) = b.
Proof. intros b. bits. Qed.
Lemma fabs_fneg : forall b, b < TWO32 -> fabs (fneg b) = fabs b.
Proof. intros b. bits. Qed.
Lemma sign_fneg : forall b, b < TWO32 -> sign_of (fneg b) = negb (sign_of b).
Proof. intros b. bits. Qed.
Lemma expo_fneg : forall b, b < TWO32 -> expo (fneg b) = expo b.
Proof. intros b. bits. Qed.
Lemma mant_fneg : forall b, b < TWO32 -> mant (fneg b) = mant b.
Proof. intros b. bits. Qed.
Lemma is_finite_fneg : forall b, b < TWO32 -> is_finite (fneg b) = is_finite b.
Proof. intros b Hb. unfold is_finite. rewrite expo_fneg; auto. Qed.
Lemma is_nan_fneg : forall b, b < TWO32 -> is_nan (fneg b) = is_nan b.
Proof. intros b Hb. unfold is_nan. rewrite expo_fneg, mant_fneg; auto. Qed.
Lemma is_subnormal_fneg : forall b, b < TWO32 -> is_subnormal (fneg b) = is_subnormal b.
Proof. intros b Hb. unfold is_subnormal. rewrite expo_fneg, mant_fneg; auto. Qed.
Lemma is_zero_fneg : forall b, b < TWO32 -> is_zero (fneg b) = is_zero b.
Proof. intros b. bits. Qed.
Lemma czero_range : forall b, b < TWO32 -> czero b < TWO32.
Proof. intros b. bits. Qed.

(* ------------------------------------------------------------------ Part B: closure and symmetry *)

Lemma lut_table_range : forallb (fun x => x <? TWO32) SIN_QTR_LUT_BITS = true.
Proof. vm_compute. reflexivity. Qed.

Lemma lut_range : forall i, lut i < TWO32.
Proof.
  intro i. unfold lut.
  destruct (nth_in_or_default (N.to_nat i) SIN_QTR_LUT_BITS 0) as [Hin|Hd].
  - pose proof lut_table_range as H. rewrite forallb_forall in H. apply N.ltb_lt. apply H. exact Hin.
  - rewrite Hd. reflexivity.
Qed.

Section Sym.
Variable P : prims.
Hypothesis WF : prims_wf P.

Let wf_add : forall a b, p_add P a b < TWO32. Proof. apply WF. Qed.
Let wf_sub : forall a b, p_sub P a b < TWO32. Proof. apply WF. Qed.
Let wf_mul : forall a b, p_mul P a b < TWO32. Proof. apply WF. Qed.
Let wf_div : forall a b, p_div P a b < TWO32. Proof. apply WF. Qed.

Lemma interp_range : forall a, sin_qtr_interp P a < TWO32.
Proof.
  intro a. unfold sin_qtr_interp.
  destruct (negb _); [reflexivity|].
  destruct (p_le P SIN_QTR_SEGMENTS_F32 _); [reflexivity|].
  apply wf_add.
Qed.

(* the part of sin_cos_f32 that sees only |angle| *)
Definition trig_core (m : N) : N * N :=
    let r := p_rem P m TAU in
    let '(quadrant, a) :=
      if p_lt P r FRAC_PI_2 then (0, r)
      else if p_lt P r PI then (1, p_sub P r FRAC_PI_2)
      else if p_lt P r (FRAC_3PI_2 P) then (2, p_sub P r PI)
      else (3, p_sub P r (FRAC_3PI_2 P)) in
    let s := sin_qtr_interp P a in
    let c := sin_qtr_interp P (p_sub P FRAC_PI_2 a) in
      match quadrant with
      | 0 => (s, c)
      | 1 => (c, fneg s)
      | 2 => (fneg s, fneg c)
      | _ => (fneg c, s)
      end.

Lemma trig_core_range : forall m, fst (trig_core m) < TWO32 /\ snd (trig_core m) < TWO32.
Proof.
  intro m. unfold trig_core.
  destruct (p_lt P _ FRAC_PI_2); [|destruct (p_lt P _ PI); [|destruct (p_lt P _ (FRAC_3PI_2 P))]];
    cbn [fst snd]; split; try apply fneg_range; apply interp_range.
Qed.

Lemma sin_cos_shape : forall x, is_finite x = true ->
  sin_cos P x = (czero (if sign_of x then fneg (fst (trig_core (fabs x))) else fst (trig_core (fabs x))),
                 czero (snd (trig_core (fabs x)))).
Proof.
  intros x Hf. unfold sin_cos, trig_core. rewrite Hf. cbn [negb].
  destruct (p_lt P _ FRAC_PI_2); [|destruct (p_lt P _ PI); [|destruct (p_lt P _ (FRAC_3PI_2 P))]];
    reflexivity.
Qed.

Lemma sin_cos_range : forall x, fst (sin_cos P x) < TWO32 /\ snd (sin_cos P x) < TWO32.
Proof.
  intro x. destruct (is_finite x) eqn:Hf.
  - rewrite sin_cos_shape by exact Hf. cbn [fst snd].
    destruct (trig_core_range (fabs x)) as [H1 H2].
    split; apply czero_range; [destruct (sign_of x); [apply fneg_range|]|]; assumption.
  - unfold sin_cos. rewrite Hf. cbn. split; reflexivity.
Qed.

(* every F32Scalar operation returns `new` of a 32-bit pattern, hence a canonical value *)
Lemma ops_closed_l : forall a b, a < TWO32 ->
  canonical (s_add P a b) /\ canonical (s_sub P a b) /\ canonical (s_mul P a b) /\ canonical (s_div P a b) /\
  canonical (s_neg a) /\ canonical (s_sin P a) /\ canonical (s_cos P a) /\
  canonical (fst (s_sin_cos P a)) /\ canonical (snd (s_sin_cos P a)).
Proof.
  intros a b Ha. unfold s_add, s_sub, s_mul, s_div, s_neg, s_sin, s_cos, s_sin_cos. cbn [fst snd].
  destruct (sin_cos_range a) as [H1 H2].
  repeat split; apply new_canonical_l; auto using fneg_range.
Qed.

Lemma new_czero_fneg : forall y, y < TWO32 -> new (czero (fneg y)) = new (fneg (new (czero y))).
Proof.
  intros y Hy. unfold czero. rewrite is_zero_fneg by exact Hy.
  destruct (is_zero y) eqn:Hz.
  - vm_compute. reflexivity.
  - unfold new at 1 3. rewrite is_nan_fneg, is_subnormal_fneg by exact Hy.
    destruct (is_nan y) eqn:Hn; [vm_compute; reflexivity|].
    destruct (is_subnormal y) eqn:Hs; [vm_compute; reflexivity|].
    assert (E : add_pos_zero y = y).
    { revert Hz. clear. bits. }
    rewrite E.
    unfold new. rewrite is_nan_fneg, is_subnormal_fneg, Hn, Hs by exact Hy. reflexivity.
Qed.

Lemma s_neg_nonzero : forall x, canonical x -> x <> 0 -> is_nan x = false -> s_neg x = fneg x.
Proof.
  intros x Hc Hx Hn. destruct Hc as [H1 [H2 [H3 H4]]].
  unfold s_neg, new. rewrite is_nan_fneg, is_subnormal_fneg, Hn, H3 by exact H1.
  revert H1 H2 Hx. clear. bits.
Qed.

(* sin(-x) = -(sin x) bit for bit, for every canonical non-zero x, whatever the float primitives compute *)
Lemma sin_odd_l : forall x, canonical x -> x <> 0 -> s_sin P (s_neg x) = s_neg (s_sin P x).
Proof.
  intros x Hc Hx. pose proof Hc as [H1 [H2 [H3 H4]]].
  destruct (is_nan x) eqn:Hn.
  - rewrite (H4 eq_refl). vm_compute. reflexivity.
  - rewrite s_neg_nonzero by assumption.
    unfold s_sin, s_neg.
    destruct (is_finite x) eqn:Hf.
    + rewrite !sin_cos_shape by (rewrite ?is_finite_fneg; assumption).
      cbn [fst]. rewrite fabs_fneg, sign_fneg by exact H1.
      destruct (trig_core_range (fabs x)) as [R1 _].
      set (s1 := fst (trig_core (fabs x))) in *.
      destruct (sign_of x); cbn [negb].
      * rewrite <- (new_czero_fneg (fneg s1)) by (apply fneg_range; exact R1).
        rewrite fneg_involutive by exact R1. reflexivity.
      * apply new_czero_fneg. exact R1.
    + unfold sin_cos. rewrite is_finite_fneg, Hf by exact H1. vm_compute. reflexivity.
Qed.

(* cos(-x) = cos x bit for bit, for every canonical x *)
Lemma cos_even_l : forall x, canonical x -> s_cos P (s_neg x) = s_cos P x.
Proof.
  intros x Hc. pose proof Hc as [H1 [H2 [H3 H4]]].
  destruct (N.eq_dec x 0) as [E|Hx]; [subst x; reflexivity|].
  destruct (is_nan x) eqn:Hn.
  - rewrite (H4 eq_refl). vm_compute. reflexivity.
  - rewrite s_neg_nonzero by assumption. unfold s_cos.
    destruct (is_finite x) eqn:Hf.
    + rewrite !sin_cos_shape by (rewrite ?is_finite_fneg; assumption).
      cbn [snd]. rewrite fabs_fneg by exact H1. reflexivity.
    + unfold sin_cos. rewrite is_finite_fneg, Hf by exact H1. reflexivity.
Qed.

End Sym.

(* ------------------------------------------------------------------ Part C: the Flocq instance *)

Lemma bits32_range : forall f, bits32 f < TWO32.
Proof.
  intro f. unfold bits32, bits_of_b32.
  pose proof (bits_of_binary_float_range 23 8 eq_refl eq_refl f) as H.
  change (2 ^ (23 + 8 + 1))%Z with 4294967296%Z in H. unfold TWO32. lia.
Qed.

Lemma f_rem_euclid_range : forall a b, f_rem_euclid a b < TWO32.
Proof.
  intros a b. unfold f_rem_euclid.
  assert (Hm : f_fmod a b < TWO32).
  { unfold f_fmod. destruct (b32 a); destruct (b32 b); try apply bits32_range; reflexivity. }
  destruct (f_lt _ 0); [apply bits32_range | exact Hm].
Qed.

Lemma f_truncf_range : forall a, f_truncf a < TWO32.
Proof.
  intros a. unfold f_truncf. destruct (b32 a); try apply bits32_range.
  destruct (0 <=? e)%Z; apply bits32_range.
Qed.

Lemma flocq_prims_wf : prims_wf flocq_prims.
Proof.
  unfold prims_wf, flocq_prims; cbn.
  repeat split; intros; try apply bits32_range; auto using f_rem_euclid_range, f_truncf_range.
Qed.

(* the checked-in table: 1025 entries, starts at +0.0, ends at 1.0, non-decreasing as bit patterns
   (all entries are non-negative floats, for which bit order is numeric order), so every entry is in [0, 1] *)
Fixpoint nondecreasing (l : list N) : bool :=
  match l with
  | a :: (b :: _) as t => (a <=? b) && nondecreasing t
  | _ => true
  end.

Lemma lut_facts :
  length SIN_QTR_LUT_BITS = 1025%nat /\ SIN_QTR_SEGMENTS = 1024 /\ SIN_QTR_SEGMENTS_F32 = 0x44800000 /\
  lut 0 = 0 /\ lut 1024 = ONE /\ nondecreasing SIN_QTR_LUT_BITS = true /\
  forallb (fun x => x <=? ONE) SIN_QTR_LUT_BITS = true.
Proof. vm_compute. repeat split; reflexivity. Qed.

Lemma lut_le_one : forall i, lut i <= ONE.
Proof.
  intro i. unfold lut.
  destruct (nth_in_or_default (N.to_nat i) SIN_QTR_LUT_BITS 0) as [Hin|Hd].
  - destruct lut_facts as (_ & _ & _ & _ & _ & _ & H). rewrite forallb_forall in H.
    apply N.leb_le. apply H. exact Hin.
  - rewrite Hd. discriminate.
Qed.

Lemma sin_zero_flocq : s_sin flocq_prims 0 = 0 /\ s_cos flocq_prims 0 = ONE.
Proof. vm_compute. split; reflexivity. Qed.

(* full statements for the binary32 instance, zero included *)
Lemma sin_odd_flocq : forall x, canonical x -> s_sin flocq_prims (s_neg x) = s_neg (s_sin flocq_prims x).
Proof.
  intros x Hc. destruct (N.eq_dec x 0) as [E|Hx].
  - subst x. vm_compute. reflexivity.
  - apply sin_odd_l; [apply flocq_prims_wf | exact Hc | exact Hx].
Qed.
