(* C19 proofs.  Part A: bit-pattern algebra (no Flocq content, closed under the global context).
   Part B: symmetry of sin/cos for arbitrary float primitives.  Part C: table facts and range.
   Part D: Q32.32.  Part E: PRNG. *)
From Coq Require Import NArith ZArith List Bool Lia Reals Lra.
From Flocq Require Import Core IEEE754.BinarySingleNaN IEEE754.Binary IEEE754.Bits.
From Echo Require Import Model.TrigTable Model.Scalar.
Import ListNotations.
Open Scope N_scope.

Ltac Zify.zify_post_hook ::= Z.to_euclidean_division_equations.

(* ------------------------------------------------------------------ Part A *)

Ltac unfold_bits :=
  unfold canonical, canonicalb, new, codec_canonicalize_f32, add_pos_zero, czero, is_zero, fneg, fabs,
         is_nan, is_inf, is_finite, is_subnormal, sign_of, expo, mant,
         CANON_NAN, NEG_ZERO, ONE, TWO31, TWO32, TWO23 in *.

Ltac split_bools :=
  repeat match goal with
  | |- context [?a =? ?b] => destruct (N.eqb_spec a b)
  | |- context [?a <=? ?b] => destruct (N.leb_spec a b)
  | |- context [?a <? ?b] => destruct (N.ltb_spec a b)
  | H : context [?a =? ?b] |- _ => destruct (N.eqb_spec a b)
  | H : context [?a <=? ?b] |- _ => destruct (N.leb_spec a b)
  | H : context [?a <? ?b] |- _ => destruct (N.ltb_spec a b)
  end.

Ltac bits := unfold_bits; split_bools; cbn [andb orb negb] in *; intros; try discriminate; try lia.

Lemma canonicalb_spec : forall b, canonicalb b = true <-> canonical b.
Proof.
  intro b. unfold canonical, canonicalb.
  rewrite !andb_true_iff, orb_true_iff, !negb_true_iff, N.ltb_lt, !N.eqb_neq, N.eqb_eq.
  split.
  - intros [[[H1 H2] H3] H4]. repeat split; auto.
    intro Hn. destruct H4 as [H4|H4]; [rewrite Hn in H4; discriminate | exact H4].
  - intros [H1 [H2 [H3 H4]]]. repeat split; auto.
    destruct (is_nan b); [right; auto | left; reflexivity].
Qed.

(* F32Scalar::new always lands in the canonical set: case analysis on the NaN / subnormal /
   negative-zero tests, which are tests on the exponent and mantissa fields. *)
Lemma new_canonical_l : forall b, b < TWO32 -> canonical (new b).
Proof.
  intros b Hb. unfold new.
  destruct (is_nan b) eqn:Hn.
  - apply canonicalb_spec. vm_compute. reflexivity.
  - destruct (is_subnormal b) eqn:Hs.
    + apply canonicalb_spec. vm_compute. reflexivity.
    + unfold add_pos_zero. destruct (N.eqb_spec b NEG_ZERO) as [E|E].
      * apply canonicalb_spec. vm_compute. reflexivity.
      * unfold canonical. repeat split; auto. intro H. rewrite H in Hn. discriminate.
Qed.

Lemma new_fixes_canonical : forall b, canonical b -> new b = b.
Proof.
  intros b [H1 [H2 [H3 H4]]]. unfold new.
  destruct (is_nan b) eqn:Hn.
  - symmetry. apply H4. reflexivity.
  - rewrite H3. unfold add_pos_zero. destruct (N.eqb_spec b NEG_ZERO); [contradiction | reflexivity].
Qed.

Lemma new_idempotent_l : forall b, b < TWO32 -> new (new b) = new b.
Proof. intros b Hb. apply new_fixes_canonical. apply new_canonical_l. exact Hb. Qed.

Lemma canonical_iff_fixed : forall b, b < TWO32 -> (canonical b <-> new b = b).
Proof.
  intros b Hb. split.
  - apply new_fixes_canonical.
  - intro H. rewrite <- H. apply new_canonical_l. exact Hb.
Qed.

Lemma codec_canonicalize_is_new : forall b, codec_canonicalize_f32 b = new b.
Proof. reflexivity. Qed.

(* Field-level reading of the canonical set: +0, a normal number of either sign, +-infinity, or the
   one quiet NaN. *)
Lemma canonical_classes_l : forall b,
  canonical b <->
  b < TWO32 /\ (b = 0 \/ (1 <= expo b <= 254) \/ b = 0x7f800000 \/ b = 0xff800000 \/ b = CANON_NAN).
Proof.
  intro b. split.
  - intros [H1 [H2 [H3 H4]]]. split; [exact H1|].
    destruct (is_nan b) eqn:Hn.
    + right; right; right; right. apply H4. reflexivity.
    + clear H4. revert H1 H2 H3 Hn. bits.
  - intros [H1 H]. apply canonicalb_spec.
    destruct H as [H|[H|[H|[H|H]]]]; try (subst b; vm_compute; reflexivity).
    revert H1 H. bits.
Qed.

(* sign-bit algebra *)
Lemma fneg_range : forall b, b < TWO32 -> fneg b < TWO32.
Proof. intros b. bits. Qed.
Lemma fabs_range : forall b, b < TWO32 -> fabs b < TWO32.
Proof. intros b. bits. Qed.
Lemma fneg_involutive : forall b, b < TWO32 -> fneg (fneg b) = b.
Proof. intros b. bits. Qed.
Lemma fabs_fneg : forall b, b < TWO32 -> fabs (fneg b) = fabs b.
Proof. intros b. bits. Qed.
Lemma sign_fneg : forall b, b < TWO32 -> sign_of (fneg b) = negb (sign_of b).
Proof. intros b. bits. Qed.
Lemma expo_fneg : forall b, b < TWO32 -> expo (fneg b) = expo b.
Proof. intros b. bits. Qed.
Lemma mant_fneg : forall b, b < TWO32 -> mant (fneg b) = mant b.
Proof. intros b. bits. Qed.
Lemma is_finite_fneg : forall b, b < TWO32 -> is_finite (fneg b) = is_finite b.
Proof. intros b Hb. unfold is_finite. rewrite expo_fneg; auto. Qed.
Lemma is_nan_fneg : forall b, b < TWO32 -> is_nan (fneg b) = is_nan b.
Proof. intros b Hb. unfold is_nan. rewrite expo_fneg, mant_fneg; auto. Qed.
Lemma is_subnormal_fneg : forall b, b < TWO32 -> is_subnormal (fneg b) = is_subnormal b.
Proof. intros b Hb. unfold is_subnormal. rewrite expo_fneg, mant_fneg; auto. Qed.
Lemma is_zero_fneg : forall b, b < TWO32 -> is_zero (fneg b) = is_zero b.
Proof. intros b. bits. Qed.
Lemma czero_range : forall b, b < TWO32 -> czero b < TWO32.
Proof. intros b. bits. Qed.

(* ------------------------------------------------------------------ Part B: closure and symmetry *)

Lemma lut_table_range : forallb (fun x => x <? TWO32) SIN_QTR_LUT_BITS = true.
Proof. vm_compute. reflexivity. Qed.

Lemma lut_range : forall i, lut i < TWO32.
Proof.
  intro i. unfold lut.
  destruct (nth_in_or_default (N.to_nat i) SIN_QTR_LUT_BITS 0) as [Hin|Hd].
  - pose proof lut_table_range as H. rewrite forallb_forall in H. apply N.ltb_lt. apply H. exact Hin.
  - rewrite Hd. reflexivity.
Qed.

Section Sym.
Variable P : prims.
Hypothesis WF : prims_wf P.

Let wf_add : forall a b, p_add P a b < TWO32. Proof. apply WF. Qed.
Let wf_sub : forall a b, p_sub P a b < TWO32. Proof. apply WF. Qed.
Let wf_mul : forall a b, p_mul P a b < TWO32. Proof. apply WF. Qed.
Let wf_div : forall a b, p_div P a b < TWO32. Proof. apply WF. Qed.

Lemma interp_range : forall a, sin_qtr_interp P a < TWO32.
Proof.
  intro a. unfold sin_qtr_interp.
  destruct (negb _); [reflexivity|].
  destruct (p_le P SIN_QTR_SEGMENTS_F32 _); [reflexivity|].
  apply wf_add.
Qed.

(* the part of sin_cos_f32 that sees only |angle| *)
Definition trig_core (m : N) : N * N :=
    let r := p_rem P m TAU in
    let '(quadrant, a) :=
      if p_lt P r FRAC_PI_2 then (0, r)
      else if p_lt P r PI then (1, p_sub P r FRAC_PI_2)
      else if p_lt P r (FRAC_3PI_2 P) then (2, p_sub P r PI)
      else (3, p_sub P r (FRAC_3PI_2 P)) in
    let s := sin_qtr_interp P a in
    let c := sin_qtr_interp P (p_sub P FRAC_PI_2 a) in
      match quadrant with
      | 0 => (s, c)
      | 1 => (c, fneg s)
      | 2 => (fneg s, fneg c)
      | _ => (fneg c, s)
      end.

Lemma trig_core_range : forall m, fst (trig_core m) < TWO32 /\ snd (trig_core m) < TWO32.
Proof.
  intro m. unfold trig_core.
  destruct (p_lt P _ FRAC_PI_2); [|destruct (p_lt P _ PI); [|destruct (p_lt P _ (FRAC_3PI_2 P))]];
    cbn [fst snd]; split; try apply fneg_range; apply interp_range.
Qed.

Lemma sin_cos_shape : forall x, is_finite x = true ->
  sin_cos P x = (czero (if sign_of x then fneg (fst (trig_core (fabs x))) else fst (trig_core (fabs x))),
                 czero (snd (trig_core (fabs x)))).
Proof.
  intros x Hf. unfold sin_cos, trig_core. rewrite Hf. cbn [negb].
  destruct (p_lt P _ FRAC_PI_2); [|destruct (p_lt P _ PI); [|destruct (p_lt P _ (FRAC_3PI_2 P))]];
    reflexivity.
Qed.

Lemma sin_cos_range : forall x, fst (sin_cos P x) < TWO32 /\ snd (sin_cos P x) < TWO32.
Proof.
  intro x. destruct (is_finite x) eqn:Hf.
  - rewrite sin_cos_shape by exact Hf. cbn [fst snd].
    destruct (trig_core_range (fabs x)) as [H1 H2].
    split; apply czero_range; [destruct (sign_of x); [apply fneg_range|]|]; assumption.
  - unfold sin_cos. rewrite Hf. cbn. split; reflexivity.
Qed.

(* every F32Scalar operation returns `new` of a 32-bit pattern, hence a canonical value *)
Lemma ops_closed_l : forall a b, a < TWO32 ->
  canonical (s_add P a b) /\ canonical (s_sub P a b) /\ canonical (s_mul P a b) /\ canonical (s_div P a b) /\
  canonical (s_neg a) /\ canonical (s_sin P a) /\ canonical (s_cos P a) /\
  canonical (fst (s_sin_cos P a)) /\ canonical (snd (s_sin_cos P a)).
Proof.
  intros a b Ha. unfold s_add, s_sub, s_mul, s_div, s_neg, s_sin, s_cos, s_sin_cos. cbn [fst snd].
  destruct (sin_cos_range a) as [H1 H2].
  repeat split; apply new_canonical_l; auto using fneg_range.
Qed.

Lemma new_czero_fneg : forall y, y < TWO32 -> new (czero (fneg y)) = new (fneg (new (czero y))).
Proof.
  intros y Hy. unfold czero. rewrite is_zero_fneg by exact Hy.
  destruct (is_zero y) eqn:Hz.
  - vm_compute. reflexivity.
  - unfold new at 1 3. rewrite is_nan_fneg, is_subnormal_fneg by exact Hy.
    destruct (is_nan y) eqn:Hn; [vm_compute; reflexivity|].
    destruct (is_subnormal y) eqn:Hs; [vm_compute; reflexivity|].
    assert (E : add_pos_zero y = y).
    { revert Hz. clear. bits. }
    rewrite E.
    unfold new. rewrite is_nan_fneg, is_subnormal_fneg, Hn, Hs by exact Hy. reflexivity.
Qed.

Lemma s_neg_nonzero : forall x, canonical x -> x <> 0 -> is_nan x = false -> s_neg x = fneg x.
Proof.
  intros x Hc Hx Hn. destruct Hc as [H1 [H2 [H3 H4]]].
  unfold s_neg, new. rewrite is_nan_fneg, is_subnormal_fneg, Hn, H3 by exact H1.
  revert H1 H2 Hx. clear. bits.
Qed.

(* sin(-x) = -(sin x) bit for bit, for every canonical non-zero x, whatever the float primitives compute *)
Lemma sin_odd_l : forall x, canonical x -> x <> 0 -> s_sin P (s_neg x) = s_neg (s_sin P x).
Proof.
  intros x Hc Hx. pose proof Hc as [H1 [H2 [H3 H4]]].
  destruct (is_nan x) eqn:Hn.
  - rewrite (H4 eq_refl). vm_compute. reflexivity.
  - rewrite s_neg_nonzero by assumption.
    unfold s_sin, s_neg.
    destruct (is_finite x) eqn:Hf.
    + rewrite !sin_cos_shape by (rewrite ?is_finite_fneg; assumption).
      cbn [fst]. rewrite fabs_fneg, sign_fneg by exact H1.
      destruct (trig_core_range (fabs x)) as [R1 _].
      set (s1 := fst (trig_core (fabs x))) in *.
      destruct (sign_of x); cbn [negb].
      * rewrite <- (new_czero_fneg (fneg s1)) by (apply fneg_range; exact R1).
        rewrite fneg_involutive by exact R1. reflexivity.
      * apply new_czero_fneg. exact R1.
    + unfold sin_cos. rewrite is_finite_fneg, Hf by exact H1. vm_compute. reflexivity.
Qed.

(* cos(-x) = cos x bit for bit, for every canonical x *)
Lemma cos_even_l : forall x, canonical x -> s_cos P (s_neg x) = s_cos P x.
Proof.
  intros x Hc. pose proof Hc as [H1 [H2 [H3 H4]]].
  destruct (N.eq_dec x 0) as [E|Hx]; [subst x; reflexivity|].
  destruct (is_nan x) eqn:Hn.
  - rewrite (H4 eq_refl). vm_compute. reflexivity.
  - rewrite s_neg_nonzero by assumption. unfold s_cos.
    destruct (is_finite x) eqn:Hf.
    + rewrite !sin_cos_shape by (rewrite ?is_finite_fneg; assumption).
      cbn [snd]. rewrite fabs_fneg by exact H1. reflexivity.
    + unfold sin_cos. rewrite is_finite_fneg, Hf by exact H1. reflexivity.
Qed.

(* every component of sin_cos_f32 on a finite angle is 0, a quarter-wave interpolation value, or its negation *)
Definition signed_interp (v : N) : Prop :=
  v = 0 \/ exists a, v = sin_qtr_interp P a \/ v = fneg (sin_qtr_interp P a).

Lemma trig_core_signed : forall m, signed_interp (fst (trig_core m)) /\ signed_interp (snd (trig_core m)).
Proof.
  intro m. unfold trig_core.
  destruct (p_lt P _ FRAC_PI_2); [|destruct (p_lt P _ PI); [|destruct (p_lt P _ (FRAC_3PI_2 P))]];
    cbn [fst snd]; split; right; eexists; (left; reflexivity) || (right; reflexivity).
Qed.

Lemma signed_interp_czero : forall v, signed_interp v -> signed_interp (czero v).
Proof. intros v H. unfold czero. destruct (is_zero v); [left; reflexivity | exact H]. Qed.

Lemma signed_interp_neg : forall v, signed_interp v -> signed_interp (czero (fneg v)).
Proof.
  intros v [H|[a [H|H]]].
  - subst v. left. reflexivity.
  - apply signed_interp_czero. right. exists a. right. rewrite H. reflexivity.
  - apply signed_interp_czero. right. exists a. left. rewrite H. apply fneg_involutive. apply interp_range.
Qed.

Lemma sin_cos_signed_interp_l : forall x, is_finite x = true ->
  signed_interp (fst (sin_cos P x)) /\ signed_interp (snd (sin_cos P x)).
Proof.
  intros x Hf. rewrite sin_cos_shape by exact Hf. cbn [fst snd].
  destruct (trig_core_signed (fabs x)) as [H1 H2]. split.
  - destruct (sign_of x); [apply signed_interp_neg | apply signed_interp_czero]; exact H1.
  - apply signed_interp_czero. exact H2.
Qed.

End Sym.

(* ------------------------------------------------------------------ Part C: the Flocq instance *)

Lemma bits32_range : forall f, bits32 f < TWO32.
Proof.
  intro f. unfold bits32, bits_of_b32.
  pose proof (bits_of_binary_float_range 23 8 eq_refl eq_refl f) as H.
  change (2 ^ (23 + 8 + 1))%Z with 4294967296%Z in H. unfold TWO32. lia.
Qed.

Lemma f_rem_euclid_range : forall a b, f_rem_euclid a b < TWO32.
Proof.
  intros a b. unfold f_rem_euclid.
  assert (Hm : f_fmod a b < TWO32).
  { unfold f_fmod. destruct (b32 a); destruct (b32 b); try apply bits32_range; reflexivity. }
  destruct (f_lt _ 0); [apply bits32_range | exact Hm].
Qed.

Lemma f_truncf_range : forall a, f_truncf a < TWO32.
Proof.
  intros a. unfold f_truncf. destruct (b32 a); try apply bits32_range.
  destruct (0 <=? e)%Z; apply bits32_range.
Qed.

Lemma flocq_prims_wf : prims_wf flocq_prims.
Proof.
  unfold prims_wf, flocq_prims; cbn.
  repeat split; intros; try apply bits32_range; auto using f_rem_euclid_range, f_truncf_range.
Qed.

Lemma bits32_b32 : forall b, b < TWO32 -> bits32 (b32 b) = b.
Proof.
  intros b Hb. unfold bits32, b32, bits_of_b32, b32_of_bits.
  rewrite (bits_of_binary_float_of_bits 23 8 eq_refl eq_refl eq_refl).
  - apply N2Z.id.
  - change (2 ^ (23 + 8 + 1))%Z with 4294967296%Z. unfold TWO32 in Hb. lia.
Qed.

(* `x + 0.0` through the IEEE adder is the identity except that -0.0 becomes +0.0 *)
Lemma f_add_pos_zero : forall b, b < TWO32 -> f_add b 0 = add_pos_zero b.
Proof.
  intros b Hb. unfold add_pos_zero. destruct (N.eqb_spec b NEG_ZERO) as [E|NE].
  - subst b. vm_compute. reflexivity.
  - unfold f_add. change (b32 0) with (B754_zero 24 128 false).
    rewrite <- (bits32_b32 b Hb) at 2.
    assert (Hnz : b32 b <> B754_zero 24 128 true).
    { intro E. apply NE. rewrite <- (bits32_b32 b Hb), E. reflexivity. }
    f_equal. destruct (b32 b) as [s|s|s pl Hpl|s m e He]; try reflexivity.
    destruct s; [contradiction Hnz; reflexivity | reflexivity].
Qed.

Lemma new_via_adder_eq : forall b, b < TWO32 -> new_via_adder b = new b.
Proof.
  intros b Hb. unfold new_via_adder, new.
  destruct (is_nan b); [reflexivity|]. destruct (is_subnormal b); [reflexivity|].
  apply f_add_pos_zero. exact Hb.
Qed.

(* the checked-in table: 1025 entries, starts at +0.0, ends at 1.0, non-decreasing as bit patterns
   (all entries are non-negative floats, for which bit order is numeric order), so every entry is in [0, 1] *)
Fixpoint nondecreasing (l : list N) : bool :=
  match l with
  | a :: (b :: _) as t => (a <=? b) && nondecreasing t
  | _ => true
  end.

Lemma lut_facts :
  length SIN_QTR_LUT_BITS = 1025%nat /\ SIN_QTR_SEGMENTS = 1024 /\ SIN_QTR_SEGMENTS_F32 = 0x44800000 /\
  lut 0 = 0 /\ lut 1024 = ONE /\ nondecreasing SIN_QTR_LUT_BITS = true /\
  forallb (fun x => x <=? ONE) SIN_QTR_LUT_BITS = true.
Proof. vm_compute. repeat split; reflexivity. Qed.

Lemma lut_le_one : forall i, lut i <= ONE.
Proof.
  intro i. unfold lut.
  destruct (nth_in_or_default (N.to_nat i) SIN_QTR_LUT_BITS 0) as [Hin|Hd].
  - destruct lut_facts as (_ & _ & _ & _ & _ & _ & H). rewrite forallb_forall in H.
    apply N.leb_le. apply H. exact Hin.
  - rewrite Hd. discriminate.
Qed.

Lemma sin_zero_flocq : s_sin flocq_prims 0 = 0 /\ s_cos flocq_prims 0 = ONE.
Proof. vm_compute. split; reflexivity. Qed.

(* full statements for the binary32 instance, zero included *)
Lemma sin_odd_flocq : forall x, canonical x -> s_sin flocq_prims (s_neg x) = s_neg (s_sin flocq_prims x).
Proof.
  intros x Hc. destruct (N.eq_dec x 0) as [E|Hx].
  - subst x. vm_compute. reflexivity.
  - apply sin_odd_l; [apply flocq_prims_wf | exact Hc | exact Hx].
Qed.

Lemma cos_even_flocq_zero : s_cos flocq_prims (s_neg 0) = s_cos flocq_prims 0.
Proof. reflexivity. Qed.

(* ------------------------------------------------------------------ Part D: Q32.32 *)
Open Scope Z_scope.

Ltac unfold_fx := unfold in_i64, sat64, I64_MIN, I64_MAX, I128_MAX in *.
Ltac zbools :=
  repeat match goal with
  | |- context [?a =? ?b] => destruct (Z.eqb_spec a b)
  | |- context [?a <=? ?b] => destruct (Z.leb_spec a b)
  | |- context [?a <? ?b] => destruct (Z.ltb_spec a b)
  end.

Lemma sat64_range : forall v, in_i64 (sat64 v).
Proof. intro v. unfold_fx. zbools; lia. Qed.

Lemma sat64_clamp : forall v, sat64 v = Z.max I64_MIN (Z.min I64_MAX v).
Proof. intro v. unfold_fx. zbools; lia. Qed.

Lemma sat64_id : forall v, in_i64 v -> sat64 v = v.
Proof. intros v H. unfold_fx. zbools; lia. Qed.

(* conversions are total and land in i64 for every bit pattern *)
Lemma q32_total_l : forall b : N,
  in_i64 (fx_from_f32 b) /\ in_i64 (codec_fx_from_f32 b) /\ in_i64 (dfix_from_f32 b).
Proof.
  intro b. unfold dfix_from_f32.
  assert (H : in_i64 (fx_from_f32 b)).
  { unfold fx_from_f32.
    destruct (is_nan b); [unfold_fx; lia|].
    destruct (is_inf b); [destruct (sign_of b); unfold_fx; lia|].
    destruct (_ && _); [unfold_fx; lia|]. apply sat64_range. }
  split; [exact H|split; [|exact H]].
  unfold codec_fx_from_f32.
  destruct (is_nan b); [unfold_fx; lia|].
  destruct (is_inf b); [destruct (sign_of b); unfold_fx; lia|].
  apply sat64_range.
Qed.

(* add / sub / neg are the exact integer result clamped into i64: saturation, never wrap-around *)
Lemma q32_saturates_l : forall a b, in_i64 a -> in_i64 b ->
  dfix_add a b = Z.max I64_MIN (Z.min I64_MAX (a + b)) /\
  dfix_sub a b = Z.max I64_MIN (Z.min I64_MAX (a - b)) /\
  dfix_neg a = Z.max I64_MIN (Z.min I64_MAX (- a)) /\
  in_i64 (dfix_mul a b) /\ in_i64 (dfix_div a b).
Proof.
  intros a b Ha Hb. unfold dfix_add, dfix_sub.
  rewrite <- !sat64_clamp. repeat split; try reflexivity.
  - unfold dfix_neg. unfold_fx. zbools; lia.
  - unfold dfix_mul. apply sat64_range.
  - unfold dfix_mul. apply sat64_range.
  - unfold dfix_div. destruct (b =? 0); [|apply sat64_range].
    destruct (a =? 0); [unfold_fx; lia|]. destruct (a <? 0); unfold_fx; lia.
  - unfold dfix_div. destruct (b =? 0); [|apply sat64_range].
    destruct (a =? 0); [unfold_fx; lia|]. destruct (a <? 0); unfold_fx; lia.
Qed.

(* multiplication rounds to nearest: unless it saturates, the result is within half a unit (2^31 of
   the 2^64-scaled exact product) of a*b *)
Lemma dfix_mul_nearest_l : forall a b, in_i64 a -> in_i64 b ->
  I64_MIN < dfix_mul a b < I64_MAX -> Z.abs (dfix_mul a b * 2 ^ 32 - a * b) <= 2 ^ 31.
Proof.
  intros a b Ha Hb. unfold dfix_mul.
  assert (Hp : Z.abs (a * b) <= 2 ^ 126).
  { rewrite Z.abs_mul. change (2 ^ 126) with (2 ^ 63 * 2 ^ 63).
    apply Z.mul_le_mono_nonneg; unfold_fx; lia. }
  remember (a * b) as prod eqn:Eprod. clear Eprod Ha Hb a b.
  set (q := Z.abs prod / 2 ^ 32). set (rr := Z.abs prod mod 2 ^ 32).
  assert (Hdm : Z.abs prod = 2 ^ 32 * q + rr /\ 0 <= rr < 2 ^ 32).
  { split; [apply Z.div_mod; lia | apply Z.mod_pos_bound; lia]. }
  assert (Hq : 0 <= q <= 2 ^ 94).
  { split; [apply Z.div_pos; lia|]. apply Z.div_le_upper_bound; [lia|].
    change (2 ^ 32 * 2 ^ 94) with (2 ^ 126). exact Hp. }
  clearbody q rr.
  change (2 ^ 32) with 4294967296 in *. change (2 ^ 31) with 2147483648 in *.
  change (2 ^ 94) with 19807040628566084398385987584 in *.
  set (rounded := if (2147483648 <? rr) || ((rr =? 2147483648) && Z.odd q) then q + 1 else q).
  assert (Hr : (rounded = q /\ rr <= 2147483648) \/ (rounded = q + 1 /\ 2147483648 <= rr)).
  { unfold rounded. destruct (Z.ltb_spec 2147483648 rr); cbn [orb]; [right; lia|].
    destruct (Z.eqb_spec rr 2147483648); cbn [andb]; [|left; lia].
    destruct (Z.odd q); [right; lia | left; lia]. }
  clearbody rounded.
  assert (Hmin : Z.min rounded I128_MAX = rounded) by (unfold I128_MAX; lia).
  rewrite Hmin. unfold_fx.
  destruct (Z.ltb_spec prod 0); zbools; intros; lia.
Qed.

(* division rounds to nearest: unless it saturates, |r * b - a * 2^32| <= |b| / 2 *)
Lemma dfix_div_nearest_l : forall a b, in_i64 a -> in_i64 b -> b <> 0 ->
  I64_MIN < dfix_div a b < I64_MAX -> 2 * Z.abs (dfix_div a b * b - a * 2 ^ 32) <= Z.abs b.
Proof.
  intros a b Ha Hb Hb0. unfold dfix_div.
  destruct (Z.eqb_spec b 0) as [E|_]; [contradiction|].
  set (num := Z.abs (a * 2 ^ 32)). set (den := Z.abs b).
  assert (Hden : 0 < den) by (unfold den; lia).
  set (q := num / den). set (rr := num mod den).
  assert (Hdm : num = den * q + rr /\ 0 <= rr < den).
  { split; [apply Z.div_mod; lia | apply Z.mod_pos_bound; lia]. }
  assert (Hnum : 0 <= num <= 2 ^ 95).
  { unfold num. change (2 ^ 32) with 4294967296. change (2 ^ 95) with (9223372036854775808 * 4294967296).
    unfold_fx. lia. }
  assert (Hq : 0 <= q <= 2 ^ 95).
  { split; [apply Z.div_pos; lia|]. apply Z.div_le_upper_bound; [lia|]. nia. }
  unfold round_half_even_div. fold q rr.
  set (rounded := if (den <? 2 * rr) || ((2 * rr =? den) && Z.odd q) then q + 1 else q).
  assert (Hr : (rounded = q /\ 2 * rr <= den) \/ (rounded = q + 1 /\ den <= 2 * rr)).
  { unfold rounded. destruct (Z.ltb_spec den (2 * rr)); cbn [orb]; [right; lia|].
    destruct (Z.eqb_spec (2 * rr) den); cbn [andb]; [|left; lia].
    destruct (Z.odd q); [right; lia | left; lia]. }
  clearbody rounded.
  assert (Hmin : Z.min rounded I128_MAX = rounded).
  { unfold I128_MAX. change (2 ^ 95) with 39614081257132168796771975168 in Hq. lia. }
  rewrite Hmin.
  assert (Hnum' : num = Z.abs a * 4294967296) by (unfold num; change (2 ^ 32) with 4294967296; lia).
  change (2 ^ 32) with 4294967296.
  clearbody q rr. clear Hmin Hq Hnum.
  unfold_fx.
  destruct (Z.ltb_spec a 0); destruct (Z.ltb_spec b 0); cbn [xorb];
    zbools; intros; unfold den in *; nia.
Qed.

Close Scope Z_scope.

(* ------------------------------------------------------------------ Part E: PRNG *)

Lemma prng_next_u64_range : forall st, fst (prng_next_u64 st) < M64.
Proof. intros [s0 s1]. unfold prng_next_u64. cbn [fst]. apply N.mod_lt. discriminate. Qed.

Lemma prng_reject_range : forall fuel st bound span v st',
  span <> 0 -> prng_reject fuel st bound span = Some (v, st') -> v < span.
Proof.
  induction fuel as [|f IH]; intros st bound span v st' Hs H; [discriminate|].
  cbn [prng_reject] in H. destruct (prng_next_u64 st) as [cand st1].
  destruct (cand <? bound).
  - inversion H; subst. apply N.mod_lt. exact Hs.
  - eapply IH; eauto.
Qed.

Lemma Pos_land_le : forall p q, Pos.land p q <= N.pos q.
Proof.
  induction p as [p IH|p IH|]; destruct q as [q|q|]; cbn; try lia;
    try (specialize (IH q); destruct (Pos.land p q); cbn; lia).
Qed.

Lemma land_le_r : forall a b, N.land a b <= b.
Proof. intros [|p] [|q]; cbn; try lia. apply Pos_land_le. Qed.

(* next_int stays inside [min, max] (both the power-of-two fast path and rejection sampling) and
   panics (None) exactly when min > max or the fuel of the model runs out *)
Lemma prng_next_int_in_range : forall fuel st lo hi v st',
  (- 2 ^ 31 <= lo)%Z -> (hi < 2 ^ 31)%Z ->
  prng_next_int fuel st lo hi = Some (v, st') -> (lo <= v <= hi)%Z.
Proof.
  intros fuel st lo hi v st' Hlo Hhi H. unfold prng_next_int in H.
  destruct (Z.ltb_spec hi lo) as [Hlt|Hle]; [discriminate|].
  set (span := Z.to_N (hi - lo)%Z + 1) in *.
  assert (Hspan : span <> 0) by (unfold span; lia).
  destruct (N.eqb_spec span 1) as [E1|N1].
  - inversion H; subst. unfold span in E1. lia.
  - assert (Hv : forall w s, (if is_pow2 span
                     then let '(v0, st'0) := prng_next_u64 st in Some (N.land v0 (span - 1), st'0)
                     else prng_reject fuel st (M64 - 1 - (M64 - 1) mod span) span) = Some (w, s) -> w < span).
    { intros w s Hw. destruct (is_pow2 span).
      - destruct (prng_next_u64 st) as [v0 s0]. inversion Hw; subst.
        pose proof (land_le_r v0 (span - 1)). lia.
      - eapply prng_reject_range; eauto. }
    destruct (if is_pow2 span then _ else _) as [[w s]|] eqn:Er; [|discriminate].
    specialize (Hv w s eq_refl). inversion H; subst. clear H Er.
    assert (Hoff : (lo <= Z.of_N w + lo <= hi)%Z) by (unfold span in Hv; lia).
    set (off := (Z.of_N w + lo)%Z) in *.
    assert (Hm : ((off mod 2 ^ 32 = off /\ 0 <= off) \/ (off mod 2 ^ 32 = off + 2 ^ 32 /\ off < 0))%Z).
    { change (2 ^ 32)%Z with 4294967296%Z. change (2 ^ 31)%Z with 2147483648%Z in *.
      destruct (Z.ltb_spec off 0); [right|left]; split; lia. }
    change (Z.pow_pos 2 32) with 4294967296%Z. change (Z.pow_pos 2 31) with 2147483648%Z.
    change (2 ^ 32)%Z with 4294967296%Z in *. change (2 ^ 31)%Z with 2147483648%Z in *.
    destruct Hm as [[Hm Hs]|[Hm Hs]]; rewrite Hm; destruct (Z.ltb_spec off 2147483648);
      destruct (Z.ltb_spec (off + 4294967296) 2147483648); lia.
Qed.

(* seeding never produces the all-zero state, and a step never maps a non-zero state to zero *)
Lemma prng_from_seed_nonzero : forall s0 s1, prng_from_seed s0 s1 <> (0, 0).
Proof.
  intros s0 s1. unfold prng_from_seed.
  destruct (N.eqb_spec s0 0); destruct (N.eqb_spec s1 0); cbn [andb]; try discriminate; congruence.
Qed.

Lemma prng_from_seed_u64_nonzero : forall seed, prng_from_seed_u64 seed <> (0, 0).
Proof.
  intro seed. unfold prng_from_seed_u64.
  destruct (splitmix64 seed) as [st1 a]. destruct (splitmix64 st1) as [st2 b].
  destruct (N.eqb_spec a 0); destruct (N.eqb_spec b 0); cbn [andb]; try discriminate; congruence.
Qed.

Lemma rotl64_zero : forall x k, x < M64 -> k < 64 -> rotl64 x k = 0 -> x = 0.
Proof.
  intros x k Hx Hk H. unfold rotl64 in H. apply N.lor_eq_0_iff in H. destruct H as [H1 H2].
  apply N.bits_inj_0. intro n.
  destruct (N.lt_ge_cases n (64 - k)) as [Hn|Hn].
  - (* bit n moves to position n + k < 64 of the left part *)
    assert (Hb : N.testbit (N.shiftl x k mod M64) (n + k) = N.testbit x n).
    { change M64 with (2 ^ 64). rewrite N.mod_pow2_bits_low by lia.
      rewrite N.shiftl_spec_high' by lia. f_equal. lia. }
    rewrite <- Hb, H1. apply N.bits_0.
  - (* bit n >= 64 - k moves to position n - (64 - k) of the right part *)
    assert (Hb : N.testbit (N.shiftr x (64 - k)) (n - (64 - k)) = N.testbit x n).
    { rewrite N.shiftr_spec'. f_equal. lia. }
    rewrite <- Hb, H2. apply N.bits_0.
Qed.

Lemma lxor_range64 : forall a b, a < M64 -> b < M64 -> N.lxor a b < M64.
Proof.
  intros a b Ha Hb. change M64 with (2 ^ 64) in *.
  destruct (N.eq_dec (N.lxor a b) 0) as [E|E]; [rewrite E; reflexivity|].
  apply N.log2_lt_pow2; [lia|].
  eapply N.le_lt_trans; [apply N.log2_lxor|].
  apply N.max_lub_lt.
  - destruct (N.eq_dec a 0) as [->|Na]; [reflexivity|]. apply N.log2_lt_pow2; lia.
  - destruct (N.eq_dec b 0) as [->|Nb]; [reflexivity|]. apply N.log2_lt_pow2; lia.
Qed.

Lemma prng_step_nonzero : forall s0 s1, s0 < M64 -> s1 < M64 ->
  (s0, s1) <> (0, 0) -> snd (prng_next_u64 (s0, s1)) <> (0, 0).
Proof.
  intros s0 s1 H0 H1 Hnz. unfold prng_next_u64. cbn [snd]. intro E.
  injection E as E0 E1.
  assert (Hx : N.lxor s1 s0 < M64) by (apply lxor_range64; assumption).
  apply rotl64_zero in E1; [|exact Hx|reflexivity].
  rewrite E1 in E0. rewrite N.shiftl_0_l, N.lxor_0_r in E0.
  change (0 mod M64) with 0 in E0. rewrite N.lxor_0_r in E0.
  apply rotl64_zero in E0; [|exact H0|reflexivity].
  apply N.lxor_eq in E1. subst. apply Hnz. reflexivity.
Qed.

(* ------------------------------------------------------------------ Part F: the from_axis_angle overflow *)
Open Scope N_scope.

Definition all_finite (l : list N) : bool := forallb is_finite l.
Definition has_nan (l : list N) : bool := existsb is_nan l.
Definition q4_list (q : quat) : list N := let '(a, b, c, d) := q in [a; b; c; d].

(* Regression reference: quat.rs BEFORE the overflow repair (q_from_axis_angle_v0).  Totality on finite input was
   FALSE of it: the degenerate-axis guard tested len_sq (which overflows to +inf and passes), det_sqrt_f32 clamps
   +inf to 0.0, and 1.0 / 0.0 = inf poisoned the components.  The repaired definition maps the same witness to
   the quaternion of the unit axis. *)
Lemma from_axis_angle_v0_nan_witness :
  exists ax ay az angle,
    all_finite [ax; ay; az; angle] = true /\
    has_nan (q4_list (q_from_axis_angle_v0 flocq_prims (ax, ay, az) angle)) = true /\
    is_inf (v_dot flocq_prims (ax, ay, az) (ax, ay, az)) = true /\
    q_from_axis_angle flocq_prims (ax, ay, az) angle = q_from_axis_angle flocq_prims (ONE, 0, 0) angle /\
    all_finite (q4_list (q_from_axis_angle flocq_prims (ax, ay, az) angle)) = true.
Proof. exists 0x60ad78ec, 0, 0, ONE. vm_compute. repeat split; reflexivity. Qed.

(* The repair leaves every input whose squared length is not +-inf on the old path, for ANY float primitives. *)
Lemma from_axis_angle_unchanged_l : forall P axis angle,
  is_inf (v_dot P axis axis) = false ->
  q_from_axis_angle P axis angle = q_from_axis_angle_v0 P axis angle.
Proof.
  intros P axis angle H. unfold q_from_axis_angle, q_from_axis_angle_v0, q_rescale. rewrite H. reflexivity.
Qed.


(* ------------------------------------------------------------------ Part G: range of the interpolation (Flocq reals) *)
Open Scope N_scope.

Notation fexp32 := (FLT_exp (3 - 128 - 24) 24).
Notation rnd32 := (round radix2 fexp32 (round_mode mode_NE)).
Notation R32 := (B2R 24 128).
Notation fin32 := (Binary.is_finite 24 128).

#[local] Existing Instance Hp24.
#[local] Existing Instance Hpe24.

Definition Ble32 (x y : binary32) : bool :=
  match b32_compare x y with Some Lt | Some Eq => true | _ => false end.

Lemma b32_bits32 : forall f : binary32, b32 (bits32 f) = f.
Proof.
  intro f. unfold b32, bits32, b32_of_bits, bits_of_b32.
  pose proof (bits_of_binary_float_range 23 8 eq_refl eq_refl f) as H.
  rewrite Z2N.id by lia. exact (binary_float_of_bits_of_binary_float 23 8 eq_refl eq_refl eq_refl f).
Qed.

Lemma f_le_Ble : forall a b, f_le a b = Ble32 (b32 a) (b32 b).
Proof. reflexivity. Qed.

Lemma Ble32_R : forall x y, fin32 x = true -> fin32 y = true ->
  (Ble32 x y = true <-> (R32 x <= R32 y)%R).
Proof.
  intros x y Fx Fy. unfold Ble32, b32_compare. rewrite Bcompare_correct by assumption.
  destruct (Rcompare_spec (R32 x) (R32 y)); split; intro H0; try reflexivity; try discriminate; lra.
Qed.

Lemma R32_zero : R32 (b32 0) = 0%R.
Proof. reflexivity. Qed.

Lemma R32_one : R32 (b32 ONE) = 1%R.
Proof.
  unfold ONE. vm_compute (b32 _). unfold B2R, F2R; simpl. lra.
Qed.

Definition in01 (a : N) : bool := f_le 0 a && f_le a ONE.

Lemma in01_spec : forall a, in01 a = true -> fin32 (b32 a) = true /\ (0 <= R32 (b32 a) <= 1)%R.
Proof.
  intros a H. unfold in01 in H. apply andb_true_iff in H. destruct H as [H0 H1].
  rewrite f_le_Ble in H0, H1.
  assert (F : fin32 (b32 a) = true).
  { destruct (b32 a) as [s|s|s pl e|s m e He]; try reflexivity.
    - destruct s; [vm_compute in H0 | vm_compute in H1]; discriminate.
    - vm_compute in H0. discriminate. }
  split; [exact F|].
  apply Ble32_R in H0; [|reflexivity|exact F]. apply Ble32_R in H1; [|exact F|reflexivity].
  rewrite R32_zero in H0. rewrite R32_one in H1. lra.
Qed.

Lemma in01_intro : forall f : binary32, fin32 f = true -> (0 <= R32 f <= 1)%R -> in01 (bits32 f) = true.
Proof.
  intros f F H. unfold in01. rewrite !f_le_Ble, b32_bits32. apply andb_true_iff. split.
  - apply Ble32_R; [reflexivity|exact F|]. rewrite R32_zero. lra.
  - apply Ble32_R; [exact F|reflexivity|]. rewrite R32_one. lra.
Qed.

Definition seg_ok (i : N) : bool :=
  let y0 := lut i in let y1 := lut (i + 1) in
  let d := f_sub y1 y0 in let s := f_add y0 d in
  in01 y0 && in01 y1 && in01 d && in01 s.

Definition seg_indices : list N := map N.of_nat (seq 0 1024).

Lemma seg_table_ok : forallb seg_ok seg_indices = true.
Proof. vm_compute. reflexivity. Qed.

Lemma seg_ok_all : forall i, i < 1024 -> seg_ok i = true.
Proof.
  intros i Hi. pose proof seg_table_ok as H. rewrite forallb_forall in H. apply H.
  unfold seg_indices. rewrite <- (N2Nat.id i). apply in_map. apply in_seq. lia.
Qed.

Lemma rnd32_mono : forall x y, (x <= y)%R -> (rnd32 x <= rnd32 y)%R.
Proof. intros x y H. apply round_le; [apply FLT_exp_valid; exact Hp24 | apply valid_rnd_round_mode | exact H]. Qed.

Lemma rnd32_id : forall f : binary32, rnd32 (R32 f) = R32 f.
Proof. intro f. apply round_generic; auto with typeclass_instances. apply generic_format_B2R. Qed.

Lemma rnd32_0 : rnd32 0 = 0%R.
Proof. apply round_0. auto with typeclass_instances. Qed.

Lemma rnd32_1 : rnd32 1 = 1%R.
Proof. rewrite <- R32_one. apply rnd32_id. Qed.

Lemma small_lt_emax : forall x, (0 <= x <= 1)%R -> Rlt_bool (Rabs x) (bpow radix2 128) = true.
Proof.
  intros x H. apply Rlt_bool_true. rewrite Rabs_pos_eq by lra.
  apply Rle_lt_trans with 1%R; [lra|]. change 1%R with (bpow radix2 0). apply bpow_lt. lia.
Qed.

Lemma R32_two : R32 (b32 TWO) = 2%R.
Proof. unfold TWO. vm_compute (b32 _). unfold B2R, F2R; simpl. lra. Qed.

Lemma rnd32_2 : rnd32 2 = 2%R.
Proof. rewrite <- R32_two. apply rnd32_id. Qed.

Lemma le2_lt_emax : forall x, (0 <= x <= 2)%R -> Rlt_bool (Rabs x) (bpow radix2 128) = true.
Proof.
  intros x H. apply Rlt_bool_true. rewrite Rabs_pos_eq by lra.
  apply Rle_lt_trans with 2%R; [lra|]. change 2%R with (bpow radix2 1). apply bpow_lt. lia.
Qed.

Lemma b32_mult_correct : forall x y : binary32,
  if Rlt_bool (Rabs (rnd32 (R32 x * R32 y))) (bpow radix2 128)
  then R32 (b32_mult mode_NE x y) = rnd32 (R32 x * R32 y) /\
       fin32 (b32_mult mode_NE x y) = fin32 x && fin32 y /\ True
  else True.
Proof.
  intros x y. unfold b32_mult.
  match goal with |- context [Bmult 24 128 ?h1 ?h2 _ _ _ _] =>
    pose proof (Bmult_correct 24 128 h1 h2 binop_nan_pl32 mode_NE x y) as H end.
  change (SpecFloat.fexp 24 128) with fexp32 in H.
  destruct (Rlt_bool _ _); [|exact I]. destruct H as [H1 [H2 _]]. repeat split; assumption.
Qed.

Lemma b32_plus_correct : forall x y : binary32, fin32 x = true -> fin32 y = true ->
  if Rlt_bool (Rabs (rnd32 (R32 x + R32 y))) (bpow radix2 128)
  then R32 (b32_plus mode_NE x y) = rnd32 (R32 x + R32 y) /\ fin32 (b32_plus mode_NE x y) = true /\ True
  else True.
Proof.
  intros x y Fx Fy. unfold b32_plus.
  match goal with |- context [Bplus 24 128 ?h1 ?h2 _ _ _ _] =>
    pose proof (Bplus_correct 24 128 h1 h2 binop_nan_pl32 mode_NE x y Fx Fy) as H end.
  change (SpecFloat.fexp 24 128) with fexp32 in H.
  destruct (Rlt_bool _ _); [|exact I]. destruct H as [H1 [H2 _]]. repeat split; assumption.
Qed.

Lemma interp_step_abstract : forall y0 y1 frac,
  in01 y0 = true -> in01 y1 = true -> in01 (f_sub y1 y0) = true -> in01 (f_add y0 (f_sub y1 y0)) = true ->
  in01 frac = true ->
  in01 (f_add y0 (f_mul frac (f_sub y1 y0))) = true.
Proof.
  intros y0 y1 frac Hs1 Hs2 Hs3 Hs4 Hf.
  destruct (in01_spec _ Hs1) as [Fy0 Ry0]. destruct (in01_spec _ Hs2) as [Fy1 Ry1].
  destruct (in01_spec _ Hs3) as [Fd Rd]. destruct (in01_spec _ Hs4) as [Fs Rs].
  destruct (in01_spec _ Hf) as [Ff Rf].
  unfold f_sub in *. rewrite b32_bits32 in Fd, Rd.
  set (D := b32_minus mode_NE (b32 y1) (b32 y0)) in *.
  unfold f_add in Fs, Rs. rewrite !b32_bits32 in Fs, Rs.
  unfold f_add, f_mul. rewrite !b32_bits32.
  (* the product *)
  set (Pm := b32_mult mode_NE (b32 frac) D).
  assert (HP : fin32 Pm = true /\ (0 <= R32 Pm <= R32 D)%R).
  { assert (H := b32_mult_correct (b32 frac) D). fold Pm in H.
    assert (Hb : (0 <= rnd32 (R32 (b32 frac) * R32 D) <= R32 D)%R).
    { split.
      - rewrite <- rnd32_0. apply rnd32_mono. apply Rmult_le_pos; lra.
      - rewrite <- (rnd32_id D) at 2. apply rnd32_mono.
        rewrite <- (Rmult_1_l (R32 D)) at 2. apply Rmult_le_compat_r; lra. }
    rewrite small_lt_emax in H by lra.
    destruct H as [H1 [H2 _]]. rewrite Ff, Fd in H2. split; [exact H2|]. rewrite H1. exact Hb. }
  destruct HP as [FP RP].
  (* the table bound: y0 + d rounds to at most 1 *)
  assert (HS : (rnd32 (R32 (b32 y0) + R32 D) <= 1)%R).
  { assert (H := b32_plus_correct (b32 y0) D Fy0 Fd).
    assert (Hb : (0 <= rnd32 (R32 (b32 y0) + R32 D) <= 2)%R).
    { split; [rewrite <- rnd32_0 | rewrite <- rnd32_2]; apply rnd32_mono; lra. }
    rewrite le2_lt_emax in H by exact Hb.
    destruct H as [H1 _]. rewrite <- H1. lra. }
  (* the sum *)
  assert (H := b32_plus_correct (b32 y0) Pm Fy0 FP).
  assert (Hb : (0 <= rnd32 (R32 (b32 y0) + R32 Pm) <= 1)%R).
  { split.
    - rewrite <- rnd32_0. apply rnd32_mono. lra.
    - eapply Rle_trans; [|exact HS]. apply rnd32_mono. lra. }
  rewrite small_lt_emax in H by exact Hb.
  destruct H as [H1 [H2 _]].
  apply in01_intro; [exact H2|]. rewrite H1. exact Hb.
Qed.

Lemma interp_step_in01 : forall i frac, i < 1024 -> in01 frac = true ->
  in01 (f_add (lut i) (f_mul frac (f_sub (lut (i + 1)) (lut i)))) = true.
Proof.
  intros i frac Hi Hf.
  pose proof (seg_ok_all i Hi) as Hs. unfold seg_ok in Hs.
  apply andb_true_iff in Hs. destruct Hs as [Hs Hs4].
  apply andb_true_iff in Hs. destruct Hs as [Hs Hs3].
  apply andb_true_iff in Hs. destruct Hs as [Hs1 Hs2].
  apply interp_step_abstract; assumption.
Qed.


(* ---- the side conditions of the interpolation: index below 1024 and fraction in [0, 1] *)
Lemma b32_div_correct : forall x y : binary32, R32 y <> 0%R ->
  if Rlt_bool (Rabs (rnd32 (R32 x / R32 y))) (bpow radix2 128)
  then R32 (b32_div mode_NE x y) = rnd32 (R32 x / R32 y) /\ fin32 (b32_div mode_NE x y) = fin32 x /\ True
  else True.
Proof.
  intros x y Hy. unfold b32_div.
  match goal with |- context [Bdiv 24 128 ?h1 ?h2 _ _ _ _] =>
    pose proof (Bdiv_correct 24 128 h1 h2 binop_nan_pl32 mode_NE x y Hy) as H end.
  change (SpecFloat.fexp 24 128) with fexp32 in H.
  destruct (Rlt_bool _ _); [|exact I]. destruct H as [H1 [H2 _]]. repeat split; assumption.
Qed.

Lemma b32_minus_correct : forall x y : binary32, fin32 x = true -> fin32 y = true ->
  if Rlt_bool (Rabs (rnd32 (R32 x - R32 y))) (bpow radix2 128)
  then R32 (b32_minus mode_NE x y) = rnd32 (R32 x - R32 y) /\ fin32 (b32_minus mode_NE x y) = true /\ True
  else True.
Proof.
  intros x y Fx Fy. unfold b32_minus.
  match goal with |- context [Bminus 24 128 ?h1 ?h2 _ _ _ _] =>
    pose proof (Bminus_correct 24 128 h1 h2 binop_nan_pl32 mode_NE x y Fx Fy) as H end.
  change (SpecFloat.fexp 24 128) with fexp32 in H.
  destruct (Rlt_bool _ _); [|exact I]. destruct H as [H1 [H2 _]]. repeat split; assumption.
Qed.

Lemma R32_seg : R32 (b32 SIN_QTR_SEGMENTS_F32) = 1024%R.
Proof. unfold SIN_QTR_SEGMENTS_F32. vm_compute (b32 _). unfold B2R, F2R; simpl. lra. Qed.

Lemma R32_2048 : R32 (b32 0x45000000) = 2048%R.
Proof. vm_compute (b32 _). unfold B2R, F2R; simpl. lra. Qed.

Lemma R32_pi2 : (1.5 <= R32 (b32 FRAC_PI_2) <= 1.6)%R.
Proof. unfold FRAC_PI_2. vm_compute (b32 _). unfold B2R, F2R; simpl. lra. Qed.

Lemma rnd32_2048 : rnd32 2048 = 2048%R.
Proof. rewrite <- R32_2048. apply rnd32_id. Qed.

Lemma le2048_lt_emax : forall x, (0 <= x <= 2048)%R -> Rlt_bool (Rabs x) (bpow radix2 128) = true.
Proof.
  intros x H. apply Rlt_bool_true. rewrite Rabs_pos_eq by lra.
  apply Rle_lt_trans with 2048%R; [lra|]. change 2048%R with (bpow radix2 11). apply bpow_lt. lia.
Qed.

Lemma rnd32_small_int : forall z, (0 <= z < 1024)%Z -> rnd32 (IZR z) = IZR z.
Proof.
  intros z Hz. apply round_generic; [apply valid_rnd_round_mode|].
  apply generic_format_FLT.
  apply (FLT_spec radix2 (3 - 128 - 24) 24 (IZR z) (Float radix2 z 0)); simpl.
  - unfold F2R; simpl. lra.
  - lia.
  - lia.
Qed.

Lemma in0h_spec : forall a, f_le 0 a = true -> f_le a FRAC_PI_2 = true ->
  fin32 (b32 a) = true /\ (0 <= R32 (b32 a) <= 1.6)%R.
Proof.
  intros a H0 H1. rewrite f_le_Ble in H0, H1.
  assert (F : fin32 (b32 a) = true).
  { destruct (b32 a) as [s|s|s pl e|s m e He]; try reflexivity.
    - destruct s; [vm_compute in H0 | vm_compute in H1]; discriminate.
    - vm_compute in H0. discriminate. }
  split; [exact F|].
  apply Ble32_R in H0; [|reflexivity|exact F]. apply Ble32_R in H1; [|exact F|reflexivity].
  rewrite R32_zero in H0. pose proof R32_pi2. lra.
Qed.

Lemma Btrunc_floor : forall T : binary32, (0 <= R32 T)%R -> Btrunc 24 128 T = Zfloor (R32 T).
Proof.
  intros T H. apply eq_IZR. rewrite (Btrunc_correct 24 128 Hpe24), round_FIX_IZR. rewrite Ztrunc_floor by exact H. reflexivity.
Qed.

Lemma floor_bounds : forall x, (0 <= x < 1024)%R -> (0 <= Zfloor x < 1024)%Z.
Proof.
  intros x [H0 H1]. split.
  - apply Zfloor_lub. exact H0.
  - apply lt_IZR. apply Rle_lt_trans with x; [apply Zfloor_lb | exact H1].
Qed.

Lemma sub_self_in01 : forall T : binary32, fin32 T = true -> in01 (bits32 (b32_minus mode_NE T T)) = true.
Proof.
  intros T F. pose proof (b32_minus_correct T T F F) as H.
  replace (R32 T - R32 T)%R with 0%R in H by lra. rewrite rnd32_0 in H.
  rewrite small_lt_emax in H by lra. destruct H as [H1 [H2 _]].
  apply in01_intro; [exact H2|]. rewrite H1. lra.
Qed.

Lemma interp_side : forall a, f_le 0 a = true -> f_le a FRAC_PI_2 = true ->
  let t := f_div (f_mul a SIN_QTR_SEGMENTS_F32) FRAC_PI_2 in
  f_le SIN_QTR_SEGMENTS_F32 t = false ->
  f_idx t < 1024 /\ in01 (f_sub t (f_truncf t)) = true.
Proof.
  intros a H0 H1 t Hlt.
  destruct (in0h_spec a H0 H1) as [FA RA].
  (* m = a * 1024 *)
  set (M := b32_mult mode_NE (b32 a) (b32 SIN_QTR_SEGMENTS_F32)).
  assert (HM : fin32 M = true /\ (0 <= R32 M <= 2048)%R).
  { pose proof (b32_mult_correct (b32 a) (b32 SIN_QTR_SEGMENTS_F32)) as H. fold M in H.
    rewrite R32_seg in H.
    assert (Hb : (0 <= rnd32 (R32 (b32 a) * 1024) <= 2048)%R).
    { split; [rewrite <- rnd32_0 | rewrite <- rnd32_2048]; apply rnd32_mono; lra. }
    rewrite le2048_lt_emax in H by exact Hb. destruct H as [E1 [E2 _]].
    split; [rewrite E2, FA; reflexivity | rewrite E1; exact Hb]. }
  destruct HM as [FM RM].
  (* t = m / (pi/2) *)
  set (T := b32_div mode_NE M (b32 FRAC_PI_2)).
  assert (Et : b32 t = T).
  { unfold t, f_div, f_mul. rewrite !b32_bits32. reflexivity. }
  pose proof R32_pi2 as Hpi.
  assert (HT : fin32 T = true /\ (0 <= R32 T <= 2048)%R).
  { assert (Hnz : R32 (b32 FRAC_PI_2) <> 0%R) by lra.
    pose proof (b32_div_correct M (b32 FRAC_PI_2) Hnz) as H. fold T in H.
    assert (Hq : (0 <= R32 M / R32 (b32 FRAC_PI_2) <= 2048)%R).
    { split.
      - apply Rmult_le_pos; [lra|]. apply Rlt_le. apply Rinv_0_lt_compat. lra.
      - apply Rle_trans with (R32 M / 1)%R; [|lra].
        unfold Rdiv. apply Rmult_le_compat_l; [lra|]. apply Rinv_le; lra. }
    assert (Hb : (0 <= rnd32 (R32 M / R32 (b32 FRAC_PI_2)) <= 2048)%R).
    { split; [rewrite <- rnd32_0 | rewrite <- rnd32_2048]; apply rnd32_mono; lra. }
    rewrite le2048_lt_emax in H by exact Hb. destruct H as [E1 [E2 _]].
    split; [rewrite E2; exact FM | rewrite E1; exact Hb]. }
  destruct HT as [FT RT].
  assert (HT1024 : (R32 T < 1024)%R).
  { rewrite f_le_Ble, Et in Hlt.
    destruct (Rlt_le_dec (R32 T) 1024) as [Hl|Hg]; [exact Hl|exfalso].
    assert (Hc : Ble32 (b32 SIN_QTR_SEGMENTS_F32) T = true).
    { apply Ble32_R; [reflexivity | exact FT | rewrite R32_seg; exact Hg]. }
    rewrite Hc in Hlt. discriminate. }
  assert (Hz : (0 <= Btrunc 24 128 T < 1024)%Z).
  { rewrite Btrunc_floor by lra. apply floor_bounds. lra. }
  split.
  - unfold f_idx. rewrite Et. destruct T as [s|s|s pl e|s m e He]; try discriminate FT; try reflexivity.
    apply N.min_lt_iff. left. lia.
  - unfold f_sub. unfold f_truncf. rewrite Et.
    destruct T as [s|s|s pl e|s m e He] eqn:ET; try discriminate FT.
    + rewrite b32_bits32. rewrite <- ET. apply sub_self_in01. rewrite ET. reflexivity.
    + destruct (0 <=? e)%Z.
      * rewrite b32_bits32. rewrite <- ET. apply sub_self_in01. rewrite ET. reflexivity.
      * rewrite <- ET in *. unfold of_Z32. rewrite b32_bits32.
        set (z := Btrunc 24 128 T) in *.
        pose proof (binary_normalize_correct 24 128 Hp24 Hpe24 mode_NE z 0 s) as H.
        change (SpecFloat.fexp 24 128) with fexp32 in H.
        assert (EF : F2R (Float radix2 z 0) = IZR z) by (unfold F2R; simpl; lra).
        rewrite EF in H. rewrite rnd32_small_int in H by exact Hz.
        assert (Hzr : (0 <= IZR z <= 2048)%R).
        { split; [apply IZR_le; lia | apply IZR_le; lia]. }
        rewrite le2048_lt_emax in H by exact Hzr.
        destruct H as [E1 [E2 _]].
        set (TR := binary_normalize 24 128 Hp24 Hpe24 mode_NE z 0 s) in *.
        pose proof (b32_minus_correct T TR FT E2) as H.
        rewrite E1 in H.
        assert (Hfl : (0 <= R32 T - IZR z <= 1)%R).
        { unfold z. rewrite Btrunc_floor by lra.
          pose proof (Zfloor_lb (R32 T)). pose proof (Zfloor_ub (R32 T)). lra. }
        assert (Hb : (0 <= rnd32 (R32 T - IZR z) <= 1)%R).
        { split; [rewrite <- rnd32_0 | rewrite <- rnd32_1]; apply rnd32_mono; lra. }
        rewrite small_lt_emax in H by exact Hb. destruct H as [G1 [G2 _]].
        apply in01_intro; [exact G2 | rewrite G1; exact Hb].
Qed.

(* float order and bit order agree on [0, 1]: a 32-bit pattern that the float comparison places in [0, 1]
   is at most the pattern of 1.0, or is -0.0 *)
Lemma in01_bits : forall v, v < TWO32 -> in01 v = true -> v <= ONE \/ v = NEG_ZERO.
Proof.
  intros v Hv Hin. destruct (in01_spec v Hin) as [F R].
  unfold b32, b32_of_bits, binary_float_of_bits in F, R.
  rewrite B2R_FF2B in R. rewrite is_finite_FF2B in F.
  unfold binary_float_of_bits_aux, split_bits in F, R.
  set (x := Z.of_N v) in *.
  assert (Hx : (0 <= x < 4294967296)%Z) by (unfold x, TWO32 in *; lia).
  change (2 ^ 23)%Z with 8388608%Z in *. change (2 ^ 8)%Z with 256%Z in *.
  change (8388608 * 256)%Z with 2147483648%Z in *.
  change (256 - 1)%Z with 255%Z in *.
  set (mx := (x mod 8388608)%Z) in *. set (ex := ((x / 8388608) mod 256)%Z) in *.
  assert (Hmx : (0 <= mx < 8388608)%Z) by (unfold mx; lia).
  assert (Hex : (0 <= ex < 256)%Z) by (unfold ex; lia).
  assert (Hdec : (x = (if Zle_bool 2147483648 x then 2147483648 else 0) + ex * 8388608 + mx)%Z).
  { unfold mx, ex. destruct (Zle_bool 2147483648 x) eqn:E; [apply Zle_bool_imp_le in E | apply Z.leb_gt in E]; lia. }
  destruct (Zle_bool 2147483648 x) eqn:Es.
  - (* sign bit set: only -0.0 is possible *)
    right. destruct (Zeq_bool ex 0) eqn:E0.
    + apply Zeq_bool_eq in E0. destruct mx as [|p|p] eqn:Em.
      * unfold NEG_ZERO. lia.
      * exfalso. cbn [FF2R cond_Zopp] in R. 
        match type of R with (0 <= ?t <= 1)%R => assert (Hneg : (t < 0)%R) by (apply F2R_lt_0; reflexivity) end.
        lra.
      * discriminate F.
    + destruct (Zeq_bool ex 255) eqn:E1.
      * destruct mx; simpl in F; discriminate F.
      * destruct (mx + 8388608)%Z as [|p|p] eqn:Em; try discriminate F.
        exfalso. cbn [FF2R cond_Zopp] in R.
        match type of R with (0 <= ?t <= 1)%R => assert (Hneg : (t < 0)%R) by (apply F2R_lt_0; reflexivity) end.
        lra.
  - (* sign bit clear *)
    left. destruct (Zeq_bool ex 0) eqn:E0.
    + apply Zeq_bool_eq in E0. unfold ONE. lia.
    + destruct (Zeq_bool ex 255) eqn:E1.
      * destruct mx; simpl in F; discriminate F.
      * apply Zeq_bool_neq in E0. apply Zeq_bool_neq in E1.
        destruct (mx + 8388608)%Z as [|p|p] eqn:Em; try discriminate F.
        cbn [FF2R cond_Zopp] in R. change (SpecFloat.emin (23 + 1) (2 ^ (8 - 1))) with (-149)%Z in R.
        destruct (Z_le_gt_dec x 1065353216) as [Hle|Hgt]; [unfold ONE; lia|exfalso].
        (* x > bits(1.0): exponent field >= 128, or = 127 with a non-zero mantissa field *)
        assert (Hcase : (128 <= ex \/ (ex = 127 /\ 0 < mx))%Z) by lia.
        unfold F2R in R. cbn [Fnum Fexp] in R.
        destruct Hcase as [H128|[H127 Hm]].
        -- assert (Hb : (bpow radix2 (-22) <= bpow radix2 (ex + -149 - 1))%R) by (apply bpow_le; lia).
           assert (Hp : (8388608 <= IZR (Z.pos p))%R) by (apply IZR_le; lia).
           assert (H22 : bpow radix2 (-22) = (/ 4194304)%R) by (simpl; lra).
           assert (Hpos : (0 < bpow radix2 (ex + -149 - 1))%R) by apply bpow_gt_0.
           assert ((8388608 * bpow radix2 (-22) <= IZR (Z.pos p) * bpow radix2 (ex + -149 - 1))%R).
           { apply Rmult_le_compat; try lra; try (rewrite H22; lra). }
           rewrite H22 in *. lra.
        -- rewrite H127 in R. replace (127 + -149 - 1)%Z with (-23)%Z in R by lia.
           assert (H23 : bpow radix2 (-23) = (/ 8388608)%R) by (simpl; lra).
           assert (Hp : (8388609 <= IZR (Z.pos p))%R) by (apply IZR_le; lia).
           rewrite H23 in R. lra.
Qed.

(* ---- putting the range together *)
Lemma sin_qtr_interp_in01 : forall a, in01 (sin_qtr_interp flocq_prims a) = true.
Proof.
  intro a. unfold sin_qtr_interp. cbn [p_le p_div p_mul p_idx p_sub p_truncf p_add flocq_prims].
  destruct (f_le 0 a) eqn:H0; [|reflexivity].
  destruct (f_le a FRAC_PI_2) eqn:H1; [|reflexivity].
  cbn [andb negb].
  destruct (f_le SIN_QTR_SEGMENTS_F32 _) eqn:Hs; [reflexivity|].
  destruct (interp_side a H0 H1 Hs) as [Hi Hf].
  apply interp_step_in01; assumption.
Qed.

Lemma fabs_le_one_of_in01 : forall v, v < TWO32 -> in01 v = true -> fabs v <= ONE.
Proof.
  intros v Hv H. destruct (in01_bits v Hv H) as [Hle|E].
  - revert Hle. clear. bits.
  - subst v. vm_compute. discriminate.
Qed.

Lemma fabs_new_le_one : forall v, v < TWO32 -> fabs v <= ONE -> fabs (new v) <= ONE.
Proof. intros v Hv. bits. Qed.

Lemma fabs_czero_le_one : forall v, v < TWO32 -> fabs v <= ONE -> fabs (czero v) <= ONE.
Proof. intros v Hv. bits. Qed.

Lemma signed_interp_le_one : forall v, signed_interp flocq_prims v -> fabs v <= ONE.
Proof.
  intros v [E|[a [E|E]]]; subst v.
  - vm_compute. discriminate.
  - apply fabs_le_one_of_in01; [apply interp_range; exact flocq_prims_wf | apply sin_qtr_interp_in01].
  - rewrite fabs_fneg by (apply interp_range; exact flocq_prims_wf).
    apply fabs_le_one_of_in01; [apply interp_range; exact flocq_prims_wf | apply sin_qtr_interp_in01].
Qed.

(* |sin x| <= 1 and |cos x| <= 1 for every 32-bit pattern x, under IEEE-754 binary32 RNE *)
Lemma sin_cos_range_l : forall x, x < TWO32 ->
  fabs (s_sin flocq_prims x) <= ONE /\ fabs (s_cos flocq_prims x) <= ONE.
Proof.
  intros x Hx. unfold s_sin, s_cos.
  destruct (sin_cos_range flocq_prims flocq_prims_wf x) as [R1 R2].
  destruct (is_finite x) eqn:Hf.
  - destruct (sin_cos_signed_interp_l flocq_prims flocq_prims_wf x Hf) as [S1 S2].
    split; apply fabs_new_le_one; auto using signed_interp_le_one.
  - unfold sin_cos. rewrite Hf. cbn [negb fst snd]. split; vm_compute; discriminate.
Qed.

(* ------------------------------------------------------------------ Part H: Q32.32 -> f32 is canonical *)
Open Scope Z_scope.

Ltac close_pows :=
  repeat match goal with
  | |- context [Z.pow ?a ?b] =>
      let v := eval vm_compute in (Z.pow a b) in
      lazymatch v with
      | Z0 => change (Z.pow a b) with v
      | Zpos _ => change (Z.pow a b) with v
      end
  end.

(* one leading-bit position *)
Lemma fx_to_f32_fields_k : forall k abs, 0 <= k <= 63 -> 2 ^ k <= abs < 2 ^ (k + 1) ->
  let exp := k - 32 in
  let sig := if 23 <? k then round_shift_right 128 abs (k - 23) else abs * 2 ^ (23 - k) in
  let '(sig, exp) := if 2 ^ 24 <=? sig then (sig / 2, exp + 1) else (sig, exp) in
  2 ^ 23 <= sig < 2 ^ 24 /\ 95 <= exp + 127 <= 159.
Proof.
  intros k abs Hk.
  assert (Hcases : k = 0 \/ k = 1 \/ k = 2 \/ k = 3 \/ k = 4 \/ k = 5 \/ k = 6 \/ k = 7 \/ k = 8 \/ k = 9 \/
    k = 10 \/ k = 11 \/ k = 12 \/ k = 13 \/ k = 14 \/ k = 15 \/ k = 16 \/ k = 17 \/ k = 18 \/ k = 19 \/
    k = 20 \/ k = 21 \/ k = 22 \/ k = 23 \/ k = 24 \/ k = 25 \/ k = 26 \/ k = 27 \/ k = 28 \/ k = 29 \/
    k = 30 \/ k = 31 \/ k = 32 \/ k = 33 \/ k = 34 \/ k = 35 \/ k = 36 \/ k = 37 \/ k = 38 \/ k = 39 \/
    k = 40 \/ k = 41 \/ k = 42 \/ k = 43 \/ k = 44 \/ k = 45 \/ k = 46 \/ k = 47 \/ k = 48 \/ k = 49 \/
    k = 50 \/ k = 51 \/ k = 52 \/ k = 53 \/ k = 54 \/ k = 55 \/ k = 56 \/ k = 57 \/ k = 58 \/ k = 59 \/
    k = 60 \/ k = 61 \/ k = 62 \/ k = 63) by lia.
  clear Hk.
  repeat (destruct Hcases as [-> | Hcases]); try subst k;
    (intros Habs; cbv zeta; unfold round_shift_right;
     cbn [Z.ltb Z.eqb Z.leb Z.compare Pos.compare Pos.compare_cont Z.sub Z.add Z.opp Z.pos_sub Pos.succ Pos.add Pos.pred_double Z.succ_double Z.pred_double Z.double Pos.sub Pos.sub_mask] in *;
     close_pows; revert Habs; close_pows; intros Habs;
     zbools; repeat match goal with |- context [Z.odd ?q] => destruct (Z.odd q) end; zbools; lia).
Qed.

Lemma fields_canonical : forall s ef m : Z, (s = 0 \/ s = 1) -> 1 <= ef <= 254 -> 0 <= m < 2 ^ 23 ->
  let b := Z.to_N (s * 2 ^ 31 + ef * 2 ^ 23 + m) in canonical b /\ is_finite b = true.
Proof.
  intros s ef m Hs Hef Hm b.
  change (2 ^ 31) with 2147483648 in *. change (2 ^ 23) with 8388608 in *.
  assert (Hb : (b < TWO32)%N) by (unfold b, TWO32; lia).
  assert (He : expo b = Z.to_N ef).
  { unfold expo, TWO23, b. lia. }
  split.
  - apply canonical_classes_l. split; [exact Hb|]. right. left. rewrite He. lia.
  - unfold is_finite. rewrite He. destruct (N.eqb_spec (Z.to_N ef) 255); [lia | reflexivity].
Qed.

(* Q32.32 -> f32 never produces -0, a subnormal, an infinity or a NaN *)
Lemma fx_to_f32_canonical_l : forall raw, in_i64 raw ->
  canonical (fx_to_f32 raw) /\ is_finite (fx_to_f32 raw) = true.
Proof.
  intros raw Hr. unfold fx_to_f32.
  destruct (Z.eqb_spec raw 0) as [E|NE].
  - split; [apply canonicalb_spec; reflexivity | reflexivity].
  - set (abs := Z.abs raw). set (k := Z.log2 abs).
    assert (Habs : 1 <= abs <= 2 ^ 63) by (unfold abs; unfold_fx; lia).
    assert (Hspec : 2 ^ k <= abs < 2 ^ (k + 1)).
    { unfold k. replace (Z.log2 abs + 1) with (Z.succ (Z.log2 abs)) by lia. apply Z.log2_spec. lia. }
    assert (Hk : 0 <= k <= 63).
    { split; [apply Z.log2_nonneg|].
      destruct (Z_le_gt_dec k 63) as [H|H]; [exact H|exfalso].
      assert (2 ^ 64 <= 2 ^ k) by (apply Z.pow_le_mono_r; lia). lia. }
    pose proof (fx_to_f32_fields_k k abs Hk Hspec) as HF. cbv zeta in HF.
    clearbody k. clear Hspec.
    destruct (if 2 ^ 24 <=? _ then _ else _) as [sig ex].
    destruct HF as [Hsig Hex].
    assert (Hm : 0 <= sig mod 2 ^ 23 < 2 ^ 23) by (apply Z.mod_pos_bound; reflexivity).
    assert (He : 1 <= ex + 127 <= 254) by lia.
    destruct (raw <? 0).
    + pose proof (fields_canonical 1 (ex + 127) (sig mod 2 ^ 23) (or_intror eq_refl) He Hm) as H.
      cbv zeta in H. rewrite Z.mul_1_l in H. exact H.
    + pose proof (fields_canonical 0 (ex + 127) (sig mod 2 ^ 23) (or_introl eq_refl) He Hm) as H.
      cbv zeta in H. rewrite Z.mul_0_l in H. exact H.
Qed.

Close Scope Z_scope.

(* ------------------------------------------------------------------ Part I: Quat::from_axis_angle is total *)
Open Scope N_scope.

(* ---- decoding a 32-bit pattern: sign / exponent field / mantissa field *)
Definition ff_shape (s : bool) (m e : Z) : full_float :=
  if Zeq_bool e 0 then
    match m with Z0 => F754_zero s | Zpos p => F754_finite s p (-149) | Zneg _ => F754_nan false xH end
  else if Zeq_bool e 255 then
    match m with Z0 => F754_infinity s | Zpos p => F754_nan s p | Zneg _ => F754_nan false xH end
  else
    match (m + 8388608)%Z with Zpos p => F754_finite s p (e + -149 - 1) | _ => F754_nan false xH end.

Lemma b32_shape : forall v,
  R32 (b32 v) = FF2R radix2 (ff_shape (Zle_bool 2147483648 (Z.of_N v)) (Z.of_N v mod 8388608) ((Z.of_N v / 8388608) mod 256)) /\
  fin32 (b32 v) = is_finite_FF (ff_shape (Zle_bool 2147483648 (Z.of_N v)) (Z.of_N v mod 8388608) ((Z.of_N v / 8388608) mod 256)).
Proof.
  intro v. unfold b32, b32_of_bits, binary_float_of_bits.
  rewrite B2R_FF2B, is_finite_FF2B. split; reflexivity.
Qed.

Lemma ff_shape_neg : forall s m e, (0 <= m)%Z ->
  FF2R radix2 (ff_shape (negb s) m e) = (- FF2R radix2 (ff_shape s m e))%R /\
  is_finite_FF (ff_shape (negb s) m e) = is_finite_FF (ff_shape s m e).
Proof.
  intros s m e Hm. unfold ff_shape.
  destruct (Zeq_bool e 0); [|destruct (Zeq_bool e 255)].
  - destruct m as [|p|p]; cbn [FF2R is_finite_FF]; split; try reflexivity; try lra.
    destruct s; cbn [negb cond_Zopp]; rewrite <- F2R_Zopp; reflexivity.
  - destruct m as [|p|p]; cbn [FF2R is_finite_FF]; split; try reflexivity; lra.
  - destruct (m + 8388608)%Z as [|p|p]; cbn [FF2R is_finite_FF]; split; try reflexivity; try lra.
    destruct s; cbn [negb cond_Zopp]; rewrite <- F2R_Zopp; reflexivity.
Qed.

Lemma ff_shape_pos : forall m e, (0 <= FF2R radix2 (ff_shape false m e))%R.
Proof.
  intros m e. unfold ff_shape.
  destruct (Zeq_bool e 0); [|destruct (Zeq_bool e 255)].
  - destruct m; cbn [FF2R cond_Zopp]; try lra. apply F2R_ge_0. simpl. lia.
  - destruct m; cbn [FF2R]; lra.
  - destruct (m + 8388608)%Z; cbn [FF2R cond_Zopp]; try lra. apply F2R_ge_0. simpl. lia.
Qed.

Lemma fin32_bits : forall v, v < TWO32 -> fin32 (b32 v) = is_finite v.
Proof.
  intros v Hv. destruct (b32_shape v) as [_ H]. rewrite H. clear H.
  unfold is_finite, expo, TWO23, TWO32 in *.
  set (e := ((Z.of_N v / 8388608) mod 256)%Z).
  assert (He : (0 <= e < 256)%Z) by (unfold e; lia).
  assert (Ee : (v / 8388608) mod 256 = Z.to_N e) by (unfold e; lia).
  rewrite Ee. set (m := (Z.of_N v mod 8388608)%Z). assert (Hm : (0 <= m < 8388608)%Z) by (unfold m; lia).
  unfold ff_shape.
  destruct (Zeq_bool e 0) eqn:E0.
  - apply Zeq_bool_eq in E0. rewrite E0. destruct m; try reflexivity. lia.
  - destruct (Zeq_bool e 255) eqn:E1.
    + apply Zeq_bool_eq in E1. rewrite E1. destruct m; reflexivity.
    + apply Zeq_bool_neq in E1. destruct (N.eqb_spec (Z.to_N e) 255) as [E|E]; [lia|].
      destruct (m + 8388608)%Z eqn:Em; try lia. reflexivity.
Qed.

Lemma fields_shift : forall x k : Z,
  ((x + k * 2147483648) mod 8388608 = x mod 8388608 /\
   ((x + k * 2147483648) / 8388608) mod 256 = (x / 8388608) mod 256)%Z.
Proof.
  intros x k. replace (x + k * 2147483648)%Z with (x + (k * 256) * 8388608)%Z by ring. split.
  - apply Z_mod_plus_full.
  - rewrite Z_div_plus_full by discriminate. apply Z_mod_plus_full.
Qed.

Lemma fneg_Z : forall v, v < TWO32 ->
  (Z.of_N (fneg v) = Z.of_N v + (if (TWO31 <=? v)%N then -1 else 1) * 2147483648)%Z.
Proof. intros v Hv. unfold fneg, TWO31, TWO32 in *. split_bools; lia. Qed.

Lemma R32_fneg : forall v, v < TWO32 -> R32 (b32 (fneg v)) = (- R32 (b32 v))%R.
Proof.
  intros v Hv. destruct (b32_shape v) as [H _]. destruct (b32_shape (fneg v)) as [H' _].
  rewrite H, H'. clear H H'.
  pose proof (fneg_Z v Hv) as Hz.
  destruct (fields_shift (Z.of_N v) (if (TWO31 <=? v)%N then -1 else 1)) as [Hm He].
  rewrite <- Hz in Hm, He.
  assert (Hs : Zle_bool 2147483648 (Z.of_N (fneg v)) = negb (Zle_bool 2147483648 (Z.of_N v))).
  { unfold TWO31 in Hz. unfold TWO32 in Hv. rewrite Hz. destruct (N.leb_spec 2147483648 v) as [A|A].
    - replace (Zle_bool 2147483648 (Z.of_N v)) with true by (symmetry; apply Z.leb_le; lia).
      apply Z.leb_gt. lia.
    - replace (Zle_bool 2147483648 (Z.of_N v)) with false by (symmetry; apply Z.leb_gt; lia).
      apply Z.leb_le. lia. }
  rewrite Hm, He, Hs. apply ff_shape_neg. lia.
Qed.

Lemma R32_fabs : forall v, v < TWO32 -> R32 (b32 (fabs v)) = Rabs (R32 (b32 v)).
Proof.
  intros v Hv. destruct (sign_of v) eqn:S.
  - assert (E : fabs v = fneg v) by (revert S; unfold fabs, fneg, sign_of; split_bools; intros; try discriminate; reflexivity).
    rewrite E, R32_fneg by exact Hv.
    assert (Hp : (0 <= R32 (b32 (fneg v)))%R).
    { destruct (b32_shape (fneg v)) as [H _]. rewrite H.
      assert (Hs : Zle_bool 2147483648 (Z.of_N (fneg v)) = false).
      { apply Z.leb_gt. revert S Hv. unfold fneg, sign_of, TWO31, TWO32. split_bools; intros; try discriminate; lia. }
      rewrite Hs. apply ff_shape_pos. }
    rewrite R32_fneg in Hp by exact Hv. rewrite Rabs_left1 by lra. reflexivity.
  - assert (E : fabs v = v) by (revert S; unfold fabs, sign_of; split_bools; intros; try discriminate; reflexivity).
    rewrite E. destruct (b32_shape v) as [H _].
    assert (Hs : Zle_bool 2147483648 (Z.of_N v) = false).
    { apply Z.leb_gt. revert S. unfold sign_of, TWO31. split_bools; intros; try discriminate; lia. }
    rewrite Hs in H. rewrite Rabs_pos_eq; [reflexivity|]. rewrite H. apply ff_shape_pos.
Qed.

(* ---- finite results carry the rounded real value; bounded operands give bounded finite results *)
Lemma overflow_not_finite : forall (r : binary32) s,
  B2FF 24 128 r = Binary.binary_overflow 24 128 mode_NE s -> fin32 r = false.
Proof.
  intros r s H. rewrite <- is_finite_B2FF, H. reflexivity.
Qed.

Lemma mult_fin_R : forall x y : binary32, fin32 (b32_mult mode_NE x y) = true ->
  R32 (b32_mult mode_NE x y) = rnd32 (R32 x * R32 y).
Proof.
  intros x y F. unfold b32_mult in *.
  match goal with |- context [Bmult 24 128 ?h1 ?h2 _ _ _ _] =>
    pose proof (Bmult_correct 24 128 h1 h2 binop_nan_pl32 mode_NE x y) as H end.
  change (SpecFloat.fexp 24 128) with fexp32 in H.
  destruct (Rlt_bool _ _); [apply H|].
  apply overflow_not_finite in H. rewrite H in F. discriminate.
Qed.

Lemma plus_fin_R : forall x y : binary32, fin32 x = true -> fin32 y = true ->
  fin32 (b32_plus mode_NE x y) = true -> R32 (b32_plus mode_NE x y) = rnd32 (R32 x + R32 y).
Proof.
  intros x y Fx Fy F. unfold b32_plus in *.
  match goal with |- context [Bplus 24 128 ?h1 ?h2 _ _ _ _] =>
    pose proof (Bplus_correct 24 128 h1 h2 binop_nan_pl32 mode_NE x y Fx Fy) as H end.
  change (SpecFloat.fexp 24 128) with fexp32 in H.
  destruct (Rlt_bool _ _); [apply H|].
  destruct H as [H _]. apply overflow_not_finite in H. rewrite H in F. discriminate.
Qed.

Lemma plus_fin_inv : forall x y : binary32, fin32 (b32_plus mode_NE x y) = true -> fin32 x = true /\ fin32 y = true.
Proof.
  intros x y. destruct x as [s|s|s pl e|s m e He]; destruct y as [s'|s'|s' pl' e'|s' m' e' He'];
    try (intros _; split; reflexivity); try (destruct s, s'; intro H; discriminate H); intro H; discriminate H.
Qed.

Lemma bpow_lt_emax : forall k x, (k <= 127)%Z -> (Rabs x <= bpow radix2 k)%R ->
  Rlt_bool (Rabs x) (bpow radix2 128) = true.
Proof.
  intros k x Hk H. apply Rlt_bool_true. apply Rle_lt_trans with (1 := H). apply bpow_lt. lia.
Qed.

Lemma rnd32_abs_le : forall k x, (-149 <= k)%Z -> (Rabs x <= bpow radix2 k)%R -> (Rabs (rnd32 x) <= bpow radix2 k)%R.
Proof.
  intros k x Hk H. apply abs_round_le_generic; [apply FLT_exp_valid; exact Hp24 | apply valid_rnd_round_mode | | exact H].
  apply generic_format_FLT_bpow; [exact Hp24 | exact Hk].
Qed.

Lemma mult_bound : forall (x y : binary32) k, (-149 <= k <= 127)%Z -> fin32 x = true -> fin32 y = true ->
  (Rabs (R32 x * R32 y) <= bpow radix2 k)%R ->
  fin32 (b32_mult mode_NE x y) = true /\ R32 (b32_mult mode_NE x y) = rnd32 (R32 x * R32 y) /\
  (Rabs (R32 (b32_mult mode_NE x y)) <= bpow radix2 k)%R.
Proof.
  intros x y k Hk Fx Fy Hb. pose proof (b32_mult_correct x y) as H.
  pose proof (rnd32_abs_le k _ (proj1 Hk) Hb) as Hr.
  rewrite (bpow_lt_emax k) in H by (try exact Hr; lia). destruct H as [H1 [H2 _]].
  rewrite Fx, Fy in H2. repeat split; [exact H2 | exact H1 | rewrite H1; exact Hr].
Qed.

Lemma plus_bound : forall (x y : binary32) k, (-149 <= k <= 127)%Z -> fin32 x = true -> fin32 y = true ->
  (Rabs (R32 x + R32 y) <= bpow radix2 k)%R ->
  fin32 (b32_plus mode_NE x y) = true /\ R32 (b32_plus mode_NE x y) = rnd32 (R32 x + R32 y) /\
  (Rabs (R32 (b32_plus mode_NE x y)) <= bpow radix2 k)%R.
Proof.
  intros x y k Hk Fx Fy Hb. pose proof (b32_plus_correct x y Fx Fy) as H.
  pose proof (rnd32_abs_le k _ (proj1 Hk) Hb) as Hr.
  rewrite (bpow_lt_emax k) in H by (try exact Hr; lia). destruct H as [H1 [H2 _]].
  repeat split; [exact H2 | exact H1 | rewrite H1; exact Hr].
Qed.

Lemma div_bound : forall (x y : binary32) k, (-149 <= k <= 127)%Z -> fin32 x = true -> R32 y <> 0%R ->
  (Rabs (R32 x / R32 y) <= bpow radix2 k)%R ->
  fin32 (b32_div mode_NE x y) = true /\ R32 (b32_div mode_NE x y) = rnd32 (R32 x / R32 y) /\
  (Rabs (R32 (b32_div mode_NE x y)) <= bpow radix2 k)%R.
Proof.
  intros x y k Hk Fx Hy Hb. pose proof (b32_div_correct x y Hy) as H.
  pose proof (rnd32_abs_le k _ (proj1 Hk) Hb) as Hr.
  rewrite (bpow_lt_emax k) in H by (try exact Hr; lia). destruct H as [H1 [H2 _]].
  rewrite Fx in H2. repeat split; [exact H2 | exact H1 | rewrite H1; exact Hr].
Qed.

(* ---- rounding to nearest never halves or doubles a representable-range positive value *)
Lemma rnd32_half_double : forall t, (bpow radix2 (-149) <= t)%R -> (t / 2 <= rnd32 t <= 2 * t)%R.
Proof.
  intros t Ht.
  assert (Hpos : (0 < t)%R) by (apply Rlt_le_trans with (2 := Ht); apply bpow_gt_0).
  set (e := (mag radix2 t : Z)).
  assert (Hmag : (bpow radix2 (e - 1) <= t < bpow radix2 e)%R).
  { pose proof (bpow_mag_le radix2 t) as H1. pose proof (bpow_mag_gt radix2 t) as H2.
    rewrite Rabs_pos_eq in H1, H2 by lra. split; [apply H1; lra | exact H2]. }
  assert (He : (-149 <= e - 1)%Z).
  { assert (-149 < e)%Z; [|lia]. apply (lt_bpow radix2). lra. }
  assert (G1 : rnd32 (bpow radix2 (e - 1)) = bpow radix2 (e - 1)).
  { apply round_generic; [apply valid_rnd_round_mode|]. apply generic_format_FLT_bpow; [exact Hp24|lia]. }
  assert (G2 : rnd32 (bpow radix2 e) = bpow radix2 e).
  { apply round_generic; [apply valid_rnd_round_mode|]. apply generic_format_FLT_bpow; [exact Hp24|lia]. }
  assert (E2 : bpow radix2 e = (2 * bpow radix2 (e - 1))%R).
  { replace (bpow radix2 e) with (bpow radix2 (1 + (e - 1))) by (f_equal; lia). rewrite bpow_plus. simpl. lra. }
  split.
  - apply Rle_trans with (bpow radix2 (e - 1)); [lra|]. rewrite <- G1. apply rnd32_mono. lra.
  - apply Rle_trans with (bpow radix2 e); [|lra]. rewrite <- G2. apply rnd32_mono. lra.
Qed.

(* ---- sin_cos_f32 always returns finite components of magnitude at most 1 (as reals) *)
Lemma signed_interp_R : forall v, signed_interp flocq_prims v ->
  v < TWO32 /\ fin32 (b32 v) = true /\ (Rabs (R32 (b32 v)) <= 1)%R.
Proof.
  intros v [E|[a [E|E]]]; subst v.
  - split; [reflexivity|]. split; [reflexivity|]. rewrite R32_zero, Rabs_R0. lra.
  - pose proof (interp_range flocq_prims flocq_prims_wf a) as Hr.
    destruct (in01_spec _ (sin_qtr_interp_in01 a)) as [F R]. repeat split; try assumption.
    rewrite Rabs_pos_eq; lra.
  - pose proof (interp_range flocq_prims flocq_prims_wf a) as Hr.
    destruct (in01_spec _ (sin_qtr_interp_in01 a)) as [F R].
    split; [apply fneg_range; exact Hr|]. split.
    + rewrite fin32_bits by (apply fneg_range; exact Hr). rewrite is_finite_fneg by exact Hr.
      rewrite <- fin32_bits by exact Hr. exact F.
    + rewrite R32_fneg by exact Hr. rewrite Rabs_Ropp, Rabs_pos_eq; lra.
Qed.

Lemma sin_cos_R : forall h,
  let sc := sin_cos flocq_prims h in
  (fst sc < TWO32 /\ fin32 (b32 (fst sc)) = true /\ (Rabs (R32 (b32 (fst sc))) <= 1)%R) /\
  (snd sc < TWO32 /\ fin32 (b32 (snd sc)) = true /\ (Rabs (R32 (b32 (snd sc))) <= 1)%R).
Proof.
  intro h. cbv zeta. destruct (is_finite h) eqn:Hf.
  - destruct (sin_cos_signed_interp_l flocq_prims flocq_prims_wf h Hf) as [S1 S2].
    split; apply signed_interp_R; assumption.
  - unfold sin_cos. rewrite Hf. cbn [negb fst snd]. split.
    + split; [reflexivity|]. split; [reflexivity|]. rewrite R32_zero, Rabs_R0. lra.
    + split; [reflexivity|]. split; [reflexivity|]. rewrite R32_one, Rabs_pos_eq; lra.
Qed.

(* ---- the unchanged tail of from_axis_angle is total once every axis component is small relative to the length *)
Definition EPS2 : N := 730643660.     (* EPSILON * EPSILON as computed in f32 *)
Lemma EPS2_eq : f_mul EPSILON EPSILON = EPS2.
Proof. vm_compute. reflexivity. Qed.
Lemma EPS2_R : (bpow radix2 (-40) <= R32 (b32 EPS2))%R.
Proof. unfold EPS2. vm_compute (b32 _). unfold B2R, F2R; simpl. lra. Qed.

Lemma is_finite_bits32 : forall f : binary32, is_finite (bits32 f) = fin32 f.
Proof. intro f. rewrite <- fin32_bits by apply bits32_range. rewrite b32_bits32. reflexivity. Qed.

Lemma tail_finite : forall a1 a2 a3 L angle,
  fin32 (b32 a1) = true -> fin32 (b32 a2) = true -> fin32 (b32 a3) = true ->
  L < TWO32 -> fin32 (b32 L) = true ->
  (f_le L EPS2 = false ->
     forall a, In a [a1; a2; a3] -> (Rabs (R32 (b32 a)) <= bpow radix2 21 * sqrt (R32 (b32 L)))%R) ->
  all_finite (q4_list (q_axis_tail flocq_prims (a1, a2, a3) L angle)) = true.
Proof.
  intros a1 a2 a3 L angle F1 F2 F3 HL FL Hrel.
  unfold q_axis_tail. cbn [p_le p_mul p_div flocq_prims]. rewrite EPS2_eq.
  destruct (f_le L EPS2) eqn:HLE; [reflexivity|].
  specialize (Hrel eq_refl).
  (* R L > 2^-40 *)
  assert (RL : (bpow radix2 (-40) < R32 (b32 L))%R).
  { apply Rle_lt_trans with (1 := EPS2_R).
    destruct (Rlt_le_dec (R32 (b32 EPS2)) (R32 (b32 L))) as [H|H]; [exact H|exfalso].
    rewrite f_le_Ble in HLE.
    assert (Hc : Ble32 (b32 L) (b32 EPS2) = true) by (apply Ble32_R; [exact FL | reflexivity | exact H]).
    rewrite Hc in HLE. discriminate. }
  set (t := sqrt (R32 (b32 L))) in *.
  assert (Ht : (bpow radix2 (-20) <= t)%R).
  { unfold t. rewrite <- (sqrt_bpow radix2 (-20)). apply sqrt_le_1_alt. simpl (2 * -20)%Z. lra. }
  assert (Ht64 : (t <= bpow radix2 64)%R).
  { unfold t. rewrite <- (sqrt_bpow radix2 64). apply sqrt_le_1_alt. simpl (2 * 64)%Z.
    pose proof (abs_B2R_lt_emax 24 128 (b32 L)) as H. apply Rabs_lt_inv in H. lra. }
  assert (Htpos : (0 < t)%R) by (apply Rlt_le_trans with (2 := Ht); apply bpow_gt_0).
  (* len = sqrt L *)
  assert (Hlen : det_sqrt flocq_prims L = f_sqrt L).
  { unfold det_sqrt. cbn [p_le p_sqrt flocq_prims]. rewrite <- fin32_bits, FL by exact HL. cbn [negb orb].
    destruct (f_le L 0) eqn:E; [|reflexivity]. exfalso. rewrite f_le_Ble in E.
    apply Ble32_R in E; [|exact FL|reflexivity]. rewrite R32_zero in E.
    assert (0 < bpow radix2 (-40))%R by apply bpow_gt_0. lra. }
  rewrite Hlen. unfold f_sqrt.
  set (LEN := b32_sqrt mode_NE (b32 L)).
  assert (HLEN : fin32 LEN = true /\ (t / 2 <= R32 LEN <= 2 * t)%R).
  { unfold LEN, b32_sqrt.
    match goal with |- context [Bsqrt 24 128 ?h1 ?h2 _ _ _] =>
      pose proof (Bsqrt_correct 24 128 h1 h2 unop_nan_pl32 mode_NE (b32 L)) as H end.
    change (SpecFloat.fexp 24 128) with fexp32 in H. destruct H as [H1 [H2 _]]. split.
    - rewrite H2. assert (0 < bpow radix2 (-40))%R by apply bpow_gt_0.
      destruct (b32 L) as [s|s|s pl e|s m e He]; try discriminate FL.
      + simpl in RL. lra.
      + destruct s; [|reflexivity]. exfalso.
        assert (R32 (B754_finite 24 128 true m e He) < 0)%R by (apply F2R_lt_0; reflexivity). lra.
    - rewrite H1. fold t. apply rnd32_half_double.
      apply Rle_trans with (2 := Ht). apply bpow_le. lia. }
  destruct HLEN as [FLEN RLEN].
  assert (B21 : bpow radix2 (-20) = (/ 1048576)%R) by (simpl; lra).
  assert (B64 : bpow radix2 64 = 18446744073709551616%R) by (simpl; lra).
  assert (Hlenpos : (0 < R32 LEN)%R) by lra.
  (* inv = 1 / len *)
  unfold f_div. rewrite !b32_bits32. fold LEN.
  set (INV := b32_div mode_NE (b32 ONE) LEN).
  assert (Hq : (/ (2 * t) <= 1 / R32 LEN <= 2 / t)%R).
  { unfold Rdiv. rewrite Rmult_1_l. split.
    - apply Rinv_le; lra.
    - replace (2 * / t)%R with (/ (t / 2))%R by (field; lra). apply Rinv_le; lra. }
  assert (HINV : fin32 INV = true /\ (0 <= R32 INV <= 4 / t)%R).
  { assert (Hd : (Rabs (R32 (b32 ONE) / R32 LEN) <= bpow radix2 21)%R).
    { rewrite R32_one. rewrite Rabs_pos_eq by (apply Rle_trans with (2 := proj1 Hq); apply Rlt_le, Rinv_0_lt_compat; lra).
      apply Rle_trans with (1 := proj2 Hq). replace (bpow radix2 21) with (2 / bpow radix2 (-20))%R by (simpl; lra).
      unfold Rdiv. apply Rmult_le_compat_l; [lra|]. apply Rinv_le; [apply bpow_gt_0 | exact Ht]. }
    destruct (div_bound (b32 ONE) LEN 21 ltac:(lia) eq_refl ltac:(lra) Hd) as [G1 [G2 _]]. fold INV in G1, G2.
    split; [exact G1|]. rewrite G2, R32_one.
    assert (Hlow : (bpow radix2 (-149) <= 1 / R32 LEN)%R).
    { apply Rle_trans with (2 := proj1 Hq). apply Rle_trans with (/ (2 * bpow radix2 64))%R.
      - rewrite B64. simpl. lra.
      - apply Rinv_le; lra. }
    pose proof (rnd32_half_double _ Hlow) as [Ha Hb]. split.
    - apply Rle_trans with (2 := Ha). apply Rlt_le. apply Rdiv_lt_0_compat; [|lra].
      apply Rlt_le_trans with (2 := proj1 Hq). apply Rinv_0_lt_compat. lra.
    - apply Rle_trans with (1 := Hb). replace (4 / t)%R with (2 * (2 / t))%R by (field; lra). lra. }
  destruct HINV as [FINV RINV].
  (* normalised axis components *)
  assert (Hnorm : forall a, In a [a1; a2; a3] -> fin32 (b32 a) = true ->
            fin32 (b32_mult mode_NE (b32 a) INV) = true /\
            (Rabs (R32 (b32_mult mode_NE (b32 a) INV)) <= bpow radix2 23)%R).
  { intros a Ha Fa. specialize (Hrel a Ha). fold t in Hrel.
    assert (Hb : (Rabs (R32 (b32 a) * R32 INV) <= bpow radix2 23)%R).
    { rewrite Rabs_mult. rewrite (Rabs_pos_eq (R32 INV)) by lra.
      apply Rle_trans with (bpow radix2 21 * t * (4 / t))%R.
      - apply Rmult_le_compat; try lra. apply Rabs_pos.
      - replace (bpow radix2 23) with (bpow radix2 21 * 4)%R by (simpl; lra). right. field. lra. }
    destruct (mult_bound (b32 a) INV 23 ltac:(lia) Fa FINV Hb) as [G1 [_ G3]]. split; assumption. }
  (* sine and cosine of the half angle *)
  destruct (sin_cos_R (f_mul angle HALF)) as [[Hs1 [Hs2 Hs3]] [Hc1 [Hc2 Hc3]]].
  destruct (sin_cos flocq_prims (f_mul angle HALF)) as [s c]. cbn [fst snd] in *.
  unfold v_scale. cbn [p_mul flocq_prims]. unfold f_mul. rewrite !b32_bits32.
  assert (Hfin : forall a, In a [a1; a2; a3] -> fin32 (b32 a) = true ->
            fin32 (b32_mult mode_NE (b32_mult mode_NE (b32 a) INV) (b32 s)) = true).
  { intros a Ha Fa. destruct (Hnorm a Ha Fa) as [G1 G2].
    assert (Hb : (Rabs (R32 (b32_mult mode_NE (b32 a) INV) * R32 (b32 s)) <= bpow radix2 23)%R).
    { rewrite Rabs_mult. rewrite <- (Rmult_1_r (bpow radix2 23)). apply Rmult_le_compat; try apply Rabs_pos; assumption. }
    apply (mult_bound _ _ 23 ltac:(lia) G1 Hs2 Hb). }
  unfold all_finite, q4_list. cbn [forallb]. rewrite !is_finite_bits32.
  rewrite (Hfin a1), (Hfin a2), (Hfin a3) by (simpl; auto).
  rewrite <- (fin32_bits c Hc1), Hc2. reflexivity.
Qed.

(* ---- the squared length: a sum of rounded squares *)
Lemma le_EPS2_false : forall L, fin32 (b32 L) = true -> f_le L EPS2 = false -> (bpow radix2 (-40) < R32 (b32 L))%R.
Proof.
  intros L FL HLE. apply Rle_lt_trans with (1 := EPS2_R).
  destruct (Rlt_le_dec (R32 (b32 EPS2)) (R32 (b32 L))) as [H|H]; [exact H|exfalso].
  rewrite f_le_Ble in HLE.
  assert (Hc : Ble32 (b32 L) (b32 EPS2) = true) by (apply Ble32_R; [exact FL | reflexivity | exact H]).
  rewrite Hc in HLE. discriminate.
Qed.

Lemma rnd32_nonneg : forall t, (0 <= t)%R -> (0 <= rnd32 t)%R.
Proof. intros t H. rewrite <- rnd32_0. apply rnd32_mono. exact H. Qed.

Lemma sq_abs_bound : forall x S, (0 <= S)%R -> (x * x <= 4 * S)%R -> (Rabs x <= 2 * sqrt S)%R.
Proof.
  intros x S HS H. rewrite <- sqrt_Rsqr_abs. unfold Rsqr.
  replace (2 * sqrt S)%R with (sqrt (4 * S)).
  - apply sqrt_le_1_alt. exact H.
  - rewrite sqrt_mult by lra. replace 4%R with (2 * 2)%R by lra. rewrite sqrt_square by lra. reflexivity.
Qed.

(* if the rounded sum of rounded squares is finite, every component is at most 2^21 * sqrt of it
   (provided the sum is above 2^-40) *)
Lemma dot_rel : forall x y z,
  fin32 (b32 x) = true -> fin32 (b32 y) = true -> fin32 (b32 z) = true ->
  let L := v_dot flocq_prims (x, y, z) (x, y, z) in
  fin32 (b32 L) = true -> (bpow radix2 (-40) < R32 (b32 L))%R ->
  forall a, In a [x; y; z] -> (Rabs (R32 (b32 a)) <= bpow radix2 21 * sqrt (R32 (b32 L)))%R.
Proof.
  intros x y z Fx Fy Fz L. unfold L, v_dot. cbn [p_add p_mul flocq_prims]. unfold f_add, f_mul. rewrite !b32_bits32.
  set (X := b32_mult mode_NE (b32 x) (b32 x)). set (Y := b32_mult mode_NE (b32 y) (b32 y)).
  set (Z := b32_mult mode_NE (b32 z) (b32 z)). set (S1 := b32_plus mode_NE X Y). set (S := b32_plus mode_NE S1 Z).
  intros FS RS.
  destruct (plus_fin_inv S1 Z FS) as [FS1 FZ]. destruct (plus_fin_inv X Y FS1) as [FX FY].
  pose proof (mult_fin_R _ _ FX) as RX. pose proof (mult_fin_R _ _ FY) as RY. pose proof (mult_fin_R _ _ FZ) as RZ.
  fold X in RX. fold Y in RY. fold Z in RZ.
  pose proof (plus_fin_R X Y FX FY FS1) as RS1. fold S1 in RS1.
  pose proof (plus_fin_R S1 Z FS1 FZ FS) as RSS. fold S in RSS.
  assert (PX : (0 <= R32 X)%R) by (rewrite RX; apply rnd32_nonneg; nra).
  assert (PY : (0 <= R32 Y)%R) by (rewrite RY; apply rnd32_nonneg; nra).
  assert (PZ : (0 <= R32 Z)%R) by (rewrite RZ; apply rnd32_nonneg; nra).
  assert (LX : (R32 X <= R32 S1)%R) by (rewrite RS1, <- (rnd32_id X) at 1; apply rnd32_mono; lra).
  assert (LY : (R32 Y <= R32 S1)%R) by (rewrite RS1, <- (rnd32_id Y) at 1; apply rnd32_mono; lra).
  assert (PS1 : (0 <= R32 S1)%R) by lra.
  assert (LS1 : (R32 S1 <= R32 S)%R) by (rewrite RSS, <- (rnd32_id S1) at 1; apply rnd32_mono; lra).
  assert (LZ : (R32 Z <= R32 S)%R) by (rewrite RSS, <- (rnd32_id Z) at 1; apply rnd32_mono; lra).
  set (t := sqrt (R32 S)).
  assert (Ht : (bpow radix2 (-20) <= t)%R).
  { unfold t. rewrite <- (sqrt_bpow radix2 (-20)). apply sqrt_le_1_alt. simpl (2 * -20)%Z. lra. }
  assert (B20 : bpow radix2 (-20) = (/ 1048576)%R) by (simpl; lra).
  assert (B21 : bpow radix2 21 = 2097152%R) by (simpl; lra).
  assert (PS : (0 <= R32 S)%R) by lra.
  assert (Hcomp : forall (a : binary32) (A : binary32), R32 A = rnd32 (R32 a * R32 a) -> (R32 A <= R32 S)%R ->
            (Rabs (R32 a) <= bpow radix2 21 * t)%R).
  { intros a A RA LA.
    destruct (Rle_lt_dec (bpow radix2 (-149)) (R32 a * R32 a)) as [Hbig|Hsmall].
    - pose proof (rnd32_half_double _ Hbig) as [Hh _].
      apply Rle_trans with (2 * t)%R; [|rewrite B21; nra].
      apply sq_abs_bound; [exact PS|]. lra.
    - (* tiny square: |a| < 2^-74 *)
      assert (Hs : (Rabs (R32 a) <= bpow radix2 (-74))%R).
      { rewrite <- sqrt_Rsqr_abs. rewrite <- (sqrt_bpow radix2 (-74)). apply sqrt_le_1_alt. unfold Rsqr.
        apply Rle_trans with (bpow radix2 (-149)); [lra|]. apply bpow_le. lia. }
      apply Rle_trans with (1 := Hs). apply Rle_trans with (bpow radix2 21 * bpow radix2 (-20))%R.
      + rewrite <- bpow_plus. apply bpow_le. lia.
      + apply Rmult_le_compat_l; [apply bpow_ge_0 | exact Ht]. }
  intros a [E|[E|[E|[]]]]; subst a.
  - apply (Hcomp (b32 x) X RX). lra.
  - apply (Hcomp (b32 y) Y RY). lra.
  - apply (Hcomp (b32 z) Z RZ). lra.
Qed.

(* ---- a sum of squares of finite numbers is finite or +infinity, never NaN *)
Definition pos_ext (f : binary32) : Prop := (fin32 f = true /\ (0 <= R32 f)%R) \/ f = B754_infinity 24 128 false.

Lemma B2FF_inf : forall (f : binary32) s, B2FF 24 128 f = F754_infinity s -> f = B754_infinity 24 128 s.
Proof. intros [s'|s'|s' pl e|s' m e He] s H; try discriminate H. inversion H. reflexivity. Qed.

Lemma square_pos_ext : forall x : binary32, fin32 x = true -> pos_ext (b32_mult mode_NE x x).
Proof.
  intros x Fx. unfold pos_ext, b32_mult.
  match goal with |- context [Bmult 24 128 ?h1 ?h2 _ _ _ _] =>
    pose proof (Bmult_correct 24 128 h1 h2 binop_nan_pl32 mode_NE x x) as H end.
  change (SpecFloat.fexp 24 128) with fexp32 in H.
  destruct (Rlt_bool _ _).
  - left. destruct H as [H1 [H2 _]]. rewrite Fx in H2. split; [exact H2|]. rewrite H1. apply rnd32_nonneg. nra.
  - right. rewrite xorb_nilpotent in H. apply B2FF_inf. exact H.
Qed.

Lemma nonneg_sign : forall f : binary32, fin32 f = true -> (0 <= R32 f)%R -> Bsign 24 128 f = true -> R32 f = 0%R.
Proof.
  intros [s|s|s pl e|s m e He] F R S; try discriminate F; try reflexivity.
  simpl in S. subst s. exfalso.
  assert (R32 (B754_finite 24 128 true m e He) < 0)%R by (apply F2R_lt_0; reflexivity). lra.
Qed.

Lemma plus_pos_ext : forall a b : binary32, pos_ext a -> pos_ext b -> pos_ext (b32_plus mode_NE a b).
Proof.
  intros a b [[Fa Ra]|Ea] [[Fb Rb]|Eb].
  - unfold pos_ext, b32_plus.
    match goal with |- context [Bplus 24 128 ?h1 ?h2 _ _ _ _] =>
      pose proof (Bplus_correct 24 128 h1 h2 binop_nan_pl32 mode_NE a b Fa Fb) as H end.
    change (SpecFloat.fexp 24 128) with fexp32 in H.
    destruct (Rlt_bool (Rabs (rnd32 (R32 a + R32 b))) (bpow radix2 128)) eqn:E.
    + left. destruct H as [H1 [H2 _]]. split; [exact H2|]. rewrite H1. apply rnd32_nonneg. lra.
    + right. destruct H as [H1 H2]. apply B2FF_inf.
      destruct (Bsign 24 128 a) eqn:Sa; [exfalso|exact H1].
      (* both operands would be -0, whose sum does not overflow *)
      pose proof (nonneg_sign a Fa Ra Sa) as Za. symmetry in H2. pose proof (nonneg_sign b Fb Rb H2) as Zb.
      rewrite Za, Zb, Rplus_0_r, rnd32_0, Rabs_R0 in E.
      rewrite Rlt_bool_true in E by apply bpow_gt_0. discriminate.
  - subst b. right. destruct a as [s|s|s pl e|s m e He]; try discriminate Fa; reflexivity.
  - subst a. right. destruct b as [s|s|s pl e|s m e He]; try discriminate Fb; reflexivity.
  - subst a b. right. reflexivity.
Qed.

Lemma dot_finite_or_inf : forall x y z,
  fin32 (b32 x) = true -> fin32 (b32 y) = true -> fin32 (b32 z) = true ->
  let L := v_dot flocq_prims (x, y, z) (x, y, z) in
  L < TWO32 /\ (is_inf L = false -> fin32 (b32 L) = true).
Proof.
  intros x y z Fx Fy Fz L. unfold L, v_dot. cbn [p_add p_mul flocq_prims]. unfold f_add at 1.
  split; [apply bits32_range|].
  unfold f_add, f_mul. rewrite !b32_bits32.
  set (S := b32_plus mode_NE _ _).
  assert (HS : pos_ext S).
  { unfold S. apply plus_pos_ext; [apply plus_pos_ext|]; apply square_pos_ext; assumption. }
  intro Hinf. destruct HS as [[F _]|E]; [exact F|].
  exfalso. rewrite E in Hinf. vm_compute in Hinf. discriminate.
Qed.

(* ---- f32::max on finite operands *)
Lemma finite_not_nan : forall v, is_finite v = true -> is_nan v = false.
Proof. intro v. bits. Qed.

Lemma fmax_spec : forall a b, a < TWO32 -> b < TWO32 -> fin32 (b32 a) = true -> fin32 (b32 b) = true ->
  let m := fmax flocq_prims a b in
  (m = a \/ m = b) /\ (R32 (b32 a) <= R32 (b32 m))%R /\ (R32 (b32 b) <= R32 (b32 m))%R.
Proof.
  intros a b Ha Hb Fa Fb. cbv zeta. unfold fmax. cbn [p_lt flocq_prims].
  rewrite (finite_not_nan a) by (rewrite <- fin32_bits; assumption).
  rewrite (finite_not_nan b) by (rewrite <- fin32_bits; assumption).
  unfold f_lt, b32_compare. rewrite Bcompare_correct by assumption.
  destruct (Rcompare_spec (R32 (b32 a)) (R32 (b32 b))); split; auto; lra.
Qed.

(* ---- the repaired branch: squared length overflowed, every component finite *)
Lemma rescale_overflow : forall x y z, x < TWO32 -> y < TWO32 -> z < TWO32 ->
  fin32 (b32 x) = true -> fin32 (b32 y) = true -> fin32 (b32 z) = true ->
  is_inf (v_dot flocq_prims (x, y, z) (x, y, z)) = true ->
  exists a1 a2 a3 L, q_rescale flocq_prims (x, y, z) = ((a1, a2, a3), L) /\
    fin32 (b32 a1) = true /\ fin32 (b32 a2) = true /\ fin32 (b32 a3) = true /\ L < TWO32 /\ fin32 (b32 L) = true /\
    (forall a, In a [a1; a2; a3] -> (Rabs (R32 (b32 a)) <= 1)%R).
Proof.
  intros x y z Hx Hy Hz Fx Fy Fz Hinf. unfold q_rescale. rewrite Hinf.
  pose proof (fabs_range x Hx) as Hax. pose proof (fabs_range y Hy) as Hay. pose proof (fabs_range z Hz) as Haz.
  assert (Ffabs : forall v, v < TWO32 -> fin32 (b32 v) = true -> fin32 (b32 (fabs v)) = true).
  { intros v Hv Fv. rewrite fin32_bits by (apply fabs_range; exact Hv). rewrite fin32_bits in Fv by exact Hv.
    revert Hv Fv. clear. bits. }
  pose proof (Ffabs x Hx Fx) as Fax. pose proof (Ffabs y Hy Fy) as Fay. pose proof (Ffabs z Hz Fz) as Faz.
  destruct (fmax_spec (fabs x) (fabs y) Hax Hay Fax Fay) as [Hm1 [Hm1a Hm1b]].
  set (m1 := fmax flocq_prims (fabs x) (fabs y)) in *.
  assert (Hm1r : m1 < TWO32) by (destruct Hm1 as [E|E]; rewrite E; assumption).
  assert (Fm1 : fin32 (b32 m1) = true) by (destruct Hm1 as [E|E]; rewrite E; assumption).
  destruct (fmax_spec m1 (fabs z) Hm1r Haz Fm1 Faz) as [Hm [Hma Hmb]].
  set (m := fmax flocq_prims m1 (fabs z)) in *.
  assert (Hmr : m < TWO32) by (destruct Hm as [E|E]; rewrite E; assumption).
  assert (Fm : fin32 (b32 m) = true) by (destruct Hm as [E|E]; rewrite E; assumption).
  rewrite <- (fin32_bits m Hmr), Fm.
  rewrite !R32_fabs in * by assumption.
  (* the maximum is not zero, otherwise the squared length would be zero *)
  assert (Hmpos : (0 < R32 (b32 m))%R).
  { destruct (Rle_lt_dec (R32 (b32 m)) 0) as [Hle|Hlt]; [exfalso|exact Hlt].
    assert (Zero : forall v, (Rabs (R32 (b32 v)) <= 0)%R -> R32 (b32 v) = 0%R).
    { intros v H. destruct (Req_dec (R32 (b32 v)) 0) as [E|E]; [exact E|]. pose proof (Rabs_pos_lt _ E). lra. }
    assert (Zx := Zero x ltac:(lra)). assert (Zy := Zero y ltac:(lra)). assert (Zz := Zero z ltac:(lra)).
    destruct (dot_finite_or_inf x y z Fx Fy Fz) as [HLr _].
    assert (FL : fin32 (b32 (v_dot flocq_prims (x, y, z) (x, y, z))) = true).
    { unfold v_dot. cbn [p_add p_mul flocq_prims]. unfold f_add, f_mul. rewrite !b32_bits32.
      assert (B : forall v, R32 (b32 v) = 0%R -> (Rabs (R32 (b32 v) * R32 (b32 v)) <= bpow radix2 0)%R).
      { intros v E. rewrite E, Rmult_0_r, Rabs_R0. simpl. lra. }
      destruct (mult_bound (b32 x) (b32 x) 0 ltac:(lia) Fx Fx (B x Zx)) as [G1 [G2 _]].
      destruct (mult_bound (b32 y) (b32 y) 0 ltac:(lia) Fy Fy (B y Zy)) as [G3 [G4 _]].
      destruct (mult_bound (b32 z) (b32 z) 0 ltac:(lia) Fz Fz (B z Zz)) as [G5 [G6 _]].
      rewrite Zx, Rmult_0_r, rnd32_0 in G2. rewrite Zy, Rmult_0_r, rnd32_0 in G4. rewrite Zz, Rmult_0_r, rnd32_0 in G6.
      assert (B1 : (Rabs (R32 (b32_mult mode_NE (b32 x) (b32 x)) + R32 (b32_mult mode_NE (b32 y) (b32 y))) <= bpow radix2 0)%R).
      { rewrite G2, G4, Rplus_0_r, Rabs_R0. simpl. lra. }
      destruct (plus_bound _ _ 0 ltac:(lia) G1 G3 B1) as [G7 [G8 _]].
      rewrite G2, G4, Rplus_0_r, rnd32_0 in G8.
      apply (plus_bound _ _ 0 ltac:(lia) G7 G5). rewrite G8, G6, Rplus_0_r, Rabs_R0. simpl. lra. }
    rewrite fin32_bits in FL by exact HLr. revert Hinf FL. clear. bits. }
  assert (Hle : forall v, v < TWO32 -> (Rabs (R32 (b32 v)) <= R32 (b32 m))%R ->
            (Rabs (R32 (b32 v) / R32 (b32 m)) <= bpow radix2 0)%R).
  { intros v Hv H. unfold Rdiv. rewrite Rabs_mult, Rabs_inv. rewrite (Rabs_pos_eq (R32 (b32 m))) by lra.
    simpl. apply Rmult_le_reg_r with (R32 (b32 m)); [exact Hmpos|]. rewrite Rmult_assoc, Rinv_l by lra. lra. }
  assert (Qx := div_bound (b32 x) (b32 m) 0 ltac:(lia) Fx ltac:(lra) (Hle x Hx ltac:(lra))).
  assert (Qy := div_bound (b32 y) (b32 m) 0 ltac:(lia) Fy ltac:(lra) (Hle y Hy ltac:(lra))).
  assert (Qz := div_bound (b32 z) (b32 m) 0 ltac:(lia) Fz ltac:(lra) (Hle z Hz ltac:(lra))).
  destruct Qx as [Qx1 [_ Qx3]]. destruct Qy as [Qy1 [_ Qy3]]. destruct Qz as [Qz1 [_ Qz3]].
  cbn [p_div flocq_prims].
  exists (f_div x m), (f_div y m), (f_div z m), (v_dot flocq_prims (f_div x m, f_div y m, f_div z m) (f_div x m, f_div y m, f_div z m)).
  split; [reflexivity|].
  unfold f_div at 1 2 3. rewrite !b32_bits32.
  split; [exact Qx1|]. split; [exact Qy1|]. split; [exact Qz1|].
  assert (B0 : bpow radix2 0 = 1%R) by reflexivity.
  split; [unfold v_dot; cbn [p_add flocq_prims]; unfold f_add at 1; apply bits32_range|].
  split.
  - unfold v_dot. cbn [p_add p_mul flocq_prims]. unfold f_add, f_mul, f_div. rewrite !b32_bits32.
    set (A1 := b32_div mode_NE (b32 x) (b32 m)) in *. set (A2 := b32_div mode_NE (b32 y) (b32 m)) in *.
    set (A3 := b32_div mode_NE (b32 z) (b32 m)) in *.
    assert (Bsq : forall A : binary32, (Rabs (R32 A) <= bpow radix2 0)%R -> (Rabs (R32 A * R32 A) <= bpow radix2 0)%R).
    { intros A H. rewrite Rabs_mult. rewrite B0 in *. pose proof (Rabs_pos (R32 A)). nra. }
    destruct (mult_bound A1 A1 0 ltac:(lia) Qx1 Qx1 (Bsq A1 Qx3)) as [G1 [_ G2]].
    destruct (mult_bound A2 A2 0 ltac:(lia) Qy1 Qy1 (Bsq A2 Qy3)) as [G3 [_ G4]].
    destruct (mult_bound A3 A3 0 ltac:(lia) Qz1 Qz1 (Bsq A3 Qz3)) as [G5 [_ G6]].
    assert (B1 : (Rabs (R32 (b32_mult mode_NE A1 A1) + R32 (b32_mult mode_NE A2 A2)) <= bpow radix2 1)%R).
    { eapply Rle_trans; [apply Rabs_triang|]. rewrite B0 in *. simpl. lra. }
    destruct (plus_bound _ _ 1 ltac:(lia) G1 G3 B1) as [G7 [_ G8]].
    apply (plus_bound _ _ 2 ltac:(lia) G7 G5).
    eapply Rle_trans; [apply Rabs_triang|]. rewrite B0 in *. simpl in *. lra.
  - intros a [E|[E|[E|[]]]]; subst a; unfold f_div; rewrite b32_bits32; rewrite B0 in *; assumption.
Qed.

(* ---- totality of Quat::from_axis_angle (after the overflow repair) on every finite axis and ANY angle *)
Lemma from_axis_angle_total_l : forall x y z angle, x < TWO32 -> y < TWO32 -> z < TWO32 ->
  is_finite x = true -> is_finite y = true -> is_finite z = true ->
  all_finite (q4_list (q_from_axis_angle flocq_prims (x, y, z) angle)) = true.
Proof.
  intros x y z angle Hx Hy Hz Bx By Bz.
  assert (Fx : fin32 (b32 x) = true) by (rewrite fin32_bits; assumption).
  assert (Fy : fin32 (b32 y) = true) by (rewrite fin32_bits; assumption).
  assert (Fz : fin32 (b32 z) = true) by (rewrite fin32_bits; assumption).
  unfold q_from_axis_angle.
  destruct (is_inf (v_dot flocq_prims (x, y, z) (x, y, z))) eqn:Hinf.
  - destruct (rescale_overflow x y z Hx Hy Hz Fx Fy Fz Hinf) as (a1 & a2 & a3 & L & E & F1 & F2 & F3 & HL & FL & Hb).
    rewrite E. apply tail_finite; try assumption.
    intros HLE a Ha. apply Rle_trans with (1 := Hb a Ha).
    pose proof (le_EPS2_false L FL HLE) as RL.
    assert (Ht : (bpow radix2 (-20) <= sqrt (R32 (b32 L)))%R).
    { rewrite <- (sqrt_bpow radix2 (-20)). apply sqrt_le_1_alt. simpl (2 * -20)%Z. lra. }
    apply Rle_trans with (bpow radix2 21 * bpow radix2 (-20))%R.
    + rewrite <- bpow_plus. simpl. lra.
    + apply Rmult_le_compat_l; [apply bpow_ge_0 | exact Ht].
  - unfold q_rescale. rewrite Hinf.
    destruct (dot_finite_or_inf x y z Fx Fy Fz) as [HL HF]. specialize (HF Hinf).
    apply tail_finite; try assumption.
    intros HLE a Ha. apply dot_rel; try assumption. apply le_EPS2_false; assumption.
Qed.
