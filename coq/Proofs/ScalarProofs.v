(* C19 proofs.  Part A: bit-pattern algebra (no Flocq content, closed under the global context).
   Part B: symmetry of sin/cos for arbitrary float primitives.  Part C: table facts and range.
   Part D: Q32.32.  Part E: PRNG. *)
From Coq Require Import NArith ZArith List Bool Lia.
From Flocq Require Import Core IEEE754.BinarySingleNaN IEEE754.Binary IEEE754.Bits.
From Echo Require Import Model.TrigTable Model.Scalar.
Import ListNotations.
Open Scope N_scope.

Ltac Zify.zify_post_hook ::= Z.to_euclidean_division_equations.

(* ------------------------------------------------------------------ Part A *)

Ltac unfold_bits :=
  unfold canonical, canonicalb, new, codec_canonicalize_f32, add_pos_zero, czero, is_zero, fneg, fabs,
         is_nan, is_inf, is_finite, is_subnormal, sign_of, expo, mant,
         CANON_NAN, NEG_ZERO, ONE, TWO31, TWO32, TWO23 in *.

Ltac split_bools :=
  repeat match goal with
  | |- context [?a =? ?b] => destruct (N.eqb_spec a b)
  | |- context [?a <=? ?b] => destruct (N.leb_spec a b)
  | |- context [?a <? ?b] => destruct (N.ltb_spec a b)
  | H : context [?a =? ?b] |- _ => destruct (N.eqb_spec a b)
  | H : context [?a <=? ?b] |- _ => destruct (N.leb_spec a b)
  | H : context [?a <? ?b] |- _ => destruct (N.ltb_spec a b)
  end.

Ltac bits := unfold_bits; split_bools; cbn [andb orb negb] in *; intros; try discriminate; try lia.

Lemma canonicalb_spec : forall b, canonicalb b = true <-> canonical b.
Proof.
  intro b. unfold canonical, canonicalb.
  rewrite !andb_true_iff, orb_true_iff, !negb_true_iff, N.ltb_lt, !N.eqb_neq, N.eqb_eq.
  split.
  - intros [[[H1 H2] H3] H4]. repeat split; auto.
    intro Hn. destruct H4 as [H4|H4]; [rewrite Hn in H4; discriminate | exact H4].
  - intros [H1 [H2 [H3 H4]]]. repeat split; auto.
    destruct (is_nan b); [right; auto | left; reflexivity].
Qed.

(* F32Scalar::new always lands in the canonical set: case analysis on the NaN / subnormal /
   negative-zero tests, which are tests on the exponent and mantissa fields. *)
Lemma new_canonical_l : forall b, b < TWO32 -> canonical (new b).
Proof.
  intros b Hb. unfold new.
  destruct (is_nan b) eqn:Hn.
  - apply canonicalb_spec. vm_compute. reflexivity.
  - destruct (is_subnormal b) eqn:Hs.
    + apply canonicalb_spec. vm_compute. reflexivity.
    + unfold add_pos_zero. destruct (N.eqb_spec b NEG_ZERO) as [E|E].
      * apply canonicalb_spec. vm_compute. reflexivity.
      * unfold canonical. repeat split; auto. intro H. rewrite H in Hn. discriminate.
Qed.

Lemma new_fixes_canonical : forall b, canonical b -> new b = b.
Proof.
  intros b [H1 [H2 [H3 H4]]]. unfold new.
  destruct (is_nan b) eqn:Hn.
  - symmetry. apply H4. reflexivity.
  - rewrite H3. unfold add_pos_zero. destruct (N.eqb_spec b NEG_ZERO); [contradiction | reflexivity].
Qed.

Lemma new_idempotent_l : forall b, b < TWO32 -> new (new b) = new b.
Proof. intros b Hb. apply new_fixes_canonical. apply new_canonical_l. exact Hb. Qed.

Lemma canonical_iff_fixed : forall b, b < TWO32 -> (canonical b <-> new b = b).
Proof.
  intros b Hb. split.
  - apply new_fixes_canonical.
  - intro H. rewrite <- H. apply new_canonical_l. exact Hb.
Qed.

Lemma codec_canonicalize_is_new : forall b, codec_canonicalize_f32 b = new b.
Proof. reflexivity. Qed.

(* Field-level reading of the canonical set: +0, a normal number of either sign, +-infinity, or the
   one quiet NaN. *)
Lemma canonical_classes_l : forall b,
  canonical b <->
  b < TWO32 /\ (b = 0 \/ (1 <= expo b <= 254) \/ b = 0x7f800000 \/ b = 0xff800000 \/ b = CANON_NAN).
Proof.
  intro b. split.
  - intros [H1 [H2 [H3 H4]]]. split; [exact H1|].
    destruct (is_nan b) eqn:Hn.
    + right; right; right; right. apply H4. reflexivity.
    + clear H4. revert H1 H2 H3 Hn. bits.
  - intros [H1 H]. apply canonicalb_spec.
    destruct H as [H|[H|[H|[H|H]]]]; try (subst b; vm_compute; reflexivity).
    revert H1 H. bits.
Qed.

(* sign-bit algebra *)
Lemma fneg_range : forall b, b < TWO32 -> fneg b < TWO32.
Proof. intros b. bits. Qed.
Lemma fabs_range : forall b, b < TWO32 -> fabs b < TWO32.
Proof. intros b. bits. Qed.
Lemma fneg_involutive : forall b, b < TWO32 -> fneg (fneg b) = b.
Proof. intros b. bits. Qed.
Lemma fabs_fneg : forall b, b < TWO32 -> fabs (fneg b) = fabs b.
Proof. intros b. bits. Qed.
Lemma sign_fneg : forall b, b < TWO32 -> sign_of (fneg b) = negb (sign_of b).
Proof. intros b. bits. Qed.
Lemma expo_fneg : forall b, b < TWO32 -> expo (fneg b) = expo b.
Proof. intros b. bits. Qed.
Lemma mant_fneg : forall b, b < TWO32 -> mant (fneg b) = mant b.
Proof. intros b. bits. Qed.
Lemma is_finite_fneg : forall b, b < TWO32 -> is_finite (fneg b) = is_finite b.
Proof. intros b Hb. unfold is_finite. rewrite expo_fneg; auto. Qed.
Lemma is_nan_fneg : forall b, b < TWO32 -> is_nan (fneg b) = is_nan b.
Proof. intros b Hb. unfold is_nan. rewrite expo_fneg, mant_fneg; auto. Qed.
Lemma is_subnormal_fneg : forall b, b < TWO32 -> is_subnormal (fneg b) = is_subnormal b.
Proof. intros b Hb. unfold is_subnormal. rewrite expo_fneg, mant_fneg; auto. Qed.
Lemma is_zero_fneg : forall b, b < TWO32 -> is_zero (fneg b) = is_zero b.
Proof. intros b. bits. Qed.
Lemma czero_range : forall b, b < TWO32 -> czero b < TWO32.
Proof. intros b. bits. Qed.

(* ------------------------------------------------------------------ Part B: closure and symmetry *)

Lemma lut_table_range : forallb (fun x => x <? TWO32) SIN_QTR_LUT_BITS = true.
Proof. vm_compute. reflexivity. Qed.

Lemma lut_range : forall i, lut i < TWO32.
Proof.
  intro i. unfold lut.
  destruct (nth_in_or_default (N.to_nat i) SIN_QTR_LUT_BITS 0) as [Hin|Hd].
  - pose proof lut_table_range as H. rewrite forallb_forall in H. apply N.ltb_lt. apply H. exact Hin.
  - rewrite Hd. reflexivity.
Qed.

Section Sym.
Variable P : prims.
Hypothesis WF : prims_wf P.

Let wf_add : forall a b, p_add P a b < TWO32. Proof. apply WF. Qed.
Let wf_sub : forall a b, p_sub P a b < TWO32. Proof. apply WF. Qed.
Let wf_mul : forall a b, p_mul P a b < TWO32. Proof. apply WF. Qed.
Let wf_div : forall a b, p_div P a b < TWO32. Proof. apply WF. Qed.

Lemma interp_range : forall a, sin_qtr_interp P a < TWO32.
Proof.
  intro a. unfold sin_qtr_interp.
  destruct (negb _); [reflexivity|].
  destruct (p_le P SIN_QTR_SEGMENTS_F32 _); [reflexivity|].
  apply wf_add.
Qed.

(* the part of sin_cos_f32 that sees only |angle| *)
Definition trig_core (m : N) : N * N :=
    let r := p_rem P m TAU in
    let '(quadrant, a) :=
      if p_lt P r FRAC_PI_2 then (0, r)
      else if p_lt P r PI then (1, p_sub P r FRAC_PI_2)
      else if p_lt P r (FRAC_3PI_2 P) then (2, p_sub P r PI)
      else (3, p_sub P r (FRAC_3PI_2 P)) in
    let s := sin_qtr_interp P a in
    let c := sin_qtr_interp P (p_sub P FRAC_PI_2 a) in
      match quadrant with
      | 0 => (s, c)
      | 1 => (c, fneg s)
      | 2 => (fneg s, fneg c)
      | _ => (fneg c, s)
      end.

Lemma trig_core_range : forall m, fst (trig_core m) < TWO32 /\ snd (trig_core m) < TWO32.
Proof.
  intro m. unfold trig_core.
  destruct (p_lt P _ FRAC_PI_2); [|destruct (p_lt P _ PI); [|destruct (p_lt P _ (FRAC_3PI_2 P))]];
    cbn [fst snd]; split; try apply fneg_range; apply interp_range.
Qed.

Lemma sin_cos_shape : forall x, is_finite x = true ->
  sin_cos P x = (czero (if sign_of x then fneg (fst (trig_core (fabs x))) else fst (trig_core (fabs x))),
                 czero (snd (trig_core (fabs x)))).
Proof.
  intros x Hf. unfold sin_cos, trig_core. rewrite Hf. cbn [negb].
  destruct (p_lt P _ FRAC_PI_2); [|destruct (p_lt P _ PI); [|destruct (p_lt P _ (FRAC_3PI_2 P))]];
    reflexivity.
Qed.

Lemma sin_cos_range : forall x, fst (sin_cos P x) < TWO32 /\ snd (sin_cos P x) < TWO32.
Proof.
  intro x. destruct (is_finite x) eqn:Hf.
  - rewrite sin_cos_shape by exact Hf. cbn [fst snd].
    destruct (trig_core_range (fabs x)) as [H1 H2].
    split; apply czero_range; [destruct (sign_of x); [apply fneg_range|]|]; assumption.
  - unfold sin_cos. rewrite Hf. cbn. split; reflexivity.
Qed.

(* every F32Scalar operation returns `new` of a 32-bit pattern, hence a canonical value *)
Lemma ops_closed_l : forall a b, a < TWO32 ->
  canonical (s_add P a b) /\ canonical (s_sub P a b) /\ canonical (s_mul P a b) /\ canonical (s_div P a b) /\
  canonical (s_neg a) /\ canonical (s_sin P a) /\ canonical (s_cos P a) /\
  canonical (fst (s_sin_cos P a)) /\ canonical (snd (s_sin_cos P a)).
Proof.
  intros a b Ha. unfold s_add, s_sub, s_mul, s_div, s_neg, s_sin, s_cos, s_sin_cos. cbn [fst snd].
  destruct (sin_cos_range a) as [H1 H2].
  repeat split; apply new_canonical_l; auto using fneg_range.
Qed.

Lemma new_czero_fneg : forall y, y < TWO32 -> new (czero (fneg y)) = new (fneg (new (czero y))).
Proof.
  intros y Hy. unfold czero. rewrite is_zero_fneg by exact Hy.
  destruct (is_zero y) eqn:Hz.
  - vm_compute. reflexivity.
  - unfold new at 1 3. rewrite is_nan_fneg, is_subnormal_fneg by exact Hy.
    destruct (is_nan y) eqn:Hn; [vm_compute; reflexivity|].
    destruct (is_subnormal y) eqn:Hs; [vm_compute; reflexivity|].
    assert (E : add_pos_zero y = y).
    { revert Hz. clear. bits. }
    rewrite E.
    unfold new. rewrite is_nan_fneg, is_subnormal_fneg, Hn, Hs by exact Hy. reflexivity.
Qed.

Lemma s_neg_nonzero : forall x, canonical x -> x <> 0 -> is_nan x = false -> s_neg x = fneg x.
Proof.
  intros x Hc Hx Hn. destruct Hc as [H1 [H2 [H3 H4]]].
  unfold s_neg, new. rewrite is_nan_fneg, is_subnormal_fneg, Hn, H3 by exact H1.
  revert H1 H2 Hx. clear. bits.
Qed.

(* sin(-x) = -(sin x) bit for bit, for every canonical non-zero x, whatever the float primitives compute *)
Lemma sin_odd_l : forall x, canonical x -> x <> 0 -> s_sin P (s_neg x) = s_neg (s_sin P x).
Proof.
  intros x Hc Hx. pose proof Hc as [H1 [H2 [H3 H4]]].
  destruct (is_nan x) eqn:Hn.
  - rewrite (H4 eq_refl). vm_compute. reflexivity.
  - rewrite s_neg_nonzero by assumption.
    unfold s_sin, s_neg.
    destruct (is_finite x) eqn:Hf.
    + rewrite !sin_cos_shape by (rewrite ?is_finite_fneg; assumption).
      cbn [fst]. rewrite fabs_fneg, sign_fneg by exact H1.
      destruct (trig_core_range (fabs x)) as [R1 _].
      set (s1 := fst (trig_core (fabs x))) in *.
      destruct (sign_of x); cbn [negb].
      * rewrite <- (new_czero_fneg (fneg s1)) by (apply fneg_range; exact R1).
        rewrite fneg_involutive by exact R1. reflexivity.
      * apply new_czero_fneg. exact R1.
    + unfold sin_cos. rewrite is_finite_fneg, Hf by exact H1. vm_compute. reflexivity.
Qed.

(* cos(-x) = cos x bit for bit, for every canonical x *)
Lemma cos_even_l : forall x, canonical x -> s_cos P (s_neg x) = s_cos P x.
Proof.
  intros x Hc. pose proof Hc as [H1 [H2 [H3 H4]]].
  destruct (N.eq_dec x 0) as [E|Hx]; [subst x; reflexivity|].
  destruct (is_nan x) eqn:Hn.
  - rewrite (H4 eq_refl). vm_compute. reflexivity.
  - rewrite s_neg_nonzero by assumption. unfold s_cos.
    destruct (is_finite x) eqn:Hf.
    + rewrite !sin_cos_shape by (rewrite ?is_finite_fneg; assumption).
      cbn [snd]. rewrite fabs_fneg by exact H1. reflexivity.
    + unfold sin_cos. rewrite is_finite_fneg, Hf by exact H1. reflexivity.
Qed.

End Sym.

(* ------------------------------------------------------------------ Part C: the Flocq instance *)

Lemma bits32_range : forall f, bits32 f < TWO32.
Proof.
  intro f. unfold bits32, bits_of_b32.
  pose proof (bits_of_binary_float_range 23 8 eq_refl eq_refl f) as H.
  change (2 ^ (23 + 8 + 1))%Z with 4294967296%Z in H. unfold TWO32. lia.
Qed.

Lemma f_rem_euclid_range : forall a b, f_rem_euclid a b < TWO32.
Proof.
  intros a b. unfold f_rem_euclid.
  assert (Hm : f_fmod a b < TWO32).
  { unfold f_fmod. destruct (b32 a); destruct (b32 b); try apply bits32_range; reflexivity. }
  destruct (f_lt _ 0); [apply bits32_range | exact Hm].
Qed.

Lemma f_truncf_range : forall a, f_truncf a < TWO32.
Proof.
  intros a. unfold f_truncf. destruct (b32 a); try apply bits32_range.
  destruct (0 <=? e)%Z; apply bits32_range.
Qed.

Lemma flocq_prims_wf : prims_wf flocq_prims.
Proof.
  unfold prims_wf, flocq_prims; cbn.
  repeat split; intros; try apply bits32_range; auto using f_rem_euclid_range, f_truncf_range.
Qed.

(* the checked-in table: 1025 entries, starts at +0.0, ends at 1.0, non-decreasing as bit patterns
   (all entries are non-negative floats, for which bit order is numeric order), so every entry is in [0, 1] *)
Fixpoint nondecreasing (l : list N) : bool :=
  match l with
  | a :: (b :: _) as t => (a <=? b) && nondecreasing t
  | _ => true
  end.

Lemma lut_facts :
  length SIN_QTR_LUT_BITS = 1025%nat /\ SIN_QTR_SEGMENTS = 1024 /\ SIN_QTR_SEGMENTS_F32 = 0x44800000 /\
  lut 0 = 0 /\ lut 1024 = ONE /\ nondecreasing SIN_QTR_LUT_BITS = true /\
  forallb (fun x => x <=? ONE) SIN_QTR_LUT_BITS = true.
Proof. vm_compute. repeat split; reflexivity. Qed.

Lemma lut_le_one : forall i, lut i <= ONE.
Proof.
  intro i. unfold lut.
  destruct (nth_in_or_default (N.to_nat i) SIN_QTR_LUT_BITS 0) as [Hin|Hd].
  - destruct lut_facts as (_ & _ & _ & _ & _ & _ & H). rewrite forallb_forall in H.
    apply N.leb_le. apply H. exact Hin.
  - rewrite Hd. discriminate.
Qed.

Lemma sin_zero_flocq : s_sin flocq_prims 0 = 0 /\ s_cos flocq_prims 0 = ONE.
Proof. vm_compute. split; reflexivity. Qed.

(* full statements for the binary32 instance, zero included *)
Lemma sin_odd_flocq : forall x, canonical x -> s_sin flocq_prims (s_neg x) = s_neg (s_sin flocq_prims x).
Proof.
  intros x Hc. destruct (N.eq_dec x 0) as [E|Hx].
  - subst x. vm_compute. reflexivity.
  - apply sin_odd_l; [apply flocq_prims_wf | exact Hc | exact Hx].
Qed.

Lemma cos_even_flocq_zero : s_cos flocq_prims (s_neg 0) = s_cos flocq_prims 0.
Proof. reflexivity. Qed.

(* ------------------------------------------------------------------ Part D: Q32.32 *)
Open Scope Z_scope.

Ltac unfold_fx := unfold in_i64, sat64, I64_MIN, I64_MAX, I128_MAX in *.
Ltac zbools :=
  repeat match goal with
  | |- context [?a =? ?b] => destruct (Z.eqb_spec a b)
  | |- context [?a <=? ?b] => destruct (Z.leb_spec a b)
  | |- context [?a <? ?b] => destruct (Z.ltb_spec a b)
  end.

Lemma sat64_range : forall v, in_i64 (sat64 v).
Proof. intro v. unfold_fx. zbools; lia. Qed.

Lemma sat64_clamp : forall v, sat64 v = Z.max I64_MIN (Z.min I64_MAX v).
Proof. intro v. unfold_fx. zbools; lia. Qed.

Lemma sat64_id : forall v, in_i64 v -> sat64 v = v.
Proof. intros v H. unfold_fx. zbools; lia. Qed.

(* conversions are total and land in i64 for every bit pattern *)
Lemma q32_total_l : forall b : N,
  in_i64 (fx_from_f32 b) /\ in_i64 (codec_fx_from_f32 b) /\ in_i64 (dfix_from_f32 b).
Proof.
  intro b. unfold dfix_from_f32.
  assert (H : in_i64 (fx_from_f32 b)).
  { unfold fx_from_f32.
    destruct (is_nan b); [unfold_fx; lia|].
    destruct (is_inf b); [destruct (sign_of b); unfold_fx; lia|].
    destruct (_ && _); [unfold_fx; lia|]. apply sat64_range. }
  split; [exact H|split; [|exact H]].
  unfold codec_fx_from_f32.
  destruct (is_nan b); [unfold_fx; lia|].
  destruct (is_inf b); [destruct (sign_of b); unfold_fx; lia|].
  apply sat64_range.
Qed.

(* add / sub / neg are the exact integer result clamped into i64: saturation, never wrap-around *)
Lemma q32_saturates_l : forall a b, in_i64 a -> in_i64 b ->
  dfix_add a b = Z.max I64_MIN (Z.min I64_MAX (a + b)) /\
  dfix_sub a b = Z.max I64_MIN (Z.min I64_MAX (a - b)) /\
  dfix_neg a = Z.max I64_MIN (Z.min I64_MAX (- a)) /\
  in_i64 (dfix_mul a b) /\ in_i64 (dfix_div a b).
Proof.
  intros a b Ha Hb. unfold dfix_add, dfix_sub.
  rewrite <- !sat64_clamp. repeat split; try reflexivity.
  - unfold dfix_neg. unfold_fx. zbools; lia.
  - unfold dfix_mul. apply sat64_range.
  - unfold dfix_mul. apply sat64_range.
  - unfold dfix_div. destruct (b =? 0); [|apply sat64_range].
    destruct (a =? 0); [unfold_fx; lia|]. destruct (a <? 0); unfold_fx; lia.
  - unfold dfix_div. destruct (b =? 0); [|apply sat64_range].
    destruct (a =? 0); [unfold_fx; lia|]. destruct (a <? 0); unfold_fx; lia.
Qed.

(* multiplication rounds to nearest: unless it saturates, the result is within half a unit (2^31 of
   the 2^64-scaled exact product) of a*b *)
Lemma dfix_mul_nearest_l : forall a b, in_i64 a -> in_i64 b ->
  I64_MIN < dfix_mul a b < I64_MAX -> Z.abs (dfix_mul a b * 2 ^ 32 - a * b) <= 2 ^ 31.
Proof.
  intros a b Ha Hb. unfold dfix_mul.
  assert (Hp : Z.abs (a * b) <= 2 ^ 126).
  { rewrite Z.abs_mul. change (2 ^ 126) with (2 ^ 63 * 2 ^ 63).
    apply Z.mul_le_mono_nonneg; unfold_fx; lia. }
  remember (a * b) as prod eqn:Eprod. clear Eprod Ha Hb a b.
  set (q := Z.abs prod / 2 ^ 32). set (rr := Z.abs prod mod 2 ^ 32).
  assert (Hdm : Z.abs prod = 2 ^ 32 * q + rr /\ 0 <= rr < 2 ^ 32).
  { split; [apply Z.div_mod; lia | apply Z.mod_pos_bound; lia]. }
  assert (Hq : 0 <= q <= 2 ^ 94).
  { split; [apply Z.div_pos; lia|]. apply Z.div_le_upper_bound; [lia|].
    change (2 ^ 32 * 2 ^ 94) with (2 ^ 126). exact Hp. }
  clearbody q rr.
  change (2 ^ 32) with 4294967296 in *. change (2 ^ 31) with 2147483648 in *.
  change (2 ^ 94) with 19807040628566084398385987584 in *.
  set (rounded := if (2147483648 <? rr) || ((rr =? 2147483648) && Z.odd q) then q + 1 else q).
  assert (Hr : (rounded = q /\ rr <= 2147483648) \/ (rounded = q + 1 /\ 2147483648 <= rr)).
  { unfold rounded. destruct (Z.ltb_spec 2147483648 rr); cbn [orb]; [right; lia|].
    destruct (Z.eqb_spec rr 2147483648); cbn [andb]; [|left; lia].
    destruct (Z.odd q); [right; lia | left; lia]. }
  clearbody rounded.
  assert (Hmin : Z.min rounded I128_MAX = rounded) by (unfold I128_MAX; lia).
  rewrite Hmin. unfold_fx.
  destruct (Z.ltb_spec prod 0); zbools; intros; lia.
Qed.

(* division rounds to nearest: unless it saturates, |r * b - a * 2^32| <= |b| / 2 *)
Lemma dfix_div_nearest_l : forall a b, in_i64 a -> in_i64 b -> b <> 0 ->
  I64_MIN < dfix_div a b < I64_MAX -> 2 * Z.abs (dfix_div a b * b - a * 2 ^ 32) <= Z.abs b.
Proof.
  intros a b Ha Hb Hb0. unfold dfix_div.
  destruct (Z.eqb_spec b 0) as [E|_]; [contradiction|].
  set (num := Z.abs (a * 2 ^ 32)). set (den := Z.abs b).
  assert (Hden : 0 < den) by (unfold den; lia).
  set (q := num / den). set (rr := num mod den).
  assert (Hdm : num = den * q + rr /\ 0 <= rr < den).
  { split; [apply Z.div_mod; lia | apply Z.mod_pos_bound; lia]. }
  assert (Hnum : 0 <= num <= 2 ^ 95).
  { unfold num. change (2 ^ 32) with 4294967296. change (2 ^ 95) with (9223372036854775808 * 4294967296).
    unfold_fx. lia. }
  assert (Hq : 0 <= q <= 2 ^ 95).
  { split; [apply Z.div_pos; lia|]. apply Z.div_le_upper_bound; [lia|]. nia. }
  unfold round_half_even_div. fold q rr.
  set (rounded := if (den <? 2 * rr) || ((2 * rr =? den) && Z.odd q) then q + 1 else q).
  assert (Hr : (rounded = q /\ 2 * rr <= den) \/ (rounded = q + 1 /\ den <= 2 * rr)).
  { unfold rounded. destruct (Z.ltb_spec den (2 * rr)); cbn [orb]; [right; lia|].
    destruct (Z.eqb_spec (2 * rr) den); cbn [andb]; [|left; lia].
    destruct (Z.odd q); [right; lia | left; lia]. }
  clearbody rounded.
  assert (Hmin : Z.min rounded I128_MAX = rounded).
  { unfold I128_MAX. change (2 ^ 95) with 39614081257132168796771975168 in Hq. lia. }
  rewrite Hmin.
  assert (Hnum' : num = Z.abs a * 4294967296) by (unfold num; change (2 ^ 32) with 4294967296; lia).
  change (2 ^ 32) with 4294967296.
  clearbody q rr. clear Hmin Hq Hnum.
  unfold_fx.
  destruct (Z.ltb_spec a 0); destruct (Z.ltb_spec b 0); cbn [xorb];
    zbools; intros; unfold den in *; nia.
Qed.

Close Scope Z_scope.

(* ------------------------------------------------------------------ Part E: PRNG *)

Lemma prng_next_u64_range : forall st, fst (prng_next_u64 st) < M64.
Proof. intros [s0 s1]. unfold prng_next_u64. cbn [fst]. apply N.mod_lt. discriminate. Qed.

Lemma prng_reject_range : forall fuel st bound span v st',
  span <> 0 -> prng_reject fuel st bound span = Some (v, st') -> v < span.
Proof.
  induction fuel as [|f IH]; intros st bound span v st' Hs H; [discriminate|].
  cbn [prng_reject] in H. destruct (prng_next_u64 st) as [cand st1].
  destruct (cand <? bound).
  - inversion H; subst. apply N.mod_lt. exact Hs.
  - eapply IH; eauto.
Qed.

Lemma Pos_land_le : forall p q, Pos.land p q <= N.pos q.
Proof.
  induction p as [p IH|p IH|]; destruct q as [q|q|]; cbn; try lia;
    try (specialize (IH q); destruct (Pos.land p q); cbn; lia).
Qed.

Lemma land_le_r : forall a b, N.land a b <= b.
Proof. intros [|p] [|q]; cbn; try lia. apply Pos_land_le. Qed.

(* next_int stays inside [min, max] (both the power-of-two fast path and rejection sampling) and
   panics (None) exactly when min > max or the fuel of the model runs out *)
Lemma prng_next_int_in_range : forall fuel st lo hi v st',
  (- 2 ^ 31 <= lo)%Z -> (hi < 2 ^ 31)%Z ->
  prng_next_int fuel st lo hi = Some (v, st') -> (lo <= v <= hi)%Z.
Proof.
  intros fuel st lo hi v st' Hlo Hhi H. unfold prng_next_int in H.
  destruct (Z.ltb_spec hi lo) as [Hlt|Hle]; [discriminate|].
  set (span := Z.to_N (hi - lo)%Z + 1) in *.
  assert (Hspan : span <> 0) by (unfold span; lia).
  destruct (N.eqb_spec span 1) as [E1|N1].
  - inversion H; subst. unfold span in E1. lia.
  - assert (Hv : forall w s, (if is_pow2 span
                     then let '(v0, st'0) := prng_next_u64 st in Some (N.land v0 (span - 1), st'0)
                     else prng_reject fuel st (M64 - 1 - (M64 - 1) mod span) span) = Some (w, s) -> w < span).
    { intros w s Hw. destruct (is_pow2 span).
      - destruct (prng_next_u64 st) as [v0 s0]. inversion Hw; subst.
        pose proof (land_le_r v0 (span - 1)). lia.
      - eapply prng_reject_range; eauto. }
    destruct (if is_pow2 span then _ else _) as [[w s]|] eqn:Er; [|discriminate].
    specialize (Hv w s eq_refl). inversion H; subst. clear H Er.
    assert (Hoff : (lo <= Z.of_N w + lo <= hi)%Z) by (unfold span in Hv; lia).
    set (off := (Z.of_N w + lo)%Z) in *.
    assert (Hm : ((off mod 2 ^ 32 = off /\ 0 <= off) \/ (off mod 2 ^ 32 = off + 2 ^ 32 /\ off < 0))%Z).
    { change (2 ^ 32)%Z with 4294967296%Z. change (2 ^ 31)%Z with 2147483648%Z in *.
      destruct (Z.ltb_spec off 0); [right|left]; split; lia. }
    change (Z.pow_pos 2 32) with 4294967296%Z. change (Z.pow_pos 2 31) with 2147483648%Z.
    change (2 ^ 32)%Z with 4294967296%Z in *. change (2 ^ 31)%Z with 2147483648%Z in *.
    destruct Hm as [[Hm Hs]|[Hm Hs]]; rewrite Hm; destruct (Z.ltb_spec off 2147483648);
      destruct (Z.ltb_spec (off + 4294967296) 2147483648); lia.
Qed.

(* seeding never produces the all-zero state, and a step never maps a non-zero state to zero *)
Lemma prng_from_seed_nonzero : forall s0 s1, prng_from_seed s0 s1 <> (0, 0).
Proof.
  intros s0 s1. unfold prng_from_seed.
  destruct (N.eqb_spec s0 0); destruct (N.eqb_spec s1 0); cbn [andb]; try discriminate; congruence.
Qed.

Lemma prng_from_seed_u64_nonzero : forall seed, prng_from_seed_u64 seed <> (0, 0).
Proof.
  intro seed. unfold prng_from_seed_u64.
  destruct (splitmix64 seed) as [st1 a]. destruct (splitmix64 st1) as [st2 b].
  destruct (N.eqb_spec a 0); destruct (N.eqb_spec b 0); cbn [andb]; try discriminate; congruence.
Qed.

Lemma rotl64_zero : forall x k, x < M64 -> k < 64 -> rotl64 x k = 0 -> x = 0.
Proof.
  intros x k Hx Hk H. unfold rotl64 in H. apply N.lor_eq_0_iff in H. destruct H as [H1 H2].
  apply N.bits_inj_0. intro n.
  destruct (N.lt_ge_cases n (64 - k)) as [Hn|Hn].
  - (* bit n moves to position n + k < 64 of the left part *)
    assert (Hb : N.testbit (N.shiftl x k mod M64) (n + k) = N.testbit x n).
    { change M64 with (2 ^ 64). rewrite N.mod_pow2_bits_low by lia.
      rewrite N.shiftl_spec_high' by lia. f_equal. lia. }
    rewrite <- Hb, H1. apply N.bits_0.
  - (* bit n >= 64 - k moves to position n - (64 - k) of the right part *)
    assert (Hb : N.testbit (N.shiftr x (64 - k)) (n - (64 - k)) = N.testbit x n).
    { rewrite N.shiftr_spec'. f_equal. lia. }
    rewrite <- Hb, H2. apply N.bits_0.
Qed.

Lemma lxor_range64 : forall a b, a < M64 -> b < M64 -> N.lxor a b < M64.
Proof.
  intros a b Ha Hb. change M64 with (2 ^ 64) in *.
  destruct (N.eq_dec (N.lxor a b) 0) as [E|E]; [rewrite E; reflexivity|].
  apply N.log2_lt_pow2; [lia|].
  eapply N.le_lt_trans; [apply N.log2_lxor|].
  apply N.max_lub_lt.
  - destruct (N.eq_dec a 0) as [->|Na]; [reflexivity|]. apply N.log2_lt_pow2; lia.
  - destruct (N.eq_dec b 0) as [->|Nb]; [reflexivity|]. apply N.log2_lt_pow2; lia.
Qed.

Lemma prng_step_nonzero : forall s0 s1, s0 < M64 -> s1 < M64 ->
  (s0, s1) <> (0, 0) -> snd (prng_next_u64 (s0, s1)) <> (0, 0).
Proof.
  intros s0 s1 H0 H1 Hnz. unfold prng_next_u64. cbn [snd]. intro E.
  injection E as E0 E1.
  assert (Hx : N.lxor s1 s0 < M64) by (apply lxor_range64; assumption).
  apply rotl64_zero in E1; [|exact Hx|reflexivity].
  rewrite E1 in E0. rewrite N.shiftl_0_l, N.lxor_0_r in E0.
  change (0 mod M64) with 0 in E0. rewrite N.lxor_0_r in E0.
  apply rotl64_zero in E0; [|exact H0|reflexivity].
  apply N.lxor_eq in E1. subst. apply Hnz. reflexivity.
Qed.
