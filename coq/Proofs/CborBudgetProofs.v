(* The decoder as it is ([dec_value_b]: element budget + depth limit) versus the auxiliary decoder
   without the budget ([dec_value]): the budget only removes acceptances (it never changes a value)
   and is transparent on everything the budget-free decoder accepts.  The C12 theorems about
   [decode] follow from their budget-free versions in CborProofs. *)
From Coq Require Import List NArith ZArith Bool Lia.
From Echo Require Import Base.Bytes Base.Order Model.Cbor Proofs.CborFloatProofs Proofs.CborProofs.
Import ListNotations.
Open Scope N_scope.

(* ------------------------------------------------------------------ the budget only removes *)
Definition sim1 (d : bytes -> result (value * bytes)) (db : N -> bytes -> result (value * bytes * N)) : Prop :=
  forall bud b v r bud', db bud b = Ok (v, r, bud') -> d b = Ok (v, r).

Lemma dec_seq_b_sim d db (H : sim1 d db) :
  forall k n bud b vs r bud', dec_seq_b db k n bud b = Ok (vs, r, bud') -> dec_seq d k n b = Ok (vs, r).
Proof.
  induction k as [|k IH]; intros n bud b vs r bud' E; cbn [dec_seq_b dec_seq] in *.
  - destruct (n =? 0); [|discriminate]. inversion E; reflexivity.
  - destruct (n =? 0); [inversion E; reflexivity|].
    apply bind_ok in E as (((v & b1) & bud1) & Ev & E). apply bind_ok in E as (((vs' & b2) & bud2) & Es & E).
    inversion E; subst. rewrite (H _ _ _ _ _ Ev). cbn [bind]. rewrite (IH _ _ _ _ _ _ Es). reflexivity.
Qed.

Lemma dec_map_b_sim d db (H : sim1 d db) :
  forall k n last bud b es r bud', dec_map_b db k n last bud b = Ok (es, r, bud') -> dec_map d k n last b = Ok (es, r).
Proof.
  induction k as [|k IH]; intros n last bud b es r bud' E; cbn [dec_map_b dec_map] in *.
  - destruct (n =? 0); [|discriminate]. inversion E; reflexivity.
  - destruct (n =? 0); [inversion E; reflexivity|].
    apply bind_ok in E as (((kv & b1) & bud1) & Ek & E). apply bind_ok in E as ([] & Eo & E).
    apply bind_ok in E as (((vv & b2) & bud2) & Ev & E). apply bind_ok in E as (((es' & b3) & bud3) & Es & E).
    inversion E; subst. rewrite (H _ _ _ _ _ Ek). cbn [bind]. rewrite Eo. cbn [bind].
    rewrite (H _ _ _ _ _ Ev). cbn [bind]. rewrite (IH _ _ _ _ _ _ _ Es). reflexivity.
Qed.

Lemma dec_value_b_sim : forall fuel depth, sim1 (dec_value fuel depth) (dec_value_b fuel depth).
Proof.
  induction fuel as [|f IH]; intros depth bud b v r bud' E; [discriminate|].
  cbn [dec_value_b dec_value] in *. destruct (MAX_DECODE_DEPTH <? depth); [discriminate|].
  destruct b as [|b0 rr]; [discriminate|]. specialize (IH (depth + 1)).
  destruct (b0 / 32 =? 4).
  { apply bind_ok in E as ((n & r1) & Hr & E). rewrite Hr. cbn [bind].
    destruct (bud <? n); [discriminate|]. apply bind_ok in E as (((items & r2) & bud2) & Es & E). inversion E; subst.
    rewrite (dec_seq_b_sim _ _ IH _ _ _ _ _ _ _ Es). reflexivity. }
  destruct (b0 / 32 =? 5).
  { apply bind_ok in E as ((n & r1) & Hr & E). rewrite Hr. cbn [bind].
    destruct (bud <? n); [discriminate|]. apply bind_ok in E as (((es & r2) & bud2) & Es & E). inversion E; subst.
    rewrite (dec_map_b_sim _ _ IH _ _ _ _ _ _ _ _ Es). reflexivity. }
  apply bind_ok in E as ((v' & r1) & Hs & E). inversion E; subst. exact Hs.
Qed.

(* ------------------------------------------------------------------ consumption *)
Definition consumes (d : bytes -> result (value * bytes)) : Prop :=
  forall b v r, wf_bytes b = true -> d b = Ok (v, r) -> lenN r < lenN b /\ wf_bytes r = true.

Lemma dec_value_consumes fuel depth : consumes (dec_value fuel depth).
Proof.
  intros b v r Hwf H. destruct (dec_value_canonical fuel depth _ _ _ Hwf H) as (pre & -> & E).
  apply wf_bytes_app_iff in Hwf as [_ Hr]. split; auto.
  pose proof (enc_nonempty _ _ E). unfold lenN. rewrite app_length. lia.
Qed.

Lemma dec_seq_consumes d (Hc : consumes d) :
  forall k n b vs r, wf_bytes b = true -> dec_seq d k n b = Ok (vs, r) -> lenN r + n <= lenN b /\ wf_bytes r = true.
Proof.
  induction k as [|k IH]; intros n b vs r Hwf E; cbn [dec_seq] in E.
  - destruct (N.eqb_spec n 0) as [->|]; [|discriminate]. inversion E; subst. split; [lia|auto].
  - destruct (N.eqb_spec n 0) as [->|Hn]; [inversion E; subst; split; [lia|auto]|].
    apply bind_ok in E as ((v & b1) & Ev & E). apply bind_ok in E as ((vs' & b2) & Es & E). inversion E; subst.
    destruct (Hc _ _ _ Hwf Ev) as [L1 W1]. destruct (IH _ _ _ _ W1 Es) as [L2 W2]. split; [lia|auto].
Qed.

Lemma dec_map_consumes d (Hc : consumes d) :
  forall k n last b es r, wf_bytes b = true -> dec_map d k n last b = Ok (es, r) -> lenN r + 2 * n <= lenN b /\ wf_bytes r = true.
Proof.
  induction k as [|k IH]; intros n last b es r Hwf E; cbn [dec_map] in E.
  - destruct (N.eqb_spec n 0) as [->|]; [|discriminate]. inversion E; subst. split; [lia|auto].
  - destruct (N.eqb_spec n 0) as [->|Hn]; [inversion E; subst; split; [lia|auto]|].
    apply bind_ok in E as ((kv & b1) & Ek & E). apply bind_ok in E as ([] & _ & E).
    apply bind_ok in E as ((vv & b2) & Ev & E). apply bind_ok in E as ((es' & b3) & Es & E). inversion E; subst.
    destruct (Hc _ _ _ Hwf Ek) as [L1 W1]. destruct (Hc _ _ _ W1 Ev) as [L2 W2].
    destruct (IH _ _ _ _ _ W2 Es) as [L3 W3]. split; [lia|auto].
Qed.

(* ------------------------------------------------------------------ the budget is transparent on accepted inputs *)
Definition sim2 (d : bytes -> result (value * bytes)) (db : N -> bytes -> result (value * bytes * N)) : Prop :=
  forall b v r, wf_bytes b = true -> d b = Ok (v, r) ->
  forall bud, lenN b <= lenN r + bud + 1 ->
  exists bud', db bud b = Ok (v, r, bud') /\ bud + 1 + lenN r <= bud' + lenN b.

Lemma dec_seq_sim2 d db (Hc : consumes d) (H : sim2 d db) :
  forall k n b vs r, wf_bytes b = true -> dec_seq d k n b = Ok (vs, r) ->
  forall bud, lenN b <= lenN r + bud + n ->
  exists bud', dec_seq_b db k n bud b = Ok (vs, r, bud') /\ bud + n + lenN r <= bud' + lenN b.
Proof.
  induction k as [|k IH]; intros n b vs r Hwf E bud Hb; cbn [dec_seq dec_seq_b] in *.
  - destruct (N.eqb_spec n 0) as [->|]; [|discriminate]. inversion E; subst. exists bud. split; [reflexivity|lia].
  - destruct (N.eqb_spec n 0) as [->|Hn]; [inversion E; subst; exists bud; split; [reflexivity|lia]|].
    apply bind_ok in E as ((v & b1) & Ev & E). apply bind_ok in E as ((vs' & b2) & Es & E). inversion E; subst.
    destruct (Hc _ _ _ Hwf Ev) as [L1 W1]. destruct (dec_seq_consumes d Hc _ _ _ _ _ W1 Es) as [L2 _].
    destruct (H _ _ _ Hwf Ev bud ltac:(lia)) as (bud1 & E1 & B1). rewrite E1. cbn [bind].
    destruct (IH _ _ _ _ W1 Es bud1 ltac:(lia)) as (bud2 & E2 & B2). rewrite E2. cbn [bind].
    exists bud2. split; [reflexivity|lia].
Qed.

Lemma dec_map_sim2 d db (Hc : consumes d) (H : sim2 d db) :
  forall k n last b es r, wf_bytes b = true -> dec_map d k n last b = Ok (es, r) ->
  forall bud, lenN b <= lenN r + bud + 2 * n ->
  exists bud', dec_map_b db k n last bud b = Ok (es, r, bud') /\ bud + 2 * n + lenN r <= bud' + lenN b.
Proof.
  induction k as [|k IH]; intros n last b es r Hwf E bud Hb; cbn [dec_map dec_map_b] in *.
  - destruct (N.eqb_spec n 0) as [->|]; [|discriminate]. inversion E; subst. exists bud. split; [reflexivity|lia].
  - destruct (N.eqb_spec n 0) as [->|Hn]; [inversion E; subst; exists bud; split; [reflexivity|lia]|].
    apply bind_ok in E as ((kv & b1) & Ek & E). apply bind_ok in E as ([] & Eo & E).
    apply bind_ok in E as ((vv & b2) & Ev & E). apply bind_ok in E as ((es' & b3) & Es & E). inversion E; subst.
    destruct (Hc _ _ _ Hwf Ek) as [L1 W1]. destruct (Hc _ _ _ W1 Ev) as [L2 W2].
    destruct (dec_map_consumes d Hc _ _ _ _ _ _ W2 Es) as [L3 _].
    destruct (H _ _ _ Hwf Ek bud ltac:(lia)) as (bud1 & E1 & B1). rewrite E1. cbn [bind]. rewrite Eo. cbn [bind].
    destruct (H _ _ _ W1 Ev bud1 ltac:(lia)) as (bud2 & E2 & B2). rewrite E2. cbn [bind].
    destruct (IH _ _ _ _ _ W2 Es bud2 ltac:(lia)) as (bud3 & E3 & B3). rewrite E3. cbn [bind].
    exists bud3. split; [reflexivity|lia].
Qed.

Lemma read_len_shrinks info r n r1 : read_len info r = Ok (n, r1) -> lenN r1 <= lenN r.
Proof.
  unfold read_len. intros H.
  repeat match type of H with
         | (if ?c then _ else _) = _ => destruct c
         end; try discriminate; try (inversion H; subst; lia);
  (apply bind_ok in H as ((v & r0) & Hu & H); apply read_uint_ok in Hu as (ext & -> & _ & _);
   match type of H with (if ?c then _ else _) = _ => destruct c end; [discriminate|];
   inversion H; subst; unfold lenN; rewrite app_length; lia).
Qed.

Lemma dec_value_sim2 : forall fuel depth, sim2 (dec_value fuel depth) (dec_value_b fuel depth).
Proof.
  induction fuel as [|f IH]; intros depth b v r Hwf E bud Hb; [discriminate|].
  pose proof (dec_value_consumes (S f) depth _ _ _ Hwf E) as [Lc _].
  cbn [dec_value_b dec_value] in *. destruct (MAX_DECODE_DEPTH <? depth); [discriminate|].
  destruct b as [|b0 rr]; [discriminate|]. specialize (IH (depth + 1)).
  pose proof (dec_value_consumes f (depth + 1)) as Hc.
  apply wf_bytes_cons in Hwf as [Hb0 Hwr].
  assert (Lb : lenN (b0 :: rr) = lenN rr + 1) by (unfold lenN; cbn [length]; lia).
  destruct (b0 / 32 =? 4).
  { apply bind_ok in E as ((n & r1) & Hr & E). rewrite Hr. cbn [bind].
    apply bind_ok in E as ((items & r2) & Es & E). inversion E; subst.
    pose proof (read_len_shrinks _ _ _ _ Hr) as Ls.
    destruct (read_len_inv _ _ _ _ Hwr (head_info_lt b0) Hr) as (ext & -> & _). apply wf_bytes_app_iff in Hwr as [_ W1].
    destruct (dec_seq_consumes _ Hc _ _ _ _ _ W1 Es) as [L2 _].
    destruct (N.ltb_spec bud n); [lia|].
    destruct (dec_seq_sim2 _ _ Hc IH _ _ _ _ _ W1 Es (bud - n) ltac:(lia)) as (bud2 & E2 & B2). rewrite E2. cbn [bind].
    exists bud2. split; [reflexivity|lia]. }
  destruct (b0 / 32 =? 5).
  { apply bind_ok in E as ((n & r1) & Hr & E). rewrite Hr. cbn [bind].
    apply bind_ok in E as ((es & r2) & Es & E). inversion E; subst.
    pose proof (read_len_shrinks _ _ _ _ Hr) as Ls.
    destruct (read_len_inv _ _ _ _ Hwr (head_info_lt b0) Hr) as (ext & -> & _). apply wf_bytes_app_iff in Hwr as [_ W1].
    destruct (dec_map_consumes _ Hc _ _ _ _ _ _ W1 Es) as [L2 _].
    destruct (N.ltb_spec bud n); [lia|].
    destruct (dec_map_sim2 _ _ Hc IH _ _ _ _ _ _ W1 Es (bud - n) ltac:(lia)) as (bud2 & E2 & B2). rewrite E2. cbn [bind].
    exists bud2. split; [reflexivity|lia]. }
  rewrite E. cbn [bind]. exists bud. split; [reflexivity|lia].
Qed.

(* ------------------------------------------------------------------ decode = decode_nb on accepted inputs *)
Theorem budget_only_removes b v : decode b = Ok v -> decode_nb b = Ok v.
Proof.
  unfold decode, decode_nb. destruct (dec_value_b (S (length b)) 0 (lenN b) b) as [[[v' r] bud']|e] eqn:E; [|discriminate].
  rewrite (dec_value_b_sim _ _ _ _ _ _ _ E). destruct r; auto.
Qed.

Theorem budget_transparent b v : wf_bytes b = true -> decode_nb b = Ok v -> decode b = Ok v.
Proof.
  intros Hwf. unfold decode, decode_nb. destruct (dec_value (S (length b)) 0 b) as [[v' r]|e] eqn:E; [|discriminate].
  destruct (dec_value_sim2 _ _ _ _ _ Hwf E (lenN b) ltac:(lia)) as (bud' & E2 & _). rewrite E2. destruct r; auto.
Qed.

(* ------------------------------------------------------------------ the C12 theorems about [decode] *)
Theorem cbor_canonical_core b v : wf_bytes b = true -> decode b = Ok v -> enc v = Ok b.
Proof. intros W H. apply cbor_canonical_nb; auto. apply budget_only_removes; auto. Qed.

Theorem cbor_roundtrip_core v b : wf_value v = true -> enc v = Ok b -> decode b = Ok (norm v).
Proof.
  intros W E. apply budget_transparent; [|apply cbor_roundtrip_nb; auto].
  unfold wf_value in W. apply andb_true_iff in W as [Ws _]. apply (enc_wf v b Ws E).
Qed.

Theorem cbor_decode_injective_core b1 b2 v :
  wf_bytes b1 = true -> wf_bytes b2 = true -> decode b1 = Ok v -> decode b2 = Ok v -> b1 = b2.
Proof.
  intros W1 W2 D1 D2. pose proof (cbor_canonical_core _ _ W1 D1). pose proof (cbor_canonical_core _ _ W2 D2). congruence.
Qed.

Theorem cbor_enc_wf_core v b : wf_value v = true -> enc v = Ok b -> wf_bytes b = true.
Proof. intros W E. unfold wf_value in W. apply andb_true_iff in W as [Ws _]. apply (enc_wf v b Ws E). Qed.

Theorem decode_output_wf b v : wf_bytes b = true -> decode b = Ok v -> wf_value v = true.
Proof. intros W H. apply (decode_nb_output_wf b v W). apply budget_only_removes; auto. Qed.

Theorem decode_output_normal b v : wf_bytes b = true -> decode b = Ok v -> norm v = v.
Proof. intros W H. apply (decode_nb_output_normal b v W). apply budget_only_removes; auto. Qed.

(* any byte string other than THE canonical encoding of a value does not decode to it *)
Theorem noncanonical_rejected v b b' :
  wf_value v = true -> enc v = Ok b -> wf_bytes b' = true -> b' <> b -> decode b' <> Ok (norm v).
Proof.
  intros W E W' Hne Hd.
  pose proof (cbor_enc_wf_core v b W E) as Wb.
  pose proof (cbor_roundtrip_core _ _ W E) as R.
  apply Hne. apply (cbor_decode_injective_core b' b (norm v)); auto.
Qed.

Theorem reject_trailing b v x xs :
  wf_bytes (b ++ x :: xs) = true -> decode b = Ok v -> decode (b ++ x :: xs) = Err ETrailing.
Proof.
  intros Hwf2 H. pose proof Hwf2 as Hwf. apply wf_bytes_app_iff in Hwf as [Hwf _].
  pose proof (decode_output_wf _ _ Hwf H) as W.
  pose proof (cbor_canonical_core _ _ Hwf H) as E.
  pose proof (decode_output_normal _ _ Hwf H) as Nv.
  unfold wf_value in W. apply andb_true_iff in W as [Ws Wd]. apply N.leb_le in Wd. unfold MAX_DECODE_DEPTH in Wd.
  assert (Enb : dec_value (S (length (b ++ x :: xs))) 0 (b ++ x :: xs) = Ok (v, x :: xs)).
  { pose proof (enc_dec_value v b E Ws (S (length (b ++ x :: xs))) 0 (x :: xs)) as K. rewrite Nv in K.
    apply K; [rewrite app_length; lia|lia]. }
  unfold decode.
  destruct (dec_value_sim2 _ _ _ _ _ Hwf2 Enb (lenN (b ++ x :: xs)) ltac:(lia)) as (bud' & E2 & _).
  rewrite E2. reflexivity.
Qed.

(* the depth limit is the documented boundary of the domain: a value nested 129 deep encodes, and
   its encoding is rejected *)
Fixpoint nest (k : nat) (v : value) : value := match k with O => v | S k' => VArray [nest k' v] end.

Lemma depth_129_encodes_but_is_rejected :
  let v := nest 129 (VInt 0) in
  wf_shape v = true /\ vdepth v = 129 /\
  exists b, enc v = Ok b /\ decode b = Err EDepth /\ decode_nb b = Err EDepth.
Proof.
  cbv zeta. split; [vm_compute; reflexivity|]. split; [vm_compute; reflexivity|].
  eexists. split; [vm_compute; reflexivity|]. split; [vm_compute; reflexivity|vm_compute; reflexivity].
Qed.

Lemma depth_128_round_trips :
  let v := nest 128 (VInt 0) in
  wf_value v = true /\ exists b, enc v = Ok b /\ decode b = Ok v.
Proof.
  cbv zeta. split; [vm_compute; reflexivity|]. eexists. split; [vm_compute; reflexivity|vm_compute; reflexivity].
Qed.

(* ------------------------------------------------------------------ rejection by class *)
Lemma dec_value_b_unfold0 f bud b0 r :
  dec_value_b (S f) 0 bud (b0 :: r) =
  if b0 / 32 =? 4 then
    bind (read_len (b0 mod 32) r) (fun '(n, r1) =>
      if bud <? n then Err EIncomplete
      else bind (dec_seq_b (dec_value_b f 1) (S (length r1)) n (bud - n) r1) (fun '(items, r2, bud2) => Ok (VArray items, r2, bud2)))
  else if b0 / 32 =? 5 then
    bind (read_len (b0 mod 32) r) (fun '(n, r1) =>
      if bud <? n then Err EIncomplete
      else bind (dec_map_b (dec_value_b f 1) (S (length r1)) n None (bud - n) r1) (fun '(es, r2, bud2) => Ok (VMap es, r2, bud2)))
  else bind (dec_scalar (b0 / 32) (b0 mod 32) r) (fun '(v, r1) => Ok (v, r1, bud)).
Proof. reflexivity. Qed.

Lemma decode_head_err b0 r e :
  (forall f bud, dec_value_b (S f) 0 bud (b0 :: r) = Err e) -> decode (b0 :: r) = Err e.
Proof. intros H. unfold decode. cbn [length]. rewrite H. reflexivity. Qed.

Lemma decode_head_err' b0 r (P : err -> Prop) :
  (forall f bud, exists e, dec_value_b (S f) 0 bud (b0 :: r) = Err e /\ P e) -> exists e, decode (b0 :: r) = Err e /\ P e.
Proof.
  intros H. destruct (H (S (length r)) (lenN (b0 :: r))) as (e & He & Hp). exists e. split; auto.
  unfold decode. cbn [length]. rewrite He. reflexivity.
Qed.

Lemma scalar_head_err b0 r e :
  (b0 / 32 =? 4) = false -> (b0 / 32 =? 5) = false -> dec_scalar (b0 / 32) (b0 mod 32) r = Err e ->
  decode (b0 :: r) = Err e.
Proof.
  intros H4 H5 H. apply decode_head_err. intros f bud. rewrite dec_value_b_unfold0, H4, H5, H. reflexivity.
Qed.

Theorem reject_tag b0 r : 192 <= b0 < 224 -> decode (b0 :: r) = Err ETag.
Proof.
  intros H.
  assert (E : b0 / 32 = 6).
  { symmetry. apply N.div_unique with (r := b0 - 192); lia. }
  apply scalar_head_err; rewrite E; reflexivity.
Qed.

Theorem reject_indefinite b0 r :
  In b0 [0x1f; 0x3f; 0x5f; 0x7f; 0x9f; 0xbf; 0xff] -> decode (b0 :: r) = Err EIndefinite.
Proof.
  intros H. apply decode_head_err. intros f bud.
  cbn [In] in H. repeat (destruct H as [<-|H]; [reflexivity|]). contradiction.
Qed.

(* a head whose argument would fit a narrower width is rejected (integers, and the lengths of
   byte strings, text, arrays and maps) *)
Definition wide_info (w : nat) : N := match w with 1%nat => 24 | 2%nat => 25 | 4%nat => 26 | _ => 27 end.
Definition narrow_limit (w : nat) : N := match w with 1%nat => 23 | 2%nat => 255 | 4%nat => 65535 | _ => 4294967295 end.

Theorem reject_nonminimal_head major w n rest :
  major < 6 -> In w [1%nat; 2%nat; 4%nat; 8%nat] -> n <= narrow_limit w ->
  decode ((major * 32 + wide_info w) :: be_bytes w n ++ rest) = Err ENonCanonInt.
Proof.
  intros Hm Hw Hn. apply decode_head_err. intros f bud. rewrite dec_value_b_unfold0.
  assert (Hi : wide_info w < 32) by (cbn [In] in Hw; destruct Hw as [<-|[<-|[<-|[<-|[]]]]]; cbn; lia).
  rewrite head_div, head_mod by exact Hi.
  assert (Hrl : read_len (wide_info w) (be_bytes w n ++ rest) = Err ENonCanonInt).
  { cbn [In] in Hw. destruct Hw as [<-|[<-|[<-|[<-|[]]]]]; cbn [wide_info narrow_limit] in *; unfold read_len;
      cbn [N.ltb N.eqb N.compare Pos.compare Pos.compare_cont Pos.eqb];
      rewrite read_uint_be by (cbn; lia); cbn [bind];
      match goal with |- (if ?c then _ else _) = _ => destruct c eqn:C end; try reflexivity;
      apply N.leb_gt in C; lia. }
  assert (major = 0 \/ major = 1 \/ major = 2 \/ major = 3 \/ major = 4 \/ major = 5) as Hc by lia.
  destruct Hc as [->|[->|[->|[->|[->| ->]]]]]; cbn [N.eqb Pos.eqb orb]; unfold dec_scalar; cbn [N.eqb Pos.eqb orb];
    rewrite Hrl; reflexivity.
Qed.

Theorem reject_f16_nan_payload h rest :
  h < 65536 -> f64_is_nan (widen16 h) = true -> h <> 0x7e00 ->
  decode (0xf9 :: be_bytes 2 h ++ rest) = Err ENonCanonFloat.
Proof.
  intros Hh Hn Hne. apply scalar_head_err; try reflexivity.
  change (dec_scalar (249 / 32) (249 mod 32) (be_bytes 2 h ++ rest)) with (dec_float16 (be_bytes 2 h ++ rest)).
  unfold dec_float16. rewrite read_uint_be by exact Hh. cbn [bind]. rewrite Hn.
  destruct (N.eqb_spec h 32256); [contradiction|]. reflexivity.
Qed.

(* a float that has an integer spelling is rejected at every width *)
Theorem reject_integral_float_f64 b z rest :
  b < 2 ^ 64 -> f64_to_int b = Some z -> decode (0xfb :: be_bytes 8 b ++ rest) = Err EFloatShouldBeInt.
Proof.
  intros Hb Hz. apply scalar_head_err; try reflexivity.
  change (dec_scalar (251 / 32) (251 mod 32) (be_bytes 8 b ++ rest)) with (dec_float64 (be_bytes 8 b ++ rest)).
  unfold dec_float64. rewrite read_uint_be by exact Hb. cbn [bind]. rewrite Hz. reflexivity.
Qed.

Theorem reject_integral_float_f32 s z rest :
  s < 4294967296 -> f64_to_int (widen32 s) = Some z -> decode (0xfa :: be_bytes 4 s ++ rest) = Err EFloatShouldBeInt.
Proof.
  intros Hs Hz. apply scalar_head_err; try reflexivity.
  change (dec_scalar (250 / 32) (250 mod 32) (be_bytes 4 s ++ rest)) with (dec_float32 (be_bytes 4 s ++ rest)).
  unfold dec_float32. rewrite read_uint_be by exact Hs. cbn [bind]. rewrite Hz. reflexivity.
Qed.

(* a float that fits a narrower width is rejected at the wider ones *)
Theorem reject_wide_float_f64 b rest :
  b < 2 ^ 64 -> (f64_is_nan b = true \/ narrow16 b <> None \/ narrow32 b <> None) ->
  exists e, decode (0xfb :: be_bytes 8 b ++ rest) = Err e /\ (e = ENonCanonFloat \/ e = EFloatShouldBeInt).
Proof.
  intros Hb H.
  assert (K : exists e, dec_float64 (be_bytes 8 b ++ rest) = Err e /\ (e = ENonCanonFloat \/ e = EFloatShouldBeInt)).
  { unfold dec_float64. rewrite read_uint_be by exact Hb. cbn [bind].
    destruct (f64_to_int b); [eauto|]. destruct (f64_is_nan b); [eauto|].
    destruct (narrow16 b); [eauto|]. destruct (narrow32 b); [eauto|].
    destruct H as [H|[H|H]]; [discriminate|contradiction|contradiction]. }
  destruct K as (e & He & Hc). exists e. split; auto. apply scalar_head_err; try reflexivity. exact He.
Qed.

Theorem reject_wide_float_f32 s rest :
  s < 4294967296 -> (f64_is_nan (widen32 s) = true \/ narrow16 (widen32 s) <> None) ->
  exists e, decode (0xfa :: be_bytes 4 s ++ rest) = Err e /\ (e = ENonCanonFloat \/ e = EFloatShouldBeInt).
Proof.
  intros Hs H.
  assert (K : exists e, dec_float32 (be_bytes 4 s ++ rest) = Err e /\ (e = ENonCanonFloat \/ e = EFloatShouldBeInt)).
  { unfold dec_float32. rewrite read_uint_be by exact Hs. cbn [bind].
    destruct (f64_to_int (widen32 s)); [eauto|]. destruct (f64_is_nan (widen32 s)); [eauto|].
    destruct (narrow16 (widen32 s)); [eauto|].
    destruct H as [H|H]; [discriminate|contradiction]. }
  destruct K as (e & He & Hc). exists e. split; auto. apply scalar_head_err; try reflexivity. exact He.
Qed.

(* ------------------------------------------------------------------ the fuel never runs out *)
Lemma bind_err {A B} (r : result A) (f : A -> result B) e :
  bind r f = Err e -> r = Err e \/ exists a, r = Ok a /\ f a = Err e.
Proof. destruct r as [a|e']; cbn; intros H; [right; eauto|left; congruence]. Qed.

Lemma read_uint_not_fuel k r : read_uint k r <> Err EFuel.
Proof. unfold read_uint. destruct (length r <? k)%nat; discriminate. Qed.

Lemma read_len_not_fuel info r : read_len info r <> Err EFuel.
Proof.
  unfold read_len. intros H.
  repeat match type of H with
         | (if ?c then _ else _) = _ => destruct c
         end; try discriminate;
  (apply bind_err in H as [H|((v & r0) & _ & H)]; [exact (read_uint_not_fuel _ _ H)|];
   match type of H with (if ?c then _ else _) = _ => destruct c end; discriminate).
Qed.

Lemma dec_scalar_not_fuel major info r : dec_scalar major info r <> Err EFuel.
Proof.
  unfold dec_scalar, dec_float16, dec_float32, dec_float64. intros H.
  repeat match type of H with
         | (if ?c then _ else _) = _ => destruct c
         | match ?c with Some _ => _ | None => _ end = _ => destruct c
         | bind (read_len _ _) _ = Err _ => apply bind_err in H as [H|((? & ?) & _ & H)]; [exact (read_len_not_fuel _ _ H)|]
         | bind (read_uint _ _) _ = Err _ => apply bind_err in H as [H|((? & ?) & _ & H)]; [exact (read_uint_not_fuel _ _ H)|]
         end; discriminate.
Qed.

Definition consumes_b (db : N -> bytes -> result (value * bytes * N)) : Prop :=
  forall bud b v r bud', wf_bytes b = true -> db bud b = Ok (v, r, bud') -> (length r < length b)%nat /\ wf_bytes r = true.

Lemma dec_value_b_consumes fuel depth : consumes_b (dec_value_b fuel depth).
Proof.
  intros bud b v r bud' Hwf H. apply dec_value_b_sim in H.
  destruct (dec_value_consumes fuel depth _ _ _ Hwf H) as [L W]. split; auto. unfold lenN in L. lia.
Qed.

Lemma dec_seq_b_no_fuel db F :
  (forall bud b, wf_bytes b = true -> (length b < F)%nat -> db bud b <> Err EFuel) -> consumes_b db ->
  forall k n bud b, wf_bytes b = true -> (length b < k)%nat -> (length b < F)%nat -> dec_seq_b db k n bud b <> Err EFuel.
Proof.
  intros Hnf Hc. induction k as [|k IH]; intros n bud b Hwf Hk HF H; [lia|].
  cbn [dec_seq_b] in H. destruct (n =? 0); [discriminate|].
  apply bind_err in H as [H|(((v & b1) & bud1) & Hd & H)]; [exact (Hnf _ _ Hwf HF H)|].
  destruct (Hc _ _ _ _ _ Hwf Hd) as [Hl Hw1].
  apply bind_err in H as [H|(((vs & b2) & bud2) & _ & H)]; [|discriminate].
  apply (IH (n - 1) bud1 b1 Hw1); auto; lia.
Qed.

Lemma dec_map_b_no_fuel db F :
  (forall bud b, wf_bytes b = true -> (length b < F)%nat -> db bud b <> Err EFuel) -> consumes_b db ->
  forall k n last bud b, wf_bytes b = true -> (length b < k)%nat -> (length b < F)%nat -> dec_map_b db k n last bud b <> Err EFuel.
Proof.
  intros Hnf Hc. induction k as [|k IH]; intros n last bud b Hwf Hk HF H; [lia|].
  cbn [dec_map_b] in H. destruct (n =? 0); [discriminate|].
  apply bind_err in H as [H|(((kv & b1) & bud1) & Hd & H)]; [exact (Hnf _ _ Hwf HF H)|].
  destruct (Hc _ _ _ _ _ Hwf Hd) as [Hl Hw1].
  apply bind_err in H as [H|([] & _ & H)].
  { destruct last as [prev|]; [|discriminate].
    destruct (bytes_cmp (firstn (length b - length b1) b) prev); discriminate. }
  apply bind_err in H as [H|(((vv & b2) & bud2) & Hd2 & H)]; [apply (Hnf _ _ Hw1 ltac:(lia) H)|].
  destruct (Hc _ _ _ _ _ Hw1 Hd2) as [Hl2 Hw2].
  apply bind_err in H as [H|(((es & b3) & bud3) & _ & H)]; [|discriminate].
  apply (IH (n - 1) (Some (firstn (length b - length b1) b)) bud2 b2 Hw2); auto; lia.
Qed.

Lemma dec_value_b_no_fuel : forall fuel depth bud b,
  wf_bytes b = true -> (length b < fuel)%nat -> dec_value_b fuel depth bud b <> Err EFuel.
Proof.
  induction fuel as [|f IH]; intros depth bud b Hwf Hl H; [lia|].
  cbn [dec_value_b] in H. destruct (MAX_DECODE_DEPTH <? depth); [discriminate|].
  destruct b as [|b0 r]; [discriminate|].
  apply wf_bytes_cons in Hwf as [Hb0 Hwr]. cbn [length] in Hl.
  pose proof (head_info_lt b0) as Hinfo.
  destruct (b0 / 32 =? 4).
  { apply bind_err in H as [H|((n & r1) & Hr & H)]; [exact (read_len_not_fuel _ _ H)|].
    destruct (read_len_inv _ _ _ _ Hwr Hinfo Hr) as (ext & -> & _).
    apply wf_bytes_app_iff in Hwr as [_ Hw1]. rewrite app_length in Hl.
    destruct (bud <? n); [discriminate|].
    apply bind_err in H as [H|(((items & r2) & bud2) & _ & H)]; [|discriminate].
    apply (dec_seq_b_no_fuel (dec_value_b f (depth + 1)) f (fun bd b W L => IH (depth + 1) bd b W L)
             (dec_value_b_consumes f (depth + 1)) _ _ _ _ Hw1) in H; auto; lia. }
  destruct (b0 / 32 =? 5).
  { apply bind_err in H as [H|((n & r1) & Hr & H)]; [exact (read_len_not_fuel _ _ H)|].
    destruct (read_len_inv _ _ _ _ Hwr Hinfo Hr) as (ext & -> & _).
    apply wf_bytes_app_iff in Hwr as [_ Hw1]. rewrite app_length in Hl.
    destruct (bud <? n); [discriminate|].
    apply bind_err in H as [H|(((es & r2) & bud2) & _ & H)]; [|discriminate].
    apply (dec_map_b_no_fuel (dec_value_b f (depth + 1)) f (fun bd b W L => IH (depth + 1) bd b W L)
             (dec_value_b_consumes f (depth + 1)) _ _ _ _ _ Hw1) in H; auto; lia. }
  apply bind_err in H as [H|((v & r1) & _ & H)]; [exact (dec_scalar_not_fuel _ _ _ H)|discriminate].
Qed.

Theorem decode_never_out_of_fuel b : wf_bytes b = true -> decode b <> Err EFuel.
Proof.
  intros Hwf H. unfold decode in H.
  destruct (dec_value_b (S (length b)) 0 (lenN b) b) as [[[v [|x rest]] bud']|e] eqn:E; try discriminate.
  inversion H; subst e. apply (dec_value_b_no_fuel _ _ _ _ Hwf (Nat.lt_succ_diag_r _) E).
Qed.
