(* Lemmas about Model/Observe.v (C16). *)
From Coq Require Import List NArith Bool Lia.
From Echo Require Import Base.Bytes Model.Observe.
Import ListNotations.
Open Scope N_scope.

(* ------------------------------------------------------------------ generic list facts *)

Lemma lenN_app {A} (a b : list A) : lenN (a ++ b) = lenN a + lenN b.
Proof. unfold lenN. rewrite app_length. lia. Qed.

Lemma nthN_some_lt {A} (l : list A) i x : nthN l i = Some x -> i < lenN l.
Proof.
  unfold nthN. destruct (lenN l <=? i) eqn:E; [discriminate|]. intros _. apply N.leb_gt in E. exact E.
Qed.

Lemma nthN_none_ge {A} (l : list A) i : lenN l <= i -> nthN l i = None.
Proof. intros H. unfold nthN. apply N.leb_le in H. rewrite H. reflexivity. Qed.

Lemma nthN_lt_some {A} (l : list A) i : i < lenN l -> exists x, nthN l i = Some x.
Proof.
  intros H. unfold nthN. assert (E : (lenN l <=? i) = false) by (apply N.leb_gt; exact H). rewrite E.
  destruct (nth_error l (N.to_nat i)) eqn:N; [eauto|].
  apply nth_error_None in N. unfold lenN in H. lia.
Qed.

Lemma nthN_nth_error {A} (l : list A) i x : nthN l i = Some x -> nth_error l (N.to_nat i) = Some x.
Proof. unfold nthN. destruct (lenN l <=? i); [discriminate|auto]. Qed.

Lemma nthN_app_l {A} (l m : list A) i : i < lenN l -> nthN (l ++ m) i = nthN l i.
Proof.
  intros H. unfold nthN. rewrite lenN_app.
  assert (E1 : (lenN l <=? i) = false) by (apply N.leb_gt; exact H).
  assert (E2 : (lenN l + lenN m <=? i) = false) by (apply N.leb_gt; lia).
  rewrite E1, E2. apply nth_error_app1. unfold lenN in H. lia.
Qed.

Lemma last_opt_some {A} (l : list A) : l <> [] -> exists x, last_opt l = Some x.
Proof. destruct l; [congruence|]. intros _. cbn. eauto. Qed.

Lemma last_cons_default {A} (l : list A) x d d' : last (x :: l) d = last (x :: l) d'.
Proof.
  revert x. induction l as [|a l IH]; intros x; [reflexivity|].
  change (last (a :: l) d = last (a :: l) d'). apply IH.
Qed.

Lemma nth_error_last {A} (r : list A) a : nth_error (a :: r) (length r) = Some (last r a).
Proof.
  revert a. induction r as [|b r IH]; intros a; [reflexivity|].
  cbn [length nth_error]. rewrite IH. f_equal.
  destruct r as [|c r]; [reflexivity|]. change (last (c :: r) b = last (c :: r) a). apply last_cons_default.
Qed.

Lemma last_opt_nthN {A} (l : list A) x : last_opt l = Some x -> nthN l (lenN l - 1) = Some x.
Proof.
  destruct l as [|a r]; [discriminate|]. cbn [last_opt]. intros E. injection E as E.
  unfold nthN.
  assert (L : lenN (a :: r) = N.of_nat (S (length r))) by reflexivity.
  assert (E1 : (lenN (a :: r) <=? lenN (a :: r) - 1) = false) by (apply N.leb_gt; rewrite L; lia).
  rewrite E1. rewrite L.
  replace (N.to_nat (N.of_nat (S (length r)) - 1)) with (length r) by lia.
  subst x. apply nth_error_last.
Qed.

Section Proofs.
  Variables St P : Type.
  Variable apply : St -> P -> option St.
  Variable root : St -> N.

  Notation entry := (entry P).
  Notation wline := (wline St P).
  Notation world := (world St P).

  (* ---------------------------------------------------------------- masking *)

  Lemma finish_mask (w : wline) r rs rs' :
    mask_rs rs = mask_rs rs' -> mask (finish w r rs) = mask (finish w r rs').
  Proof.
    destruct rs as [a1 a2 a3 a4 a5 a6 a7], rs' as [b1 b2 b3 b4 b5 b6 b7]. unfold mask_rs. cbn.
    intros E. injection E as -> -> -> -> -> ->.
    unfold finish. destruct (basis_posture w (r_at r)) as [e|po]; [reflexivity|].
    destruct (r_proj r) as [| |f|q v]; cbn.
    - destruct (budget_posture _ _); reflexivity.
    - destruct (budget_posture _ _); reflexivity.
    - destruct (outputs_at w b3); [|reflexivity]. destruct (budget_posture _ _); reflexivity.
    - reflexivity.
  Qed.

  Lemma resolve_mask g g' id (w : wline) f a :
    match resolve g id w f a, resolve g' id w f a with
    | inl e, inl e' => e = e'
    | inr rs, inr rs' => mask_rs rs = mask_rs rs'
    | _, _ => False
    end.
  Proof.
    unfold resolve. destruct f, a; try (destruct (last_opt (w_hist w))); try (destruct (nthN (w_hist w) t));
      cbn; reflexivity.
  Qed.

  Theorem observe_bound (W W' : world) r :
    lookupN (r_wl r) (lines W) = lookupN (r_wl r) (lines W') -> queries W = queries W' ->
    mask (observe W r) = mask (observe W' r) /\ (gtick W = gtick W' -> observe W r = observe W' r).
  Proof.
    intros L Q. split.
    - unfold observe. rewrite <- L, <- Q. destruct (lookupN (r_wl r) (lines W)) as [w|]; [|reflexivity].
      destruct (negb _); [reflexivity|]. destruct (validate_contract _ r); [reflexivity|].
      pose proof (resolve_mask (gtick W) (gtick W') (r_wl r) w (r_frame r) (r_at r)) as M.
      destruct (resolve (gtick W) _ w _ _), (resolve (gtick W') _ w _ _); try contradiction.
      + subst. reflexivity.
      + apply finish_mask. exact M.
    - intros G. unfold observe. rewrite <- L, <- Q, <- G. reflexivity.
  Qed.

  (* ---------------------------------------------------------------- historical stability *)

  Lemma posture_tick (w w' : wline) t :
    strand_id_of w' = strand_id_of w -> basis_posture w' (ATick t) = basis_posture w (ATick t).
  Proof.
    unfold strand_id_of, basis_posture. destruct (w_strand w') as [[s l]|], (w_strand w) as [[s' l']|]; intros E;
      try discriminate; [injection E as ->|]; reflexivity.
  Qed.

  Lemma finish_tick_stable (w w' : wline) r rs t more :
    r_at r = ATick t -> rs_tick rs = t -> t < lenN (w_hist w) ->
    w_hist w' = w_hist w ++ more -> strand_id_of w' = strand_id_of w ->
    finish w' r rs = finish w r rs.
  Proof.
    intros A T L Hh S. unfold finish. rewrite A, (posture_tick w w' t S).
    destruct (basis_posture w (ATick t)); [reflexivity|].
    destruct (r_proj r); try reflexivity.
    unfold outputs_at. rewrite T, Hh, nthN_app_l by exact L. reflexivity.
  Qed.

  Theorem historical_stable (W W' : world) r id (w w' : wline) t more :
    r_wl r = id -> r_at r = ATick t ->
    lookupN id (lines W) = Some w -> lookupN id (lines W') = Some w' ->
    w_hist w' = w_hist w ++ more -> strand_id_of w' = strand_id_of w -> queries W' = queries W ->
    t < lenN (w_hist w) ->
    mask (observe W' r) = mask (observe W r).
  Proof.
    intros I A L L' Hh S Q T. unfold observe. rewrite I, L, L', Q.
    destruct (negb _); [reflexivity|]. destruct (validate_contract _ r); [reflexivity|].
    destruct (nthN_lt_some (w_hist w) t T) as [e E].
    assert (R : forall g (x : wline), nthN (w_hist x) t = Some e ->
              resolve g id x (r_frame r) (r_at r) = inr (of_entry g id (ATick t) t e (e_root e))).
    { intros g x X. unfold resolve. rewrite A. destruct (r_frame r); rewrite X; reflexivity. }
    rewrite (R (gtick W) w E).
    rewrite (R (gtick W') w') by (rewrite Hh, nthN_app_l by exact T; exact E).
    rewrite (finish_tick_stable w w' r (of_entry (gtick W') id (ATick t) t e (e_root e)) t more A eq_refl T Hh S).
    apply finish_mask. reflexivity.
  Qed.

  (* ---------------------------------------------------------------- replay *)

  Lemma replay_from_root : forall n (h : list entry) s0 s e,
    replay_from apply root s0 h (S n) = Some s -> nth_error h n = Some e -> root s = e_root e.
  Proof.
    induction n as [|n IH]; intros h s0 s e R Hn.
    - destruct h as [|e0 h]; [discriminate|]. cbn in Hn. assert (e0 = e) by congruence. subst e0.
      cbn in R. destruct (apply s0 (e_patch e)) as [s1|]; [|discriminate].
      destruct (root s1 =? e_root e) eqn:Q; [|discriminate]. cbn in R. assert (s1 = s) by congruence. subst s1. apply N.eqb_eq. exact Q.
    - destruct h as [|e0 h]; [discriminate|]. cbn in Hn.
      cbn [replay_from] in R. destruct (apply s0 (e_patch e0)) as [s1|]; [|discriminate].
      destruct (root s1 =? e_root e0); [|discriminate]. exact (IH h s1 s e R Hn).
  Qed.

  Theorem matches_replay (W : world) r id (w : wline) t e s :
    r_wl r = id -> r_at r = ATick t -> lookupN id (lines W) = Some w ->
    nthN (w_hist w) t = Some e -> replay apply root w (t + 1) = Some s ->
    observe W r = project root W w r t e s.
  Proof.
    intros I A L E R. unfold observe, project. rewrite I, L.
    destruct (negb _); [reflexivity|]. destruct (validate_contract _ r); [reflexivity|].
    assert (RS : root s = e_root e).
    { unfold replay in R. replace (N.to_nat (t + 1)) with (S (N.to_nat t)) in R by lia.
      exact (replay_from_root _ _ _ _ _ R (nthN_nth_error _ _ _ E)). }
    unfold resolve. rewrite A. rewrite <- I.
    destruct (r_frame r); rewrite E, RS; reflexivity.
  Qed.

  (* ---------------------------------------------------------------- unavailable history *)

  Lemma resolve_tick_unavailable g id (w : wline) f t :
    lenN (w_hist w) <= t -> resolve g id w f (ATick t) = inl (EInvalidTick t).
  Proof. intros H. unfold resolve. destruct f; rewrite (nthN_none_ge _ _ H); reflexivity. Qed.

  Theorem unavailable (W : world) r id (w : wline) t :
    r_wl r = id -> r_at r = ATick t -> lookupN id (lines W) = Some w -> lenN (w_hist w) <= t ->
    valid_pair (r_frame r) (kind_of (r_proj r)) = true -> validate_contract (queries W) r = None ->
    observe W r = Obstruction (EInvalidTick t).
  Proof.
    intros I A L H V C. unfold observe. rewrite I, L, V, C, A. cbn. rewrite (resolve_tick_unavailable _ _ _ _ _ H).
    reflexivity.
  Qed.

  Theorem unavailable_never_reads (W : world) r id (w : wline) t :
    r_wl r = id -> r_at r = ATick t -> lookupN id (lines W) = Some w -> lenN (w_hist w) <= t ->
    exists e, observe W r = Obstruction e.
  Proof.
    intros I A L H. unfold observe. rewrite I, L. destruct (negb _); [eauto|].
    destruct (validate_contract _ r); [eauto|]. rewrite A, (resolve_tick_unavailable _ _ _ _ _ H). eauto.
  Qed.

  Theorem unknown_worldline (W : world) r :
    lookupN (r_wl r) (lines W) = None -> observe W r = Obstruction EInvalidWorldline.
  Proof. intros L. unfold observe. rewrite L. reflexivity. Qed.

  (* ---------------------------------------------------------------- validity matrix *)

  Definition is_ufp_err (e : oerr) : bool := match e with EUnsupportedFrameProjection _ _ => true | _ => false end.
  Definition is_ufp (x : result) : bool := match x with Obstruction e => is_ufp_err e | _ => false end.

  Lemma instance_rights_not_ufp r e : instance_rights r = Some e -> is_ufp_err e = false.
  Proof.
    unfold instance_rights. destruct (r_instance r); [intros E; injection E as <-; reflexivity|].
    destruct (r_rights r); [discriminate|]. intros E; injection E as <-; reflexivity.
  Qed.

  Lemma validate_not_ufp q r e :
    valid_pair (r_frame r) (kind_of (r_proj r)) = true -> validate_contract q r = Some e -> is_ufp_err e = false.
  Proof.
    unfold validate_contract. intros V.
    destruct (r_frame r), (r_proj r) as [| |f|qid v]; cbn in V; try discriminate; cbn.
    - destruct (r_plan r) as [b|a]; [|intros E; injection E as <-; reflexivity].
      destruct (bplan_eqb b BHead); [apply instance_rights_not_ufp|intros E; injection E as <-; reflexivity].
    - destruct (r_plan r) as [b|a]; [|intros E; injection E as <-; reflexivity].
      destruct (bplan_eqb b BSnapshot); [apply instance_rights_not_ufp|intros E; injection E as <-; reflexivity].
    - destruct (r_plan r) as [b|a]; [|intros E; injection E as <-; reflexivity].
      destruct (bplan_eqb b BTruth); [apply instance_rights_not_ufp|intros E; injection E as <-; reflexivity].
    - destruct (lookupN qid q) as [inst|]; [|intros E; injection E as <-; reflexivity].
      destruct (r_plan r) as [[| | |]|a]; try (intros E; injection E as <-; reflexivity).
      + apply instance_rights_not_ufp.
      + destruct (aplan_eqb a inst); [apply instance_rights_not_ufp|intros E; injection E as <-; reflexivity].
  Qed.

  Lemma resolve_not_ufp g id (w : wline) f a e : resolve g id w f a = inl e -> is_ufp_err e = false.
  Proof.
    unfold resolve. destruct f, a; try (destruct (last_opt (w_hist w))); try (destruct (nthN (w_hist w) t));
      intros E; try discriminate; injection E as <-; reflexivity.
  Qed.

  Lemma budget_not_ufp b p e : budget_posture b p = inl e -> is_ufp_err e = false.
  Proof.
    unfold budget_posture. destruct b; [discriminate|]. destruct (_ || _); [|discriminate].
    intros E; injection E as <-; reflexivity.
  Qed.

  Lemma finish_not_ufp (w : wline) r rs : is_ufp (finish w r rs) = false.
  Proof.
    unfold finish. destruct (basis_posture w (r_at r)) as [e|po] eqn:B.
    - unfold basis_posture in B. destruct (w_strand w) as [[s l]|]; [|discriminate].
      destruct (r_at r); [|discriminate]. destruct l; try discriminate. injection B as <-. reflexivity.
    - destruct (r_proj r) as [| |f|q v]; cbn; try reflexivity.
      + destruct (budget_posture _ _) eqn:Bp; [cbn; eapply budget_not_ufp; eauto|reflexivity].
      + destruct (budget_posture _ _) eqn:Bp; [cbn; eapply budget_not_ufp; eauto|reflexivity].
      + destruct (outputs_at w (rs_tick rs)); [|reflexivity].
        destruct (budget_posture _ _) eqn:Bp; [cbn; eapply budget_not_ufp; eauto|reflexivity].
  Qed.

  Lemma valid_pair_spec f k :
    valid_pair f k = true <->
    ((f = FCommitBoundary /\ (k = KHead \/ k = KSnapshot)) \/ (f = FRecordedTruth /\ k = KTruth) \/ (f = FQueryView /\ k = KQuery)).
  Proof.
    split.
    - destruct f, k; cbn; intros H; try discriminate; intuition.
    - intros [[-> [->| ->]]|[[-> ->]|[-> ->]]]; reflexivity.
  Qed.

  Theorem matrix_exact (W : world) r (w : wline) :
    lookupN (r_wl r) (lines W) = Some w ->
    let f := r_frame r in let k := kind_of (r_proj r) in
    (observe W r = Obstruction (EUnsupportedFrameProjection f k) <->
     ~ ((f = FCommitBoundary /\ (k = KHead \/ k = KSnapshot)) \/ (f = FRecordedTruth /\ k = KTruth) \/ (f = FQueryView /\ k = KQuery)))
    /\ (forall f' k', observe W r = Obstruction (EUnsupportedFrameProjection f' k') -> f' = f /\ k' = k).
  Proof.
    intros L f k.
    assert (U : valid_pair f k = true -> is_ufp (observe W r) = false).
    { intros V. unfold observe. rewrite L. fold f k. rewrite V. cbn [negb].
      destruct (validate_contract _ r) eqn:C; [cbn; eapply validate_not_ufp; eauto|].
      destruct (resolve _ _ w _ _) eqn:R; [cbn; eapply resolve_not_ufp; eauto|apply finish_not_ufp]. }
    split; [split|].
    - intros O N. apply valid_pair_spec in N. apply U in N. rewrite O in N. discriminate.
    - intros N. destruct (valid_pair f k) eqn:V; [exfalso; apply N, valid_pair_spec; exact V|].
      unfold observe. rewrite L. fold f k. rewrite V. reflexivity.
    - intros f' k' O. destruct (valid_pair f k) eqn:V.
      + specialize (U eq_refl). rewrite O in U. discriminate.
      + unfold observe in O. rewrite L in O. fold f k in O. rewrite V in O. cbn in O. injection O as -> ->. auto.
  Qed.

  (* ---------------------------------------------------------------- recorded truth / frontier *)

  Theorem truth_needs_commit (W : world) r (w : wline) :
    lookupN (r_wl r) (lines W) = Some w -> w_hist w = [] -> r_frame r = FRecordedTruth ->
    exists e, observe W r = Obstruction e /\
      (kind_of (r_proj r) = KTruth -> validate_contract (queries W) r = None ->
       e = match r_at r with AFrontier => EObservationUnavailable | ATick t => EInvalidTick t end).
  Proof.
    intros L Hh F. unfold observe. rewrite L, F.
    destruct (negb (valid_pair FRecordedTruth (kind_of (r_proj r)))) eqn:V.
    - eexists; split; [reflexivity|]. intros K. rewrite K in V. discriminate.
    - destruct (validate_contract _ r) eqn:C; [eexists; split; [reflexivity|]; intros _ X; discriminate|].
      unfold resolve. rewrite Hh. destruct (r_at r) as [|t]; cbn.
      + eexists; split; [reflexivity|auto].
      + rewrite (nthN_none_ge (@nil entry) t) by (unfold lenN; cbn; lia). eexists; split; [reflexivity|auto].
  Qed.

  Theorem frontier_last_commit (W : world) r (w : wline) e a :
    lookupN (r_wl r) (lines W) = Some w -> last_opt (w_hist w) = Some e -> r_at r = AFrontier ->
    observe W r = Reading a ->
    rs_root (a_resolved a) = e_root e /\ rs_commit (a_resolved a) = e_commit e /\ rs_cgt (a_resolved a) = Some (e_gtick e) /\
    a_witness a = WCommit {| pr_wl := r_wl r; pr_tick := lenN (w_hist w) - 1; pr_commit := e_commit e |} /\
    rs_tick (a_resolved a) = (match r_frame r with FRecordedTruth => lenN (w_hist w) - 1 | _ => lenN (w_hist w) end).
  Proof.
    intros L La A O. unfold observe in O. rewrite L in O.
    destruct (negb _); [discriminate|]. destruct (validate_contract _ r); [discriminate|].
    assert (NZ : lenN (w_hist w) =? 0 = false).
    { destruct (w_hist w); [discriminate|]. reflexivity. }
    unfold resolve in O. rewrite A, La in O.
    destruct (r_frame r) eqn:F; cbn in O; unfold finish in O;
      destruct (basis_posture w (r_at r)); try discriminate;
      destruct (r_proj r); try discriminate; cbn in O;
      try (destruct (outputs_at w _); [|discriminate]);
      destruct (budget_posture _ _); try discriminate; injection O as <-; cbn;
      unfold witness_of; cbn; rewrite ?F, ?NZ; cbn; auto.
  Qed.

  Theorem truth_payload (W : world) r (w : wline) t e f a :
    lookupN (r_wl r) (lines W) = Some w -> r_at r = ATick t -> nthN (w_hist w) t = Some e ->
    r_proj r = PTruth f -> observe W r = Reading a ->
    a_payload a = PlTruth (filter_outputs f (e_outputs e)) /\
    (forall c d, In (c, d) (filter_outputs f (e_outputs e)) -> In (c, d) (e_outputs e)) /\
    rs_root (a_resolved a) = e_root e /\ rs_commit (a_resolved a) = e_commit e /\ rs_tick (a_resolved a) = t.
  Proof.
    intros L A E Pj O. unfold observe in O. rewrite L in O.
    destruct (negb _); [discriminate|]. destruct (validate_contract _ r); [discriminate|].
    unfold resolve in O. rewrite A in O.
    assert (R : (match r_frame r with
                 | FCommitBoundary | FQueryView | FRecordedTruth =>
                     match nthN (w_hist w) t with None => inl (EInvalidTick t)
                     | Some e0 => inr (of_entry (gtick W) (r_wl r) (ATick t) t e0 (e_root e0)) end end)
                = inr (of_entry (gtick W) (r_wl r) (ATick t) t e (e_root e))).
    { rewrite E. destruct (r_frame r); reflexivity. }
    assert (O' : finish w r (of_entry (gtick W) (r_wl r) (ATick t) t e (e_root e)) = Reading a).
    { destruct (r_frame r); rewrite E in O; exact O. }
    clear O R. unfold finish in O'. destruct (basis_posture w (r_at r)); [discriminate|].
    rewrite Pj in O'. unfold outputs_at in O'. cbn [of_entry rs_tick] in O'. rewrite E in O'.
    destruct (budget_posture _ _); [discriminate|]. injection O' as <-. cbn.
    split; [reflexivity|]. split; [|auto].
    intros c d. unfold filter_outputs. destruct f; [|auto]. intros I. apply filter_In in I. tauto.
  Qed.

  (* ---------------------------------------------------------------- optic bridge *)

  Theorem optic_bridged (W : world) q a :
    observe_optic W q = OReading a ->
    exists r, optic_to_request q = inr r /\ observe W r = Reading a /\
              r_frame r = FCommitBoundary /\ (r_proj r = PHead \/ r_proj r = PSnapshot) /\
              (forall mb, o_max_bytes q = Some mb -> exists mw, r_budget r = BBounded mb mw).
  Proof.
    unfold observe_optic. destruct (optic_budget_check q); [discriminate|].
    destruct (optic_attachment_check q); [discriminate|].
    destruct (optic_to_request q) as [k|r] eqn:T; [discriminate|].
    destruct (observe W r) eqn:O; try discriminate.
    destruct (live_tail_check _ _ _); [discriminate|]. intros E. injection E as <-.
    exists r. split; [reflexivity|]. split; [exact O|].
    unfold optic_to_request in T. destruct (o_focus q); try discriminate. destruct (o_coord q) as [cid ca|]; try discriminate.
    destruct (negb _); [discriminate|].
    destruct (match ca with OcFrontier => _ | OcTick t => _ | OcProvenance r0 => _ end); [discriminate|].
    destruct (o_shape q); try discriminate; injection T as <-; cbn;
      (split; [reflexivity|]; split; [auto|]; intros mb M; rewrite M; eauto).
  Qed.

  Theorem optic_unavailable (W : world) q id (w : wline) t :
    o_coord q = CoWorldline id (OcTick t) \/ (exists c, o_coord q = CoWorldline id (OcProvenance {| pr_wl := id; pr_tick := t; pr_commit := c |})) ->
    lookupN id (lines W) = Some w -> lenN (w_hist w) <= t ->
    exists k, observe_optic W q = OObstructed k.
  Proof.
    intros C L H. destruct (observe_optic W q) as [a|k] eqn:O; [|eauto]. exfalso.
    destruct (optic_bridged W q a O) as [r [T [Ob _]]].
    assert (RW : r_wl r = id /\ r_at r = ATick t).
    { unfold optic_to_request in T. destruct (o_focus q); try discriminate.
      destruct C as [C|[c C]]; rewrite C in T; destruct (negb _); try discriminate; cbn in T.
      - destruct (o_shape q); try discriminate; injection T as <-; auto.
      - rewrite N.eqb_refl in T. destruct (o_shape q); try discriminate; injection T as <-; auto. }
    destruct RW as [RW RA].
    destruct (unavailable_never_reads W r id w t RW RA L H) as [e E]. rewrite E in Ob. discriminate.
  Qed.

  Theorem optic_unknown (W : world) q id a :
    o_coord q = CoWorldline id a -> lookupN id (lines W) = None -> exists k, observe_optic W q = OObstructed k.
  Proof.
    intros C L. destruct (observe_optic W q) as [x|k] eqn:O; [|eauto]. exfalso.
    destruct (optic_bridged W q x O) as [r [T [Ob _]]].
    assert (RW : r_wl r = id).
    { unfold optic_to_request in T. destruct (o_focus q); try discriminate. rewrite C in T.
      destruct (negb _); try discriminate.
      destruct (match a with OcFrontier => _ | OcTick t => _ | OcProvenance r0 => _ end); [discriminate|].
      destruct (o_shape q); try discriminate; injection T as <-; auto. }
    rewrite (unknown_worldline W r) in Ob by (rewrite RW; exact L). discriminate.
  Qed.
End Proofs.
