(* C04: what the diff contains (membership characterisation of diff_raw). *)
From Coq Require Import List NArith Lia Bool Permutation Sorted.
From Echo Require Import Base.FinMap Base.Order Model.Patch Proofs.PatchProofs.
Import ListNotations.
Open Scope N_scope.

(* the store `diff_state` uses as "before" for an instance of the after state *)
Definition bstore (a : state) (w : N) : store :=
  match get_store a w with Some s => s | None => empty_store end.

Lemma bstore_sorted a w : Struct a -> store_sorted (bstore a w).
Proof.
  intros HS. unfold bstore. destruct (get_store a w) eqn:G; [eapply Struct_store; eauto|apply empty_store_sorted].
Qed.

Lemma in_find_iff {V} (m : list (N * V)) k v : nsorted m -> (In (k, v) m <-> nfind k m = Some v).
Proof. intros Hs. split; [apply n_in_f, Hs|apply nf_in]. Qed.

Lemma nmem_true {V} (m : list (N * V)) k : nmem k m = true <-> exists v, nfind k m = Some v.
Proof. unfold mem. destruct (nfind k m); split; eauto; try discriminate. intros [v E]; discriminate. Qed.

Lemma nmem_false {V} (m : list (N * V)) k : nmem k m = false <-> nfind k m = None.
Proof. unfold mem. destruct (nfind k m); split; congruence. Qed.

Lemma mem_key_false k l : mem_key k l = false <-> ~ In k l.
Proof.
  unfold mem_key. split.
  - intros H Hin. assert (existsb (akey_eqb k) l = true); [|congruence].
    apply existsb_exists. exists k. split; [exact Hin|apply akey_eqb_refl].
  - intros H. destruct (existsb (akey_eqb k) l) eqn:E; [|reflexivity].
    apply existsb_exists in E. destruct E as [x [Hin Hx]]. apply akey_eqb_spec in Hx. subst. contradiction.
Qed.

Lemma mem_nk_false w n l : mem_nk w n l = false <-> ~ In (w, n) l.
Proof.
  unfold mem_nk. split.
  - intros H Hin. assert (existsb (fun x => (fst x =? w) && (snd x =? n)) l = true); [|congruence].
    apply existsb_exists. exists (w, n). split; [exact Hin|cbn; rewrite !N.eqb_refl; reflexivity].
  - intros H. destruct (existsb _ l) eqn:E; [|reflexivity].
    apply existsb_exists in E. destruct E as [[x y] [Hin Hx]]. cbn in Hx.
    apply andb_true_iff in Hx. destruct Hx as [H1 H2]. apply N.eqb_eq in H1, H2. subst. contradiction.
Qed.

Lemma mem_nk_true w n l : mem_nk w n l = true -> In (w, n) l.
Proof.
  unfold mem_nk. intros E. apply existsb_exists in E. destruct E as [[x y] [Hin Hx]]. cbn in Hx.
  apply andb_true_iff in Hx. destruct Hx as [H1 H2]. apply N.eqb_eq in H1, H2. subst. exact Hin.
Qed.

Lemma mem_key_true k l : mem_key k l = true -> In k l.
Proof.
  unfold mem_key. intros E. apply existsb_exists in E. destruct E as [x [Hin Hx]].
  apply akey_eqb_spec in Hx. subst. exact Hin.
Qed.

Lemma opt_att_eqb_spec a b : opt_eqb att_eqb a b = true <-> a = b.
Proof. apply opt_eqb_spec, att_eqb_spec. Qed.

Lemma opt_att_eqb_false a b : opt_eqb att_eqb a b = false <-> a <> b.
Proof. rewrite <- opt_att_eqb_spec. destruct (opt_eqb att_eqb a b); split; congruence. Qed.

(* ------------------------------------------------------------------ components of diff_instance *)

Section Inst.
  Variables (w : N) (p q : store) (skn : list (N * N)) (ska : list akey).
  Hypothesis Hp : store_sorted p.
  Hypothesis Hq : store_sorted q.

  Lemma in_diff_nodes o :
    In o (diff_nodes w p q skn) <->
    (exists n, mem_nk w n skn = false /\
       ((o = DeleteNode w n /\ nmem n (s_nodes p) = true /\ nfind n (s_nodes q) = None) \/
        (exists ty, o = UpsertNode w n ty /\ nfind n (s_nodes q) = Some ty /\ nfind n (s_nodes p) <> Some ty))).
  Proof.
    destruct Hp as (Ap & _). destruct Hq as (Aq & _).
    unfold diff_nodes. rewrite in_app_iff, !in_flat_map. split.
    - intros [[[n tb] [Hin Ho]]|[[n ty] [Hin Ho]]]; cbn [fst snd] in Ho.
      + apply (in_find_iff _ _ _ Ap) in Hin. exists n.
        destruct (mem_nk w n skn); [destruct Ho|]. split; [reflexivity|].
        destruct (nfind n (s_nodes q)) as [ty|] eqn:Eq.
        * destruct (N.eqb_spec tb ty); [destruct Ho|]. destruct Ho as [<-|[]].
          right. exists ty. split; [reflexivity|split; [reflexivity|]]. rewrite Hin. congruence.
        * destruct Ho as [<-|[]]. left. split; [reflexivity|split; [|reflexivity]].
          apply nmem_true. eauto.
      + apply (in_find_iff _ _ _ Aq) in Hin. exists n.
        destruct (mem_nk w n skn); [destruct Ho|]. split; [reflexivity|].
        destruct (nmem n (s_nodes p)) eqn:Em; [destruct Ho|]. destruct Ho as [<-|[]].
        right. exists ty. split; [reflexivity|split; [exact Hin|]]. apply nmem_false in Em. congruence.
    - intros [n [Hsk [(-> & Hm & Hn)|(ty & -> & Hqn & Hpn)]]].
      + left. apply nmem_true in Hm. destruct Hm as [tb Hm]. exists (n, tb).
        split; [apply (in_find_iff _ _ _ Ap), Hm|]. cbn [fst snd]. rewrite Hsk, Hn. left; reflexivity.
      + destruct (nfind n (s_nodes p)) as [tb|] eqn:Ep.
        * left. exists (n, tb). split; [apply (in_find_iff _ _ _ Ap), Ep|]. cbn [fst snd]. rewrite Hsk, Hqn.
          destruct (N.eqb_spec tb ty); [subst; congruence|left; reflexivity].
        * right. exists (n, ty). split; [apply (in_find_iff _ _ _ Aq), Hqn|]. cbn [fst snd]. rewrite Hsk.
          apply nmem_false in Ep. rewrite Ep. left; reflexivity.
  Qed.

  Lemma in_diff_node_atts o :
    In o (diff_node_atts w p q ska) <->
    exists n, o = SetAtt (node_alpha w n) (nfind n (s_natt q)) /\ nmem n (s_nodes q) = true /\
              nfind n (s_natt p) <> nfind n (s_natt q) /\ mem_key (node_alpha w n) ska = false.
  Proof.
    destruct Hq as (Aq & _).
    unfold diff_node_atts. rewrite in_flat_map. split.
    - intros [[n ty] [Hin Ho]]. cbn [fst snd] in Ho. apply (in_find_iff _ _ _ Aq) in Hin. exists n.
      destruct (opt_eqb att_eqb _ _) eqn:E; [destruct Ho|]. apply opt_att_eqb_false in E.
      destruct (mem_key _ ska) eqn:Ek; [destruct Ho|]. destruct Ho as [<-|[]].
      repeat split; auto. apply nmem_true; eauto.
    - intros [n (-> & Hm & Hne & Hk)]. apply nmem_true in Hm. destruct Hm as [ty Hm].
      exists (n, ty). split; [apply (in_find_iff _ _ _ Aq), Hm|]. cbn [fst snd].
      apply opt_att_eqb_false in Hne. rewrite Hne, Hk. left; reflexivity.
  Qed.

  Lemma recreated_neq rp rq : recreated q rp rq = true -> rp <> rq.
  Proof.
    unfold recreated. intros H ->. rewrite !N.eqb_refl in H. discriminate.
  Qed.

  Lemma in_diff_edges o :
    In o (diff_edges w p q) <->
    (exists e rp, nfind e (s_edges p) = Some rp /\ o = DeleteEdge w (e_from rp) e /\
        (nfind e (s_edges q) = None \/ exists rq, nfind e (s_edges q) = Some rq /\ recreated q rp rq = true)) \/
    (exists e rq, nfind e (s_edges q) = Some rq /\ o = UpsertEdge w e (e_from rq) (e_to rq) (e_ty rq) /\
        nfind e (s_edges p) <> Some rq).
  Proof.
    destruct Hp as (_ & Bp & _). destruct Hq as (_ & Bq & _).
    unfold diff_edges. rewrite in_app_iff, !in_flat_map. split.
    - intros [[[e rp] [Hin Ho]]|[[e rq] [Hin Ho]]]; cbn [fst snd] in Ho.
      + apply (in_find_iff _ _ _ Bp) in Hin. destruct (nmem e (s_edges q)) eqn:Em; [destruct Ho|].
        destruct Ho as [<-|[]]. left. exists e, rp. apply nmem_false in Em. auto.
      + apply (in_find_iff _ _ _ Bq) in Hin. destruct (nfind e (s_edges p)) as [rp|] eqn:Ep.
        * destruct (erec_eqb rp rq) eqn:Er; [destruct Ho|].
          assert (rp <> rq) by (intros ->; rewrite (proj2 (erec_eqb_spec rq rq) eq_refl) in Er; discriminate).
          apply in_app_or in Ho. destruct Ho as [Ho|[<-|[]]].
          -- destruct (recreated q rp rq) eqn:Erc; [|destruct Ho]. destruct Ho as [<-|[]].
             left. exists e, rp. split; [exact Ep|split; [reflexivity|]]. right. eauto.
          -- right. exists e, rq. split; [exact Hin|split; [reflexivity|]]. congruence.
        * destruct Ho as [<-|[]]. right. exists e, rq. split; [exact Hin|split; [reflexivity|]]. congruence.
    - intros [(e & rp & Ep & -> & Hc)|(e & rq & Eq & -> & Hne)].
      + destruct Hc as [Hn|(rq & Eq & Hf)].
        * left. exists (e, rp). split; [apply (in_find_iff _ _ _ Bp), Ep|]. cbn [fst snd].
          apply nmem_false in Hn. rewrite Hn. left; reflexivity.
        * right. exists (e, rq). split; [apply (in_find_iff _ _ _ Bq), Eq|]. cbn [fst snd]. rewrite Ep.
          destruct (erec_eqb rp rq) eqn:Er; [apply erec_eqb_spec in Er; apply recreated_neq in Hf; contradiction|].
          apply in_or_app. left. rewrite Hf. left; reflexivity.
      + right. exists (e, rq). split; [apply (in_find_iff _ _ _ Bq), Eq|]. cbn [fst snd].
        destruct (nfind e (s_edges p)) as [rp|] eqn:Ep; [|left; reflexivity].
        destruct (erec_eqb rp rq) eqn:Er; [apply erec_eqb_spec in Er; subst; congruence|].
        apply in_or_app. right. left; reflexivity.
  Qed.

  Lemma in_diff_edge_atts o :
    In o (diff_edge_atts w p q ska) <->
    exists e rq, o = SetAtt (edge_beta w e) (nfind e (s_eatt q)) /\ nfind e (s_edges q) = Some rq /\
      (recreated_with_value p q e rq = true \/
       (nfind e (s_eatt p) <> nfind e (s_eatt q) /\ mem_key (edge_beta w e) ska = false)).
  Proof.
    destruct Hq as (_ & Bq & _).
    unfold diff_edge_atts. rewrite in_flat_map. split.
    - intros [[e r] [Hin Ho]]. cbn [fst snd] in Ho. apply (in_find_iff _ _ _ Bq) in Hin. exists e, r.
      destruct (recreated_with_value p q e r) eqn:Erw.
      + rewrite !andb_false_r in Ho. destruct Ho as [<-|[]]. auto.
      + rewrite !andb_true_r in Ho.
        destruct (opt_eqb att_eqb _ _) eqn:E; [destruct Ho|]. apply opt_att_eqb_false in E.
        destruct (mem_key _ ska) eqn:Ek; [destruct Ho|]. destruct Ho as [<-|[]]. auto.
    - intros (e & r & -> & Hm & Hc). exists (e, r). split; [apply (in_find_iff _ _ _ Bq), Hm|]. cbn [fst snd].
      destruct Hc as [Hrw|[Hne Hk]].
      + rewrite Hrw, !andb_false_r. left; reflexivity.
      + apply opt_att_eqb_false in Hne. rewrite Hne, Hk. cbn. left; reflexivity.
  Qed.
End Inst.

(* ------------------------------------------------------------------ instance-level components *)

Lemma portal_of_spec a b w m o :
  portal_of a b (w, m) = Some o <->
  nmem w (st_insts a) = false /\
  exists pk cs ty pw, snd m = Some pk /\ att_for_key b pk = Some (Descend w) /\
                   get_store b w = Some cs /\ nfind (fst m) (s_nodes cs) = Some ty /\
                   validate_owner a pk = Ok pw /\
                   o = OpenPortal pk w (fst m) (Some ty).
Proof.
  unfold portal_of. cbn [fst snd]. destruct (nmem w (st_insts a)).
  { split; [discriminate|intros [H _]; discriminate]. }
  destruct (snd m) as [pk|].
  2:{ split; [discriminate|]. intros [_ (pk & cs & ty & pw & H & _)]; discriminate. }
  destruct (att_for_key b pk) as [[t d|w']|] eqn:Ea.
  - split; [discriminate|]. intros [_ (pk' & cs & ty & pw & H & H2 & _)]. inversion H; subst. congruence.
  - destruct (N.eqb_spec w' w) as [->|Hne].
    + destruct (get_store b w) as [cs|].
      * destruct (nfind (fst m) (s_nodes cs)) as [ty|] eqn:En.
        -- destruct (validate_owner a pk) as [pw|e] eqn:Ev.
           ++ split.
              ** intros E; inversion E; subst. split; [reflexivity|]. exists pk, cs, ty, pw. auto 7.
              ** intros [_ (pk' & cs' & ty' & pw' & H1 & H2 & H3 & H4 & _ & ->)]. inversion H1; inversion H3; subst.
                 rewrite En in H4. inversion H4; subst. reflexivity.
           ++ split; [discriminate|]. intros [_ (pk' & cs' & ty' & pw' & H1 & _ & _ & _ & H5 & _)].
              inversion H1; subst. congruence.
        -- split; [discriminate|]. intros [_ (pk' & cs' & ty' & pw' & H1 & H2 & H3 & H4 & _)].
           inversion H3; subst. congruence.
      * split; [discriminate|]. intros [_ (pk' & cs' & ty' & pw' & H1 & H2 & H3 & _)]. discriminate.
    + split; [discriminate|]. intros [_ (pk' & cs & ty & pw & H & H2 & _)]. inversion H; subst.
      rewrite Ea in H2. inversion H2; subst. contradiction.
  - split; [discriminate|]. intros [_ (pk' & cs & ty & pw & H & H2 & _)]. inversion H; subst. congruence.
Qed.

Lemma in_portal_ops a b o : nsorted (st_insts b) ->
  (In o (portal_ops a b) <-> exists w m, get_inst b w = Some m /\ portal_of a b (w, m) = Some o).
Proof.
  intros Hs. unfold portal_ops. rewrite in_flat_map. split.
  - intros [[w m] [Hin Ho]]. apply (in_find_iff _ _ _ Hs) in Hin. exists w, m. split; [exact Hin|].
    destruct (portal_of a b (w, m)); [destruct Ho as [<-|[]]; reflexivity|destruct Ho].
  - intros (w & m & Hg & Hp). exists (w, m). split; [apply (in_find_iff _ _ _ Hs), Hg|]. rewrite Hp. left; reflexivity.
Qed.

Lemma in_portal_warps pops cw : In cw (portal_warps pops) <-> exists k cr i, In (OpenPortal k cw cr i) pops.
Proof.
  unfold portal_warps. rewrite in_flat_map. split.
  - intros [o [Hin Ho]]. destruct o; cbn in Ho; try contradiction. destruct Ho as [<-|[]]. eauto.
  - intros (k & cr & i & Hin). exists (OpenPortal k cw cr i). split; [exact Hin|left; reflexivity].
Qed.

Lemma in_skip_nodes pops cw cr : In (cw, cr) (skip_nodes pops) <-> exists k i, In (OpenPortal k cw cr i) pops.
Proof.
  unfold skip_nodes. rewrite in_flat_map. split.
  - intros [o [Hin Ho]]. destruct o; cbn in Ho; try contradiction. destruct Ho as [E|[]]. inversion E; subst. eauto.
  - intros (k & i & Hin). exists (OpenPortal k cw cr i). split; [exact Hin|left; reflexivity].
Qed.

Lemma in_skip_atts pops k : In k (skip_atts pops) <-> exists cw cr i, In (OpenPortal k cw cr i) pops.
Proof.
  unfold skip_atts. rewrite in_flat_map. split.
  - intros [o [Hin Ho]]. destruct o; cbn in Ho; try contradiction. destruct Ho as [<-|[]]. eauto.
  - intros (cw & cr & i & Hin). exists (OpenPortal k cw cr i). split; [exact Hin|left; reflexivity].
Qed.

Lemma in_inst_deletes a b o : nsorted (st_insts a) ->
  (In o (inst_deletes a b) <-> exists w, o = DeleteWI w /\ nmem w (st_insts a) = true /\ nmem w (st_insts b) = false).
Proof.
  intros Hs. unfold inst_deletes. rewrite in_flat_map. split.
  - intros [[w m] [Hin Ho]]. cbn [fst] in Ho. apply (in_find_iff _ _ _ Hs) in Hin.
    destruct (nmem w (st_insts b)) eqn:E; [destruct Ho|]. destruct Ho as [<-|[]].
    exists w. repeat split; auto. apply nmem_true; eauto.
  - intros (w & -> & Hm & Hn). apply nmem_true in Hm. destruct Hm as [m Hm].
    exists (w, m). split; [apply (in_find_iff _ _ _ Hs), Hm|]. cbn [fst]. rewrite Hn. left; reflexivity.
Qed.

Lemma existsb_eqb_in w l : existsb (N.eqb w) l = true <-> In w l.
Proof.
  rewrite existsb_exists. split.
  - intros [x [Hin E]]. apply N.eqb_eq in E; subst; exact Hin.
  - intros Hin. exists w. split; [exact Hin|apply N.eqb_refl].
Qed.

Lemma in_inst_upserts a b pw o : nsorted (st_insts b) ->
  (In o (inst_upserts a b pw) <->
   exists w r p, o = UpsertWI w r p /\ get_inst b w = Some (r, p) /\
     ((get_inst a w = None /\ ~ In w pw) \/ (exists mb, get_inst a w = Some mb /\ mb <> (r, p)))).
Proof.
  intros Hs. unfold inst_upserts. rewrite in_flat_map. split.
  - intros [[w [r p]] [Hin Ho]]. cbn [fst snd] in Ho. apply (in_find_iff _ _ _ Hs) in Hin.
    exists w, r, p. destruct (get_inst a w) as [mb|] eqn:Ea.
    + destruct (imeta_eqb mb (r, p)) eqn:Em; [destruct Ho|]. destruct Ho as [<-|[]].
      split; [reflexivity|split; [exact Hin|]]. right. exists mb. split; [reflexivity|].
      intros ->. rewrite (proj2 (imeta_eqb_spec _ _) eq_refl) in Em. discriminate.
    + destruct (existsb (N.eqb w) pw) eqn:Ee; [destruct Ho|]. destruct Ho as [<-|[]].
      split; [reflexivity|split; [exact Hin|]]. left. split; [reflexivity|].
      intros Hi. apply existsb_eqb_in in Hi. congruence.
  - intros (w & r & p & -> & Hg & Hc). exists (w, (r, p)). split; [apply (in_find_iff _ _ _ Hs), Hg|].
    cbn [fst snd]. destruct Hc as [[Ha Hn]|(mb & Ha & Hne)]; rewrite Ha.
    + destruct (existsb (N.eqb w) pw) eqn:Ee; [apply existsb_eqb_in in Ee; contradiction|left; reflexivity].
    + destruct (imeta_eqb mb (r, p)) eqn:Em; [apply imeta_eqb_spec in Em; contradiction|left; reflexivity].
Qed.

(* ------------------------------------------------------------------ the whole diff *)

Definition pops_of (a b : state) := portal_ops a b.
Definition skn_of (a b : state) := skip_nodes (portal_ops a b).
Definition ska_of (a b : state) := skip_atts (portal_ops a b).

Lemma in_diff_raw a b o : Struct b ->
  (In o (diff_raw a b) <->
   In o (portal_ops a b) \/ In o (inst_deletes a b) \/
   In o (inst_upserts a b (portal_warps (portal_ops a b))) \/
   exists w q, get_store b w = Some q /\
               In o (diff_instance w (bstore a w) q (skn_of a b) (ska_of a b))).
Proof.
  intros (Hs & _). unfold diff_raw. cbv zeta. rewrite !in_app_iff, in_flat_map.
  split.
  - intros [H|[H|[H|[[w q] [Hin H]]]]]; auto. right; right; right. exists w, q.
    split; [apply (in_find_iff _ _ _ Hs), Hin|exact H].
  - intros [H|[H|[H|(w & q & Hg & H)]]]; auto. right; right; right. exists (w, q).
    split; [apply (in_find_iff _ _ _ Hs), Hg|exact H].
Qed.

Lemma in_diff_instance w p q skn ska o :
  In o (diff_instance w p q skn ska) <->
  In o (diff_nodes w p q skn) \/ In o (diff_node_atts w p q ska) \/ In o (diff_edges w p q) \/
  In o (diff_edge_atts w p q ska).
Proof. unfold diff_instance. rewrite !in_app_iff. tauto. Qed.

(* shapes: which component can contain which constructor *)
Lemma portal_ops_shape a b o : nsorted (st_insts b) -> In o (portal_ops a b) ->
  exists k cw cr ty, o = OpenPortal k cw cr (Some ty).
Proof.
  intros Hs H. apply (in_portal_ops a b o Hs) in H. destruct H as (w & m & _ & H).
  apply portal_of_spec in H. destruct H as (_ & pk & cs & ty & pw & _ & _ & _ & _ & _ & ->). eauto.
Qed.

(* ------------------------------------------------------------------ per-constructor membership *)

Ltac kill_top Ha Hb :=
  match goal with
  | H : In _ (portal_ops _ _) |- _ =>
      apply (portal_ops_shape _ _ _ (proj1 (proj2 Hb))) in H; destruct H as (? & ? & ? & ? & H); discriminate H
  | H : In _ (inst_deletes _ _) |- _ =>
      apply (in_inst_deletes _ _ _ (proj1 (proj2 Ha))) in H; destruct H as (? & H & _); discriminate H
  | H : In _ (inst_upserts _ _ _) |- _ =>
      apply (in_inst_upserts _ _ _ _ (proj1 (proj2 Hb))) in H; destruct H as (? & ? & ? & H & _); discriminate H
  end.

Section PerOp.
  Variables a b : state.
  Hypothesis Ha : Struct a.
  Hypothesis Hb : Struct b.

  Let D := diff_raw a b.

  Lemma inD_instance o :
    (forall k cw cr i, o <> OpenPortal k cw cr i) -> (forall w, o <> DeleteWI w) -> (forall w r p, o <> UpsertWI w r p) ->
    (In o D <-> exists w q, get_store b w = Some q /\
       In o (diff_instance w (bstore a w) q (skn_of a b) (ska_of a b))).
  Proof.
    intros N1 N2 N3. unfold D. rewrite (in_diff_raw a b o Hb). split.
    - intros [H|[H|[H|H]]]; [| | |exact H].
      + apply (portal_ops_shape _ _ _ (proj1 (proj2 Hb))) in H. destruct H as (k & cw & cr & ty & ->).
        exfalso. eapply N1; reflexivity.
      + apply (in_inst_deletes _ _ _ (proj1 (proj2 Ha))) in H. destruct H as (w & -> & _).
        exfalso. eapply N2; reflexivity.
      + apply (in_inst_upserts _ _ _ _ (proj1 (proj2 Hb))) in H. destruct H as (w & r & p & -> & _).
        exfalso. eapply N3; reflexivity.
    - intros H. right; right; right. exact H.
  Qed.

  Lemma inD_upsert_node w n ty :
    In (UpsertNode w n ty) D <->
    exists q, get_store b w = Some q /\ nfind n (s_nodes q) = Some ty /\
              nfind n (s_nodes (bstore a w)) <> Some ty /\ mem_nk w n (skn_of a b) = false.
  Proof.
    rewrite inD_instance by (intros; discriminate). split.
    - intros (w' & q & Hg & H). pose proof (bstore_sorted a w' Ha) as Hp. pose proof (Struct_store _ _ _ Hb Hg) as Hq.
      apply in_diff_instance in H. destruct H as [H|[H|[H|H]]].
      + apply (in_diff_nodes w' _ _ _ Hp Hq) in H. destruct H as (n' & Hsk & [(E & _)|(ty' & E & H1 & H2)]); [discriminate|].
        inversion E; subst. eauto.
      + apply (in_diff_node_atts w' _ _ _ Hq) in H. destruct H as (? & E & _); discriminate.
      + apply (in_diff_edges w' _ _ Hp Hq) in H. destruct H as [(? & ? & _ & E & _)|(? & ? & _ & E & _)]; discriminate.
      + apply (in_diff_edge_atts w' _ _ _ Hq) in H. destruct H as (? & ? & E & _); discriminate.
    - intros (q & Hg & H1 & H2 & H3). exists w, q. split; [exact Hg|].
      pose proof (bstore_sorted a w Ha) as Hp. pose proof (Struct_store _ _ _ Hb Hg) as Hq.
      apply in_diff_instance. left. apply (in_diff_nodes w _ _ _ Hp Hq). exists n. split; [exact H3|].
      right. exists ty. auto.
  Qed.

  Lemma inD_delete_node w n :
    In (DeleteNode w n) D <->
    exists q, get_store b w = Some q /\ nmem n (s_nodes (bstore a w)) = true /\
              nfind n (s_nodes q) = None /\ mem_nk w n (skn_of a b) = false.
  Proof.
    rewrite inD_instance by (intros; discriminate). split.
    - intros (w' & q & Hg & H). pose proof (bstore_sorted a w' Ha) as Hp. pose proof (Struct_store _ _ _ Hb Hg) as Hq.
      apply in_diff_instance in H. destruct H as [H|[H|[H|H]]].
      + apply (in_diff_nodes w' _ _ _ Hp Hq) in H. destruct H as (n' & Hsk & [(E & H1 & H2)|(ty' & E & _)]); [|discriminate].
        inversion E; subst. eauto.
      + apply (in_diff_node_atts w' _ _ _ Hq) in H. destruct H as (? & E & _); discriminate.
      + apply (in_diff_edges w' _ _ Hp Hq) in H. destruct H as [(? & ? & _ & E & _)|(? & ? & _ & E & _)]; discriminate.
      + apply (in_diff_edge_atts w' _ _ _ Hq) in H. destruct H as (? & ? & E & _); discriminate.
    - intros (q & Hg & H1 & H2 & H3). exists w, q. split; [exact Hg|].
      pose proof (bstore_sorted a w Ha) as Hp. pose proof (Struct_store _ _ _ Hb Hg) as Hq.
      apply in_diff_instance. left. apply (in_diff_nodes w _ _ _ Hp Hq). exists n. split; [exact H3|].
      left. auto.
  Qed.

  Lemma inD_upsert_edge w e f t ty :
    In (UpsertEdge w e f t ty) D <->
    exists q, get_store b w = Some q /\ nfind e (s_edges q) = Some (f, t, ty) /\
              nfind e (s_edges (bstore a w)) <> Some (f, t, ty).
  Proof.
    rewrite inD_instance by (intros; discriminate). split.
    - intros (w' & q & Hg & H). pose proof (bstore_sorted a w' Ha) as Hp. pose proof (Struct_store _ _ _ Hb Hg) as Hq.
      apply in_diff_instance in H. destruct H as [H|[H|[H|H]]].
      + apply (in_diff_nodes w' _ _ _ Hp Hq) in H. destruct H as (n' & Hsk & [(E & _)|(ty' & E & _)]); discriminate.
      + apply (in_diff_node_atts w' _ _ _ Hq) in H. destruct H as (? & E & _); discriminate.
      + apply (in_diff_edges w' _ _ Hp Hq) in H. destruct H as [(? & ? & _ & E & _)|(e' & rq & H1 & E & H2)]; [discriminate|].
        inversion E; subst. exists q. destruct rq as [[f' t'] ty']. cbn in *. auto.
      + apply (in_diff_edge_atts w' _ _ _ Hq) in H. destruct H as (? & ? & E & _); discriminate.
    - intros (q & Hg & H1 & H2). exists w, q. split; [exact Hg|].
      pose proof (bstore_sorted a w Ha) as Hp. pose proof (Struct_store _ _ _ Hb Hg) as Hq.
      apply in_diff_instance. right; right; left. apply (in_diff_edges w _ _ Hp Hq). right.
      exists e, (f, t, ty). auto.
  Qed.

  Lemma inD_delete_edge w f e :
    In (DeleteEdge w f e) D <->
    exists q rp, get_store b w = Some q /\ nfind e (s_edges (bstore a w)) = Some rp /\ e_from rp = f /\
      (nfind e (s_edges q) = None \/ exists rq, nfind e (s_edges q) = Some rq /\ recreated q rp rq = true).
  Proof.
    rewrite inD_instance by (intros; discriminate). split.
    - intros (w' & q & Hg & H). pose proof (bstore_sorted a w' Ha) as Hp. pose proof (Struct_store _ _ _ Hb Hg) as Hq.
      apply in_diff_instance in H. destruct H as [H|[H|[H|H]]].
      + apply (in_diff_nodes w' _ _ _ Hp Hq) in H. destruct H as (n' & Hsk & [(E & _)|(ty' & E & _)]); discriminate.
      + apply (in_diff_node_atts w' _ _ _ Hq) in H. destruct H as (? & E & _); discriminate.
      + apply (in_diff_edges w' _ _ Hp Hq) in H. destruct H as [(e' & rp & H1 & E & H2)|(? & ? & _ & E & _)]; [|discriminate].
        inversion E; subst. exists q, rp. repeat split; auto.
      + apply (in_diff_edge_atts w' _ _ _ Hq) in H. destruct H as (? & ? & E & _); discriminate.
    - intros (q & rp & Hg & H1 & <- & H2). exists w, q. split; [exact Hg|].
      pose proof (bstore_sorted a w Ha) as Hp. pose proof (Struct_store _ _ _ Hb Hg) as Hq.
      apply in_diff_instance. right; right; left. apply (in_diff_edges w _ _ Hp Hq). left.
      exists e, rp. repeat split; auto.
  Qed.

  Lemma inD_set_att k v :
    In (SetAtt k v) D <->
    exists w q, get_store b w = Some q /\
      ((exists n, k = node_alpha w n /\ v = nfind n (s_natt q) /\ nmem n (s_nodes q) = true /\
                  nfind n (s_natt (bstore a w)) <> v /\ mem_key k (ska_of a b) = false) \/
       (exists e rq, k = edge_beta w e /\ v = nfind e (s_eatt q) /\ nfind e (s_edges q) = Some rq /\
                  (recreated_with_value (bstore a w) q e rq = true \/
                   (nfind e (s_eatt (bstore a w)) <> v /\ mem_key k (ska_of a b) = false)))).
  Proof.
    rewrite inD_instance by (intros; discriminate). split.
    - intros (w' & q & Hg & H). pose proof (bstore_sorted a w' Ha) as Hp. pose proof (Struct_store _ _ _ Hb Hg) as Hq.
      exists w', q. split; [exact Hg|].
      apply in_diff_instance in H. destruct H as [H|[H|[H|H]]].
      + apply (in_diff_nodes w' _ _ _ Hp Hq) in H. destruct H as (n' & Hsk & [(E & _)|(ty' & E & _)]); discriminate.
      + apply (in_diff_node_atts w' _ _ _ Hq) in H. destruct H as (n & E & H1 & H2 & H3). inversion E; subst.
        left. exists n. auto.
      + apply (in_diff_edges w' _ _ Hp Hq) in H. destruct H as [(? & ? & _ & E & _)|(? & ? & _ & E & _)]; discriminate.
      + apply (in_diff_edge_atts w' _ _ _ Hq) in H. destruct H as (e & rq & E & H1 & H2). inversion E; subst.
        right. exists e, rq. auto.
    - intros (w & q & Hg & Hc). exists w, q. split; [exact Hg|].
      pose proof (bstore_sorted a w Ha) as Hp. pose proof (Struct_store _ _ _ Hb Hg) as Hq.
      apply in_diff_instance. destruct Hc as [(n & -> & -> & H1 & H2 & H3)|(e & rq & -> & -> & H1 & H2)].
      + right; left. apply (in_diff_node_atts w _ _ _ Hq). exists n. auto.
      + right; right; right. apply (in_diff_edge_atts w _ _ _ Hq). exists e, rq. auto.
  Qed.

  Lemma inD_top o :
    (exists k cw cr i, o = OpenPortal k cw cr i) \/ (exists w, o = DeleteWI w) \/ (exists w r p, o = UpsertWI w r p) ->
    (In o D <-> In o (portal_ops a b) \/ In o (inst_deletes a b) \/
                In o (inst_upserts a b (portal_warps (portal_ops a b)))).
  Proof.
    intros Hshape. unfold D. rewrite (in_diff_raw a b o Hb). split.
    - intros [H|[H|[H|H]]]; auto. exfalso. destruct H as (w' & q & Hg & H).
      pose proof (bstore_sorted a w' Ha) as Hp. pose proof (Struct_store _ _ _ Hb Hg) as Hq.
      apply in_diff_instance in H. destruct H as [H|[H|[H|H]]].
      + apply (in_diff_nodes w' _ _ _ Hp Hq) in H. destruct H as (n' & Hsk & [(E & _)|(ty' & E & _)]); subst;
          destruct Hshape as [(? & ? & ? & ? & E)|[(? & E)|(? & ? & ? & E)]]; discriminate.
      + apply (in_diff_node_atts w' _ _ _ Hq) in H. destruct H as (? & E & _); subst;
          destruct Hshape as [(? & ? & ? & ? & E)|[(? & E)|(? & ? & ? & E)]]; discriminate.
      + apply (in_diff_edges w' _ _ Hp Hq) in H. destruct H as [(? & ? & _ & E & _)|(? & ? & _ & E & _)]; subst;
          destruct Hshape as [(? & ? & ? & ? & E)|[(? & E)|(? & ? & ? & E)]]; discriminate.
      + apply (in_diff_edge_atts w' _ _ _ Hq) in H. destruct H as (? & ? & E & _); subst;
          destruct Hshape as [(? & ? & ? & ? & E)|[(? & E)|(? & ? & ? & E)]]; discriminate.
    - intros [H|[H|H]]; auto.
  Qed.

  Lemma inD_open_portal k cw cr i :
    In (OpenPortal k cw cr i) D <->
    exists m, get_inst b cw = Some m /\ portal_of a b (cw, m) = Some (OpenPortal k cw cr i).
  Proof.
    rewrite inD_top by (left; eauto). rewrite (in_portal_ops a b _ (proj1 (proj2 Hb))). split.
    - intros [(w & m & Hg & Hp)|[H|H]]; [|kill_top Ha Hb|kill_top Ha Hb].
      pose proof Hp as Hp'. apply portal_of_spec in Hp'. destruct Hp' as (_ & pk & cs & ty & pw & _ & _ & _ & _ & _ & E).
      inversion E; subst. eauto.
    - intros (m & Hg & Hp). left. eauto.
  Qed.

  Lemma inD_delete_wi w :
    In (DeleteWI w) D <-> nmem w (st_insts a) = true /\ nmem w (st_insts b) = false.
  Proof.
    rewrite inD_top by (right; left; eauto). rewrite (in_inst_deletes a b _ (proj1 (proj2 Ha))). split.
    - intros [H|[(w' & E & H)|H]]; [kill_top Ha Hb| |kill_top Ha Hb]. inversion E; subst. exact H.
    - intros H. right; left. eauto.
  Qed.

  Lemma inD_upsert_wi w r p :
    In (UpsertWI w r p) D <->
    get_inst b w = Some (r, p) /\
    ((get_inst a w = None /\ ~ In w (portal_warps (portal_ops a b))) \/
     (exists mb, get_inst a w = Some mb /\ mb <> (r, p))).
  Proof.
    rewrite inD_top by (right; right; eauto). rewrite (in_inst_upserts a b _ _ (proj1 (proj2 Hb))). split.
    - intros [H|[H|(w' & r' & p' & E & H)]]; [kill_top Ha Hb|kill_top Ha Hb|]. inversion E; subst. exact H.
    - intros H. right; right. exists w, r, p. auto.
  Qed.
End PerOp.

(* ------------------------------------------------------------------ writers of a slot *)

Definition kind (o : op) : N := fst (sort_key o).

Lemma ople_refl o : ople o o.
Proof. unfold ople. rewrite (proj2 (ol_eq _ key_order _ _) eq_refl). discriminate. Qed.

Lemma ople_kind o1 o2 : kind o1 < kind o2 -> ople o1 o2.
Proof.
  unfold kind, ople, key_cmp, pair_cmp. intros H. apply N.compare_lt_iff in H. rewrite H. discriminate.
Qed.

Lemma key_eq_kind o1 o2 : sort_key o1 = sort_key o2 -> kind o1 = kind o2.
Proof. unfold kind. intros ->. reflexivity. Qed.

Lemma final_writer D f sl o c : In o D -> wr o sl = Some c ->
  (forall o', In o' D -> wr o' sl <> None -> ople o' o /\ (sort_key o' = sort_key o -> wr o' sl = Some c)) ->
  fold_wr (sort_ops D) f sl = c.
Proof.
  intros Hin Hw Hmax. apply (fold_wr_last _ f sl o c (sort_ops_sorted D)); [apply sort_ops_in, Hin|exact Hw|].
  intros o' Hin'. apply Hmax. apply sort_ops_in, Hin'.
Qed.

Lemma final_none D f sl : (forall o, In o D -> wr o sl = None) -> fold_wr (sort_ops D) f sl = f sl.
Proof. intros H. apply fold_wr_none. intros o Hin. apply H, sort_ops_in, Hin. Qed.

Lemma slot_eqb_inst_node w w' n : slot_eqb (SInst w) (SNode w' n) = false. Proof. reflexivity. Qed.

Lemma att_slot_natt k w n : att_slot k = SNatt w n <-> ak_edge k = false /\ ak_warp k = w /\ ak_id k = n.
Proof.
  unfold att_slot. destruct (ak_edge k); split; try discriminate; try (intros [H _]; discriminate).
  - intros E; inversion E; auto.
  - intros (_ & -> & ->). reflexivity.
Qed.

Lemma att_slot_eatt k w e : att_slot k = SEatt w e <-> ak_edge k = true /\ ak_warp k = w /\ ak_id k = e.
Proof.
  unfold att_slot. destruct (ak_edge k); split; try discriminate; try (intros [H _]; discriminate).
  - intros E; inversion E; auto.
  - intros (_ & -> & ->). reflexivity.
Qed.

Ltac seqb :=
  repeat match goal with
         | H : context [slot_eqb ?a ?b] |- _ =>
             let E := fresh "E" in destruct (slot_eqb a b) eqn:E;
             [apply slot_eqb_spec in E|apply slot_eqb_false in E]
         end.

Lemma att_slot_shape k : (exists w n, att_slot k = SNatt w n) \/ (exists w e, att_slot k = SEatt w e).
Proof. unfold att_slot. destruct (ak_edge k); eauto. Qed.

Lemma slot_eqb_att_false sl k :
  match sl with SInst _ | SNode _ _ | SEdge _ _ => True | _ => False end -> slot_eqb sl (att_slot k) = false.
Proof.
  intros H. apply slot_eqb_false. intros ->.
  destruct (att_slot_shape k) as [(w & n & E)|(w & e & E)]; rewrite E in H; exact H.
Qed.

Lemma wr_inst_inv o w : wr o (SInst w) <> None ->
  (exists k cr ty, o = OpenPortal k w cr (Some ty)) \/ (exists r p, o = UpsertWI w r p) \/ o = DeleteWI w.
Proof.
  destruct o as [k cw cr [ty|]|w' r p|w'|w' n ty|w' n|w' e f t ty|w' f e|k v]; cbn [wr slot_warp]; intros H;
    rewrite ?slot_eqb_att_false in H by exact I; try (cbn in H; congruence).
  - destruct (slot_eqb (SInst w) (SInst cw)) eqn:E1; [|cbn in H; congruence].
    apply slot_eqb_spec in E1. inversion E1; subst. left; eauto.
  - destruct (slot_eqb (SInst w) (SInst w')) eqn:E1; [|congruence].
    apply slot_eqb_spec in E1. inversion E1; subst. right; left; eauto.
  - destruct (N.eqb_spec w w'); [subst; auto|congruence].
Qed.

Lemma wr_node_inv o w n : wr o (SNode w n) <> None ->
  (exists k ty, o = OpenPortal k w n (Some ty)) \/ o = DeleteWI w \/ (exists ty, o = UpsertNode w n ty) \/
  o = DeleteNode w n.
Proof.
  destruct o as [k cw cr [ty|]|w' r p|w'|w' n' ty|w' n'|w' e f t ty|w' f e|k v]; cbn [wr slot_warp]; intros H;
    rewrite ?slot_eqb_att_false in H by exact I; try (cbn in H; congruence).
  - destruct (slot_eqb (SNode w n) (SNode cw cr)) eqn:E1; [|cbn in H; congruence].
    apply slot_eqb_spec in E1. inversion E1; subst. left; eauto.
  - destruct (N.eqb_spec w w'); [subst; auto|congruence].
  - destruct (slot_eqb (SNode w n) (SNode w' n')) eqn:E1; [|congruence].
    apply slot_eqb_spec in E1. inversion E1; subst. right; right; left; eauto.
  - destruct (slot_eqb (SNode w n) (SNode w' n')) eqn:E1; [|cbn in H; congruence].
    apply slot_eqb_spec in E1. inversion E1; subst. auto.
Qed.

Lemma wr_edge_inv o w e : wr o (SEdge w e) <> None ->
  o = DeleteWI w \/ (exists f t ty, o = UpsertEdge w e f t ty) \/ (exists f, o = DeleteEdge w f e).
Proof.
  destruct o as [k cw cr [ty|]|w' r p|w'|w' n' ty|w' n'|w' e' f t ty|w' f e'|k v]; cbn [wr slot_warp]; intros H;
    rewrite ?slot_eqb_att_false in H by exact I; try (cbn in H; congruence).
  - destruct (N.eqb_spec w w'); [subst; auto|congruence].
  - destruct (slot_eqb (SEdge w e) (SEdge w' e')) eqn:E1; [|congruence].
    apply slot_eqb_spec in E1. inversion E1; subst. right; left; eauto.
  - destruct (slot_eqb (SEdge w e) (SEdge w' e')) eqn:E1; [|cbn in H; congruence].
    apply slot_eqb_spec in E1. inversion E1; subst. eauto.
Qed.

Lemma wr_natt_inv o w n : wr o (SNatt w n) <> None ->
  (exists k cw cr ty, o = OpenPortal k cw cr (Some ty) /\ att_slot k = SNatt w n) \/ o = DeleteWI w \/
  o = DeleteNode w n \/ (exists k v, o = SetAtt k v /\ att_slot k = SNatt w n).
Proof.
  destruct o as [k cw cr [ty|]|w' r p|w'|w' n' ty|w' n'|w' e' f t ty|w' f e'|k v]; cbn [wr slot_warp]; intros H;
    try (cbn in H; congruence).
  - destruct (slot_eqb (SNatt w n) (SInst cw)) eqn:E0; [cbn in E0; discriminate|].
    destruct (slot_eqb (SNatt w n) (SNode cw cr)) eqn:E2; [cbn in E2; discriminate|].
    destruct (slot_eqb (SNatt w n) (att_slot k)) eqn:E1; [|congruence].
    apply slot_eqb_spec in E1. left. exists k, cw, cr, ty. auto.
  - destruct (N.eqb_spec w w'); [subst; auto|congruence].
  - destruct (slot_eqb (SNatt w n) (SNatt w' n')) eqn:E1; [|cbn in H; congruence].
    apply slot_eqb_spec in E1. inversion E1; subst. auto.
  - destruct (slot_eqb (SNatt w n) (att_slot k)) eqn:E1; [|congruence].
    apply slot_eqb_spec in E1. right; right; right. exists k, v. auto.
Qed.

Lemma wr_eatt_inv o w e : wr o (SEatt w e) <> None ->
  (exists k cw cr ty, o = OpenPortal k cw cr (Some ty) /\ att_slot k = SEatt w e) \/ o = DeleteWI w \/
  (exists f, o = DeleteEdge w f e) \/ (exists k v, o = SetAtt k v /\ att_slot k = SEatt w e).
Proof.
  destruct o as [k cw cr [ty|]|w' r p|w'|w' n' ty|w' n'|w' e' f t ty|w' f e'|k v]; cbn [wr slot_warp]; intros H;
    try (cbn in H; congruence).
  - destruct (slot_eqb (SEatt w e) (SInst cw)) eqn:E0; [cbn in E0; discriminate|].
    destruct (slot_eqb (SEatt w e) (SNode cw cr)) eqn:E2; [cbn in E2; discriminate|].
    destruct (slot_eqb (SEatt w e) (att_slot k)) eqn:E1; [|congruence].
    apply slot_eqb_spec in E1. left. exists k, cw, cr, ty. auto.
  - destruct (N.eqb_spec w w'); [subst; auto|congruence].
  - destruct (slot_eqb (SEatt w e) (SEatt w' e')) eqn:E1; [|cbn in H; congruence].
    apply slot_eqb_spec in E1. inversion E1; subst. eauto.
  - destruct (slot_eqb (SEatt w e) (att_slot k)) eqn:E1; [|congruence].
    apply slot_eqb_spec in E1. right; right; right. exists k, v. auto.
Qed.

(* order-free cases: every writer of the slot writes the same value *)
Lemma fold_wr_same l : forall f sl c,
  (forall o, In o l -> wr o sl = None \/ wr o sl = Some c) ->
  fold_wr l f sl = f sl \/ fold_wr l f sl = c.
Proof.
  induction l as [|x l IH] using rev_ind; intros f sl c H; [left; reflexivity|].
  rewrite fold_wr_app. cbn [fold_wr]. unfold upd.
  destruct (H x) as [E|E]; [apply in_or_app; right; left; reflexivity| |]; rewrite E.
  - apply IH. intros o Hin. apply H, in_or_app; left; exact Hin.
  - right; reflexivity.
Qed.

Lemma fold_wr_stable l f sl :
  (forall o, In o l -> wr o sl = None \/ wr o sl = Some (f sl)) -> fold_wr l f sl = f sl.
Proof. intros H. destruct (fold_wr_same l f sl (f sl) H); assumption. Qed.

Lemma fold_wr_const l : forall f sl c o,
  In o l -> wr o sl = Some c ->
  (forall o', In o' l -> wr o' sl = None \/ wr o' sl = Some c) ->
  fold_wr l f sl = c.
Proof.
  induction l as [|x l IH] using rev_ind; intros f sl c o Hin Hw H; [destruct Hin|].
  rewrite fold_wr_app. cbn [fold_wr]. unfold upd.
  destruct (H x) as [E|E]; [apply in_or_app; right; left; reflexivity| |]; rewrite E; [|reflexivity].
  apply in_app_or in Hin. destruct Hin as [Hin|[<-|[]]]; [|congruence].
  apply (IH f sl c o Hin Hw). intros o' Hin'. apply H, in_or_app; left; exact Hin'.
Qed.

Lemma final_stable D f sl :
  (forall o, In o D -> wr o sl = None \/ wr o sl = Some (f sl)) -> fold_wr (sort_ops D) f sl = f sl.
Proof. intros H. apply fold_wr_stable. intros o Hin. apply H, sort_ops_in, Hin. Qed.

Lemma final_const D f sl c o :
  In o D -> wr o sl = Some c ->
  (forall o', In o' D -> wr o' sl = None \/ wr o' sl = Some c) ->
  fold_wr (sort_ops D) f sl = c.
Proof.
  intros Hin Hw H. apply (fold_wr_const _ f sl c o); [apply sort_ops_in, Hin|exact Hw|].
  intros o' Hin'. apply H, sort_ops_in, Hin'.
Qed.

Lemma att_for_key_natt b k w n q : att_slot k = SNatt w n -> get_store b w = Some q ->
  att_for_key b k = nfind n (s_natt q).
Proof.
  intros Hk G. apply att_slot_natt in Hk. destruct Hk as (He & Hw & Hn). unfold att_for_key.
  rewrite Hw, G, He, Hn. reflexivity.
Qed.

Lemma att_for_key_eatt b k w e q : att_slot k = SEatt w e -> get_store b w = Some q ->
  att_for_key b k = nfind e (s_eatt q).
Proof.
  intros Hk G. apply att_slot_eatt in Hk. destruct Hk as (He & Hw & Hn). unfold att_for_key.
  rewrite Hw, G, He, Hn. reflexivity.
Qed.

Lemma bstore_owned a w : Owned a -> store_owned (bstore a w).
Proof.
  intros HO. unfold bstore. destruct (get_store a w) eqn:G; [apply (HO w s G)|].
  split; intros x H; discriminate.
Qed.

(* ------------------------------------------------------------------ the value every slot ends with *)

Section Final.
  Variables a b : state.
  Hypothesis Ha : Struct a.
  Hypothesis Hb : Struct b.

  Let D := diff_raw a b.

  Lemma portal_facts k cw cr i : In (OpenPortal k cw cr i) D ->
    get_inst a cw = None /\ get_inst b cw = Some (cr, Some k) /\ att_for_key b k = Some (Descend cw) /\
    exists ty cs, i = Some ty /\ get_store b cw = Some cs /\ nfind cr (s_nodes cs) = Some ty.
  Proof.
    intros H. apply (inD_open_portal a b Ha Hb) in H. destruct H as (m & Hg & Hp).
    apply portal_of_spec in Hp. destruct Hp as (Hn & pk & cs & ty & pw & H1 & H2 & H3 & H4 & _ & E).
    inversion E; subst. destruct m as [r p]; cbn in *. subst p.
    split; [apply nmem_false, Hn|]. split; [exact Hg|]. split; [exact H2|]. eauto.
  Qed.

  Lemma portal_owner_pre k cw cr i : In (OpenPortal k cw cr i) D -> exists pw, validate_owner a k = Ok pw.
  Proof.
    intros H. apply (inD_open_portal a b Ha Hb) in H. destruct H as (m & Hg & Hp).
    apply portal_of_spec in Hp. destruct Hp as (Hn & pk & cs & ty & pw & H1 & H2 & H3 & H4 & H5 & E).
    inversion E; subst. eauto.
  Qed.

  Lemma portal_child_unique k1 k2 cw cr1 cr2 i1 i2 :
    In (OpenPortal k1 cw cr1 i1) D -> In (OpenPortal k2 cw cr2 i2) D ->
    OpenPortal k1 cw cr1 i1 = OpenPortal k2 cw cr2 i2.
  Proof.
    intros H1 H2. apply (inD_open_portal a b Ha Hb) in H1, H2.
    destruct H1 as (m1 & G1 & P1), H2 as (m2 & G2 & P2). rewrite G1 in G2. inversion G2; subst. congruence.
  Qed.

  Lemma portal_in_pops k cw cr i : In (OpenPortal k cw cr i) D <-> In (OpenPortal k cw cr i) (portal_ops a b).
  Proof.
    split.
    - intros H. apply (inD_open_portal a b Ha Hb) in H. destruct H as (m & Hg & Hp).
      apply (in_portal_ops a b _ (proj1 (proj2 Hb))). eauto.
    - intros H. apply (in_diff_raw a b _ Hb). left; exact H.
  Qed.

  Lemma not_none_dec {A} (x : option A) : {x = None} + {x <> None}.
  Proof. destruct x; [right; discriminate|left; reflexivity]. Qed.

  Ltac by_writer o c :=
    apply (final_writer D _ _ o c); [| |].

  Lemma final_inst w : fold_wr (sort_ops D) (look a) (SInst w) = look b (SInst w).
  Proof.
    cbn [look]. destruct (get_inst b w) as [[r p]|] eqn:Gb; cbn [option_map].
    - destruct (get_inst a w) as [ma|] eqn:Ga.
      + destruct (imeta_eqb ma (r, p)) eqn:Em.
        * apply imeta_eqb_spec in Em. subst ma. rewrite final_none; [cbn; rewrite Ga; reflexivity|].
          intros o Hin. destruct (not_none_dec (wr o (SInst w))) as [E|E]; [exact E|exfalso].
          apply wr_inst_inv in E. destruct E as [(k & cr & ty & ->)|[(r' & p' & ->)| ->]].
          -- apply portal_facts in Hin. destruct Hin as (H & _). congruence.
          -- apply (inD_upsert_wi a b Ha Hb) in Hin. destruct Hin as (H1 & [(H2 & _)|(mb & H2 & H3)]); congruence.
          -- apply (inD_delete_wi a b Ha Hb) in Hin. destruct Hin as (_ & H). apply nmem_false in H.
             unfold get_inst in Gb. congruence.
        * assert (Hne : ma <> (r, p)) by (intros ->; rewrite (proj2 (imeta_eqb_spec _ _) eq_refl) in Em; discriminate).
          apply (final_writer D _ _ (UpsertWI w r p) (Some (VInst (r, p)))).
          -- apply (inD_upsert_wi a b Ha Hb). split; [exact Gb|]. right. eauto.
          -- cbn [wr]. rewrite slot_eqb_refl. reflexivity.
          -- intros o' Hin E. apply wr_inst_inv in E. destruct E as [(k & cr & ty & ->)|[(r' & p' & ->)| ->]].
             ++ apply portal_facts in Hin. destruct Hin as (H & _). congruence.
             ++ apply (inD_upsert_wi a b Ha Hb) in Hin. destruct Hin as (H1 & _). rewrite Gb in H1.
                inversion H1; subst. split; [apply ople_refl|]. intros _. cbn [wr]. rewrite slot_eqb_refl. reflexivity.
             ++ apply (inD_delete_wi a b Ha Hb) in Hin. destruct Hin as (_ & H). apply nmem_false in H.
                unfold get_inst in Gb. congruence.
      + destruct (in_dec N.eq_dec w (portal_warps (portal_ops a b))) as [Hpw|Hpw].
        * apply in_portal_warps in Hpw. destruct Hpw as (k & cr & i & Hp). apply portal_in_pops in Hp.
          pose proof (portal_facts _ _ _ _ Hp) as (_ & Hgb & _ & ty & cs & -> & _). rewrite Gb in Hgb.
          inversion Hgb; subst.
          apply (final_writer D _ _ (OpenPortal k w cr (Some ty)) (Some (VInst (cr, Some k)))).
          -- exact Hp.
          -- cbn [wr]. rewrite slot_eqb_refl. reflexivity.
          -- intros o' Hin E. apply wr_inst_inv in E. destruct E as [(k' & cr' & ty' & ->)|[(r' & p' & ->)| ->]].
             ++ rewrite (portal_child_unique _ _ _ _ _ _ _ Hin Hp). split; [apply ople_refl|].
                intros _. cbn [wr]. rewrite slot_eqb_refl. reflexivity.
             ++ apply (inD_upsert_wi a b Ha Hb) in Hin. destruct Hin as (H1 & [(_ & H2)|(mb & H2 & _)]); [|congruence].
                exfalso. apply H2. apply in_portal_warps. exists k, cr, (Some ty). apply portal_in_pops, Hp.
             ++ apply (inD_delete_wi a b Ha Hb) in Hin. destruct Hin as (H & _). apply nmem_true in H.
                destruct H as [x H]. unfold get_inst in Ga. congruence.
        * apply (final_writer D _ _ (UpsertWI w r p) (Some (VInst (r, p)))).
          -- apply (inD_upsert_wi a b Ha Hb). split; [exact Gb|]. left. auto.
          -- cbn [wr]. rewrite slot_eqb_refl. reflexivity.
          -- intros o' Hin E. apply wr_inst_inv in E. destruct E as [(k & cr & ty & ->)|[(r' & p' & ->)| ->]].
             ++ exfalso. apply Hpw. apply in_portal_warps. exists k, cr, (Some ty). apply portal_in_pops, Hin.
             ++ apply (inD_upsert_wi a b Ha Hb) in Hin. destruct Hin as (H1 & _). rewrite Gb in H1.
                inversion H1; subst. split; [apply ople_refl|]. intros _. cbn [wr]. rewrite slot_eqb_refl. reflexivity.
             ++ apply (inD_delete_wi a b Ha Hb) in Hin. destruct Hin as (H & _). apply nmem_true in H.
                destruct H as [x H]. unfold get_inst in Ga. congruence.
    - destruct (get_inst a w) as [ma|] eqn:Ga.
      + apply (final_writer D _ _ (DeleteWI w) None).
        * apply (inD_delete_wi a b Ha Hb). split; [apply nmem_true; eauto|apply nmem_false; exact Gb].
        * cbn [wr slot_warp]. rewrite N.eqb_refl. reflexivity.
        * intros o' Hin E. apply wr_inst_inv in E. destruct E as [(k & cr & ty & ->)|[(r' & p' & ->)| ->]].
          -- apply portal_facts in Hin. destruct Hin as (_ & H & _). congruence.
          -- apply (inD_upsert_wi a b Ha Hb) in Hin. destruct Hin as (H1 & _). congruence.
          -- split; [apply ople_refl|]. intros _. cbn [wr slot_warp]. rewrite N.eqb_refl. reflexivity.
      + rewrite final_none; [cbn; rewrite Ga; reflexivity|].
        intros o Hin. destruct (not_none_dec (wr o (SInst w))) as [E|E]; [exact E|exfalso].
        apply wr_inst_inv in E. destruct E as [(k & cr & ty & ->)|[(r' & p' & ->)| ->]].
        * apply portal_facts in Hin. destruct Hin as (_ & H & _). congruence.
        * apply (inD_upsert_wi a b Ha Hb) in Hin. destruct Hin as (H1 & _). congruence.
        * apply (inD_delete_wi a b Ha Hb) in Hin. destruct Hin as (H & _). apply nmem_true in H.
          destruct H as [x H]. unfold get_inst in Ga. congruence.
  Qed.

  Lemma look_bstore sl : match sl with SInst _ => True | _ => look a sl = slook (bstore a (slot_warp sl)) sl end.
  Proof.
    destruct sl; cbn [look slot_warp]; auto; unfold bstore; destruct (get_store a w); try reflexivity.
  Qed.

  Lemma store_inst_b w q : get_store b w = Some q -> exists m, get_inst b w = Some m.
  Proof.
    intros H. destruct (get_inst b w) eqn:G; [eauto|]. apply (sync_store_inst b w Hb) in G. congruence.
  Qed.

  Lemma no_store_no_inst_b w : get_store b w = None -> get_inst b w = None.
  Proof. apply (sync_store_inst b w Hb). Qed.

  Lemma delete_wi_absurd w q : get_store b w = Some q -> ~ In (DeleteWI w) D.
  Proof.
    intros G H. apply (inD_delete_wi a b Ha Hb) in H. destruct H as (_ & H). apply nmem_false in H.
    destruct (store_inst_b w q G) as [m Hm]. unfold get_inst in Hm. congruence.
  Qed.

  (* a slot of an instance that does not exist afterwards *)
  Lemma final_gone sl : get_store b (slot_warp sl) = None ->
    match sl with SInst _ => True | _ => fold_wr (sort_ops D) (look a) sl = None end.
  Proof.
    intros Gb. pose proof (no_store_no_inst_b _ Gb) as Gi.
    assert (Hstore : forall o, In o D -> wr o sl <> None ->
              match sl with SInst _ => True | _ => o = DeleteWI (slot_warp sl) end).
    { intros o Hin E. destruct sl as [w|w n|w e|w n|w e]; auto; cbn [slot_warp] in *.
      - apply wr_node_inv in E. destruct E as [(k & ty & ->)|[->|[(ty & ->)| ->]]]; auto; exfalso.
        + apply portal_facts in Hin. destruct Hin as (_ & H & _). congruence.
        + apply (inD_upsert_node a b Ha Hb) in Hin. destruct Hin as (q & H & _). congruence.
        + apply (inD_delete_node a b Ha Hb) in Hin. destruct Hin as (q & H & _). congruence.
      - apply wr_edge_inv in E. destruct E as [->|[(f & t & ty & ->)|(f & ->)]]; auto; exfalso.
        + apply (inD_upsert_edge a b Ha Hb) in Hin. destruct Hin as (q & H & _). congruence.
        + apply (inD_delete_edge a b Ha Hb) in Hin. destruct Hin as (q & rp & H & _). congruence.
      - apply wr_natt_inv in E. destruct E as [(k & cw & cr & ty & -> & Hk)|[->|[->|(k & v & -> & Hk)]]]; auto; exfalso.
        + apply portal_facts in Hin. destruct Hin as (_ & _ & H & _). apply att_slot_natt in Hk.
          destruct Hk as (_ & Hw & _). unfold att_for_key in H. rewrite Hw, Gb in H. discriminate.
        + apply (inD_delete_node a b Ha Hb) in Hin. destruct Hin as (q & H & _). congruence.
        + apply (inD_set_att a b Ha Hb) in Hin. destruct Hin as (w' & q & H & [(n' & -> & _)|(e' & rq' & -> & _)]).
          * apply att_slot_natt in Hk. cbn in Hk. destruct Hk as (_ & -> & _). congruence.
          * apply att_slot_natt in Hk. cbn in Hk. destruct Hk as (Hk & _). discriminate.
      - apply wr_eatt_inv in E. destruct E as [(k & cw & cr & ty & -> & Hk)|[->|[(f & ->)|(k & v & -> & Hk)]]]; auto; exfalso.
        + apply portal_facts in Hin. destruct Hin as (_ & _ & H & _). apply att_slot_eatt in Hk.
          destruct Hk as (_ & Hw & _). unfold att_for_key in H. rewrite Hw, Gb in H. discriminate.
        + apply (inD_delete_edge a b Ha Hb) in Hin. destruct Hin as (q & rp & H & _). congruence.
        + apply (inD_set_att a b Ha Hb) in Hin. destruct Hin as (w' & q & H & [(n' & -> & _)|(e' & rq' & -> & _)]).
          * apply att_slot_eatt in Hk. cbn in Hk. destruct Hk as (Hk & _). discriminate.
          * apply att_slot_eatt in Hk. cbn in Hk. destruct Hk as (_ & -> & _). congruence. }
    destruct sl as [w|w n|w e|w n|w e]; auto; cbn [slot_warp] in *.
    all: destruct (get_inst a w) as [ma|] eqn:Ga;
      [ apply (final_writer D _ _ (DeleteWI w) None);
        [ apply (inD_delete_wi a b Ha Hb); split; [apply nmem_true; eauto|apply nmem_false; exact Gi]
        | cbn [wr slot_warp]; rewrite N.eqb_refl; reflexivity
        | intros o' Hin E; rewrite (Hstore o' Hin E); split; [apply ople_refl|];
          intros _; cbn [wr slot_warp]; rewrite N.eqb_refl; reflexivity ]
      | rewrite final_none;
        [ cbn [look slot_warp]; apply (sync_store_inst a w Ha) in Ga; rewrite Ga; reflexivity
        | intros o Hin;
          match goal with |- wr o ?sl = None => destruct (not_none_dec (wr o sl)) as [E|E] end; [exact E|exfalso];
          pose proof (Hstore o Hin E) as Ho; cbn in Ho; subst o;
          apply (inD_delete_wi a b Ha Hb) in Hin; destruct Hin as (H & _); apply nmem_true in H;
          destruct H as [x H]; unfold get_inst in Ga; congruence ] ].
  Qed.

  Lemma final_node w n : fold_wr (sort_ops D) (look a) (SNode w n) = look b (SNode w n).
  Proof.
    cbn [look slot_warp]. destruct (get_store b w) as [q|] eqn:Gb.
    2:{ apply (final_gone (SNode w n)). exact Gb. }
    cbn [slook]. pose proof (look_bstore (SNode w n)) as La. cbn [slot_warp slook] in La.
    destruct (mem_nk w n (skn_of a b)) eqn:Esk.
    - pose proof (mem_nk_true _ _ _ Esk) as Hin.
      apply in_skip_nodes in Hin. destruct Hin as (k & i & Hp). apply portal_in_pops in Hp.
      pose proof (portal_facts _ _ _ _ Hp) as (_ & _ & _ & ty & cs & -> & Hcs & Hty). rewrite Gb in Hcs.
      inversion Hcs; subst cs. rewrite Hty. cbn [option_map].
      apply (final_writer D _ _ (OpenPortal k w n (Some ty)) (Some (VNode ty))).
      + exact Hp.
      + cbn [wr]. rewrite slot_eqb_refl. reflexivity.
      + intros o' Hin E. apply wr_node_inv in E. destruct E as [(k' & ty' & ->)|[->|[(ty' & ->)| ->]]].
        * rewrite (portal_child_unique _ _ _ _ _ _ _ Hin Hp). split; [apply ople_refl|].
          intros _. cbn [wr]. rewrite slot_eqb_refl. reflexivity.
        * exfalso. eapply delete_wi_absurd; eauto.
        * apply (inD_upsert_node a b Ha Hb) in Hin. destruct Hin as (? & _ & _ & _ & H). congruence.
        * apply (inD_delete_node a b Ha Hb) in Hin. destruct Hin as (? & _ & _ & _ & H). congruence.
    - assert (Hnp : forall k ty, ~ In (OpenPortal k w n (Some ty)) D).
      { intros k ty H. apply portal_in_pops in H. apply mem_nk_false in Esk. apply Esk.
        apply in_skip_nodes. eauto. }
      destruct (nfind n (s_nodes q)) as [ty|] eqn:Eq; cbn [option_map].
      + destruct (opt_eqb N.eqb (nfind n (s_nodes (bstore a w))) (Some ty)) eqn:Ea.
        * apply (opt_eqb_spec N.eqb N.eqb_eq) in Ea.
          rewrite final_none; [rewrite La, Ea; reflexivity|].
          intros o Hin. destruct (not_none_dec (wr o (SNode w n))) as [E|E]; [exact E|exfalso].
          apply wr_node_inv in E. destruct E as [(k' & ty' & ->)|[->|[(ty' & ->)| ->]]].
          -- eapply Hnp; eauto.
          -- eapply delete_wi_absurd; eauto.
          -- apply (inD_upsert_node a b Ha Hb) in Hin. destruct Hin as (q' & G & H1 & H2 & _).
             rewrite Gb in G. inversion G; subst. congruence.
          -- apply (inD_delete_node a b Ha Hb) in Hin. destruct Hin as (q' & G & _ & H1 & _).
             rewrite Gb in G. inversion G; subst. congruence.
        * assert (Hne : nfind n (s_nodes (bstore a w)) <> Some ty).
          { intros H. rewrite H in Ea. cbn in Ea. rewrite N.eqb_refl in Ea. discriminate. }
          apply (final_writer D _ _ (UpsertNode w n ty) (Some (VNode ty))).
          -- apply (inD_upsert_node a b Ha Hb). exists q. auto.
          -- cbn [wr]. rewrite slot_eqb_refl. reflexivity.
          -- intros o' Hin E. apply wr_node_inv in E. destruct E as [(k' & ty' & ->)|[->|[(ty' & ->)| ->]]].
             ++ exfalso. eapply Hnp; eauto.
             ++ exfalso. eapply delete_wi_absurd; eauto.
             ++ apply (inD_upsert_node a b Ha Hb) in Hin. destruct Hin as (q' & G & H1 & _).
                rewrite Gb in G. inversion G; subst. rewrite Eq in H1. inversion H1; subst.
                split; [apply ople_refl|]. intros _. cbn [wr]. rewrite slot_eqb_refl. reflexivity.
             ++ apply (inD_delete_node a b Ha Hb) in Hin. destruct Hin as (q' & G & _ & H1 & _).
                rewrite Gb in G. inversion G; subst. congruence.
      + destruct (nmem n (s_nodes (bstore a w))) eqn:Ea.
        * apply (final_writer D _ _ (DeleteNode w n) None).
          -- apply (inD_delete_node a b Ha Hb). exists q. auto.
          -- cbn [wr]. rewrite slot_eqb_refl. reflexivity.
          -- intros o' Hin E. apply wr_node_inv in E. destruct E as [(k' & ty' & ->)|[->|[(ty' & ->)| ->]]].
             ++ exfalso. eapply Hnp; eauto.
             ++ exfalso. eapply delete_wi_absurd; eauto.
             ++ apply (inD_upsert_node a b Ha Hb) in Hin. destruct Hin as (q' & G & H1 & _).
                rewrite Gb in G. inversion G; subst. congruence.
             ++ split; [apply ople_refl|]. intros _. cbn [wr]. rewrite slot_eqb_refl. reflexivity.
        * apply nmem_false in Ea. rewrite final_none; [rewrite La, Ea; reflexivity|].
          intros o Hin. destruct (not_none_dec (wr o (SNode w n))) as [E|E]; [exact E|exfalso].
          apply wr_node_inv in E. destruct E as [(k' & ty' & ->)|[->|[(ty' & ->)| ->]]].
          -- eapply Hnp; eauto.
          -- eapply delete_wi_absurd; eauto.
          -- apply (inD_upsert_node a b Ha Hb) in Hin. destruct Hin as (q' & G & H1 & _).
             rewrite Gb in G. inversion G; subst. congruence.
          -- apply (inD_delete_node a b Ha Hb) in Hin. destruct Hin as (q' & G & H1 & _).
             apply nmem_true in H1. destruct H1 as [x H1]. congruence.
  Qed.

  Lemma final_edge w e : fold_wr (sort_ops D) (look a) (SEdge w e) = look b (SEdge w e).
  Proof.
    cbn [look slot_warp]. destruct (get_store b w) as [q|] eqn:Gb.
    2:{ apply (final_gone (SEdge w e)). exact Gb. }
    cbn [slook]. pose proof (look_bstore (SEdge w e)) as La. cbn [slot_warp slook] in La.
    destruct (nfind e (s_edges q)) as [rq|] eqn:Eq; cbn [option_map].
    - destruct (opt_eqb erec_eqb (nfind e (s_edges (bstore a w))) (Some rq)) eqn:Ea.
      + apply (opt_eqb_spec erec_eqb erec_eqb_spec) in Ea.
        rewrite final_none; [rewrite La, Ea; reflexivity|].
        intros o Hin. destruct (not_none_dec (wr o (SEdge w e))) as [E|E]; [exact E|exfalso].
        apply wr_edge_inv in E. destruct E as [->|[(f & t & ty & ->)|(f & ->)]].
        * eapply delete_wi_absurd; eauto.
        * apply (inD_upsert_edge a b Ha Hb) in Hin. destruct Hin as (q' & G & H1 & H2).
          rewrite Gb in G. inversion G; subst. congruence.
        * apply (inD_delete_edge a b Ha Hb) in Hin. destruct Hin as (q' & rp & G & H1 & H2 & H3).
          rewrite Gb in G. inversion G; subst. rewrite Ea in H1. inversion H1; subst.
          destruct H3 as [H3|(rq' & H3 & H4)]; [congruence|]. rewrite Eq in H3. inversion H3; subst.
          apply recreated_neq in H4. congruence.
      + assert (Hne : nfind e (s_edges (bstore a w)) <> Some rq).
        { intros H. rewrite H in Ea. cbn in Ea. rewrite (proj2 (erec_eqb_spec rq rq) eq_refl) in Ea. discriminate. }
        destruct rq as [[f t] ty].
        apply (final_writer D _ _ (UpsertEdge w e f t ty) (Some (VEdge (f, t, ty)))).
        * apply (inD_upsert_edge a b Ha Hb). exists q. auto.
        * cbn [wr]. rewrite slot_eqb_refl. reflexivity.
        * intros o' Hin E. apply wr_edge_inv in E. destruct E as [->|[(f' & t' & ty' & ->)|(f' & ->)]].
          -- exfalso. eapply delete_wi_absurd; eauto.
          -- apply (inD_upsert_edge a b Ha Hb) in Hin. destruct Hin as (q' & G & H1 & _).
             rewrite Gb in G. inversion G; subst. rewrite Eq in H1. inversion H1; subst.
             split; [apply ople_refl|]. intros _. cbn [wr]. rewrite slot_eqb_refl. reflexivity.
          -- split; [apply ople_kind; reflexivity|]. intros Hk. apply key_eq_kind in Hk. discriminate Hk.
    - destruct (nfind e (s_edges (bstore a w))) as [rp|] eqn:Ea.
      + apply (final_writer D _ _ (DeleteEdge w (e_from rp) e) None).
        * apply (inD_delete_edge a b Ha Hb). exists q, rp. auto.
        * cbn [wr]. rewrite slot_eqb_refl. reflexivity.
        * intros o' Hin E. apply wr_edge_inv in E. destruct E as [->|[(f' & t' & ty' & ->)|(f' & ->)]].
          -- exfalso. eapply delete_wi_absurd; eauto.
          -- apply (inD_upsert_edge a b Ha Hb) in Hin. destruct Hin as (q' & G & H1 & _).
             rewrite Gb in G. inversion G; subst. congruence.
          -- apply (inD_delete_edge a b Ha Hb) in Hin. destruct Hin as (q' & rp' & G & H1 & H2 & _).
             rewrite Ea in H1. inversion H1; subst. split; [apply ople_refl|].
             intros _. cbn [wr]. rewrite slot_eqb_refl. reflexivity.
      + rewrite final_none; [rewrite La; reflexivity|].
        intros o Hin. destruct (not_none_dec (wr o (SEdge w e))) as [E|E]; [exact E|exfalso].
        apply wr_edge_inv in E. destruct E as [->|[(f & t & ty & ->)|(f & ->)]].
        * eapply delete_wi_absurd; eauto.
        * apply (inD_upsert_edge a b Ha Hb) in Hin. destruct Hin as (q' & G & H1 & H2).
          rewrite Gb in G. inversion G; subst. congruence.
        * apply (inD_delete_edge a b Ha Hb) in Hin. destruct Hin as (q' & rp & G & H1 & _). congruence.
  Qed.

  Hypothesis Oa : Owned a.
  Hypothesis Ob : Owned b.

  (* writers of an attachment slot other than DeleteNode/DeleteEdge, when the instance survives *)
  Lemma portal_writes_b k cw cr ty sl q :
    In (OpenPortal k cw cr (Some ty)) D -> att_slot k = sl -> get_store b (slot_warp sl) = Some q ->
    match sl with
    | SNatt _ n => nfind n (s_natt q) = Some (Descend cw)
    | SEatt _ e => nfind e (s_eatt q) = Some (Descend cw)
    | _ => True
    end.
  Proof.
    intros Hin Hk G. apply portal_facts in Hin. destruct Hin as (_ & _ & H & _).
    destruct sl; auto; cbn [slot_warp] in G.
    - rewrite (att_for_key_natt b k w n q Hk G) in H. exact H.
    - rewrite (att_for_key_eatt b k w e q Hk G) in H. exact H.
  Qed.

  Lemma wr_portal_att k cw cr ty : slot_warp (att_slot k) <> cw ->
    wr (OpenPortal k cw cr (Some ty)) (att_slot k) = Some (Some (VAtt (Descend cw))).
  Proof.
    intros Hne. cbn [wr]. rewrite slot_eqb_refl.
    destruct (att_slot_shape k) as [(w & n & E)|(w & e & E)]; rewrite E in *; cbn [slot_eqb]; reflexivity.
  Qed.

  Lemma final_natt w n : fold_wr (sort_ops D) (look a) (SNatt w n) = look b (SNatt w n).
  Proof.
    cbn [look slot_warp]. destruct (get_store b w) as [q|] eqn:Gb.
    2:{ apply (final_gone (SNatt w n)). exact Gb. }
    cbn [slook]. pose proof (look_bstore (SNatt w n)) as La. cbn [slot_warp slook] in La.
    set (vb := nfind n (s_natt q)). set (va := nfind n (s_natt (bstore a w))) in *.
    (* what each possible writer writes *)
    assert (Hport : forall k cw cr ty, In (OpenPortal k cw cr (Some ty)) D -> att_slot k = SNatt w n ->
              wr (OpenPortal k cw cr (Some ty)) (SNatt w n) = Some (option_map VAtt vb)).
    { intros k cw cr ty Hin Hk. pose proof (portal_writes_b _ _ _ _ _ q Hin Hk Gb) as Hv. cbn in Hv.
      unfold vb. rewrite Hv. cbn [option_map]. rewrite <- Hk. cbn [wr]. rewrite slot_eqb_refl.
      rewrite Hk. reflexivity. }
    assert (Hset : forall k v, In (SetAtt k v) D -> att_slot k = SNatt w n ->
              k = node_alpha w n /\ v = vb /\ nmem n (s_nodes q) = true /\ va <> vb /\
              mem_key (node_alpha w n) (ska_of a b) = false).
    { intros k v Hin Hk. apply (inD_set_att a b Ha Hb) in Hin.
      destruct Hin as (w' & q' & G & [(n' & -> & -> & H1 & H2 & Hsk)|(e' & rq' & -> & _)]).
      - apply att_slot_natt in Hk. cbn in Hk. destruct Hk as (_ & -> & ->).
        rewrite Gb in G. inversion G; subst q'. auto.
      - apply att_slot_natt in Hk. cbn in Hk. destruct Hk as (Hk & _). discriminate. }
    destruct (nmem n (s_nodes q)) eqn:Enq.
    - assert (Hnd : ~ In (DeleteNode w n) D).
      { intros H. apply (inD_delete_node a b Ha Hb) in H. destruct H as (q' & G & _ & H & _).
        rewrite Gb in G. inversion G; subst. apply nmem_true in Enq. destruct Enq as [x Hx]. congruence. }
      destruct (opt_eqb att_eqb va vb) eqn:Eab.
      + apply opt_att_eqb_spec in Eab. rewrite final_stable; [rewrite La; fold va; rewrite Eab; reflexivity|].
        intros o Hin. destruct (not_none_dec (wr o (SNatt w n))) as [E|E]; [left; exact E|right].
        apply wr_natt_inv in E. destruct E as [(k & cw & cr & ty & -> & Hk)|[->|[->|(k & v & -> & Hk)]]].
        * rewrite (Hport _ _ _ _ Hin Hk), La. fold va. rewrite Eab. reflexivity.
        * exfalso. eapply delete_wi_absurd; eauto.
        * contradiction.
        * destruct (Hset _ _ Hin Hk) as (_ & _ & _ & H & _). contradiction.
      + apply opt_att_eqb_false in Eab. destruct (mem_key (node_alpha w n) (ska_of a b)) eqn:Esk.
        * pose proof (mem_key_true _ _ Esk) as Esk'. apply in_skip_atts in Esk'. destruct Esk' as (cw & cr & i & Hp).
          apply portal_in_pops in Hp. pose proof (portal_facts _ _ _ _ Hp) as (_ & _ & _ & ty & cs & -> & _).
          apply (final_const D _ _ _ (OpenPortal (node_alpha w n) cw cr (Some ty))).
          -- exact Hp.
          -- apply Hport; [exact Hp|reflexivity].
          -- intros o Hin. destruct (not_none_dec (wr o (SNatt w n))) as [E|E]; [left; exact E|right].
             apply wr_natt_inv in E. destruct E as [(k' & cw' & cr' & ty' & -> & Hk)|[->|[->|(k' & v & -> & Hk)]]].
             ++ apply Hport; assumption.
             ++ exfalso. eapply delete_wi_absurd; eauto.
             ++ contradiction.
             ++ destruct (Hset _ _ Hin Hk) as (_ & _ & _ & _ & H). congruence.
        * apply (final_writer D _ _ (SetAtt (node_alpha w n) vb) (option_map VAtt vb)).
          -- apply (inD_set_att a b Ha Hb). exists w, q. split; [exact Gb|]. left.
             exists n. repeat split; auto.
          -- cbn [wr]. unfold att_slot; cbn. rewrite !N.eqb_refl. reflexivity.
          -- intros o' Hin E. apply wr_natt_inv in E.
             destruct E as [(k' & cw' & cr' & ty' & -> & Hk)|[->|[->|(k' & v & -> & Hk)]]].
             ++ split; [apply ople_kind; reflexivity|]. intros Hkk. apply key_eq_kind in Hkk. discriminate Hkk.
             ++ exfalso. eapply delete_wi_absurd; eauto.
             ++ contradiction.
             ++ destruct (Hset _ _ Hin Hk) as (-> & -> & _). split; [apply ople_refl|].
                intros _. cbn [wr]. unfold att_slot; cbn. rewrite !N.eqb_refl. reflexivity.
    - assert (Hvb : vb = None).
      { unfold vb. destruct (nfind n (s_natt q)) eqn:E; [|reflexivity]. exfalso.
        destruct (Ob w q Gb) as [H _]. assert (nmem n (s_natt q) = true) by (apply nmem_true; eauto).
        rewrite (H n) in Enq by assumption. discriminate. }
      rewrite Hvb. cbn [option_map].
      assert (Hall : forall o, In o D -> wr o (SNatt w n) = None \/ wr o (SNatt w n) = Some None).
      { intros o Hin. destruct (not_none_dec (wr o (SNatt w n))) as [E|E]; [left; exact E|right].
        apply wr_natt_inv in E. destruct E as [(k & cw & cr & ty & -> & Hk)|[->|[->|(k & v & -> & Hk)]]].
        - rewrite (Hport _ _ _ _ Hin Hk), Hvb. reflexivity.
        - exfalso. eapply delete_wi_absurd; eauto.
        - cbn [wr]. rewrite slot_eqb_refl, orb_true_r. reflexivity.
        - destruct (Hset _ _ Hin Hk) as (_ & _ & H & _). congruence. }
      destruct va as [x|] eqn:Eva.
      + apply (final_const D _ _ _ (DeleteNode w n)); [| |exact Hall].
        * apply (inD_delete_node a b Ha Hb). exists q. split; [exact Gb|].
          assert (Hown : nmem n (s_nodes (bstore a w)) = true).
          { destruct (bstore_owned a w Oa) as [H _]. apply H. apply nmem_true. exists x. exact Eva. }
          split; [exact Hown|]. split; [apply nmem_false; exact Enq|].
          destruct (mem_nk w n (skn_of a b)) eqn:Esk; [|reflexivity]. exfalso.
          apply mem_nk_true in Esk. apply in_skip_nodes in Esk. destruct Esk as (k & i & Hp).
          apply portal_in_pops in Hp. apply portal_facts in Hp. destruct Hp as (Hia & _).
          apply (sync_store_inst a w Ha) in Hia. unfold bstore in Hown. rewrite Hia in Hown. discriminate.
        * cbn [wr]. rewrite slot_eqb_refl, orb_true_r. reflexivity.
      + rewrite final_stable; [rewrite La; reflexivity|]. rewrite La. exact Hall.
  Qed.

  Lemma final_eatt w e : fold_wr (sort_ops D) (look a) (SEatt w e) = look b (SEatt w e).
  Proof.
    cbn [look slot_warp]. destruct (get_store b w) as [q|] eqn:Gb.
    2:{ apply (final_gone (SEatt w e)). exact Gb. }
    cbn [slook]. pose proof (look_bstore (SEatt w e)) as La. cbn [slot_warp slook] in La.
    set (vb := nfind e (s_eatt q)). set (va := nfind e (s_eatt (bstore a w))) in *.
    assert (Hport : forall k cw cr ty, In (OpenPortal k cw cr (Some ty)) D -> att_slot k = SEatt w e ->
              wr (OpenPortal k cw cr (Some ty)) (SEatt w e) = Some (option_map VAtt vb)).
    { intros k cw cr ty Hin Hk. pose proof (portal_writes_b _ _ _ _ _ q Hin Hk Gb) as Hv. cbn in Hv.
      unfold vb. rewrite Hv. cbn [option_map]. rewrite <- Hk. cbn [wr]. rewrite slot_eqb_refl.
      rewrite Hk. reflexivity. }
    assert (Hset : forall k v, In (SetAtt k v) D -> att_slot k = SEatt w e ->
              k = edge_beta w e /\ v = vb /\ exists rq, nfind e (s_edges q) = Some rq /\
              (recreated_with_value (bstore a w) q e rq = true \/
               (va <> vb /\ mem_key (edge_beta w e) (ska_of a b) = false))).
    { intros k v Hin Hk. apply (inD_set_att a b Ha Hb) in Hin.
      destruct Hin as (w' & q' & G & [(n' & -> & _)|(e' & rq' & -> & -> & H1 & H2)]).
      - apply att_slot_eatt in Hk. cbn in Hk. destruct Hk as (Hk & _). discriminate.
      - apply att_slot_eatt in Hk. cbn in Hk. destruct Hk as (_ & -> & ->).
        rewrite Gb in G. inversion G; subst q'. split; [reflexivity|]. split; [reflexivity|]. eauto. }
    assert (Hdel : forall f, wr (DeleteEdge w f e) (SEatt w e) = Some None).
    { intros f. cbn [wr]. rewrite slot_eqb_refl, orb_true_r. reflexivity. }
    assert (Hwset : wr (SetAtt (edge_beta w e) vb) (SEatt w e) = Some (option_map VAtt vb)).
    { cbn [wr]. unfold att_slot; cbn. rewrite !N.eqb_refl. reflexivity. }
    destruct (nfind e (s_edges q)) as [rq|] eqn:Eq.
    - (* the edge exists afterwards *)
      assert (Hsetmax : In (SetAtt (edge_beta w e) vb) D ->
                fold_wr (sort_ops D) (look a) (SEatt w e) = option_map VAtt vb).
      { intros HinS. apply (final_writer D _ _ (SetAtt (edge_beta w e) vb) (option_map VAtt vb)); [exact HinS|exact Hwset|].
        intros o' Hin E. apply wr_eatt_inv in E.
        destruct E as [(k' & cw' & cr' & ty' & -> & Hk)|[->|[(f' & ->)|(k' & v & -> & Hk)]]].
        - split; [apply ople_kind; reflexivity|]. intros Hkk. apply key_eq_kind in Hkk. discriminate Hkk.
        - exfalso. eapply delete_wi_absurd; eauto.
        - split; [apply ople_kind; reflexivity|]. intros Hkk. apply key_eq_kind in Hkk. discriminate Hkk.
        - destruct (Hset _ _ Hin Hk) as (-> & -> & _). split; [apply ople_refl|]. intros _. exact Hwset. }
      destruct (recreated_with_value (bstore a w) q e rq) eqn:Erw.
      { apply Hsetmax. apply (inD_set_att a b Ha Hb). exists w, q. split; [exact Gb|]. right.
        exists e, rq. repeat split; auto. }
      (* edges that are never deleted by the diff *)
      assert (Hkeep : (forall f, ~ In (DeleteEdge w f e) D) ->
                fold_wr (sort_ops D) (look a) (SEatt w e) = option_map VAtt vb).
      { intros Hnd. destruct (opt_eqb att_eqb va vb) eqn:Eab.
        - apply opt_att_eqb_spec in Eab. rewrite final_stable; [rewrite La; fold va; rewrite Eab; reflexivity|].
          intros o Hin. destruct (not_none_dec (wr o (SEatt w e))) as [E|E]; [left; exact E|right].
          apply wr_eatt_inv in E. destruct E as [(k & cw & cr & ty & -> & Hk)|[->|[(f & ->)|(k & v & -> & Hk)]]].
          + rewrite (Hport _ _ _ _ Hin Hk), La. fold va. rewrite Eab. reflexivity.
          + exfalso. eapply delete_wi_absurd; eauto.
          + exfalso. eapply Hnd; eauto.
          + destruct (Hset _ _ Hin Hk) as (_ & _ & rq' & Eq' & [H|[H _]]); [|contradiction].
            inversion Eq'; subst. congruence.
        - apply opt_att_eqb_false in Eab. destruct (mem_key (edge_beta w e) (ska_of a b)) eqn:Esk.
          + pose proof (mem_key_true _ _ Esk) as Esk'. apply in_skip_atts in Esk'. destruct Esk' as (cw & cr & i & Hp).
            apply portal_in_pops in Hp. pose proof (portal_facts _ _ _ _ Hp) as (_ & _ & _ & ty & cs & -> & _).
            apply (final_const D _ _ _ (OpenPortal (edge_beta w e) cw cr (Some ty))).
            * exact Hp.
            * apply Hport; [exact Hp|reflexivity].
            * intros o Hin. destruct (not_none_dec (wr o (SEatt w e))) as [E|E]; [left; exact E|right].
              apply wr_eatt_inv in E. destruct E as [(k' & cw' & cr' & ty' & -> & Hk)|[->|[(f & ->)|(k' & v & -> & Hk)]]].
              -- apply Hport; assumption.
              -- exfalso. eapply delete_wi_absurd; eauto.
              -- exfalso. eapply Hnd; eauto.
              -- destruct (Hset _ _ Hin Hk) as (_ & _ & rq' & Eq' & [H|[_ H]]); [|congruence].
                 inversion Eq'; subst. congruence.
          + apply Hsetmax. apply (inD_set_att a b Ha Hb). exists w, q. split; [exact Gb|]. right.
            exists e, rq. repeat split; auto. }
      destruct (nfind e (s_edges (bstore a w))) as [rp|] eqn:Ep.
      2:{ apply Hkeep. intros f H. apply (inD_delete_edge a b Ha Hb) in H.
          destruct H as (q' & rp & _ & H & _). congruence. }
      destruct (recreated q rp rq) eqn:Erc.
      + (* recreated without a value afterwards: DeleteEdge leaves the slot empty *)
        assert (Hvb : vb = None).
        { unfold recreated_with_value in Erw. rewrite Ep, Erc, andb_true_r in Erw. unfold vb.
          destruct (nfind e (s_eatt q)); [discriminate|reflexivity]. }
        rewrite Hvb. cbn [option_map].
        apply (final_const D _ _ _ (DeleteEdge w (e_from rp) e)).
        * apply (inD_delete_edge a b Ha Hb). exists q, rp. repeat split; auto. right. eauto.
        * apply Hdel.
        * intros o Hin. destruct (not_none_dec (wr o (SEatt w e))) as [E|E]; [left; exact E|right].
          apply wr_eatt_inv in E. destruct E as [(k' & cw' & cr' & ty' & -> & Hk)|[->|[(f & ->)|(k' & v & -> & Hk)]]].
          -- rewrite (Hport _ _ _ _ Hin Hk), Hvb. reflexivity.
          -- exfalso. eapply delete_wi_absurd; eauto.
          -- apply Hdel.
          -- destruct (Hset _ _ Hin Hk) as (-> & -> & _). rewrite Hwset, Hvb. reflexivity.
      + apply Hkeep. intros f H. apply (inD_delete_edge a b Ha Hb) in H.
        destruct H as (q' & rp' & G & H1 & _ & H3). rewrite Gb in G. inversion G; subst q'.
        rewrite Ep in H1. inversion H1; subst rp'.
        destruct H3 as [H3|(rq' & H3 & H4)]; [congruence|]. rewrite Eq in H3. inversion H3; subst. congruence.
    - (* the edge does not exist afterwards *)
      assert (Hvb : vb = None).
      { unfold vb. destruct (nfind e (s_eatt q)) eqn:E; [|reflexivity]. exfalso.
        destruct (Ob w q Gb) as [_ H]. assert (nmem e (s_eatt q) = true) by (apply nmem_true; eauto).
        apply H in H0. apply nmem_true in H0. destruct H0 as [x Hx]. congruence. }
      rewrite Hvb. cbn [option_map].
      assert (Hall : forall o, In o D -> wr o (SEatt w e) = None \/ wr o (SEatt w e) = Some None).
      { intros o Hin. destruct (not_none_dec (wr o (SEatt w e))) as [E|E]; [left; exact E|right].
        apply wr_eatt_inv in E. destruct E as [(k & cw & cr & ty & -> & Hk)|[->|[(f & ->)|(k & v & -> & Hk)]]].
        - rewrite (Hport _ _ _ _ Hin Hk), Hvb. reflexivity.
        - exfalso. eapply delete_wi_absurd; eauto.
        - apply Hdel.
        - destruct (Hset _ _ Hin Hk) as (_ & _ & rq' & H & _). congruence. }
      destruct va as [x|] eqn:Eva.
      + assert (Hown : nmem e (s_edges (bstore a w)) = true).
        { destruct (bstore_owned a w Oa) as [_ H]. apply H. apply nmem_true. exists x. exact Eva. }
        apply nmem_true in Hown. destruct Hown as [rp Hrp].
        apply (final_const D _ _ _ (DeleteEdge w (e_from rp) e)); [|apply Hdel|exact Hall].
        apply (inD_delete_edge a b Ha Hb). exists q, rp. auto.
      + rewrite final_stable; [rewrite La; reflexivity|]. rewrite La. exact Hall.
  Qed.

  (* the purely functional half of exactness: whatever a successful replay computes is the after state *)
  Theorem fold_diff_is_after sl : fold_wr (diff a b) (look a) sl = look b sl.
  Proof.
    unfold diff. fold D. destruct sl.
    - apply final_inst.
    - apply final_node.
    - apply final_edge.
    - apply final_natt.
    - apply final_eatt.
  Qed.
End Final.
