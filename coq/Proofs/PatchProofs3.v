(* C04: the diff is canonical (strictly increasing sort keys), hence the patch constructor is the identity on it. *)
From Coq Require Import List NArith Lia Bool Permutation Sorted.
From Echo Require Import Base.FinMap Base.Order Model.Patch Proofs.PatchProofs Proofs.PatchProofs2.
Import ListNotations.
Open Scope N_scope.

Definition kwarp (k : opkey) : N := fst (snd k).
Definition ka (k : opkey) : N := fst (snd (snd k)).
Definition kb (k : opkey) : N := snd (snd (snd k)).
Definition kkind (k : opkey) : N := fst k.

Lemma NoDup_map_app {A K} (f : A -> K) l1 l2 :
  NoDup (map f l1) -> NoDup (map f l2) -> (forall x y, In x l1 -> In y l2 -> f x <> f y) ->
  NoDup (map f (l1 ++ l2)).
Proof.
  intros H1 H2 Hd. rewrite map_app. induction l1 as [|a l1 IH]; cbn; [exact H2|].
  inversion H1 as [|a' l' Hni Hnd]; subst. constructor.
  - rewrite in_app_iff. intros [H|H]; [contradiction|].
    apply in_map_iff in H. destruct H as [y [E Hy]]. apply (Hd a y); [left; reflexivity|exact Hy|congruence].
  - apply IH; [exact Hnd|]. intros x y Hx Hy. apply Hd; [right; exact Hx|exact Hy].
Qed.

(* flat_map over a sorted map where every produced key carries the entry's id in component [proj] *)
Lemma NoDup_keys_flat_map {V} (proj : opkey -> N) (g : N * V -> list op) (m : list (N * V)) :
  nsorted m ->
  (forall kv, In kv m -> NoDup (map sort_key (g kv))) ->
  (forall kv x, In kv m -> In x (g kv) -> proj (sort_key x) = fst kv) ->
  NoDup (map sort_key (flat_map g m)).
Proof.
  intros Hs. pose proof (nsorted_NoDup m Hs) as Hnd. clear Hs.
  induction m as [|kv m IH]; intros H1 H2; cbn; [constructor|].
  inversion Hnd as [|k l Hni Hnd']; subst. apply NoDup_map_app.
  - apply H1; left; reflexivity.
  - apply IH; [exact Hnd'| |]; intros; [apply H1|apply H2]; try (right; assumption); assumption.
  - intros x y Hx Hy E. apply in_flat_map in Hy. destruct Hy as [kv' [Hin Hy]].
    apply Hni. apply in_map_iff. exists kv'. split; [|exact Hin].
    rewrite <- (H2 kv' y (or_intror Hin) Hy), <- E. apply H2; [left; reflexivity|exact Hx].
Qed.

Lemma NoDup_single_or_nil {A} (l : list A) : (length l <= 1)%nat -> NoDup l.
Proof.
  destruct l as [|x [|y l]]; cbn; intros H; [constructor|constructor; [intros []|constructor]|lia].
Qed.

(* tagN separates the four (owner, plane) combinations *)
Lemma tagN_inj k1 k2 : tagN k1 = tagN k2 -> ak_edge k1 = ak_edge k2 /\ ak_beta k1 = ak_beta k2.
Proof.
  unfold tagN. destruct (ak_edge k1), (ak_beta k1), (ak_edge k2), (ak_beta k2); intros H; auto;
    exfalso; vm_compute in H; discriminate H.
Qed.

Lemma att_key_inj k1 k2 :
  ak_warp k1 = ak_warp k2 -> tagN k1 = tagN k2 -> ak_id k1 = ak_id k2 -> k1 = k2.
Proof.
  intros H1 H2 H3. apply tagN_inj in H2. destruct H2 as [H2 H4].
  destruct k1, k2; cbn in *; subst; reflexivity.
Qed.

Section Canon.
  Variables a b : state.
  Hypothesis Ha : Struct a.
  Hypothesis Hb : Struct b.

  Lemma portal_ops_nodup : NoDup (map sort_key (portal_ops a b)).
  Proof.
    destruct Hb as (_ & Hs & _). unfold portal_ops.
    pose proof (nsorted_NoDup _ Hs) as Hnd. revert Hnd.
    assert (Hall : forall wm, In wm (st_insts b) -> In wm (st_insts b)) by auto. revert Hall.
    generalize (st_insts b) at 1 3 4 as m. induction m as [|wm m IH]; intros Hall Hnd; cbn; [constructor|].
    inversion Hnd as [|k l Hni Hnd']; subst. apply NoDup_map_app.
    - destruct (portal_of a b wm); [constructor; [intros []|constructor]|constructor].
    - apply IH; [intros; apply Hall; right; assumption|exact Hnd'].
    - intros x y Hx Hy E. apply in_flat_map in Hy. destruct Hy as [wm' [Hin Hy]].
      destruct (portal_of a b wm) as [ox|] eqn:P1; [destruct Hx as [<-|[]]|destruct Hx].
      destruct (portal_of a b wm') as [oy|] eqn:P2; [destruct Hy as [<-|[]]|destruct Hy].
      destruct wm as [w1 m1], wm' as [w2 m2].
      apply portal_of_spec in P1, P2.
      destruct P1 as (_ & pk1 & cs1 & ty1 & pw1 & _ & A1 & _ & _ & _ & ->).
      destruct P2 as (_ & pk2 & cs2 & ty2 & pw2 & _ & A2 & _ & _ & _ & ->).
      cbn [sort_key] in E. inversion E as [[E1 E2 E3]].
      rewrite (att_key_inj pk1 pk2 E1 E2 E3) in A1. rewrite A1 in A2. inversion A2; subst w2.
      apply Hni. apply in_map_iff. exists (w1, m2). split; [reflexivity|exact Hin].
  Qed.

  Lemma inst_deletes_nodup : NoDup (map sort_key (inst_deletes a b)).
  Proof.
    destruct Ha as (_ & Hs & _). unfold inst_deletes. apply (NoDup_keys_flat_map kwarp); [exact Hs| |].
    - intros kv _. destruct (nmem (fst kv) (st_insts b)); [constructor|constructor; [intros []|constructor]].
    - intros kv x _ Hx. destruct (nmem (fst kv) (st_insts b)); [destruct Hx|]. destruct Hx as [<-|[]]. reflexivity.
  Qed.

  Lemma inst_upserts_nodup pw : NoDup (map sort_key (inst_upserts a b pw)).
  Proof.
    destruct Hb as (_ & Hs & _). unfold inst_upserts. apply (NoDup_keys_flat_map kwarp); [exact Hs| |].
    - intros kv _. cbv zeta. destruct (get_inst a (fst kv)).
      + destruct (imeta_eqb _ _); [constructor|constructor; [intros []|constructor]].
      + destruct (existsb _ _); [constructor|constructor; [intros []|constructor]].
    - intros kv x _ Hx. cbv zeta in Hx. destruct (get_inst a (fst kv)).
      + destruct (imeta_eqb _ _); [destruct Hx|]. destruct Hx as [<-|[]]. reflexivity.
      + destruct (existsb _ _); [destruct Hx|]. destruct Hx as [<-|[]]. reflexivity.
  Qed.
End Canon.

Section InstCanon.
  Variables (w : N) (p q : store) (skn : list (N * N)) (ska : list akey).
  Hypothesis Hp : store_sorted p.
  Hypothesis Hq : store_sorted q.

  Ltac one_or_none := repeat match goal with
    | |- NoDup (map _ (if ?c then _ else _)) => destruct c
    | |- NoDup (map _ (match ?c with _ => _ end)) => destruct c
    end; cbn; try constructor; try (intros []); try constructor.

  Lemma diff_nodes_shape x : In x (diff_nodes w p q skn) ->
    (exists n, x = DeleteNode w n) \/ (exists n ty, x = UpsertNode w n ty).
  Proof.
    intros H. apply (in_diff_nodes w p q skn Hp Hq) in H. destruct H as (n & _ & [(-> & _)|(ty & -> & _)]); eauto.
  Qed.

  Lemma diff_nodes_nodup : NoDup (map sort_key (diff_nodes w p q skn)).
  Proof.
    destruct Hp as (Ap & _). destruct Hq as (Aq & _).
    unfold diff_nodes. apply NoDup_map_app.
    - apply (NoDup_keys_flat_map ka); [exact Ap| |].
      + intros kv _. cbv zeta. one_or_none.
      + intros kv x _ Hx. cbv zeta in Hx. destruct (mem_nk w (fst kv) skn); [destruct Hx|].
        destruct (nfind (fst kv) (s_nodes q)).
        * destruct (_ =? _); [destruct Hx|]. destruct Hx as [<-|[]]. reflexivity.
        * destruct Hx as [<-|[]]. reflexivity.
    - apply (NoDup_keys_flat_map ka); [exact Aq| |].
      + intros kv _. cbv zeta. one_or_none.
      + intros kv x _ Hx. cbv zeta in Hx. destruct (mem_nk w (fst kv) skn); [destruct Hx|].
        destruct (nmem (fst kv) (s_nodes p)); [destruct Hx|]. destruct Hx as [<-|[]]. reflexivity.
    - intros x y Hx Hy E. apply in_flat_map in Hx, Hy.
      destruct Hx as [[n1 t1] [I1 Hx]], Hy as [[n2 t2] [I2 Hy]]. cbn [fst snd] in Hx, Hy.
      destruct (mem_nk w n2 skn); [destruct Hy|]. destruct (nmem n2 (s_nodes p)) eqn:Em; [destruct Hy|].
      destruct Hy as [<-|[]]. apply nmem_false in Em. apply (in_find_iff _ _ _ Ap) in I1.
      assert (n1 = n2); [|subst; congruence].
      destruct (mem_nk w n1 skn); [destruct Hx|]. destruct (nfind n1 (s_nodes q)).
      + destruct (_ =? _); [destruct Hx|]. destruct Hx as [<-|[]]. cbn in E. inversion E; reflexivity.
      + destruct Hx as [<-|[]]. cbn in E. inversion E.
  Qed.

  Lemma diff_node_atts_nodup : NoDup (map sort_key (diff_node_atts w p q ska)).
  Proof.
    destruct Hq as (Aq & _). unfold diff_node_atts. apply (NoDup_keys_flat_map kb); [exact Aq| |].
    - intros kv _. cbv zeta. one_or_none.
    - intros kv x _ Hx. cbv zeta in Hx. destruct (opt_eqb _ _ _); [destruct Hx|].
      destruct (mem_key _ ska); [destruct Hx|]. destruct Hx as [<-|[]]. reflexivity.
  Qed.

  Lemma diff_edge_atts_nodup : NoDup (map sort_key (diff_edge_atts w p q ska)).
  Proof.
    destruct Hq as (_ & Bq & _). unfold diff_edge_atts. apply (NoDup_keys_flat_map kb); [exact Bq| |].
    - intros kv _. cbv zeta. one_or_none.
    - intros kv x _ Hx. cbv zeta in Hx. destruct (opt_eqb _ _ _ && _); [destruct Hx|].
      destruct (mem_key _ ska && _); [destruct Hx|]. destruct Hx as [<-|[]]. reflexivity.
  Qed.

  Lemma diff_edges_nodup : NoDup (map sort_key (diff_edges w p q)).
  Proof.
    destruct Hp as (_ & Bp & _). destruct Hq as (_ & Bq & _).
    unfold diff_edges. apply NoDup_map_app.
    - apply (NoDup_keys_flat_map kb); [exact Bp| |].
      + intros kv _. one_or_none.
      + intros kv x _ Hx. destruct (nmem (fst kv) (s_edges q)); [destruct Hx|]. destruct Hx as [<-|[]]. reflexivity.
    - apply (NoDup_keys_flat_map kb); [exact Bq| |].
      + intros kv _. cbv zeta. destruct (nfind (fst kv) (s_edges p)) as [rb|]; [|one_or_none].
        destruct (erec_eqb rb (snd kv)); [constructor|].
        destruct (recreated q rb (snd kv)); cbn; [|one_or_none].
        constructor; [|one_or_none]. intros [E|[]]. inversion E.
      + intros kv x _ Hx. cbv zeta in Hx. destruct (nfind (fst kv) (s_edges p)) as [rb|].
        * destruct (erec_eqb rb (snd kv)); [destruct Hx|]. apply in_app_or in Hx. destruct Hx as [Hx|[<-|[]]]; [|reflexivity].
          destruct (recreated q rb (snd kv)); [|destruct Hx]. destruct Hx as [<-|[]]. reflexivity.
        * destruct Hx as [<-|[]]. reflexivity.
    - intros x y Hx Hy E. apply in_flat_map in Hx, Hy.
      destruct Hx as [[e1 r1] [I1 Hx]], Hy as [[e2 r2] [I2 Hy]]. cbn [fst snd] in Hx, Hy.
      destruct (nmem e1 (s_edges q)) eqn:Em; [destruct Hx|]. destruct Hx as [<-|[]].
      apply nmem_false in Em. apply (in_find_iff _ _ _ Bq) in I2.
      assert (e1 = e2); [|subst; congruence].
      destruct (nfind e2 (s_edges p)) as [rb|].
      + destruct (erec_eqb rb r2); [destruct Hy|]. apply in_app_or in Hy. destruct Hy as [Hy|[<-|[]]].
        * destruct (recreated q rb r2); [|destruct Hy]. destruct Hy as [<-|[]]. cbn in E. inversion E; reflexivity.
        * cbn in E. inversion E.
      + destruct Hy as [<-|[]]. cbn in E. inversion E.
  Qed.

  Lemma diff_instance_nodup : NoDup (map sort_key (diff_instance w p q skn ska)).
  Proof.
    unfold diff_instance. apply NoDup_map_app; [apply diff_nodes_nodup| |].
    - apply NoDup_map_app; [apply diff_node_atts_nodup| |].
      + apply NoDup_map_app; [apply diff_edges_nodup|apply diff_edge_atts_nodup|].
        intros x y Hx Hy E. apply (in_diff_edges w p q Hp Hq) in Hx. apply (in_diff_edge_atts w p q ska Hq) in Hy.
        destruct Hy as (e & rq0 & -> & _). destruct Hx as [(? & ? & _ & -> & _)|(? & ? & _ & -> & _)]; cbn in E; inversion E.
      + intros x y Hx Hy E. apply (in_diff_node_atts w p q ska Hq) in Hx. destruct Hx as (n & -> & _).
        apply in_app_or in Hy. destruct Hy as [Hy|Hy].
        * apply (in_diff_edges w p q Hp Hq) in Hy.
          destruct Hy as [(? & ? & _ & -> & _)|(? & ? & _ & -> & _)]; cbn in E; inversion E.
        * apply (in_diff_edge_atts w p q ska Hq) in Hy. destruct Hy as (e & rq0 & -> & _). cbn in E.
          inversion E.
    - intros x y Hx Hy E. apply diff_nodes_shape in Hx.
      apply in_app_or in Hy. destruct Hy as [Hy|Hy].
      + apply (in_diff_node_atts w p q ska Hq) in Hy. destruct Hy as (n & -> & _).
        destruct Hx as [(? & ->)|(? & ? & ->)]; cbn in E; inversion E.
      + apply in_app_or in Hy. destruct Hy as [Hy|Hy].
        * apply (in_diff_edges w p q Hp Hq) in Hy.
          destruct Hy as [(? & ? & _ & -> & _)|(? & ? & _ & -> & _)];
            destruct Hx as [(? & ->)|(? & ? & ->)]; cbn in E; inversion E.
        * apply (in_diff_edge_atts w p q ska Hq) in Hy. destruct Hy as (e & rq0 & -> & _).
          destruct Hx as [(? & ->)|(? & ? & ->)]; cbn in E; inversion E.
  Qed.

  Lemma diff_instance_warp x : In x (diff_instance w p q skn ska) ->
    kwarp (sort_key x) = w /\ 4 <= kkind (sort_key x).
  Proof.
    intros H. apply in_diff_instance in H. destruct H as [H|[H|[H|H]]].
    - apply diff_nodes_shape in H. destruct H as [(? & ->)|(? & ? & ->)]; cbn; split; [reflexivity|lia|reflexivity|lia].
    - apply (in_diff_node_atts w p q ska Hq) in H. destruct H as (n & -> & _). cbn; split; [reflexivity|lia].
    - apply (in_diff_edges w p q Hp Hq) in H.
      destruct H as [(? & ? & _ & -> & _)|(? & ? & _ & -> & _)]; cbn; split; [reflexivity|lia|reflexivity|lia].
    - apply (in_diff_edge_atts w p q ska Hq) in H. destruct H as (e & rq0 & -> & _). cbn; split; [reflexivity|lia].
  Qed.
End InstCanon.

Section Canon2.
  Variables a b : state.
  Hypothesis Ha : Struct a.
  Hypothesis Hb : Struct b.

  Lemma diff_raw_nodup : NoDup (map sort_key (diff_raw a b)).
  Proof.
    pose proof Hb as (Sb & Ib & _).
    unfold diff_raw. cbv zeta. apply NoDup_map_app; [apply (portal_ops_nodup a b Hb)| |].
    - apply NoDup_map_app; [apply (inst_deletes_nodup a b Ha)| |].
      + apply NoDup_map_app; [apply (inst_upserts_nodup a b Hb)| |].
        * apply (NoDup_keys_flat_map kwarp); [exact Sb| |].
          -- intros [w q] Hin. apply diff_instance_nodup; [apply bstore_sorted, Ha|].
             apply (Struct_store b w q Hb). apply n_in_f; assumption.
          -- intros [w q] x Hin Hx. cbn [fst snd] in *.
             eapply (diff_instance_warp w _ q); [apply bstore_sorted, Ha| |exact Hx].
             apply (Struct_store b w q Hb). apply n_in_f; assumption.
        * intros x y Hx Hy E. apply (in_inst_upserts a b _ _ Ib) in Hx. destruct Hx as (? & ? & ? & -> & _).
          apply in_flat_map in Hy. destruct Hy as [[w q] [Hin Hy]].
          eapply (diff_instance_warp w _ q) in Hy; [| apply bstore_sorted, Ha
            | apply (Struct_store b w q Hb); apply n_in_f; assumption].
          destruct Hy as [_ Hy]. rewrite <- E in Hy. cbn in Hy. lia.
      + intros x y Hx Hy E. apply (in_inst_deletes a b _ (proj1 (proj2 Ha))) in Hx. destruct Hx as (? & -> & _).
        apply in_app_or in Hy. destruct Hy as [Hy|Hy].
        * apply (in_inst_upserts a b _ _ Ib) in Hy. destruct Hy as (? & ? & ? & -> & _). cbn in E. inversion E.
        * apply in_flat_map in Hy. destruct Hy as [[w q] [Hin Hy]].
          eapply (diff_instance_warp w _ q) in Hy; [| apply bstore_sorted, Ha
            | apply (Struct_store b w q Hb); apply n_in_f; assumption].
          destruct Hy as [_ Hy]. rewrite <- E in Hy. cbn in Hy. lia.
    - intros x y Hx Hy E. apply (portal_ops_shape a b _ Ib) in Hx. destruct Hx as (? & ? & ? & ? & ->).
      apply in_app_or in Hy. destruct Hy as [Hy|Hy].
      + apply (in_inst_deletes a b _ (proj1 (proj2 Ha))) in Hy. destruct Hy as (? & -> & _). cbn in E. inversion E.
      + apply in_app_or in Hy. destruct Hy as [Hy|Hy].
        * apply (in_inst_upserts a b _ _ Ib) in Hy. destruct Hy as (? & ? & ? & -> & _). cbn in E. inversion E.
        * apply in_flat_map in Hy. destruct Hy as [[w q] [Hin Hy]].
          eapply (diff_instance_warp w _ q) in Hy; [| apply bstore_sorted, Ha
            | apply (Struct_store b w q Hb); apply n_in_f; assumption].
          destruct Hy as [_ Hy]. rewrite <- E in Hy. cbn in Hy. lia.
  Qed.
End Canon2.

(* ------------------------------------------------------------------ strictly sorted *)

Lemma sorted_nodup_strict l : StronglySorted ople l -> NoDup (map sort_key l) ->
  StronglySorted key_lt (map sort_key l).
Proof.
  induction l as [|x r IH]; cbn; intros HS Hnd; [constructor|].
  inversion HS as [|x' r' HSr HF]; subst. inversion Hnd as [|k l Hni Hnd']; subst.
  constructor; [apply IH; assumption|].
  rewrite Forall_forall in *. intros ky Hy. apply in_map_iff in Hy. destruct Hy as [y [<- Hy]].
  specialize (HF y Hy). unfold ople in HF. unfold key_lt.
  destruct (key_cmp (sort_key x) (sort_key y)) eqn:E; [|reflexivity|congruence].
  exfalso. apply (ol_eq _ key_order) in E. apply Hni. rewrite E. apply in_map, Hy.
Qed.

Theorem diff_strictly_sorted a b : Struct a -> Struct b ->
  StronglySorted key_lt (map sort_key (diff a b)).
Proof.
  intros Ha Hb. unfold diff. apply sorted_nodup_strict; [apply sort_ops_sorted|].
  eapply Permutation_NoDup; [apply Permutation_map, sort_ops_perm|]. apply diff_raw_nodup; assumption.
Qed.

(* WarpTickPatchV1::new on a strictly sorted op list changes nothing *)
Lemma set_append {V} (cmp : opkey -> opkey -> comparison) (L : OrderLaws cmp) k (v : V) m :
  (forall kv, In kv m -> cmp (fst kv) k = Lt) -> set cmp k v m = m ++ [(k, v)].
Proof.
  induction m as [|[k' v'] m IH]; cbn; intros H; [reflexivity|].
  pose proof (H (k', v') (or_introl eq_refl)) as Hlt. cbn in Hlt.
  rewrite (ol_antisym cmp L), Hlt. cbn. f_equal. apply IH. intros kv Hin. apply H. right; exact Hin.
Qed.

Lemma fold_set_sorted (l : list op) : forall m,
  StronglySorted key_lt (map fst m ++ map sort_key l) ->
  fold_left (fun m kv => set key_cmp (fst kv) (snd kv) m) (map (fun o => (sort_key o, o)) l) m =
  m ++ map (fun o => (sort_key o, o)) l.
Proof.
  induction l as [|o l IH]; intros m HS; cbn; [rewrite app_nil_r; reflexivity|].
  rewrite (set_append key_cmp key_order).
  - rewrite IH; [rewrite <- app_assoc; reflexivity|].
    rewrite map_app. cbn. rewrite <- app_assoc. exact HS.
  - intros kv Hin. clear IH. induction m as [|x m IHm]; [destruct Hin|].
    cbn in HS. inversion HS as [|x' r' HSr HF]; subst. destruct Hin as [<-|Hin].
    + rewrite Forall_forall in HF. apply HF. apply in_or_app. right. left. reflexivity.
    + apply IHm; assumption.
Qed.

Theorem patch_new_id l : StronglySorted key_lt (map sort_key l) -> patch_new l = l.
Proof.
  intros HS. unfold patch_new, of_list_set. rewrite (fold_set_sorted l []) by exact HS.
  cbn. rewrite map_map. cbn. apply map_id.
Qed.

Corollary patch_new_diff a b : Struct a -> Struct b -> patch_new (diff a b) = diff a b.
Proof. intros Ha Hb. apply patch_new_id, diff_strictly_sorted; assumption. Qed.

(* every op of the sorted diff occurs once *)
Lemma diff_nodup a b : Struct a -> Struct b -> NoDup (diff a b).
Proof.
  intros Ha Hb. unfold diff. eapply Permutation_NoDup; [apply sort_ops_perm|].
  eapply NoDup_map_inv. apply diff_raw_nodup; assumption.
Qed.

(* ------------------------------------------------------------------ exactness *)

Lemma diff_ports_fresh a b : Struct a -> Struct b -> ports_fresh (diff a b) (look a).
Proof.
  intros Ha Hb pre k cw cr init post E.
  assert (Hin : In (OpenPortal k cw cr init) (diff_raw a b)).
  { apply sort_ops_in. fold (diff a b). rewrite E. apply in_or_app. right. left. reflexivity. }
  pose proof (portal_facts a b Ha Hb _ _ _ _ Hin) as (Hia & _ & _ & ty & cs & -> & _).
  split; [discriminate|].
  rewrite fold_wr_none; [cbn; rewrite Hia; reflexivity|].
  intros o Hino. destruct (not_none_dec (wr o (SInst cw))) as [Ew|Ew]; [exact Ew|exfalso].
  assert (HinD : In o (diff_raw a b)).
  { apply sort_ops_in. fold (diff a b). rewrite E. apply in_or_app. left. exact Hino. }
  (* o comes before the portal in a sorted list *)
  assert (Hle : ople o (OpenPortal k cw cr (Some ty))).
  { pose proof (sort_ops_sorted (diff_raw a b)) as HS. fold (diff a b) in HS. rewrite E in HS.
    clear -HS Hino. induction pre as [|x pre IH]; [destruct Hino|].
    cbn in HS. inversion HS as [|x' r' HSr HF]; subst. destruct Hino as [<-|Hino]; [|apply IH; assumption].
    rewrite Forall_forall in HF. apply HF. apply in_or_app. right. left. reflexivity. }
  apply wr_inst_inv in Ew. destruct Ew as [(k' & cr' & ty' & ->)|[(r' & p' & ->)| ->]].
  - pose proof (portal_child_unique a b Ha Hb _ _ _ _ _ _ _ HinD Hin) as Eo. rewrite Eo in Hino.
    pose proof (diff_nodup a b Ha Hb) as Hnd. rewrite E in Hnd. apply NoDup_remove_2 in Hnd.
    apply Hnd. apply in_or_app. left. exact Hino.
  - unfold ople in Hle. cbn in Hle. congruence.
  - unfold ople in Hle. cbn in Hle. congruence.
Qed.

Theorem diff_apply_exact_struct a b s :
  WFs a -> WFs b -> apply_ops (diff a b) a = Ok s -> s = b.
Proof.
  intros Wa Wb Hok. apply WFs_split in Wa, Wb. destruct Wa as [Ha Oa], Wb as [Hb Ob].
  apply apply_ops_loop in Hok. destruct Hok as [t Hok].
  pose proof (apply_loop_Struct _ _ _ _ _ Ha Hok) as Hs.
  apply look_ext; [exact Hs|exact Hb|]. intros sl.
  rewrite (apply_loop_effect _ _ _ _ _ Ha (diff_ports_fresh a b Ha Hb) Hok sl).
  apply fold_diff_is_after; assumption.
Qed.
