(* Lemmas about Model/Wal.v, part 5: fuel irrelevance, record damage on read_segment (C11),
   durability of synced transactions and idempotence of the repair (C10), and the concrete witness
   that a kill during the truncation rewrite loses acknowledged transactions. *)
From Coq Require Import List NArith Lia Bool Arith.
From Echo Require Import Base.Bytes Model.Wal Proofs.WalProofs Proofs.WalProofs2 Proofs.WalProofs3
  Proofs.WalProofs4.
Import ListNotations.
Open Scope N_scope.

Section WithHash.
Variable H : bytes -> N.

(* ------------------------------------------------------------------ fuel *)
Section Fuel.
Context {A : Type}.
Variable dec : N -> bytes -> res A.

Lemma read_loop_fuel f1 : forall f2 bs,
  (length bs <= f1)%nat -> (length bs <= f2)%nat -> read_loop H dec f1 bs = read_loop H dec f2 bs.
Proof.
  induction f1 as [|f1 IH]; intros f2 bs H1 H2.
  - destruct bs; [destruct f2; reflexivity|cbn in H1; lia].
  - destruct bs as [|b bs]; [destruct f2; reflexivity|].
    destruct f2 as [|f2]; [cbn in H2; lia|].
    rewrite !read_loop_S by (cbn; lia). unfold read_body.
    destruct (Nat.ltb (length (b :: bs)) 17); [reflexivity|].
    destruct (negb (bytes_eqb (firstn 8 (b :: bs)) magic)); [reflexivity|].
    destruct (lenN (skipn 17 (b :: bs)) <? from_le (firstn 8 (skipn 9 (b :: bs))) + 32); [reflexivity|].
    destruct (negb _); [reflexivity|].
    destruct (dec _ _); [|reflexivity].
    rewrite (IH f2); [reflexivity| |].
    + rewrite !skipn_length. cbn [length] in *. lia.
    + rewrite !skipn_length. cbn [length] in *. lia.
Qed.
End Fuel.

(* ------------------------------------------------------------------ C11 record_damage on read_segment *)
Theorem record_damage_segment rs r d post :
  Forall (lrec_wf H) rs -> Forall payload_small rs ->
  length d = lrec_size r -> d <> enc_lrec H r ->
  let b' := encode_log H rs ++ d ++ post in
  (exists e, read_segment H b' = Err e) \/
  read_segment H b' = Ok (rs, true) \/
  AcceptsAt H (d ++ post).
Proof.
  intros Hw Hs Hl Hne. cbv zeta.
  assert (E : encode_log H rs = d_log H (map (to_drec) rs)).
  { unfold encode_log, d_log. rewrite flat_map_concat_map, flat_map_concat_map, map_map. reflexivity. }
  assert (Hwf : Forall (d_wf (decode_rec H)) (map to_drec rs)).
  { apply Forall_map. rewrite Forall_forall in *. intros x Hx. unfold d_wf, to_drec, d_kind, d_payload, d_val.
    cbn [fst snd]. split; [destruct x; cbn; lia|]. split; [apply Hs; exact Hx|].
    apply decode_rec_enc. apply Hw. exact Hx. }
  pose proof (record_damage_at H (decode_rec H) (map to_drec rs) (to_drec r) d post
                (length (encode_log H rs ++ d ++ post)) Hwf) as R.
  cbv zeta in R.
  assert (Hfu : forall bs, bs = d_log H (map to_drec rs) ++ d ++ post ->
           read_loop H (decode_rec H) (length (map to_drec rs) + S (length (encode_log H rs ++ d ++ post))) bs =
           read_segment H bs).
  { intros bs ->. unfold read_segment, read_records. apply read_loop_fuel; rewrite <- E; lia. }
  rewrite E in *. rewrite Hfu in R by reflexivity.
  destruct R as [R|[R|R]]; auto.
  - right. left. rewrite R. rewrite map_map. cbn [to_drec d_val snd]. rewrite map_id. reflexivity.
Qed.

(* ------------------------------------------------------------------ C10 durability of synced transactions *)
Notation tx_size := (tx_size H).

Lemma log_bytes_total ts : length (log_bytes H ts) = total tx_size ts.
Proof.
  induction ts as [|t ts IH]; [reflexivity|].
  unfold log_bytes, encode_log in *. rewrite log_recs_cons, flat_map_app, app_length, IH.
  cbn [total]. reflexivity.
Qed.

(* Everything whose commit marker was on disk before the crash point is recovered, in order; the
   rest of what is recovered is a prefix of the transactions still in flight. *)
Theorem synced_transactions_survive sid l0 acked inflight k :
  log_valid H l0 (acked ++ inflight) ->
  Forall (fun f => f_seg f = sid) (log_frames (acked ++ inflight)) ->
  Forall payload_small (log_recs (acked ++ inflight)) ->
  (length (log_bytes H acked) <= k)%nat ->
  exists more tl,
    recover_segment H sid (firstn k (log_bytes H (acked ++ inflight))) =
      Ok (map rtx_of (acked ++ more), tl) /\
    exists rest, inflight = more ++ rest.
Proof.
  intros Hv Hseg Hsm Hk.
  rewrite (recover_segment_prefix H sid l0) by auto.
  rewrite log_bytes_total in Hk.
  rewrite (ww_app_ge tx_size) by exact Hk.
  exists (whole_within tx_size (k - total tx_size acked) inflight), (prefix_tail H k (acked ++ inflight)).
  split; [reflexivity|]. apply ww_prefix.
Qed.

End WithHash.

(* ------------------------------------------------------------------ the repair rewrite is not crash-atomic *)
(* Concrete witness with the toy hash of WalProofs2 (the layout argument does not depend on the
   hash): three committed transactions followed by a torn tail.  The store recovers all three and the
   repair rewrites the segment as "every kept frame, then every kept commit marker".  A process
   killed after the first re-appended record leaves a segment from which NOTHING is recovered. *)
Definition ex_crashed : bytes := firstn (length (log_bytes exH ex_log) + 20) (log_bytes exH (ex_log ++ [ex_t1])).

Lemma repair_kill_witness :
  summarize (recover_store exH ex_crashed) = summarize (Ok (map rtx_of ex_log, TAfter 4)) /\
  summarize (recover_store exH (repair exH ex_crashed)) = summarize (Ok (map rtx_of ex_log, TClean)) /\
  summarize (recover_store exH (firstn (lrec_size (LFrame (hd (mk_frame exH (exP 0) 0 0 0 (1, [])) (w_frames ex_t1))))
                                (repair exH ex_crashed))) = summarize (Ok ([], TAll)).
Proof. vm_compute. repeat split; reflexivity. Qed.

Definition ex_kill_point : nat :=
  lrec_size (LFrame (hd (mk_frame exH (exP 0) 0 0 0 (1, [])) (w_frames ex_t1))).

Lemma repair_kill_exists : exists (H : bytes -> N) (disk : bytes) (m : nat),
  (exists acked tl, acked <> [] /\ recover_store H disk = Ok (acked, tl)) /\
  (m < length (repair H disk))%nat /\
  summarize (recover_store H (firstn m (repair H disk))) = summarize (Ok ([], TAll)).
Proof.
  exists exH, ex_crashed, ex_kill_point. split; [|split].
  - remember (recover_store exH ex_crashed) as v eqn:E. vm_compute in E. subst v.
    eexists. eexists. split; [|reflexivity]. discriminate.
  - apply Nat.ltb_lt. vm_compute. reflexivity.
  - vm_compute. reflexivity.
Qed.
