(* Lemmas about the strand / settlement model (Model/Strand.v). *)
From Coq Require Import List NArith Bool Lia Arith PeanoNat.
From Echo Require Import Base.FinMap Base.Order Model.Strand.
Import ListNotations.
Open Scope N_scope.

(* ------------------------------------------------------------------ association lists *)
Lemma alookup_app_new {A} k (a : A) l : amem k l = false -> alookup k (l ++ [(k, a)]) = Some a.
Proof.
  unfold amem. induction l as [|[k' a'] r IH]; cbn; intros H.
  - rewrite N.eqb_refl; reflexivity.
  - destruct (N.eqb k k') eqn:E; [discriminate|]. apply IH; exact H.
Qed.

Lemma alookup_app_old {A} k k' (a : A) l : k <> k' -> alookup k (l ++ [(k', a)]) = alookup k l.
Proof.
  intros Hne. induction l as [|[k1 a1] r IH]; cbn.
  - destruct (N.eqb k k') eqn:E; [apply N.eqb_eq in E; contradiction|reflexivity].
  - destruct (N.eqb k k1); auto.
Qed.

Lemma alookup_app_some {A} k (x : A) l l' : alookup k l = Some x -> alookup k (l ++ l') = Some x.
Proof.
  induction l as [|[k1 a1] r IH]; cbn; [discriminate|].
  destruct (N.eqb k k1); auto.
Qed.

Lemma alookup_aupdate_same {A} k (a x : A) l : alookup k l = Some x -> alookup k (aupdate k a l) = Some a.
Proof.
  induction l as [|[k1 a1] r IH]; cbn; [discriminate|].
  destruct (N.eqb k k1) eqn:E; cbn; rewrite E; auto.
Qed.

Lemma alookup_aupdate_other {A} k k' (a : A) l : k' <> k -> alookup k' (aupdate k a l) = alookup k' l.
Proof.
  intros Hne. induction l as [|[k1 a1] r IH]; cbn; [reflexivity|].
  destruct (N.eqb k k1) eqn:E; cbn.
  - apply N.eqb_eq in E; subst k1. destruct (N.eqb k' k) eqn:E'; auto.
    apply N.eqb_eq in E'; contradiction.
  - destruct (N.eqb k' k1); auto.
Qed.

Lemma aupdate_id {A} k (x : A) l : alookup k l = Some x -> aupdate k x l = l.
Proof.
  induction l as [|[k1 a1] r IH]; cbn; [reflexivity|].
  destruct (N.eqb k k1) eqn:E; intros H.
  - inversion H; subst. reflexivity.
  - f_equal; auto.
Qed.

Lemma aupdate_aupdate {A} k (a b : A) l : aupdate k b (aupdate k a l) = aupdate k b l.
Proof.
  induction l as [|[k1 a1] r IH]; cbn; [reflexivity|].
  destruct (N.eqb k k1) eqn:E; cbn; rewrite E; [reflexivity|f_equal; exact IH].
Qed.

Lemma amem_aupdate {A} k k' (a : A) l : amem k' (aupdate k a l) = amem k' l.
Proof.
  unfold amem. induction l as [|[k1 a1] r IH]; cbn; [reflexivity|].
  destruct (N.eqb k k1) eqn:E; cbn.
  - destruct (N.eqb k' k1); reflexivity.
  - destruct (N.eqb k' k1); auto.
Qed.

Lemma memN_in x l : memN x l = true <-> In x l.
Proof.
  unfold memN. rewrite existsb_exists. split.
  - intros [y [Hin E]]. apply N.eqb_eq in E; subst; exact Hin.
  - intros H. exists x. split; [exact H|apply N.eqb_refl].
Qed.

Lemma filter_keys_id {A} (l : list (N * A)) keys :
  (forall x, In x l -> memN (fst x) keys = true) -> filter (fun x => memN (fst x) keys) l = l.
Proof.
  induction l as [|x r IH]; cbn; intros H; [reflexivity|].
  rewrite (H x (or_introl eq_refl)). f_equal. apply IH. intros y Hy; apply H; right; exact Hy.
Qed.

Lemma filter_own_keys {A} (l : list (N * A)) : filter (fun x => memN (fst x) (map fst l)) l = l.
Proof.
  apply filter_keys_id. intros x Hx. apply memN_in. apply in_map; exact Hx.
Qed.

Lemma firstnN_app_len {A} (l e : list A) : firstnN (lenN l) (l ++ e) = l.
Proof.
  unfold firstnN, lenN. rewrite Nnat.Nat2N.id.
  rewrite firstn_app, Nat.sub_diag, firstn_all. cbn. apply app_nil_r.
Qed.

Lemma nth_error_firstn_lt {A} (l : list A) : forall n i, (i < n)%nat -> nth_error (firstn n l) i = nth_error l i.
Proof.
  induction l as [|x r IH]; intros n i H.
  - rewrite firstn_nil. reflexivity.
  - destruct n as [|n]; [lia|]. destruct i as [|i]; cbn; [reflexivity|]. apply IH; lia.
Qed.

(* sorted-set insertion keeps exactly the members *)
Lemma sins_in x y l : In y (sins x l) <-> y = x \/ In y l.
Proof.
  induction l as [|z r IH]; cbn; [intuition|].
  destruct (N.compare x z) eqn:E; cbn.
  - apply N.compare_eq in E; subst. intuition.
  - intuition.
  - rewrite IH. intuition.
Qed.

Lemma set_of_in_gen y l acc : In y (fold_left (fun a x => sins x a) l acc) <-> In y l \/ In y acc.
Proof.
  revert acc; induction l as [|x r IH]; intros acc; cbn; [intuition|].
  rewrite IH, sins_in. intuition.
Qed.

Lemma set_of_in y l : In y (set_of l) <-> In y l.
Proof. unfold set_of. rewrite set_of_in_gen. cbn. intuition. Qed.

Lemma memN_set_of y l : memN y (set_of l) = memN y l.
Proof.
  destruct (memN y l) eqn:E.
  - apply memN_in. apply set_of_in. apply memN_in. exact E.
  - destruct (memN y (set_of l)) eqn:E2; [|reflexivity].
    apply (proj1 (memN_in _ _)) in E2. apply (proj1 (set_of_in _ _)) in E2.
    apply (proj2 (memN_in _ _)) in E2. congruence.
Qed.

(* ------------------------------------------------------------------ state *)
Lemma sget_sput st s v s' : sget (sput st s v) s' = if N.eqb s' s then v else sget st s'.
Proof. reflexivity. Qed.

Lemma write_all_frame ws : forall st x, ~ In x (map fst ws) -> sget (write_all st ws) x = sget st x.
Proof.
  unfold write_all. induction ws as [|[s v] r IH]; intros st x Hni; cbn; [reflexivity|].
  rewrite IH by (intro H; apply Hni; right; exact H).
  rewrite sget_sput. destruct (N.eqb x s) eqn:E; [|reflexivity].
  apply N.eqb_eq in E; subst. exfalso; apply Hni; left; reflexivity.
Qed.

(* the result of a write list at a slot depends only on the incoming value at that slot *)
Lemma write_all_agree ws : forall st1 st2 x,
  sget st1 x = sget st2 x -> sget (write_all st1 ws) x = sget (write_all st2 ws) x.
Proof.
  unfold write_all. induction ws as [|[s v] r IH]; intros st1 st2 x H; cbn; [exact H|].
  apply IH. rewrite !sget_sput. destruct (N.eqb x s); auto.
Qed.

Lemma apply_op_frame st o st' x :
  apply_op st o = Some st' -> ~ In x (op_slots o) -> sget st' x = sget st x.
Proof.
  unfold apply_op, op_slots. destruct (forallb (present st) (op_req o)); [|discriminate].
  intros H Hni; inversion H; subst. apply write_all_frame; exact Hni.
Qed.

Lemma apply_ops_frame ops : forall st st' x,
  apply_ops st ops = Some st' -> ~ In x (flat_map op_slots ops) -> sget st' x = sget st x.
Proof.
  induction ops as [|o r IH]; cbn; intros st st' x H Hni.
  - inversion H; reflexivity.
  - destruct (apply_op st o) as [st1|] eqn:E; [|discriminate].
    rewrite (IH _ _ _ H) by (intro Hin; apply Hni; apply in_or_app; right; exact Hin).
    eapply apply_op_frame; [exact E|]. intro Hin; apply Hni; apply in_or_app; left; exact Hin.
Qed.

Lemma apply_op_agree st1 st2 o a b x :
  sget st1 x = sget st2 x -> apply_op st1 o = Some a -> apply_op st2 o = Some b -> sget a x = sget b x.
Proof.
  unfold apply_op. intros H.
  destruct (forallb (present st1) (op_req o)); [|discriminate].
  destruct (forallb (present st2) (op_req o)); [|discriminate].
  intros Ha Hb; inversion Ha; inversion Hb; subst. apply write_all_agree; exact H.
Qed.

Lemma apply_ops_agree ops : forall st1 st2 a b x,
  sget st1 x = sget st2 x -> apply_ops st1 ops = Some a -> apply_ops st2 ops = Some b -> sget a x = sget b x.
Proof.
  induction ops as [|o r IH]; cbn; intros st1 st2 a b x H Ha Hb.
  - inversion Ha; inversion Hb; subst; exact H.
  - destruct (apply_op st1 o) as [s1|] eqn:E1; [|discriminate].
    destruct (apply_op st2 o) as [s2|] eqn:E2; [|discriminate].
    eapply IH; [|exact Ha|exact Hb]. eapply apply_op_agree; eauto.
Qed.

Lemma vopt_eqb_eq a b : vopt_eqb a b = true -> a = b.
Proof.
  destruct a, b; cbn; try discriminate; auto. intros H; apply N.eqb_eq in H; subst; reflexivity.
Qed.

Lemma overlap_clean_spec before after slots x :
  overlap_clean before after slots = true -> In x slots -> sget after x = sget before x.
Proof.
  unfold overlap_clean. rewrite forallb_forall. intros H Hin.
  symmetry. apply vopt_eqb_eq. apply H; exact Hin.
Qed.

Section WithHash.
  Variable Hroot : list (slot * value) -> N.
  Variable Hcommit : N -> list N -> N.
  Variable Hart : lane -> pref -> N -> N.
  Variable Hplural : lane -> pref -> list slot -> N -> N.
  Variable Hshell : lane -> N -> N -> pref -> list N -> list N -> list pref -> N.

  Notation root_of := (root_of Hroot).
  Notation replay_entries := (replay_entries Hroot).
  Notation replay_at := (replay_at Hroot).
  Notation tick := (tick Hroot Hcommit).
  Notation fork_steps := (fork_steps Hroot).
  Notation fork_strand := (fork_strand Hroot).
  Notation plan_step := (plan_step Hroot Hart Hplural).
  Notation plan_rec := (plan_rec Hroot Hart Hplural).
  Notation plan := (plan Hroot Hart Hplural).
  Notation append_recorded := (append_recorded Hroot Hcommit).
  Notation settle_one := (settle_one Hroot Hcommit).
  Notation settle_loop := (settle_loop Hroot Hcommit).
  Notation settle := (settle Hroot Hcommit Hart Hplural Hshell).

  (* ---------------------------------------------------------------- fork *)
  Lemma prov_fork_ok pv src k child pv1 :
    prov_fork pv src k child = Ok pv1 ->
    exists h, alookup src (pv_lanes pv) = Some h /\ amem child (pv_lanes pv) = false /\ k < lenN (h_entries h) /\
      pv1 = mkProv (pv_lanes pv ++ [(child, mkHistory (h_init h)
                        (map (rewrite_entry src child) (firstnN (k + 1) (h_entries h))))])
                   (pv_shells pv) (pv_plural_index pv).
  Proof.
    unfold prov_fork. destruct (amem child (pv_lanes pv)) eqn:Em; [discriminate|].
    destruct (alookup src (pv_lanes pv)) as [h|] eqn:Es; [|discriminate].
    destruct (lenN (h_entries h) <=? k) eqn:El; [discriminate|].
    intros H; inversion H; subst. exists h. repeat split; auto.
    apply N.leb_gt in El; exact El.
  Qed.

  (* what a successful fork is, in one statement *)
  Lemma fork_steps_ok w q w' :
    fork_steps w q = Ok w' ->
    exists sfr h cst se,
      alookup (fq_src q) (rt_lanes (fst w)) = Some sfr /\
      alookup (fq_src q) (pv_lanes (snd w)) = Some h /\
      amem (fq_child q) (pv_lanes (snd w)) = false /\
      amem (fq_child q) (rt_lanes (fst w)) = false /\
      amem (fq_strand q) (rt_strands (fst w)) = false /\
      fq_child q <> fq_src q /\
      lenN (fq_heads q) = 1 /\
      forallb (fun hk : hkey => N.eqb (fst hk) (fq_child q)) (fq_heads q) = true /\
      existsb (fun hk => existsb (hkey_eqb hk) (rt_heads (fst w))) (fq_heads q) = false /\
      nthN (h_entries h) (fq_tick q) = Some se /\
      snd w' = mkProv (pv_lanes (snd w) ++ [(fq_child q, mkHistory (h_init h)
                         (map (rewrite_entry (fq_src q) (fq_child q)) (firstnN (fq_tick q + 1) (h_entries h))))])
                      (pv_shells (snd w)) (pv_plural_index (snd w)) /\
      fst w' = mkRuntime (rt_lanes (fst w) ++ [(fq_child q, mkFrontier (f_init sfr) cst (fq_tick q + 1))])
                         (rt_heads (fst w) ++ fq_heads q)
                         (rt_strands (fst w) ++ [(fq_strand q,
                             mkStrand (fq_strand q) (fq_src q) (fq_tick q) (e_commit se) (e_root se) (e_ref se)
                                      (fq_child q) (fq_heads q) (fq_shared q))])
                         (rt_gtick (fst w)).
  Proof.
    destruct w as [rt pv]. unfold Strand.fork_steps. cbn [fst snd].
    destruct (alookup (fq_src q) (rt_lanes rt)) as [sfr|] eqn:Esfr; [|discriminate].
    destruct (Strand.replay_at Hroot pv (fq_src q) (f_init sfr) (fq_tick q)); [|discriminate].
    destruct (prov_fork pv (fq_src q) (fq_tick q) (fq_child q)) as [pv1|] eqn:Ef; [|discriminate].
    apply prov_fork_ok in Ef. destruct Ef as [h [Eh [Em [Hlt Epv1]]]].
    destruct (Strand.replay_at Hroot pv1 (fq_child q) (f_init sfr) (fq_tick q + 1)) as [cst|]; [|discriminate].
    assert (Hsrc1 : alookup (fq_src q) (pv_lanes pv1) = Some h).
    { subst pv1; cbn. apply alookup_app_some; exact Eh. }
    rewrite Hsrc1. cbn [option_map].
    destruct (nthN (h_entries h) (fq_tick q)) as [se|] eqn:Ese; [|discriminate].
    destruct (N.eqb (fq_child q) (fq_src q)) eqn:Ecs; [discriminate|].
    destruct (N.eqb (lenN (fq_heads q)) 1) eqn:E1; cbn [negb]; [|discriminate].
    destruct (forallb (fun hk : hkey => N.eqb (fst hk) (fq_child q)) (fq_heads q)) eqn:Efa; cbn [negb]; [|discriminate].
    destruct (amem (fq_child q) (rt_lanes rt)) eqn:Eml; [discriminate|].
    destruct (existsb (fun hk => existsb (hkey_eqb hk) (rt_heads rt)) (fq_heads q)) eqn:Edh; [discriminate|].
    destruct (amem (fq_strand q) (rt_strands rt)) eqn:Ems; [discriminate|].
    intros H; inversion H; subst w'. cbn [fst snd].
    exists sfr, h, cst, se. repeat split; auto.
    - apply N.eqb_neq; exact Ecs.
    - apply N.eqb_eq; exact E1.
  Qed.

  (* fork_prefix: the child's history is exactly the rewritten first k+1 entries of the source;
     every other history, the source included, is untouched *)
  Lemma fork_prefix_lemma w q w' es :
    fork_steps w q = Ok w' ->
    entries_of (snd w) (fq_src q) = Some es ->
    entries_of (snd w') (fq_child q) =
      Some (map (rewrite_entry (fq_src q) (fq_child q)) (firstnN (fq_tick q + 1) es)) /\
    fq_tick q < lenN es /\
    (forall l, l <> fq_child q -> alookup l (pv_lanes (snd w')) = alookup l (pv_lanes (snd w))) /\
    pv_shells (snd w') = pv_shells (snd w) /\ pv_plural_index (snd w') = pv_plural_index (snd w).
  Proof.
    intros Hf Hes. destruct (fork_steps_ok _ _ _ Hf)
      as [sfr [h [cst [se [Hsfr [Hh [Hm [Hml [Hms [Hne [Hl1 [Hfa [Hdh [Hse [Hpv Hrt]]]]]]]]]]]]]]].
    unfold entries_of in *. rewrite Hh in Hes. cbn in Hes. inversion Hes; subst es.
    rewrite Hpv. cbn [pv_lanes pv_shells pv_plural_index].
    repeat split; auto.
    - rewrite alookup_app_new by exact Hm. reflexivity.
    - unfold nthN in Hse. assert (N.to_nat (fq_tick q) < length (h_entries h))%nat
        by (apply nth_error_Some; congruence).
      unfold lenN. lia.
    - intros l Hl. apply alookup_app_old; exact Hl.
  Qed.

  (* fork_heads_fresh: the strand's writer heads live on the child lane, were not registered
     before, none of them is a head of the source lane, and every old head is still registered *)
  Lemma fork_heads_fresh_lemma w q w' :
    fork_steps w q = Ok w' ->
    exists s, alookup (fq_strand q) (rt_strands (fst w')) = Some s /\
      st_heads s = fq_heads q /\ st_child s = fq_child q /\ st_src s = fq_src q /\
      st_child s <> st_src s /\
      rt_heads (fst w') = rt_heads (fst w) ++ st_heads s /\
      (forall hk, In hk (st_heads s) ->
         fst hk = st_child s /\ fst hk <> st_src s /\ existsb (hkey_eqb hk) (rt_heads (fst w)) = false) /\
      amem (st_child s) (rt_lanes (fst w)) = false.
  Proof.
    intros Hf. destruct (fork_steps_ok _ _ _ Hf)
      as [sfr [h [cst [se [Hsfr [Hh [Hm [Hml [Hms [Hne [Hl1 [Hfa [Hdh [Hse [Hpv Hrt]]]]]]]]]]]]]]].
    eexists. rewrite Hrt. cbn [rt_strands rt_heads rt_lanes].
    split; [apply alookup_app_new; exact Hms|]. cbn.
    repeat split; auto.
    - rewrite forallb_forall in Hfa. apply N.eqb_eq. apply Hfa; exact H.
    - rewrite forallb_forall in Hfa. specialize (Hfa _ H). apply N.eqb_eq in Hfa. congruence.
    - destruct (existsb (hkey_eqb hk) (rt_heads (fst w))) eqn:E; [|reflexivity].
      assert (existsb (fun hk0 => existsb (hkey_eqb hk0) (rt_heads (fst w))) (fq_heads q) = true)
        by (apply existsb_exists; exists hk; split; assumption).
      congruence.
  Qed.

  (* the basis pins the source coordinate, and the child's entry at the fork tick carries the
     same commitments *)
  Lemma fork_basis_lemma w q w' :
    fork_steps w q = Ok w' ->
    exists s se es ces ce,
      alookup (fq_strand q) (rt_strands (fst w')) = Some s /\
      entries_of (snd w) (fq_src q) = Some es /\ nthN es (fq_tick q) = Some se /\
      entries_of (snd w') (fq_child q) = Some ces /\ nthN ces (fq_tick q) = Some ce /\
      st_src s = fq_src q /\ st_fork_tick s = fq_tick q /\
      st_commit s = e_commit se /\ st_boundary s = e_root se /\ st_ref s = e_ref se /\
      e_commit ce = e_commit se /\ e_root ce = e_root se /\ e_patch ce = e_patch se /\ e_lane ce = fq_child q.
  Proof.
    intros Hf. destruct (fork_steps_ok _ _ _ Hf)
      as [sfr [h [cst [se [Hsfr [Hh [Hm [Hml [Hms [Hne [Hl1 [Hfa [Hdh [Hse [Hpv Hrt]]]]]]]]]]]]]]].
    assert (Hlt : (N.to_nat (fq_tick q) < length (h_entries h))%nat)
      by (apply nth_error_Some; unfold nthN in Hse; congruence).
    eexists. exists se, (h_entries h). eexists. exists (rewrite_entry (fq_src q) (fq_child q) se).
    rewrite Hrt, Hpv. cbn [rt_strands pv_lanes]. unfold entries_of. cbn [pv_lanes].
    rewrite Hh, (alookup_app_new _ _ _ Hm), (alookup_app_new _ _ _ Hms). cbn [option_map h_entries].
    repeat split; auto.
    unfold nthN, firstnN in *. rewrite nth_error_map.
    rewrite nth_error_firstn_lt by lia. rewrite Hse. reflexivity.
  Qed.

  Lemma fork_atomic_lemma w q e : snd (fork_strand w q) = Some e -> fst (fork_strand w q) = w.
  Proof. unfold Strand.fork_strand. destruct (fork_steps w q); cbn; [discriminate|reflexivity]. Qed.

  Lemma fork_ok_iff w q : snd (fork_strand w q) = None <-> exists w', fork_steps w q = Ok w' /\ fst (fork_strand w q) = w'.
  Proof.
    unfold Strand.fork_strand. destruct (fork_steps w q) as [w'|e]; cbn; split.
    - intros _. exists w'; auto.
    - reflexivity.
    - discriminate.
    - intros [w' [H _]]; discriminate.
  Qed.

  (* ---------------------------------------------------------------- ticks and lanes *)
  Lemma tick_ok w hk p w' :
    tick w hk p = Ok w' ->
    exists fr h st' e,
      alookup (fst hk) (rt_lanes (fst w)) = Some fr /\ alookup (fst hk) (pv_lanes (snd w)) = Some h /\
      apply_ops (f_state fr) (p_ops p) = Some st' /\
      e_patch e = Some p /\ e_root e = root_of st' /\ e_lane e = fst hk /\ e_tick e = lenN (h_entries h) /\
      e_kind e = KLocal /\ e_head e = Some hk /\ f_tick fr = lenN (h_entries h) /\
      fst w' = mkRuntime (aupdate (fst hk) (mkFrontier (f_init fr) st' (f_tick fr + 1)) (rt_lanes (fst w)))
                         (rt_heads (fst w)) (rt_strands (fst w)) (rt_gtick (fst w)) /\
      snd w' = mkProv (aupdate (fst hk) (mkHistory (h_init h) (h_entries h ++ [e])) (pv_lanes (snd w)))
                      (pv_shells (snd w)) (pv_plural_index (snd w)).
  Proof.
    destruct w as [rt pv]. unfold Strand.tick. cbn [fst snd].
    destruct (existsb (hkey_eqb hk) (rt_heads rt)); cbn [negb]; [|discriminate].
    destruct (alookup (fst hk) (rt_lanes rt)) as [fr|] eqn:Efr; [|discriminate].
    destruct (alookup (fst hk) (pv_lanes pv)) as [h|] eqn:Eh; [|discriminate].
    destruct (N.eqb (f_tick fr) u64max); [discriminate|].
    destruct (apply_ops (f_state fr) (p_ops p)) as [st'|] eqn:Ea; [|discriminate].
    destruct (N.eqb (f_tick fr) (lenN (h_entries h))) eqn:Et; cbn [negb]; [|discriminate].
    apply N.eqb_eq in Et.
    intros H; inversion H; subst w'. cbn [fst snd].
    do 4 eexists. repeat split; try reflexivity; auto.
  Qed.

  (* lane_isolation: a committed tick on one lane changes no component of any other lane
     (frontier, history), and no head, strand, shell or binding *)
  Lemma tick_frame w hk p w' :
    tick w hk p = Ok w' ->
    (forall l, l <> fst hk ->
       alookup l (rt_lanes (fst w')) = alookup l (rt_lanes (fst w)) /\
       alookup l (pv_lanes (snd w')) = alookup l (pv_lanes (snd w))) /\
    rt_heads (fst w') = rt_heads (fst w) /\ rt_strands (fst w') = rt_strands (fst w) /\
    pv_shells (snd w') = pv_shells (snd w) /\ pv_plural_index (snd w') = pv_plural_index (snd w).
  Proof.
    intros H. destruct (tick_ok _ _ _ _ H) as (fr & h & st' & e & _ & _ & _ & _ & _ & _ & _ & _ & _ & _ & Hrt & Hpv).
    rewrite Hrt, Hpv. cbn. repeat split; auto; apply alookup_aupdate_other; exact H0.
  Qed.

  (* strands registered by fork_strand keep child and source lanes apart and own their heads *)
  Definition wf_strands (rt : runtime) : Prop :=
    forall sid s, alookup sid (rt_strands rt) = Some s ->
      st_child s <> st_src s /\ (forall hk, In hk (st_heads s) -> fst hk = st_child s).

  Lemma wf_strands_fork w q w' : wf_strands (fst w) -> fork_steps w q = Ok w' -> wf_strands (fst w').
  Proof.
    intros Hwf Hf. destruct (fork_steps_ok _ _ _ Hf)
      as [sfr [h [cst [se [Hsfr [Hh [Hm [Hml [Hms [Hne [Hl1 [Hfa [Hdh [Hse [Hpv Hrt]]]]]]]]]]]]]]].
    intros sid s Hs. rewrite Hrt in Hs. cbn [rt_strands] in Hs.
    destruct (N.eq_dec sid (fq_strand q)) as [->|Hd].
    - rewrite (alookup_app_new _ _ _ Hms) in Hs. inversion Hs; subst s; cbn. split; [exact Hne|].
      intros hk Hin. rewrite forallb_forall in Hfa. apply N.eqb_eq. apply Hfa; exact Hin.
    - rewrite alookup_app_old in Hs by exact Hd. eapply Hwf; exact Hs.
  Qed.

  Lemma wf_strands_tick w hk p w' : wf_strands (fst w) -> tick w hk p = Ok w' -> wf_strands (fst w').
  Proof.
    intros Hwf H. destruct (tick_frame _ _ _ _ H) as [_ [_ [Hs _]]].
    intros sid s Hl. rewrite Hs in Hl. eapply Hwf; exact Hl.
  Qed.

  Lemma wf_strands_preserved w :
    wf_strands (fst w) ->
    (forall q w', fork_steps w q = Ok w' -> wf_strands (fst w')) /\
    (forall hk p w', tick w hk p = Ok w' -> wf_strands (fst w')).
  Proof.
    intros H. split.
    - intros q w' Hf. eapply wf_strands_fork; eauto.
    - intros hk p w' Ht. eapply wf_strands_tick; eauto.
  Qed.

  Lemma lane_isolation_lemma w sid s hk p w' :
    wf_strands (fst w) -> alookup sid (rt_strands (fst w)) = Some s ->
    tick w hk p = Ok w' ->
    (* a tick by one of the strand's heads leaves the parent lane alone *)
    (In hk (st_heads s) ->
       alookup (st_src s) (rt_lanes (fst w')) = alookup (st_src s) (rt_lanes (fst w)) /\
       alookup (st_src s) (pv_lanes (snd w')) = alookup (st_src s) (pv_lanes (snd w))) /\
    (* a tick on the parent lane leaves the strand's lane alone *)
    (fst hk = st_src s ->
       alookup (st_child s) (rt_lanes (fst w')) = alookup (st_child s) (rt_lanes (fst w)) /\
       alookup (st_child s) (pv_lanes (snd w')) = alookup (st_child s) (pv_lanes (snd w))) /\
    rt_strands (fst w') = rt_strands (fst w) /\ rt_heads (fst w') = rt_heads (fst w).
  Proof.
    intros Hwf Hs Ht. destruct (Hwf _ _ Hs) as [Hne Hheads].
    destruct (tick_frame _ _ _ _ Ht) as [Hfr [Hh [Hst _]]].
    repeat split; auto.
    - apply Hfr. rewrite (Hheads _ H). auto.
    - apply Hfr. rewrite (Hheads _ H). auto.
    - apply Hfr. rewrite H. exact Hne.
    - apply Hfr. rewrite H. exact Hne.
  Qed.


  (* ---------------------------------------------------------------- settlement: shape of provenance *)
  (* whatever settle's loop does to provenance is: append entries to the target lane *)
  Definition pv_ext (target : lane) (pv pv2 : prov) : Prop :=
    pv_shells pv2 = pv_shells pv /\ pv_plural_index pv2 = pv_plural_index pv /\
    (pv_lanes pv2 = pv_lanes pv \/
     exists h extra, alookup target (pv_lanes pv) = Some h /\
       pv_lanes pv2 = aupdate target (mkHistory (h_init h) (h_entries h ++ extra)) (pv_lanes pv)).

  Lemma pv_ext_refl target pv : pv_ext target pv pv.
  Proof. repeat split; auto. Qed.

  Lemma pv_ext_trans target a b c : pv_ext target a b -> pv_ext target b c -> pv_ext target a c.
  Proof.
    intros (S1 & P1 & L1) (S2 & P2 & L2). repeat split; try congruence.
    destruct L1 as [L1|(h & ex & Hh & L1)]; destruct L2 as [L2|(h2 & ex2 & Hh2 & L2)].
    - left; congruence.
    - right. exists h2, ex2. rewrite <- L1. auto.
    - right. exists h, ex. split; [exact Hh|congruence].
    - right. rewrite L1 in Hh2. rewrite (alookup_aupdate_same _ _ _ _ Hh) in Hh2.
      inversion Hh2; subst h2. cbn in L2.
      exists h, (ex ++ ex2). split; [exact Hh|].
      rewrite L2, L1, aupdate_aupdate, app_assoc. reflexivity.
  Qed.

  Lemma append_recorded_ext w target k p er w2 r :
    append_recorded w target k p er = (w2, r) -> pv_ext target (snd w) (snd w2) .
  Proof.
    destruct w as [rt pv]. unfold Strand.append_recorded. cbn [fst snd].
    destruct (alookup target (pv_lanes pv)) as [h|] eqn:Eh.
    2:{ intros H; inversion H; subst; apply pv_ext_refl. }
    destruct (alookup target (rt_lanes rt)) as [fr|] eqn:Efr.
    2:{ intros H; inversion H; subst; apply pv_ext_refl. }
    destruct (apply_ops (f_state fr) (p_ops p)) as [st'|].
    2:{ intros H; inversion H; subst; apply pv_ext_refl. }
    destruct (negb (N.eqb (root_of st') er)).
    { intros H; inversion H; subst; apply pv_ext_refl. }
    destruct (negb (N.eqb (f_tick fr) (lenN (h_entries h)))).
    { intros H; inversion H; subst; apply pv_ext_refl. }
    destruct (is_local k).
    { intros H; inversion H; subst; apply pv_ext_refl. }
    destruct (N.eqb (f_tick fr) u64max); intros H; inversion H; subst; cbn [snd];
      (repeat split; auto; right; eexists; eexists; split; [exact Eh|reflexivity]).
  Qed.

  Lemma advance_gtick_snd w w1 r : advance_gtick w = (w1, r) -> snd w1 = snd w.
  Proof.
    destruct w as [rt pv]. unfold advance_gtick. destruct (N.eqb (rt_gtick rt) u64max);
      intros H; inversion H; reflexivity.
  Qed.

  Lemma settle_one_ext target w d w1 r : settle_one target w d = (w1, r) -> pv_ext target (snd w) (snd w1).
  Proof.
    unfold Strand.settle_one. destruct (advance_gtick w) as [w0 [g|e]] eqn:Eg.
    2:{ intros H; inversion H; subst. rewrite (advance_gtick_snd _ _ _ Eg). apply pv_ext_refl. }
    rewrite <- (advance_gtick_snd _ _ _ Eg).
    destruct d as [src hd op er rv|art src why rv|pid src sl pol].
    - destruct src as [[sl stick] c].
      destruct (option_map (fun es => nthN es stick) (entries_of (snd w0) sl)) as [[se|]|].
      + destruct (e_patch se) as [p|].
        * destruct (append_recorded w0 target (KImport sl stick op) p er) as [w2 [r2|e2]] eqn:Ea;
            intros H; inversion H; subst; eapply append_recorded_ext; exact Ea.
        * intros H; inversion H; subst; apply pv_ext_refl.
      + intros H; inversion H; subst; apply pv_ext_refl.
      + intros H; inversion H; subst; apply pv_ext_refl.
    - destruct (current_root Hroot w0 target) as [root|].
      + destruct (append_recorded w0 target (KConflict art) empty_patch root) as [w2 [r2|e2]] eqn:Ea;
          intros H; inversion H; subst; eapply append_recorded_ext; exact Ea.
      + intros H; inversion H; subst; apply pv_ext_refl.
    - destruct (current_root Hroot w0 target) as [root|].
      + destruct (append_recorded w0 target (KPlural pid) empty_patch root) as [w2 [r2|e2]] eqn:Ea;
          intros H; inversion H; subst; eapply append_recorded_ext; exact Ea.
      + intros H; inversion H; subst; apply pv_ext_refl.
  Qed.

  Lemma settle_loop_ext target ds : forall w acc w1 r,
    settle_loop target w ds acc = (w1, r) -> pv_ext target (snd w) (snd w1).
  Proof.
    induction ds as [|d ds IH]; cbn; intros w acc w1 r H.
    - inversion H; subst; apply pv_ext_refl.
    - destruct (settle_one target w d) as [w0 [x|e]] eqn:E1.
      + eapply pv_ext_trans; [eapply settle_one_ext; exact E1|eapply IH; exact H].
      + inversion H; subst. eapply settle_one_ext; exact E1.
  Qed.

  Lemma restore_ext target pv pv2 h :
    pv_ext target pv pv2 -> alookup target (pv_lanes pv) = Some h ->
    restore pv2 (mkCk target (lenN (h_entries h)) (map fst (pv_shells pv)) (map fst (pv_plural_index pv))) = pv.
  Proof.
    intros (S & P & L) Hh. unfold restore. cbn [ck_lane ck_len ck_shells ck_plurals].
    rewrite S, P, !filter_own_keys.
    assert (Hl : match alookup target (pv_lanes pv2) with
                 | Some h0 => aupdate target (mkHistory (h_init h0) (firstnN (lenN (h_entries h)) (h_entries h0))) (pv_lanes pv2)
                 | None => pv_lanes pv2
                 end = pv_lanes pv).
    { destruct L as [L|(h' & ex & Hh' & L)].
      - rewrite L, Hh. unfold firstnN, lenN. rewrite Nnat.Nat2N.id, firstn_all.
        destruct h; cbn. apply aupdate_id; exact Hh.
      - rewrite Hh in Hh'; inversion Hh'; subst h'.
        rewrite L. rewrite (alookup_aupdate_same _ _ _ _ Hh). cbn [h_init h_entries].
        rewrite firstnN_app_len, aupdate_aupdate. destruct h; cbn. apply aupdate_id; exact Hh. }
    destruct pv as [lanes shells idx]; cbn in *. f_equal. exact Hl.
  Qed.

  (* settle_atomic: a failed settlement leaves runtime and provenance exactly as they were *)
  Lemma settle_atomic_lemma w sid pol e :
    snd (settle w sid pol) = Err e -> fst (settle w sid pol) = w.
  Proof.
    unfold Strand.settle. destruct (plan w sid pol) as [pl|e0]; [|reflexivity].
    destruct (pl_decisions pl) as [|d ds] eqn:Ed; [cbn; discriminate|].
    unfold checkpoint_for.
    destruct (alookup (pl_target pl) (pv_lanes (snd w))) as [h|] eqn:Eh; cbn [option_map]; [|reflexivity].
    destruct (settle_loop (pl_target pl) w (d :: ds) []) as [w1 [refs|e1]] eqn:El.
    - destruct (append_shell (snd w1) _) as [pv2|e2]; cbn [fst snd]; [discriminate|].
      intros _. rewrite (restore_ext _ _ _ _ (settle_loop_ext _ _ _ _ _ _ El) Eh). destruct w; reflexivity.
    - cbn [fst snd]. intros _.
      rewrite (restore_ext _ _ _ _ (settle_loop_ext _ _ _ _ _ _ El) Eh). destruct w; reflexivity.
  Qed.


  (* ---------------------------------------------------------------- plan: one step *)
  Definition entry_overlap (bo : option (list slot)) (p : patch) : list slot :=
    match bo with Some sl => overlap_for_patch p sl | None => [] end.

  (* a step either imports (only when nothing blocked so far, the patch replays on the simulated
     state, and the overlapping slots -- if any -- come out unchanged) or leaves the simulated
     state alone and latches a reason *)
  Lemma plan_step_cases pol target aa bm bo sim blocked e d sim' b' :
    plan_step pol target aa bm bo sim blocked e = (d, sim', b') ->
    (exists p cand rv,
        blocked = None /\ e_patch e = Some p /\ apply_ops sim (p_ops p) = Some cand /\
        d = DImport (e_ref e) (e_head e) (e_commit e) (root_of cand) rv /\ sim' = cand /\ b' = None /\
        (entry_overlap bo p = [] \/ overlap_clean sim cand (entry_overlap bo p) = true)) \/
    (sim' = sim /\ b' <> None /\ decision_tag d <> 1).
  Proof.
    unfold Strand.plan_step, entry_overlap. cbv zeta.
    destruct blocked as [r|].
    { intros H; inversion H; subst. right. repeat split; [discriminate|cbn; discriminate]. }
    destruct (aa && bm).
    { intros H; inversion H; subst. right. repeat split; [discriminate|cbn; discriminate]. }
    destruct (negb (is_local (e_kind e))).
    { intros H; inversion H; subst. right. repeat split; [discriminate|cbn; discriminate]. }
    destruct (e_patch e) as [p|].
    2:{ intros H; inversion H; subst. right. repeat split; [discriminate|cbn; discriminate]. }
    destruct (apply_ops sim (p_ops p)) as [cand|] eqn:Ea.
    2:{ destruct (match bo with Some sl => overlap_for_patch p sl | None => [] end);
          intros H; inversion H; subst; right; (repeat split; [discriminate|cbn; discriminate]). }
    destruct (aa && negb (N.eqb (Strand.root_of Hroot cand) (e_root e))).
    { intros H; inversion H; subst. right. repeat split; [discriminate|cbn; discriminate]. }
    destruct (match bo with Some sl => overlap_for_patch p sl | None => [] end) as [|o ov] eqn:Eov.
    { intros H; injection H as Hd Hs Hb; subst d sim' b'. left. exists p, cand, None. repeat split; auto. }
    destruct (overlap_clean sim cand (o :: ov)) eqn:Ec.
    { intros H; injection H as Hd Hs Hb; subst d sim' b'. left. exists p, cand, (Some (RClean (o :: ov))). repeat split; auto. right. rewrite Eov. exact Ec. }
    destruct (pol_plural pol); intros H; inversion H; subst; right;
      (repeat split; [discriminate|cbn; discriminate]).
  Qed.

  (* once a reason is latched every later entry is residue and the simulated state is frozen *)
  Lemma plan_step_blocked pol target aa bm bo sim r e :
    exists d, plan_step pol target aa bm bo sim (Some r) e = (d, sim, Some r) /\ decision_tag d = 2.
  Proof. unfold Strand.plan_step. cbv zeta. eexists. split; reflexivity. Qed.

  (* the simulated state at the end of the fold *)
  Fixpoint plan_sim (pol : policy) (target : lane) (aa bm : bool) (bo : option (list slot))
           (sim : state) (blocked : option reason) (sfx : list entry) : state :=
    match sfx with
    | [] => sim
    | e :: r => let '(_, sim', b') := plan_step pol target aa bm bo sim blocked e in
                plan_sim pol target aa bm bo sim' b' r
    end.

  Definition n_imports (ds : list decision) : nat := length (filter (fun d => N.eqb (decision_tag d) 1) ds).

  Lemma plan_blocked_tail pol target aa bm bo sfx : forall sim r,
    plan_sim pol target aa bm bo sim (Some r) sfx = sim /\
    n_imports (plan_rec pol target aa bm bo sim (Some r) sfx) = 0%nat.
  Proof.
    induction sfx as [|e sfx IH]; intros sim r; cbn [plan_sim Strand.plan_rec]; [split; reflexivity|].
    destruct (plan_step_blocked pol target aa bm bo sim r e) as [d [Hd Ht]]. rewrite Hd.
    destruct (IH sim r) as [H1 H2]. split; [exact H1|].
    unfold n_imports in *. cbn [filter]. rewrite Ht. cbn. exact H2.
  Qed.

  (* never_overwrite, on the plan: a slot the parent wrote since the fork comes out of the whole
     fold with the value it went in with *)
  Lemma plan_sim_preserves pol target aa bm bo x sfx : forall sim blocked,
    (forall e p, In e sfx -> e_patch e = Some p -> memN x (p_out p) = true ->
       match bo with Some ovl => memN x ovl = true | None => False end) ->
    (forall e p, In e sfx -> e_patch e = Some p -> In x (patch_writes p) -> memN x (p_out p) = true) ->
    sget (plan_sim pol target aa bm bo sim blocked sfx) x = sget sim x.
  Proof.
    induction sfx as [|e sfx IH]; intros sim blocked Hbo Hhon; cbn [plan_sim]; [reflexivity|].
    destruct (plan_step pol target aa bm bo sim blocked e) as [[d sim'] b'] eqn:Es.
    assert (Hstep : sget sim' x = sget sim x).
    { destruct (plan_step_cases _ _ _ _ _ _ _ _ _ _ _ Es)
        as [(p & cand & rv & Hb & Hp & Ha & Hd & Hs & Hb' & Hov)|(Hs & _)]; [|subst; reflexivity].
      subst sim'. destruct (memN x (p_out p)) eqn:Eo.
      - specialize (Hbo e p (or_introl eq_refl) Hp Eo).
        destruct bo as [ovl|]; [|contradiction].
        assert (Hin : In x (entry_overlap (Some ovl) p)).
        { unfold entry_overlap, overlap_for_patch. apply filter_In. split; [apply memN_in; exact Hbo|].
          rewrite Eo. apply orb_true_r. }
        destruct Hov as [Hnil|Hclean]; [rewrite Hnil in Hin; destruct Hin|].
        eapply overlap_clean_spec; eauto.
      - eapply apply_ops_frame; [exact Ha|]. intro Hin.
        specialize (Hhon e p (or_introl eq_refl) Hp Hin). congruence. }
    rewrite IH; [exact Hstep| |].
    - intros e0 p0 Hin; apply Hbo; right; exact Hin.
    - intros e0 p0 Hin; apply Hhon; right; exact Hin.
  Qed.

  (* the strand's own replay of a list of entries *)
  Fixpoint apply_entries (st : state) (es : list entry) : option state :=
    match es with
    | [] => Some st
    | e :: r => match e_patch e with
                | None => None
                | Some p => match apply_ops st (p_ops p) with
                            | Some st' => apply_entries st' r
                            | None => None
                            end
                end
    end.

  (* import_takes_strand_values, on the plan: where the simulated state and the strand's fork state
     agree on a slot, the end of the fold agrees with the strand's state after the imported prefix *)
  Lemma plan_sim_agrees pol target aa bm bo x sfx : forall sim blocked cst0 cstn,
    sget sim x = sget cst0 x ->
    apply_entries cst0 (firstn (n_imports (plan_rec pol target aa bm bo sim blocked sfx)) sfx) = Some cstn ->
    sget (plan_sim pol target aa bm bo sim blocked sfx) x = sget cstn x.
  Proof.
    induction sfx as [|e sfx IH]; intros sim blocked cst0 cstn Hag Hre; cbn [plan_sim Strand.plan_rec] in *.
    - cbn in Hre. inversion Hre; subst; exact Hag.
    - destruct (plan_step pol target aa bm bo sim blocked e) as [[d sim'] b'] eqn:Es.
      destruct (plan_step_cases _ _ _ _ _ _ _ _ _ _ _ Es)
        as [(p & cand & rv & Hb & Hp & Ha & Hd & Hs & Hb' & Hov)|(Hs & Hb' & Ht)].
      + subst d sim' b'. unfold n_imports in Hre. cbn [filter decision_tag N.eqb Pos.eqb length firstn] in Hre.
        cbn [apply_entries] in Hre. rewrite Hp in Hre.
        destruct (apply_ops cst0 (p_ops p)) as [c1|] eqn:Ec; [|discriminate].
        eapply IH; [|exact Hre]. eapply apply_ops_agree; eauto.
      + subst sim'. destruct b' as [r|]; [|congruence].
        destruct (plan_blocked_tail pol target aa bm bo sfx sim r) as [H1 H2].
        rewrite H1. unfold n_imports in Hre, H2. cbn [filter] in Hre.
        destruct (N.eqb (decision_tag d) 1) eqn:Et; [apply N.eqb_eq in Et; contradiction|].
        rewrite H2 in Hre. cbn in Hre. inversion Hre; subst. exact Hag.
  Qed.

  (* ---------------------------------------------------------------- settle follows the plan *)
  Lemma append_recorded_ok w target k p er w2 r :
    append_recorded w target k p er = (w2, Ok r) ->
    exists fr h st' e,
      alookup target (rt_lanes (fst w)) = Some fr /\ alookup target (pv_lanes (snd w)) = Some h /\
      apply_ops (f_state fr) (p_ops p) = Some st' /\ root_of st' = er /\
      e_patch e = Some p /\ e_root e = root_of st' /\ e_kind e = k /\ e_lane e = target /\
      e_tick e = lenN (h_entries h) /\ f_tick fr = lenN (h_entries h) /\ r = e_ref e /\
      fst w2 = mkRuntime (aupdate target (mkFrontier (f_init fr) st' (f_tick fr + 1)) (rt_lanes (fst w)))
                         (rt_heads (fst w)) (rt_strands (fst w)) (rt_gtick (fst w)) /\
      snd w2 = mkProv (aupdate target (mkHistory (h_init h) (h_entries h ++ [e])) (pv_lanes (snd w)))
                      (pv_shells (snd w)) (pv_plural_index (snd w)).
  Proof.
    destruct w as [rt pv]. unfold Strand.append_recorded. cbn [fst snd].
    destruct (alookup target (pv_lanes pv)) as [h|] eqn:Eh; [|intros H; inversion H].
    destruct (alookup target (rt_lanes rt)) as [fr|] eqn:Efr; [|intros H; inversion H].
    destruct (apply_ops (f_state fr) (p_ops p)) as [st'|] eqn:Ea; [|intros H; inversion H].
    destruct (N.eqb (root_of st') er) eqn:Er; cbn [negb]; [|intros H; inversion H].
    destruct (N.eqb (f_tick fr) (lenN (h_entries h))) eqn:Et; cbn [negb]; [|intros H; inversion H].
    destruct (is_local k); [intros H; inversion H|].
    destruct (N.eqb (f_tick fr) u64max); [intros H; inversion H|].
    intros H; inversion H; subst. cbn [fst snd].
    apply N.eqb_eq in Er. apply N.eqb_eq in Et.
    do 4 eexists. repeat split; try reflexivity; auto.
  Qed.

  Lemma advance_gtick_ok w w1 g :
    advance_gtick w = (w1, Ok g) ->
    snd w1 = snd w /\ rt_lanes (fst w1) = rt_lanes (fst w) /\ rt_heads (fst w1) = rt_heads (fst w) /\
    rt_strands (fst w1) = rt_strands (fst w).
  Proof.
    destruct w as [rt pv]. unfold advance_gtick. destruct (N.eqb (rt_gtick rt) u64max);
      intros H; inversion H; subst; cbn; auto.
  Qed.

  (* what one successfully executed decision does to the target lane; everything else is framed *)
  Definition target_step (target : lane) (w w2 : world) (fr : frontier) (h : history)
             (ops : list op) (st' : state) (e : entry) : Prop :=
    apply_ops (f_state fr) ops = Some st' /\
    e_root e = root_of st' /\ (exists p, e_patch e = Some p /\ p_ops p = ops) /\
    e_lane e = target /\ e_tick e = lenN (h_entries h) /\
    alookup target (rt_lanes (fst w2)) = Some (mkFrontier (f_init fr) st' (f_tick fr + 1)) /\
    alookup target (pv_lanes (snd w2)) = Some (mkHistory (h_init h) (h_entries h ++ [e])) /\
    (forall l, l <> target -> alookup l (rt_lanes (fst w2)) = alookup l (rt_lanes (fst w)) /\
                             alookup l (pv_lanes (snd w2)) = alookup l (pv_lanes (snd w))) /\
    rt_strands (fst w2) = rt_strands (fst w) /\ rt_heads (fst w2) = rt_heads (fst w).

  Lemma settle_one_ok target w d w2 x fr h :
    settle_one target w d = (w2, Ok x) ->
    alookup target (rt_lanes (fst w)) = Some fr -> alookup target (pv_lanes (snd w)) = Some h ->
    exists ops st' e, target_step target w w2 fr h ops st' e /\
      match d with
      | DImport src _ _ _ _ =>
          exists es se p, entries_of (snd w) (fst (fst src)) = Some es /\ nthN es (snd (fst src)) = Some se /\
                          e_patch se = Some p /\ ops = p_ops p
      | _ => ops = []
      end.
  Proof.
    unfold Strand.settle_one. intros H Hfr Hh.
    destruct (advance_gtick w) as [w0 [g|e0]] eqn:Eg; [|inversion H].
    destruct (advance_gtick_ok _ _ _ Eg) as (Hs0 & Hl0 & Hh0 & Hst0).
    assert (Hfr0 : alookup target (rt_lanes (fst w0)) = Some fr) by (rewrite Hl0; exact Hfr).
    assert (Hhh0 : alookup target (pv_lanes (snd w0)) = Some h) by (rewrite Hs0; exact Hh).
    assert (Hfin : forall k p er r, append_recorded w0 target k p er = (w2, Ok r) ->
                   exists st' e, target_step target w w2 fr h (p_ops p) st' e).
    { intros k p er r Ha.
      destruct (append_recorded_ok _ _ _ _ _ _ _ Ha)
        as (fr' & h' & st' & e & A1 & A2 & A3 & A4 & A5 & A6 & A7 & A8 & A9 & A10 & A11 & A12 & A13).
      rewrite Hfr0 in A1; inversion A1; subst fr'. rewrite Hhh0 in A2; inversion A2; subst h'.
      exists st', e. unfold target_step. rewrite A12, A13. cbn [fst snd rt_lanes pv_lanes rt_strands rt_heads].
      rewrite Hl0, Hs0, Hh0, Hst0.
      repeat split; auto.
      - exists p; auto.
      - eapply alookup_aupdate_same; exact Hfr.
      - eapply alookup_aupdate_same; exact Hh.
      - apply alookup_aupdate_other; exact H0.
      - apply alookup_aupdate_other; exact H0. }
    destruct d as [src hd op er rv|art src why rv|pid src sl pol].
    - destruct src as [[sl stick] c]. cbn [fst snd].
      destruct (entries_of (snd w0) sl) as [es|] eqn:Ees; cbn [option_map] in H; [|inversion H].
      destruct (nthN es stick) as [se|] eqn:Ese; [|inversion H].
      destruct (e_patch se) as [p|] eqn:Ep; [|inversion H].
      destruct (append_recorded w0 target (KImport sl stick op) p er) as [w3 [r|e3]] eqn:Ea; inversion H; subst.
      destruct (Hfin _ _ _ _ Ea) as (st' & e & Hts).
      exists (p_ops p), st', e. split; [exact Hts|]. exists es, se, p. rewrite <- Hs0. auto.
    - destruct (current_root Hroot w0 target) as [root|]; [|inversion H].
      destruct (append_recorded w0 target (KConflict art) empty_patch root) as [w3 [r|e3]] eqn:Ea; inversion H; subst.
      destruct (Hfin _ _ _ _ Ea) as (st' & e & Hts). exists [], st', e. split; [exact Hts|reflexivity].
    - destruct (current_root Hroot w0 target) as [root|]; [|inversion H].
      destruct (append_recorded w0 target (KPlural pid) empty_patch root) as [w3 [r|e3]] eqn:Ea; inversion H; subst.
      destruct (Hfin _ _ _ _ Ea) as (st' & e & Hts). exists [], st', e. split; [exact Hts|reflexivity].
  Qed.

  (* entries sit at their own coordinates *)
  Definition coherent (l : lane) (es : list entry) : Prop :=
    forall i e, nthN es i = Some e -> e_lane e = l /\ e_tick e = i.

  Lemma coherent_snoc l es e :
    coherent l es -> e_lane e = l -> e_tick e = lenN es -> coherent l (es ++ [e]).
  Proof.
    intros Hc Hl Ht i e0 Hn. unfold nthN in *.
    destruct (Nat.lt_ge_cases (N.to_nat i) (length es)) as [Hlt|Hge].
    - rewrite nth_error_app1 in Hn by exact Hlt. apply Hc; exact Hn.
    - rewrite nth_error_app2 in Hn by exact Hge.
      destruct (N.to_nat i - length es)%nat as [|k] eqn:Ek; cbn in Hn.
      + inversion Hn; subst e0. split; [exact Hl|]. rewrite Ht. unfold lenN. lia.
      + destruct k; discriminate.
  Qed.

  Lemma replay_entries_app st es1 es2 st1 :
    replay_entries st es1 = Some st1 -> replay_entries st (es1 ++ es2) = replay_entries st1 es2.
  Proof.
    revert st. induction es1 as [|e r IH]; cbn; intros st H; [inversion H; reflexivity|].
    destruct (e_patch e) as [p|]; [|discriminate].
    destruct (apply_ops st (p_ops p)) as [st'|]; [|discriminate].
    destruct (N.eqb (Strand.root_of Hroot st') (e_root e)); [|discriminate].
    apply IH; exact H.
  Qed.

  (* parent_stays_verifiable, on the loop: the entries a successful loop appends replay from the
     old frontier state to the new one (recorded roots included); other lanes are framed *)
  Lemma settle_loop_ok target ds : forall w acc w1 refs fr h,
    settle_loop target w ds acc = (w1, Ok refs) ->
    alookup target (rt_lanes (fst w)) = Some fr -> alookup target (pv_lanes (snd w)) = Some h ->
    exists fr1 extra,
      alookup target (rt_lanes (fst w1)) = Some fr1 /\
      alookup target (pv_lanes (snd w1)) = Some (mkHistory (h_init h) (h_entries h ++ extra)) /\
      f_init fr1 = f_init fr /\ f_tick fr1 = f_tick fr + lenN extra /\ lenN extra = lenN ds /\
      replay_entries (f_state fr) extra = Some (f_state fr1) /\
      (forall l, l <> target -> alookup l (rt_lanes (fst w1)) = alookup l (rt_lanes (fst w)) /\
                               alookup l (pv_lanes (snd w1)) = alookup l (pv_lanes (snd w))) /\
      rt_strands (fst w1) = rt_strands (fst w) /\ rt_heads (fst w1) = rt_heads (fst w) /\
      (coherent target (h_entries h) -> coherent target (h_entries h ++ extra)).
  Proof.
    induction ds as [|d ds IH]; cbn [Strand.settle_loop]; intros w acc w1 refs fr h H Hfr Hh.
    - inversion H; subst. exists fr, []. rewrite app_nil_r. destruct h; cbn.
      repeat match goal with |- _ /\ _ => split end; auto. unfold lenN; cbn; lia.
    - destruct (settle_one target w d) as [w2 [x|e]] eqn:E1; [|inversion H].
      destruct (settle_one_ok _ _ _ _ _ _ _ E1 Hfr Hh) as (ops & st' & e & Hts & _).
      destruct Hts as (Ha & Hr & (p & Hp & Hops) & Hel & Het & Hfr2 & Hh2 & Hframe & Hst & Hhd).
      destruct (IH _ _ _ _ _ _ H Hfr2 Hh2)
        as (fr1 & extra & B1 & B2 & B3 & B4 & B5 & B6 & B7 & B8 & B9 & B10).
      cbn [f_init f_state f_tick h_init h_entries] in *.
      exists fr1, (e :: extra). rewrite <- app_assoc in B2. cbn [app] in B2.
      assert (Hcoh : coherent target (h_entries h) -> coherent target (h_entries h ++ e :: extra)).
      { intros Hc. replace (h_entries h ++ e :: extra) with ((h_entries h ++ [e]) ++ extra)
          by (rewrite <- app_assoc; reflexivity).
        apply B10. apply coherent_snoc; auto. }
      repeat match goal with |- _ /\ _ => split end; auto.
      + rewrite B4. unfold lenN. cbn [length]. lia.
      + unfold lenN in *. cbn [length]. lia.
      + cbn [Strand.replay_entries]. rewrite Hp, Hops, Ha, Hr, N.eqb_refl. exact B6.
      + intros l Hl. destruct (B7 l Hl) as [X1 X2]. destruct (Hframe l Hl) as [Y1 Y2]. split; congruence.
      + congruence.
      + congruence.
  Qed.

  (* a successful loop over the decisions planned from [sim] drives the target's state to the
     plan's final simulated state *)
  Lemma settle_follows_plan pol target child aa bm bo ces sfx : forall sim blocked w acc w1 refs fr h,
    child <> target ->
    entries_of (snd w) child = Some ces ->
    (forall e, In e sfx -> e_lane e = child /\ nthN ces (e_tick e) = Some e) ->
    alookup target (rt_lanes (fst w)) = Some fr -> f_state fr = sim ->
    alookup target (pv_lanes (snd w)) = Some h ->
    settle_loop target w (plan_rec pol target aa bm bo sim blocked sfx) acc = (w1, Ok refs) ->
    exists fr1, alookup target (rt_lanes (fst w1)) = Some fr1 /\
                f_state fr1 = plan_sim pol target aa bm bo sim blocked sfx.
  Proof.
    induction sfx as [|e sfx IH]; intros sim blocked w acc w1 refs fr h Hne Hces Hpos Hfr Hsim Hh H;
      cbn [Strand.plan_rec plan_sim] in *.
    - cbn in H. inversion H; subst. exists fr; auto.
    - destruct (plan_step pol target aa bm bo sim blocked e) as [[d sim'] b'] eqn:Es.
      cbn [Strand.settle_loop] in H.
      destruct (settle_one target w d) as [w2 [x|er]] eqn:E1; [|inversion H].
      destruct (settle_one_ok _ _ _ _ _ _ _ E1 Hfr Hh) as (ops & st' & e2 & Hts & Hd).
      destruct Hts as (Ha & Hr & _ & _ & _ & Hfr2 & Hh2 & Hframe & _ & _).
      assert (Hst : st' = sim').
      { destruct (plan_step_cases _ _ _ _ _ _ _ _ _ _ _ Es)
          as [(p & cand & rv & Hb & Hp & Hap & Hdd & Hs & Hb' & Hov)|(Hs & Hb' & Ht)].
        - subst d. cbn [fst snd e_ref] in Hd. destruct Hd as (es & se & p' & He1 & He2 & He3 & Hops).
          destruct (Hpos e (or_introl eq_refl)) as [Hl Hn].
          rewrite Hl, Hces in He1. inversion He1; subst es. rewrite Hn in He2. inversion He2; subst se.
          rewrite Hp in He3. inversion He3; subst p'. subst ops. rewrite Hsim, Hap in Ha.
          inversion Ha; subst. reflexivity.
        - assert (ops = []) by (destruct d; auto; cbn in Ht; congruence).
          subst ops. cbn in Ha. inversion Ha; subst. congruence. }
      subst st'.
      eapply (IH sim' b' w2); eauto.
      unfold entries_of in *. destruct (Hframe child Hne) as [_ X]. rewrite X. exact Hces.
      intros e0 Hin; apply Hpos; right; exact Hin.
  Qed.


  (* ---------------------------------------------------------------- plan and report, unpacked *)
  Lemma frontier_matches_ok rt pv l t :
    frontier_matches rt pv l = Ok t ->
    exists fr es, alookup l (rt_lanes rt) = Some fr /\ entries_of pv l = Some es /\ f_tick fr = lenN es /\ t = f_tick fr.
  Proof.
    unfold frontier_matches. destruct (alookup l (rt_lanes rt)) as [fr|]; [|discriminate].
    destruct (entries_of pv l) as [es|]; [|discriminate].
    destruct (N.eqb (f_tick fr) (lenN es)) eqn:E; [|discriminate].
    intros H; inversion H; subst. apply N.eqb_eq in E. exists fr, es; auto.
  Qed.

  Definition at_anchor_of (rp : report) : bool := match rp_reval rp with AtAnchor => true | _ => false end.
  Definition base_moved_of (s : strand) (tick : N) (pes : list entry) : bool :=
    negb (N.eqb tick (st_fork_tick s + 1)) ||
    negb (match tip_ref pes with Some r => pref_eqb r (st_ref s) | None => false end).

  Lemma plan_ok w sid pol pl :
    plan w sid pol = Ok pl ->
    exists s tfr pes ces rp,
      alookup sid (rt_strands (fst w)) = Some s /\ st_shared s = true /\
      alookup (st_src s) (rt_lanes (fst w)) = Some tfr /\ f_tick tfr = lenN pes /\
      entries_of (snd w) (st_src s) = Some pes /\ entries_of (snd w) (st_child s) = Some ces /\
      live_basis_report (snd w) s = Ok rp /\
      pl = mkPlan sid (st_src s) (st_ref s) rp
                  (plan_rec pol (st_src s) (at_anchor_of rp) (base_moved_of s (f_tick tfr) pes)
                            (basis_overlap_slots rp) (f_state tfr) None (skipnN (st_fork_tick s + 1) ces)).
  Proof.
    destruct w as [rt pv]. unfold Strand.plan. cbn [fst snd].
    destruct (alookup sid (rt_strands rt)) as [s|] eqn:Es; [|discriminate].
    destruct (st_shared s) eqn:Esh; cbn [negb]; [|discriminate].
    destruct (frontier_matches rt pv (st_src s)) as [tt|] eqn:Ef1; [|discriminate].
    destruct (frontier_matches rt pv (st_child s)) as [ct|] eqn:Ef2; [|discriminate].
    destruct (live_basis_report pv s) as [rp|] eqn:Er; [|discriminate].
    destruct (frontier_matches_ok _ _ _ _ Ef1) as (tfr & pes & A1 & A2 & A3 & A4).
    destruct (frontier_matches_ok _ _ _ _ Ef2) as (cfr & ces & B1 & B2 & B3 & B4).
    rewrite A1, A2, B2. intros H; inversion H; subst.
    exists s, tfr, pes, ces, rp. repeat split; auto.
  Qed.

  Lemma skipnN_all {A} (l : list A) : skipnN (lenN l) l = [].
  Proof. unfold skipnN, lenN. rewrite Nnat.Nat2N.id. apply skipn_all. Qed.

  Lemma in_patches_of es p : In p (patches_of es) <-> exists e, In e es /\ e_patch e = Some p.
  Proof.
    unfold patches_of. rewrite in_flat_map. split.
    - intros (e & Hin & Hp). exists e. split; [exact Hin|]. destruct (e_patch e) as [p'|]; cbn in Hp; [|contradiction].
      destruct Hp as [->|[]]; reflexivity.
    - intros (e & Hin & Hp). exists e. split; [exact Hin|]. rewrite Hp. left; reflexivity.
  Qed.

  (* the basis report exposes exactly the parent-written slots inside the strand's closed footprint *)
  Lemma report_overlap pv s rp pes ces x :
    live_basis_report pv s = Ok rp ->
    entries_of pv (st_src s) = Some pes -> entries_of pv (st_child s) = Some ces ->
    memN x (parent_writes (skipnN (st_fork_tick s + 1) pes)) = true ->
    forall e p, In e (skipnN (st_fork_tick s + 1) ces) -> e_patch e = Some p -> memN x (p_out p) = true ->
    match basis_overlap_slots rp with Some ovl => memN x ovl = true | None => False end.
  Proof.
    unfold live_basis_report. intros H Hp Hc HW e p Hin Hpe Hout. rewrite Hc, Hp in H.
    destruct (lenN ces <? st_fork_tick s + 1); [discriminate|].
    destruct (lenN pes <? st_fork_tick s + 1); [discriminate|].
    set (owned := skipnN (st_fork_tick s + 1) ces) in *.
    set (moved := skipnN (st_fork_tick s + 1) pes) in *.
    assert (Hcl : contains_closed owned x = true).
    { unfold contains_closed. apply orb_true_iff. right. unfold div_writes. rewrite memN_set_of.
      apply memN_in. apply in_flat_map. exists p. split; [|apply memN_in; exact Hout].
      apply in_patches_of. exists e; auto. }
    assert (Hov : In x (overlapping_parent_writes owned moved)).
    { unfold overlapping_parent_writes. apply filter_In. split; [apply memN_in; exact HW|exact Hcl]. }
    inversion H; subst rp; clear H. unfold basis_overlap_slots. cbn [rp_reval].
    destruct (N.eqb (lenN pes) (st_fork_tick s + 1)) eqn:Ea.
    - apply N.eqb_eq in Ea. subst moved. rewrite <- Ea, skipnN_all in HW. cbn in HW. discriminate.
    - destruct (overlapping_parent_writes owned moved) as [|o ov] eqn:Eo; [destruct Hov|].
      apply memN_in; exact Hov.
  Qed.

  Definition honest_on (W : list slot) (sfx : list entry) : Prop :=
    forall e p x, In e sfx -> e_patch e = Some p -> In x (patch_writes p) -> memN x W = true -> memN x (p_out p) = true.
  Definition honest_slots (sfx : list entry) : Prop :=
    forall e p x, In e sfx -> e_patch e = Some p -> In x (patch_writes p) -> memN x (p_out p) = true.

  Lemma honest_slots_on W sfx : honest_slots sfx -> honest_on W sfx.
  Proof. intros H e p x Hin Hp Hx _. eapply H; eauto. Qed.

  Lemma coherent_suffix l es n e :
    coherent l es -> In e (skipnN n es) -> e_lane e = l /\ nthN es (e_tick e) = Some e.
  Proof.
    intros Hc Hin. unfold skipnN in Hin.
    assert (Hin' : In e es).
    { rewrite <- (firstn_skipn (N.to_nat n) es). apply in_or_app; right; exact Hin. }
    destruct (In_nth_error _ _ Hin') as [i Hi].
    assert (Hn : nthN es (N.of_nat i) = Some e) by (unfold nthN; rewrite Nnat.Nat2N.id; exact Hi).
    destruct (Hc _ _ Hn) as [Hl Ht]. split; [exact Hl|]. rewrite Ht. exact Hn.
  Qed.

  (* the whole of a successful settlement, as seen from the target lane *)
  Lemma settle_ok w sid pol w' out :
    settle w sid pol = (w', Ok out) ->
    exists s tfr pes ces rp,
      alookup sid (rt_strands (fst w)) = Some s /\ st_shared s = true /\
      alookup (st_src s) (rt_lanes (fst w)) = Some tfr /\ f_tick tfr = lenN pes /\
      entries_of (snd w) (st_src s) = Some pes /\ entries_of (snd w) (st_child s) = Some ces /\
      live_basis_report (snd w) s = Ok rp /\
      so_plan out = mkPlan sid (st_src s) (st_ref s) rp
                  (plan_rec pol (st_src s) (at_anchor_of rp) (base_moved_of s (f_tick tfr) pes)
                            (basis_overlap_slots rp) (f_state tfr) None (skipnN (st_fork_tick s + 1) ces)) /\
      (pl_decisions (so_plan out) = [] /\ w' = w \/
       exists w1 refs pv2,
         settle_loop (st_src s) w (pl_decisions (so_plan out)) [] = (w1, Ok refs) /\
         fst w' = fst w1 /\ snd w' = pv2 /\ pv_lanes pv2 = pv_lanes (snd w1)).
  Proof.
    unfold Strand.settle. destruct (plan w sid pol) as [pl|e0] eqn:Ep; [|intros H; inversion H].
    destruct (plan_ok _ _ _ _ Ep) as (s & tfr & pes & ces & rp & A1 & A2 & A3 & A4 & A5 & A6 & A7 & A8).
    destruct (pl_decisions pl) as [|d ds] eqn:Ed.
    { intros H; inversion H; subst w' out. cbn [so_plan]. exists s, tfr, pes, ces, rp.
      repeat split; auto; try (left; split; [exact Ed|reflexivity]). }
    destruct (checkpoint_for (snd w) (pl_target pl)) as [ck|]; [|intros H; inversion H].
    destruct (settle_loop (pl_target pl) w (d :: ds) []) as [w1 [refs|e1]] eqn:El; [|intros H; inversion H].
    destruct (append_shell (snd w1) _) as [pv2|e2] eqn:Esh; [|intros H; inversion H].
    intros H; inversion H; subst w' out. cbn [so_plan fst snd].
    exists s, tfr, pes, ces, rp. repeat split; auto. right.
    exists w1, refs, pv2. rewrite Ed. subst pl. cbn [pl_target] in El. repeat split; auto.
    unfold append_shell in Esh.
    destruct (alookup _ (pv_shells (snd w1))) as [old|].
    - destruct (shell_eqb old _); inversion Esh; reflexivity.
    - destruct (existsb _ _); inversion Esh; reflexivity.
  Qed.

  (* never_overwrite *)
  Lemma never_overwrite_lemma w sid pol w' out s pfr pfr' pes ces x :
    settle w sid pol = (w', Ok out) ->
    alookup sid (rt_strands (fst w)) = Some s -> st_child s <> st_src s ->
    entries_of (snd w) (st_src s) = Some pes -> entries_of (snd w) (st_child s) = Some ces ->
    coherent (st_child s) ces ->
    alookup (st_src s) (rt_lanes (fst w)) = Some pfr ->
    alookup (st_src s) (rt_lanes (fst w')) = Some pfr' ->
    honest_on (parent_writes (skipnN (st_fork_tick s + 1) pes)) (skipnN (st_fork_tick s + 1) ces) ->
    memN x (parent_writes (skipnN (st_fork_tick s + 1) pes)) = true ->
    sget (f_state pfr') x = sget (f_state pfr) x.
  Proof.
    intros Hs Hst Hne Hpes Hces Hco Hpfr Hpfr' Hhon HW.
    destruct (settle_ok _ _ _ _ _ Hs) as (s0 & tfr & pes0 & ces0 & rp & A1 & A2 & A3 & A4 & A5 & A6 & A7 & A8 & A9).
    rewrite Hst in A1; inversion A1; subst s0.
    rewrite Hpes in A5; inversion A5; subst pes0. rewrite Hces in A6; inversion A6; subst ces0.
    rewrite Hpfr in A3; inversion A3; subst tfr.
    destruct A9 as [[_ Hw]|(w1 & refs & pv2 & Hl & Hf & _ & _)].
    { subst w'. rewrite Hpfr in Hpfr'. inversion Hpfr'; reflexivity. }
    rewrite A8 in Hl. cbn [pl_decisions] in Hl.
    destruct (alookup (st_src s) (pv_lanes (snd w))) as [h|] eqn:Eh.
    2:{ unfold entries_of in Hpes. rewrite Eh in Hpes. discriminate. }
    destruct (settle_follows_plan _ _ _ _ _ _ _ _ _ _ _ _ _ _ _ _ Hne Hces
                (fun e Hin => coherent_suffix _ _ _ _ Hco Hin) Hpfr eq_refl Eh Hl) as (fr1 & Hfr1 & Hsim).
    rewrite Hf, Hfr1 in Hpfr'. inversion Hpfr'; subst pfr'. rewrite Hsim.
    apply plan_sim_preserves.
    - intros e p Hin Hp Hout. eapply report_overlap; eauto.
    - intros e p Hin Hp Hx. eapply Hhon; eauto.
  Qed.

  (* import_takes_strand_values *)
  Lemma import_takes_strand_values_lemma w sid pol w' out s pfr pfr' ces x cst0 cstn :
    settle w sid pol = (w', Ok out) ->
    alookup sid (rt_strands (fst w)) = Some s -> st_child s <> st_src s ->
    entries_of (snd w) (st_child s) = Some ces -> coherent (st_child s) ces ->
    alookup (st_src s) (rt_lanes (fst w)) = Some pfr ->
    alookup (st_src s) (rt_lanes (fst w')) = Some pfr' ->
    sget (f_state pfr) x = sget cst0 x ->
    apply_entries cst0 (firstn (n_imports (pl_decisions (so_plan out))) (skipnN (st_fork_tick s + 1) ces)) = Some cstn ->
    sget (f_state pfr') x = sget cstn x.
  Proof.
    intros Hs Hst Hne Hces Hco Hpfr Hpfr' Hag Hre.
    destruct (settle_ok _ _ _ _ _ Hs) as (s0 & tfr & pes0 & ces0 & rp & A1 & A2 & A3 & A4 & A5 & A6 & A7 & A8 & A9).
    rewrite Hst in A1; inversion A1; subst s0.
    rewrite Hces in A6; inversion A6; subst ces0.
    rewrite Hpfr in A3; inversion A3; subst tfr.
    rewrite A8 in Hre. cbn [pl_decisions] in Hre.
    destruct A9 as [[Hnil Hw]|(w1 & refs & pv2 & Hl & Hf & _ & _)].
    { subst w'. rewrite Hpfr in Hpfr'. inversion Hpfr'; subst pfr'.
      rewrite A8 in Hnil. cbn [pl_decisions] in Hnil. rewrite Hnil in Hre. cbn in Hre.
      inversion Hre; subst. exact Hag. }
    rewrite A8 in Hl. cbn [pl_decisions] in Hl.
    destruct (alookup (st_src s) (pv_lanes (snd w))) as [h|] eqn:Eh.
    2:{ unfold entries_of in A5. rewrite Eh in A5. discriminate. }
    destruct (settle_follows_plan _ _ _ _ _ _ _ _ _ _ _ _ _ _ _ _ Hne Hces
                (fun e Hin => coherent_suffix _ _ _ _ Hco Hin) Hpfr eq_refl Eh Hl) as (fr1 & Hfr1 & Hsim).
    rewrite Hf, Hfr1 in Hpfr'. inversion Hpfr'; subst pfr'. rewrite Hsim.
    eapply plan_sim_agrees; eauto.
  Qed.

  (* a lane whose state came from a fork state by honest patches still agrees with the fork state
     off the slots those patches declared as written *)
  Lemma unchanged_off_writes moved : forall st0 st x,
    apply_entries st0 moved = Some st -> honest_slots moved ->
    memN x (parent_writes moved) = false -> sget st x = sget st0 x.
  Proof.
    induction moved as [|e r IH]; cbn [apply_entries]; intros st0 st x H Hhon HW.
    - inversion H; reflexivity.
    - destruct (e_patch e) as [p|] eqn:Ep; [|discriminate].
      destruct (apply_ops st0 (p_ops p)) as [st1|] eqn:Ea; [|discriminate].
      assert (Hx : ~ In x (patch_writes p)).
      { intro Hin. assert (Ho : memN x (p_out p) = true) by (eapply Hhon; [left; reflexivity|exact Ep|exact Hin]).
        unfold parent_writes in HW. rewrite memN_set_of in HW.
        assert (memN x (flat_map p_out (patches_of (e :: r))) = true).
        { apply memN_in. apply in_flat_map. exists p. split; [|apply memN_in; exact Ho].
          apply in_patches_of. exists e. split; [left; reflexivity|exact Ep]. }
        congruence. }
      rewrite (IH st1 st x H).
      + eapply apply_ops_frame; eauto.
      + intros e0 p0 y Hin. apply Hhon. right; exact Hin.
      + unfold parent_writes in *. rewrite memN_set_of in *.
        destruct (memN x (flat_map p_out (patches_of r))) eqn:E; [|reflexivity].
        apply memN_in in E. apply in_flat_map in E. destruct E as (p0 & Hp0 & Hx0).
        apply in_patches_of in Hp0. destruct Hp0 as (e0 & He0 & Hpe0).
        assert (memN x (flat_map p_out (patches_of (e :: r))) = true).
        { apply memN_in. apply in_flat_map. exists p0. split; [|exact Hx0].
          apply in_patches_of. exists e0. split; [right; exact He0|exact Hpe0]. }
        congruence.
  Qed.

  (* parent_stays_verifiable *)
  Lemma parent_stays_verifiable_lemma w sid pol w' out s pfr pes :
    settle w sid pol = (w', Ok out) ->
    alookup sid (rt_strands (fst w)) = Some s ->
    alookup (st_src s) (rt_lanes (fst w)) = Some pfr -> entries_of (snd w) (st_src s) = Some pes ->
    replay_entries (f_init pfr) pes = Some (f_state pfr) ->
    exists pfr' pes' extra,
      alookup (st_src s) (rt_lanes (fst w')) = Some pfr' /\ entries_of (snd w') (st_src s) = Some pes' /\
      pes' = pes ++ extra /\ lenN extra = lenN (pl_decisions (so_plan out)) /\
      f_init pfr' = f_init pfr /\ f_tick pfr' = f_tick pfr + lenN extra /\
      replay_entries (f_init pfr') pes' = Some (f_state pfr').
  Proof.
    intros Hs Hst Hpfr Hpes Hre.
    destruct (settle_ok _ _ _ _ _ Hs) as (s0 & tfr & pes0 & ces0 & rp & A1 & A2 & A3 & A4 & A5 & A6 & A7 & A8 & A9).
    rewrite Hst in A1; inversion A1; subst s0.
    destruct A9 as [[Hnil Hw]|(w1 & refs & pv2 & Hl & Hf & Hsn & Hlanes)].
    { subst w'. exists pfr, pes, []. rewrite app_nil_r, Hnil. repeat split; auto. unfold lenN; cbn; lia. }
    destruct (alookup (st_src s) (pv_lanes (snd w))) as [h|] eqn:Eh.
    2:{ unfold entries_of in Hpes. rewrite Eh in Hpes. discriminate. }
    unfold entries_of in Hpes. rewrite Eh in Hpes. cbn in Hpes. inversion Hpes; subst pes.
    destruct (settle_loop_ok _ _ _ _ _ _ _ _ Hl Hpfr Eh)
      as (fr1 & extra & B1 & B2 & B3 & B4 & B5 & B6 & _).
    exists fr1, (h_entries h ++ extra), extra.
    rewrite Hf, B1. unfold entries_of. rewrite Hsn, Hlanes, B2. cbn [option_map h_entries].
    repeat split; auto.
    rewrite B3. rewrite (replay_entries_app _ _ _ _ Hre). exact B6.
  Qed.

  (* plan_pure_deterministic: the plan is a function of the strand record, the two frontiers and the
     two histories only -- whatever else differs between two worlds, the plans are equal *)
  Lemma plan_frame w1 w2 sid pol :
    alookup sid (rt_strands (fst w1)) = alookup sid (rt_strands (fst w2)) ->
    (forall s, alookup sid (rt_strands (fst w1)) = Some s ->
       alookup (st_src s) (rt_lanes (fst w1)) = alookup (st_src s) (rt_lanes (fst w2)) /\
       alookup (st_child s) (rt_lanes (fst w1)) = alookup (st_child s) (rt_lanes (fst w2)) /\
       alookup (st_src s) (pv_lanes (snd w1)) = alookup (st_src s) (pv_lanes (snd w2)) /\
       alookup (st_child s) (pv_lanes (snd w1)) = alookup (st_child s) (pv_lanes (snd w2))) ->
    plan w1 sid pol = plan w2 sid pol.
  Proof.
    destruct w1 as [rt1 pv1], w2 as [rt2 pv2]. cbn [fst snd]. intros Hs Hl.
    unfold Strand.plan. rewrite <- Hs. destruct (alookup sid (rt_strands rt1)) as [s|]; [|reflexivity].
    destruct (Hl s eq_refl) as (L1 & L2 & P1 & P2).
    unfold frontier_matches, live_basis_report, entries_of. rewrite <- L1, <- L2, <- P1, <- P2. reflexivity.
  Qed.


  (* ---------------------------------------------------------------- coherence is an invariant *)
  Definition coherent_prov (pv : prov) : Prop :=
    forall l h, alookup l (pv_lanes pv) = Some h -> coherent l (h_entries h).

  Lemma coherent_init c : coherent_prov (snd (init_world Hroot c)).
  Proof.
    intros l h. cbn. destruct (N.eqb l 0); [|discriminate]. intros H; inversion H; subst; cbn.
    intros i e Hn. unfold nthN in Hn. destruct (N.to_nat i); discriminate.
  Qed.

  Lemma coherent_tick w hk p w' : coherent_prov (snd w) -> tick w hk p = Ok w' -> coherent_prov (snd w').
  Proof.
    intros Hc Ht. destruct (tick_ok _ _ _ _ Ht)
      as (fr & h & st' & e & A1 & A2 & A3 & A4 & A5 & A6 & A7 & A8 & A9 & A10 & A11 & A12).
    intros l h' Hl. rewrite A12 in Hl. cbn [pv_lanes] in Hl.
    destruct (N.eq_dec l (fst hk)) as [->|Hne].
    - rewrite (alookup_aupdate_same _ _ _ _ A2) in Hl. inversion Hl; subst h'. cbn.
      apply coherent_snoc; auto; eapply Hc; exact A2.
    - rewrite alookup_aupdate_other in Hl by exact Hne. eapply Hc; exact Hl.
  Qed.

  Lemma coherent_fork w q w' : coherent_prov (snd w) -> fork_steps w q = Ok w' -> coherent_prov (snd w').
  Proof.
    intros Hc Hf. destruct (fork_steps_ok _ _ _ Hf)
      as [sfr [h [cst [se [Hsfr [Hh [Hm [Hml [Hms [Hne [Hl1 [Hfa [Hdh [Hse [Hpv Hrt]]]]]]]]]]]]]]].
    intros l h' Hl. rewrite Hpv in Hl. cbn [pv_lanes] in Hl.
    destruct (N.eq_dec l (fq_child q)) as [->|Hd].
    - rewrite (alookup_app_new _ _ _ Hm) in Hl. inversion Hl; subst h'. cbn [h_entries].
      intros i e Hn. unfold nthN, firstnN in Hn. rewrite nth_error_map in Hn.
      destruct (nth_error (firstn (N.to_nat (fq_tick q + 1)) (h_entries h)) (N.to_nat i)) as [e0|] eqn:E0;
        cbn in Hn; [|discriminate].
      inversion Hn; subst e. cbn. split; [reflexivity|].
      assert (Hin : nth_error (h_entries h) (N.to_nat i) = Some e0).
      { destruct (Nat.lt_ge_cases (N.to_nat i) (N.to_nat (fq_tick q + 1))) as [Hlt|Hge].
        - rewrite nth_error_firstn_lt in E0 by exact Hlt. exact E0.
        - assert (nth_error (firstn (N.to_nat (fq_tick q + 1)) (h_entries h)) (N.to_nat i) = None).
          { apply nth_error_None. rewrite firstn_length. lia. }
          congruence. }
      destruct (Hc _ _ Hh i e0 Hin) as [_ Ht]. exact Ht.
    - rewrite alookup_app_old in Hl by exact Hd. eapply Hc; exact Hl.
  Qed.

  Lemma coherent_settle w sid pol w' out :
    coherent_prov (snd w) -> settle w sid pol = (w', Ok out) -> coherent_prov (snd w').
  Proof.
    intros Hc Hs.
    destruct (settle_ok _ _ _ _ _ Hs) as (s & tfr & pes & ces & rp & A1 & A2 & A3 & A4 & A5 & A6 & A7 & A8 & A9).
    destruct A9 as [[_ Hw]|(w1 & refs & pv2 & Hl & Hf & Hsn & Hlanes)]; [subst; exact Hc|].
    destruct (alookup (st_src s) (pv_lanes (snd w))) as [h|] eqn:Eh.
    2:{ unfold entries_of in A5. rewrite Eh in A5. discriminate. }
    destruct (settle_loop_ok _ _ _ _ _ _ _ _ Hl A3 Eh)
      as (fr1 & extra & B1 & B2 & B3 & B4 & B5 & B6 & B7 & B8 & B9 & B10).
    intros l h' Hl'. rewrite Hsn, Hlanes in Hl'.
    destruct (N.eq_dec l (st_src s)) as [->|Hd].
    - rewrite B2 in Hl'. inversion Hl'; subst h'. cbn. apply B10. eapply Hc; exact Eh.
    - destruct (B7 l Hd) as [_ X]. rewrite X in Hl'. eapply Hc; exact Hl'.
  Qed.

  Lemma coherent_preserved w :
    coherent_prov (snd w) ->
    (forall hk p w', tick w hk p = Ok w' -> coherent_prov (snd w')) /\
    (forall q w', fork_steps w q = Ok w' -> coherent_prov (snd w')) /\
    (forall sid pol w' out, settle w sid pol = (w', Ok out) -> coherent_prov (snd w')).
  Proof.
    intros H. split; [|split].
    - intros; eapply coherent_tick; eauto.
    - intros; eapply coherent_fork; eauto.
    - intros; eapply coherent_settle; eauto.
  Qed.

End WithHash.

(* ------------------------------------------------------------------ decidable versions (for examples) *)
Definition honest_slotsb (sfx : list entry) : bool :=
  forallb (fun e => match e_patch e with
                    | Some p => forallb (fun x => memN x (p_out p)) (patch_writes p)
                    | None => true
                    end) sfx.

Lemma honest_slotsb_spec sfx : honest_slotsb sfx = true -> honest_slots sfx.
Proof.
  unfold honest_slotsb, honest_slots. rewrite forallb_forall. intros H e p x Hin Hp Hx.
  specialize (H e Hin). rewrite Hp in H. rewrite forallb_forall in H. apply H; exact Hx.
Qed.

Fixpoint coherentb_from (l : lane) (i : N) (es : list entry) : bool :=
  match es with
  | [] => true
  | e :: r => N.eqb (e_lane e) l && N.eqb (e_tick e) i && coherentb_from l (i + 1) r
  end.

Lemma coherentb_from_spec l es : forall i0, coherentb_from l i0 es = true ->
  forall n e, nth_error es n = Some e -> e_lane e = l /\ e_tick e = i0 + N.of_nat n.
Proof.
  induction es as [|e0 r IH]; intros i0 H n e Hn; [destruct n; discriminate|].
  cbn in H. apply andb_true_iff in H. destruct H as [H H3]. apply andb_true_iff in H. destruct H as [H1 H2].
  apply N.eqb_eq in H1. apply N.eqb_eq in H2.
  destruct n as [|n]; cbn in Hn.
  - inversion Hn; subst. split; [reflexivity|]. cbn. lia.
  - destruct (IH _ H3 n e Hn) as [A B]. split; [exact A|]. rewrite B. lia.
Qed.

Lemma coherentb_spec l es : coherentb_from l 0 es = true -> coherent l es.
Proof.
  intros H i e Hn. unfold nthN in Hn. destruct (coherentb_from_spec l es 0 H _ _ Hn) as [A B].
  split; [exact A|]. rewrite B. cbn. apply Nnat.N2Nat.id.
Qed.

Lemma alookup_in {A} k (a : A) l : alookup k l = Some a -> In (k, a) l.
Proof.
  induction l as [|[k1 a1] r IH]; cbn; [discriminate|].
  destruct (N.eqb k k1) eqn:E; intros H.
  - apply N.eqb_eq in E; subst. inversion H; subst. left; reflexivity.
  - right; auto.
Qed.

Definition wf_strandsb (rt : runtime) : bool :=
  forallb (fun ks : N * strand =>
             negb (N.eqb (st_child (snd ks)) (st_src (snd ks))) &&
             forallb (fun hk : hkey => N.eqb (fst hk) (st_child (snd ks))) (st_heads (snd ks)))
          (rt_strands rt).

Lemma wf_strandsb_spec rt : wf_strandsb rt = true -> wf_strands rt.
Proof.
  unfold wf_strandsb, wf_strands. rewrite forallb_forall. intros H sid s Hs.
  specialize (H _ (alookup_in _ _ _ Hs)). cbn in H. apply andb_true_iff in H. destruct H as [H1 H2].
  split.
  - apply N.eqb_neq. destruct (N.eqb (st_child s) (st_src s)); [discriminate|reflexivity].
  - intros hk Hin. rewrite forallb_forall in H2. apply N.eqb_eq. apply H2; exact Hin.
Qed.

Definition coherent_provb (pv : prov) : bool :=
  forallb (fun lh : lane * history => coherentb_from (fst lh) 0 (h_entries (snd lh))) (pv_lanes pv).

Lemma coherent_provb_spec pv : coherent_provb pv = true -> coherent_prov pv.
Proof.
  unfold coherent_provb, coherent_prov. rewrite forallb_forall. intros H l h Hl.
  apply coherentb_spec. exact (H _ (alookup_in _ _ _ Hl)).
Qed.

Lemma init_world_wellformed Hroot c :
  coherent_prov (snd (init_world Hroot c)) /\ wf_strands (fst (init_world Hroot c)).
Proof.
  split; [apply coherent_init|]. intros sid s H. cbn in H. discriminate.
Qed.

(* ------------------------------------------------------------------ the scenario of the non-vacuity Example (Props/C15.v) *)
Definition ex_init : list (slot * value) := [(10, 1); (12, 1); (14, 1)].
Definition ex_steps : list step :=
  [ STick [((0, 0), mkPatch [10; 11] [11] [mkOp [10] [(11, Some 1)]])];
    SFork (mkForkReq 0 0 0 1 [(1, 0)] true);
    STick [((0, 0), mkPatch [12; 13] [13] [mkOp [12] [(13, Some 5)]])];
    STick [((1, 0), mkPatch [14; 15] [15] [mkOp [14] [(15, Some 7)]])];
    STick [((1, 0), mkPatch [10; 11; 13] [11] [mkOp [10] [(11, Some 2)]])];
    STick [((1, 0), mkPatch [12; 13] [13] [mkOp [12] [(13, Some 9)]])] ].
Definition ex_w : world := world_c ex_init ex_steps.

