(* Lemmas about the strand / settlement model (Model/Strand.v). *)
From Coq Require Import List NArith Bool Lia Arith PeanoNat.
From Echo Require Import Base.FinMap Base.Order Model.Strand.
Import ListNotations.
Open Scope N_scope.

(* ------------------------------------------------------------------ association lists *)
Lemma alookup_app_new {A} k (a : A) l : amem k l = false -> alookup k (l ++ [(k, a)]) = Some a.
Proof.
  unfold amem. induction l as [|[k' a'] r IH]; cbn; intros H.
  - rewrite N.eqb_refl; reflexivity.
  - destruct (N.eqb k k') eqn:E; [discriminate|]. apply IH; exact H.
Qed.

Lemma alookup_app_old {A} k k' (a : A) l : k <> k' -> alookup k (l ++ [(k', a)]) = alookup k l.
Proof.
  intros Hne. induction l as [|[k1 a1] r IH]; cbn.
  - destruct (N.eqb k k') eqn:E; [apply N.eqb_eq in E; contradiction|reflexivity].
  - destruct (N.eqb k k1); auto.
Qed.

Lemma alookup_app_some {A} k (x : A) l l' : alookup k l = Some x -> alookup k (l ++ l') = Some x.
Proof.
  induction l as [|[k1 a1] r IH]; cbn; [discriminate|].
  destruct (N.eqb k k1); auto.
Qed.

Lemma alookup_aupdate_same {A} k (a x : A) l : alookup k l = Some x -> alookup k (aupdate k a l) = Some a.
Proof.
  induction l as [|[k1 a1] r IH]; cbn; [discriminate|].
  destruct (N.eqb k k1) eqn:E; cbn; rewrite E; auto.
Qed.

Lemma alookup_aupdate_other {A} k k' (a : A) l : k' <> k -> alookup k' (aupdate k a l) = alookup k' l.
Proof.
  intros Hne. induction l as [|[k1 a1] r IH]; cbn; [reflexivity|].
  destruct (N.eqb k k1) eqn:E; cbn.
  - apply N.eqb_eq in E; subst k1. destruct (N.eqb k' k) eqn:E'; auto.
    apply N.eqb_eq in E'; contradiction.
  - destruct (N.eqb k' k1); auto.
Qed.

Lemma aupdate_id {A} k (x : A) l : alookup k l = Some x -> aupdate k x l = l.
Proof.
  induction l as [|[k1 a1] r IH]; cbn; [reflexivity|].
  destruct (N.eqb k k1) eqn:E; intros H.
  - inversion H; subst. reflexivity.
  - f_equal; auto.
Qed.

Lemma aupdate_aupdate {A} k (a b : A) l : aupdate k b (aupdate k a l) = aupdate k b l.
Proof.
  induction l as [|[k1 a1] r IH]; cbn; [reflexivity|].
  destruct (N.eqb k k1) eqn:E; cbn; rewrite E; [reflexivity|f_equal; exact IH].
Qed.

Lemma amem_aupdate {A} k k' (a : A) l : amem k' (aupdate k a l) = amem k' l.
Proof.
  unfold amem. induction l as [|[k1 a1] r IH]; cbn; [reflexivity|].
  destruct (N.eqb k k1) eqn:E; cbn.
  - destruct (N.eqb k' k1); reflexivity.
  - destruct (N.eqb k' k1); auto.
Qed.

Lemma memN_in x l : memN x l = true <-> In x l.
Proof.
  unfold memN. rewrite existsb_exists. split.
  - intros [y [Hin E]]. apply N.eqb_eq in E; subst; exact Hin.
  - intros H. exists x. split; [exact H|apply N.eqb_refl].
Qed.

Lemma filter_keys_id {A} (l : list (N * A)) keys :
  (forall x, In x l -> memN (fst x) keys = true) -> filter (fun x => memN (fst x) keys) l = l.
Proof.
  induction l as [|x r IH]; cbn; intros H; [reflexivity|].
  rewrite (H x (or_introl eq_refl)). f_equal. apply IH. intros y Hy; apply H; right; exact Hy.
Qed.

Lemma filter_own_keys {A} (l : list (N * A)) : filter (fun x => memN (fst x) (map fst l)) l = l.
Proof.
  apply filter_keys_id. intros x Hx. apply memN_in. apply in_map; exact Hx.
Qed.

Lemma firstnN_app_len {A} (l e : list A) : firstnN (lenN l) (l ++ e) = l.
Proof.
  unfold firstnN, lenN. rewrite Nnat.Nat2N.id.
  rewrite firstn_app, Nat.sub_diag, firstn_all. cbn. apply app_nil_r.
Qed.

Lemma nth_error_firstn_lt {A} (l : list A) : forall n i, (i < n)%nat -> nth_error (firstn n l) i = nth_error l i.
Proof.
  induction l as [|x r IH]; intros n i H.
  - rewrite firstn_nil. reflexivity.
  - destruct n as [|n]; [lia|]. destruct i as [|i]; cbn; [reflexivity|]. apply IH; lia.
Qed.

(* sorted-set insertion keeps exactly the members *)
Lemma sins_in x y l : In y (sins x l) <-> y = x \/ In y l.
Proof.
  induction l as [|z r IH]; cbn; [intuition|].
  destruct (N.compare x z) eqn:E; cbn.
  - apply N.compare_eq in E; subst. intuition.
  - intuition.
  - rewrite IH. intuition.
Qed.

Lemma set_of_in_gen y l acc : In y (fold_left (fun a x => sins x a) l acc) <-> In y l \/ In y acc.
Proof.
  revert acc; induction l as [|x r IH]; intros acc; cbn; [intuition|].
  rewrite IH, sins_in. intuition.
Qed.

Lemma set_of_in y l : In y (set_of l) <-> In y l.
Proof. unfold set_of. rewrite set_of_in_gen. cbn. intuition. Qed.

Lemma memN_set_of y l : memN y (set_of l) = memN y l.
Proof.
  destruct (memN y l) eqn:E.
  - apply memN_in. apply set_of_in. apply memN_in. exact E.
  - destruct (memN y (set_of l)) eqn:E2; [|reflexivity].
    apply (proj1 (memN_in _ _)) in E2. apply (proj1 (set_of_in _ _)) in E2.
    apply (proj2 (memN_in _ _)) in E2. congruence.
Qed.

(* ------------------------------------------------------------------ state *)
Lemma sget_sput st s v s' : sget (sput st s v) s' = if N.eqb s' s then v else sget st s'.
Proof. reflexivity. Qed.

Lemma write_all_frame ws : forall st x, ~ In x (map fst ws) -> sget (write_all st ws) x = sget st x.
Proof.
  unfold write_all. induction ws as [|[s v] r IH]; intros st x Hni; cbn; [reflexivity|].
  rewrite IH by (intro H; apply Hni; right; exact H).
  rewrite sget_sput. destruct (N.eqb x s) eqn:E; [|reflexivity].
  apply N.eqb_eq in E; subst. exfalso; apply Hni; left; reflexivity.
Qed.

(* the result of a write list at a slot depends only on the incoming value at that slot *)
Lemma write_all_agree ws : forall st1 st2 x,
  sget st1 x = sget st2 x -> sget (write_all st1 ws) x = sget (write_all st2 ws) x.
Proof.
  unfold write_all. induction ws as [|[s v] r IH]; intros st1 st2 x H; cbn; [exact H|].
  apply IH. rewrite !sget_sput. destruct (N.eqb x s); auto.
Qed.

Lemma apply_op_frame st o st' x :
  apply_op st o = Some st' -> ~ In x (op_slots o) -> sget st' x = sget st x.
Proof.
  unfold apply_op, op_slots. destruct (forallb (present st) (op_req o)); [|discriminate].
  intros H Hni; inversion H; subst. apply write_all_frame; exact Hni.
Qed.

Lemma apply_ops_frame ops : forall st st' x,
  apply_ops st ops = Some st' -> ~ In x (flat_map op_slots ops) -> sget st' x = sget st x.
Proof.
  induction ops as [|o r IH]; cbn; intros st st' x H Hni.
  - inversion H; reflexivity.
  - destruct (apply_op st o) as [st1|] eqn:E; [|discriminate].
    rewrite (IH _ _ _ H) by (intro Hin; apply Hni; apply in_or_app; right; exact Hin).
    eapply apply_op_frame; [exact E|]. intro Hin; apply Hni; apply in_or_app; left; exact Hin.
Qed.

Lemma apply_op_agree st1 st2 o a b x :
  sget st1 x = sget st2 x -> apply_op st1 o = Some a -> apply_op st2 o = Some b -> sget a x = sget b x.
Proof.
  unfold apply_op. intros H.
  destruct (forallb (present st1) (op_req o)); [|discriminate].
  destruct (forallb (present st2) (op_req o)); [|discriminate].
  intros Ha Hb; inversion Ha; inversion Hb; subst. apply write_all_agree; exact H.
Qed.

Lemma apply_ops_agree ops : forall st1 st2 a b x,
  sget st1 x = sget st2 x -> apply_ops st1 ops = Some a -> apply_ops st2 ops = Some b -> sget a x = sget b x.
Proof.
  induction ops as [|o r IH]; cbn; intros st1 st2 a b x H Ha Hb.
  - inversion Ha; inversion Hb; subst; exact H.
  - destruct (apply_op st1 o) as [s1|] eqn:E1; [|discriminate].
    destruct (apply_op st2 o) as [s2|] eqn:E2; [|discriminate].
    eapply IH; [|exact Ha|exact Hb]. eapply apply_op_agree; eauto.
Qed.

Lemma vopt_eqb_eq a b : vopt_eqb a b = true -> a = b.
Proof.
  destruct a, b; cbn; try discriminate; auto. intros H; apply N.eqb_eq in H; subst; reflexivity.
Qed.

Lemma overlap_clean_spec before after slots x :
  overlap_clean before after slots = true -> In x slots -> sget after x = sget before x.
Proof.
  unfold overlap_clean. rewrite forallb_forall. intros H Hin.
  symmetry. apply vopt_eqb_eq. apply H; exact Hin.
Qed.

Section WithHash.
  Variable Hroot : list (slot * value) -> N.
  Variable Hcommit : N -> list N -> N.
  Variable Hart : lane -> pref -> N -> N.
  Variable Hplural : lane -> pref -> list slot -> N -> N.
  Variable Hshell : lane -> N -> N -> pref -> list N -> list N -> list pref -> N.

  Notation root_of := (root_of Hroot).
  Notation replay_entries := (replay_entries Hroot).
  Notation replay_at := (replay_at Hroot).
  Notation tick := (tick Hroot Hcommit).
  Notation fork_steps := (fork_steps Hroot).
  Notation fork_strand := (fork_strand Hroot).
  Notation plan_step := (plan_step Hroot Hart Hplural).
  Notation plan_rec := (plan_rec Hroot Hart Hplural).
  Notation plan := (plan Hroot Hart Hplural).
  Notation append_recorded := (append_recorded Hroot Hcommit).
  Notation settle_one := (settle_one Hroot Hcommit).
  Notation settle_loop := (settle_loop Hroot Hcommit).
  Notation settle := (settle Hroot Hcommit Hart Hplural Hshell).

  (* ---------------------------------------------------------------- fork *)
  Lemma prov_fork_ok pv src k child pv1 :
    prov_fork pv src k child = Ok pv1 ->
    exists h, alookup src (pv_lanes pv) = Some h /\ amem child (pv_lanes pv) = false /\ k < lenN (h_entries h) /\
      pv1 = mkProv (pv_lanes pv ++ [(child, mkHistory (h_init h)
                        (map (rewrite_entry src child) (firstnN (k + 1) (h_entries h))))])
                   (pv_shells pv) (pv_plural_index pv).
  Proof.
    unfold prov_fork. destruct (amem child (pv_lanes pv)) eqn:Em; [discriminate|].
    destruct (alookup src (pv_lanes pv)) as [h|] eqn:Es; [|discriminate].
    destruct (lenN (h_entries h) <=? k) eqn:El; [discriminate|].
    intros H; inversion H; subst. exists h. repeat split; auto.
    apply N.leb_gt in El; exact El.
  Qed.

  (* what a successful fork is, in one statement *)
  Lemma fork_steps_ok w q w' :
    fork_steps w q = Ok w' ->
    exists sfr h cst se,
      alookup (fq_src q) (rt_lanes (fst w)) = Some sfr /\
      alookup (fq_src q) (pv_lanes (snd w)) = Some h /\
      amem (fq_child q) (pv_lanes (snd w)) = false /\
      amem (fq_child q) (rt_lanes (fst w)) = false /\
      amem (fq_strand q) (rt_strands (fst w)) = false /\
      fq_child q <> fq_src q /\
      lenN (fq_heads q) = 1 /\
      forallb (fun hk : hkey => N.eqb (fst hk) (fq_child q)) (fq_heads q) = true /\
      existsb (fun hk => existsb (hkey_eqb hk) (rt_heads (fst w))) (fq_heads q) = false /\
      nthN (h_entries h) (fq_tick q) = Some se /\
      snd w' = mkProv (pv_lanes (snd w) ++ [(fq_child q, mkHistory (h_init h)
                         (map (rewrite_entry (fq_src q) (fq_child q)) (firstnN (fq_tick q + 1) (h_entries h))))])
                      (pv_shells (snd w)) (pv_plural_index (snd w)) /\
      fst w' = mkRuntime (rt_lanes (fst w) ++ [(fq_child q, mkFrontier (f_init sfr) cst (fq_tick q + 1))])
                         (rt_heads (fst w) ++ fq_heads q)
                         (rt_strands (fst w) ++ [(fq_strand q,
                             mkStrand (fq_strand q) (fq_src q) (fq_tick q) (e_commit se) (e_root se) (e_ref se)
                                      (fq_child q) (fq_heads q) (fq_shared q))])
                         (rt_gtick (fst w)).
  Proof.
    destruct w as [rt pv]. unfold Strand.fork_steps. cbn [fst snd].
    destruct (alookup (fq_src q) (rt_lanes rt)) as [sfr|] eqn:Esfr; [|discriminate].
    destruct (Strand.replay_at Hroot pv (fq_src q) (f_init sfr) (fq_tick q)); [|discriminate].
    destruct (prov_fork pv (fq_src q) (fq_tick q) (fq_child q)) as [pv1|] eqn:Ef; [|discriminate].
    apply prov_fork_ok in Ef. destruct Ef as [h [Eh [Em [Hlt Epv1]]]].
    destruct (Strand.replay_at Hroot pv1 (fq_child q) (f_init sfr) (fq_tick q + 1)) as [cst|]; [|discriminate].
    assert (Hsrc1 : alookup (fq_src q) (pv_lanes pv1) = Some h).
    { subst pv1; cbn. apply alookup_app_some; exact Eh. }
    rewrite Hsrc1. cbn [option_map].
    destruct (nthN (h_entries h) (fq_tick q)) as [se|] eqn:Ese; [|discriminate].
    destruct (N.eqb (fq_child q) (fq_src q)) eqn:Ecs; [discriminate|].
    destruct (N.eqb (lenN (fq_heads q)) 1) eqn:E1; cbn [negb]; [|discriminate].
    destruct (forallb (fun hk : hkey => N.eqb (fst hk) (fq_child q)) (fq_heads q)) eqn:Efa; cbn [negb]; [|discriminate].
    destruct (amem (fq_child q) (rt_lanes rt)) eqn:Eml; [discriminate|].
    destruct (existsb (fun hk => existsb (hkey_eqb hk) (rt_heads rt)) (fq_heads q)) eqn:Edh; [discriminate|].
    destruct (amem (fq_strand q) (rt_strands rt)) eqn:Ems; [discriminate|].
    intros H; inversion H; subst w'. cbn [fst snd].
    exists sfr, h, cst, se. repeat split; auto.
    - apply N.eqb_neq; exact Ecs.
    - apply N.eqb_eq; exact E1.
  Qed.

  (* fork_prefix: the child's history is exactly the rewritten first k+1 entries of the source;
     every other history, the source included, is untouched *)
  Lemma fork_prefix_lemma w q w' es :
    fork_steps w q = Ok w' ->
    entries_of (snd w) (fq_src q) = Some es ->
    entries_of (snd w') (fq_child q) =
      Some (map (rewrite_entry (fq_src q) (fq_child q)) (firstnN (fq_tick q + 1) es)) /\
    fq_tick q < lenN es /\
    (forall l, l <> fq_child q -> alookup l (pv_lanes (snd w')) = alookup l (pv_lanes (snd w))) /\
    pv_shells (snd w') = pv_shells (snd w) /\ pv_plural_index (snd w') = pv_plural_index (snd w).
  Proof.
    intros Hf Hes. destruct (fork_steps_ok _ _ _ Hf)
      as [sfr [h [cst [se [Hsfr [Hh [Hm [Hml [Hms [Hne [Hl1 [Hfa [Hdh [Hse [Hpv Hrt]]]]]]]]]]]]]]].
    unfold entries_of in *. rewrite Hh in Hes. cbn in Hes. inversion Hes; subst es.
    rewrite Hpv. cbn [pv_lanes pv_shells pv_plural_index].
    repeat split; auto.
    - rewrite alookup_app_new by exact Hm. reflexivity.
    - unfold nthN in Hse. assert (N.to_nat (fq_tick q) < length (h_entries h))%nat
        by (apply nth_error_Some; congruence).
      unfold lenN. lia.
    - intros l Hl. apply alookup_app_old; exact Hl.
  Qed.

  (* fork_heads_fresh: the strand's writer heads live on the child lane, were not registered
     before, none of them is a head of the source lane, and every old head is still registered *)
  Lemma fork_heads_fresh_lemma w q w' :
    fork_steps w q = Ok w' ->
    exists s, alookup (fq_strand q) (rt_strands (fst w')) = Some s /\
      st_heads s = fq_heads q /\ st_child s = fq_child q /\ st_src s = fq_src q /\
      st_child s <> st_src s /\
      rt_heads (fst w') = rt_heads (fst w) ++ st_heads s /\
      (forall hk, In hk (st_heads s) ->
         fst hk = st_child s /\ fst hk <> st_src s /\ existsb (hkey_eqb hk) (rt_heads (fst w)) = false) /\
      amem (st_child s) (rt_lanes (fst w)) = false.
  Proof.
    intros Hf. destruct (fork_steps_ok _ _ _ Hf)
      as [sfr [h [cst [se [Hsfr [Hh [Hm [Hml [Hms [Hne [Hl1 [Hfa [Hdh [Hse [Hpv Hrt]]]]]]]]]]]]]]].
    eexists. rewrite Hrt. cbn [rt_strands rt_heads rt_lanes].
    split; [apply alookup_app_new; exact Hms|]. cbn.
    repeat split; auto.
    - rewrite forallb_forall in Hfa. apply N.eqb_eq. apply Hfa; exact H.
    - rewrite forallb_forall in Hfa. specialize (Hfa _ H). apply N.eqb_eq in Hfa. congruence.
    - destruct (existsb (hkey_eqb hk) (rt_heads (fst w))) eqn:E; [|reflexivity].
      assert (existsb (fun hk0 => existsb (hkey_eqb hk0) (rt_heads (fst w))) (fq_heads q) = true)
        by (apply existsb_exists; exists hk; split; assumption).
      congruence.
  Qed.

  (* the basis pins the source coordinate, and the child's entry at the fork tick carries the
     same commitments *)
  Lemma fork_basis_lemma w q w' :
    fork_steps w q = Ok w' ->
    exists s se es ces ce,
      alookup (fq_strand q) (rt_strands (fst w')) = Some s /\
      entries_of (snd w) (fq_src q) = Some es /\ nthN es (fq_tick q) = Some se /\
      entries_of (snd w') (fq_child q) = Some ces /\ nthN ces (fq_tick q) = Some ce /\
      st_src s = fq_src q /\ st_fork_tick s = fq_tick q /\
      st_commit s = e_commit se /\ st_boundary s = e_root se /\ st_ref s = e_ref se /\
      e_commit ce = e_commit se /\ e_root ce = e_root se /\ e_patch ce = e_patch se /\ e_lane ce = fq_child q.
  Proof.
    intros Hf. destruct (fork_steps_ok _ _ _ Hf)
      as [sfr [h [cst [se [Hsfr [Hh [Hm [Hml [Hms [Hne [Hl1 [Hfa [Hdh [Hse [Hpv Hrt]]]]]]]]]]]]]]].
    assert (Hlt : (N.to_nat (fq_tick q) < length (h_entries h))%nat)
      by (apply nth_error_Some; unfold nthN in Hse; congruence).
    eexists. exists se, (h_entries h). eexists. exists (rewrite_entry (fq_src q) (fq_child q) se).
    rewrite Hrt, Hpv. cbn [rt_strands pv_lanes]. unfold entries_of. cbn [pv_lanes].
    rewrite Hh, (alookup_app_new _ _ _ Hm), (alookup_app_new _ _ _ Hms). cbn [option_map h_entries].
    repeat split; auto.
    unfold nthN, firstnN in *. rewrite nth_error_map.
    rewrite nth_error_firstn_lt by lia. rewrite Hse. reflexivity.
  Qed.

  Lemma fork_atomic_lemma w q e : snd (fork_strand w q) = Some e -> fst (fork_strand w q) = w.
  Proof. unfold Strand.fork_strand. destruct (fork_steps w q); cbn; [discriminate|reflexivity]. Qed.

  Lemma fork_ok_iff w q : snd (fork_strand w q) = None <-> exists w', fork_steps w q = Ok w' /\ fst (fork_strand w q) = w'.
  Proof.
    unfold Strand.fork_strand. destruct (fork_steps w q) as [w'|e]; cbn; split.
    - intros _. exists w'; auto.
    - reflexivity.
    - discriminate.
    - intros [w' [H _]]; discriminate.
  Qed.

  (* ---------------------------------------------------------------- ticks and lanes *)
  Lemma tick_ok w hk p w' :
    tick w hk p = Ok w' ->
    exists fr h st' e,
      alookup (fst hk) (rt_lanes (fst w)) = Some fr /\ alookup (fst hk) (pv_lanes (snd w)) = Some h /\
      apply_ops (f_state fr) (p_ops p) = Some st' /\
      e_patch e = Some p /\ e_root e = root_of st' /\ e_lane e = fst hk /\ e_tick e = lenN (h_entries h) /\
      e_kind e = KLocal /\ e_head e = Some hk /\ f_tick fr = lenN (h_entries h) /\
      fst w' = mkRuntime (aupdate (fst hk) (mkFrontier (f_init fr) st' (f_tick fr + 1)) (rt_lanes (fst w)))
                         (rt_heads (fst w)) (rt_strands (fst w)) (rt_gtick (fst w)) /\
      snd w' = mkProv (aupdate (fst hk) (mkHistory (h_init h) (h_entries h ++ [e])) (pv_lanes (snd w)))
                      (pv_shells (snd w)) (pv_plural_index (snd w)).
  Proof.
    destruct w as [rt pv]. unfold Strand.tick. cbn [fst snd].
    destruct (existsb (hkey_eqb hk) (rt_heads rt)); cbn [negb]; [|discriminate].
    destruct (alookup (fst hk) (rt_lanes rt)) as [fr|] eqn:Efr; [|discriminate].
    destruct (alookup (fst hk) (pv_lanes pv)) as [h|] eqn:Eh; [|discriminate].
    destruct (N.eqb (f_tick fr) u64max); [discriminate|].
    destruct (apply_ops (f_state fr) (p_ops p)) as [st'|] eqn:Ea; [|discriminate].
    destruct (N.eqb (f_tick fr) (lenN (h_entries h))) eqn:Et; cbn [negb]; [|discriminate].
    apply N.eqb_eq in Et.
    intros H; inversion H; subst w'. cbn [fst snd].
    do 4 eexists. repeat split; try reflexivity; auto.
  Qed.

  (* lane_isolation: a committed tick on one lane changes no component of any other lane
     (frontier, history), and no head, strand, shell or binding *)
  Lemma tick_frame w hk p w' :
    tick w hk p = Ok w' ->
    (forall l, l <> fst hk ->
       alookup l (rt_lanes (fst w')) = alookup l (rt_lanes (fst w)) /\
       alookup l (pv_lanes (snd w')) = alookup l (pv_lanes (snd w))) /\
    rt_heads (fst w') = rt_heads (fst w) /\ rt_strands (fst w') = rt_strands (fst w) /\
    pv_shells (snd w') = pv_shells (snd w) /\ pv_plural_index (snd w') = pv_plural_index (snd w).
  Proof.
    intros H. destruct (tick_ok _ _ _ _ H) as (fr & h & st' & e & _ & _ & _ & _ & _ & _ & _ & _ & _ & _ & Hrt & Hpv).
    rewrite Hrt, Hpv. cbn. repeat split; auto; apply alookup_aupdate_other; exact H0.
  Qed.

  (* strands registered by fork_strand keep child and source lanes apart and own their heads *)
  Definition wf_strands (rt : runtime) : Prop :=
    forall sid s, alookup sid (rt_strands rt) = Some s ->
      st_child s <> st_src s /\ (forall hk, In hk (st_heads s) -> fst hk = st_child s).

  Lemma wf_strands_fork w q w' : wf_strands (fst w) -> fork_steps w q = Ok w' -> wf_strands (fst w').
  Proof.
    intros Hwf Hf. destruct (fork_steps_ok _ _ _ Hf)
      as [sfr [h [cst [se [Hsfr [Hh [Hm [Hml [Hms [Hne [Hl1 [Hfa [Hdh [Hse [Hpv Hrt]]]]]]]]]]]]]]].
    intros sid s Hs. rewrite Hrt in Hs. cbn [rt_strands] in Hs.
    destruct (N.eq_dec sid (fq_strand q)) as [->|Hd].
    - rewrite (alookup_app_new _ _ _ Hms) in Hs. inversion Hs; subst s; cbn. split; [exact Hne|].
      intros hk Hin. rewrite forallb_forall in Hfa. apply N.eqb_eq. apply Hfa; exact Hin.
    - rewrite alookup_app_old in Hs by exact Hd. eapply Hwf; exact Hs.
  Qed.

  Lemma wf_strands_tick w hk p w' : wf_strands (fst w) -> tick w hk p = Ok w' -> wf_strands (fst w').
  Proof.
    intros Hwf H. destruct (tick_frame _ _ _ _ H) as [_ [_ [Hs _]]].
    intros sid s Hl. rewrite Hs in Hl. eapply Hwf; exact Hl.
  Qed.

  Lemma wf_strands_preserved w :
    wf_strands (fst w) ->
    (forall q w', fork_steps w q = Ok w' -> wf_strands (fst w')) /\
    (forall hk p w', tick w hk p = Ok w' -> wf_strands (fst w')).
  Proof.
    intros H. split.
    - intros q w' Hf. eapply wf_strands_fork; eauto.
    - intros hk p w' Ht. eapply wf_strands_tick; eauto.
  Qed.

  Lemma lane_isolation_lemma w sid s hk p w' :
    wf_strands (fst w) -> alookup sid (rt_strands (fst w)) = Some s ->
    tick w hk p = Ok w' ->
    (* a tick by one of the strand's heads leaves the parent lane alone *)
    (In hk (st_heads s) ->
       alookup (st_src s) (rt_lanes (fst w')) = alookup (st_src s) (rt_lanes (fst w)) /\
       alookup (st_src s) (pv_lanes (snd w')) = alookup (st_src s) (pv_lanes (snd w))) /\
    (* a tick on the parent lane leaves the strand's lane alone *)
    (fst hk = st_src s ->
       alookup (st_child s) (rt_lanes (fst w')) = alookup (st_child s) (rt_lanes (fst w)) /\
       alookup (st_child s) (pv_lanes (snd w')) = alookup (st_child s) (pv_lanes (snd w))) /\
    rt_strands (fst w') = rt_strands (fst w) /\ rt_heads (fst w') = rt_heads (fst w).
  Proof.
    intros Hwf Hs Ht. destruct (Hwf _ _ Hs) as [Hne Hheads].
    destruct (tick_frame _ _ _ _ Ht) as [Hfr [Hh [Hst _]]].
    repeat split; auto.
    - apply Hfr. rewrite (Hheads _ H). auto.
    - apply Hfr. rewrite (Hheads _ H). auto.
    - apply Hfr. rewrite H. exact Hne.
    - apply Hfr. rewrite H. exact Hne.
  Qed.

End WithHash.
