(* Lemmas about Model/Pass.v (C09). *)
From Coq Require Import List NArith Lia Bool.
From Echo Require Import Base.FinMap Base.Order Model.Pass.
Import ListNotations.
Open Scope N_scope.

(* ------------------------------------------------------------------ orders *)

Lemma hkey_order : OrderLaws hkey_cmp.
Proof. apply pair_order; apply N_order. Qed.
Lemma sub_order : OrderLaws sub_cmp.
Proof. apply pair_order; [apply hkey_order|apply N_order]. Qed.
Lemma cref_order : OrderLaws cref_cmp.
Proof. repeat apply pair_order; try apply N_order; apply sub_order. Qed.
Lemma basis_order : OrderLaws basis_cmp.
Proof. repeat apply pair_order; apply N_order. Qed.

Lemma hkey_eq_dec : forall a b : hkey, {a = b} + {a <> b}.
Proof. repeat decide equality. Qed.

(* ------------------------------------------------------------------ generic sorted-map lemmas
   (extra generic lemmas over Base/FinMap.v; kept here because Base/ is read-only for builders) *)

Section MapLemmas.
  Context {K V : Type} (cmp : K -> K -> comparison) (L : OrderLaws cmp).
  Let ceq := ol_eq cmp L.
  Let cas := ol_antisym cmp L.
  Let ctr := ol_trans cmp L.
  Notation srt := (sorted cmp).

  Lemma cmp_dec (a b : K) : {a = b} + {a <> b}.
  Proof.
    destruct (cmp a b) eqn:E.
    - left. apply ceq. exact E.
    - right. intro H. apply ceq in H. congruence.
    - right. intro H. apply ceq in H. congruence.
  Qed.

  Lemma find_set (k k' : K) (v : V) m :
    find cmp k' (set cmp k v m) = if cmp_dec k' k then Some v else find cmp k' m.
  Proof.
    destruct (cmp_dec k' k) as [->|Hne].
    - apply find_set_same; auto.
    - apply find_set_other; auto.
  Qed.

  Lemma find_del (k k' : K) (m : list (K * V)) : srt m ->
    find cmp k' (del cmp k m) = if cmp_dec k' k then None else find cmp k' m.
  Proof.
    intros Hs. destruct (cmp_dec k' k) as [->|Hne].
    - apply find_del_same; auto.
    - apply find_del_other; auto.
  Qed.

  Lemma mem_find (k : K) (m : list (K * V)) : mem cmp k m = true <-> find cmp k m <> None.
  Proof. unfold mem. destruct (find cmp k m); split; congruence. Qed.

  Lemma mem_false (k : K) (m : list (K * V)) : mem cmp k m = false <-> find cmp k m = None.
  Proof. unfold mem. destruct (find cmp k m); split; congruence. Qed.

  (* `match previous { Some(p) => insert(k, p), None => remove(k) }` undoes an insert exactly *)
  Lemma set_restore (k : K) (v : V) m : srt m ->
    restore_slot cmp k (find cmp k m) (set cmp k v m) = m.
  Proof.
    intros Hs. apply (sorted_ext cmp ceq cas ctr).
    - unfold restore_slot. destruct (find cmp k m).
      + apply set_sorted; auto. apply set_sorted; auto.
      + apply del_sorted; auto. apply set_sorted; auto.
    - exact Hs.
    - intros k'. unfold restore_slot. destruct (find cmp k m) eqn:F.
      + rewrite !find_set. destruct (cmp_dec k' k); subst; auto.
      + rewrite find_del by (apply set_sorted; auto). rewrite find_set.
        destruct (cmp_dec k' k); subst; auto.
  Qed.

  Lemma set_same (k : K) (v : V) m : srt m -> find cmp k m = Some v -> set cmp k v m = m.
  Proof.
    intros Hs F. apply (sorted_ext cmp ceq cas ctr); auto.
    - apply set_sorted; auto.
    - intros k'. rewrite find_set. destruct (cmp_dec k' k); subst; auto.
  Qed.

  Lemma del_absent (k : K) (m : list (K * V)) : srt m -> find cmp k m = None -> del cmp k m = m.
  Proof.
    intros Hs F. apply (sorted_ext cmp ceq cas ctr); auto.
    - apply del_sorted; auto.
    - intros k'. rewrite find_del by auto. destruct (cmp_dec k' k); subst; auto.
  Qed.

  Lemma find_fold_set (cp : list (K * V)) : srt cp -> forall m k,
    find cmp k (fold_left (fun m kv => set cmp (fst kv) (snd kv) m) cp m) =
    match find cmp k cp with Some v => Some v | None => find cmp k m end.
  Proof.
    induction cp as [|[k1 v1] rest IH]; intros Hs m k; cbn [fold_left find fst snd]; auto.
    cbn in Hs. destruct Hs as [Hlb Hs].
    rewrite IH by exact Hs.
    destruct (cmp k k1) eqn:E.
    - apply ceq in E; subst k1.
      rewrite (find_lb_none cmp ctr) by auto.
      apply find_set_same; auto.
    - destruct (find cmp k rest); auto. apply find_set_other; auto.
      intro; subst. rewrite (cmp_refl cmp ceq) in E. discriminate.
    - destruct (find cmp k rest); auto. apply find_set_other; auto.
      intro; subst. rewrite (cmp_refl cmp ceq) in E. discriminate.
  Qed.

  Lemma fold_set_sorted (cp : list (K * V)) : forall m, srt m ->
    srt (fold_left (fun m kv => set cmp (fst kv) (snd kv) m) cp m).
  Proof.
    induction cp as [|[k1 v1] rest IH]; intros m Hs; cbn; auto.
    apply IH. apply set_sorted; auto.
  Qed.

  Lemma find_some_in_dom (k : K) (m : list (K * V)) v : find cmp k m = Some v -> In k (map fst m).
  Proof. intros F. apply find_in in F; auto. apply (in_map fst) in F. exact F. Qed.
End MapLemmas.

(* unit-valued sets: re-inserting / re-removing according to the remembered membership flag *)
Lemma flag_restore {K} (cmp : K -> K -> comparison) (L : OrderLaws cmp) (k : K) (m : list (K * unit)) :
  sorted cmp m ->
  (if mem cmp k m then set cmp k tt (del cmp k m) else del cmp k (del cmp k m)) = m.
Proof.
  intros Hs. pose proof (ol_eq cmp L) as ceq. pose proof (ol_antisym cmp L) as cas. pose proof (ol_trans cmp L) as ctr.
  apply (sorted_ext cmp ceq cas ctr); auto.
  - destruct (mem cmp k m).
    + apply set_sorted; auto. apply del_sorted; auto.
    + apply del_sorted; auto. apply del_sorted; auto.
  - intros k'. destruct (mem cmp k m) eqn:M.
    + rewrite (find_set cmp L). rewrite (find_del cmp L) by auto.
      destruct (cmp_dec cmp L k' k); subst; auto.
      apply mem_find in M. destruct (find cmp k m) as [[]|]; congruence.
    + rewrite (find_del cmp L) by (apply del_sorted; auto). rewrite (find_del cmp L) by auto.
      destruct (cmp_dec cmp L k' k); subst; auto.
      apply mem_false in M. auto.
Qed.

(* ------------------------------------------------------------------ correlation rollback *)

Definition corr_sorted (c : corr) : Prop :=
  sorted sub_cmp (witnessed c) /\ sorted sub_cmp (pending_subs c) /\ sorted sub_cmp (staged c) /\
  sorted sub_cmp (by_tid c) /\ sorted sub_cmp (by_sub c) /\ sorted N.compare (by_ticket c) /\
  sorted cref_cmp (by_ref c) /\ sorted basis_cmp (by_basis c).

Ltac ord :=
  first [ exact (ol_eq _ sub_order) | exact (ol_antisym _ sub_order) | exact (ol_trans _ sub_order)
        | exact (ol_eq _ hkey_order) | exact (ol_antisym _ hkey_order) | exact (ol_trans _ hkey_order)
        | exact (ol_eq _ N_order) | exact (ol_antisym _ N_order) | exact (ol_trans _ N_order)
        | exact (ol_eq _ cref_order) | exact (ol_antisym _ cref_order) | exact (ol_trans _ cref_order)
        | exact (ol_eq _ basis_order) | exact (ol_antisym _ basis_order) | exact (ol_trans _ basis_order) ].

Lemma corr_eta c : with_corr c (pending_subs c) (by_tid c) (by_sub c) (by_ticket c) (by_ref c) (by_basis c) = c.
Proof. destruct c; reflexivity. Qed.

(* one envelope: the pushed rollback entry undoes the index writes exactly; a mismatch writes nothing *)
Lemma correlate_one_spec k gt ta cid rdig c log id :
  corr_sorted c ->
  match correlate_one k gt ta cid rdig c log id with
  | CorrOk c' log' | CorrMismatch c' log' =>
      corr_sorted c' /\ rollback log' c' = rollback log c /\
      witnessed c' = witnessed c /\ staged c' = staged c
  end.
Proof.
  intros Hs. unfold correlate_one.
  destruct (find sub_cmp (k, id) (staged c)) as [ticket|]; [|auto].
  destruct (mem sub_cmp (k, id) (by_tid c)); [auto|].
  match goal with |- context [if ?b then _ else _] => destruct b end; [auto|].
  destruct Hs as (Hw & Hp & Hst & Ht & Hsb & Htk & Hr & Hb).
  split; [|split; [|split; reflexivity]].
  - unfold corr_sorted; cbn. repeat split; auto;
      try (apply set_sorted; auto; ord); try (apply del_sorted; auto; ord).
  - match goal with |- rollback (?e :: _) ?c' = _ => assert (H : undo_one c' e = c) end.
    { unfold undo_one; cbn.
      rewrite (set_restore sub_cmp sub_order) by auto.
      rewrite (set_restore sub_cmp sub_order) by auto.
      rewrite (set_restore N.compare N_order) by auto.
      rewrite (set_restore cref_cmp cref_order) by auto.
      rewrite (set_restore basis_cmp basis_order) by auto.
      rewrite (flag_restore sub_cmp sub_order) by auto.
      destruct c; reflexivity. }
    unfold rollback. cbn [fold_left]. rewrite H. reflexivity.
Qed.

Lemma correlate_spec k gt ta cid rdig batch : forall c log,
  corr_sorted c ->
  match correlate k gt ta cid rdig c log batch with
  | CorrOk c' log' | CorrMismatch c' log' =>
      corr_sorted c' /\ rollback log' c' = rollback log c /\
      witnessed c' = witnessed c /\ staged c' = staged c
  end.
Proof.
  induction batch as [|id rest IH]; intros c log Hs; cbn [correlate].
  - auto.
  - pose proof (correlate_one_spec k gt ta cid rdig c log id Hs) as H1.
    destruct (correlate_one k gt ta cid rdig c log id) as [c1 l1|c1 l1].
    + destruct H1 as (Hs1 & Hr1 & Hw1 & Hst1).
      specialize (IH c1 l1 Hs1).
      destruct (correlate k gt ta cid rdig c1 l1 rest) as [c2 l2|c2 l2];
        destruct IH as (Hs2 & Hr2 & Hw2 & Hst2);
        (split; [exact Hs2|]; split; [congruence|]; split; congruence).
    + exact H1.
Qed.

(* ------------------------------------------------------------------ small list facts *)

Lemma firstn_len_app {A} (l x : list A) : firstn (N.to_nat (lenN l)) (l ++ x) = l.
Proof.
  unfold lenN. rewrite Nnat.Nat2N.id. induction l as [|a l IH]; cbn; [destruct x; reflexivity|].
  f_equal. exact IH.
Qed.

(* ------------------------------------------------------------------ the pass: frame and rollback *)

Section PassLemmas.
Variable S : Type.
Variable commit : S -> list N -> cres S.

Definition rt_sorted (r : rt S) : Prop :=
  sorted hkey_cmp (heads r) /\ sorted N.compare (fronts r) /\ corr_sorted (cor r).

Definition lsorted (st : lstate S) : Prop := rt_sorted (ls_rt st) /\ sorted N.compare (ls_prov st).

(* well-formed world: what registration and every operation maintain *)
Definition wf (r : rt S) (p : provmap) : Prop := rt_sorted r /\ sorted N.compare p.

Lemma rt_ext (r r' : rt S) :
  heads r = heads r' -> fronts r = fronts r' -> gtick r = gtick r' -> cor r = cor r' ->
  faults r = faults r' -> faulted_heads r = faulted_heads r' -> rt_fault r = rt_fault r' ->
  next_gen r = next_gen r' -> r = r'.
Proof. destruct r, r'; cbn; intros; subst; reflexivity. Qed.

(* [b] differs from [a] only inside the heads [ks], the frontiers / provenance of their worldlines
   (provenance only grows), and correlation writes that the rollback log undoes *)
Record frame (ks : list hkey) (a b : lstate S) : Prop := {
  fr_heads : forall k, ~ In k ks ->
    find hkey_cmp k (heads (ls_rt b)) = find hkey_cmp k (heads (ls_rt a));
  fr_heads_dom : forall k,
    find hkey_cmp k (heads (ls_rt b)) = None <-> find hkey_cmp k (heads (ls_rt a)) = None;
  fr_fronts : forall w, ~ In w (map wl_of ks) ->
    find N.compare w (fronts (ls_rt b)) = find N.compare w (fronts (ls_rt a));
  fr_fronts_dom : forall w,
    find N.compare w (fronts (ls_rt b)) = None <-> find N.compare w (fronts (ls_rt a)) = None;
  fr_prov : forall w, ~ In w (map wl_of ks) ->
    find N.compare w (ls_prov b) = find N.compare w (ls_prov a);
  fr_prov_ext : forall w es, find N.compare w (ls_prov a) = Some es ->
    exists ex, find N.compare w (ls_prov b) = Some (es ++ ex);
  fr_prov_dom : forall w, find N.compare w (ls_prov a) = None -> find N.compare w (ls_prov b) = None;
  fr_gtick : gtick (ls_rt b) = gtick (ls_rt a);
  fr_faults : faults (ls_rt b) = faults (ls_rt a) /\ faulted_heads (ls_rt b) = faulted_heads (ls_rt a) /\
              rt_fault (ls_rt b) = rt_fault (ls_rt a) /\ next_gen (ls_rt b) = next_gen (ls_rt a);
  fr_corr : rollback (ls_log b) (cor (ls_rt b)) = rollback (ls_log a) (cor (ls_rt a)) /\
            witnessed (cor (ls_rt b)) = witnessed (cor (ls_rt a)) /\
            staged (cor (ls_rt b)) = staged (cor (ls_rt a))
}.

Lemma frame_refl ks a : frame ks a a.
Proof.
  constructor; intros; try tauto; auto.
  exists []. rewrite app_nil_r. assumption.
Qed.

Lemma frame_trans ks1 ks2 a b c : frame ks1 a b -> frame ks2 b c -> frame (ks1 ++ ks2) a c.
Proof.
  intros F1 F2. constructor.
  - intros k Hn. rewrite (fr_heads _ _ _ F2), (fr_heads _ _ _ F1); auto; intro; apply Hn, in_or_app; auto.
  - intros k. rewrite (fr_heads_dom _ _ _ F2). apply (fr_heads_dom _ _ _ F1).
  - intros w Hn. rewrite map_app in Hn.
    rewrite (fr_fronts _ _ _ F2), (fr_fronts _ _ _ F1); auto; intro; apply Hn, in_or_app; auto.
  - intros w. rewrite (fr_fronts_dom _ _ _ F2). apply (fr_fronts_dom _ _ _ F1).
  - intros w Hn. rewrite map_app in Hn.
    rewrite (fr_prov _ _ _ F2), (fr_prov _ _ _ F1); auto; intro; apply Hn, in_or_app; auto.
  - intros w es H. destruct (fr_prov_ext _ _ _ F1 w es H) as [ex1 H1].
    destruct (fr_prov_ext _ _ _ F2 w _ H1) as [ex2 H2]. exists (ex1 ++ ex2). rewrite app_assoc. exact H2.
  - intros w H. apply (fr_prov_dom _ _ _ F2), (fr_prov_dom _ _ _ F1), H.
  - rewrite (fr_gtick _ _ _ F2). apply (fr_gtick _ _ _ F1).
  - destruct (fr_faults _ _ _ F1) as (A1 & A2 & A3 & A4), (fr_faults _ _ _ F2) as (B1 & B2 & B3 & B4).
    repeat split; congruence.
  - destruct (fr_corr _ _ _ F1) as (A1 & A2 & A3), (fr_corr _ _ _ F2) as (B1 & B2 & B3).
    repeat split; congruence.
Qed.

(* writing one present key of a map keeps every other key and the domain *)
Lemma set_other_keys {K V} (cmp : K -> K -> comparison) (L : OrderLaws cmp) (k : K) (v v' : V) m :
  find cmp k m = Some v ->
  (forall k', k' <> k -> find cmp k' (set cmp k v' m) = find cmp k' m) /\
  (forall k', find cmp k' (set cmp k v' m) = None <-> find cmp k' m = None).
Proof.
  intros F. split.
  - intros k' Hne. rewrite (find_set cmp L). destruct (cmp_dec cmp L k' k); congruence.
  - intros k'. rewrite (find_set cmp L). destruct (cmp_dec cmp L k' k); subst; [|tauto].
    rewrite F. split; discriminate.
Qed.

Lemma not_in_single {A} (x y : A) : ~ In x [y] -> x <> y.
Proof. intros H E. apply H. left. auto. Qed.

(* the generic shape of every state a step can leave behind *)
Lemma frame_step k (st : lstate S) h h' fo po c' log' :
  lsorted st ->
  find hkey_cmp k (heads (ls_rt st)) = Some h ->
  (forall f', fo = Some f' -> find N.compare (wl_of k) (fronts (ls_rt st)) <> None) ->
  (forall es', po = Some es' -> exists es ex, find N.compare (wl_of k) (ls_prov st) = Some es /\ es' = es ++ ex) ->
  corr_sorted c' /\ rollback log' c' = rollback (ls_log st) (cor (ls_rt st)) /\
    witnessed c' = witnessed (cor (ls_rt st)) /\ staged c' = staged (cor (ls_rt st)) ->
  let st' := {| ls_rt := upd S (ls_rt st) (set hkey_cmp k h' (heads (ls_rt st)))
                           (match fo with Some f' => set N.compare (wl_of k) f' (fronts (ls_rt st)) | None => fronts (ls_rt st) end)
                           c';
                ls_prov := match po with Some es' => set N.compare (wl_of k) es' (ls_prov st) | None => ls_prov st end;
                ls_log := log' |} in
  frame [k] st st' /\ lsorted st'.
Proof.
  intros ((Hsh & Hsf & Hsc) & Hsp) Fh Ff Fp (Hc1 & Hc2 & Hc3 & Hc4) st'.
  destruct (set_other_keys hkey_cmp hkey_order k h h' _ Fh) as [Ho Hd].
  split.
  - constructor; unfold st'; cbn [ls_rt ls_prov ls_log upd heads fronts gtick cor faults faulted_heads rt_fault next_gen].
    + intros k' Hn. apply Ho. apply not_in_single. exact Hn.
    + exact Hd.
    + intros w Hn. destruct fo as [f'|]; [|reflexivity].
      apply find_set_other; [ord|]. cbn in Hn. tauto.
    + intros w. destruct fo as [f'|]; [|tauto].
      specialize (Ff f' eq_refl). destruct (find N.compare (wl_of k) (fronts (ls_rt st))) as [f|] eqn:E; [|congruence].
      apply (set_other_keys N.compare N_order _ _ f' _ E).
    + intros w Hn. destruct po as [es'|]; [|reflexivity].
      apply find_set_other; [ord|]. cbn in Hn. tauto.
    + intros w es Hw. destruct po as [es'|]; [|exists []; rewrite app_nil_r; exact Hw].
      destruct (Fp es' eq_refl) as (es0 & ex & E & ->).
      rewrite (find_set N.compare N_order). destruct (cmp_dec N.compare N_order w (wl_of k)) as [->|Hne].
      * exists ex. congruence.
      * exists []. rewrite app_nil_r. exact Hw.
    + intros w Hw. destruct po as [es'|]; [|exact Hw].
      destruct (Fp es' eq_refl) as (es0 & ex & E & ->).
      rewrite (find_set N.compare N_order). destruct (cmp_dec N.compare N_order w (wl_of k)) as [->|Hne]; congruence.
    + reflexivity.
    + auto.
    + auto.
  - unfold st', lsorted, rt_sorted; cbn. repeat split.
    + apply set_sorted; auto; ord.
    + destruct fo; auto. apply set_sorted; auto; ord.
    + exact Hc1.
    + destruct po; auto. apply set_sorted; auto; ord.
Qed.
