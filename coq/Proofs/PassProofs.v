(* Lemmas about Model/Pass.v (C09). *)
From Coq Require Import List NArith Lia Bool.
From Echo Require Import Base.FinMap Base.Order Model.Pass.
Import ListNotations.
Open Scope N_scope.

(* ------------------------------------------------------------------ orders *)

Lemma hkey_order : OrderLaws hkey_cmp.
Proof. apply pair_order; apply N_order. Qed.
Lemma sub_order : OrderLaws sub_cmp.
Proof. apply pair_order; [apply hkey_order|apply N_order]. Qed.
Lemma cref_order : OrderLaws cref_cmp.
Proof. repeat apply pair_order; try apply N_order; apply sub_order. Qed.
Lemma basis_order : OrderLaws basis_cmp.
Proof. repeat apply pair_order; apply N_order. Qed.

Lemma hkey_eq_dec : forall a b : hkey, {a = b} + {a <> b}.
Proof. repeat decide equality. Qed.

(* ------------------------------------------------------------------ generic sorted-map lemmas
   (extra generic lemmas over Base/FinMap.v; kept here because Base/ is read-only for builders) *)

Section MapLemmas.
  Context {K V : Type} (cmp : K -> K -> comparison) (L : OrderLaws cmp).
  Let ceq := ol_eq cmp L.
  Let cas := ol_antisym cmp L.
  Let ctr := ol_trans cmp L.
  Notation srt := (sorted cmp).

  Lemma cmp_dec (a b : K) : {a = b} + {a <> b}.
  Proof.
    destruct (cmp a b) eqn:E.
    - left. apply ceq. exact E.
    - right. intro H. apply ceq in H. congruence.
    - right. intro H. apply ceq in H. congruence.
  Qed.

  Lemma find_set (k k' : K) (v : V) m :
    find cmp k' (set cmp k v m) = if cmp_dec k' k then Some v else find cmp k' m.
  Proof.
    destruct (cmp_dec k' k) as [->|Hne].
    - apply find_set_same; auto.
    - apply find_set_other; auto.
  Qed.

  Lemma find_del (k k' : K) (m : list (K * V)) : srt m ->
    find cmp k' (del cmp k m) = if cmp_dec k' k then None else find cmp k' m.
  Proof.
    intros Hs. destruct (cmp_dec k' k) as [->|Hne].
    - apply find_del_same; auto.
    - apply find_del_other; auto.
  Qed.

  Lemma mem_find (k : K) (m : list (K * V)) : mem cmp k m = true <-> find cmp k m <> None.
  Proof. unfold mem. destruct (find cmp k m); split; congruence. Qed.

  Lemma mem_false (k : K) (m : list (K * V)) : mem cmp k m = false <-> find cmp k m = None.
  Proof. unfold mem. destruct (find cmp k m); split; congruence. Qed.

  (* `match previous { Some(p) => insert(k, p), None => remove(k) }` undoes an insert exactly *)
  Lemma set_restore (k : K) (v : V) m : srt m ->
    restore_slot cmp k (find cmp k m) (set cmp k v m) = m.
  Proof.
    intros Hs. apply (sorted_ext cmp ceq cas ctr).
    - unfold restore_slot. destruct (find cmp k m).
      + apply set_sorted; auto. apply set_sorted; auto.
      + apply del_sorted; auto. apply set_sorted; auto.
    - exact Hs.
    - intros k'. unfold restore_slot. destruct (find cmp k m) eqn:F.
      + rewrite !find_set. destruct (cmp_dec k' k); subst; auto.
      + rewrite find_del by (apply set_sorted; auto). rewrite find_set.
        destruct (cmp_dec k' k); subst; auto.
  Qed.

  Lemma set_same (k : K) (v : V) m : srt m -> find cmp k m = Some v -> set cmp k v m = m.
  Proof.
    intros Hs F. apply (sorted_ext cmp ceq cas ctr); auto.
    - apply set_sorted; auto.
    - intros k'. rewrite find_set. destruct (cmp_dec k' k); subst; auto.
  Qed.

  Lemma del_absent (k : K) (m : list (K * V)) : srt m -> find cmp k m = None -> del cmp k m = m.
  Proof.
    intros Hs F. apply (sorted_ext cmp ceq cas ctr); auto.
    - apply del_sorted; auto.
    - intros k'. rewrite find_del by auto. destruct (cmp_dec k' k); subst; auto.
  Qed.

  Lemma find_fold_set (cp : list (K * V)) : srt cp -> forall m k,
    find cmp k (fold_left (fun m kv => set cmp (fst kv) (snd kv) m) cp m) =
    match find cmp k cp with Some v => Some v | None => find cmp k m end.
  Proof.
    induction cp as [|[k1 v1] rest IH]; intros Hs m k; cbn [fold_left find fst snd]; auto.
    cbn in Hs. destruct Hs as [Hlb Hs].
    rewrite IH by exact Hs.
    destruct (cmp k k1) eqn:E.
    - apply ceq in E; subst k1.
      rewrite (find_lb_none cmp ctr) by auto.
      apply find_set_same; auto.
    - destruct (find cmp k rest); auto. apply find_set_other; auto.
      intro; subst. rewrite (cmp_refl cmp ceq) in E. discriminate.
    - destruct (find cmp k rest); auto. apply find_set_other; auto.
      intro; subst. rewrite (cmp_refl cmp ceq) in E. discriminate.
  Qed.

  Lemma fold_set_sorted (cp : list (K * V)) : forall m, srt m ->
    srt (fold_left (fun m kv => set cmp (fst kv) (snd kv) m) cp m).
  Proof.
    induction cp as [|[k1 v1] rest IH]; intros m Hs; cbn; auto.
    apply IH. apply set_sorted; auto.
  Qed.

  Lemma find_some_in_dom (k : K) (m : list (K * V)) v : find cmp k m = Some v -> In k (map fst m).
  Proof. intros F. apply find_in in F; auto. apply (in_map fst) in F. exact F. Qed.
End MapLemmas.

(* unit-valued sets: re-inserting / re-removing according to the remembered membership flag *)
Lemma flag_restore {K} (cmp : K -> K -> comparison) (L : OrderLaws cmp) (k : K) (m : list (K * unit)) :
  sorted cmp m ->
  (if mem cmp k m then set cmp k tt (del cmp k m) else del cmp k (del cmp k m)) = m.
Proof.
  intros Hs. pose proof (ol_eq cmp L) as ceq. pose proof (ol_antisym cmp L) as cas. pose proof (ol_trans cmp L) as ctr.
  apply (sorted_ext cmp ceq cas ctr); auto.
  - destruct (mem cmp k m).
    + apply set_sorted; auto. apply del_sorted; auto.
    + apply del_sorted; auto. apply del_sorted; auto.
  - intros k'. destruct (mem cmp k m) eqn:M.
    + rewrite (find_set cmp L). rewrite (find_del cmp L) by auto.
      destruct (cmp_dec cmp L k' k); subst; auto.
      apply mem_find in M. destruct (find cmp k m) as [[]|]; congruence.
    + rewrite (find_del cmp L) by (apply del_sorted; auto). rewrite (find_del cmp L) by auto.
      destruct (cmp_dec cmp L k' k); subst; auto.
      apply mem_false in M. auto.
Qed.

(* ------------------------------------------------------------------ correlation rollback *)

Definition corr_sorted (c : corr) : Prop :=
  sorted sub_cmp (witnessed c) /\ sorted sub_cmp (pending_subs c) /\ sorted sub_cmp (staged c) /\
  sorted sub_cmp (by_tid c) /\ sorted sub_cmp (by_sub c) /\ sorted N.compare (by_ticket c) /\
  sorted cref_cmp (by_ref c) /\ sorted basis_cmp (by_basis c).

Ltac ord :=
  first [ exact (ol_eq _ sub_order) | exact (ol_antisym _ sub_order) | exact (ol_trans _ sub_order)
        | exact (ol_eq _ hkey_order) | exact (ol_antisym _ hkey_order) | exact (ol_trans _ hkey_order)
        | exact (ol_eq _ N_order) | exact (ol_antisym _ N_order) | exact (ol_trans _ N_order)
        | exact (ol_eq _ cref_order) | exact (ol_antisym _ cref_order) | exact (ol_trans _ cref_order)
        | exact (ol_eq _ basis_order) | exact (ol_antisym _ basis_order) | exact (ol_trans _ basis_order) ].

Lemma corr_eta c : with_corr c (pending_subs c) (by_tid c) (by_sub c) (by_ticket c) (by_ref c) (by_basis c) = c.
Proof. destruct c; reflexivity. Qed.

(* one envelope: the pushed rollback entry undoes the index writes exactly; a mismatch writes nothing *)
Lemma correlate_one_spec k gt ta cid rdig c log id :
  corr_sorted c ->
  match correlate_one k gt ta cid rdig c log id with
  | CorrOk c' log' | CorrMismatch c' log' =>
      corr_sorted c' /\ rollback log' c' = rollback log c /\
      witnessed c' = witnessed c /\ staged c' = staged c
  end.
Proof.
  intros Hs. unfold correlate_one.
  destruct (find sub_cmp (k, id) (staged c)) as [ticket|]; [|auto].
  destruct (mem sub_cmp (k, id) (by_tid c)); [auto|].
  match goal with |- context [if ?b then _ else _] => destruct b end; [auto|].
  destruct Hs as (Hw & Hp & Hst & Ht & Hsb & Htk & Hr & Hb).
  split; [|split; [|split; reflexivity]].
  - unfold corr_sorted; cbn. repeat split; auto;
      try (apply set_sorted; auto; ord); try (apply del_sorted; auto; ord).
  - match goal with |- rollback (?e :: _) ?c' = _ => assert (H : undo_one c' e = c) end.
    { unfold undo_one; cbn.
      rewrite (set_restore sub_cmp sub_order) by auto.
      rewrite (set_restore sub_cmp sub_order) by auto.
      rewrite (set_restore N.compare N_order) by auto.
      rewrite (set_restore cref_cmp cref_order) by auto.
      rewrite (set_restore basis_cmp basis_order) by auto.
      rewrite (flag_restore sub_cmp sub_order) by auto.
      destruct c; reflexivity. }
    unfold rollback. cbn [fold_left]. rewrite H. reflexivity.
Qed.

Lemma correlate_spec k gt ta cid rdig batch : forall c log,
  corr_sorted c ->
  match correlate k gt ta cid rdig c log batch with
  | CorrOk c' log' | CorrMismatch c' log' =>
      corr_sorted c' /\ rollback log' c' = rollback log c /\
      witnessed c' = witnessed c /\ staged c' = staged c
  end.
Proof.
  induction batch as [|id rest IH]; intros c log Hs; cbn [correlate].
  - auto.
  - pose proof (correlate_one_spec k gt ta cid rdig c log id Hs) as H1.
    destruct (correlate_one k gt ta cid rdig c log id) as [c1 l1|c1 l1].
    + destruct H1 as (Hs1 & Hr1 & Hw1 & Hst1).
      specialize (IH c1 l1 Hs1).
      destruct (correlate k gt ta cid rdig c1 l1 rest) as [c2 l2|c2 l2];
        destruct IH as (Hs2 & Hr2 & Hw2 & Hst2);
        (split; [exact Hs2|]; split; [congruence|]; split; congruence).
    + exact H1.
Qed.
