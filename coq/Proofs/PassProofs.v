(* Lemmas about Model/Pass.v (C09). *)
From Coq Require Import List NArith Lia Bool Sorting.Sorted.
From Echo Require Import Base.FinMap Base.Order Model.Pass.
Import ListNotations.
Open Scope N_scope.

(* ------------------------------------------------------------------ orders *)

Lemma hkey_order : OrderLaws hkey_cmp.
Proof. apply pair_order; apply N_order. Qed.
Lemma sub_order : OrderLaws sub_cmp.
Proof. apply pair_order; [apply hkey_order|apply N_order]. Qed.
Lemma cref_order : OrderLaws cref_cmp.
Proof. repeat apply pair_order; try apply N_order; apply sub_order. Qed.
Lemma basis_order : OrderLaws basis_cmp.
Proof. repeat apply pair_order; apply N_order. Qed.

Lemma hkey_eq_dec : forall a b : hkey, {a = b} + {a <> b}.
Proof. repeat decide equality. Qed.

(* ------------------------------------------------------------------ generic sorted-map lemmas
   (extra generic lemmas over Base/FinMap.v; kept here because Base/ is read-only for builders) *)

Section MapLemmas.
  Context {K V : Type} (cmp : K -> K -> comparison) (L : OrderLaws cmp).
  Let ceq := ol_eq cmp L.
  Let cas := ol_antisym cmp L.
  Let ctr := ol_trans cmp L.
  Notation srt := (sorted cmp).

  Lemma cmp_dec (a b : K) : {a = b} + {a <> b}.
  Proof.
    destruct (cmp a b) eqn:E.
    - left. apply ceq. exact E.
    - right. intro H. apply ceq in H. congruence.
    - right. intro H. apply ceq in H. congruence.
  Qed.

  Lemma find_set (k k' : K) (v : V) m :
    find cmp k' (set cmp k v m) = if cmp_dec k' k then Some v else find cmp k' m.
  Proof.
    destruct (cmp_dec k' k) as [->|Hne].
    - apply find_set_same; auto.
    - apply find_set_other; auto.
  Qed.

  Lemma find_del (k k' : K) (m : list (K * V)) : srt m ->
    find cmp k' (del cmp k m) = if cmp_dec k' k then None else find cmp k' m.
  Proof.
    intros Hs. destruct (cmp_dec k' k) as [->|Hne].
    - apply find_del_same; auto.
    - apply find_del_other; auto.
  Qed.

  Lemma mem_find (k : K) (m : list (K * V)) : mem cmp k m = true <-> find cmp k m <> None.
  Proof. unfold mem. destruct (find cmp k m); split; congruence. Qed.

  Lemma mem_false (k : K) (m : list (K * V)) : mem cmp k m = false <-> find cmp k m = None.
  Proof. unfold mem. destruct (find cmp k m); split; congruence. Qed.

  (* `match previous { Some(p) => insert(k, p), None => remove(k) }` undoes an insert exactly *)
  Lemma set_restore (k : K) (v : V) m : srt m ->
    restore_slot cmp k (find cmp k m) (set cmp k v m) = m.
  Proof.
    intros Hs. apply (sorted_ext cmp ceq cas ctr).
    - unfold restore_slot. destruct (find cmp k m).
      + apply set_sorted; auto. apply set_sorted; auto.
      + apply del_sorted; auto. apply set_sorted; auto.
    - exact Hs.
    - intros k'. unfold restore_slot. destruct (find cmp k m) eqn:F.
      + rewrite !find_set. destruct (cmp_dec k' k); subst; auto.
      + rewrite find_del by (apply set_sorted; auto). rewrite find_set.
        destruct (cmp_dec k' k); subst; auto.
  Qed.

  Lemma set_same (k : K) (v : V) m : srt m -> find cmp k m = Some v -> set cmp k v m = m.
  Proof.
    intros Hs F. apply (sorted_ext cmp ceq cas ctr); auto.
    - apply set_sorted; auto.
    - intros k'. rewrite find_set. destruct (cmp_dec k' k); subst; auto.
  Qed.

  Lemma del_absent (k : K) (m : list (K * V)) : srt m -> find cmp k m = None -> del cmp k m = m.
  Proof.
    intros Hs F. apply (sorted_ext cmp ceq cas ctr); auto.
    - apply del_sorted; auto.
    - intros k'. rewrite find_del by auto. destruct (cmp_dec k' k); subst; auto.
  Qed.

  Lemma find_fold_set (cp : list (K * V)) : srt cp -> forall m k,
    find cmp k (fold_left (fun m kv => set cmp (fst kv) (snd kv) m) cp m) =
    match find cmp k cp with Some v => Some v | None => find cmp k m end.
  Proof.
    induction cp as [|[k1 v1] rest IH]; intros Hs m k; cbn [fold_left find fst snd]; auto.
    cbn in Hs. destruct Hs as [Hlb Hs].
    rewrite IH by exact Hs.
    destruct (cmp k k1) eqn:E.
    - apply ceq in E; subst k1.
      rewrite (find_lb_none cmp ctr) by auto.
      apply find_set_same; auto.
    - destruct (find cmp k rest); auto. apply find_set_other; auto.
      intro; subst. rewrite (cmp_refl cmp ceq) in E. discriminate.
    - destruct (find cmp k rest); auto. apply find_set_other; auto.
      intro; subst. rewrite (cmp_refl cmp ceq) in E. discriminate.
  Qed.

  Lemma fold_set_sorted (cp : list (K * V)) : forall m, srt m ->
    srt (fold_left (fun m kv => set cmp (fst kv) (snd kv) m) cp m).
  Proof.
    induction cp as [|[k1 v1] rest IH]; intros m Hs; cbn; auto.
    apply IH. apply set_sorted; auto.
  Qed.

  Lemma find_some_in_dom (k : K) (m : list (K * V)) v : find cmp k m = Some v -> In k (map fst m).
  Proof. intros F. apply find_in in F; auto. apply (in_map fst) in F. exact F. Qed.
End MapLemmas.

(* unit-valued sets: re-inserting / re-removing according to the remembered membership flag *)
Lemma flag_restore {K} (cmp : K -> K -> comparison) (L : OrderLaws cmp) (k : K) (m : list (K * unit)) :
  sorted cmp m ->
  (if mem cmp k m then set cmp k tt (del cmp k m) else del cmp k (del cmp k m)) = m.
Proof.
  intros Hs. pose proof (ol_eq cmp L) as ceq. pose proof (ol_antisym cmp L) as cas. pose proof (ol_trans cmp L) as ctr.
  apply (sorted_ext cmp ceq cas ctr); auto.
  - destruct (mem cmp k m).
    + apply set_sorted; auto. apply del_sorted; auto.
    + apply del_sorted; auto. apply del_sorted; auto.
  - intros k'. destruct (mem cmp k m) eqn:M.
    + rewrite (find_set cmp L). rewrite (find_del cmp L) by auto.
      destruct (cmp_dec cmp L k' k); subst; auto.
      apply mem_find in M. destruct (find cmp k m) as [[]|]; congruence.
    + rewrite (find_del cmp L) by (apply del_sorted; auto). rewrite (find_del cmp L) by auto.
      destruct (cmp_dec cmp L k' k); subst; auto.
      apply mem_false in M. auto.
Qed.

(* ------------------------------------------------------------------ correlation rollback *)

Definition corr_sorted (c : corr) : Prop :=
  sorted sub_cmp (witnessed c) /\ sorted sub_cmp (pending_subs c) /\ sorted sub_cmp (staged c) /\
  sorted sub_cmp (by_tid c) /\ sorted sub_cmp (by_sub c) /\ sorted N.compare (by_ticket c) /\
  sorted cref_cmp (by_ref c) /\ sorted basis_cmp (by_basis c).

Ltac ord :=
  first [ exact (ol_eq _ sub_order) | exact (ol_antisym _ sub_order) | exact (ol_trans _ sub_order)
        | exact (ol_eq _ hkey_order) | exact (ol_antisym _ hkey_order) | exact (ol_trans _ hkey_order)
        | exact (ol_eq _ N_order) | exact (ol_antisym _ N_order) | exact (ol_trans _ N_order)
        | exact (ol_eq _ cref_order) | exact (ol_antisym _ cref_order) | exact (ol_trans _ cref_order)
        | exact (ol_eq _ basis_order) | exact (ol_antisym _ basis_order) | exact (ol_trans _ basis_order) ].

Lemma corr_eta c : with_corr c (pending_subs c) (by_tid c) (by_sub c) (by_ticket c) (by_ref c) (by_basis c) = c.
Proof. destruct c; reflexivity. Qed.

(* one envelope: the pushed rollback entry undoes the index writes exactly; a mismatch writes nothing *)
Lemma correlate_one_spec k gt ta cid rdig c log id :
  corr_sorted c ->
  match correlate_one k gt ta cid rdig c log id with
  | CorrOk c' log' | CorrMismatch c' log' =>
      corr_sorted c' /\ rollback log' c' = rollback log c /\
      witnessed c' = witnessed c /\ staged c' = staged c
  end.
Proof.
  intros Hs. unfold correlate_one.
  destruct (find sub_cmp (k, id) (staged c)) as [ticket|]; [|auto].
  destruct (mem sub_cmp (k, id) (by_tid c)); [auto|].
  match goal with |- context [if ?b then _ else _] => destruct b end; [auto|].
  destruct Hs as (Hw & Hp & Hst & Ht & Hsb & Htk & Hr & Hb).
  split; [|split; [|split; reflexivity]].
  - unfold corr_sorted; cbn. repeat split; auto;
      try (apply set_sorted; auto; ord); try (apply del_sorted; auto; ord).
  - match goal with |- rollback (?e :: _) ?c' = _ => assert (H : undo_one c' e = c) end.
    { unfold undo_one; cbn.
      rewrite (set_restore sub_cmp sub_order) by auto.
      rewrite (set_restore sub_cmp sub_order) by auto.
      rewrite (set_restore N.compare N_order) by auto.
      rewrite (set_restore cref_cmp cref_order) by auto.
      rewrite (set_restore basis_cmp basis_order) by auto.
      rewrite (flag_restore sub_cmp sub_order) by auto.
      destruct c; reflexivity. }
    unfold rollback. cbn [fold_left]. rewrite H. reflexivity.
Qed.

Lemma correlate_spec k gt ta cid rdig batch : forall c log,
  corr_sorted c ->
  match correlate k gt ta cid rdig c log batch with
  | CorrOk c' log' | CorrMismatch c' log' =>
      corr_sorted c' /\ rollback log' c' = rollback log c /\
      witnessed c' = witnessed c /\ staged c' = staged c
  end.
Proof.
  induction batch as [|id rest IH]; intros c log Hs; cbn [correlate].
  - auto.
  - pose proof (correlate_one_spec k gt ta cid rdig c log id Hs) as H1.
    destruct (correlate_one k gt ta cid rdig c log id) as [c1 l1|c1 l1].
    + destruct H1 as (Hs1 & Hr1 & Hw1 & Hst1).
      specialize (IH c1 l1 Hs1).
      destruct (correlate k gt ta cid rdig c1 l1 rest) as [c2 l2|c2 l2];
        destruct IH as (Hs2 & Hr2 & Hw2 & Hst2);
        (split; [exact Hs2|]; split; [congruence|]; split; congruence).
    + exact H1.
Qed.

(* ------------------------------------------------------------------ small list facts *)

Lemma firstn_len_app {A} (l x : list A) : firstn (N.to_nat (lenN l)) (l ++ x) = l.
Proof.
  unfold lenN. rewrite Nnat.Nat2N.id. induction l as [|a l IH]; cbn; [destruct x; reflexivity|].
  f_equal. exact IH.
Qed.

(* ------------------------------------------------------------------ the pass: frame and rollback *)

Section PassLemmas.
Variable S : Type.
Variable commit : S -> list N -> cres S.

Definition rt_sorted (r : rt S) : Prop :=
  sorted hkey_cmp (heads r) /\ sorted N.compare (fronts r) /\ corr_sorted (cor r).

Definition lsorted (st : lstate S) : Prop := rt_sorted (ls_rt st) /\ sorted N.compare (ls_prov st).

(* well-formed world: what registration and every operation maintain *)
Definition wf (r : rt S) (p : provmap) : Prop := rt_sorted r /\ sorted N.compare p.

Lemma rt_ext (r r' : rt S) :
  heads r = heads r' -> fronts r = fronts r' -> gtick r = gtick r' -> cor r = cor r' ->
  faults r = faults r' -> faulted_heads r = faulted_heads r' -> rt_fault r = rt_fault r' ->
  next_gen r = next_gen r' -> r = r'.
Proof. destruct r, r'; cbn; intros; subst; reflexivity. Qed.

(* [b] differs from [a] only inside the heads [ks], the frontiers / provenance of their worldlines
   (provenance only grows), and correlation writes that the rollback log undoes *)
Record frame (ks : list hkey) (a b : lstate S) : Prop := {
  fr_heads : forall k, ~ In k ks ->
    find hkey_cmp k (heads (ls_rt b)) = find hkey_cmp k (heads (ls_rt a));
  fr_heads_dom : forall k,
    find hkey_cmp k (heads (ls_rt b)) = None <-> find hkey_cmp k (heads (ls_rt a)) = None;
  fr_fronts : forall w, ~ In w (map wl_of ks) ->
    find N.compare w (fronts (ls_rt b)) = find N.compare w (fronts (ls_rt a));
  fr_fronts_dom : forall w,
    find N.compare w (fronts (ls_rt b)) = None <-> find N.compare w (fronts (ls_rt a)) = None;
  fr_prov : forall w, ~ In w (map wl_of ks) ->
    find N.compare w (ls_prov b) = find N.compare w (ls_prov a);
  fr_prov_ext : forall w es, find N.compare w (ls_prov a) = Some es ->
    exists ex, find N.compare w (ls_prov b) = Some (es ++ ex);
  fr_prov_dom : forall w, find N.compare w (ls_prov a) = None -> find N.compare w (ls_prov b) = None;
  fr_gtick : gtick (ls_rt b) = gtick (ls_rt a);
  fr_faults : faults (ls_rt b) = faults (ls_rt a) /\ faulted_heads (ls_rt b) = faulted_heads (ls_rt a) /\
              rt_fault (ls_rt b) = rt_fault (ls_rt a) /\ next_gen (ls_rt b) = next_gen (ls_rt a);
  fr_corr : rollback (ls_log b) (cor (ls_rt b)) = rollback (ls_log a) (cor (ls_rt a)) /\
            witnessed (cor (ls_rt b)) = witnessed (cor (ls_rt a)) /\
            staged (cor (ls_rt b)) = staged (cor (ls_rt a))
}.

Lemma frame_refl ks a : frame ks a a.
Proof.
  constructor; intros; try tauto; auto.
  exists []. rewrite app_nil_r. assumption.
Qed.

Lemma frame_trans ks1 ks2 a b c : frame ks1 a b -> frame ks2 b c -> frame (ks1 ++ ks2) a c.
Proof.
  intros F1 F2. constructor.
  - intros k Hn. rewrite (fr_heads _ _ _ F2), (fr_heads _ _ _ F1); auto; intro; apply Hn, in_or_app; auto.
  - intros k. rewrite (fr_heads_dom _ _ _ F2). apply (fr_heads_dom _ _ _ F1).
  - intros w Hn. rewrite map_app in Hn.
    rewrite (fr_fronts _ _ _ F2), (fr_fronts _ _ _ F1); auto; intro; apply Hn, in_or_app; auto.
  - intros w. rewrite (fr_fronts_dom _ _ _ F2). apply (fr_fronts_dom _ _ _ F1).
  - intros w Hn. rewrite map_app in Hn.
    rewrite (fr_prov _ _ _ F2), (fr_prov _ _ _ F1); auto; intro; apply Hn, in_or_app; auto.
  - intros w es H. destruct (fr_prov_ext _ _ _ F1 w es H) as [ex1 H1].
    destruct (fr_prov_ext _ _ _ F2 w _ H1) as [ex2 H2]. exists (ex1 ++ ex2). rewrite app_assoc. exact H2.
  - intros w H. apply (fr_prov_dom _ _ _ F2), (fr_prov_dom _ _ _ F1), H.
  - rewrite (fr_gtick _ _ _ F2). apply (fr_gtick _ _ _ F1).
  - destruct (fr_faults _ _ _ F1) as (A1 & A2 & A3 & A4), (fr_faults _ _ _ F2) as (B1 & B2 & B3 & B4).
    repeat split; congruence.
  - destruct (fr_corr _ _ _ F1) as (A1 & A2 & A3), (fr_corr _ _ _ F2) as (B1 & B2 & B3).
    repeat split; congruence.
Qed.

(* writing one present key of a map keeps every other key and the domain *)
Lemma set_other_keys {K V} (cmp : K -> K -> comparison) (L : OrderLaws cmp) (k : K) (v v' : V) m :
  find cmp k m = Some v ->
  (forall k', k' <> k -> find cmp k' (set cmp k v' m) = find cmp k' m) /\
  (forall k', find cmp k' (set cmp k v' m) = None <-> find cmp k' m = None).
Proof.
  intros F. split.
  - intros k' Hne. rewrite (find_set cmp L). destruct (cmp_dec cmp L k' k); congruence.
  - intros k'. rewrite (find_set cmp L). destruct (cmp_dec cmp L k' k); subst; [|tauto].
    rewrite F. split; discriminate.
Qed.

Lemma not_in_single {A} (x y : A) : ~ In x [y] -> x <> y.
Proof. intros H E. apply H. left. auto. Qed.

(* the generic shape of every state a step can leave behind *)
Lemma frame_step k (st : lstate S) h h' fo po c' log' :
  lsorted st ->
  find hkey_cmp k (heads (ls_rt st)) = Some h ->
  (forall f', fo = Some f' -> find N.compare (wl_of k) (fronts (ls_rt st)) <> None) ->
  (forall es', po = Some es' -> exists es ex, find N.compare (wl_of k) (ls_prov st) = Some es /\ es' = es ++ ex) ->
  corr_sorted c' /\ rollback log' c' = rollback (ls_log st) (cor (ls_rt st)) /\
    witnessed c' = witnessed (cor (ls_rt st)) /\ staged c' = staged (cor (ls_rt st)) ->
  let st' := {| ls_rt := upd S (ls_rt st) (set hkey_cmp k h' (heads (ls_rt st)))
                           (match fo with Some f' => set N.compare (wl_of k) f' (fronts (ls_rt st)) | None => fronts (ls_rt st) end)
                           c';
                ls_prov := match po with Some es' => set N.compare (wl_of k) es' (ls_prov st) | None => ls_prov st end;
                ls_log := log' |} in
  frame [k] st st' /\ lsorted st'.
Proof.
  intros ((Hsh & Hsf & Hsc) & Hsp) Fh Ff Fp (Hc1 & Hc2 & Hc3 & Hc4) st'.
  destruct (set_other_keys hkey_cmp hkey_order k h h' _ Fh) as [Ho Hd].
  split.
  - constructor; unfold st'; cbn [ls_rt ls_prov ls_log upd heads fronts gtick cor faults faulted_heads rt_fault next_gen].
    + intros k' Hn. apply Ho. apply not_in_single. exact Hn.
    + exact Hd.
    + intros w Hn. destruct fo as [f'|]; [|reflexivity].
      apply find_set_other; [ord|]. apply not_in_single. exact Hn.
    + intros w. destruct fo as [f'|]; [|tauto].
      specialize (Ff f' eq_refl). destruct (find N.compare (wl_of k) (fronts (ls_rt st))) as [f|] eqn:E; [|congruence].
      apply (set_other_keys N.compare N_order _ _ f' _ E).
    + intros w Hn. destruct po as [es'|]; [|reflexivity].
      apply find_set_other; [ord|]. apply not_in_single. exact Hn.
    + intros w es Hw. destruct po as [es'|]; [|exists []; rewrite app_nil_r; exact Hw].
      destruct (Fp es' eq_refl) as (es0 & ex & E & ->).
      rewrite (find_set N.compare N_order). destruct (cmp_dec N.compare N_order w (wl_of k)) as [->|Hne].
      * exists ex. congruence.
      * exists []. rewrite app_nil_r. exact Hw.
    + intros w Hw. destruct po as [es'|]; [|exact Hw].
      destruct (Fp es' eq_refl) as (es0 & ex & E & ->).
      rewrite (find_set N.compare N_order). destruct (cmp_dec N.compare N_order w (wl_of k)) as [->|Hne]; congruence.
    + reflexivity.
    + auto.
    + auto.
  - unfold st', lsorted, rt_sorted; cbn. split; [split; [|split]|].
    + apply set_sorted; auto; ord.
    + destruct fo; auto. apply set_sorted; auto; ord.
    + exact Hc1.
    + destruct po; auto. apply set_sorted; auto; ord.
Qed.

Lemma corr_keep (st : lstate S) : lsorted st ->
  corr_sorted (cor (ls_rt st)) /\ rollback (ls_log st) (cor (ls_rt st)) = rollback (ls_log st) (cor (ls_rt st)) /\
  witnessed (cor (ls_rt st)) = witnessed (cor (ls_rt st)) /\ staged (cor (ls_rt st)) = staged (cor (ls_rt st)).
Proof. intros ((_ & _ & H) & _). auto. Qed.

Lemma none_some_absurd {A} (P : A -> Prop) : forall x : A, @None A = Some x -> P x.
Proof. discriminate. Qed.

(* one loop iteration: whatever happens, only head k, its worldline's frontier and provenance, and
   logged correlation writes are touched *)
Lemma pass_step_frame next k (st : lstate S) :
  lsorted st ->
  match pass_step S commit next k st with
  | SCont st' _ | SFail st' _ | SPanic st' => frame [k] st st' /\ lsorted st'
  | SOuter _ _ => find hkey_cmp k (heads (ls_rt st)) = None
  end.
Proof.
  intros Hs. unfold pass_step.
  destruct (find hkey_cmp k (heads (ls_rt st))) as [h|] eqn:Fh; [|reflexivity].
  destruct (admit h) as [batch h'] eqn:A.
  pose proof (corr_keep st Hs) as Hck.
  destruct batch as [|b0 brest].
  { exact (frame_step k st h h' None None _ _ Hs Fh (none_some_absurd _) (none_some_absurd _) Hck). }
  destruct (find N.compare (wl_of k) (fronts (ls_rt st))) as [f|] eqn:Ff.
  2:{ exact (frame_step k st h h' None None _ _ Hs Fh (none_some_absurd _) (none_some_absurd _) Hck). }
  destruct (find N.compare (wl_of k) (ls_prov st)) as [es|] eqn:Fp.
  2:{ exact (frame_step k st h h' None None _ _ Hs Fh (none_some_absurd _) (none_some_absurd _) Hck). }
  assert (Fsome : forall fx f' : frontier S, Some fx = Some f' ->
            find N.compare (wl_of k) (fronts (ls_rt st)) <> None) by (intros; rewrite Ff; discriminate).
  assert (Pext : forall en (es' : list entry), Some (es ++ [en]) = Some es' ->
            exists es0 ex, find N.compare (wl_of k) (ls_prov st) = Some es0 /\ es' = es0 ++ ex).
  { intros en es' E. inversion E; subst. exists es, [en]. split; [exact Fp|reflexivity]. }
  destruct (commit (f_state f) (b0 :: brest)) as [s' cid rdig|e s'|s'].
  - (* COk *)
    destruct (negb (lenN es =? f_tick f)).
    { exact (frame_step k st h h' (Some _) None _ _ Hs Fh (Fsome _) (none_some_absurd _) Hck). }
    destruct (f_tick f =? tick_max).
    { exact (frame_step k st h h' (Some _) (Some _) _ _ Hs Fh (Fsome _) (Pext _) Hck). }
    pose proof (correlate_spec k next (f_tick f + 1) cid rdig (b0 :: brest) (cor (ls_rt st)) (ls_log st)
                  (proj1 Hck)) as Hcs.
    destruct (correlate k next (f_tick f + 1) cid rdig (cor (ls_rt st)) (ls_log st) (b0 :: brest)) as [c' l'|c' l'].
    + exact (frame_step k st h h' (Some _) (Some _) c' l' Hs Fh (Fsome _) (Pext _) Hcs).
    + exact (frame_step k st h h' (Some _) (Some _) c' l' Hs Fh (Fsome _) (Pext _) Hcs).
  - exact (frame_step k st h h' (Some _) None _ _ Hs Fh (Fsome _) (none_some_absurd _) Hck).
  - exact (frame_step k st h h' (Some _) None _ _ Hs Fh (Fsome _) (none_some_absurd _) Hck).
Qed.

Lemma pass_loop_frame next : forall keys (st : lstate S),
  lsorted st ->
  (forall k, In k keys -> find hkey_cmp k (heads (ls_rt st)) <> None) ->
  match pass_loop S commit next keys st with
  | LDone st' _ | LFail st' _ _ | LPanic st' => frame keys st st' /\ lsorted st'
  | LOuter _ _ => False
  end.
Proof.
  induction keys as [|k ks IH]; intros st Hs Hk; cbn [pass_loop].
  - split; [apply frame_refl|exact Hs].
  - pose proof (pass_step_frame next k st Hs) as H1.
    destruct (pass_step S commit next k st) as [st1 o|st1 e|st1|st1 e].
    + destruct H1 as [F1 Hs1].
      assert (Hk1 : forall k', In k' ks -> find hkey_cmp k' (heads (ls_rt st1)) <> None).
      { intros k' Hin Hn. apply (fr_heads_dom _ _ _ F1) in Hn. apply (Hk k'); [right; exact Hin|exact Hn]. }
      specialize (IH st1 Hs1 Hk1).
      destruct (pass_loop S commit next ks st1) as [st2 recs|st2 kf e|st2|st2 e]; try exact IH;
        (destruct IH as [F2 Hs2]; split; [exact (frame_trans [k] ks _ _ _ F1 F2)|exact Hs2]).
    + destruct H1 as [F1 Hs1]; split; [exact (frame_trans [k] ks _ _ _ F1 (frame_refl ks st1))|exact Hs1].
    + destruct H1 as [F1 Hs1]; split; [exact (frame_trans [k] ks _ _ _ F1 (frame_refl ks st1))|exact Hs1].
    + apply (Hk k); [left; reflexivity|exact H1].
Qed.

(* ------------------------------------------------------------------ checkpoints are complete *)

Lemma checkpoint_heads_spec (r : rt S) : forall keys cp, checkpoint_heads S r keys = Some cp ->
  sorted hkey_cmp cp /\
  (forall k, In k keys -> find hkey_cmp k cp = find hkey_cmp k (heads r) /\ find hkey_cmp k (heads r) <> None) /\
  (forall k, ~ In k keys -> find hkey_cmp k cp = None).
Proof.
  induction keys as [|k ks IH]; intros cp H; cbn [checkpoint_heads] in H.
  - inversion H; subst. split; [exact I|]. split; [intros k []|reflexivity].
  - destruct (find hkey_cmp k (heads r)) as [h|] eqn:Fh; [|discriminate].
    destruct (checkpoint_heads S r ks) as [m|]; [|discriminate]. inversion H; subst cp; clear H.
    destruct (IH m eq_refl) as (Hs & Hin & Hout).
    split; [apply set_sorted; auto; ord|]. split.
    + intros k' Hk'. rewrite (find_set hkey_cmp hkey_order).
      destruct (cmp_dec hkey_cmp hkey_order k' k) as [->|Hne].
      * rewrite Fh. split; [reflexivity|discriminate].
      * apply Hin. destruct Hk' as [E|Hk']; [congruence|exact Hk'].
    + intros k' Hn. rewrite (find_set hkey_cmp hkey_order).
      destruct (cmp_dec hkey_cmp hkey_order k' k) as [->|Hne]; [exfalso; apply Hn; left; reflexivity|].
      apply Hout. intro; apply Hn; right; assumption.
Qed.

Lemma checkpoint_fronts_spec (r : rt S) : forall keys cp, checkpoint_fronts S r keys = Some cp ->
  sorted N.compare cp /\
  (forall w, In w (map wl_of keys) ->
     find N.compare w cp = find N.compare w (fronts r) /\ find N.compare w (fronts r) <> None) /\
  (forall w, ~ In w (map wl_of keys) -> find N.compare w cp = None).
Proof.
  induction keys as [|k ks IH]; intros cp H; cbn [checkpoint_fronts] in H.
  - inversion H; subst. split; [exact I|]. split; [intros k []|reflexivity].
  - destruct (find N.compare (wl_of k) (fronts r)) as [f|] eqn:Ff; [|discriminate].
    destruct (checkpoint_fronts S r ks) as [m|]; [|discriminate]. inversion H; subst cp; clear H.
    destruct (IH m eq_refl) as (Hs & Hin & Hout).
    split; [apply set_sorted; auto; ord|]. split.
    + intros w Hw. rewrite (find_set N.compare N_order).
      destruct (cmp_dec N.compare N_order w (wl_of k)) as [->|Hne].
      * rewrite Ff. split; [reflexivity|discriminate].
      * apply Hin. cbn [map] in Hw. destruct Hw as [E|Hw]; [congruence|exact Hw].
    + intros w Hn. rewrite (find_set N.compare N_order). cbn [map] in Hn.
      destruct (cmp_dec N.compare N_order w (wl_of k)) as [->|Hne]; [exfalso; apply Hn; left; reflexivity|].
      apply Hout. intro; apply Hn; right; assumption.
Qed.

Lemma prov_checkpoint_spec (p : provmap) : forall keys cp, prov_checkpoint p keys = Some cp ->
  sorted N.compare cp /\
  (forall w, In w (map wl_of keys) ->
     exists es, find N.compare w p = Some es /\ find N.compare w cp = Some (lenN es)) /\
  (forall w, ~ In w (map wl_of keys) -> find N.compare w cp = None).
Proof.
  induction keys as [|k ks IH]; intros cp H; cbn [prov_checkpoint] in H.
  - inversion H; subst. split; [exact I|]. split; [intros k []|reflexivity].
  - destruct (find N.compare (wl_of k) p) as [es|] eqn:Fp; [|discriminate].
    destruct (prov_checkpoint p ks) as [m|]; [|discriminate]. inversion H; subst cp; clear H.
    destruct (IH m eq_refl) as (Hs & Hin & Hout).
    split; [apply set_sorted; auto; ord|]. split.
    + intros w Hw. rewrite (find_set N.compare N_order).
      destruct (cmp_dec N.compare N_order w (wl_of k)) as [->|Hne].
      * exists es. split; [exact Fp|reflexivity].
      * apply Hin. cbn [map] in Hw. destruct Hw as [E|Hw]; [congruence|exact Hw].
    + intros w Hn. rewrite (find_set N.compare N_order). cbn [map] in Hn.
      destruct (cmp_dec N.compare N_order w (wl_of k)) as [->|Hne]; [exfalso; apply Hn; left; reflexivity|].
      apply Hout. intro; apply Hn; right; assumption.
Qed.

Lemma find_prov_restore : forall (cp : list (N * N)), sorted N.compare cp -> forall (p : provmap) w,
  find N.compare w (prov_restore p cp) =
  match find N.compare w cp with
  | Some n => match find N.compare w p with Some es => Some (firstn (N.to_nat n) es) | None => None end
  | None => find N.compare w p
  end.
Proof.
  induction cp as [|[w1 n1] rest IH]; intros Hs p w; [reflexivity|].
  cbn in Hs. destruct Hs as [Hlb Hs]. unfold prov_restore. cbn [fold_left fst snd]. fold (prov_restore).
  change (fold_left _ rest ?q) with (prov_restore q rest).
  rewrite IH by exact Hs. cbn [find].
  destruct (N.compare w w1) eqn:E.
  - apply N.compare_eq_iff in E; subst w1.
    rewrite (find_lb_none N.compare (ol_trans _ N_order)) by auto.
    destruct (find N.compare w p) as [es|] eqn:Fp; [|exact Fp].
    apply find_set_same; ord.
  - assert (w <> w1) by (intro; subst; rewrite N.compare_refl in E; discriminate).
    assert (Hp : find N.compare w (match find N.compare w1 p with
                                   | Some es => set N.compare w1 (firstn (N.to_nat n1) es) p | None => p end)
                 = find N.compare w p).
    { destruct (find N.compare w1 p); auto. apply find_set_other; auto; ord. }
    rewrite Hp. reflexivity.
  - assert (w <> w1) by (intro; subst; rewrite N.compare_refl in E; discriminate).
    assert (Hp : find N.compare w (match find N.compare w1 p with
                                   | Some es => set N.compare w1 (firstn (N.to_nat n1) es) p | None => p end)
                 = find N.compare w p).
    { destruct (find N.compare w1 p); auto. apply find_set_other; auto; ord. }
    rewrite Hp. reflexivity.
Qed.

Lemma prov_restore_sorted : forall (cp : list (N * N)) (p : provmap),
  sorted N.compare p -> sorted N.compare (prov_restore p cp).
Proof.
  induction cp as [|[w1 n1] rest IH]; intros p Hs; [exact Hs|].
  unfold prov_restore. cbn [fold_left fst snd]. change (fold_left _ rest ?q) with (prov_restore q rest).
  apply IH. destruct (find N.compare w1 p); auto. apply set_sorted; auto; ord.
Qed.

(* the partial checkpoint is complete: restoring it after ANY partial pass gives back the pre-pass world *)
Lemma rollback_restore_exact (r : rt S) (p : provmap) keys cp pcp (st : lstate S) :
  wf r p -> lsorted st ->
  checkpoint_for S r keys = Some cp -> prov_checkpoint p keys = Some pcp ->
  frame keys {| ls_rt := r; ls_prov := p; ls_log := [] |} st ->
  restore S (upd S (ls_rt st) (heads (ls_rt st)) (fronts (ls_rt st)) (rollback (ls_log st) (cor (ls_rt st)))) cp = r /\
  prov_restore (ls_prov st) pcp = p.
Proof.
  intros ((Hh & Hf & Hc) & Hp) ((Hh1 & Hf1 & Hc1) & Hp1) Hcp Hpcp F.
  unfold checkpoint_for in Hcp.
  destruct (checkpoint_heads S r keys) as [ch|] eqn:Ech; [|discriminate].
  destruct (checkpoint_fronts S r keys) as [cf|] eqn:Ecf; [|discriminate].
  inversion Hcp; subst cp; clear Hcp.
  destruct (checkpoint_heads_spec r keys ch Ech) as (Sch & Hin & Hout).
  destruct (checkpoint_fronts_spec r keys cf Ecf) as (Scf & Fin & Fout).
  destruct (prov_checkpoint_spec p keys pcp Hpcp) as (Spc & Pin & Pout).
  cbn [ls_rt ls_prov ls_log] in F.
  split.
  - apply rt_ext; unfold restore; cbn.
    + apply (sorted_ext hkey_cmp); try ord; auto.
      { apply (fold_set_sorted hkey_cmp hkey_order); auto. }
      intros k. rewrite (find_fold_set hkey_cmp hkey_order) by auto.
      destruct (in_dec hkey_eq_dec k keys) as [Hk|Hk].
      * destruct (Hin k Hk) as [E Hne]. rewrite E. destruct (find hkey_cmp k (heads r)); congruence.
      * rewrite (Hout k Hk). apply (fr_heads _ _ _ F k Hk).
    + apply (sorted_ext N.compare); try ord; auto.
      { apply (fold_set_sorted N.compare N_order); auto. }
      intros w. rewrite (find_fold_set N.compare N_order) by auto.
      destruct (in_dec N.eq_dec w (map wl_of keys)) as [Hw|Hw].
      * destruct (Fin w Hw) as [E Hne]. rewrite E. destruct (find N.compare w (fronts r)); congruence.
      * rewrite (Fout w Hw). apply (fr_fronts _ _ _ F w Hw).
    + reflexivity.
    + exact (proj1 (fr_corr _ _ _ F)).
    + exact (proj1 (fr_faults _ _ _ F)).
    + exact (proj1 (proj2 (fr_faults _ _ _ F))).
    + exact (proj1 (proj2 (proj2 (fr_faults _ _ _ F)))).
    + exact (proj2 (proj2 (proj2 (fr_faults _ _ _ F)))).
  - apply (sorted_ext N.compare); try ord; auto.
    { apply prov_restore_sorted; auto. }
    intros w. rewrite find_prov_restore by auto.
    destruct (in_dec N.eq_dec w (map wl_of keys)) as [Hw|Hw].
    + destruct (Pin w Hw) as (es & E1 & E2). rewrite E2.
      destruct (fr_prov_ext _ _ _ F w es E1) as [ex E3]. cbn [ls_prov] in E3. rewrite E3.
      rewrite firstn_len_app. symmetry. exact E1.
    + rewrite (Pout w Hw). apply (fr_prov _ _ _ F w Hw).
Qed.

(* ------------------------------------------------------------------ super_tick, case by case *)

Lemma pass_loop_fail_key next : forall keys (st : lstate S) st' k e,
  pass_loop S commit next keys st = LFail st' k e -> In k keys.
Proof.
  induction keys as [|k0 ks IH]; intros st st' k e H; cbn [pass_loop] in H; [discriminate|].
  destruct (pass_step S commit next k0 st) as [st1 o|st1 e1|st1|st1 e1]; try discriminate.
  - destruct (pass_loop S commit next ks st1) eqn:E; try discriminate.
    inversion H; subst. right. eapply IH; eauto.
  - inversion H; subst. left; reflexivity.
Qed.

Lemma preflight_spec (r : rt S) : forall keys k e, preflight S r keys = Some (k, e) ->
  In k keys /\ (forall w, e = EFrontierOverflow w -> w = wl_of k).
Proof.
  induction keys as [|k0 ks IH]; intros k e H; cbn [preflight] in H; [discriminate|].
  destruct (find hkey_cmp k0 (heads r)) as [h|].
  - destruct (can_admit h).
    + destruct (find N.compare (wl_of k0) (fronts r)) as [f|].
      * destruct (f_tick f =? tick_max).
        -- inversion H; subst. split; [left; reflexivity|]. intros w E; inversion E; reflexivity.
        -- destruct (IH k e H) as [A B]. split; [right; exact A|exact B].
      * inversion H; subst. split; [left; reflexivity|]. intros w E; discriminate.
    + destruct (IH k e H) as [A B]. split; [right; exact A|exact B].
  - inversion H; subst. split; [left; reflexivity|]. intros w E; discriminate.
Qed.

(* every way a pass can end *)
Inductive tick_case (r : rt S) (p : provmap) : rt S -> provmap -> outcome -> Prop :=
| TcRefused g : rt_fault r = Some g -> tick_case r p r p (OErr (ERuntimeFaultActive g))
| TcGlobalOverflow r' o : rt_fault r = None -> gtick r = tick_max ->
    fault_then S r (gtick r, runnable_keys S r) SRuntime EGlobalOverflow = (r', o) -> tick_case r p r' p o
| TcPreflight k w r' o : rt_fault r = None -> In k (runnable_keys S r) -> w = wl_of k ->
    fault_then S r (gtick r + 1, runnable_keys S r) (SHead k) (EFrontierOverflow w) = (r', o) ->
    tick_case r p r' p o
| TcEarly e : rt_fault r = None -> (forall x, e <> EEngine x) -> (forall w, e <> EFrontierOverflow w) ->
    tick_case r p r p (OErr e)
| TcDone st recs : rt_fault r = None -> gtick r <> tick_max ->
    pass_loop S commit (gtick r + 1) (runnable_keys S r) {| ls_rt := r; ls_prov := p; ls_log := [] |} = LDone st recs ->
    frame (runnable_keys S r) {| ls_rt := r; ls_prov := p; ls_log := [] |} st -> lsorted st ->
    tick_case r p (with_gtick S (ls_rt st) (gtick r + 1)) (ls_prov st) (OOk recs)
| TcFail k e r' o : rt_fault r = None -> In k (runnable_keys S r) ->
    fault_then S r (gtick r + 1, runnable_keys S r) (scope_for k e) e = (r', o) -> tick_case r p r' p o
| TcPanic : rt_fault r = None ->
    tick_case r p (opt_default r (record_runtime_fault S r (gtick r + 1, runnable_keys S r) CausePanic)) p OPanic.

Lemma super_tick_cases (r : rt S) (p : provmap) : wf r p ->
  let '(r', p', o) := super_tick S commit r p in tick_case r p r' p' o.
Proof.
  intros Hwf. unfold super_tick.
  destruct (rt_fault r) as [g|] eqn:Erf; [apply TcRefused; exact Erf|].
  destruct (gtick r =? tick_max) eqn:Eg.
  { apply N.eqb_eq in Eg.
    destruct (fault_then S r (gtick r, runnable_keys S r) SRuntime EGlobalOverflow) as [r' o] eqn:Ef.
    eapply TcGlobalOverflow; eauto. }
  apply N.eqb_neq in Eg.
  destruct (preflight S r (runnable_keys S r)) as [[k e]|] eqn:Epf.
  { destruct (preflight_spec r _ k e Epf) as [Hin Hw].
    destruct e; try (apply TcEarly; [exact Erf|intros; discriminate|intros; discriminate]).
    - (* EEngine is never produced by the preflight *)
      exfalso. clear -Epf. revert Epf. generalize (runnable_keys S r). induction l as [|k0 ks IH]; cbn [preflight]; [discriminate|].
      destruct (find hkey_cmp k0 (heads r)); [|discriminate].
      destruct (can_admit h); [|exact IH].
      destruct (find N.compare (wl_of k0) (fronts r)); [|discriminate].
      destruct (f_tick f =? tick_max); [discriminate|exact IH].
    - destruct (fault_then S r (gtick r + 1, runnable_keys S r) (SHead k) (EFrontierOverflow w)) as [r' o] eqn:Ef.
      eapply TcPreflight; [exact Erf|exact Hin|exact (Hw w eq_refl)|exact Ef]. }
  destruct (checkpoint_for S r (runnable_keys S r)) as [cp|] eqn:Ecp.
  2:{ apply TcEarly; [exact Erf|intros; discriminate|intros; discriminate]. }
  destruct (prov_checkpoint p (runnable_keys S r)) as [pcp|] eqn:Epc.
  2:{ apply TcEarly; [exact Erf|intros; discriminate|intros; discriminate]. }
  assert (Hls : lsorted {| ls_rt := r; ls_prov := p; ls_log := [] |}) by exact Hwf.
  assert (Hkeys : forall k, In k (runnable_keys S r) -> find hkey_cmp k (heads r) <> None).
  { unfold checkpoint_for in Ecp.
    destruct (checkpoint_heads S r (runnable_keys S r)) as [ch|] eqn:Ech; [|discriminate].
    intros k Hk. exact (proj2 (proj1 (proj2 (checkpoint_heads_spec r _ ch Ech)) k Hk)). }
  pose proof (pass_loop_frame (gtick r + 1) (runnable_keys S r) _ Hls Hkeys) as HL.
  destruct (pass_loop S commit (gtick r + 1) (runnable_keys S r) {| ls_rt := r; ls_prov := p; ls_log := [] |})
    as [st recs|st k e|st|st e] eqn:EL.
  - destruct HL as [F Hs]. apply TcDone; auto.
  - destruct HL as [F Hs].
    destruct (rollback_restore_exact r p _ cp pcp st Hwf Hs Ecp Epc F) as [Er Ep].
    rewrite Er, Ep.
    destruct (fault_then S r (gtick r + 1, runnable_keys S r) (scope_for k e) e) as [r3 o] eqn:Ef.
    eapply TcFail; eauto. eapply pass_loop_fail_key; eauto.
  - destruct HL as [F Hs].
    destruct (rollback_restore_exact r p _ cp pcp st Hwf Hs Ecp Epc F) as [Er Ep].
    rewrite Er, Ep. apply TcPanic. exact Erf.
  - destruct HL.
Qed.

Lemma fault_then_spec (r : rt S) run sc e r' o : fault_then S r run sc e = (r', o) ->
  (record_fault S r run sc (CauseErr e) = Some r' /\ o = OErr e) \/
  (record_fault S r run sc (CauseErr e) = None /\ r' = r /\ o = OErr EGenOverflow).
Proof.
  unfold fault_then. destruct (record_fault S r run sc (CauseErr e)) as [r1|]; intros H; inversion H; subst; auto.
Qed.

(* recording a fault touches fault evidence only *)
Lemma record_fault_same (r : rt S) run sc c r' : record_fault S r run sc c = Some r' -> same_but_faults S r r'.
Proof.
  unfold record_fault, record_head_fault, record_runtime_fault, same_but_faults.
  destruct sc as [k|].
  - destruct (find hkey_cmp k (faulted_heads r)); [intros H; inversion H; subst; auto|].
    destruct (alloc_gen S r); intros H; inversion H; subst; cbn; auto.
  - destruct (rt_fault r); [intros H; inversion H; subst; auto|].
    destruct (alloc_gen S r); intros H; inversion H; subst; cbn; auto.
Qed.

(* C09 core: a pass that does not succeed leaves everything but fault evidence exactly as it was *)
Theorem super_tick_atomic (r : rt S) (p : provmap) r' p' o :
  wf r p -> super_tick S commit r p = (r', p', o) -> (forall recs, o <> OOk recs) ->
  p' = p /\ (r' = r \/ exists run sc c, record_fault S r run sc c = Some r').
Proof.
  intros Hwf E Hno. pose proof (super_tick_cases r p Hwf) as H. rewrite E in H.
  inversion H; subst; split; auto.
  - destruct (fault_then_spec _ _ _ _ _ _ H2) as [[A _]|[_ [A _]]]; [right; eauto|left; exact A].
  - destruct (fault_then_spec _ _ _ _ _ _ H3) as [[A _]|[_ [A _]]]; [right; eauto|left; exact A].
  - exfalso. eapply Hno; reflexivity.
  - exfalso. eapply Hno; reflexivity.
  - destruct (fault_then_spec _ _ _ _ _ _ H2) as [[A _]|[_ [A _]]]; [right; eauto|left; exact A].
  - destruct (record_runtime_fault S r (gtick r + 1, runnable_keys S r) CausePanic) as [r1|] eqn:A; cbn.
    + right. exists (gtick r + 1, runnable_keys S r), SRuntime, CausePanic. exact A.
    + left; reflexivity.
Qed.

(* ------------------------------------------------------------------ successful pass: shape *)

Definition can_admit_in (hs : list (hkey * head)) (k : hkey) : bool :=
  match find hkey_cmp k hs with Some h => can_admit h | None => false end.
Definition count_wl (w : N) (recs : list step) : N :=
  lenN (filter (fun s => wl_of (st_head s) =? w) recs).

Lemma lenN_cons {A} (x : A) l : lenN (x :: l) = lenN l + 1.
Proof. unfold lenN. cbn [length]. lia. Qed.
Lemma lenN_app {A} (l1 l2 : list A) : lenN (l1 ++ l2) = lenN l1 + lenN l2.
Proof. unfold lenN. rewrite app_length. lia. Qed.

Lemma admit_nil_iff h : fst (admit h) = [] <-> can_admit h = false.
Proof.
  unfold admit, can_admit. destruct (h_policy h) as [|n]; cbn [fst].
  - destruct (h_pending h); cbn; split; congruence.
  - destruct (h_pending h) as [|x l] eqn:E.
    + unfold take_n. rewrite firstn_nil. cbn. tauto.
    + unfold take_n. rewrite lenN_cons.
      destruct (N.ltb_spec 0 n) as [Hlt|Hge].
      * split; [|discriminate]. intros H.
        assert (Hm : N.to_nat (N.min n (lenN l + 1)) <> O) by lia.
        destruct (N.to_nat (N.min n (lenN l + 1))); [congruence|]. cbn in H. discriminate.
      * assert (n = 0) by lia. subst n. rewrite N.min_0_l. cbn. tauto.
Qed.

Lemma pass_step_cont next k (st st' : lstate S) o : pass_step S commit next k st = SCont st' o ->
  (forall k', k' <> k -> find hkey_cmp k' (heads (ls_rt st')) = find hkey_cmp k' (heads (ls_rt st))) /\
  gtick (ls_rt st') = gtick (ls_rt st) /\
  match o with
  | None => can_admit_in (heads (ls_rt st)) k = false /\ fronts (ls_rt st') = fronts (ls_rt st) /\
            ls_prov st' = ls_prov st
  | Some s =>
      can_admit_in (heads (ls_rt st)) k = true /\ st_head s = k /\ st_gtick s = next /\
      (forall w, w <> wl_of k -> find N.compare w (fronts (ls_rt st')) = find N.compare w (fronts (ls_rt st)) /\
                                 find N.compare w (ls_prov st') = find N.compare w (ls_prov st)) /\
      (exists f f', find N.compare (wl_of k) (fronts (ls_rt st)) = Some f /\
                    find N.compare (wl_of k) (fronts (ls_rt st')) = Some f' /\
                    f_tick f' = f_tick f + 1 /\ st_tick_after s = f_tick f + 1) /\
      (exists es en, find N.compare (wl_of k) (ls_prov st) = Some es /\
                     find N.compare (wl_of k) (ls_prov st') = Some (es ++ [en]) /\
                     e_gtick en = next /\ e_head en = k /\ e_tick en = lenN es)
  end.
Proof.
  unfold pass_step, can_admit_in.
  destruct (find hkey_cmp k (heads (ls_rt st))) as [h|] eqn:Fh; [|discriminate].
  pose proof (admit_nil_iff h) as Hnil.
  destruct (admit h) as [batch h'] eqn:A. cbn [fst] in Hnil.
  assert (Hoth : forall hs' k', k' <> k -> hs' = set hkey_cmp k h' (heads (ls_rt st)) ->
            find hkey_cmp k' hs' = find hkey_cmp k' (heads (ls_rt st))).
  { intros hs' k' Hne ->. apply find_set_other; auto; ord. }
  destruct batch as [|b0 brest].
  { intros H; inversion H; subst; clear H. cbn. split; [intros; eapply Hoth; eauto|]. split; [reflexivity|].
    split; [apply Hnil; reflexivity|auto]. }
  assert (Hcan : can_admit h = true).
  { destruct (can_admit h); auto. destruct Hnil as [_ Hn]. specialize (Hn eq_refl). discriminate. }
  destruct (find N.compare (wl_of k) (fronts (ls_rt st))) as [f|] eqn:Ff; [|discriminate].
  destruct (find N.compare (wl_of k) (ls_prov st)) as [es|] eqn:Fp; [|discriminate].
  destruct (commit (f_state f) (b0 :: brest)) as [s' cid rdig|e s'|s']; try discriminate.
  destruct (negb (lenN es =? f_tick f)) eqn:Egap; [discriminate|].
  destruct (f_tick f =? tick_max); [discriminate|].
  destruct (correlate k next (f_tick f + 1) cid rdig (cor (ls_rt st)) (ls_log st) (b0 :: brest)) as [c' l'|c' l'];
    [|discriminate].
  intros H; inversion H; subst; clear H. cbn.
  split; [intros; eapply Hoth; eauto|]. split; [reflexivity|].
  split; [exact Hcan|]. split; [reflexivity|]. split; [reflexivity|]. split; [|split].
  - intros w Hne. split; apply find_set_other; auto; ord.
  - eexists; eexists. split; [reflexivity|]. split; [apply find_set_same; ord|]. cbn. auto.
  - eexists; eexists. split; [reflexivity|]. split; [apply find_set_same; ord|]. cbn.
    apply negb_false_iff, N.eqb_eq in Egap. auto.
Qed.

Lemma count_wl_cons w s recs :
  count_wl w (s :: recs) = (if wl_of (st_head s) =? w then 1 else 0) + count_wl w recs.
Proof. unfold count_wl. cbn [filter]. destruct (wl_of (st_head s) =? w); [rewrite lenN_cons; lia|lia]. Qed.

Lemma pass_loop_done next : forall keys (st st' : lstate S) recs,
  NoDup keys -> pass_loop S commit next keys st = LDone st' recs ->
  map st_head recs = filter (can_admit_in (heads (ls_rt st))) keys /\
  Forall (fun s => st_gtick s = next) recs /\
  gtick (ls_rt st') = gtick (ls_rt st) /\
  (forall w f, find N.compare w (fronts (ls_rt st)) = Some f ->
     exists f', find N.compare w (fronts (ls_rt st')) = Some f' /\ f_tick f' = f_tick f + count_wl w recs) /\
  (forall w es, find N.compare w (ls_prov st) = Some es ->
     exists ex, find N.compare w (ls_prov st') = Some (es ++ ex) /\ lenN ex = count_wl w recs /\
                Forall (fun e => e_gtick e = next) ex).
Proof.
  induction keys as [|k ks IH]; intros st st' recs Hnd H; cbn [pass_loop] in H.
  - inversion H; subst. cbn. split; [reflexivity|]. split; [constructor|]. split; [reflexivity|]. split.
    + intros w f Hf. exists f. split; [exact Hf|]. unfold count_wl; cbn. lia.
    + intros w es He. exists []. rewrite app_nil_r. split; [exact He|]. split; [reflexivity|constructor].
  - destruct (pass_step S commit next k st) as [st1 o|st1 e|st1|st1 e] eqn:Est; try discriminate.
    destruct (pass_loop S commit next ks st1) as [st2 recs2|? ? ?|?|? ?] eqn:EL; try discriminate.
    inversion H; subst st2 recs; clear H.
    inversion Hnd as [|? ? Hnk Hnd']; subst.
    destruct (pass_step_cont next k st st1 o Est) as (Hoth & Hg1 & Ho).
    destruct (IH st1 st' recs2 Hnd' EL) as (I1 & I2 & I3 & I4 & I5).
    assert (Hfilt : filter (can_admit_in (heads (ls_rt st1))) ks = filter (can_admit_in (heads (ls_rt st))) ks).
    { apply filter_ext_in. intros k' Hk'. unfold can_admit_in. rewrite Hoth; auto. intro; subst; contradiction. }
    destruct o as [s|].
    + destruct Ho as (Hc & Hh & Hgt & Hother & (f & f1 & Ff & Ff1 & Ft & Hta) & (es & en & Fp & Fp1 & Eg & Eh & Et)).
      cbn [opt_cons map filter]. rewrite Hc, Hh, I1, Hfilt.
      split; [reflexivity|]. split; [constructor; auto|]. split; [congruence|]. split.
      * intros w f0 Hf0. rewrite count_wl_cons, Hh.
        destruct (N.eqb_spec (wl_of k) w) as [<-|Hne].
        -- rewrite Ff in Hf0; inversion Hf0; subst f0.
           destruct (I4 _ _ Ff1) as (f' & A & B). exists f'. split; [exact A|]. lia.
        -- destruct (Hother w (fun E => Hne (eq_sym E))) as [A _]. rewrite <- A in Hf0.
           destruct (I4 _ _ Hf0) as (f' & B & C). exists f'. split; [exact B|]. lia.
      * intros w es0 He0. rewrite count_wl_cons, Hh.
        destruct (N.eqb_spec (wl_of k) w) as [<-|Hne].
        -- rewrite Fp in He0; inversion He0; subst es0.
           destruct (I5 _ _ Fp1) as (ex & A & B & C). exists ([en] ++ ex).
           rewrite app_assoc. split; [exact A|]. split; [rewrite lenN_app; change (lenN [en]) with 1; lia|].
           constructor; auto.
        -- destruct (Hother w (fun E => Hne (eq_sym E))) as [_ A]. rewrite <- A in He0.
           destruct (I5 _ _ He0) as (ex & B & C & D). exists ex. split; [exact B|]. split; [lia|exact D].
    + destruct Ho as (Hc & Hf & Hp). cbn [opt_cons filter]. rewrite Hc, I1, Hfilt.
      split; [reflexivity|]. split; [exact I2|]. split; [congruence|]. split.
      * intros w f0 Hf0. rewrite <- Hf in Hf0. exact (I4 _ _ Hf0).
      * intros w es0 He0. rewrite <- Hp in He0. exact (I5 _ _ He0).
Qed.

(* ------------------------------------------------------------------ canonical order of the runnable set *)

Definition hlt (a b : hkey) : Prop := hkey_cmp a b = Lt.

Lemma sorted_keys_ss {V} (m : list (hkey * V)) : sorted hkey_cmp m -> StronglySorted hlt (map fst m).
Proof.
  induction m as [|[k v] m IH]; intros Hs; cbn [map fst]; [constructor|].
  cbn in Hs. destruct Hs as [Hlb Hs]. constructor; [auto|].
  apply Forall_forall. intros k' Hin. apply in_map_iff in Hin. destruct Hin as ([k2 v2] & <- & Hin).
  exact (lb_all hkey_cmp (ol_trans _ hkey_order) k m Hs Hlb k2 v2 Hin).
Qed.

Lemma ss_filter_map {V} (f : hkey * V -> bool) (m : list (hkey * V)) :
  StronglySorted hlt (map fst m) -> StronglySorted hlt (map fst (filter f m)).
Proof.
  induction m as [|x m IH]; cbn [map filter]; intros H; [constructor|].
  inversion H as [|? ? Hss Hall]; subst.
  destruct (f x); [|auto]. cbn [map]. constructor; [auto|].
  apply Forall_forall. intros k' Hin. rewrite Forall_forall in Hall. apply Hall.
  apply in_map_iff in Hin. destruct Hin as (y & <- & Hy). apply filter_In in Hy. apply in_map. tauto.
Qed.

Lemma ss_filter (f : hkey -> bool) (l : list hkey) :
  StronglySorted hlt l -> StronglySorted hlt (filter f l).
Proof.
  induction l as [|x l IH]; cbn [filter]; intros H; [constructor|].
  inversion H as [|? ? Hss Hall]; subst. destruct (f x); [|auto]. constructor; [auto|].
  apply Forall_forall. intros k' Hin. rewrite Forall_forall in Hall. apply Hall. apply filter_In in Hin. tauto.
Qed.

Lemma ss_nodup (l : list hkey) : StronglySorted hlt l -> NoDup l.
Proof.
  induction l as [|x l IH]; intros H; [constructor|]. inversion H as [|? ? Hss Hall]; subst.
  constructor; [|auto]. intros Hin. rewrite Forall_forall in Hall. specialize (Hall x Hin).
  unfold hlt in Hall. rewrite (cmp_refl hkey_cmp (ol_eq _ hkey_order)) in Hall. discriminate.
Qed.

(* RunnableWriterSet::rebuild: strictly ascending (worldline, head) order *)
Lemma runnable_ascending (r : rt S) : sorted hkey_cmp (heads r) ->
  StronglySorted hlt (runnable_keys S r).
Proof.
  intros Hs. unfold runnable_keys. destruct (rt_fault r); [constructor|].
  apply ss_filter_map, sorted_keys_ss, Hs.
Qed.

Lemma runnable_spec (r : rt S) k : sorted hkey_cmp (heads r) ->
  (In k (runnable_keys S r) <->
   rt_fault r = None /\ exists h, find hkey_cmp k (heads r) = Some h /\ h_admitted h = true /\ h_paused h = false /\
                                  find hkey_cmp k (faulted_heads r) = None).
Proof.
  intros Hs. unfold runnable_keys. destruct (rt_fault r) as [g|].
  - split; [intros []|intros [H _]; discriminate].
  - rewrite in_map_iff. split.
    + intros ([k' h] & E & Hin). cbn in E; subst k'. apply filter_In in Hin. destruct Hin as [Hin Hb]. cbn in Hb.
      apply andb_true_iff in Hb. destruct Hb as [Hb H3]. apply andb_true_iff in Hb. destruct Hb as [H1 H2].
      split; [reflexivity|]. exists h. split; [|split; [exact H1|split]].
      * apply in_find; auto; ord.
      * apply negb_true_iff. exact H2.
      * apply negb_true_iff in H3. apply (mem_false hkey_cmp). exact H3.
    + intros (_ & h & Fh & H1 & H2 & H3). exists (k, h). split; [reflexivity|]. apply filter_In. split.
      * apply find_in in Fh; auto; ord.
      * cbn. rewrite H1, H2. cbn. apply negb_true_iff. apply (mem_false hkey_cmp). exact H3.
Qed.

(* ------------------------------------------------------------------ pinned statements *)

Definition count_heads (w : N) (recs : list step) : N := count_wl w recs.

Theorem super_tick_success (r : rt S) (p : provmap) r' p' recs :
  wf r p -> super_tick S commit r p = (r', p', OOk recs) ->
  gtick r' = gtick r + 1 /\
  map st_head recs = filter (can_admit_in (heads r)) (runnable_keys S r) /\
  StronglySorted hlt (map st_head recs) /\
  Forall (fun s => st_gtick s = gtick r + 1) recs /\
  (forall w f, find N.compare w (fronts r) = Some f ->
     exists f', find N.compare w (fronts r') = Some f' /\ f_tick f' = f_tick f + count_wl w recs) /\
  (forall w es, find N.compare w p = Some es ->
     exists ex, find N.compare w p' = Some (es ++ ex) /\ lenN ex = count_wl w recs /\
                Forall (fun e => e_gtick e = gtick r + 1) ex) /\
  faults r' = faults r /\ faulted_heads r' = faulted_heads r /\ rt_fault r' = rt_fault r /\
  wf r' p'.
Proof.
  intros Hwf E. pose proof (super_tick_cases r p Hwf) as H. rewrite E in H.
  inversion H; subst;
    try (match goal with Hf : fault_then _ _ _ _ _ = _ |- _ =>
           destruct (fault_then_spec _ _ _ _ _ _ Hf) as [[_ A]|[_ [_ A]]]; discriminate end).
  match goal with HL : pass_loop _ _ _ _ _ = LDone _ _, HF : frame _ _ _, HS : lsorted _ |- _ =>
    rename HL into Hloop; rename HF into Hframe; rename HS into Hsorted end.
  pose proof (runnable_ascending r (proj1 (proj1 Hwf))) as Hasc.
  destruct (pass_loop_done _ _ _ _ _ (ss_nodup _ Hasc) Hloop) as (I1 & I2 & I3 & I4 & I5).
  cbn [ls_rt ls_prov] in *.
  split; [reflexivity|]. split; [exact I1|]. split; [rewrite I1; apply ss_filter; exact Hasc|].
  split; [exact I2|]. split; [exact I4|]. split; [exact I5|].
  destruct (fr_faults _ _ _ Hframe) as (A1 & A2 & A3 & _). cbn in A1, A2, A3.
  split; [exact A1|]. split; [exact A2|]. split; [exact A3|]. exact Hsorted.
Qed.

(* lawful rejection: the engine's Ok outcome (whatever its receipt says) never produces a fault; an engine-scoped
   fault or a caught unwind exists only if the engine really returned a typed error / unwound *)
Lemma pass_loop_fail_cause next : forall keys (st : lstate S),
  match pass_loop S commit next keys st with
  | LFail _ _ (EEngine x) => exists s b s', commit s b = CErr x s'
  | LPanic _ => exists s b s', commit s b = CPanic s'
  | LOuter _ e => exists k, e = EUnknownHead k
  | _ => True
  end.
Proof.
  induction keys as [|k ks IH]; intros st; cbn [pass_loop]; [exact I|].
  destruct (pass_step S commit next k st) as [st1 o|st1 e|st1|st1 e] eqn:Est.
  - specialize (IH st1). destruct (pass_loop S commit next ks st1); auto.
  - destruct e; auto. revert Est. unfold pass_step.
    destruct (find hkey_cmp k (heads (ls_rt st))); [|discriminate].
    destruct (admit h) as [batch h']. destruct batch; [discriminate|].
    destruct (find N.compare (wl_of k) (fronts (ls_rt st))); [|discriminate].
    destruct (find N.compare (wl_of k) (ls_prov st)); [|discriminate].
    destruct (commit (f_state f) (n :: batch)) as [s' cid rdig|e0 s'|s'] eqn:Ec; try discriminate.
    + destruct (negb (lenN l =? f_tick f)); [discriminate|].
      destruct (f_tick f =? tick_max); [discriminate|].
      destruct (correlate k next (f_tick f + 1) cid rdig (cor (ls_rt st)) (ls_log st) (n :: batch)); discriminate.
    + intros H; inversion H; subst. eauto.
  - revert Est. unfold pass_step.
    destruct (find hkey_cmp k (heads (ls_rt st))); [|discriminate].
    destruct (admit h) as [batch h']. destruct batch; [discriminate|].
    destruct (find N.compare (wl_of k) (fronts (ls_rt st))); [|discriminate].
    destruct (find N.compare (wl_of k) (ls_prov st)); [|discriminate].
    destruct (commit (f_state f) (n :: batch)) as [s' cid rdig|e0 s'|s'] eqn:Ec; try discriminate.
    + destruct (negb (lenN l =? f_tick f)); [discriminate|].
      destruct (f_tick f =? tick_max); [discriminate|].
      destruct (correlate k next (f_tick f + 1) cid rdig (cor (ls_rt st)) (ls_log st) (n :: batch)); discriminate.
    + intros _. eauto.
  - revert Est. unfold pass_step.
    destruct (find hkey_cmp k (heads (ls_rt st))); [|intros H; inversion H; eauto].
    destruct (admit h) as [batch h']. destruct batch; [discriminate|].
    destruct (find N.compare (wl_of k) (fronts (ls_rt st))); [|discriminate].
    destruct (find N.compare (wl_of k) (ls_prov st)); [|discriminate].
    destruct (commit (f_state f) (n :: batch)) as [s' cid rdig|e0 s'|s']; try discriminate.
    destruct (negb (lenN l =? f_tick f)); [discriminate|].
    destruct (f_tick f =? tick_max); [discriminate|].
    destruct (correlate k next (f_tick f + 1) cid rdig (cor (ls_rt st)) (ls_log st) (n :: batch)); discriminate.
Qed.

Theorem ok_commit_never_faults (r : rt S) (p : provmap) r' p' o :
  super_tick S commit r p = (r', p', o) ->
  (forall s b, exists s' cid rdig, commit s b = COk s' cid rdig) ->
  o <> OPanic /\ (forall x, o <> OErr (EEngine x)).
Proof.
  intros E Hok. unfold super_tick in E.
  assert (Hft : forall r0 run sc e r1 o1, fault_then S r0 run sc e = (r1, o1) -> (forall x, e <> EEngine x) ->
            o1 <> OPanic /\ (forall x, o1 <> OErr (EEngine x))).
  { intros r0 run sc e r1 o1 Hf Hne. unfold fault_then in Hf.
    destruct (record_fault S r0 run sc (CauseErr e)); inversion Hf; subst; split; try discriminate.
    intros x Hx. inversion Hx. eapply Hne; eauto. }
  destruct (rt_fault r); [inversion E; subst; split; discriminate|].
  destruct (gtick r =? tick_max).
  { destruct (fault_then S r (gtick r, runnable_keys S r) SRuntime EGlobalOverflow) as [r1 o1] eqn:Ef.
    inversion E; subst. eapply Hft; eauto. discriminate. }
  destruct (preflight S r (runnable_keys S r)) as [[k e]|] eqn:Epf.
  { destruct e; try (inversion E; subst; split; discriminate).
    - exfalso. clear -Epf. revert Epf. generalize (runnable_keys S r). induction l as [|k0 ks IH]; cbn [preflight]; [discriminate|].
      destruct (find hkey_cmp k0 (heads r)); [|discriminate].
      destruct (can_admit h); [|exact IH].
      destruct (find N.compare (wl_of k0) (fronts r)); [|discriminate].
      destruct (f_tick f =? tick_max); [discriminate|exact IH].
    - destruct (fault_then S r (gtick r + 1, runnable_keys S r) (SHead k) (EFrontierOverflow w)) as [r1 o1] eqn:Ef.
      inversion E; subst. eapply Hft; eauto. discriminate. }
  destruct (checkpoint_for S r (runnable_keys S r)); [|inversion E; subst; split; discriminate].
  destruct (prov_checkpoint p (runnable_keys S r)); [|inversion E; subst; split; discriminate].
  pose proof (pass_loop_fail_cause (gtick r + 1) (runnable_keys S r) {| ls_rt := r; ls_prov := p; ls_log := [] |}) as Hc.
  destruct (pass_loop S commit (gtick r + 1) (runnable_keys S r) {| ls_rt := r; ls_prov := p; ls_log := [] |})
    as [st recs|st k e|st|st e].
  - inversion E; subst; split; discriminate.
  - match type of E with (let '(_, _) := ?ft in _) = _ => destruct ft as [r3 o3] eqn:Ef end.
    inversion E; subst. destruct e; try (eapply Hft; eauto; discriminate).
    destruct Hc as (s & b & s' & Hc). destruct (Hok s b) as (s1 & c1 & d1 & Hk). congruence.
  - destruct Hc as (s & b & s' & Hc). destruct (Hok s b) as (s1 & c1 & d1 & Hk). congruence.
  - inversion E; subst; split; try discriminate.
    intros x Hx. inversion Hx; subst. destruct Hc as [k Hk]. discriminate.
Qed.

(* ------------------------------------------------------------------ which fault is recorded *)

Lemma pass_step_fail_overflow next k (st st' : lstate S) w :
  pass_step S commit next k st = SFail st' (EFrontierOverflow w) -> w = wl_of k.
Proof.
  unfold pass_step.
  destruct (find hkey_cmp k (heads (ls_rt st))); [|discriminate].
  destruct (admit h) as [batch h']. destruct batch; [discriminate|].
  destruct (find N.compare (wl_of k) (fronts (ls_rt st))); [|discriminate].
  destruct (find N.compare (wl_of k) (ls_prov st)); [|discriminate].
  destruct (commit (f_state f) (n :: batch)) as [s' cid rdig|e0 s'|s']; try discriminate.
  destruct (negb (lenN l =? f_tick f)); [discriminate|].
  destruct (f_tick f =? tick_max); [intros H; inversion H; reflexivity|].
  destruct (correlate k next (f_tick f + 1) cid rdig (cor (ls_rt st)) (ls_log st) (n :: batch)); discriminate.
Qed.

Lemma pass_loop_fail_overflow next : forall keys (st : lstate S) st' k w,
  pass_loop S commit next keys st = LFail st' k (EFrontierOverflow w) -> w = wl_of k.
Proof.
  induction keys as [|k0 ks IH]; intros st st' k w H; cbn [pass_loop] in H; [discriminate|].
  destruct (pass_step S commit next k0 st) as [st1 o|st1 e1|st1|st1 e1] eqn:Est; try discriminate.
  - destruct (pass_loop S commit next ks st1) eqn:E; try discriminate.
    inversion H; subst. eapply IH; eauto.
  - inversion H; subst. eapply pass_step_fail_overflow; eauto.
Qed.

Definition inner_err (e : rterr) : Prop :=
  match e with
  | ERuntimeFaultActive _ | EGenOverflow | EGlobalOverflow | EUnknownHead _ => False
  | _ => True
  end.

Lemma pass_step_fail_kind next k (st st' : lstate S) e :
  pass_step S commit next k st = SFail st' e -> inner_err e.
Proof.
  unfold pass_step.
  destruct (find hkey_cmp k (heads (ls_rt st))); [|discriminate].
  destruct (admit h) as [batch h']. destruct batch; [discriminate|].
  destruct (find N.compare (wl_of k) (fronts (ls_rt st))); [|intros H; inversion H; exact I].
  destruct (find N.compare (wl_of k) (ls_prov st)); [|intros H; inversion H; exact I].
  destruct (commit (f_state f) (n :: batch)) as [s' cid rdig|e0 s'|s']; try discriminate.
  - destruct (negb (lenN l =? f_tick f)); [intros H; inversion H; exact I|].
    destruct (f_tick f =? tick_max); [intros H; inversion H; exact I|].
    destruct (correlate k next (f_tick f + 1) cid rdig (cor (ls_rt st)) (ls_log st) (n :: batch));
      [discriminate|intros H; inversion H; exact I].
  - intros H; inversion H; exact I.
Qed.

Lemma pass_loop_fail_kind next : forall keys (st : lstate S) st' k e,
  pass_loop S commit next keys st = LFail st' k e -> inner_err e.
Proof.
  induction keys as [|k0 ks IH]; intros st st' k e H; cbn [pass_loop] in H; [discriminate|].
  destruct (pass_step S commit next k0 st) as [st1 o|st1 e1|st1|st1 e1] eqn:Est; try discriminate.
  - destruct (pass_loop S commit next ks st1) eqn:E; try discriminate.
    inversion H; subst. eapply IH; eauto.
  - inversion H; subst. eapply pass_step_fail_kind; eauto.
Qed.

Theorem fault_evidence_exact (r : rt S) (p : provmap) r' p' o :
  wf r p -> super_tick S commit r p = (r', p', o) ->
  match o with
  | OOk _ => faults r' = faults r /\ faulted_heads r' = faulted_heads r /\ rt_fault r' = rt_fault r
  | OPanic => r' = opt_default r (record_runtime_fault S r (gtick r + 1, runnable_keys S r) CausePanic)
  | OErr (EEngine x) =>
      exists k, In k (runnable_keys S r) /\
        record_head_fault S r (gtick r + 1, runnable_keys S r) k (CauseErr (EEngine x)) = Some r'
  | OErr (EFrontierOverflow w) =>
      exists k, In k (runnable_keys S r) /\ wl_of k = w /\
        record_head_fault S r (gtick r + 1, runnable_keys S r) k (CauseErr (EFrontierOverflow w)) = Some r'
  | OErr (ERuntimeFaultActive _) | OErr EGenOverflow | OErr (EUnknownHead _) => r' = r
  | OErr e => r' = r \/ record_runtime_fault S r (if gtick r =? tick_max then gtick r else gtick r + 1, runnable_keys S r)
                          (CauseErr e) = Some r'
  end.
Proof.
  intros Hwf E.
  destruct o as [recs|e|].
  - destruct (super_tick_success r p r' p' recs Hwf E) as (_ & _ & _ & _ & _ & _ & A & B & C & _). auto.
  - unfold super_tick in E.
    destruct (rt_fault r) as [g|] eqn:Erf; [inversion E; subst; reflexivity|].
    assert (Hft : forall run sc e0 r1, fault_then S r run sc e0 = (r1, OErr e) ->
              (e = e0 /\ record_fault S r run sc (CauseErr e0) = Some r1) \/ (e = EGenOverflow /\ r1 = r)).
    { intros run sc e0 r1 Hf. destruct (fault_then_spec _ _ _ _ _ _ Hf) as [[A B]|[_ [A B]]].
      - left. inversion B; subst. auto.
      - right. inversion B; subst. auto. }
    destruct (gtick r =? tick_max) eqn:Eg.
    { destruct (fault_then S r (gtick r, runnable_keys S r) SRuntime EGlobalOverflow) as [r1 o1] eqn:Ef.
      inversion E; subst. destruct (Hft _ _ _ _ Ef) as [[-> A]|[-> ->]]; [right; exact A|reflexivity]. }
    destruct (preflight S r (runnable_keys S r)) as [[k e0]|] eqn:Epf.
    { destruct (preflight_spec r _ k e0 Epf) as [Hin Hw].
      destruct e0; try (inversion E; subst; auto; fail).
      - exfalso. clear -Epf. revert Epf. generalize (runnable_keys S r). induction l as [|k0 ks IH]; cbn [preflight]; [discriminate|].
        destruct (find hkey_cmp k0 (heads r)); [|discriminate].
        destruct (can_admit h); [|exact IH].
        destruct (find N.compare (wl_of k0) (fronts r)); [|discriminate].
        destruct (f_tick f =? tick_max); [discriminate|exact IH].
      - destruct (fault_then S r (gtick r + 1, runnable_keys S r) (SHead k) (EFrontierOverflow w)) as [r1 o1] eqn:Ef.
        inversion E; subst. destruct (Hft _ _ _ _ Ef) as [[-> A]|[-> ->]]; [|reflexivity].
        exists k. split; [exact Hin|]. split; [symmetry; exact (Hw w eq_refl)|exact A]. }
    destruct (checkpoint_for S r (runnable_keys S r)) as [cp|] eqn:Ecp; [|inversion E; subst; reflexivity].
    destruct (prov_checkpoint p (runnable_keys S r)) as [pcp|] eqn:Epc; [|inversion E; subst; left; reflexivity].
    assert (Hls : lsorted {| ls_rt := r; ls_prov := p; ls_log := [] |}) by exact Hwf.
    assert (Hkeys : forall k, In k (runnable_keys S r) -> find hkey_cmp k (heads r) <> None).
    { unfold checkpoint_for in Ecp.
      destruct (checkpoint_heads S r (runnable_keys S r)) as [ch|] eqn:Ech; [|discriminate].
      intros k Hk. exact (proj2 (proj1 (proj2 (checkpoint_heads_spec r _ ch Ech)) k Hk)). }
    pose proof (pass_loop_frame (gtick r + 1) (runnable_keys S r) _ Hls Hkeys) as HL.
    destruct (pass_loop S commit (gtick r + 1) (runnable_keys S r) {| ls_rt := r; ls_prov := p; ls_log := [] |})
      as [st recs|st k e0|st|st e0] eqn:EL; [discriminate| | |destruct HL].
    + destruct HL as [F Hs].
      destruct (rollback_restore_exact r p _ cp pcp st Hwf Hs Ecp Epc F) as [Er Ep].
      rewrite Er in E.
      destruct (fault_then S r (gtick r + 1, runnable_keys S r) (scope_for k e0) e0) as [r3 o3] eqn:Ef.
      inversion E; subst. pose proof (pass_loop_fail_key _ _ _ _ _ _ EL) as Hin.
      destruct (Hft _ _ _ _ Ef) as [[-> A]|[-> ->]]; [|reflexivity].
      pose proof (pass_loop_fail_kind _ _ _ _ _ _ EL) as Hkind.
      destruct e0; cbn [scope_for record_fault] in A; cbn [inner_err] in Hkind; try contradiction; auto.
      * exists k. split; [exact Hin|exact A].
      * exists k. split; [exact Hin|]. split; [symmetry; eapply pass_loop_fail_overflow; eauto|exact A].
    + discriminate.
  - pose proof (super_tick_cases r p Hwf) as H. rewrite E in H. inversion H; subst; try reflexivity;
      match goal with Hf : fault_then _ _ _ _ _ = _ |- _ =>
        destruct (fault_then_spec _ _ _ _ _ _ Hf) as [[_ A]|[_ [_ A]]]; discriminate end.
Qed.

(* ------------------------------------------------------------------ quarantine and recovery *)

Lemma record_fault_other_head (r : rt S) run sc c r' k :
  record_fault S r run sc c = Some r' -> (forall k2, sc = SHead k2 -> k2 <> k) ->
  find hkey_cmp k (faulted_heads r') = find hkey_cmp k (faulted_heads r).
Proof.
  unfold record_fault, record_head_fault, record_runtime_fault. destruct sc as [k2|]; intros H Hne.
  - destruct (find hkey_cmp k2 (faulted_heads r)); [inversion H; subst; reflexivity|].
    destruct (alloc_gen S r); inversion H; subst; cbn.
    apply find_set_other; [ord|]. intro E. exact (Hne k2 eq_refl (eq_sym E)).
  - destruct (rt_fault r); [inversion H; subst; reflexivity|].
    destruct (alloc_gen S r); inversion H; subst; reflexivity.
Qed.

Theorem quarantine_holds (r : rt S) (p : provmap) r' p' o k g :
  wf r p -> find hkey_cmp k (faulted_heads r) = Some g -> super_tick S commit r p = (r', p', o) ->
  ~ In k (runnable_keys S r) /\
  find hkey_cmp k (heads r') = find hkey_cmp k (heads r) /\
  find hkey_cmp k (faulted_heads r') = Some g /\
  (forall recs, o = OOk recs -> ~ In k (map st_head recs)) /\
  (forall k2 h2, rt_fault r = None -> find hkey_cmp k2 (heads r) = Some h2 -> h_admitted h2 = true ->
     h_paused h2 = false -> find hkey_cmp k2 (faulted_heads r) = None ->
     In k2 (runnable_keys S r) /\
     (forall recs, o = OOk recs -> can_admit h2 = true -> In k2 (map st_head recs))).
Proof.
  intros Hwf Hq E.
  assert (Hnr : ~ In k (runnable_keys S r)).
  { intros Hin. apply (runnable_spec r k (proj1 (proj1 Hwf))) in Hin.
    destruct Hin as (_ & h & _ & _ & _ & Hn). congruence. }
  split; [exact Hnr|].
  assert (Hrec : forall run sc c r1, record_fault S r run sc c = Some r1 ->
            (forall k2, sc = SHead k2 -> In k2 (runnable_keys S r)) ->
            find hkey_cmp k (heads r1) = find hkey_cmp k (heads r) /\ find hkey_cmp k (faulted_heads r1) = Some g).
  { intros run sc c r1 Hr Hsc. split.
    - destruct (record_fault_same _ _ _ _ _ Hr) as (A & _). rewrite A. reflexivity.
    - rewrite (record_fault_other_head _ _ _ _ _ k Hr); [exact Hq|].
      intros k2 E2 E3; subst. apply Hnr. apply Hsc. reflexivity. }
  assert (Hft : forall run sc e r1 o1, fault_then S r run sc e = (r1, o1) ->
            (forall k2, sc = SHead k2 -> In k2 (runnable_keys S r)) ->
            find hkey_cmp k (heads r1) = find hkey_cmp k (heads r) /\ find hkey_cmp k (faulted_heads r1) = Some g).
  { intros run sc e r1 o1 Hf Hsc. destruct (fault_then_spec _ _ _ _ _ _ Hf) as [[A _]|[_ [-> _]]]; [|auto].
    eapply Hrec; eauto. }
  pose proof (super_tick_cases r p Hwf) as H. rewrite E in H.
  assert (Hcore : find hkey_cmp k (heads r') = find hkey_cmp k (heads r) /\ find hkey_cmp k (faulted_heads r') = Some g).
  { inversion H; subst; auto.
    - eapply Hft; eauto. intros; discriminate.
    - eapply Hft; eauto. intros k2 E2; inversion E2; subst; assumption.
    - match goal with HF : frame _ _ _ |- _ => rename HF into Hframe end.
      cbn. split.
      + exact (fr_heads _ _ _ Hframe k Hnr).
      + destruct (fr_faults _ _ _ Hframe) as (_ & A & _). cbn in A. rewrite A. exact Hq.
    - eapply Hft; eauto. intros k2 E2. destruct e; cbn in E2; inversion E2; subst; assumption.
    - destruct (record_runtime_fault S r (gtick r + 1, runnable_keys S r) CausePanic) as [r1|] eqn:A; cbn; [|auto].
      apply (Hrec (gtick r + 1, runnable_keys S r) SRuntime CausePanic r1 A). intros; discriminate. }
  destruct Hcore as [Hc1 Hc2]. split; [exact Hc1|]. split; [exact Hc2|]. split.
  - intros recs -> Hin. destruct (super_tick_success r p r' p' recs Hwf E) as (_ & A & _).
    rewrite A in Hin. apply filter_In in Hin. tauto.
  - intros k2 h2 Hrf F2 A2 P2 Q2.
    assert (Hin2 : In k2 (runnable_keys S r)).
    { apply (runnable_spec r k2 (proj1 (proj1 Hwf))). split; [exact Hrf|]. exists h2. auto. }
    split; [exact Hin2|]. intros recs -> Hca.
    destruct (super_tick_success r p r' p' recs Hwf E) as (_ & A & _).
    rewrite A. apply filter_In. split; [exact Hin2|]. unfold can_admit_in. rewrite F2. exact Hca.
Qed.

Lemma find_fault_mark g rid : forall l f, find_fault g l = Some f ->
  find_fault g (mark_resolved g rid l) =
    Some {| ft_gen := ft_gen f; ft_run := ft_run f; ft_scope := ft_scope f; ft_cause := ft_cause f;
            ft_status := Resolved rid |} /\
  length (mark_resolved g rid l) = length l.
Proof.
  unfold find_fault. induction l as [|x l IH]; intros f H; cbn in H; [discriminate|].
  cbn [mark_resolved]. destruct (ft_gen x =? g) eqn:E.
  - inversion H; subst. cbn. rewrite E. auto.
  - cbn. rewrite E. destruct (IH f H) as [A B]. rewrite B. auto.
Qed.

Theorem recovery_head (r : rt S) g rid r' f k :
  sorted hkey_cmp (heads r) -> sorted hkey_cmp (faulted_heads r) ->
  find_fault g (faults r) = Some f -> ft_scope f = SHead k -> find hkey_cmp k (faulted_heads r) = Some g ->
  resolve_fault S r g rid = ResOk r' ->
  same_but_faults S r r' /\ rt_fault r' = rt_fault r /\ next_gen r' = next_gen r /\
  find hkey_cmp k (faulted_heads r') = None /\
  (forall k2, k2 <> k -> find hkey_cmp k2 (faulted_heads r') = find hkey_cmp k2 (faulted_heads r)) /\
  (rt_fault r = None ->
     (In k (runnable_keys S r') <->
      exists h, find hkey_cmp k (heads r) = Some h /\ h_admitted h = true /\ h_paused h = false)) /\
  (exists f', find_fault g (faults r') = Some f' /\ ft_status f' = Resolved rid /\ ft_scope f' = SHead k /\
              ft_cause f' = ft_cause f) /\
  length (faults r') = length (faults r).
Proof.
  intros Hs Hfs Hf Hsc Hq. unfold resolve_fault. rewrite Hf.
  destruct (ft_status f); [|discriminate]. rewrite Hsc, Hq, N.eqb_refl.
  intros H; inversion H; subst r'; clear H.
  destruct (find_fault_mark g rid _ _ Hf) as [Hm Hl].
  split; [unfold same_but_faults; cbn; auto|]. cbn.
  split; [reflexivity|]. split; [reflexivity|].
  assert (Hdel : find hkey_cmp k (del hkey_cmp k (faulted_heads r)) = None) by (apply find_del_same; auto; ord).
  split; [exact Hdel|]. split; [intros k2 Hne; apply find_del_other; auto; ord|]. split.
  - intros Hrf.
    rewrite (runnable_spec _ k); [|exact Hs]. cbn. split.
    + intros (_ & h & A & B & C & _). eauto.
    + intros (h & A & B & C). split; [exact Hrf|]. exists h. auto.
  - split; [|exact Hl]. eexists. split; [exact Hm|]. cbn. auto.
Qed.

Theorem recovery_runtime (r : rt S) g rid r' f :
  find_fault g (faults r) = Some f -> ft_scope f = SRuntime -> rt_fault r = Some g ->
  resolve_fault S r g rid = ResOk r' ->
  same_but_faults S r r' /\ rt_fault r' = None /\ faulted_heads r' = faulted_heads r /\
  length (faults r') = length (faults r).
Proof.
  intros Hf Hsc Hq. unfold resolve_fault. rewrite Hf.
  destruct (ft_status f); [|discriminate]. rewrite Hsc, Hq, N.eqb_refl.
  intros H; inversion H; subst r'; clear H.
  destruct (find_fault_mark g rid _ _ Hf) as [Hm Hl].
  split; [unfold same_but_faults; cbn; auto|]. cbn. auto.
Qed.

(* ------------------------------------------------------------------ well-formedness is an invariant of the API *)

Definition wf_all (st : rt S * provmap) : Prop :=
  wf (fst st) (snd st) /\ sorted hkey_cmp (faulted_heads (fst st)).

Lemma witness_sorted c s : corr_sorted c -> corr_sorted (witness c s).
Proof.
  intros (A & B & C & D). unfold witness. destruct (mem sub_cmp s (witnessed c)); [unfold corr_sorted; auto|].
  unfold corr_sorted; cbn. split; [apply set_sorted; auto; ord|]. split; [apply set_sorted; auto; ord|]. exact (conj C D).
Qed.

Lemma ingest_wf (r : rt S) p k id : wf_all (r, p) -> wf_all (fst (ingest S r k id), p).
Proof.
  unfold wf_all, wf, rt_sorted; cbn [fst snd]. intros [[(A & B & C) D] F]. unfold ingest.
  destruct (find hkey_cmp k (heads r)); [|cbn [fst]; exact (conj (conj (conj A (conj B C)) D) F)].
  destruct (committed_in S r k id); [cbn [fst]; exact (conj (conj (conj A (conj B C)) D) F)|].
  destruct (mem N.compare id (h_pending h)); [cbn [fst]; exact (conj (conj (conj A (conj B C)) D) F)|].
  cbn [fst]. split; [|exact F]. split; [|exact D]. cbn. split; [apply set_sorted; auto; ord|]. split; [exact B|].
  apply witness_sorted; exact C.
Qed.

Lemma sorted_map_keys {V W} (g : V -> W) (m : list (N * V)) :
  sorted N.compare m -> sorted N.compare (map (fun kv => (fst kv, g (snd kv))) m).
Proof.
  induction m as [|[k v] m IH]; cbn; auto. intros [Hlb Hs]. split; [|auto].
  destruct m as [|[k2 v2] m2]; cbn in *; auto.
Qed.

Lemma record_fault_fh_sorted (r : rt S) run sc c r' :
  record_fault S r run sc c = Some r' -> sorted hkey_cmp (faulted_heads r) -> sorted hkey_cmp (faulted_heads r').
Proof.
  unfold record_fault, record_head_fault, record_runtime_fault. destruct sc as [k2|]; intros H Hs.
  - destruct (find hkey_cmp k2 (faulted_heads r)); [inversion H; subst; exact Hs|].
    destruct (alloc_gen S r); inversion H; subst; cbn. apply set_sorted; auto; ord.
  - destruct (rt_fault r); [inversion H; subst; exact Hs|].
    destruct (alloc_gen S r); inversion H; subst; exact Hs.
Qed.

Lemma same_faults_wf (r r' : rt S) p : same_but_faults S r r' -> wf r p -> wf r' p.
Proof.
  intros (A & B & _ & C) [(H1 & H2 & H3) H4]. unfold wf, rt_sorted. rewrite A, B, C. auto.
Qed.

Theorem run_op_wf (fsa : N -> S) (st : rt S * provmap) (o : op) : wf_all st -> wf_all (fst (run_op S commit fsa st o)).
Proof.
  destruct st as [r p]. intros Hw. assert (Hw' := Hw). unfold wf_all, wf, rt_sorted in Hw'; cbn [fst snd] in Hw'.
  destruct Hw' as [[(A & B & C) D] F].
  destruct o as [k id|k id t| |g rid|k b| |k id]; cbn [run_op].
  - pose proof (ingest_wf r p k id Hw) as H. destruct (ingest S r k id) as [r1 d]. exact H.
  - assert (Hsub : wf_all (fst (submit S r k id), p)).
    { unfold submit. destruct (find hkey_cmp k (heads r)); [|exact Hw].
      destruct (committed_in S r k id); [exact Hw|].
      destruct (mem sub_cmp (k, id) (witnessed (cor r))); [exact Hw|].
      split; [|exact F]. split; [|exact D]. cbn. split; [exact A|]. split; [exact B|]. apply witness_sorted; exact C. }
    destruct (submit S r k id) as [r1 d1]. cbn [fst] in Hsub.
    assert (Hst : wf_all (fst (stage S r1 k id t), p)).
    { unfold stage. destruct (negb (mem sub_cmp (k, id) (witnessed (cor r1)))); [exact Hsub|].
      destruct (find hkey_cmp k (heads r1)); [|exact Hsub].
      destruct (find sub_cmp (k, id) (staged (cor r1))); [destruct (n =? t); exact Hsub|].
      pose proof (ingest_wf r1 p k id Hsub) as Hi. destruct (ingest S r1 k id) as [r2 d2]. cbn [fst] in Hi.
      destruct d2; try exact Hi.
      destruct Hi as [[(A2 & B2 & C2) D2] F2]. cbn [fst snd] in *.
      split; [|exact F2]. split; [|exact D2]. cbn. split; [exact A2|]. split; [exact B2|].
      destruct C2 as (X1 & X2 & X3 & X4). unfold corr_sorted; cbn. split; [exact X1|]. split; [exact X2|].
      split; [apply set_sorted; auto; ord|exact X4]. }
    destruct d1; try exact Hsub.
    + destruct (stage S r1 k id t) as [r2 d2]. exact Hst.
    + destruct (stage S r1 k id t) as [r2 d2]. exact Hst.
  - destruct (super_tick S commit r p) as [[r' p'] out] eqn:E.
    assert (Hgoal : wf_all (r', p')).
    { destruct out as [recs|e|].
      - destruct (super_tick_success r p r' p' recs (conj (conj A (conj B C)) D) E) as (_ & _ & _ & _ & _ & _ & _ & Q & _ & W).
        split; [exact W|]. cbn. rewrite Q. exact F.
      - destruct (super_tick_atomic r p r' p' (OErr e) (conj (conj A (conj B C)) D) E) as [-> [->|(run & sc & c & Hr)]];
          try (intros; discriminate); [exact Hw|].
        split; [eapply same_faults_wf; [eapply record_fault_same; eauto|exact (conj (conj A (conj B C)) D)]|].
        cbn. eapply record_fault_fh_sorted; eauto.
      - destruct (super_tick_atomic r p r' p' OPanic (conj (conj A (conj B C)) D) E) as [-> [->|(run & sc & c & Hr)]];
          try (intros; discriminate); [exact Hw|].
        split; [eapply same_faults_wf; [eapply record_fault_same; eauto|exact (conj (conj A (conj B C)) D)]|].
        cbn. eapply record_fault_fh_sorted; eauto. }
    destruct out; exact Hgoal.
  - unfold resolve_fault. destruct (find_fault g (faults r)) as [f|]; [|exact Hw].
    destruct (ft_status f); [|exact Hw]. cbn [fst snd].
    split; [exact (conj (conj A (conj B C)) D)|]. cbn.
    destruct (ft_scope f) as [k|]; [|exact F].
    destruct (find hkey_cmp k (faulted_heads r)); [|exact F].
    destruct (n =? g); [|exact F]. apply del_sorted; auto; ord.
  - unfold set_eligibility. destruct (find hkey_cmp k (heads r)); [|exact Hw]. cbn [fst snd].
    split; [|exact F]. split; [|exact D]. cbn. split; [apply set_sorted; auto; ord|auto].
  - cbn [fst snd]. split; [|exact F]. split; [exact (conj A (conj B C))|].
    cbn. exact (sorted_map_keys (fun _ => []) (fronts r) B).
  - destruct (find N.compare (wl_of k) (fronts r)); [|exact Hw]. cbn [fst snd].
    split; [|exact F]. split.
    + cbn. split; [exact A|]. split; [apply set_sorted; auto; ord|exact C].
    + cbn. apply set_sorted; try ord. exact (sorted_map_keys (fun _ => []) (fronts r) B).
Qed.

End PassLemmas.

Arguments wf {S}. Arguments wf_all {S}. Arguments rt_sorted {S}. Arguments lsorted {S}. Arguments frame {S}.

(* ------------------------------------------------------------------ statements in the form pinned by Props/C09.v *)

Lemma pass_frame_explicit S (commit : S -> list N -> cres S) next keys (r : rt S) p :
  wf r p -> (forall k, In k keys -> find hkey_cmp k (heads r) <> None) ->
  match pass_loop S commit next keys {| ls_rt := r; ls_prov := p; ls_log := [] |} with
  | LDone st _ | LFail st _ _ | LPanic st =>
      (forall k, ~ In k keys -> find hkey_cmp k (heads (ls_rt st)) = find hkey_cmp k (heads r)) /\
      (forall w, ~ In w (map wl_of keys) ->
         find N.compare w (fronts (ls_rt st)) = find N.compare w (fronts r) /\
         find N.compare w (ls_prov st) = find N.compare w p) /\
      (forall w es, find N.compare w p = Some es -> exists ex, find N.compare w (ls_prov st) = Some (es ++ ex)) /\
      gtick (ls_rt st) = gtick r /\ faults (ls_rt st) = faults r /\ faulted_heads (ls_rt st) = faulted_heads r /\
      rt_fault (ls_rt st) = rt_fault r /\ next_gen (ls_rt st) = next_gen r /\
      rollback (ls_log st) (cor (ls_rt st)) = cor r
  | LOuter _ _ => False
  end.
Proof.
  intros Hwf Hk.
  pose proof (pass_loop_frame S commit next keys {| ls_rt := r; ls_prov := p; ls_log := [] |} Hwf Hk) as H.
  destruct (pass_loop S commit next keys {| ls_rt := r; ls_prov := p; ls_log := [] |}) as [st recs|st k e|st|st e];
    try exact H; destruct H as [F _];
    (split; [exact (fr_heads _ _ _ _ F)|]; split; [intros w Hw; split; [exact (fr_fronts _ _ _ _ F w Hw)|exact (fr_prov _ _ _ _ F w Hw)]|];
     split; [exact (fr_prov_ext _ _ _ _ F)|]; split; [exact (fr_gtick _ _ _ _ F)|];
     destruct (fr_faults _ _ _ _ F) as (A1 & A2 & A3 & A4); split; [exact A1|]; split; [exact A2|]; split; [exact A3|];
     split; [exact A4|]; exact (proj1 (fr_corr _ _ _ _ F))).
Qed.

Lemma canonical_order S (r : rt S) : sorted hkey_cmp (heads r) ->
  StronglySorted hlt (runnable_keys S r) /\
  (forall k, In k (runnable_keys S r) <->
     rt_fault r = None /\ exists h, find hkey_cmp k (heads r) = Some h /\ h_admitted h = true /\ h_paused h = false /\
                                    find hkey_cmp k (faulted_heads r) = None).
Proof. intros Hs. split; [apply runnable_ascending; exact Hs|intros k; apply runnable_spec; exact Hs]. Qed.

Lemma correlate_rollback k gt ta cid rdig batch c :
  corr_sorted c ->
  match correlate k gt ta cid rdig c [] batch with
  | CorrOk c' log' | CorrMismatch c' log' => rollback log' c' = c /\ witnessed c' = witnessed c /\ staged c' = staged c
  end.
Proof.
  intros Hs. pose proof (correlate_spec k gt ta cid rdig batch c [] Hs) as H.
  destruct (correlate k gt ta cid rdig c [] batch); destruct H as (_ & A & B & C); auto.
Qed.

Lemma fold_set_sorted_gen {K V X} (cmp : K -> K -> comparison) (L : OrderLaws cmp) (f : X -> K) (g : X -> V) (l : list X) :
  forall m, sorted cmp m -> sorted cmp (fold_left (fun m x => set cmp (f x) (g x) m) l m).
Proof.
  induction l as [|x l IH]; intros m Hs; cbn; auto. apply IH. apply set_sorted; auto; [exact (ol_eq _ L)|exact (ol_antisym _ L)].
Qed.

Lemma rt_init_wf S (s0 : S) worlds hs : wf_all (rt_init s0 worlds hs).
Proof.
  unfold wf_all, wf, rt_sorted, rt_init; cbn [fst snd heads fronts cor faulted_heads].
  split; [split; [split; [|split]|]|].
  - apply (fold_set_sorted_gen hkey_cmp hkey_order fst); exact I.
  - apply (fold_set_sorted_gen N.compare N_order (fun w => w)); exact I.
  - unfold corr_sorted; cbn. tauto.
  - apply (fold_set_sorted_gen N.compare N_order (fun w => w)); exact I.
  - exact I.
Qed.

Lemma api_preserves_wf S (commit : S -> list N -> cres S) (fsa : N -> S) : forall ops st,
  wf_all st -> Forall (fun os => wf_all (snd os)) (run_ops S commit fsa st ops).
Proof.
  induction ops as [|o ops IH]; intros st Hw; cbn [run_ops]; [constructor|].
  pose proof (run_op_wf S commit fsa st o Hw) as H1.
  destruct (run_op S commit fsa st o) as [st' out]. cbn [fst] in H1. constructor; [exact H1|apply IH; exact H1].
Qed.
