(* Lemmas about Model/Root.v (C06), part 1: refutation witnesses. *)
From Coq Require Import List NArith Lia Permutation Bool.
From Echo Require Import Base.FinMap Base.Order Base.Bytes Model.Root.
Import ListNotations.
Open Scope N_scope.

(* F3: two states with different reachable content and the same preimage. *)
Lemma f3_same_preimage : root_preimage f3_a f3_root = root_preimage f3_b f3_root.
Proof. vm_compute. reflexivity. Qed.

Lemma f3_different_content : reach_content f3_a f3_root <> reach_content f3_b f3_root.
Proof. vm_compute. discriminate. Qed.

Lemma root_injective_refuted_w :
  exists s1 s2 r, root_preimage s1 r = root_preimage s2 r /\ reach_content s1 r <> reach_content s2 r.
Proof. exists f3_a, f3_b, f3_root. split; [apply f3_same_preimage|apply f3_different_content]. Qed.

(* F2: the accumulator's preimage is not the legacy preimage. *)
Lemma acc_agrees_refuted_w :
  exists s r, acc_root_preimage (from_state s) r <> root_preimage s r.
Proof. exists f2_s, f2_root. vm_compute. discriminate. Qed.
