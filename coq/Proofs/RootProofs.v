(* Lemmas about Model/Root.v (C06), part 1: refutation witnesses, sorted-set facts, the
   queue-driven traversal against an inductive reachability relation (fuel exhaustion excluded). *)
From Coq Require Import List NArith Lia Permutation Bool.
From Echo Require Import Base.FinMap Base.Order Base.Bytes Model.Root.
Import ListNotations.
Open Scope N_scope.

(* ------------------------------------------------------------------ *)
(* F3 witness; former F2 witness *)

Lemma f3_same_preimage : root_preimage f3_a f3_root = root_preimage f3_b f3_root.
Proof. vm_compute. reflexivity. Qed.

Lemma f3_different_content : reach_content f3_a f3_root <> reach_content f3_b f3_root.
Proof. vm_compute. discriminate. Qed.

Lemma root_injective_refuted_w :
  exists s1 s2 r, root_preimage s1 r = root_preimage s2 r /\ reach_content s1 r <> reach_content s2 r.
Proof. exists f3_a, f3_b, f3_root. split; [apply f3_same_preimage|apply f3_different_content]. Qed.

(* the witness on which the two implementations disagreed before the F2 fix *)
Lemma f2_witness_agrees : acc_root_preimage (from_state f2_s) f2_root = root_preimage f2_s f2_root.
Proof. vm_compute. reflexivity. Qed.

(* ------------------------------------------------------------------ *)
(* Orders *)

Lemma nk_order : OrderLaws nkey_cmp.
Proof. apply pair_order; apply N_order. Qed.

Definition n_eq := ol_eq _ N_order.
Definition n_as := ol_antisym _ N_order.
Definition n_tr := ol_trans _ N_order.
Definition nk_eq := ol_eq _ nk_order.
Definition nk_as := ol_antisym _ nk_order.
Definition nk_tr := ol_trans _ nk_order.

Ltac ord := try exact n_eq; try exact n_as; try exact n_tr;
            try exact nk_eq; try exact nk_as; try exact nk_tr.

Lemma nkey_eq_dec : forall a b : nkey, {a = b} + {a <> b}.
Proof. decide equality; apply N.eq_dec. Qed.

(* ------------------------------------------------------------------ *)
(* Sorted sets (maps with unit values) *)

Section Sets.
  Context {K : Type} (cmp : K -> K -> comparison) (L : OrderLaws cmp).
  Let ceq := ol_eq cmp L.
  Let cas := ol_antisym cmp L.
  Let ctr := ol_trans cmp L.

  Lemma mem_ins_iff (k k' : K) (m : list (K * unit)) : sorted cmp m ->
    (mem cmp k (ins cmp k' tt m) = true <-> k = k' \/ mem cmp k m = true).
  Proof.
    intros Hs. unfold mem.
    destruct (cmp k k') eqn:E.
    - apply ceq in E; subst k'. rewrite (find_ins_same cmp ceq ctr) by exact Hs.
      destruct (find cmp k m); split; auto.
    - assert (k <> k') by (intro; subst; rewrite (proj2 (ceq k' k') eq_refl) in E; discriminate).
      rewrite (find_ins_other cmp ceq) by assumption. split; [auto|intros [?|?]; [contradiction|auto]].
    - assert (k <> k') by (intro; subst; rewrite (proj2 (ceq k' k') eq_refl) in E; discriminate).
      rewrite (find_ins_other cmp ceq) by assumption. split; [auto|intros [?|?]; [contradiction|auto]].
  Qed.

  Lemma set_ins_sorted (k : K) (m : list (K * unit)) : sorted cmp m -> sorted cmp (ins cmp k tt m).
  Proof. apply (ins_sorted cmp cas). Qed.

  (* two sorted sets with the same members are equal *)
  Lemma set_ext (m1 m2 : list (K * unit)) : sorted cmp m1 -> sorted cmp m2 ->
    (forall k, mem cmp k m1 = mem cmp k m2) -> m1 = m2.
  Proof.
    intros H1 H2 H. apply (sorted_ext cmp ceq cas ctr); auto.
    intros k. specialize (H k). unfold mem in H.
    destruct (find cmp k m1) as [[]|], (find cmp k m2) as [[]|]; auto; discriminate.
  Qed.
End Sets.

Lemma nmem_ins k k' rn : sorted nkey_cmp rn ->
  (nmem k (ins nkey_cmp k' tt rn) = true <-> k = k' \/ nmem k rn = true).
Proof. apply (mem_ins_iff nkey_cmp nk_order). Qed.

Lemma wmem_ins w w' rw : sorted N.compare rw ->
  (wmem w (ins N.compare w' tt rw) = true <-> w = w' \/ wmem w rw = true).
Proof. apply (mem_ins_iff N.compare N_order). Qed.

Lemma NoDup_app_intro {A} (l1 l2 : list A) :
  NoDup l1 -> NoDup l2 -> (forall x, In x l1 -> In x l2 -> False) -> NoDup (l1 ++ l2).
Proof.
  induction l1 as [|a l1 IH]; cbn; intros H1 H2 Hd; auto.
  inversion H1; subst. constructor.
  - rewrite in_app_iff. intros [?|?]; [contradiction|]. eapply Hd; eauto.
  - apply IH; auto. intros x Hx1 Hx2. eapply Hd; eauto.
Qed.

(* ------------------------------------------------------------------ *)
(* The traversal *)

Section GBFS.
  Variable step : nkey -> list item.
  Variable root : nkey.
  Variable U : list nkey.
  Hypothesis HU : forall k k', In (INode k') (step k) -> In k' U.

  (* reachability as an inductive relation: the root, and every node item produced by a reachable node *)
  Inductive GReach : nkey -> Prop :=
  | GR_root : GReach root
  | GR_step k k' : GReach k -> In (INode k') (step k) -> GReach k'.

  Definition GReachW (w : N) : Prop :=
    w = fst root \/ exists k, GReach k /\ In (IWarp w) (step k).

  Lemma fold_visit_spec its : forall q rn rw,
    sorted nkey_cmp rn -> sorted N.compare rw ->
    exists new rn' rw',
      fold_left visit its (q, rn, rw) = (q ++ new, rn', rw') /\
      sorted nkey_cmp rn' /\ sorted N.compare rw' /\
      NoDup new /\
      (forall k, In k new -> nmem k rn = false /\ In (INode k) its) /\
      (forall k, nmem k rn' = true <-> nmem k rn = true \/ In k new) /\
      (forall k, In (INode k) its -> nmem k rn' = true) /\
      (forall w, wmem w rw' = true <-> wmem w rw = true \/ In (IWarp w) its).
  Proof.
    induction its as [|a its IH]; intros q rn rw Hrn Hrw.
    - exists [], rn, rw. cbn. rewrite app_nil_r.
      split; [reflexivity|]. split; [assumption|]. split; [assumption|]. split; [constructor|].
      split; [intros k []|]. split; [intros k; split; [auto|intros [?|[]]; auto]|].
      split; [intros k []|]. intros w; split; [auto|intros [?|[]]; auto].
    - cbn [fold_left]. destruct a as [k|w]; cbn [visit].
      + destruct (nmem k rn) eqn:Ek.
        * destruct (IH q rn rw Hrn Hrw) as (new & rn' & rw' & E & S1 & S2 & ND & Hn & Hm & Hi & Hw).
          exists new, rn', rw'.
          split; [exact E|]. split; [assumption|]. split; [assumption|]. split; [assumption|].
          split; [|split; [|split]].
          -- intros k0 Hk0. destruct (Hn k0 Hk0). split; [assumption|right; assumption].
          -- exact Hm.
          -- intros k0 [E'|Hin]; [inversion E'; subst; apply Hm; auto|auto].
          -- intros w; split.
             ++ intros H. apply Hw in H. destruct H; [left; assumption|right; right; assumption].
             ++ intros [H|[H|H]]; [apply Hw; auto|discriminate|apply Hw; auto].
        * assert (Hrn2 : sorted nkey_cmp (ins nkey_cmp k tt rn)) by (apply (set_ins_sorted nkey_cmp nk_order); auto).
          assert (Hkk : nmem k (ins nkey_cmp k tt rn) = true) by (apply nmem_ins; auto).
          destruct (IH (q ++ [k]) _ rw Hrn2 Hrw) as (new & rn' & rw' & E & S1 & S2 & ND & Hn & Hm & Hi & Hw).
          exists (k :: new), rn', rw'.
          split; [rewrite <- app_assoc in E; exact E|].
          split; [assumption|]. split; [assumption|].
          split; [|split; [|split; [|split]]].
          -- constructor; auto. intros Hin. apply Hn in Hin. destruct Hin as [Hf _]. congruence.
          -- intros k0 [<-|Hin]; [split; [assumption|left; reflexivity]|].
             destruct (Hn k0 Hin) as [Hf Hi0]. split; [|right; assumption].
             destruct (nmem k0 rn) eqn:E0; auto.
             assert (nmem k0 (ins nkey_cmp k tt rn) = true) by (apply nmem_ins; auto). congruence.
          -- intros k0; split.
             ++ intros H. apply Hm in H. destruct H as [H|H]; [|right; right; assumption].
                apply nmem_ins in H; auto. destruct H as [->|H]; [right; left; reflexivity|left; assumption].
             ++ intros [H|[<-|H]]; apply Hm.
                ** left. apply nmem_ins; auto.
                ** left. assumption.
                ** right; assumption.
          -- intros k0 [E'|Hin]; [inversion E'; subst; apply Hm; left; assumption|auto].
          -- intros w; split.
             ++ intros H. apply Hw in H. destruct H; [left; assumption|right; right; assumption].
             ++ intros [H|[H|H]]; [apply Hw; auto|discriminate|apply Hw; auto].
      + assert (Hrw2 : sorted N.compare (ins N.compare w tt rw)) by (apply (set_ins_sorted N.compare N_order); auto).
        destruct (IH q rn _ Hrn Hrw2) as (new & rn' & rw' & E & S1 & S2 & ND & Hn & Hm & Hi & Hw).
        exists new, rn', rw'.
        split; [exact E|]. split; [assumption|]. split; [assumption|]. split; [assumption|].
        split; [|split; [|split]].
        * intros k0 Hk0. destruct (Hn k0 Hk0). split; [assumption|right; assumption].
        * exact Hm.
        * intros k0 [E'|Hin]; [discriminate|auto].
        * intros w0; split.
          -- intros H. apply Hw in H. destruct H as [H|H]; [|right; right; assumption].
             apply wmem_ins in H; auto. destruct H as [->|H]; [right; left; reflexivity|left; assumption].
          -- intros [H|[H|H]]; apply Hw.
             ++ left. apply wmem_ins; auto.
             ++ inversion H; subst. left. apply wmem_ins; auto.
             ++ right; assumption.
  Qed.

  Definition Inv (done q : list nkey) (rn : nset) (rw : wset) : Prop :=
    sorted nkey_cmp rn /\ sorted N.compare rw /\
    (forall k, nmem k rn = true <-> In k (done ++ q)) /\
    NoDup (done ++ q) /\
    (forall k, In k (done ++ q) -> GReach k) /\
    (forall k k', In k done -> In (INode k') (step k) -> nmem k' rn = true) /\
    (forall w, wmem w rw = true <-> w = fst root \/ exists k, In k done /\ In (IWarp w) (step k)) /\
    In root (done ++ q) /\
    (forall k, In k (done ++ q) -> k = root \/ In k U).

  Lemma inv_init : Inv [] [root] (ins nkey_cmp root tt []) (ins N.compare (fst root) tt []).
  Proof.
    unfold Inv. cbn [app].
    split; [cbn; auto|]. split; [cbn; auto|].
    split.
    { intros k; split.
      - intros H. apply nmem_ins in H; [|exact I]. destruct H as [->|H]; [left; auto|discriminate].
      - intros [<-|[]]. apply nmem_ins; [exact I|auto]. }
    split; [constructor; [intros []|constructor]|].
    split; [intros k [<-|[]]; constructor|].
    split; [intros k k' []|].
    split.
    { intros w; split.
      - intros H. apply wmem_ins in H; [|exact I]. destruct H as [->|H]; [left; auto|discriminate].
      - intros [->|(k & [] & _)]. apply wmem_ins; [exact I|auto]. }
    split; [left; auto|].
    intros k [<-|[]]; auto.
  Qed.

  Lemma inv_step done cur q rn rw :
    Inv done (cur :: q) rn rw ->
    exists q2 rn2 rw2,
      fold_left visit (step cur) (q, rn, rw) = (q2, rn2, rw2) /\ Inv (done ++ [cur]) q2 rn2 rw2.
  Proof.
    intros (Hrn & Hrw & Hmem & Hnd & Hreach & Hclo & Hw & Hroot & Huniv).
    destruct (fold_visit_spec (step cur) q rn rw Hrn Hrw)
      as (new & rn' & rw' & E & S1 & S2 & ND & Hn & Hm & Hi & Hww).
    exists (q ++ new), rn', rw'. split; [exact E|].
    assert (Hre : (done ++ [cur]) ++ q ++ new = (done ++ cur :: q) ++ new).
    { rewrite <- !app_assoc. reflexivity. }
    assert (Hcur : GReach cur) by (apply Hreach; rewrite in_app_iff; right; left; auto).
    unfold Inv. rewrite Hre.
    split; [assumption|]. split; [assumption|].
    split.
    { intros k; split.
      - intros H. apply Hm in H. rewrite in_app_iff. destruct H as [H|H]; [left; apply Hmem; auto|right; auto].
      - rewrite in_app_iff. intros [H|H]; apply Hm; [left; apply Hmem; auto|right; auto]. }
    split.
    { apply NoDup_app_intro; auto. intros x Hx1 Hx2. apply Hn in Hx2. destruct Hx2 as [Hf _].
      apply Hmem in Hx1. congruence. }
    split.
    { intros k. rewrite in_app_iff. intros [H|H]; [apply Hreach; auto|].
      apply Hn in H. destruct H as [_ H]. eapply GR_step; eauto. }
    split.
    { intros k k'. rewrite in_app_iff. intros [H|[<-|[]]] Hin.
      + apply Hm. left. eapply Hclo; eauto.
      + apply Hi; auto. }
    split.
    { intros w; split.
      - intros H. apply Hww in H. destruct H as [H|H].
        + apply Hw in H. destruct H as [H|(k & Hk & Hin)]; [left; auto|].
          right. exists k. split; auto. rewrite in_app_iff; left; auto.
        + right. exists cur. split; auto. rewrite in_app_iff; right; left; auto.
      - intros [H|(k & Hk & Hin)]; apply Hww.
        + left. apply Hw; auto.
        + rewrite in_app_iff in Hk. destruct Hk as [Hk|[<-|[]]].
          * left. apply Hw. right. exists k; auto.
          * right; auto. }
    split; [rewrite in_app_iff; left; auto|].
    intros k. rewrite in_app_iff. intros [H|H]; [apply Huniv; auto|].
    apply Hn in H. destruct H as [_ H]. right. eapply HU; eauto.
  Qed.

  Lemma inv_length done q rn rw : Inv done q rn rw -> (length (done ++ q) <= S (length U))%nat.
  Proof.
    intros (_ & _ & _ & Hnd & _ & _ & _ & _ & Huniv).
    change (S (length U)) with (length (root :: U)).
    apply NoDup_incl_length; auto.
    intros k Hk. destruct (Huniv k Hk) as [->|H]; [left; auto|right; auto].
  Qed.

  Lemma gbfs_inv : forall fuel done q rn rw,
    Inv done q rn rw -> (S (length U) <= fuel + length done)%nat ->
    exists done' rn' rw', gbfs step fuel (q, rn, rw) = ([], rn', rw') /\ Inv done' [] rn' rw'.
  Proof.
    induction fuel as [|f IH]; intros done q rn rw HI Hf.
    - cbn. pose proof (inv_length _ _ _ _ HI) as Hl. rewrite app_length in Hl.
      destruct q as [|c q]; [|cbn in Hl; lia].
      exists done, rn, rw. split; auto.
    - cbn [gbfs]. destruct q as [|cur q].
      + exists done, rn, rw. split; auto.
      + destruct (inv_step _ _ _ _ _ HI) as (q2 & rn2 & rw2 & E & HI2).
        rewrite E. apply (IH (done ++ [cur])); auto.
        rewrite app_length. cbn. lia.
  Qed.

  Theorem gbfs_spec fuel : (S (length U) <= fuel)%nat ->
    exists rn rw, gbfs step fuel (bfs_init root) = ([], rn, rw) /\
      sorted nkey_cmp rn /\ sorted N.compare rw /\
      (forall k, nmem k rn = true <-> GReach k) /\
      (forall w, wmem w rw = true <-> GReachW w).
  Proof.
    intros Hf. unfold bfs_init.
    destruct (gbfs_inv fuel [] [root] _ _ inv_init) as (done & rn & rw & E & HI); [cbn; lia|].
    exists rn, rw. split; [exact E|].
    destruct HI as (Hrn & Hrw & Hmem & Hnd & Hreach & Hclo & Hw & Hroot & Huniv).
    rewrite app_nil_r in *.
    assert (Hall : forall k, GReach k -> nmem k rn = true).
    { intros k H. induction H as [|k k' Hk IHk Hin].
      - apply Hmem; auto.
      - apply (Hclo k k'); [apply Hmem; exact IHk|exact Hin]. }
    split; [assumption|]. split; [assumption|].
    split.
    { intros k; split; [intros H; apply Hreach, Hmem; auto|apply Hall]. }
    intros w; split.
    - intros H. apply Hw in H. destruct H as [H|(k & Hk & Hin)]; [left; auto|].
      right. exists k. split; auto.
    - intros [H|(k & Hk & Hin)]; apply Hw; [left; auto|].
      right. exists k. split; auto. apply Hmem, Hall; auto.
  Qed.
End GBFS.

(* ------------------------------------------------------------------ *)
(* collect_reachable_graph = the inductive reachability relation *)

Lemma in_descend_items_node insts c k' :
  In (INode k') (descend_items insts c) <->
  exists i, find N.compare c insts = Some i /\ k' = (c, i_root i).
Proof.
  unfold descend_items. cbn [In]. destruct (find N.compare c insts) as [i|]; cbn [In]; split.
  - intros [H|[H|[]]]; [discriminate|]. inversion H; subst. exists i; auto.
  - intros (i' & E & ->). inversion E; subst. right; left; reflexivity.
  - intros [H|[]]. discriminate.
  - intros (i' & E & _). discriminate.
Qed.

Lemma in_descend_items_warp insts c w : In (IWarp w) (descend_items insts c) <-> w = c.
Proof.
  unfold descend_items. cbn [In]. destruct (find N.compare c insts) as [i|]; cbn [In]; split.
  - intros [H|[H|[]]]; [inversion H; auto|discriminate].
  - intros ->; left; reflexivity.
  - intros [H|[]]. inversion H; auto.
  - intros ->; left; reflexivity.
Qed.

Lemma in_att_items_node insts o k' :
  In (INode k') (att_items insts o) <->
  exists c i, o = Some (Descend c) /\ find N.compare c insts = Some i /\ k' = (c, i_root i).
Proof.
  unfold att_items. destruct o as [[ty bs|c]|].
  - split; [intros []|intros (c & i & E & _); discriminate].
  - rewrite in_descend_items_node. split.
    + intros (i & E & ->). exists c, i; auto.
    + intros (c' & i & E & F & ->). inversion E; subst. exists i; auto.
  - split; [intros []|intros (c & i & E & _); discriminate].
Qed.

Lemma in_att_items_warp insts o w : In (IWarp w) (att_items insts o) <-> o = Some (Descend w).
Proof.
  unfold att_items. destruct o as [[ty bs|c]|].
  - split; [intros []|discriminate].
  - rewrite in_descend_items_warp. split; [intros ->; reflexivity|intros E; inversion E; reflexivity].
  - split; [intros []|discriminate].
Qed.

Lemma in_step_store_node s k k' :
  In (INode k') (step_store s k) <->
  exists st, get_store s (fst k) = Some st /\
    ((exists e, In e (bucket_of st (snd k)) /\
        (k' = (fst k, e_to e) \/
         exists c i, find N.compare (e_id e) (st_eatt st) = Some (Descend c) /\
                     get_inst s c = Some i /\ k' = (c, i_root i)))
     \/ (exists c i, find N.compare (snd k) (st_natt st) = Some (Descend c) /\
                     get_inst s c = Some i /\ k' = (c, i_root i))).
Proof.
  unfold step_store. destruct (get_store s (fst k)) as [st|].
  - rewrite in_app_iff, in_flat_map. split.
    + intros [(e & He & Hin)|H].
      * exists st. split; [reflexivity|]. left. exists e. split; [exact He|].
        destruct Hin as [E|Hin]; [left; inversion E; reflexivity|right].
        apply in_att_items_node in Hin. destruct Hin as (c & i & E1 & E2 & ->). exists c, i; auto.
      * exists st. split; [reflexivity|]. right.
        apply in_att_items_node in H. destruct H as (c & i & E1 & E2 & ->). exists c, i; auto.
    + intros (st' & E & H). inversion E; subst st'. destruct H as [(e & He & H)|(c & i & E1 & E2 & ->)].
      * left. exists e. split; [exact He|]. destruct H as [->|(c & i & E1 & E2 & ->)]; [left; reflexivity|right].
        apply in_att_items_node. exists c, i; auto.
      * right. apply in_att_items_node. exists c, i; auto.
  - split; [intros []|intros (st & E & _); discriminate].
Qed.

Lemma in_step_store_warp s k w :
  In (IWarp w) (step_store s k) <->
  exists st, get_store s (fst k) = Some st /\
    ((exists e, In e (bucket_of st (snd k)) /\ find N.compare (e_id e) (st_eatt st) = Some (Descend w))
     \/ find N.compare (snd k) (st_natt st) = Some (Descend w)).
Proof.
  unfold step_store. destruct (get_store s (fst k)) as [st|].
  - rewrite in_app_iff, in_flat_map. split.
    + intros [(e & He & Hin)|H].
      * exists st. split; [reflexivity|]. left. exists e. split; [exact He|].
        destruct Hin as [E|Hin]; [discriminate|]. apply in_att_items_warp in Hin; exact Hin.
      * exists st. split; [reflexivity|]. right. apply in_att_items_warp in H; exact H.
    + intros (st' & E & H). inversion E; subst st'. destruct H as [(e & He & H)|H].
      * left. exists e. split; [exact He|]. right. apply in_att_items_warp; exact H.
      * right. apply in_att_items_warp; exact H.
  - split; [intros []|intros (st & E & _); discriminate].
Qed.

Lemma greach_reach s r k : GReach (step_store s) r k <-> Reach s r k.
Proof.
  split; intros H.
  - induction H as [|k k' Hk IH Hin]; [constructor|].
    apply in_step_store_node in Hin. destruct Hin as (st & Est & [(e & He & [->|(c & i & E1 & E2 & ->)])|(c & i & E1 & E2 & ->)]).
    + eapply R_edge; eauto.
    + eapply R_edge_portal; eauto.
    + eapply R_node_portal; eauto.
  - induction H as [|k st e Hk IH Est He|k st c i Hk IH Est E1 E2|k st e c i Hk IH Est He E1 E2].
    + constructor.
    + eapply GR_step; [exact IH|]. apply in_step_store_node. exists st. split; [exact Est|].
      left. exists e. split; [exact He|left; reflexivity].
    + eapply GR_step; [exact IH|]. apply in_step_store_node. exists st. split; [exact Est|].
      right. exists c, i; auto.
    + eapply GR_step; [exact IH|]. apply in_step_store_node. exists st. split; [exact Est|].
      left. exists e. split; [exact He|right; exists c, i; auto].
Qed.

Lemma greachw_reachw s r w : GReachW (step_store s) r w <-> ReachW s r w.
Proof.
  unfold GReachW. split.
  - intros [->|(k & Hk & Hin)]; [constructor|].
    apply greach_reach in Hk. apply in_step_store_warp in Hin.
    destruct Hin as (st & Est & [(e & He & E)|E]).
    + eapply RW_edge; eauto.
    + eapply RW_node; eauto.
  - intros H. destruct H as [|k st c Hk Est E|k st e c Hk Est He E].
    + left; reflexivity.
    + right. exists k. split; [apply greach_reach; exact Hk|].
      apply in_step_store_warp. exists st. split; [exact Est|right; exact E].
    + right. exists k. split; [apply greach_reach; exact Hk|].
      apply in_step_store_warp. exists st. split; [exact Est|left; exists e; auto].
Qed.

(* every key that can ever be enqueued *)
Definition universe (s : state) : list nkey :=
  flat_map (fun wst => map (fun e => (fst wst, e_to e)) (all_edges (snd wst))) (s_stores s)
  ++ map (fun wi => (fst wi, i_root (snd wi))) (s_insts s).

Lemma universe_length s : length (universe s) = (edge_count s + length (s_insts s))%nat.
Proof.
  unfold universe, edge_count. rewrite app_length, map_length. f_equal.
  induction (s_stores s) as [|[w st] l IH]; cbn; auto.
  rewrite app_length, map_length, IH. reflexivity.
Qed.

Lemma in_bucket_all_edges st n e : In e (bucket_of st n) -> In e (all_edges st).
Proof.
  unfold bucket_of, all_edges. destruct (find N.compare n (st_from st)) as [b|] eqn:F; [|intros []].
  intros He. apply in_flat_map. exists (n, b). split; [|exact He].
  apply (find_in N.compare n_eq); exact F.
Qed.

Lemma step_store_universe s k k' : In (INode k') (step_store s k) -> In k' (universe s).
Proof.
  intros H. apply in_step_store_node in H. unfold universe. rewrite in_app_iff.
  assert (Hi : forall c i, get_inst s c = Some i -> In (c, i_root i) (map (fun wi => (fst wi, i_root (snd wi))) (s_insts s))).
  { intros c i E. apply in_map_iff. exists (c, i). split; [reflexivity|].
    apply (find_in N.compare n_eq); exact E. }
  destruct H as (st & Est & [(e & He & [->|(c & i & E1 & E2 & ->)])|(c & i & E1 & E2 & ->)]).
  - left. apply in_flat_map. exists (fst k, st). split.
    + apply (find_in N.compare n_eq); exact Est.
    + apply in_map_iff. exists e. split; [reflexivity|]. eapply in_bucket_all_edges; eauto.
  - right. apply Hi; auto.
  - right. apply Hi; auto.
Qed.

Theorem reach_spec s r :
  exists rn rw, reach s r = (rn, rw) /\
    sorted nkey_cmp rn /\ sorted N.compare rw /\
    (forall k, nmem k rn = true <-> Reach s r k) /\
    (forall w, wmem w rw = true <-> ReachW s r w).
Proof.
  destruct (gbfs_spec (step_store s) r (universe s) (step_store_universe s) (fuel_of s))
    as (rn & rw & E & S1 & S2 & Hn & Hw).
  { unfold fuel_of. rewrite universe_length. lia. }
  exists rn, rw. unfold reach. rewrite E. split; [reflexivity|].
  split; [assumption|]. split; [assumption|]. split.
  - intros k. rewrite Hn. apply greach_reach.
  - intros w. rewrite Hw. apply greachw_reachw.
Qed.
