(* Lemmas about Model/Sched.v, part A: reservation = greedy independent set, exact blockers,
   legacy agreement (C03). *)
From Coq Require Import List Arith NArith Lia Bool Btauto Permutation.
From Echo Require Import Model.Sched.
Import ListNotations.
Open Scope N_scope.

(* ---------- membership / intersection ---------- *)

Lemma rkey_eqb_eq a b : rkey_eqb a b = true <-> a = b.
Proof.
  destruct a as [a1 a2], b as [b1 b2]. unfold rkey_eqb; cbn.
  rewrite andb_true_iff, !N.eqb_eq. split; [intros [-> ->]; reflexivity|intros H; inversion H; auto].
Qed.

Lemma kmem_In k s : kmem k s = true <-> In k s.
Proof.
  unfold kmem. rewrite existsb_exists. split.
  - intros [x [Hin Heq]]. apply rkey_eqb_eq in Heq. subst; exact Hin.
  - intros Hin. exists k. split; [exact Hin|apply rkey_eqb_eq; reflexivity].
Qed.

Lemma kmem_app k a b : kmem k (a ++ b) = kmem k a || kmem k b.
Proof. unfold kmem. apply existsb_app. Qed.

Lemma intersects_spec a b : intersects a b = true <-> exists k, In k a /\ In k b.
Proof.
  unfold intersects. rewrite existsb_exists. split.
  - intros [k [Ha Hb]]. exists k. split; [exact Ha|apply kmem_In; exact Hb].
  - intros [k [Ha Hb]]. exists k. split; [exact Ha|apply kmem_In; exact Hb].
Qed.

Lemma bool_ext (x y : bool) : (x = true <-> y = true) -> x = y.
Proof.
  destruct x, y; intros [H1 H2]; auto.
  symmetry; apply H1; reflexivity.
Qed.

Lemma intersects_sym a b : intersects a b = intersects b a.
Proof. apply bool_ext. rewrite !intersects_spec. split; intros [k [H1 H2]]; exists k; auto. Qed.

Lemma intersects_app_l a b s : intersects (a ++ b) s = intersects a s || intersects b s.
Proof. unfold intersects. apply existsb_app. Qed.

Lemma intersects_app_r s a b : intersects s (a ++ b) = intersects s a || intersects s b.
Proof. rewrite intersects_sym, intersects_app_l, (intersects_sym a), (intersects_sym b). reflexivity. Qed.

Lemma existsb_orb {A} (p q : A -> bool) l :
  existsb (fun x => p x || q x) l = existsb p l || existsb q l.
Proof. induction l as [|x l IH]; cbn; [reflexivity|]. rewrite IH. btauto. Qed.

Lemma existsb_ext' {A} (p q : A -> bool) l : (forall x, p x = q x) -> existsb p l = existsb q l.
Proof. intros H. induction l; cbn; congruence. Qed.

Lemma existsb_swap {A B} (r : A -> B -> bool) la lb :
  existsb (fun a => existsb (fun b => r a b) lb) la = existsb (fun b => existsb (fun a => r a b) la) lb.
Proof.
  apply bool_ext. rewrite !existsb_exists. split.
  - intros [a [Ha H]]. apply existsb_exists in H. destruct H as [b [Hb H]].
    exists b. split; [exact Hb|]. apply existsb_exists. exists a; auto.
  - intros [b [Hb H]]. apply existsb_exists in H. destruct H as [a [Ha H]].
    exists a. split; [exact Ha|]. apply existsb_exists. exists b; auto.
Qed.

Lemma existsb_rev {A} (p : A -> bool) l : existsb p (rev l) = existsb p l.
Proof.
  induction l as [|x l IH]; cbn; [reflexivity|].
  rewrite existsb_app, IH. cbn. btauto.
Qed.

Lemma forallb_rev {A} (p : A -> bool) l : forallb p (rev l) = forallb p l.
Proof.
  induction l as [|x l IH]; cbn; [reflexivity|].
  rewrite forallb_app, IH. cbn. btauto.
Qed.

(* ---------- conflict is symmetric; the engine's blocker predicate is the same predicate ---------- *)

Lemma conflict_sym x y : conflict x y = conflict y x.
Proof.
  unfold conflict.
  rewrite (intersects_sym (n_write x) (n_write y)), (intersects_sym (n_write x) (n_read y)),
          (intersects_sym (n_read x) (n_write y)),
          (intersects_sym (e_write x) (e_write y)), (intersects_sym (e_write x) (e_read y)),
          (intersects_sym (e_read x) (e_write y)),
          (intersects_sym (a_write x) (a_write y)), (intersects_sym (a_write x) (a_read y)),
          (intersects_sym (a_read x) (a_write y)),
          (intersects_sym (b_in x ++ b_out x)).
  btauto.
Qed.

Lemma fp_conflict_is_conflict a b : fp_conflict a b = conflict a b.
Proof.
  unfold fp_conflict, conflict.
  rewrite intersects_app_l, !intersects_app_r.
  rewrite (intersects_sym (e_write b) (e_read a)), (intersects_sym (a_write b) (a_read a)),
          (intersects_sym (n_write b) (n_read a)).
  repeat match goal with |- context [intersects ?u ?v] =>
    let t := fresh "t" in set (t := intersects u v) end.
  repeat match goal with t : bool |- _ => destruct t end; reflexivity.
Qed.

(* ---------- the active marks represent the accepted list ---------- *)

Definition represents (a : active) (acc : list footprint) : Prop :=
  (forall k, kmem k (nodes_written a) = existsb (fun f => kmem k (n_write f)) acc) /\
  (forall k, kmem k (nodes_read a) = existsb (fun f => kmem k (n_read f)) acc) /\
  (forall k, kmem k (edges_written a) = existsb (fun f => kmem k (e_write f)) acc) /\
  (forall k, kmem k (edges_read a) = existsb (fun f => kmem k (e_read f)) acc) /\
  (forall k, kmem k (atts_written a) = existsb (fun f => kmem k (a_write f)) acc) /\
  (forall k, kmem k (atts_read a) = existsb (fun f => kmem k (a_read f)) acc) /\
  (forall k, kmem k (ports a) = existsb (fun f => kmem k (b_in f ++ b_out f)) acc).

Lemma represents_empty : represents active_empty [].
Proof. repeat split; intros; reflexivity. Qed.

Lemma represents_mark a acc f : represents a acc -> represents (mark_all a f) (f :: acc).
Proof.
  intros (H1 & H2 & H3 & H4 & H5 & H6 & H7). unfold mark_all.
  repeat split; intros k; cbn [nodes_written nodes_read edges_written edges_read atts_written atts_read ports existsb];
    rewrite ?app_assoc, kmem_app; f_equal; auto.
Qed.

Lemma exists_inter (sel : footprint -> list rkey) s acc :
  existsb (fun k => existsb (fun f => kmem k (sel f)) acc) s
  = existsb (fun f => intersects s (sel f)) acc.
Proof. unfold intersects. apply existsb_swap. Qed.

Definition conflict_x (f y : footprint) : bool :=
     intersects (n_write f) (n_write y) || intersects (n_write f) (n_read y) || intersects (n_read f) (n_write y)
     || intersects (e_write f) (e_write y) || intersects (e_write f) (e_read y) || intersects (e_read f) (e_write y)
     || intersects (a_write f) (a_write y) || intersects (a_write f) (a_read y) || intersects (a_read f) (a_write y)
     || (intersects (b_in f) (b_in y ++ b_out y) || intersects (b_out f) (b_in y ++ b_out y)).

Lemma conflict_expand f y : conflict f y = conflict_x f y.
Proof. unfold conflict, conflict_x. rewrite intersects_app_l. reflexivity. Qed.

Lemma has_conflict_spec a acc f :
  represents a acc -> has_conflict a f = existsb (conflict f) acc.
Proof.
  intros (H1 & H2 & H3 & H4 & H5 & H6 & H7). unfold has_conflict.
  rewrite (existsb_ext' _ _ (n_write f) (fun k => f_equal2 orb (H1 k) (H2 k))).
  rewrite (existsb_ext' _ _ (n_read f) H1).
  rewrite (existsb_ext' _ _ (e_write f) (fun k => f_equal2 orb (H3 k) (H4 k))).
  rewrite (existsb_ext' _ _ (e_read f) H3).
  rewrite (existsb_ext' _ _ (a_write f) (fun k => f_equal2 orb (H5 k) (H6 k))).
  rewrite (existsb_ext' _ _ (a_read f) H5).
  rewrite (existsb_ext' _ _ (b_in f) H7), (existsb_ext' _ _ (b_out f) H7).
  rewrite !existsb_orb, !exists_inter.
  rewrite (existsb_ext' (conflict f) (conflict_x f) acc (conflict_expand f)). unfold conflict_x.
  rewrite !existsb_orb. btauto.
Qed.

(* ---------- reservation = greedy ---------- *)

Lemma reserve_greedy_from a acc l :
  represents a acc -> run_reserve_from a l = greedy_from acc l.
Proof.
  revert a acc; induction l as [|f r IH]; intros a acc Hr; cbn; [reflexivity|].
  unfold reserve. rewrite (has_conflict_spec a acc f Hr).
  destruct (existsb (conflict f) acc).
  - f_equal. apply IH; exact Hr.
  - f_equal. apply IH. apply represents_mark; exact Hr.
Qed.

Lemma reserve_greedy l : run_reserve l = greedy l.
Proof. apply reserve_greedy_from, represents_empty. Qed.

(* a rejected candidate reserves nothing *)
Lemma reject_reserves_nothing a f : snd (reserve a f) = false -> fst (reserve a f) = a.
Proof. unfold reserve. destruct (has_conflict a f); cbn; [reflexivity|discriminate]. Qed.

(* accepted candidates of a prefix, in acceptance order (most recent first) *)
Fixpoint accepted_from (acc : list footprint) (l : list footprint) : list footprint :=
  match l with
  | [] => acc
  | f :: r => if existsb (conflict f) acc then accepted_from acc r else accepted_from (f :: acc) r
  end.

Lemma greedy_from_app acc pre rest :
  greedy_from acc (pre ++ rest) = greedy_from acc pre ++ greedy_from (accepted_from acc pre) rest.
Proof.
  revert acc; induction pre as [|f pre IH]; intros acc; cbn; [reflexivity|].
  destruct (existsb (conflict f) acc); cbn; f_equal; apply IH.
Qed.

Lemma greedy_from_length acc l : length (greedy_from acc l) = length l.
Proof. revert acc; induction l as [|f l IH]; intros acc; cbn; [reflexivity|]. destruct (existsb _ _); cbn; auto. Qed.

(* decision of the candidate at any position = no conflict with the candidates accepted before it *)
Lemma greedy_decision pre f post :
  nth (length pre) (greedy (pre ++ f :: post)) false
  = negb (existsb (conflict f) (accepted_from [] pre)).
Proof.
  unfold greedy. rewrite greedy_from_app.
  rewrite app_nth2 by (rewrite greedy_from_length; lia).
  rewrite greedy_from_length, Nat.sub_diag. cbn.
  destruct (existsb (conflict f) (accepted_from [] pre)); reflexivity.
Qed.

(* accepted_from really is "the accepted ones": membership characterisation *)
Lemma accepted_from_In acc l x :
  In x (accepted_from acc l) ->
  In x acc \/ In x l.
Proof.
  revert acc; induction l as [|f l IH]; intros acc H; cbn in H; [left; exact H|].
  destruct (existsb (conflict f) acc).
  - destruct (IH _ H); [left; assumption|right; right; assumption].
  - destruct (IH _ H) as [H1|H1]; [|right; right; assumption].
    destruct H1; [right; left; assumption|left; assumption].
Qed.

(* the accepted set is independent: no two accepted candidates conflict *)
Lemma accepted_independent acc l :
  (forall x y, In x acc -> In y acc -> x <> y -> True) ->
  ForallOrdPairs (fun x y => conflict x y = false) acc ->
  ForallOrdPairs (fun x y => conflict x y = false) (accepted_from acc l).
Proof.
  intros _. revert acc; induction l as [|f l IH]; intros acc H; cbn; [exact H|].
  destruct (existsb (conflict f) acc) eqn:E; [apply IH; exact H|].
  apply IH. constructor; [|exact H].
  apply Forall_forall. intros y Hy.
  destruct (conflict f y) eqn:C; [|reflexivity].
  assert (existsb (conflict f) acc = true) by (apply existsb_exists; exists y; auto). congruence.
Qed.

(* ---------- receipts: exact blockers, never the corruption branch ---------- *)

Fixpoint receipt_spec_from (reserved : list (N * footprint)) (idx : N) (l : list footprint)
  : list (bool * list N) :=
  match l with
  | [] => []
  | f :: r =>
      match map fst (filter (fun p => conflict f (snd p)) reserved) with
      | [] => (true, []) :: receipt_spec_from (reserved ++ [(idx, f)]) (idx + 1) r
      | bl => (false, bl) :: receipt_spec_from reserved (idx + 1) r
      end
  end.
Definition receipt_spec (l : list footprint) := receipt_spec_from [] 0 l.

Lemma existsb_filter_nil {A} (p : A -> bool) l : existsb p l = false <-> filter p l = [].
Proof.
  induction l as [|x l IH]; cbn; [tauto|]. destruct (p x); cbn.
  - split; discriminate.
  - exact IH.
Qed.

Lemma receipt_exact_from a reserved idx l :
  represents a (rev (map snd reserved)) ->
  receipt_from a reserved idx l = Some (receipt_spec_from reserved idx l).
Proof.
  revert a reserved idx; induction l as [|f r IH]; intros a reserved idx Hr; cbn; [reflexivity|].
  unfold reserve. rewrite (has_conflict_spec a _ f Hr).
  rewrite (existsb_ext' _ _ _ (fun y => eq_sym (fp_conflict_is_conflict f y))).
  rewrite existsb_rev.
  assert (Hm : existsb (fp_conflict f) (map snd reserved) = existsb (fun p => fp_conflict f (snd p)) reserved).
  { clear. induction reserved as [|p l IH]; cbn; congruence. }
  rewrite Hm.
  rewrite (filter_ext (fun p => conflict f (snd p)) (fun p => fp_conflict f (snd p)))
    by (intros; symmetry; apply fp_conflict_is_conflict).
  destruct (existsb (fun p => fp_conflict f (snd p)) reserved) eqn:E.
  - destruct (filter (fun p => fp_conflict f (snd p)) reserved) as [|p0 fl] eqn:F.
    + apply existsb_filter_nil in F. congruence.
    + cbn [map]. rewrite (IH a reserved (idx + 1) Hr). reflexivity.
  - apply existsb_filter_nil in E. rewrite E. cbn [map].
    rewrite (IH (mark_all a f) (reserved ++ [(idx, f)]) (idx + 1)); [reflexivity|].
    rewrite map_app, rev_app_distr. cbn. apply represents_mark; exact Hr.
Qed.

Lemma receipt_exact l : receipt l = Some (receipt_spec l).
Proof. apply receipt_exact_from. cbn. apply represents_empty. Qed.

(* decisions of the receipt are the scheduler's decisions *)
Lemma receipt_spec_decisions_from reserved idx l :
  map fst (receipt_spec_from reserved idx l) = greedy_from (rev (map snd reserved)) l.
Proof.
  revert reserved idx; induction l as [|f r IH]; intros reserved idx; cbn; [reflexivity|].
  rewrite existsb_rev.
  assert (Hm : existsb (conflict f) (map snd reserved) = existsb (fun p => conflict f (snd p)) reserved).
  { clear. induction reserved as [|p l IH]; cbn; congruence. }
  rewrite Hm.
  destruct (existsb (fun p => conflict f (snd p)) reserved) eqn:E.
  - destruct (filter (fun p => conflict f (snd p)) reserved) as [|p0 fl] eqn:F.
    + apply existsb_filter_nil in F. congruence.
    + cbn. f_equal. apply IH.
  - apply existsb_filter_nil in E. rewrite E. cbn. f_equal.
    rewrite (IH (reserved ++ [(idx, f)])). rewrite map_app, rev_app_distr. reflexivity.
Qed.

Lemma receipt_spec_decisions l : map fst (receipt_spec l) = greedy l.
Proof. apply (receipt_spec_decisions_from [] 0 l). Qed.

(* a rejected entry always names at least one blocker; an accepted one names none *)
Lemma receipt_spec_blockers_from reserved idx l :
  Forall (fun e => fst e = true /\ snd e = [] \/ fst e = false /\ snd e <> []) (receipt_spec_from reserved idx l).
Proof.
  revert reserved idx; induction l as [|f r IH]; intros reserved idx; cbn; [constructor|].
  destruct (map fst (filter (fun p => conflict f (snd p)) reserved)) eqn:E.
  - constructor; [left; auto|apply IH].
  - constructor; [right; split; [reflexivity|discriminate]|apply IH].
Qed.

(* ---------- legacy scheduler ---------- *)

Definition masks_sound (l : list footprint) : Prop :=
  forall a b, In a l -> In b l -> conflict a b = true -> N.land (factor_mask a) (factor_mask b) <> 0.

Lemma legacy_agrees_from frontier acc l pool :
  frontier = rev acc -> incl acc pool -> incl l pool -> masks_sound pool ->
  run_legacy_from frontier l = greedy_from acc l.
Proof.
  revert frontier acc; induction l as [|f r IH]; intros frontier acc Hf Hacc Hl Hs; cbn; [reflexivity|].
  assert (E : forallb (independent f) frontier = negb (existsb (conflict f) acc)).
  { subst frontier. rewrite forallb_rev.
    assert (Hin : forall y, In y acc -> independent f y = negb (conflict f y)).
    { intros y Hy. unfold independent. rewrite fp_conflict_is_conflict.
      destruct (conflict f y) eqn:C; [|destruct (_ =? 0); reflexivity].
      destruct (N.eqb_spec (N.land (factor_mask f) (factor_mask y)) 0) as [Hz|]; [|reflexivity].
      exfalso. eapply (Hs f y); auto. apply Hl; left; reflexivity. }
    clear - Hin. induction acc as [|y acc IH]; cbn; [reflexivity|].
    rewrite Hin by (left; reflexivity). rewrite IH by (intros; apply Hin; right; assumption).
    rewrite negb_orb. reflexivity. }
  rewrite E. destruct (existsb (conflict f) acc); cbn; f_equal.
  - apply IH; auto. intros x Hx; apply Hl; right; exact Hx.
  - apply IH; auto.
    + subst frontier. cbn. reflexivity.
    + intros x [Hx|Hx]; [subst; apply Hl; left; reflexivity|apply Hacc; exact Hx].
    + intros x Hx; apply Hl; right; exact Hx.
Qed.

Lemma legacy_agrees l : masks_sound l -> run_legacy l = run_reserve l.
Proof.
  intros Hs. rewrite reserve_greedy. unfold run_legacy, greedy.
  apply (legacy_agrees_from [] [] l l); auto.
  - intros x [].
  - intros x Hx; exact Hx.
Qed.

Definition fp_n (w : list rkey) (mask : N) : footprint :=
  {| n_read := []; n_write := w; e_read := []; e_write := []; a_read := []; a_write := [];
     b_in := []; b_out := []; factor_mask := mask |}.

(* With unsound (placeholder) masks the legacy predicate diverges: this is why the engine's
   receipts do not use Footprint::independent. *)
Lemma legacy_diverges :
  exists l, run_legacy l <> run_reserve l.
Proof. exists [fp_n [(1, 7)] 0; fp_n [(1, 7)] 0]. vm_compute. discriminate. Qed.
