(* Lemmas about Model/Seek.v (C07). *)
From Coq Require Import List NArith Lia Bool.
From Echo Require Import Base.FinMap Base.Order Model.Seek.
Import ListNotations.
Open Scope N_scope.

(* ------------------------------------------------------------------ generic list / N helpers *)

Lemma nthN_app1 {A} (l1 l2 : list A) i : i < lenN l1 -> nthN (l1 ++ l2) i = nthN l1 i.
Proof. unfold nthN, lenN. intros H. apply nth_error_app1. lia. Qed.

Lemma nthN_some_lt {A} (l : list A) i x : nthN l i = Some x -> i < lenN l.
Proof.
  unfold nthN, lenN. intros H.
  assert (Hn : (N.to_nat i < length l)%nat) by (apply nth_error_Some; congruence). lia.
Qed.

Lemma nth_error_firstn_lt {A} : forall (n i : nat) (l : list A),
  (i < n)%nat -> nth_error (firstn n l) i = nth_error l i.
Proof.
  induction n as [|n IH]; intros i l H; [lia|].
  destruct l as [|x l]; [reflexivity|]. destruct i as [|i]; [reflexivity|]. cbn. apply IH. lia.
Qed.

Lemma nthN_firstn {A} (l : list A) n i : i < n -> nthN (firstnN n l) i = nthN l i.
Proof. unfold nthN, firstnN. intros H. apply nth_error_firstn_lt. lia. Qed.

Lemma lenN_app {A} (l1 l2 : list A) : lenN (l1 ++ l2) = lenN l1 + lenN l2.
Proof. unfold lenN. rewrite app_length. lia. Qed.

Lemma lenN_firstn {A} (l : list A) n : n <= lenN l -> lenN (firstnN n l) = n.
Proof. unfold lenN, firstnN. intros H. rewrite firstn_length. lia. Qed.

Lemma firstnN_skipn {A} (l : list A) n : l = firstnN n l ++ skipn (N.to_nat n) l.
Proof. unfold firstnN. symmetry. apply firstn_skipn. Qed.

Lemma In_set {V} k (v : V) m k' v' :
  In (k', v') (set N.compare k v m) -> (k', v') = (k, v) \/ In (k', v') m.
Proof.
  induction m as [|[k1 v1] r IH]; cbn.
  - intros [E|[]]; left; congruence.
  - destruct (N.compare k k1).
    + intros [E|H]; [left; congruence|right; right; exact H].
    + intros [E|H]; [left; congruence|right; exact H].
    + intros [E|H]; [right; left; exact E|]. destruct (IH H) as [E|H']; [left; exact E|right; right; exact H'].
Qed.

Lemma checked_increment_some t x : checked_increment t = Some x -> x = t + 1.
Proof. unfold checked_increment. destruct (t <? u64_max); congruence. Qed.

Lemma lookup_tick_le target t : t < lookup_tick target -> t <= target.
Proof.
  unfold lookup_tick. destruct (checked_increment target) eqn:E.
  - apply checked_increment_some in E. lia.
  - lia.
Qed.

Section SeekProofs.
  Variables St P : Type.
  Variable apply : St -> P -> aresult St.
  Variable root : St -> N.
  Variable commit_hash : N -> list N -> N -> N -> N.
  Variable p_digest_field : P -> N.
  Variable p_digest_calc : P -> N.
  Variable p_policy : P -> N.
  Variable p_decision : P -> N.

  Notation entry := (@entry P).
  Notation wstate := (@wstate St).
  Notation store := (@store St P).
  Notation cursor := (@cursor St).
  Notation advance_one := (advance_one St P apply root commit_hash p_digest_field p_digest_calc p_policy p_decision).
  Notation advance_loop := (advance_loop St P apply root commit_hash p_digest_field p_digest_calc p_policy p_decision).
  Notation advance := (advance St P apply root commit_hash p_digest_field p_digest_calc p_policy p_decision).
  Notation replay := (replay St P apply root commit_hash p_digest_field p_digest_calc p_policy p_decision).
  Notation replay_at := (replay_at St P apply root commit_hash p_digest_field p_digest_calc p_policy p_decision).
  Notation restore_base := (restore_base St P root).
  Notation validate_base := (validate_base St P root).
  Notation seek_to := (seek_to St P apply root commit_hash p_digest_field p_digest_calc p_policy p_decision).
  Notation step := (step St P apply root commit_hash p_digest_field p_digest_calc p_policy p_decision).
  Notation run_op := (run_op St P apply root commit_hash p_digest_field p_digest_calc p_policy p_decision).
  Notation run_ops := (run_ops St P apply root commit_hash p_digest_field p_digest_calc p_policy p_decision).
  Notation artifacts := (artifacts P p_digest_field p_digest_calc p_decision).
  Notation validate_checkpoint := (validate_checkpoint St P root p_digest_field p_digest_calc p_decision).
  Notation add_checkpoint := (add_checkpoint St P root p_digest_field p_digest_calc p_decision).
  Notation checkpoint_from_state := (checkpoint_from_state St P root p_digest_field p_digest_calc p_decision).
  Notation fork := (fork St P).
  Notation live_run := (live_run St P apply root commit_hash p_digest_field p_policy p_decision).
  Notation record_entry := (record_entry St P root commit_hash p_digest_field p_policy p_decision).

  (* ---------------------------------------------------------------- metadata does not influence the loop *)

  Definition with_meta (w : wstate) (la : option art) (ma tx : N) : wstate :=
    {| ws_state := ws_state w; ws_warp := ws_warp w; ws_init := ws_init w; ws_hist := ws_hist w;
       ws_last := la; ws_mat := ma; ws_tx := tx |}.

  Lemma with_meta_id (w : wstate) : with_meta w (ws_last w) (ws_mat w) (ws_tx w) = w.
  Proof. destruct w; reflexivity. Qed.

  Lemma advance_one_meta i e w la ma tx :
    advance_one i e (with_meta w la ma tx) =
    (with_meta (fst (advance_one i e w)) la ma tx, snd (advance_one i e w)).
  Proof.
    unfold Seek.advance_one. destruct (negb (e_tick e =? i)); [reflexivity|].
    change (parent_linked St P e (with_meta w la ma tx)) with (parent_linked St P e w).
    destruct (negb (parent_linked St P e w)); [reflexivity|].
    destruct (e_patch e) as [p|]; [|reflexivity].
    cbn [ws_state with_meta]. destruct (apply (ws_state w) p) as [s'|s']; [|reflexivity].
    destruct (negb (root s' =? e_root e)); [reflexivity|].
    destruct (negb (commit_hash (root s') (e_parents e) (e_pdig e) (p_policy p) =? e_commit e)); [reflexivity|].
    destruct (artifacts i e p); reflexivity.
  Qed.

  Lemma advance_loop_meta h n : forall i w l la ma tx,
    advance_loop h n i (with_meta w la ma tx) l =
    (let '(w', l', e) := advance_loop h n i w l in (with_meta w' la ma tx, l', e)).
  Proof.
    induction n as [|n IH]; intros i w l la ma tx; cbn [Seek.advance_loop]; [reflexivity|].
    destruct (nthN h i) as [e|]; [|reflexivity].
    rewrite advance_one_meta. destruct (advance_one i e w) as [w1 [err|]]; cbn [fst snd]; [reflexivity|].
    apply IH.
  Qed.

  (* the initial `last` only survives when no tick is processed *)
  Definition or_else {A} (a b : option A) : option A := match a with Some x => Some x | None => b end.

  Lemma advance_loop_last h n : forall i w l,
    advance_loop h n i w l =
    (let '(w', l', e) := advance_loop h n i w None in (w', or_else l' l, e)).
  Proof.
    induction n as [|n IH]; intros i w l; cbn [Seek.advance_loop]; [reflexivity|].
    destruct (nthN h i) as [e|]; [|reflexivity].
    destruct (advance_one i e w) as [w1 [err|]]; [reflexivity|].
    rewrite (IH (i + 1) w1 (Some e)).
    destruct (advance_loop h n (i + 1) w1 None) as [[w2 l2] e2]. destruct l2; reflexivity.
  Qed.

  Lemma advance_loop_split h n1 : forall n2 i w l,
    advance_loop h (n1 + n2) i w l =
    (let '(w1, l1, e1) := advance_loop h n1 i w l in
     match e1 with
     | Some e => (w1, l1, Some e)
     | None => advance_loop h n2 (i + N.of_nat n1) w1 l1
     end).
  Proof.
    induction n1 as [|n1 IH]; intros n2 i w l.
    - cbn. replace (i + 0) with i by lia. reflexivity.
    - cbn [Nat.add Seek.advance_loop]. destruct (nthN h i) as [e|]; [|reflexivity].
      destruct (advance_one i e w) as [w1 [err|]]; [reflexivity|].
      rewrite IH. destruct (advance_loop h n1 (i + 1) w1 (Some e)) as [[w2 l2] [e2|]]; [reflexivity|].
      replace (i + 1 + N.of_nat n1) with (i + N.of_nat (Datatypes.S n1)) by lia. reflexivity.
  Qed.

  (* a successful loop consumed existing entries, pushed one artifact per tick, kept warp/init *)
  Lemma advance_one_ok i e w w' :
    advance_one i e w = (w', None) ->
    ws_warp w' = ws_warp w /\ ws_init w' = ws_init w /\ (exists a, ws_hist w' = ws_hist w ++ [a]) /\
    ws_root St root w' = e_root e.
  Proof.
    unfold Seek.advance_one. destruct (negb (e_tick e =? i)); [discriminate|].
    destruct (negb (parent_linked St P e w)); [discriminate|].
    destruct (e_patch e) as [p|]; [|discriminate].
    destruct (apply (ws_state w) p) as [s'|s']; [|discriminate].
    destruct (root s' =? e_root e) eqn:ER; cbn [negb]; [|discriminate].
    destruct (negb (commit_hash (root s') (e_parents e) (e_pdig e) (p_policy p) =? e_commit e)); [discriminate|].
    destruct (artifacts i e p) as [err|a]; [discriminate|].
    intros H; inversion H; subst; cbn. repeat split; eauto. apply N.eqb_eq in ER. exact ER.
  Qed.

  Lemma advance_loop_hist h n : forall i w l w' l',
    advance_loop h n i w l = (w', l', None) ->
    ws_warp w' = ws_warp w /\ ws_init w' = ws_init w /\
    exists arts, ws_hist w' = ws_hist w ++ arts /\ length arts = n.
  Proof.
    induction n as [|n IH]; intros i w l w' l' H.
    - cbn in H. inversion H; subst. repeat split; auto. exists []. rewrite app_nil_r. auto.
    - cbn [Seek.advance_loop] in H. destruct (nthN h i) as [e|] eqn:E; [|discriminate].
      destruct (advance_one i e w) as [w1 [err|]] eqn:A1; [discriminate|].
      apply advance_one_ok in A1. destruct A1 as (Hw & Hi & [a Ha] & _).
      apply IH in H. destruct H as (Hw' & Hi' & arts & Hh & Hl).
      repeat split; try congruence. exists (a :: arts). rewrite Hh, Ha, <- app_assoc. cbn. split; auto.
  Qed.

  (* prefix stability of the loop *)
  Lemma advance_loop_prefix h1 h2 n : forall i w l,
    i + N.of_nat n <= lenN h1 ->
    advance_loop (h1 ++ h2) n i w l = advance_loop h1 n i w l.
  Proof.
    induction n as [|n IH]; intros i w l H; cbn [Seek.advance_loop]; [reflexivity|].
    rewrite nthN_app1 by lia. destruct (nthN h1 i) as [e|]; [|reflexivity].
    destruct (advance_one i e w) as [w1 [err|]]; [reflexivity|]. apply IH. lia.
  Qed.

  Lemma advance_prefix h1 h2 w a b : b <= lenN h1 -> advance (h1 ++ h2) w a b = advance h1 w a b.
  Proof.
    intros H. unfold Seek.advance. destruct (a =? b); [reflexivity|].
    destruct (N.le_gt_cases a b) as [Hab|Hab].
    - rewrite advance_loop_prefix; [reflexivity|]. lia.
    - replace (N.to_nat (b - a)) with O by lia. reflexivity.
  Qed.

  (* replay_prefix: replaying t ticks only looks at the first t entries *)
  Theorem replay_prefix_lemma h1 h2 b t : t <= lenN h1 -> replay (h1 ++ h2) b t = replay h1 b t.
  Proof. intros H. unfold Seek.replay. apply advance_prefix. exact H. Qed.

  (* ---------------------------------------------------------------- verified histories *)

  Definition verifies (h : list entry) (b : wstate) : Prop := snd (replay h b (lenN h)) = None.

  Lemma replay_zero h b : replay h b 0 = (base_from_initial St b, None).
  Proof. reflexivity. Qed.

  Lemma replay_unfold h b t : t <> 0 ->
    replay h b t =
    (let '(w', l, e) := advance_loop h (N.to_nat t) 0 (base_from_initial St b) None in
     match e with Some err => (w', Some err) | None => (finalize St P w' t l, None) end).
  Proof.
    intros H. unfold Seek.replay, Seek.advance. destruct (0 =? t) eqn:E; [apply N.eqb_eq in E; lia|].
    replace (t - 0) with t by lia.
    destruct (advance_loop h (N.to_nat t) 0 (base_from_initial St b) None) as [[w' l] [e|]]; reflexivity.
  Qed.

  Lemma verifies_upto h b t : verifies h b -> t <= lenN h -> snd (replay h b t) = None.
  Proof.
    intros V H. destruct (N.eq_dec t 0) as [->|Ht]; [reflexivity|].
    unfold verifies in V. assert (Hl : lenN h <> 0) by lia.
    rewrite replay_unfold in V by exact Hl. rewrite replay_unfold by exact Ht.
    replace (N.to_nat (lenN h)) with (N.to_nat t + N.to_nat (lenN h - t))%nat in V by lia.
    rewrite advance_loop_split in V.
    destruct (advance_loop h (N.to_nat t) 0 (base_from_initial St b) None) as [[w1 l1] [e1|]]; [|reflexivity].
    cbn in V. discriminate.
  Qed.

  Lemma verifies_firstn h b n : verifies h b -> verifies (firstnN n h) b.
  Proof.
    intros V. destruct (N.le_gt_cases n (lenN h)) as [H|H].
    - unfold verifies. rewrite lenN_firstn by exact H.
      rewrite (firstnN_skipn h n) in V.
      pose proof (verifies_upto _ b n V) as V'. rewrite replay_prefix_lemma in V'.
      + apply V'. rewrite lenN_app, lenN_firstn by exact H. lia.
      + rewrite lenN_firstn by exact H. lia.
    - unfold firstnN. rewrite firstn_all2; [exact V|]. unfold lenN in H. lia.
  Qed.

  (* a successful replay to t produced t artifacts *)
  Lemma replay_tick h b t w : replay h b t = (w, None) -> ws_tick St w = t /\ ws_warp w = ws_warp b /\ ws_init w = ws_init b.
  Proof.
    destruct (N.eq_dec t 0) as [->|Ht].
    - rewrite replay_zero. intros H; inversion H; subst. cbn. auto.
    - rewrite replay_unfold by exact Ht.
      destruct (advance_loop h (N.to_nat t) 0 (base_from_initial St b) None) as [[w' l] [e|]] eqn:L; [discriminate|].
      intros H; inversion H; subst. apply advance_loop_hist in L. destruct L as (Hw & Hi & arts & Hh & Hl).
      unfold Seek.finalize. destruct (t =? 0) eqn:E; [apply N.eqb_eq in E; lia|].
      unfold ws_tick; cbn. rewrite Hh. cbn. unfold lenN. rewrite Hl. repeat split; auto; lia.
  Qed.

  (* ---------------------------------------------------------------- continuing a replay = replaying further *)

  Lemma finalize_with_meta w la ma tx t e : t <> 0 ->
    finalize St P (with_meta w la ma tx) t (Some e) = finalize St P w t (Some e).
  Proof. intros H. unfold Seek.finalize. destruct (t =? 0) eqn:E; [apply N.eqb_eq in E; lia|]. reflexivity. Qed.

  Lemma finalize_is_meta w t l : exists la ma tx, finalize St P w t l = with_meta w la ma tx.
  Proof. unfold Seek.finalize. destruct (t =? 0); eexists; eexists; eexists; reflexivity. Qed.

  Lemma loop_last_some h n : forall i w l w' l',
    n <> O -> advance_loop h n i w l = (w', l', None) -> exists e, l' = Some e.
  Proof.
    induction n as [|n IH]; intros i w l w' l' Hn H; [congruence|].
    cbn [Seek.advance_loop] in H. destruct (nthN h i) as [e|]; [|discriminate].
    destruct (advance_one i e w) as [w1 [err|]]; [discriminate|].
    destruct n as [|n'].
    - cbn in H. inversion H; subst. eauto.
    - eapply IH in H; [exact H|congruence].
  Qed.

  Theorem advance_continues h b t1 t2 w1 w2 :
    replay h b t1 = (w1, None) -> replay h b t2 = (w2, None) -> t1 <= t2 ->
    advance h w1 t1 t2 = (w2, None).
  Proof.
    intros R1 R2 Hle.
    destruct (N.eq_dec t1 t2) as [->|Hne].
    { unfold Seek.advance. rewrite N.eqb_refl. congruence. }
    destruct (N.eq_dec t1 0) as [->|H1].
    { rewrite replay_zero in R1. inversion R1; subst. exact R2. }
    assert (H2 : t2 <> 0) by lia.
    rewrite replay_unfold in R1 by exact H1. rewrite replay_unfold in R2 by exact H2.
    replace (N.to_nat t2) with (N.to_nat t1 + N.to_nat (t2 - t1))%nat in R2 by lia.
    rewrite advance_loop_split in R2.
    destruct (advance_loop h (N.to_nat t1) 0 (base_from_initial St b) None) as [[wa la] [ea|]]; [discriminate|].
    inversion R1; subst w1. replace (0 + N.of_nat (N.to_nat t1)) with t1 in R2 by lia.
    destruct (advance_loop h (N.to_nat (t2 - t1)) t1 wa la) as [[wb lb] [eb|]] eqn:L2; [discriminate|].
    inversion R2; subst w2.
    unfold Seek.advance. destruct (t1 =? t2) eqn:E; [apply N.eqb_eq in E; lia|].
    destruct (finalize_is_meta wa t1 la) as (la' & ma' & tx' & ->).
    rewrite advance_loop_meta. rewrite advance_loop_last in L2.
    destruct (advance_loop h (N.to_nat (t2 - t1)) t1 wa None) as [[wc lc] ec] eqn:L3.
    inversion L2; subst wb lb ec.
    assert (Hn : N.to_nat (t2 - t1) <> O) by lia.
    destruct (loop_last_some _ _ _ _ _ _ _ Hn L3) as [e ->]. cbn [or_else].
    rewrite finalize_with_meta by exact H2. reflexivity.
  Qed.

  (* ---------------------------------------------------------------- checkpoints *)

  (* a checkpoint is valid when it stores exactly the replayed state of its tick *)
  Definition cps_valid (st : store) (b : wstate) : Prop :=
    forall t hash cw, In (t, (hash, cw)) (st_cps st) ->
      t <= st_len St P st /\ replay (st_entries st) b t = (cw, None).

  Definition base_ok (st : store) (b : wstate) : Prop :=
    base_from_initial St b = b /\ validate_base st b = None.

  Lemma cp_before_in cps tick t c : cp_before St cps tick = Some (t, c) -> In (t, c) cps /\ t < tick.
  Proof.
    induction cps as [|[t0 c0] r IH]; cbn; [discriminate|].
    destruct (t0 <? tick) eqn:E; [|discriminate].
    destruct (cp_before St r tick) as [x|] eqn:B.
    - intros H; inversion H; subst. destruct (IH eq_refl) as [Hi Hl]. split; [right; exact Hi|exact Hl].
    - intros H; inversion H; subst. apply N.ltb_lt in E. split; [left; reflexivity|exact E].
  Qed.

  (* what a successful restore_replay_base has checked (/repo 90bd2fa added the metadata part): the state comes from
     the checkpoint the lookup found, its root and hash equal the expected root of its tick, it carries exactly
     `tick` history artifacts and, for tick > 0, the last one is the commit recorded by entry tick-1 *)
  Lemma restore_base_cases st b target w start :
    restore_base st b target = inr (w, start) ->
    match cp_before St (st_cps st) (lookup_tick target) with
    | Some (t, (hash, cw)) =>
        t = start /\ cw = w /\
        expected_root_at St P st t = Some hash /\ ws_root St root cw = hash /\
        lenN (ws_hist cw) = t /\
        (t <> 0 -> exists e a, nthN (st_entries st) (t - 1) = Some e /\ last_opt (ws_hist cw) = Some a /\
                               a_commit a = e_commit e)
    | None => start = 0 /\ w = base_from_initial St b
    end.
  Proof.
    unfold Seek.restore_base.
    destruct (cp_before St (st_cps st) (lookup_tick target)) as [[t [hash cw]]|].
    - destruct (expected_root_at St P st t) as [x|]; [|discriminate].
      destruct (hash =? x) eqn:E1; cbn [negb]; [|discriminate]. apply N.eqb_eq in E1.
      destruct (ws_root St root cw =? x) eqn:E2; cbn [negb]; [|discriminate]. apply N.eqb_eq in E2.
      destruct (lenN (ws_hist cw) =? t) eqn:E3; cbn [negb]; [|discriminate]. apply N.eqb_eq in E3.
      destruct (t =? 0) eqn:E0.
      + apply N.eqb_eq in E0. intros H; inversion H; subst. repeat split; auto; try congruence; try (intros Hn; congruence).
      + destruct (nthN (st_entries st) (t - 1)) as [e|] eqn:EN; [|discriminate].
        destruct (last_opt (ws_hist cw)) as [a|] eqn:EL; [|discriminate].
        destruct (a_commit a =? e_commit e) eqn:EC; [|discriminate]. apply N.eqb_eq in EC.
        intros H; inversion H; subst. repeat split; auto; try congruence; try (intros _; exists e, a; auto).
    - intros H; inversion H; subst. auto.
  Qed.

  Lemma restore_base_sound st b target w start :
    cps_valid st b -> restore_base st b target = inr (w, start) ->
    start <= target /\ replay (st_entries st) b start = (w, None).
  Proof.
    intros CV R. apply restore_base_cases in R.
    destruct (cp_before St (st_cps st) (lookup_tick target)) as [[t [hash cw]]|] eqn:B.
    - apply cp_before_in in B. destruct B as [Hin Hlt]. destruct R as (-> & -> & _).
      split; [apply lookup_tick_le; exact Hlt|]. apply (CV _ _ _ Hin).
    - destruct R as [-> ->]. split; [lia|]. apply replay_zero.
  Qed.

  Lemma replay_at_sound st b target w :
    verifies (st_entries st) b -> cps_valid st b ->
    replay_at st b target = inr w -> target <= st_len St P st /\ replay (st_entries st) b target = (w, None).
  Proof.
    intros V CV. unfold Seek.replay_at. destruct (st_len St P st <? target) eqn:EL; [discriminate|].
    apply N.ltb_ge in EL. destruct (validate_base st b); [discriminate|].
    destruct (restore_base st b target) as [e|[w0 start]] eqn:RB; [discriminate|].
    destruct (restore_base_sound _ _ _ _ _ CV RB) as [Hle R0].
    pose proof (verifies_upto _ _ target V EL) as Vt.
    destruct (replay (st_entries st) b target) as [wt et] eqn:RT. cbn in Vt; subst et.
    rewrite (advance_continues _ _ _ _ _ _ R0 RT Hle). intros H; inversion H; subst. auto.
  Qed.

  (* ---------------------------------------------------------------- a rejected seek leaves the cursor where it was *)

  (* For EVERY store (tampered or not), base, cursor and target: when seek_to answers an error, the cursor still
     holds its previous tick and its previous state (only `replay_base_validated` may have been set).  This is the
     law restored by /repo commit 7e0a2d4: before it the forward path returned the partially advanced state. *)
  Lemma seek_to_error_keeps_cursor st b c target e :
    snd (seek_to st b c target) = Some e ->
    c_tick (fst (seek_to st b c target)) = c_tick c /\ c_ws (fst (seek_to st b c target)) = c_ws c /\
    c_pin (fst (seek_to st b c target)) = c_pin c /\ c_mode (fst (seek_to st b c target)) = c_mode c.
  Proof.
    unfold Seek.seek_to.
    destruct (c_pin c <? target); [cbn; auto|].
    destruct (st_len St P st <? target); [cbn; auto|].
    destruct (target =? c_tick c).
    { destruct (negb (c_validated c) && (c_tick c =? 0)); [|cbn; discriminate].
      destruct (validate_base st b); cbn; [auto|discriminate]. }
    destruct (should_restore St P st c target).
    { destruct (replay_at st b target); cbn; [auto|discriminate]. }
    destruct (if c_validated c then None else validate_base st b); [cbn; auto|].
    destruct (advance (st_entries st) (c_ws c) (c_tick c) target) as [w [e'|]]; cbn; [auto|discriminate].
  Qed.

  (* ---------------------------------------------------------------- cursor invariant *)

  Definition cursor_inv (st : store) (b : wstate) (c : cursor) : Prop :=
    c_tick c <= st_len St P st /\ replay (st_entries st) b (c_tick c) = (c_ws c, None).

  Lemma seek_to_inv st b c target :
    verifies (st_entries st) b -> cps_valid st b -> cursor_inv st b c ->
    cursor_inv st b (fst (seek_to st b c target)).
  Proof.
    intros V CV [Hle Hr]. unfold Seek.seek_to.
    destruct (c_pin c <? target); [split; assumption|].
    destruct (st_len St P st <? target) eqn:EL; [split; assumption|]. apply N.ltb_ge in EL.
    destruct (target =? c_tick c) eqn:ET.
    { destruct (negb (c_validated c) && (c_tick c =? 0)); [|split; assumption].
      destruct (validate_base st b); split; assumption. }
    apply N.eqb_neq in ET.
    destruct (should_restore St P st c target) eqn:SR.
    - destruct (replay_at st b target) as [e|w] eqn:RA; [split; assumption|].
      destruct (replay_at_sound _ _ _ _ V CV RA) as [H1 H2]. split; cbn; assumption.
    - destruct (if c_validated c then None else validate_base st b); [split; assumption|].
      unfold Seek.should_restore in SR. apply orb_false_iff in SR. destruct SR as [SR _].
      apply N.ltb_ge in SR.
      pose proof (verifies_upto _ _ target V EL) as Vt.
      destruct (replay (st_entries st) b target) as [wt et] eqn:RT. cbn in Vt; subst et.
      rewrite (advance_continues _ _ _ _ _ _ Hr RT SR). split; cbn; assumption.
  Qed.

  Lemma set_mode_inv st b c m : cursor_inv st b c -> cursor_inv st b (set_mode St c m).
  Proof. intros H; exact H. Qed.

  Lemma step_inv st b c :
    verifies (st_entries st) b -> cps_valid st b -> cursor_inv st b c ->
    cursor_inv st b (fst (step st b c)).
  Proof.
    intros V CV I. unfold Seek.step. destruct (c_mode c).
    - exact I.
    - destruct (c_role c); [exact I|]. destruct (c_pin c <=? c_tick c); [exact I|].
      destruct (checked_increment (c_tick c)); [|exact I].
      pose proof (seek_to_inv st b c n V CV I) as I'. destruct (seek_to st b c n) as [c' [e|]]; exact I'.
    - destruct (c_role c); [exact I|]. destruct (c_pin c <=? c_tick c); [exact I|].
      destruct (checked_increment (c_tick c)); [|exact I].
      pose proof (seek_to_inv st b c n V CV I) as I'. destruct (seek_to st b c n) as [c' [e|]]; exact I'.
    - pose proof (seek_to_inv st b c (c_tick c - 1) V CV I) as I'.
      destruct (seek_to st b c (c_tick c - 1)) as [c' [e|]]; exact I'.
    - pose proof (seek_to_inv st b c target V CV I) as I'.
      destruct (seek_to st b c target) as [c' [e|]]; exact I'.
  Qed.

  (* checkpoints taken from a cursor's own state are valid *)
  Lemma add_checkpoint_entries st t hash cw st' :
    add_checkpoint st t hash cw = inr st' ->
    st_entries st' = st_entries st /\ st_u0 st' = st_u0 st /\ st_boundary st' = st_boundary st /\
    st_cps st' = set N.compare t (hash, cw) (st_cps st).
  Proof.
    unfold Seek.add_checkpoint. destruct (validate_checkpoint st t hash cw); [discriminate|].
    intros H; inversion H; subst. cbn. auto.
  Qed.

  Lemma add_valid_checkpoint st b t hash cw st' :
    cps_valid st b -> t <= st_len St P st -> replay (st_entries st) b t = (cw, None) ->
    add_checkpoint st t hash cw = inr st' -> cps_valid st' b.
  Proof.
    intros CV Hle Hr A. apply add_checkpoint_entries in A. destruct A as (He & _ & _ & Hc).
    intros t1 h1 c1 Hin. rewrite Hc in Hin. unfold Seek.st_len. rewrite He.
    apply In_set in Hin. destruct Hin as [E|Hin].
    - inversion E; subst. split; assumption.
    - apply (CV _ _ _ Hin).
  Qed.

  Definition local_op (o : @op St) : Prop := match o with OAddCp _ _ _ _ => False | _ => True end.

  Lemma run_op_inv b st c o :
    local_op o ->
    verifies (st_entries st) b -> cps_valid st b -> cursor_inv st b c ->
    let '(st', c') := fst (run_op b (st, c) o) in
    st_entries st' = st_entries st /\ cps_valid st' b /\ cursor_inv st' b c'.
  Proof.
    intros LO V CV I. destruct o; cbn [Seek.run_op].
    - pose proof (seek_to_inv st b c t V CV I) as I'. destruct (seek_to st b c t) as [c' e]. cbn. auto.
    - pose proof (step_inv st b c V CV I) as I'. destruct (step st b c) as [c' e]. cbn. auto.
    - cbn. auto.
    - cbn. auto.
    - cbn. auto.
    - destruct (checkpoint_from_state st (c_ws c)) as [e|st'] eqn:A; cbn; [auto|].
      unfold Seek.checkpoint_from_state in A. destruct I as [Hle Hr].
      destruct (replay_tick _ _ _ _ Hr) as (Ht & _ & _).
      pose proof A as A'. apply add_checkpoint_entries in A'. destruct A' as (He & _ & _ & _).
      split; [exact He|]. split.
      + eapply add_valid_checkpoint; [exact CV| |  |exact A]; rewrite Ht; assumption.
      + unfold cursor_inv, Seek.st_len. rewrite He. split; assumption.
    - destruct LO.
  Qed.

  Theorem run_ops_inv b ops : forall st c,
    Forall local_op ops ->
    verifies (st_entries st) b -> cps_valid st b -> cursor_inv st b c ->
    let '(st', c') := fst (run_ops b (st, c) ops) in
    st_entries st' = st_entries st /\ cps_valid st' b /\ cursor_inv st' b c'.
  Proof.
    induction ops as [|o r IH]; intros st c LO V CV I; cbn [Seek.run_ops].
    - cbn. auto.
    - inversion LO as [|? ? LO1 LO2]; subst.
      pose proof (run_op_inv b st c o LO1 V CV I) as H1.
      destruct (run_op b (st, c) o) as [[st1 c1] out]. cbn [fst] in H1. destruct H1 as (He & CV1 & I1).
      assert (V1 : verifies (st_entries st1) b) by (rewrite He; exact V).
      pose proof (IH st1 c1 LO2 V1 CV1 I1) as H2.
      destruct (run_ops b (st1, c1) r) as [[st2 c2] outs]. cbn [fst] in *. destruct H2 as (He2 & CV2 & I2).
      split; [congruence|]. auto.
  Qed.

  Lemma new_cursor_inv st b r pin : base_from_initial St b = b -> cursor_inv st b (new_cursor St r b pin).
  Proof.
    intros Hb. split; [cbn; lia|]. unfold new_cursor. cbn [c_tick c_ws]. rewrite replay_zero, Hb. reflexivity.
  Qed.

  (* seek_path_independent *)
  Theorem seek_path_independent_lemma st b r pin ops :
    base_from_initial St b = b ->
    verifies (st_entries st) b -> cps_valid st b -> Forall local_op ops ->
    let c := snd (fst (run_ops b (st, new_cursor St r b pin) ops)) in
    c_tick c <= st_len St P st /\ replay (st_entries st) b (c_tick c) = (c_ws c, None).
  Proof.
    intros Hb V CV LO.
    pose proof (run_ops_inv b ops st _ LO V CV (new_cursor_inv st b r pin Hb)) as H.
    destruct (run_ops b (st, new_cursor St r b pin) ops) as [[st' c'] outs]. cbn [fst snd] in *.
    destruct H as (He & _ & [H1 H2]). unfold Seek.st_len in *. rewrite He in *. auto.
  Qed.

  (* ---------------------------------------------------------------- fork *)

  Lemma fork_spec st k st' :
    fork st k = inr st' ->
    k < st_len St P st /\ st_entries st' = firstnN (k + 1) (st_entries st) /\
    st_cps st' = filter (fun c => fst c <=? k + 1) (st_cps st) /\
    st_u0 st' = st_u0 st /\ st_boundary st' = st_boundary st.
  Proof.
    unfold Seek.fork. destruct (st_len St P st <=? k) eqn:E; [discriminate|]. apply N.leb_gt in E.
    destruct (checked_increment k) eqn:CI; [|discriminate]. apply checked_increment_some in CI. subst n.
    intros H; inversion H; subst. cbn. auto.
  Qed.

  Theorem fork_faithful_lemma st b k st' t :
    fork st k = inr st' -> t <= k + 1 ->
    replay (st_entries st') b t = replay (st_entries st) b t.
  Proof.
    intros F Ht. apply fork_spec in F. destruct F as (Hk & He & _). rewrite He.
    rewrite (firstnN_skipn (st_entries st) (k + 1)) at 2. symmetry. apply replay_prefix_lemma.
    rewrite lenN_firstn; [exact Ht|]. unfold Seek.st_len in Hk. lia.
  Qed.

  Theorem fork_cps_valid st b k st' :
    fork st k = inr st' -> cps_valid st b -> cps_valid st' b.
  Proof.
    intros F CV. pose proof (fork_spec _ _ _ F) as (Hk & He & Hc & _).
    intros t hash cw Hin. rewrite Hc in Hin. apply filter_In in Hin. destruct Hin as [Hin Hle].
    cbn in Hle. apply N.leb_le in Hle. destruct (CV _ _ _ Hin) as [_ Hr].
    unfold Seek.st_len in *. rewrite He. rewrite lenN_firstn by lia. split; [exact Hle|].
    rewrite <- He. rewrite (fork_faithful_lemma _ b _ _ t F Hle). exact Hr.
  Qed.

  Lemma fork_verifies st b k st' :
    fork st k = inr st' -> verifies (st_entries st) b -> verifies (st_entries st') b.
  Proof.
    intros F V. apply fork_spec in F. destruct F as (_ & He & _). rewrite He. apply verifies_firstn. exact V.
  Qed.

  (* cursors on the fork see the source's states *)
  Theorem fork_seek_lemma st b k st' r pin ops :
    base_from_initial St b = b ->
    verifies (st_entries st) b -> cps_valid st b -> fork st k = inr st' -> Forall local_op ops ->
    let c := snd (fst (run_ops b (st', new_cursor St r b pin) ops)) in
    c_tick c <= k + 1 /\ replay (st_entries st) b (c_tick c) = (c_ws c, None).
  Proof.
    intros Hb V CV F LO.
    pose proof (seek_path_independent_lemma st' b r pin ops Hb (fork_verifies _ _ _ _ F V)
                  (fork_cps_valid _ _ _ _ F CV) LO) as H.
    cbv zeta in *. destruct H as [H1 H2].
    pose proof (fork_spec _ _ _ F) as (Hk & He & _).
    assert (Hl : st_len St P st' = k + 1).
    { unfold Seek.st_len in *. rewrite He. apply lenN_firstn. lia. }
    rewrite Hl in H1. split; [exact H1|]. rewrite <- (fork_faithful_lemma _ b _ _ _ F H1). exact H2.
  Qed.

  (* appending entries keeps checkpoints valid and earlier replays unchanged *)
  Theorem append_preserves_lemma st b e :
    cps_valid st b -> cps_valid (append St P st e) b /\
    forall t, t <= st_len St P st -> replay (st_entries (append St P st e)) b t = replay (st_entries st) b t.
  Proof.
    intros CV. split.
    - intros t hash cw Hin. cbn in Hin. destruct (CV _ _ _ Hin) as [Hle Hr]. unfold Seek.st_len in *. cbn.
      rewrite lenN_app. split; [lia|]. rewrite replay_prefix_lemma by exact Hle. exact Hr.
    - intros t Ht. cbn. apply replay_prefix_lemma. exact Ht.
  Qed.

  (* ---------------------------------------------------------------- nearest-checkpoint lookup *)

  Definition n_eq := ol_eq _ N_order.
  Definition n_as := ol_antisym _ N_order.
  Definition n_tr := ol_trans _ N_order.

  Notation cps_sorted := (sorted (V := N * wstate) N.compare).

  Lemma cp_before_nearest (cps : list (N * (N * wstate))) tick : cps_sorted cps ->
    match cp_before St cps tick with
    | Some (t, c) => In (t, c) cps /\ t < tick /\ forall t' c', In (t', c') cps -> t' < tick -> t' <= t
    | None => forall t' c', In (t', c') cps -> ~ t' < tick
    end.
  Proof.
    induction cps as [|[t0 c0] r IH]; intros Hs; cbn [Seek.cp_before].
    - intros t' c' [].
    - cbn in Hs. destruct Hs as [Hlb Hs]. specialize (IH Hs).
      assert (Hall : forall t' c', In (t', c') r -> t0 < t').
      { intros t' c' Hin. pose proof (lb_all N.compare n_tr t0 r Hs Hlb t' c' Hin) as H.
        apply N.compare_lt_iff in H. exact H. }
      destruct (t0 <? tick) eqn:E.
      + apply N.ltb_lt in E. destruct (cp_before St r tick) as [[t c]|].
        * destruct IH as (Hin & Hlt & Hmax). split; [right; exact Hin|]. split; [exact Hlt|].
          intros t' c' [Heq|Hin'] Hl.
          -- inversion Heq; subst. pose proof (Hall _ _ Hin). lia.
          -- eapply Hmax; eauto.
        * split; [left; reflexivity|]. split; [exact E|].
          intros t' c' [Heq|Hin'] Hl; [inversion Heq; subst; lia|]. exfalso. eapply IH; eauto.
      + apply N.ltb_ge in E. intros t' c' [Heq|Hin'] Hl; [inversion Heq; subst; lia|].
        pose proof (Hall _ _ Hin'). lia.
  Qed.

  (* restore_replay_base starts from the LATEST checkpoint at or before the target (or U0 when there is none) *)
  Theorem restore_base_nearest_lemma st b target w start :
    cps_sorted (st_cps st) -> target < u64_max ->
    restore_base st b target = inr (w, start) ->
    start <= target /\
    (forall t' c', In (t', c') (st_cps st) -> t' <= target -> t' <= start) /\
    (start = 0 /\ w = base_from_initial St b \/ exists hash, In (start, (hash, w)) (st_cps st)).
  Proof.
    intros Hs Ht R. apply restore_base_cases in R.
    assert (Hlk : lookup_tick target = target + 1).
    { unfold lookup_tick, checked_increment. apply N.ltb_lt in Ht. rewrite Ht. reflexivity. }
    pose proof (cp_before_nearest (st_cps st) (lookup_tick target) Hs) as N.
    destruct (cp_before St (st_cps st) (lookup_tick target)) as [[t [hash cw]]|].
    - destruct N as (Hin & Hlt & Hmax). destruct R as (-> & -> & _).
      rewrite Hlk in *. split; [lia|]. split.
      + intros t' c' Hin' Hle. eapply Hmax; eauto. lia.
      + right. exists hash. exact Hin.
    - destruct R as [-> ->]. split; [lia|]. split.
      + intros t' c' Hin' Hle. exfalso. eapply N; eauto. rewrite Hlk. lia.
      + left. auto.
  Qed.

  Lemma add_checkpoint_sorted st t hash cw st' :
    cps_sorted (st_cps st) -> add_checkpoint st t hash cw = inr st' -> cps_sorted (st_cps st').
  Proof.
    intros Hs A. apply add_checkpoint_entries in A. destruct A as (_ & _ & _ & ->).
    apply set_sorted; first [exact n_eq|exact n_as|exact n_tr|exact Hs].
  Qed.

  (* ---------------------------------------------------------------- what an accepted checkpoint must contain *)

  Lemma art_eqb_eq a b : art_eqb a b = true -> a = b.
  Proof.
    destruct a as [c1 r1 p1 t1 rc1], b as [c2 r2 p2 t2 rc2]. unfold art_eqb; cbn.
    rewrite !andb_true_iff, !N.eqb_eq. intros [[[[-> ->] ->] ->] H].
    f_equal. destruct rc1 as [[x1 y1]|], rc2 as [[x2 y2]|]; cbn in H; try discriminate; [|reflexivity].
    apply andb_true_iff in H. rewrite !N.eqb_eq in H. destruct H as [-> ->]. reflexivity.
  Qed.

  (* the artifacts of ticks i, i+1, ... as dictated by the entries *)
  Fixpoint arts_spec (h : list entry) (i : N) (l : list art) : Prop :=
    match l with
    | [] => True
    | a :: r => (exists e p, nthN h i = Some e /\ e_patch e = Some p /\ artifacts i e p = inr a) /\
                arts_spec h (i + 1) r
    end.

  Lemma arts_spec_unique h : forall l1 l2 i,
    arts_spec h i l1 -> arts_spec h i l2 -> length l1 = length l2 -> l1 = l2.
  Proof.
    induction l1 as [|a1 r1 IH]; intros [|a2 r2] i H1 H2 Hl; cbn in Hl; try discriminate; [reflexivity|].
    cbn in H1, H2. destruct H1 as [(e1 & p1 & E1 & P1 & A1) S1], H2 as [(e2 & p2 & E2 & P2 & A2) S2].
    rewrite E1 in E2. inversion E2; subst e2. rewrite P1 in P2. inversion P2; subst p2.
    rewrite A1 in A2. inversion A2; subst a2. f_equal. eapply IH; eauto.
  Qed.

  Lemma arts_spec_app h : forall l1 l2 i,
    arts_spec h i l1 -> arts_spec h (i + N.of_nat (length l1)) l2 -> arts_spec h i (l1 ++ l2).
  Proof.
    induction l1 as [|a r IH]; intros l2 i H1 H2; cbn in *.
    - replace (i + 0) with i in H2 by lia. exact H2.
    - destruct H1 as [Ha Hr]. split; [exact Ha|]. apply IH; [exact Hr|].
      replace (i + 1 + N.of_nat (length r)) with (i + N.pos (Pos.of_succ_nat (length r))) by lia. exact H2.
  Qed.

  Lemma check_hist_spec h : forall l i,
    check_hist P p_digest_field p_digest_calc p_decision h i l = None -> arts_spec h i l.
  Proof.
    induction l as [|a r IH]; intros i H; cbn in *; [exact I|].
    destruct (nthN h i) as [e|] eqn:E; [|discriminate].
    destruct (e_patch e) as [p|] eqn:EP; [|discriminate].
    destruct (artifacts i e p) as [err|a'] eqn:A; [discriminate|].
    destruct (art_eqb a a') eqn:AE; [|discriminate]. apply art_eqb_eq in AE. subst a'.
    split; [exists e, p; auto|]. apply IH. exact H.
  Qed.

  Lemma advance_one_art i e w w' :
    advance_one i e w = (w', None) ->
    exists p a, e_patch e = Some p /\ artifacts i e p = inr a /\ ws_hist w' = ws_hist w ++ [a] /\
                ws_last w' = ws_last w /\ ws_mat w' = ws_mat w /\ ws_tx w' = ws_tx w.
  Proof.
    unfold Seek.advance_one. destruct (negb (e_tick e =? i)); [discriminate|].
    destruct (negb (parent_linked St P e w)); [discriminate|].
    destruct (e_patch e) as [p|]; [|discriminate].
    destruct (apply (ws_state w) p) as [s'|s']; [|discriminate].
    destruct (negb (root s' =? e_root e)); [discriminate|].
    destruct (negb (commit_hash (root s') (e_parents e) (e_pdig e) (p_policy p) =? e_commit e)); [discriminate|].
    destruct (artifacts i e p) as [err|a] eqn:A; [discriminate|].
    intros H; inversion H; subst; cbn. exists p, a. repeat split; auto.
  Qed.

  (* everything a successful loop of n >= 1 ticks establishes *)
  Lemma advance_loop_full h n : forall i w l w' l',
    advance_loop h n i w l = (w', l', None) ->
    exists arts, ws_hist w' = ws_hist w ++ arts /\ length arts = n /\ arts_spec h i arts /\
      (n <> O -> exists e, l' = Some e /\ nthN h (i + N.of_nat n - 1) = Some e /\ ws_root St root w' = e_root e).
  Proof.
    induction n as [|n IH]; intros i w l w' l' H.
    - cbn in H. inversion H; subst. exists []. rewrite app_nil_r. repeat split; auto. congruence.
    - cbn [Seek.advance_loop] in H. destruct (nthN h i) as [e|] eqn:E; [|discriminate].
      destruct (advance_one i e w) as [w1 [err|]] eqn:A1; [discriminate|].
      pose proof (advance_one_ok _ _ _ _ A1) as (_ & _ & _ & Hroot).
      pose proof (advance_one_art _ _ _ _ A1) as (p & a & EP & AR & Hh & _).
      pose proof (IH _ _ _ _ _ H) as (arts & Hh' & Hl & Hsp & Hlast).
      exists (a :: arts). split; [rewrite Hh', Hh, <- app_assoc; reflexivity|]. split; [cbn; congruence|].
      split; [cbn; split; [exists e, p; auto|exact Hsp]|].
      intros _. destruct n as [|n'].
      + cbn in H. inversion H; subst. exists e. split; [reflexivity|]. split; [|exact Hroot].
        replace (i + N.of_nat 1 - 1) with i by lia. exact E.
      + destruct Hlast as (e' & -> & Hn & Hr); [congruence|]. exists e'. split; [reflexivity|]. split; [|exact Hr].
        replace (i + N.of_nat (Datatypes.S (Datatypes.S n')) - 1) with (i + 1 + N.of_nat (Datatypes.S n') - 1) by lia.
        exact Hn.
  Qed.

  Lemma last_opt_app {A} (l : list A) x : last_opt (l ++ [x]) = Some x.
  Proof. unfold last_opt. destruct l as [|y l]; [reflexivity|]. cbn [app]. f_equal. apply last_last. Qed.

  (* closed description of the replayed state of tick t >= 1 *)
  Lemma replay_fields h b t w : t <> 0 -> replay h b t = (w, None) ->
    exists e, nthN h (t - 1) = Some e /\
      ws_root St root w = e_root e /\ ws_mat w = e_out e /\ ws_tx w = t /\ ws_last w = last_opt (ws_hist w) /\
      ws_last w <> None /\
      lenN (ws_hist w) = t /\ arts_spec h 0 (ws_hist w) /\ ws_warp w = ws_warp b /\ ws_init w = ws_init b.
  Proof.
    intros Ht R. pose proof (replay_tick _ _ _ _ R) as (Htk & Hw & Hi).
    rewrite replay_unfold in R by exact Ht.
    destruct (advance_loop h (N.to_nat t) 0 (base_from_initial St b) None) as [[w' l] [err|]] eqn:L; [discriminate|].
    inversion R; subst w. clear R.
    pose proof (advance_loop_full _ _ _ _ _ _ _ L) as (arts & Hh & Hl & Hsp & Hlast).
    destruct Hlast as (e & -> & Hn & Hr); [lia|]. cbn [base_from_initial ws_hist app] in Hh.
    exists e. replace (0 + N.of_nat (N.to_nat t) - 1) with (t - 1) in Hn by lia.
    unfold Seek.finalize in *. destruct (t =? 0) eqn:E; [apply N.eqb_eq in E; lia|].
    unfold ws_root in *. cbn in *. rewrite Hh. repeat split; auto.
    - destruct arts as [|a r]; [cbn in Hl; lia|]. cbn. discriminate.
    - unfold lenN. rewrite Hl. lia.
  Qed.

  Record same_but_roots (cw w : wstate) : Prop := {
    sr_warp : ws_warp cw = ws_warp w;
    sr_hist : ws_hist cw = ws_hist w;
    sr_last : ws_last cw = ws_last w;
    sr_mat : ws_mat cw = ws_mat w;
    sr_tx : ws_tx cw = ws_tx w;
    sr_state_root : root (ws_state cw) = root (ws_state w);
    sr_init_root : root (ws_init cw) = root (ws_init w)
  }.

  Lemma opt_art_eqb_eq a b : opt_art_eqb a b = true -> a = b.
  Proof. destruct a, b; cbn; try discriminate; auto. intros H. apply art_eqb_eq in H. congruence. Qed.

  (* checkpoint_sound: whatever add_checkpoint accepts for tick t agrees with the replayed state of tick t on
     every field; the two graph components (state, U0) are pinned through their roots *)
  Theorem checkpoint_sound_lemma st b t hash cw st' w :
    verifies (st_entries st) b -> base_ok st b ->
    add_checkpoint st t hash cw = inr st' ->
    replay (st_entries st) b t = (w, None) ->
    t <= st_len St P st /\ hash = ws_root St root cw /\ same_but_roots cw w.
  Proof.
    intros V [Hcanon Hbase] A R. unfold Seek.add_checkpoint in A.
    destruct (validate_checkpoint st t hash cw) eqn:VC; [discriminate|]. clear A.
    unfold Seek.validate_checkpoint in VC.
    destruct (st_len St P st <? t) eqn:EL; [discriminate|]. apply N.ltb_ge in EL.
    destruct (ws_warp cw =? st_u0 st) eqn:EW; cbn [negb] in VC; [|discriminate]. apply N.eqb_eq in EW.
    destruct (root (ws_init cw) =? st_boundary st) eqn:EB; cbn [negb] in VC; [|discriminate]. apply N.eqb_eq in EB.
    destruct (ws_root St root cw =? hash) eqn:EH; cbn [negb] in VC; [|discriminate]. apply N.eqb_eq in EH.
    unfold Seek.validate_base in Hbase.
    destruct (ws_warp b =? st_u0 st) eqn:BW; cbn [negb] in Hbase; [|discriminate]. apply N.eqb_eq in BW.
    destruct (root (ws_init b) =? st_boundary st) eqn:BB; cbn [negb] in Hbase; [|discriminate]. apply N.eqb_eq in BB.
    split; [exact EL|]. split; [auto|].
    destruct (expected_root_at St P st t) as [expected|] eqn:EX; [|discriminate].
    destruct (ws_root St root cw =? expected) eqn:ER; cbn [negb] in VC; [|discriminate]. apply N.eqb_eq in ER.
    destruct (lenN (ws_hist cw) =? t) eqn:ELn; cbn [negb] in VC; [|discriminate]. apply N.eqb_eq in ELn.
    destruct (ws_tx cw =? t) eqn:ETx; cbn [negb] in VC; [|discriminate]. apply N.eqb_eq in ETx.
    unfold Seek.expected_root_at in EX.
    destruct (N.eq_dec t 0) as [->|Ht].
    - cbn in EX. inversion EX; subst expected. cbn [N.eqb] in VC.
      destruct (ws_last cw) eqn:LA; [discriminate|].
      destruct (ws_mat cw =? 0) eqn:EM; cbn [negb] in VC; [|discriminate]. apply N.eqb_eq in EM.
      rewrite replay_zero in R. inversion R; subst w. unfold ws_root in *.
      constructor; cbn; try congruence.
      destruct (ws_hist cw); [reflexivity|]. unfold lenN in ELn. cbn in ELn. lia.
    - destruct (t =? 0) eqn:E0; [apply N.eqb_eq in E0; lia|].
      destruct (nthN (st_entries st) (t - 1)) as [le|] eqn:EN; [|discriminate]. inversion EX; subst expected.
      destruct (check_hist P p_digest_field p_digest_calc p_decision (st_entries st) 0 (ws_hist cw)) eqn:CH; [discriminate|].
      destruct (ws_mat cw =? e_out le) eqn:EM; cbn [negb] in VC; [|discriminate]. apply N.eqb_eq in EM.
      destruct (opt_art_eqb (ws_last cw) (last_opt (ws_hist cw))) eqn:LA; cbn [andb] in VC; [|discriminate].
      apply opt_art_eqb_eq in LA.
      pose proof (replay_fields _ _ _ _ Ht R) as (e & En & Hr & Hm & Htx & Hla & _ & Hlen & Hsp & Hw & Hi).
      rewrite EN in En. inversion En; subst e.
      assert (Hhist : ws_hist cw = ws_hist w).
      { eapply arts_spec_unique; [apply check_hist_spec; exact CH|exact Hsp|].
        unfold lenN in *. lia. }
      unfold ws_root in *. constructor; try congruence.
  Qed.

  Definition RootCollision : Prop := exists s1 s2 : St, s1 <> s2 /\ root s1 = root s2.

  Lemma same_roots_eq_or_collision (St_eq_dec : forall a b : St, {a = b} + {a <> b}) cw w :
    same_but_roots cw w -> cw = w \/ RootCollision.
  Proof.
    intros [H1 H2 H3 H4 H5 H6 H7].
    destruct (St_eq_dec (ws_state cw) (ws_state w)) as [Es|Ns]; [|right; exists (ws_state cw), (ws_state w); auto].
    destruct (St_eq_dec (ws_init cw) (ws_init w)) as [Ei|Ni]; [|right; exists (ws_init cw), (ws_init w); auto].
    left. destruct cw, w; cbn in *; congruence.
  Qed.

  (* ---------------------------------------------------------------- arbitrary (foreign) checkpoints *)

  Lemma run_op_inv_foreign (St_eq_dec : forall a b : St, {a = b} + {a <> b}) b st c o :
    base_ok st b ->
    verifies (st_entries st) b -> cps_valid st b -> cursor_inv st b c ->
    (let '(st', c') := fst (run_op b (st, c) o) in
     st_entries st' = st_entries st /\ st_u0 st' = st_u0 st /\ st_boundary st' = st_boundary st /\
     cps_valid st' b /\ cursor_inv st' b c') \/ RootCollision.
  Proof.
    intros BO V CV I. destruct o.
    - left. pose proof (run_op_inv b st c (OSeek St t) Logic.I V CV I) as H. cbn [Seek.run_op] in *.
      destruct (seek_to st b c t) as [c' e]. cbn in *. tauto.
    - left. pose proof (run_op_inv b st c (OStep St) Logic.I V CV I) as H. cbn [Seek.run_op] in *.
      destruct (step st b c) as [c' e]. cbn in *. tauto.
    - left. cbn. tauto.
    - left. cbn. tauto.
    - left. cbn. tauto.
    - left. pose proof (run_op_inv b st c (OCheckpointHere St) Logic.I V CV I) as H. cbn [Seek.run_op] in *.
      destruct (checkpoint_from_state st (c_ws c)) as [e|st'] eqn:A; cbn in *; [tauto|].
      unfold Seek.checkpoint_from_state in A. apply add_checkpoint_entries in A. tauto.
    - cbn [Seek.run_op]. destruct (add_checkpoint st tick hash cw) as [e|st'] eqn:A; cbn [fst].
      + left. auto.
      + pose proof (add_checkpoint_entries _ _ _ _ _ A) as (He & Hu & Hb & Hc).
        assert (Hle : tick <= st_len St P st).
        { unfold Seek.add_checkpoint in A. destruct (validate_checkpoint st tick hash cw) eqn:VC; [discriminate|].
          unfold Seek.validate_checkpoint in VC. destruct (st_len St P st <? tick) eqn:EL; [discriminate|].
          apply N.ltb_ge in EL. exact EL. }
        pose proof (verifies_upto _ _ tick V Hle) as Vt.
        destruct (replay (st_entries st) b tick) as [w et] eqn:R. cbn in Vt; subst et.
        pose proof (checkpoint_sound_lemma _ _ _ _ _ _ _ V BO A R) as (_ & _ & SR).
        destruct (same_roots_eq_or_collision St_eq_dec _ _ SR) as [->|Col]; [|right; exact Col].
        left. split; [exact He|]. split; [exact Hu|]. split; [exact Hb|]. split.
        * eapply add_valid_checkpoint; eauto.
        * destruct I as [I1 I2]. split; [unfold Seek.st_len; rewrite He; exact I1|rewrite He; exact I2].
  Qed.

  Theorem run_ops_inv_foreign (St_eq_dec : forall a b : St, {a = b} + {a <> b}) b ops : forall st c,
    base_ok st b ->
    verifies (st_entries st) b -> cps_valid st b -> cursor_inv st b c ->
    (let '(st', c') := fst (run_ops b (st, c) ops) in
     st_entries st' = st_entries st /\ cps_valid st' b /\ cursor_inv st' b c') \/ RootCollision.
  Proof.
    induction ops as [|o r IH]; intros st c BO V CV I; cbn [Seek.run_ops].
    - left. cbn. auto.
    - destruct (run_op_inv_foreign St_eq_dec b st c o BO V CV I) as [H1|Col]; [|right; exact Col].
      destruct (run_op b (st, c) o) as [[st1 c1] out]. cbn [fst] in H1. destruct H1 as (He & Hu & Hb & CV1 & I1).
      assert (V1 : verifies (st_entries st1) b) by (rewrite He; exact V).
      assert (BO1 : base_ok st1 b).
      { destruct BO as [B1 B2]. split; [exact B1|]. unfold Seek.validate_base in *. rewrite Hu, Hb. exact B2. }
      destruct (IH st1 c1 BO1 V1 CV1 I1) as [H2|Col]; [|right; exact Col].
      left. destruct (run_ops b (st1, c1) r) as [[st2 c2] outs]. cbn [fst] in *. destruct H2 as (He2 & CV2 & I2).
      split; [congruence|]. auto.
  Qed.

  Theorem seek_path_independent_foreign_lemma (St_eq_dec : forall a b : St, {a = b} + {a <> b}) st b r pin ops :
    base_ok st b -> verifies (st_entries st) b -> cps_valid st b ->
    (let c := snd (fst (run_ops b (st, new_cursor St r b pin) ops)) in
     c_tick c <= st_len St P st /\ replay (st_entries st) b (c_tick c) = (c_ws c, None)) \/ RootCollision.
  Proof.
    intros BO V CV. pose proof BO as [Hb _].
    destruct (run_ops_inv_foreign St_eq_dec b ops st _ BO V CV (new_cursor_inv st b r pin Hb)) as [H|Col];
      [left|right; exact Col].
    destruct (run_ops b (st, new_cursor St r b pin) ops) as [[st' c'] outs]. cbn [fst snd] in *.
    destruct H as (He & _ & [H1 H2]). unfold Seek.st_len in *. rewrite He in *. auto.
  Qed.

  (* ---------------------------------------------------------------- the live run records a verifying history *)

  Definition patch_wf (p : P) : Prop := p_digest_calc p = p_digest_field p.

  Lemma live_run_length ps : forall s i parent es ss,
    live_run s i parent ps = Some (es, ss) -> length es = length ps /\ length ss = length ps.
  Proof.
    induction ps as [|[p out] r IH]; intros s i parent es ss H; cbn in H.
    - inversion H; subst. auto.
    - destruct (apply s p) as [s'|s']; [|discriminate].
      destruct (live_run s' (i + 1) _ r) as [[es' ss']|] eqn:L; [|discriminate].
      inversion H; subst. apply IH in L. cbn. destruct L. split; congruence.
  Qed.

  (* the state's last replayed commit is the tip the live run appends onto *)
  Definition tip_is (w : wstate) (parent : option N) : Prop :=
    match parent with
    | Some c => exists a, last_opt (ws_hist w) = Some a /\ a_commit a = c
    | None => ws_hist w = []
    end.

  Lemma live_run_loop ps : forall n s i parent es ss pre w l,
    live_run s i parent ps = Some (es, ss) ->
    Forall (fun po => patch_wf (fst po)) ps ->
    lenN pre = i -> i + N.of_nat (length ps) < u64_max -> ws_state w = s -> (n <= length ps)%nat ->
    tip_is w parent ->
    exists w' l', advance_loop (pre ++ es) n i w l = (w', l', None) /\ ws_state w' = nth n (s :: ss) s.
  Proof.
    induction ps as [|[p out] r IH]; intros n s i parent es ss pre w l H WF Hpre Hlt Hw Hn Htip.
    - cbn in Hn. assert (n = O) by lia. subst n. cbn. eauto.
    - destruct n as [|n']; [cbn; eauto|].
      cbn [Seek.live_run] in H. destruct (apply s p) as [s'|s'] eqn:AP; [|discriminate].
      remember (record_entry i s' parent p out) as e.
      destruct (live_run s' (i + 1) (Some (e_commit e)) r) as [[es' ss']|] eqn:L; [|discriminate].
      inversion H; subst es ss. clear H.
      apply Forall_cons_iff in WF. destruct WF as [WF1 WF2]. cbn [fst] in WF1. unfold patch_wf in WF1.
      cbn [Seek.advance_loop].
      assert (En : nthN (pre ++ e :: es') i = Some e).
      { unfold nthN. rewrite nth_error_app2 by (unfold lenN in Hpre; lia).
        replace (N.to_nat i - length pre)%nat with O by (unfold lenN in Hpre; lia). reflexivity. }
      rewrite En.
      assert (A1 : exists a, advance_one i e w = (push_art St (set_state St w s') a, None) /\ a_commit a = e_commit e).
      { clear L En. subst e. unfold Seek.advance_one. cbn [e_tick Seek.record_entry]. rewrite N.eqb_refl. cbn [negb].
        assert (PL : parent_linked St P (record_entry i s' parent p out) w = true).
        { unfold Seek.parent_linked. cbn [e_parents Seek.record_entry]. destruct parent as [c|]; cbn in Htip.
          - destruct Htip as (a0 & -> & <-). cbn. rewrite N.eqb_refl. reflexivity.
          - rewrite Htip. reflexivity. }
        rewrite PL. cbn [negb].
        cbn [e_patch Seek.record_entry]. rewrite Hw, AP.
        cbn [e_root e_parents e_pdig e_commit Seek.record_entry]. rewrite !N.eqb_refl. cbn [negb].
        unfold Seek.artifacts. cbn [e_pdig e_receipt e_commit e_root Seek.record_entry].
        rewrite N.eqb_refl, WF1, N.eqb_refl. cbn [negb].
        unfold checked_increment. cbn [length] in Hlt.
        assert (Hi : i <? u64_max = true) by (apply N.ltb_lt; lia). rewrite Hi. rewrite !N.eqb_refl. cbn [negb].
        eexists. split; [reflexivity|]. reflexivity. }
      destruct A1 as (a & A1 & Ha). rewrite A1.
      cbn [length] in Hlt, Hn.
      destruct (IH n' s' (i + 1) (Some (e_commit e)) es' ss' (pre ++ [e]) (push_art St (set_state St w s') a) (Some e) L WF2)
        as (w' & l' & Hloop & Hst).
      + rewrite lenN_app. unfold lenN at 2. cbn. lia.
      + lia.
      + reflexivity.
      + lia.
      + cbn. exists a. split; [apply last_opt_app|exact Ha].
      + rewrite <- app_assoc in Hloop. cbn [app] in Hloop. exists w', l'. split; [exact Hloop|].
        change (nth (Datatypes.S n') (s :: s' :: ss') s) with (nth n' (s' :: ss') s). rewrite Hst. apply nth_indep.
        apply live_run_length in L. destruct L as [_ Hss]. cbn [length]. lia.
  Qed.

  (* The history appended by the live run verifies, and replaying it to tick t yields the graph state the live
     run held after t commits (patches are well formed: stored digest = recomputed digest). *)
  Theorem live_run_replays_lemma s ps es ss b :
    live_run s 0 None ps = Some (es, ss) ->
    Forall (fun po => patch_wf (fst po)) ps -> lenN ps < u64_max -> ws_init b = s ->
    verifies es b /\
    forall t, t <= lenN es -> ws_state (fst (replay es b t)) = nth (N.to_nat t) (s :: ss) s.
  Proof.
    intros L WF Hlt Hb.
    pose proof (live_run_length _ _ _ _ _ _ L) as [Hle _].
    assert (Key : forall t, t <= lenN es -> t <> 0 ->
              snd (replay es b t) = None /\ ws_state (fst (replay es b t)) = nth (N.to_nat t) (s :: ss) s).
    { intros t Ht H0. rewrite replay_unfold by exact H0.
      destruct (live_run_loop ps (N.to_nat t) s 0 None es ss [] (base_from_initial St b) None L WF) as (w' & l' & Hloop & Hst).
      - reflexivity.
      - unfold lenN in Hlt. lia.
      - exact Hb.
      - unfold lenN in Ht. lia.
      - reflexivity.
      - cbn [app] in Hloop. rewrite Hloop. cbn [fst snd]. split; [reflexivity|].
        unfold Seek.finalize. destruct (t =? 0); cbn; exact Hst. }
    split.
    - unfold verifies. destruct (N.eq_dec (lenN es) 0) as [E|E]; [rewrite E; reflexivity|].
      apply Key; [lia|exact E].
    - intros t Ht. destruct (N.eq_dec t 0) as [->|H0]; [rewrite replay_zero; cbn; exact Hb|].
      apply Key; assumption.
  Qed.

End SeekProofs.
