(* Lemmas about Model/Wal.v, part 4 (C10): every byte prefix of a valid log recovers to exactly the
   transactions whose commit marker lies wholly inside the prefix. *)
From Coq Require Import List NArith Lia Bool Arith.
From Echo Require Import Base.Bytes Model.Wal Proofs.WalProofs Proofs.WalProofs2.
Import ListNotations.
Open Scope N_scope.

(* ------------------------------------------------------------------ prefix bookkeeping *)
Section Within.
Context {A : Type}.
Variable sz : A -> nat.
Hypothesis sz_pos : forall x, (0 < sz x)%nat.

Fixpoint total (l : list A) : nat := match l with [] => 0%nat | x :: r => (sz x + total r)%nat end.

Lemma total_app a b : total (a ++ b) = (total a + total b)%nat.
Proof. induction a; cbn [total app]; lia. Qed.

Lemma ww_app_ge a b k : (total a <= k)%nat ->
  whole_within sz k (a ++ b) = a ++ whole_within sz (k - total a) b.
Proof.
  revert k; induction a as [|x a IH]; intros k Hk; cbn [total app whole_within] in *.
  - rewrite Nat.sub_0_r. reflexivity.
  - replace (Nat.leb (sz x) k) with true by (symmetry; apply Nat.leb_le; lia).
    rewrite IH by lia. f_equal. f_equal. f_equal. lia.
Qed.
Lemma ww_app_lt a b k : (k < total a)%nat -> whole_within sz k (a ++ b) = whole_within sz k a.
Proof.
  revert k; induction a as [|x a IH]; intros k Hk; cbn [total app whole_within] in *; [lia|].
  destruct (Nat.leb (sz x) k) eqn:E; [|reflexivity].
  apply Nat.leb_le in E. rewrite IH by lia. reflexivity.
Qed.
Lemma ob_app_ge a b k : (total a <= k)%nat ->
  on_boundary sz k (a ++ b) = on_boundary sz (k - total a) b.
Proof.
  revert k; induction a as [|x a IH]; intros k Hk; cbn [total app on_boundary] in *.
  - rewrite Nat.sub_0_r. reflexivity.
  - pose proof (sz_pos x). destruct k as [|k']; [lia|].
    replace (Nat.leb (sz x) (S k')) with true by (symmetry; apply Nat.leb_le; lia).
    rewrite IH by lia. f_equal. lia.
Qed.
Lemma ob_app_lt a b k : (k < total a)%nat -> on_boundary sz k (a ++ b) = on_boundary sz k a.
Proof.
  revert k; induction a as [|x a IH]; intros k Hk; cbn [total app on_boundary] in *; [lia|].
  destruct k as [|k']; [reflexivity|].
  destruct (Nat.leb (sz x) (S k')) eqn:E; [|reflexivity].
  apply Nat.leb_le in E. rewrite IH by lia. reflexivity.
Qed.
(* a strict prefix of l ++ [z] never contains z *)
Lemma ww_snoc_lt l z k : (k < total (l ++ [z]))%nat ->
  exists m, whole_within sz k (l ++ [z]) = firstn m l.
Proof.
  revert k; induction l as [|x l IH]; intros k Hk; cbn [total app whole_within] in *.
  - exists 0%nat. replace (Nat.leb (sz z) k) with false by (symmetry; apply Nat.leb_gt; lia). reflexivity.
  - destruct (Nat.leb (sz x) k) eqn:E; [|exists 0%nat; reflexivity].
    apply Nat.leb_le in E. destruct (IH (k - sz x)%nat) as [m Hm]; [lia|].
    exists (S m). rewrite Hm. reflexivity.
Qed.
Lemma ww_0 l : whole_within sz 0 l = [].
Proof.
  destruct l as [|x l]; [reflexivity|]. cbn [whole_within]. pose proof (sz_pos x).
  replace (Nat.leb (sz x) 0) with false by (symmetry; apply Nat.leb_gt; lia). reflexivity.
Qed.
Lemma ww_prefix l k : exists rest, l = whole_within sz k l ++ rest.
Proof.
  revert k; induction l as [|x l IH]; intros k; cbn [whole_within]; [exists []; reflexivity|].
  destruct (Nat.leb (sz x) k); [|exists (x :: l); reflexivity].
  destruct (IH (k - sz x)%nat) as [rest Hr]. exists rest. cbn [app]. f_equal. exact Hr.
Qed.
End Within.

Section WithHash.
Variable H : bytes -> N.

Notation tx_valid := (tx_valid H).
Notation log_valid := (log_valid H).
Notation fr_ok := (fr_ok H).
Notation tx_size := (tx_size H).

Lemma lrec_size_pos r : (0 < lrec_size r)%nat.
Proof. unfold lrec_size. lia. Qed.

Lemma encode_log_total rs : length (encode_log H rs) = total lrec_size rs.
Proof.
  induction rs as [|r rs IH]; [reflexivity|].
  unfold encode_log in *. cbn [flat_map total]. rewrite app_length, IH.
  unfold enc_lrec. rewrite enc_rec_length. reflexivity.
Qed.
Lemma tx_size_total t : tx_size t = total lrec_size (tx_recs t).
Proof. unfold Wal.tx_size. apply encode_log_total. Qed.
Lemma tx_size_pos t : (0 < tx_size t)%nat.
Proof.
  rewrite tx_size_total. unfold tx_recs. rewrite total_app. cbn [total]. unfold lrec_size. lia.
Qed.
Lemma log_recs_cons t ts : log_recs (t :: ts) = tx_recs t ++ log_recs ts.
Proof. reflexivity. Qed.

(* frames / commits of record lists *)
Lemma frames_of_app a b : frames_of (a ++ b) = frames_of a ++ frames_of b.
Proof. unfold frames_of. apply flat_map_app. Qed.
Lemma commits_of_app a b : commits_of (a ++ b) = commits_of a ++ commits_of b.
Proof. unfold commits_of. apply flat_map_app. Qed.
Lemma frames_of_frames fs : frames_of (map LFrame fs) = fs.
Proof. induction fs; cbn; [reflexivity|]. f_equal. assumption. Qed.
Lemma commits_of_frames fs : commits_of (map LFrame fs) = [].
Proof. induction fs; cbn; auto. Qed.
Lemma frames_of_tx t : frames_of (tx_recs t) = w_frames t.
Proof. unfold tx_recs. rewrite frames_of_app, frames_of_frames. cbn. apply app_nil_r. Qed.
Lemma commits_of_tx t : commits_of (tx_recs t) = [w_commit t].
Proof. unfold tx_recs. rewrite commits_of_app, commits_of_frames. reflexivity. Qed.
Lemma frames_of_log ts : frames_of (log_recs ts) = log_frames ts.
Proof.
  induction ts as [|t ts IH]; [reflexivity|].
  rewrite log_recs_cons, frames_of_app, frames_of_tx, IH. reflexivity.
Qed.
Lemma commits_of_log ts : commits_of (log_recs ts) = map w_commit ts.
Proof.
  induction ts as [|t ts IH]; [reflexivity|].
  rewrite log_recs_cons, commits_of_app, commits_of_tx, IH. reflexivity.
Qed.

(* the frames of the transaction that the prefix cuts (its commit marker is not inside k) *)
Fixpoint tail_frames (k : nat) (ts : list wtx) : list frame :=
  match ts with
  | [] => []
  | t :: r => if Nat.leb (tx_size t) k then tail_frames (k - tx_size t) r
              else frames_of (whole_within lrec_size k (tx_recs t))
  end.

Lemma ww_tx_cut t k : (k < tx_size t)%nat ->
  exists m, whole_within lrec_size k (tx_recs t) = map LFrame (firstn m (w_frames t)).
Proof.
  intros Hk. rewrite tx_size_total in Hk. unfold tx_recs in *.
  destruct (ww_snoc_lt lrec_size (map LFrame (w_frames t)) (LCommit (w_commit t)) k Hk) as [m Hm].
  exists m. rewrite Hm. apply firstn_map.
Qed.

Lemma ww_log ts : forall k,
  whole_within lrec_size k (log_recs ts) =
  log_recs (whole_within tx_size k ts) ++ map LFrame (tail_frames k ts).
Proof.
  induction ts as [|t ts IH]; intros k; [reflexivity|].
  rewrite log_recs_cons. cbn [whole_within tail_frames].
  destruct (Nat.leb (tx_size t) k) eqn:E.
  - apply Nat.leb_le in E. rewrite ww_app_ge by (rewrite <- tx_size_total; exact E).
    rewrite <- tx_size_total, IH, log_recs_cons, <- app_assoc. reflexivity.
  - apply Nat.leb_gt in E. rewrite ww_app_lt by (rewrite <- tx_size_total; exact E).
    destruct (ww_tx_cut t k E) as [m Hm]. rewrite Hm, frames_of_frames. reflexivity.
Qed.

Lemma in_firstn {X} (x : X) m l : In x (firstn m l) -> In x l.
Proof. intros Hx. rewrite <- (firstn_skipn m l). apply in_or_app. left. exact Hx. Qed.

Lemma consec_firstn l fs m : consec l fs -> consec l (firstn m fs).
Proof.
  revert l m; induction fs as [|f fs IH]; intros l m Hc; destruct m; cbn [firstn consec] in *; auto.
  destruct Hc as [Hf Hc]. split; auto.
Qed.

Lemma log_valid_prefix ts : forall l0 k, log_valid l0 ts -> log_valid l0 (whole_within tx_size k ts).
Proof.
  induction ts as [|t ts IH]; intros l0 k Hv; cbn [whole_within]; [exact Hv|].
  apply log_valid_cons in Hv. destruct Hv as (Ht & Hc & Hr).
  destruct (Nat.leb (tx_size t) k); [|split; [constructor|exact I]].
  apply log_valid_cons. auto.
Qed.

Lemma tail_frames_ok ts : forall l0 k, log_valid l0 ts ->
  consec (l0 + lenN (log_frames (whole_within tx_size k ts))) (tail_frames k ts) /\
  Forall fr_ok (tail_frames k ts) /\
  incl (log_frames (whole_within tx_size k ts) ++ tail_frames k ts) (log_frames ts).
Proof.
  induction ts as [|t ts IH]; intros l0 k Hv; cbn [whole_within tail_frames].
  - repeat split; [constructor|intros x Hx; exact Hx].
  - apply log_valid_cons in Hv. destruct Hv as (Ht & Hc & Hr).
    destruct (tx_valid_shape H t Ht) as (Hn & Hcs & Ho & _ & Hl).
    destruct (Nat.leb (tx_size t) k) eqn:E.
    + destruct (IH _ (k - tx_size t)%nat Hr) as (Hc' & Ho' & Hi').
      rewrite !log_frames_cons, lenN_app. repeat split; auto.
      * replace (l0 + (lenN (w_frames t) + lenN (log_frames (whole_within tx_size (k - tx_size t) ts))))
          with (c_last (w_commit t) + 1 + lenN (log_frames (whole_within tx_size (k - tx_size t) ts))) by lia.
        exact Hc'.
      * rewrite <- app_assoc. intros x Hx. apply in_app_or in Hx. apply in_or_app.
        destruct Hx as [Hx|Hx]; [left; exact Hx|right; apply Hi'; exact Hx].
    + apply Nat.leb_gt in E. destruct (ww_tx_cut t k E) as [m Hm]. rewrite Hm, frames_of_frames.
      cbn [log_frames flat_map app]. unfold lenN at 1. cbn [length]. rewrite N.add_0_r.
      repeat split.
      * apply consec_firstn. rewrite <- Hc. exact Hcs.
      * apply Forall_forall. intros x Hx. rewrite Forall_forall in Ho. apply Ho.
        eapply in_firstn; eauto.
      * intros x Hx. apply in_or_app. left. eapply in_firstn; eauto.
Qed.

(* transaction boundary = record boundary with no frame of an uncommitted transaction inside *)
Lemma ob_log ts : forall l0 k, log_valid l0 ts ->
  on_boundary tx_size k ts =
  on_boundary lrec_size k (log_recs ts) && match tail_frames k ts with [] => true | _ => false end.
Proof.
  induction ts as [|t ts IH]; intros l0 k Hv; [reflexivity|].
  apply log_valid_cons in Hv. destruct Hv as (Ht & Hc & Hr).
  destruct (tx_valid_shape H t Ht) as (Hn & _).
  rewrite log_recs_cons. cbn [on_boundary tail_frames].
  destruct k as [|k'].
  - cbn [Nat.leb]. pose proof (tx_size_pos t).
    replace (Nat.leb (tx_size t) 0) with false by (symmetry; apply Nat.leb_gt; lia).
    rewrite (ww_0 lrec_size lrec_size_pos). cbn [frames_of flat_map].
    destruct (tx_recs t ++ log_recs ts); reflexivity.
  - set (k := S k') in *.
    destruct (Nat.leb (tx_size t) k) eqn:E.
    + apply Nat.leb_le in E.
      rewrite (ob_app_ge lrec_size lrec_size_pos) by (rewrite <- tx_size_total; exact E).
      rewrite <- tx_size_total. apply (IH _ _ Hr).
    + apply Nat.leb_gt in E.
      rewrite (ob_app_lt lrec_size) by (rewrite <- tx_size_total; exact E).
      destruct (ww_tx_cut t k E) as [m Hm]. rewrite Hm, frames_of_frames.
      destruct (firstn m (w_frames t)) as [|f0 fr] eqn:Ef; [|rewrite andb_false_r; reflexivity].
      rewrite andb_true_r. symmetry.
      (* no whole frame inside k although the transaction has one: k is inside the first record *)
      destruct (w_frames t) as [|f fs] eqn:Efs; [congruence|].
      unfold tx_recs in *. rewrite Efs in *. cbn [map app on_boundary whole_within] in *.
      unfold k in *.
      destruct (Nat.leb (lrec_size (LFrame f)) (S k')) eqn:E1; [|reflexivity].
      exfalso. destruct m; cbn [firstn map] in Hm; discriminate.
Qed.

Lemma max_commit_snoc l x :
  max_commit_lsn (l ++ [x]) =
  Some (match max_commit_lsn l with None => c_last (fst x) | Some m => N.max m (c_last (fst x)) end).
Proof.
  unfold max_commit_lsn. rewrite fold_left_app. cbn [fold_left]. unfold max_step at 1.
  destruct (fold_left max_step l None); reflexivity.
Qed.

Lemma max_commit_is_last ts : forall l0, log_valid l0 ts ->
  max_commit_lsn (map rtx_of ts) = last_commit_lsn (map w_commit ts).
Proof.
  induction ts as [|t ts IH] using rev_ind; intros l0 Hv; [reflexivity|].
  rewrite !map_app. cbn [map]. rewrite last_commit_lsn_snoc, max_commit_snoc.
  destruct (log_valid_app H _ _ _ Hv) as [Ha Ht].
  rewrite (IH _ Ha). cbn [rtx_of fst].
  apply log_valid_cons in Ht. destruct Ht as (Htv & Hf & _).
  destruct (tx_valid_shape H t Htv) as (Hn & _ & _ & _ & Hl).
  assert (Hpos : 1 <= lenN (w_frames t)).
  { destruct (w_frames t); [congruence|]. rewrite lenN_cons. lia. }
  destruct ts as [|t' ts' _] using rev_ind; [reflexivity|].
  rewrite map_app. cbn [map]. rewrite last_commit_lsn_snoc.
  pose proof (log_valid_last H _ _ _ Ha) as Hl'.
  f_equal. apply N.max_r. lia.
Qed.

(* ------------------------------------------------------------------ C10 recover_prefix *)
Definition prefix_tail (k : nat) (ts : list wtx) : tail :=
  if on_boundary tx_size k ts then TClean
  else match last_commit_lsn (map w_commit (whole_within tx_size k ts)) with
       | Some l => TAfter l
       | None => TAll
       end.

Theorem recover_segment_prefix sid l0 ts k :
  log_valid l0 ts ->
  Forall (fun f => f_seg f = sid) (log_frames ts) ->
  Forall payload_small (log_recs ts) ->
  recover_segment H sid (firstn k (log_bytes H ts)) =
  Ok (map rtx_of (whole_within tx_size k ts), prefix_tail k ts).
Proof.
  intros Hv Hseg Hsmall.
  unfold recover_segment, log_bytes.
  rewrite read_segment_prefix; [|clear Hseg Hsmall|exact Hsmall].
  2:{ (* every record of a valid log is well formed *)
      destruct Hv as [Hall _]. unfold log_recs. apply Forall_flat_map. eapply Forall_impl; [|exact Hall].
      cbv beta. intros t (Hwf & Hwc & Hvt).
      assert (Ho : Forall fr_ok (w_frames t)).
      { destruct (tx_valid_shape H t (conj Hwf (conj Hwc Hvt))) as (_ & _ & Ho & _). exact Ho. }
      unfold tx_recs. apply Forall_app. split; [|constructor; [exact Hwc|constructor]].
      apply Forall_map. rewrite Forall_forall in *. intros f Hf. split; [apply Hwf; exact Hf|].
      unfold frame_ok. specialize (Ho f Hf). unfold WalProofs2.fr_ok in Ho. rewrite Ho. reflexivity. }
  cbv beta iota.
  rewrite ww_log, frames_of_app, commits_of_app, frames_of_log, commits_of_log,
          frames_of_frames, commits_of_frames, app_nil_r.
  set (cts := whole_within tx_size k ts).
  set (fr := tail_frames k ts).
  destruct (tail_frames_ok ts l0 k Hv) as (Hc & Ho & Hi). fold cts fr in Hc, Ho, Hi.
  assert (Hs : existsb (fun f => negb (f_seg f =? sid)) (log_frames cts ++ fr) = false).
  { apply existsb_none. apply Forall_forall. intros f Hf. rewrite Forall_forall in Hseg.
    rewrite (Hseg f (Hi f Hf)), N.eqb_refl. reflexivity. }
  rewrite Hs.
  pose proof (log_valid_prefix ts l0 k Hv) as Hvc. fold cts in Hvc.
  rewrite (recover_fc_log H l0 cts fr Hvc Hc Ho). cbv beta iota.
  f_equal. unfold torn_adjust, prefix_tail, expected_tail.
  rewrite (ob_log ts l0 k Hv). fold fr cts.
  destruct fr as [|f0 fr'].
  - rewrite andb_true_r. destruct (on_boundary lrec_size k (log_recs ts)); cbn [negb]; [reflexivity|].
    rewrite (max_commit_is_last cts l0 Hvc). reflexivity.
  - rewrite andb_false_r. destruct (last_commit_lsn (map w_commit cts)); reflexivity.
Qed.

End WithHash.
