(* Lemmas about Model/Cas.v (C20). *)
From Coq Require Import List NArith Lia Bool.
From Echo Require Import Base.FinMap Base.Order Base.Bytes Model.Cas.
Import ListNotations.
Open Scope N_scope.

(* ------------------------------------------------------------------ generic map facts (N keys) *)
Definition n_eq := ol_eq _ N_order.
Definition n_as := ol_antisym _ N_order.
Definition n_tr := ol_trans _ N_order.
Ltac fmn := try exact n_eq; try exact n_as; try exact n_tr.

Notation nsorted := (sorted N.compare).
Notation nfind := (find N.compare).
Notation nset := (set N.compare).
Notation ndel := (del N.compare).

Section NMap.
  Context {V : Type}.
  Implicit Types (m : list (N * V)) (h : N) (v : V).

  Lemma nfind_set_same h v m : nfind h (nset h v m) = Some v.
  Proof. apply find_set_same; fmn. Qed.
  Lemma nfind_set_other h h' v m : h' <> h -> nfind h' (nset h v m) = nfind h' m.
  Proof. apply find_set_other; fmn. Qed.
  Lemma nfind_del_same h m : nsorted m -> nfind h (ndel h m) = None.
  Proof. apply find_del_same; fmn. Qed.
  Lemma nfind_del_other h h' m : h' <> h -> nfind h' (ndel h m) = nfind h' m.
  Proof. apply find_del_other; fmn. Qed.
  Lemma nset_sorted h v m : nsorted m -> nsorted (nset h v m).
  Proof. apply set_sorted; fmn. Qed.
  Lemma ndel_sorted h m : nsorted m -> nsorted (ndel h m).
  Proof. apply del_sorted; fmn. Qed.
  Lemma nfind_in h v m : nfind h m = Some v -> In (h, v) m.
  Proof. apply find_in; fmn. Qed.
  Lemma nin_find h v m : nsorted m -> In (h, v) m -> nfind h m = Some v.
  Proof. apply in_find; fmn. Qed.

  Lemma nset_in h v m h' v' : In (h', v') (nset h v m) -> (h' = h /\ v' = v) \/ In (h', v') m.
  Proof.
    induction m as [|[k1 v1] r IH]; cbn.
    - intros [E|[]]; inversion E; auto.
    - destruct (N.compare h k1) eqn:E; cbn.
      + intros [E1|Hin]; [inversion E1; auto|auto].
      + intros [E1|Hin]; [inversion E1; auto|auto].
      + intros [E1|Hin]; [auto|]. destruct (IH Hin) as [?|?]; auto.
  Qed.

  Lemma ndel_in h m h' v' : In (h', v') (ndel h m) -> In (h', v') m.
  Proof.
    induction m as [|[k1 v1] r IH]; cbn; [tauto|].
    destruct (N.compare h k1); cbn; intuition.
  Qed.

  Lemma nset_set h v m : nsorted m -> nset h v (nset h v m) = nset h v m.
  Proof.
    intros Hs. apply (sorted_ext N.compare); fmn.
    - apply nset_sorted, nset_sorted, Hs.
    - apply nset_sorted, Hs.
    - intros k. destruct (N.eq_dec k h) as [->|Hne].
      + rewrite !nfind_set_same. reflexivity.
      + rewrite !nfind_set_other by exact Hne. reflexivity.
  Qed.

  Lemma nfind_none_notin h m : nsorted m -> nfind h m = None -> forall v, ~ In (h, v) m.
  Proof. intros Hs Hf v Hin. rewrite (nin_find _ _ _ Hs Hin) in Hf. discriminate. Qed.

  Lemma nset_absent_perm h v m : nfind h m = None ->
    forall x, In x (nset h v m) <-> x = (h, v) \/ In x m.
  Proof.
    induction m as [|[k1 v1] r IH]; cbn; intros Hf x.
    - intuition.
    - destruct (N.compare h k1) eqn:E; try discriminate; cbn.
      + intuition.
      + rewrite (IH Hf). intuition.
  Qed.

  Lemma mem_find h m : mem N.compare h m = match nfind h m with Some _ => true | None => false end.
  Proof. reflexivity. Qed.
End NMap.

Lemma sum_sizes_set_absent h b m : nfind h m = None -> sum_sizes (nset h b m) = lenN b + sum_sizes m.
Proof.
  induction m as [|[k1 v1] r IH]; cbn; intros Hf; [reflexivity|].
  destruct (N.compare h k1) eqn:E; try discriminate; cbn; [reflexivity|].
  rewrite (IH Hf). lia.
Qed.

(* hash sets *)
Lemma hset_add_sorted h s : nsorted s -> nsorted (hset_add h s).
Proof. apply ins_sorted; fmn. Qed.
Lemma hset_del_sorted h s : nsorted s -> nsorted (hset_del h s).
Proof. apply del_sorted; fmn. Qed.

(* ------------------------------------------------------------------ run *)
Lemma run_app {S} (step : S -> op -> S * out) s a b :
  run step s (a ++ b) =
  let '(s1, xs) := run step s a in let '(s2, ys) := run step s1 b in (s2, xs ++ ys).
Proof.
  revert s; induction a as [|o a IH]; intros s; cbn.
  - destruct (run step s b); reflexivity.
  - destruct (step s o) as [s1 x]. rewrite IH.
    destruct (run step s1 a) as [s2 xs]. destruct (run step s2 b) as [s3 ys]. reflexivity.
Qed.

Lemma run_fst_cons {S} (step : S -> op -> S * out) s o r :
  fst (run step s (o :: r)) = fst (run step (fst (step s o)) r).
Proof. cbn. destruct (step s o) as [s1 x]; cbn. destruct (run step s1 r); reflexivity. Qed.

Lemma run_preserves {S} (step : S -> op -> S * out) (P : S -> Prop) (ok : op -> bool) :
  (forall s o, ok o = true -> P s -> P (fst (step s o))) ->
  forall ops s, forallb ok ops = true -> P s -> P (fst (run step s ops)).
Proof.
  intros Hstep ops. induction ops as [|o r IH]; intros s Hok Hp; [exact Hp|].
  cbn in Hok. apply andb_prop in Hok as [Ho Hr].
  rewrite run_fst_cons. apply IH; auto.
Qed.

Section WithHash.
  Variable H : bytes -> N.
  Notation Collision := (Collision H).
  Notation mem_inv := (mem_inv H).
  Notation disk_inv := (disk_inv H).
  Notation entries_intact := (entries_intact H).

  Lemma intact_set h b m : entries_intact m -> H b = h -> entries_intact (nset h b m).
  Proof.
    intros Hi Hh h' b' Hin. apply nset_in in Hin as [[-> ->]|Hin]; auto.
  Qed.
  Lemma intact_del h m : entries_intact m -> entries_intact (ndel h m).
  Proof. intros Hi h' b' Hin. apply ndel_in in Hin. auto. Qed.

  (* ---------------------------------------------------------------- MemoryTier *)
  Lemma mem_new_inv mx : mem_inv (mem_new mx).
  Proof. repeat split; cbn; auto. intros h b []. Qed.

  Lemma mem_put_inv s b : mem_inv s -> mem_inv (fst (mem_put H s b)).
  Proof.
    intros (Hs & Hp & Hi & Hb). unfold mem_put.
    destruct (nfind (H b) (m_blobs s)) eqn:F; cbn; [repeat split; auto|].
    repeat split; cbn; auto.
    - apply nset_sorted, Hs.
    - apply intact_set; auto.
    - rewrite sum_sizes_set_absent by exact F. lia.
  Qed.

  Lemma mem_put_verified_inv s h b : mem_inv s -> mem_inv (fst (mem_put_verified H s h b)).
  Proof.
    intros (Hs & Hp & Hi & Hb). unfold mem_put_verified.
    destruct (N.eqb_spec (H b) h) as [E|E]; cbn; [|repeat split; auto].
    destruct (nfind h (m_blobs s)) eqn:F; cbn; [repeat split; auto|].
    repeat split; cbn; auto.
    - apply nset_sorted, Hs.
    - apply intact_set; auto.
    - rewrite E. rewrite sum_sizes_set_absent by exact F. lia.
  Qed.

  Lemma mem_step_inv s o : mem_inv s -> mem_inv (fst (mem_step H s o)).
  Proof.
    intros Hinv. destruct o; cbn; auto.
    - pose proof (mem_put_inv s b Hinv) as Hp. destruct (mem_put H s b); exact Hp.
    - apply mem_put_verified_inv, Hinv.
    - destruct Hinv as (Hs & Hp & Hi & Hb). repeat split; cbn; auto. apply hset_add_sorted, Hp.
    - destruct Hinv as (Hs & Hp & Hi & Hb). repeat split; cbn; auto. apply hset_del_sorted, Hp.
  Qed.

  Lemma mem_run_inv_from s ops : mem_inv s -> mem_inv (fst (mem_run H s ops)).
  Proof.
    intros Hinv. apply (run_preserves (mem_step H) mem_inv (fun _ => true)); auto.
    - intros s0 o _. apply mem_step_inv.
    - clear. induction ops; cbn; auto.
  Qed.

  (* invariant by induction over arbitrary operation sequences *)
  Lemma mem_run_inv mx ops : mem_inv (fst (mem_run H (mem_new mx) ops)).
  Proof. apply mem_run_inv_from, mem_new_inv. Qed.

  Lemma mem_get_intact_inv s h b : mem_inv s -> mem_get s h = Some b -> H b = h.
  Proof. intros (_ & _ & Hi & _) Hg. apply Hi. apply nfind_in. exact Hg. Qed.

  Lemma mem_get_intact mx ops h b :
    mem_get (fst (mem_run H (mem_new mx) ops)) h = Some b -> H b = h.
  Proof. apply mem_get_intact_inv, mem_run_inv. Qed.

  Lemma mem_get_after_put s b : mem_inv s ->
    mem_get (fst (mem_put H s b)) (H b) = Some b \/ Collision.
  Proof.
    intros Hinv. unfold mem_put, mem_get.
    destruct (nfind (H b) (m_blobs s)) as [b'|] eqn:F; cbn.
    - pose proof (mem_get_intact_inv s (H b) b' Hinv F) as Hb'.
      destruct (list_eq_dec N.eq_dec b' b) as [->|Hne]; [left; exact F|].
      right. exists b', b. split; auto.
    - left. apply nfind_set_same.
  Qed.

  Lemma mem_get_after_put_verified s h b : mem_inv s -> H b = h ->
    mem_get (fst (mem_put_verified H s h b)) h = Some b \/ Collision.
  Proof.
    intros Hinv Hh. unfold mem_put_verified, mem_get. rewrite Hh, N.eqb_refl.
    destruct (nfind h (m_blobs s)) as [b'|] eqn:F; cbn.
    - pose proof (mem_get_intact_inv s h b' Hinv F) as Hb'.
      destruct (list_eq_dec N.eq_dec b' b) as [->|Hne]; [left; exact F|].
      right. exists b', b. split; auto. congruence.
    - left. apply nfind_set_same.
  Qed.

  (* mismatching bytes are refused with a typed error and the store is unchanged,
     whether or not the key is already present *)
  Lemma mem_put_verified_rejects s h b : H b <> h ->
    mem_put_verified H s h b = (s, OMismatch h (H b)).
  Proof.
    intros Hne. unfold mem_put_verified.
    destruct (N.eqb_spec (H b) h); [contradiction|reflexivity].
  Qed.

  (* matching bytes on a present key: idempotent no-op *)
  Lemma mem_put_verified_present s h b x : H b = h -> mem_get s h = Some x ->
    mem_put_verified H s h b = (s, OOk).
  Proof.
    intros Hh Hg. unfold mem_put_verified, mem_get in *. rewrite Hh, N.eqb_refl, Hg. reflexivity.
  Qed.

  Lemma mem_put_idempotent s b : mem_inv s ->
    let s1 := fst (mem_put H s b) in mem_put H s1 b = (s1, H b).
  Proof.
    intros Hinv. cbv zeta. unfold mem_put at 2 3.
    destruct (nfind (H b) (m_blobs s)) eqn:F; cbn.
    - unfold mem_put. rewrite F. reflexivity.
    - unfold mem_put. cbn. rewrite nfind_set_same. reflexivity.
  Qed.

  Lemma mem_put_verified_absent s h b : H b = h -> mem_get s h = None ->
    mem_put_verified H s h b =
    ({| m_blobs := nset h b (m_blobs s); m_pins := m_pins s;
        m_bytes := m_bytes s + lenN b; m_max := m_max s |}, OOk).
  Proof.
    intros Hh Hg. unfold mem_put_verified, mem_get in *. rewrite Hh, N.eqb_refl, Hg. reflexivity.
  Qed.

  Lemma mem_put_verified_idempotent s h b :
    let s1 := fst (mem_put_verified H s h b) in
    snd (mem_put_verified H s h b) = OOk -> mem_put_verified H s1 h b = (s1, OOk).
  Proof.
    cbv zeta. destruct (N.eq_dec (H b) h) as [E|E].
    - intros _. destruct (nfind h (m_blobs s)) eqn:F.
      + rewrite (mem_put_verified_present s h b _ E F). cbn.
        apply (mem_put_verified_present s h b _ E F).
      + rewrite (mem_put_verified_absent s h b E F). cbn.
        eapply mem_put_verified_present; [exact E|]. unfold mem_get. cbn. apply nfind_set_same.
    - rewrite (mem_put_verified_rejects s h b E). discriminate.
  Qed.

  (* pins never touch content *)
  Definition same_content (s s' : mtier) : Prop :=
    m_blobs s = m_blobs s' /\ m_bytes s = m_bytes s' /\ m_max s = m_max s'.

  Definition is_content_op (o : op) : bool :=
    match o with Put _ | PutV _ _ | Get _ | Has _ => true | _ => false end.
  Definition content_outs (ops : list op) (outs : list out) : list out :=
    map snd (filter (fun p => is_content_op (fst p)) (combine ops outs)).
  Definition not_pin (o : op) : bool := negb (is_pin_op o).

  Lemma mem_step_same_content s s' o : same_content s s' ->
    same_content (fst (mem_step H s o)) (fst (mem_step H s' o)) /\
    (is_content_op o = true -> snd (mem_step H s o) = snd (mem_step H s' o)).
  Proof.
    intros (Eb & Ec & Em). destruct o; cbn; try (split; [repeat split; auto|auto; discriminate]).
    - unfold mem_put. rewrite <- Eb. destruct (nfind (H b) (m_blobs s)); cbn;
        (split; [repeat split; cbn; auto; congruence|auto]).
    - unfold mem_put_verified. rewrite <- Eb.
      destruct (N.eqb (H b) h); cbn; [|split; [repeat split; auto|auto]].
      destruct (nfind h (m_blobs s)); cbn; (split; [repeat split; cbn; auto; congruence|auto]).
    - unfold mem_get. rewrite Eb. split; [repeat split; auto|auto].
    - unfold mem_has. rewrite Eb. split; [repeat split; auto|auto].
  Qed.

  Lemma mem_pin_step_same_content s o : is_pin_op o = true -> same_content (fst (mem_step H s o)) s.
  Proof. destruct o; cbn; try discriminate; intros _; repeat split. Qed.

  Lemma same_content_trans a b c : same_content a b -> same_content b c -> same_content a c.
  Proof. intros (?&?&?) (?&?&?). repeat split; congruence. Qed.

  Lemma content_outs_cons o ops x xs :
    content_outs (o :: ops) (x :: xs) =
    if is_content_op o then x :: content_outs ops xs else content_outs ops xs.
  Proof. unfold content_outs. cbn. destruct (is_content_op o); reflexivity. Qed.

  Lemma pin_not_content o : is_pin_op o = true -> is_content_op o = false.
  Proof. destruct o; cbn; auto; discriminate. Qed.

  Lemma mem_pin_neutral_gen ops : forall s s', same_content s s' ->
    same_content (fst (mem_run H s ops)) (fst (mem_run H s' (filter not_pin ops))) /\
    content_outs ops (snd (mem_run H s ops)) =
    content_outs (filter not_pin ops) (snd (mem_run H s' (filter not_pin ops))).
  Proof.
    induction ops as [|o ops IH]; intros s s' Hsc; [split; [exact Hsc|reflexivity]|].
    cbn [filter]. assert (En : not_pin o = negb (is_pin_op o)) by reflexivity.
    destruct (is_pin_op o) eqn:Ep; cbn [negb] in En; rewrite !En.
    - (* pin / unpin: dropped on the right *)
      pose proof (mem_pin_step_same_content s o Ep) as Hp.
      unfold mem_run at 1 3. cbn [run].
      destruct (mem_step H s o) as [s1 x] eqn:E1. cbn [fst] in Hp.
      destruct (IH s1 s' (same_content_trans _ _ _ Hp Hsc)) as [IH1 IH2].
      unfold mem_run in IH1, IH2 |- *.
      destruct (run (mem_step H) s1 ops) as [s2 xs]. cbn [fst snd] in *.
      rewrite content_outs_cons, (pin_not_content o Ep). split; assumption.
    - destruct (mem_step_same_content s s' o Hsc) as [Hsc1 Hout].
      unfold mem_run. cbn [run].
      destruct (mem_step H s o) as [s1 x] eqn:E1.
      destruct (mem_step H s' o) as [s1' x'] eqn:E1'. cbn [fst snd] in Hsc1, Hout.
      destruct (IH s1 s1' Hsc1) as [IH1 IH2]. unfold mem_run in IH1, IH2.
      destruct (run (mem_step H) s1 ops) as [s2 xs].
      destruct (run (mem_step H) s1' (filter not_pin ops)) as [s2' xs']. cbn [fst snd] in *.
      split; [exact IH1|].
      rewrite !content_outs_cons. destruct (is_content_op o) eqn:Ec.
      + rewrite (Hout eq_refl). f_equal. exact IH2.
      + exact IH2.
  Qed.

  Lemma same_content_refl s : same_content s s.
  Proof. repeat split. Qed.

  Lemma mem_pin_content_neutral s ops :
    let r := mem_run H s ops in
    let r' := mem_run H s (filter not_pin ops) in
    m_blobs (fst r) = m_blobs (fst r') /\ m_bytes (fst r) = m_bytes (fst r') /\
    content_outs ops (snd r) = content_outs (filter not_pin ops) (snd r').
  Proof.
    destruct (mem_pin_neutral_gen ops s s (same_content_refl s)) as [(A & B & _) C].
    cbv zeta. auto.
  Qed.

  (* refinement to the abstract store "set of offered byte strings" *)
  Lemma mem_step_sound s o h b :
    mem_get (fst (mem_step H s o)) h = Some b -> mem_get s h = Some b \/ In b (offered H o).
  Proof.
    destruct o; cbn; auto.
    - unfold mem_put. destruct (nfind (H b0) (m_blobs s)) eqn:F; cbn; auto.
      unfold mem_get; cbn. destruct (N.eq_dec h (H b0)) as [->|Hne].
      + rewrite nfind_set_same. intros E; inversion E; auto.
      + rewrite nfind_set_other by exact Hne. auto.
    - unfold mem_put_verified. destruct (N.eqb_spec (H b0) h0) as [E|E]; cbn; auto.
      destruct (nfind h0 (m_blobs s)) eqn:F; cbn; auto.
      unfold mem_get; cbn. destruct (N.eq_dec h (H b0)) as [->|Hne].
      + rewrite nfind_set_same. intros E1; inversion E1; auto.
      + rewrite nfind_set_other by exact Hne. auto.
  Qed.

  Lemma mem_run_sound ops : forall s h b,
    mem_get (fst (mem_run H s ops)) h = Some b -> mem_get s h = Some b \/ In b (flat_map (offered H) ops).
  Proof.
    induction ops as [|o r IH]; intros s h b; [cbn; auto|].
    unfold mem_run. rewrite run_fst_cons. intros Hg.
    apply IH in Hg as [Hg|Hin]; [|right; cbn; apply in_or_app; auto].
    apply mem_step_sound in Hg as [Hg|Hin]; auto. right; cbn; apply in_or_app; auto.
  Qed.

  Lemma mem_get_sound mx ops h b :
    mem_get (fst (mem_run H (mem_new mx) ops)) h = Some b ->
    H b = h /\ In b (flat_map (offered H) ops).
  Proof.
    intros Hg. split; [eapply mem_get_intact; eauto|].
    apply mem_run_sound in Hg as [Hg|Hin]; auto. discriminate.
  Qed.

  (* once a key is present its content never changes (no removal, no overwrite) *)
  Lemma mem_step_stable s o h b : mem_get s h = Some b -> mem_get (fst (mem_step H s o)) h = Some b.
  Proof.
    intros Hg. destruct o; cbn; auto.
    - unfold mem_put. destruct (nfind (H b0) (m_blobs s)) eqn:F; cbn; auto.
      unfold mem_get in *; cbn. destruct (N.eq_dec h (H b0)) as [->|Hne]; [congruence|].
      rewrite nfind_set_other by exact Hne. exact Hg.
    - unfold mem_put_verified. destruct (N.eqb_spec (H b0) h0) as [E|E]; cbn; auto.
      destruct (nfind h0 (m_blobs s)) eqn:F; cbn; auto.
      unfold mem_get in *; cbn. destruct (N.eq_dec h (H b0)) as [->|Hne]; [congruence|].
      rewrite nfind_set_other by exact Hne. exact Hg.
  Qed.

  Lemma mem_run_stable ops : forall s h b,
    mem_get s h = Some b -> mem_get (fst (mem_run H s ops)) h = Some b.
  Proof.
    induction ops as [|o r IH]; intros s h b Hg; [exact Hg|].
    unfold mem_run. rewrite run_fst_cons. apply IH, mem_step_stable, Hg.
  Qed.

  Lemma mem_step_complete s o b : mem_inv s -> In b (offered H o) ->
    mem_get (fst (mem_step H s o)) (H b) = Some b \/ Collision.
  Proof.
    intros Hinv Hin. destruct o; cbn in Hin; try contradiction.
    - destruct Hin as [->|[]]. cbn.
      pose proof (mem_get_after_put s b Hinv) as Hp. destruct (mem_put H s b); exact Hp.
    - destruct (N.eqb_spec (H b0) h) as [E|E]; [|contradiction]. destruct Hin as [->|[]].
      cbn. rewrite E. apply mem_get_after_put_verified; auto.
  Qed.

  Lemma mem_run_complete ops : forall s b, mem_inv s -> In b (flat_map (offered H) ops) ->
    mem_get (fst (mem_run H s ops)) (H b) = Some b \/ Collision.
  Proof.
    induction ops as [|o r IH]; intros s b Hinv Hin; [destruct Hin|].
    cbn in Hin. apply in_app_or in Hin as [Hin|Hin].
    - destruct (mem_step_complete s o b Hinv Hin) as [Hg|Hc]; [|right; exact Hc].
      left. unfold mem_run. rewrite run_fst_cons. apply mem_run_stable, Hg.
    - unfold mem_run. rewrite run_fst_cons. apply IH; auto. apply mem_step_inv, Hinv.
  Qed.

  Lemma mem_get_complete mx ops b : In b (flat_map (offered H) ops) ->
    mem_get (fst (mem_run H (mem_new mx) ops)) (H b) = Some b \/ Collision.
  Proof. apply mem_run_complete, mem_new_inv. Qed.

  (* ---------------------------------------------------------------- DiskTier *)
  Lemma disk_get_intact d h b : disk_get H d h = OBytes (Some b) -> H b = h.
  Proof.
    unfold disk_get. destruct (nfind h (d_files d)) as [c|]; [|discriminate].
    destruct (N.eqb_spec (H c) h) as [E|E]; [|discriminate].
    intros E1. injection E1 as E1. subst c. exact E.
  Qed.

  Lemma disk_get_after_put_verified d h b : H b = h ->
    disk_put_verified H d h b = (fst (disk_put_verified H d h b), OOk) /\
    disk_get H (fst (disk_put_verified H d h b)) h = OBytes (Some b).
  Proof.
    intros Hh. unfold disk_put_verified. rewrite Hh, N.eqb_refl. cbn. split; [reflexivity|].
    unfold disk_get. cbn. rewrite nfind_set_same, Hh, N.eqb_refl. reflexivity.
  Qed.

  Lemma disk_get_after_put d b : disk_get H (fst (disk_put H d b)) (H b) = OBytes (Some b).
  Proof. unfold disk_put. cbn. apply disk_get_after_put_verified. reflexivity. Qed.

  Lemma disk_put_verified_rejects d h b : H b <> h ->
    disk_put_verified H d h b = (d, OMismatch h (H b)).
  Proof. intros Hne. unfold disk_put_verified. destruct (N.eqb_spec (H b) h); [contradiction|reflexivity]. Qed.

  Lemma disk_put_idempotent d b : nsorted (d_files d) ->
    disk_put H (fst (disk_put H d b)) b = (fst (disk_put H d b), H b).
  Proof.
    intros Hs. unfold disk_put, disk_put_verified. rewrite N.eqb_refl. cbn.
    rewrite nset_set by exact Hs. reflexivity.
  Qed.

  Lemma disk_reopen_preserves d :
    d_files (disk_reopen d) = d_files d /\
    (forall h, disk_get H (disk_reopen d) h = disk_get H d h) /\
    (forall h, disk_has (disk_reopen d) h = disk_has d h) /\
    disk_list (disk_reopen d) = disk_list d /\
    (forall h, disk_is_pinned (disk_reopen d) h = false).
  Proof. repeat split. Qed.

  Lemma disk_corrupt_detected d h orig c :
    H orig = h -> nfind h (d_files d) = Some c -> c <> orig ->
    disk_get H d h = OMismatch h (H c) \/ Collision.
  Proof.
    intros Ho Hf Hne. unfold disk_get. rewrite Hf.
    destruct (N.eqb_spec (H c) h) as [E|E]; [|left; reflexivity].
    right. exists c, orig. split; [exact Hne|congruence].
  Qed.

  (* put, then the environment rewrites the file, then get *)
  Lemma disk_corrupt_after_put d orig c : c <> orig ->
    let d1 := fst (disk_put H d orig) in
    let d2 := fst (disk_step H d1 (EnvWrite (H orig) c)) in
    disk_get H d2 (H orig) = OMismatch (H orig) (H c) \/ Collision.
  Proof.
    intros Hne. cbv zeta. apply (disk_corrupt_detected _ _ orig c); auto.
    cbn. apply nfind_set_same.
  Qed.

  Lemma disk_deleted_absent d h : nsorted (d_files d) ->
    disk_get H (fst (disk_step H d (EnvDelete h))) h = OBytes None /\
    disk_has (fst (disk_step H d (EnvDelete h))) h = false.
  Proof.
    intros Hs. unfold disk_get, disk_has. cbn. rewrite mem_find.
    rewrite nfind_del_same by exact Hs. auto.
  Qed.

  (* a fault on one file is invisible at every other key *)
  Lemma disk_fault_local d h h' c : h' <> h ->
    disk_get H (fst (disk_step H d (EnvWrite h c))) h' = disk_get H d h' /\
    disk_get H (fst (disk_step H d (EnvDelete h))) h' = disk_get H d h'.
  Proof.
    intros Hne. unfold disk_get. cbn.
    rewrite nfind_set_other, nfind_del_other by exact Hne. auto.
  Qed.

  Lemma disk_step_files_sorted d o : nsorted (d_files d) -> nsorted (d_files (fst (disk_step H d o))).
  Proof.
    intros Hs. destruct o; cbn; auto.
    - unfold disk_put_verified. rewrite N.eqb_refl. cbn. apply nset_sorted, Hs.
    - unfold disk_put_verified. destruct (N.eqb (H b) h); cbn; auto. apply nset_sorted, Hs.
    - apply nset_sorted, Hs.
    - apply ndel_sorted, Hs.
  Qed.

  Lemma disk_step_inv d o : is_api o = true -> disk_inv d -> disk_inv (fst (disk_step H d o)).
  Proof.
    intros Ha (Hs & Hp & Hi). destruct o; cbn in *; try discriminate; auto; try (repeat split; auto; fail).
    - unfold disk_put_verified. rewrite N.eqb_refl. cbn. repeat split; cbn; auto.
      + apply nset_sorted, Hs.
      + apply intact_set; auto.
    - unfold disk_put_verified. destruct (N.eqb_spec (H b) h) as [E|E]; cbn; [|repeat split; auto].
      repeat split; cbn; auto.
      + apply nset_sorted, Hs.
      + apply intact_set; auto.
    - repeat split; cbn; auto. apply hset_add_sorted, Hp.
    - repeat split; cbn; auto. apply hset_del_sorted, Hp.
  Qed.

  (* invariant by induction over arbitrary fault-free operation sequences *)
  Lemma disk_run_inv ops : forallb is_api ops = true -> disk_inv (fst (disk_run H (disk_open []) ops)).
  Proof.
    intros Hok. apply (run_preserves (disk_step H) disk_inv is_api); auto.
    - intros d o Ha. apply disk_step_inv, Ha.
    - repeat split; cbn; auto. intros h b [].
  Qed.

  (* with faults anywhere in the history: whatever get returns is intact *)
  Lemma disk_run_get_intact d0 ops h b :
    disk_get H (fst (disk_run H d0 ops)) h = OBytes (Some b) -> H b = h.
  Proof. apply disk_get_intact. Qed.

  Lemma disk_get_inv_is_find d h : disk_inv d ->
    disk_get H d h = OBytes (nfind h (d_files d)).
  Proof.
    intros (Hs & _ & Hi). unfold disk_get. destruct (nfind h (d_files d)) as [c|] eqn:F; auto.
    rewrite (Hi h c (nfind_in _ _ _ F)), N.eqb_refl. reflexivity.
  Qed.

  Lemma disk_step_sound d o h b :
    nfind h (d_files (fst (disk_step H d o))) = Some b -> is_api o = true ->
    nfind h (d_files d) = Some b \/ In b (offered H o).
  Proof.
    destruct o; cbn; auto; try discriminate.
    - unfold disk_put_verified. rewrite N.eqb_refl. cbn.
      destruct (N.eq_dec h (H b0)) as [->|Hne].
      + rewrite nfind_set_same. intros E; inversion E; auto.
      + rewrite nfind_set_other by exact Hne. auto.
    - unfold disk_put_verified. destruct (N.eqb_spec (H b0) h0) as [E|E]; cbn; auto.
      destruct (N.eq_dec h h0) as [->|Hne].
      + rewrite nfind_set_same. intros E1; inversion E1; auto.
      + rewrite nfind_set_other by exact Hne. auto.
  Qed.

  Lemma disk_run_sound ops : forall d h b, forallb is_api ops = true ->
    nfind h (d_files (fst (disk_run H d ops))) = Some b ->
    nfind h (d_files d) = Some b \/ In b (flat_map (offered H) ops).
  Proof.
    induction ops as [|o r IH]; intros d h b Hok; [cbn; auto|].
    cbn in Hok. apply andb_prop in Hok as [Ho Hr].
    unfold disk_run. rewrite run_fst_cons. intros Hg.
    apply IH in Hg as [Hg|Hin]; auto; [|right; cbn; apply in_or_app; auto].
    apply disk_step_sound in Hg as [Hg|Hin]; auto. right; cbn; apply in_or_app; auto.
  Qed.

  Lemma disk_get_sound ops h b : forallb is_api ops = true ->
    disk_get H (fst (disk_run H (disk_open []) ops)) h = OBytes (Some b) ->
    H b = h /\ In b (flat_map (offered H) ops).
  Proof.
    intros Hok Hg. split; [eapply disk_get_intact; eauto|].
    rewrite disk_get_inv_is_find in Hg by (apply disk_run_inv, Hok).
    inversion Hg as [Hf]. apply disk_run_sound in Hf as [Hf|Hin]; auto. discriminate.
  Qed.

  (* a stored key keeps holding bytes with that hash; under a collision the last writer wins *)
  Lemma disk_step_complete d o b : is_api o = true -> disk_inv d ->
    (nfind (H b) (d_files d) = Some b \/ In b (offered H o)) ->
    nfind (H b) (d_files (fst (disk_step H d o))) = Some b \/ Collision.
  Proof.
    intros Ha Hinv [Hf|Hin].
    - destruct o; cbn in *; try discriminate; auto.
      + unfold disk_put_verified. rewrite N.eqb_refl. cbn.
        destruct (N.eq_dec (H b) (H b0)) as [E|Hne].
        * destruct (list_eq_dec N.eq_dec b b0) as [->|Hnb].
          -- left. apply nfind_set_same.
          -- right. exists b, b0. auto.
        * left. rewrite nfind_set_other by exact Hne. exact Hf.
      + unfold disk_put_verified. destruct (N.eqb_spec (H b0) h) as [E|E]; cbn; auto.
        destruct (N.eq_dec (H b) h) as [E1|Hne].
        * destruct (list_eq_dec N.eq_dec b b0) as [->|Hnb].
          -- left. rewrite <- E. apply nfind_set_same.
          -- right. exists b, b0. split; auto. congruence.
        * left. rewrite nfind_set_other by exact Hne. exact Hf.
    - destruct o; cbn in Hin; try contradiction.
      + destruct Hin as [->|[]]. left. cbn. unfold disk_put_verified. rewrite N.eqb_refl. cbn.
        apply nfind_set_same.
      + destruct (N.eqb_spec (H b0) h) as [E|E]; [|contradiction]. destruct Hin as [->|[]].
        left. cbn. unfold disk_put_verified. rewrite E, N.eqb_refl. cbn. apply nfind_set_same.
  Qed.

  Lemma disk_run_complete ops : forall d b, forallb is_api ops = true -> disk_inv d ->
    (nfind (H b) (d_files d) = Some b \/ In b (flat_map (offered H) ops)) ->
    nfind (H b) (d_files (fst (disk_run H d ops))) = Some b \/ Collision.
  Proof.
    induction ops as [|o r IH]; intros d b Hok Hinv Hx.
    - destruct Hx as [Hf|[]]. left; exact Hf.
    - cbn in Hok. apply andb_prop in Hok as [Ho Hr].
      unfold disk_run. rewrite run_fst_cons.
      assert (Hstep : (nfind (H b) (d_files (fst (disk_step H d o))) = Some b \/ Collision) \/
                      In b (flat_map (offered H) r)).
      { destruct Hx as [Hf|Hin].
        - left. apply disk_step_complete; auto.
        - cbn in Hin. apply in_app_or in Hin as [Hin|Hin]; [|right; exact Hin].
          left. apply disk_step_complete; auto. }
      destruct Hstep as [[Hf|Hc]|Hin]; [| right; exact Hc |].
      + apply IH; auto. apply disk_step_inv; auto.
      + apply IH; auto. apply disk_step_inv; auto.
  Qed.

  Lemma disk_get_complete ops b : forallb is_api ops = true -> In b (flat_map (offered H) ops) ->
    disk_get H (fst (disk_run H (disk_open []) ops)) (H b) = OBytes (Some b) \/ Collision.
  Proof.
    intros Hok Hin.
    assert (Hinv0 : disk_inv (disk_open [])) by (repeat split; cbn; auto; intros h x []).
    destruct (disk_run_complete ops (disk_open []) b Hok Hinv0 (or_intror Hin)) as [Hf|Hc]; [|right; exact Hc].
    left. rewrite disk_get_inv_is_find by (apply disk_run_inv, Hok). rewrite Hf. reflexivity.
  Qed.

  Lemma disk_pin_content_neutral d h :
    d_files (disk_pin d h) = d_files d /\ d_files (disk_unpin d h) = d_files d /\
    (forall h', disk_get H (disk_pin d h) h' = disk_get H d h') /\
    (forall h', disk_get H (disk_unpin d h) h' = disk_get H d h').
  Proof. repeat split. Qed.

  (* ---------------------------------------------------------------- RetainedBlobIndex *)
  Lemma coord_order : OrderLaws coord_cmp.
  Proof.
    unfold coord_cmp.
    repeat (apply pair_order; [try apply bytes_order; try apply N_order|]); apply N_order.
  Qed.
  Definition c_eq := ol_eq _ coord_order.
  Definition c_as := ol_antisym _ coord_order.
  Definition c_tr := ol_trans _ coord_order.
  Ltac fmc := try exact c_eq; try exact c_as; try exact c_tr.

  Lemma coord_cmp_refl c : coord_cmp c c = Eq.
  Proof. apply c_eq. reflexivity. Qed.

  Lemma cfind_set_same c (d : desc) ix : find coord_cmp c (set coord_cmp c d ix) = Some d.
  Proof. apply find_set_same; fmc. Qed.
  Lemma cfind_set_other c c' (d : desc) ix : c' <> c ->
    find coord_cmp c' (set coord_cmp c d ix) = find coord_cmp c' ix.
  Proof. apply find_set_other; fmc. Qed.

  Lemma mem_put_hash s b : snd (mem_put H s b) = H b.
  Proof. unfold mem_put. destruct (nfind (H b) (m_blobs s)); reflexivity. Qed.

  Lemma mem_pin_inv s h : mem_inv s -> mem_inv (mem_pin s h).
  Proof. intros Hi. exact (mem_step_inv s (Pin h) Hi). Qed.

  (* what retain does, case by case *)
  Lemma retain_fresh ix s c b : descriptor ix c = None ->
    retain H ix s c b =
    (set coord_cmp c (H b, lenN b) ix, mem_pin (fst (mem_put H s b)) (H b), ROk (H b, lenN b)).
  Proof.
    unfold descriptor, retain. intros ->.
    pose proof (mem_put_hash s b) as Hh. destruct (mem_put H s b) as [s1 h1]. cbn in *. subst h1. reflexivity.
  Qed.

  Lemma retain_equal ix s c b : descriptor ix c = Some (H b, lenN b) ->
    retain H ix s c b =
    (ix, mem_pin (if mem_has s (H b) then s else fst (mem_put H s b)) (H b), ROk (H b, lenN b)).
  Proof. unfold descriptor, retain. intros ->. rewrite !N.eqb_refl. reflexivity. Qed.

  Lemma retain_conflict ix s c b eh el : descriptor ix c = Some (eh, el) ->
    (eh <> H b \/ el <> lenN b) ->
    retain H ix s c b = (ix, s, RErr (SemanticCoordinateConflict eh (H b))).
  Proof.
    unfold descriptor, retain. intros -> Hd.
    destruct (N.eqb_spec eh (H b)) as [E1|E1]; cbn; [|reflexivity].
    destruct (N.eqb_spec el (lenN b)) as [E2|E2]; cbn; [|reflexivity].
    destruct Hd; contradiction.
  Qed.

  (* different content under an occupied coordinate is rejected, index and store untouched *)
  Lemma retain_different_rejected ix s c b b0 :
    descriptor ix c = Some (H b0, lenN b0) -> b <> b0 ->
    retain H ix s c b = (ix, s, RErr (SemanticCoordinateConflict (H b0) (H b))) \/ Collision.
  Proof.
    intros Hd Hne. destruct (N.eq_dec (H b0) (H b)) as [E|E].
    - right. exists b, b0. split; auto.
    - left. eapply retain_conflict; eauto.
  Qed.

  (* equal content is idempotent: same descriptor, index unchanged, content unchanged when present *)
  Lemma retain_idempotent ix s c b : descriptor ix c = Some (H b, lenN b) ->
    exists s', retain H ix s c b = (ix, s', ROk (H b, lenN b)) /\
      (mem_has s (H b) = true -> m_blobs s' = m_blobs s /\ m_bytes s' = m_bytes s).
  Proof.
    intros Hd. rewrite (retain_equal ix s c b Hd). eexists; split; [reflexivity|].
    intros ->. cbn. auto.
  Qed.

  Lemma retain_index ix s c b :
    fst (fst (retain H ix s c b)) =
    match descriptor ix c with Some _ => ix | None => set coord_cmp c (H b, lenN b) ix end.
  Proof.
    destruct (descriptor ix c) as [[eh el]|] eqn:Hd.
    - unfold descriptor in Hd. unfold retain. rewrite Hd.
      destruct (orb _ _); reflexivity.
    - rewrite (retain_fresh ix s c b Hd). reflexivity.
  Qed.

  Lemma retain_mem_inv ix s c b : mem_inv s -> mem_inv (snd (fst (retain H ix s c b))).
  Proof.
    intros Hi. unfold retain. destruct (find coord_cmp c ix) as [[eh el]|].
    - destruct (orb _ _); cbn; auto. apply mem_pin_inv.
      destruct (mem_has s eh); auto. apply mem_put_inv, Hi.
    - pose proof (mem_put_inv s b Hi) as Hp. destruct (mem_put H s b) as [s1 h1]. cbn in *.
      apply mem_pin_inv, Hp.
  Qed.

  Lemma istep_index st o c :
    descriptor (fst (fst (istep H st o))) c =
    match descriptor (fst st) c with
    | Some d => Some d
    | None => match o with
              | IRetain c' b => match coord_cmp c c' with Eq => Some (H b, lenN b) | _ => None end
              | _ => None
              end
    end.
  Proof.
    destruct st as [ix s]. destruct o; cbn [istep fst];
      try (destruct (descriptor ix c); reflexivity).
    - pose proof (retain_index ix s c0 b) as Hr.
      destruct (retain H ix s c0 b) as [[ix' s'] r]. cbn [fst] in *. subst ix'.
      destruct (coord_cmp c c0) eqn:E.
      + apply c_eq in E. subst c0. destruct (descriptor ix c) eqn:Hd; [exact Hd|].
        unfold descriptor. apply cfind_set_same.
      + assert (c <> c0) by (intro; subst; rewrite coord_cmp_refl in E; discriminate).
        destruct (descriptor ix c0); [destruct (descriptor ix c); reflexivity|].
        unfold descriptor. rewrite cfind_set_other by assumption.
        fold (descriptor ix c). destruct (descriptor ix c); reflexivity.
      + assert (c <> c0) by (intro; subst; rewrite coord_cmp_refl in E; discriminate).
        destruct (descriptor ix c0); [destruct (descriptor ix c); reflexivity|].
        unfold descriptor. rewrite cfind_set_other by assumption.
        fold (descriptor ix c). destruct (descriptor ix c); reflexivity.
    - destruct (mem_step H s o). cbn [fst]. destruct (descriptor ix c); reflexivity.
  Qed.

  Lemma irun_fst_cons st o r : fst (irun H st (o :: r)) = fst (irun H (fst (istep H st o)) r).
  Proof. cbn. destruct (istep H st o) as [s1 x]; cbn. destruct (irun H s1 r); reflexivity. Qed.

  Lemma irun_index ops : forall st c,
    descriptor (fst (fst (irun H st ops))) c =
    match descriptor (fst st) c with
    | Some d => Some d
    | None => option_map (fun b => (H b, lenN b)) (first_content ops c)
    end.
  Proof.
    induction ops as [|o r IH]; intros st c.
    - cbn. destruct (descriptor (fst st) c); reflexivity.
    - rewrite irun_fst_cons, IH, istep_index.
      destruct (descriptor (fst st) c); [reflexivity|].
      destruct o; cbn [first_content]; try reflexivity.
      destruct (coord_cmp c c0); reflexivity.
  Qed.

  (* the index entry of a coordinate is a function of the retains issued for that coordinate only *)
  Lemma index_is_first_content ops c :
    descriptor (fst (fst (irun H istate0 ops))) c =
    option_map (fun b => (H b, lenN b)) (first_content ops c).
  Proof. rewrite irun_index. reflexivity. Qed.

  Lemma istep_mem_inv st o : mem_inv (snd st) -> mem_inv (snd (fst (istep H st o))).
  Proof.
    destruct st as [ix s]. intros Hi. destruct o; cbn [istep fst snd]; auto.
    - pose proof (retain_mem_inv ix s c b Hi) as Hr.
      destruct (retain H ix s c b) as [[ix' s'] r]. exact Hr.
    - pose proof (mem_step_inv s o Hi) as Hs. destruct (mem_step H s o). exact Hs.
    - apply mem_new_inv.
  Qed.

  Lemma irun_mem_inv ops : forall st, mem_inv (snd st) -> mem_inv (snd (fst (irun H st ops))).
  Proof.
    induction ops as [|o r IH]; intros st Hi; [exact Hi|].
    rewrite irun_fst_cons. apply IH, istep_mem_inv, Hi.
  Qed.

  (* load answers with exactly the first content retained under that coordinate *)
  Lemma load_is_first_content ops c d b :
    let st := fst (irun H istate0 ops) in
    load (fst st) (snd st) c = ROk (d, b) ->
    exists b0, first_content ops c = Some b0 /\ d = (H b0, lenN b0) /\ (b = b0 \/ Collision).
  Proof.
    cbv zeta. pose proof (index_is_first_content ops c) as Hix.
    pose proof (irun_mem_inv ops istate0 (mem_new_inv None)) as Hinv.
    destruct (fst (irun H istate0 ops)) as [ix s]. cbn [fst snd] in *.
    unfold load. unfold descriptor in Hix. rewrite Hix.
    destruct (first_content ops c) as [b0|]; cbn; [|discriminate].
    unfold load_by_hash. destruct (mem_get s (H b0)) as [x|] eqn:Hg; [|discriminate].
    intros E. injection E as <- <-. exists b0. repeat split.
    pose proof (mem_get_intact_inv s _ _ Hinv Hg) as Hx.
    destruct (list_eq_dec N.eq_dec x b0) as [->|Hne]; [left; reflexivity|].
    right. exists x, b0. auto.
  Qed.

  Lemma load_missing_coordinate ops c :
    let st := fst (irun H istate0 ops) in
    load (fst st) (snd st) c = RErr MissingSemanticCoordinate <-> first_content ops c = None.
  Proof.
    cbv zeta. pose proof (index_is_first_content ops c) as Hix.
    destruct (fst (irun H istate0 ops)) as [ix s]. cbn [fst snd] in *.
    unfold load. unfold descriptor in Hix. rewrite Hix.
    destruct (first_content ops c) as [b0|]; cbn.
    - unfold load_by_hash. destruct (mem_get s (H b0)); split; discriminate.
    - split; reflexivity.
  Qed.

  (* second, different content under an occupied coordinate: rejected at any point of any history *)
  Lemma retain_after_history_rejected ops c b0 b :
    first_content ops c = Some b0 -> b <> b0 ->
    let st := fst (irun H istate0 ops) in
    retain H (fst st) (snd st) c b =
      (fst st, snd st, RErr (SemanticCoordinateConflict (H b0) (H b))) \/ Collision.
  Proof.
    intros Hf Hne. cbv zeta. apply retain_different_rejected; auto.
    rewrite index_is_first_content, Hf. reflexivity.
  Qed.

  Lemma load_range_is_slice ix s c off len mx d off' bs :
    load_range ix s c off len mx = ROk (d, off', bs) ->
    exists b, load ix s c = ROk (d, b) /\ off' = off /\ len <= mx /\ off + len <= snd d /\
              off + len < two64 /\ bs = firstn (N.to_nat len) (skipn (N.to_nat off) b).
  Proof.
    unfold load_range. destruct (load ix s c) as [[d0 b]|e]; [|discriminate].
    destruct (N.ltb_spec mx len); [discriminate|].
    destruct (N.leb_spec two64 (off + len)); [discriminate|].
    destruct (N.ltb_spec (snd d0) (off + len)); [discriminate|].
    intros E. injection E as <- <- <-. exists b. repeat split; auto.
  Qed.

End WithHash.

(* ------------------------------------------------------------------ export profiles (record level) *)
Lemma key_order : OrderLaws key_cmp.
Proof. apply pair_order; apply N_order. Qed.
Lemma cref_order : OrderLaws cref_cmp.
Proof. apply pair_order; [apply key_order|apply pair_order; apply N_order]. Qed.
Lemma mat_order : OrderLaws mat_cmp.
Proof. repeat (apply pair_order; [apply N_order|]); apply N_order. Qed.
Lemma payload_order : OrderLaws payload_cmp.
Proof. apply pair_order; [apply mat_order|apply bytes_order]. Qed.
Lemma triple_order : OrderLaws triple_cmp.
Proof. repeat (apply pair_order; [apply N_order|]); apply N_order. Qed.

Section CanonFacts.
  Context {K V : Type} (kcmp : K -> K -> comparison) (vcmp : V -> V -> comparison) (key : V -> K).
  Hypothesis KO : OrderLaws kcmp.
  Hypothesis VO : OrderLaws vcmp.

  Let k_eq := ol_eq _ KO.

  Lemma canon_step_none vs : fold_left (canon_step kcmp vcmp key) vs None = None.
  Proof. induction vs; cbn; auto. Qed.

  (* entries survive, and every processed value sits under its key *)
  Lemma canon_fold vs : forall m m',
    fold_left (canon_step kcmp vcmp key) vs (Some m) = Some m' ->
    (forall k v, find kcmp k m = Some v -> find kcmp k m' = Some v) /\
    (forall v, In v vs -> find kcmp (key v) m' = Some v) /\
    (forall k v, find kcmp k m' = Some v -> find kcmp k m = Some v \/ In v vs).
  Proof.
    induction vs as [|x vs IH]; intros m m' Hf.
    - cbn in Hf. inversion Hf; subst. repeat split; auto. intros v [].
    - cbn [fold_left] in Hf. unfold canon_step at 2 in Hf.
      destruct (find kcmp (key x) m) as [e|] eqn:F.
      + destruct (vcmp e x) eqn:E; try (rewrite canon_step_none in Hf; discriminate).
        apply (ol_eq _ VO) in E. subst e.
        destruct (IH _ _ Hf) as (P1 & P2 & P3). repeat split.
        * intros k v Hk. apply P1.
          destruct (kcmp k (key x)) eqn:Ek.
          -- apply k_eq in Ek. subst k. rewrite (find_set_same kcmp k_eq). congruence.
          -- rewrite (find_set_other kcmp k_eq); auto. intro; subst. rewrite (proj2 (k_eq _ _) eq_refl) in Ek. discriminate.
          -- rewrite (find_set_other kcmp k_eq); auto. intro; subst. rewrite (proj2 (k_eq _ _) eq_refl) in Ek. discriminate.
        * intros v [->|Hin]; [|auto]. apply P1. apply (find_set_same kcmp k_eq).
        * intros k v Hk. destruct (P3 k v Hk) as [Hm|Hin]; [|right; right; exact Hin].
          destruct (kcmp k (key x)) eqn:Ek.
          -- apply k_eq in Ek. subst k. rewrite (find_set_same kcmp k_eq) in Hm. inversion Hm; subst. right; left; reflexivity.
          -- rewrite (find_set_other kcmp k_eq) in Hm; auto. intro; subst. rewrite (proj2 (k_eq _ _) eq_refl) in Ek. discriminate.
          -- rewrite (find_set_other kcmp k_eq) in Hm; auto. intro; subst. rewrite (proj2 (k_eq _ _) eq_refl) in Ek. discriminate.
      + destruct (IH _ _ Hf) as (P1 & P2 & P3). repeat split.
        * intros k v Hk. apply P1.
          destruct (kcmp k (key x)) eqn:Ek.
          -- apply k_eq in Ek. subst k. congruence.
          -- rewrite (find_set_other kcmp k_eq); auto. intro; subst. rewrite (proj2 (k_eq _ _) eq_refl) in Ek. discriminate.
          -- rewrite (find_set_other kcmp k_eq); auto. intro; subst. rewrite (proj2 (k_eq _ _) eq_refl) in Ek. discriminate.
        * intros v [->|Hin]; [|auto]. apply P1. apply (find_set_same kcmp k_eq).
        * intros k v Hk. destruct (P3 k v Hk) as [Hm|Hin]; [|right; right; exact Hin].
          destruct (kcmp k (key x)) eqn:Ek.
          -- apply k_eq in Ek. subst k. rewrite (find_set_same kcmp k_eq) in Hm. inversion Hm; subst. right; left; reflexivity.
          -- rewrite (find_set_other kcmp k_eq) in Hm; auto. intro; subst. rewrite (proj2 (k_eq _ _) eq_refl) in Ek. discriminate.
          -- rewrite (find_set_other kcmp k_eq) in Hm; auto. intro; subst. rewrite (proj2 (k_eq _ _) eq_refl) in Ek. discriminate.
  Qed.

  Lemma canon_keyed vs : forall m m',
    fold_left (canon_step kcmp vcmp key) vs (Some m) = Some m' ->
    (forall k v, find kcmp k m = Some v -> k = key v) ->
    forall k v, find kcmp k m' = Some v -> k = key v.
  Proof.
    induction vs as [|x vs IH]; intros m m' Hf Hk; [inversion Hf; subst; exact Hk|].
    cbn [fold_left] in Hf. unfold canon_step at 2 in Hf.
    assert (Hset : forall k v, find kcmp k (set kcmp (key x) x m) = Some v -> k = key v).
    { intros k v Hv. destruct (kcmp k (key x)) eqn:Ek.
      - apply k_eq in Ek. subst k. rewrite (find_set_same kcmp k_eq) in Hv. inversion Hv; subst; reflexivity.
      - rewrite (find_set_other kcmp k_eq) in Hv; auto. intro; subst. rewrite (proj2 (k_eq _ _) eq_refl) in Ek. discriminate.
      - rewrite (find_set_other kcmp k_eq) in Hv; auto. intro; subst. rewrite (proj2 (k_eq _ _) eq_refl) in Ek. discriminate. }
    destruct (find kcmp (key x) m) as [e|].
    - destruct (vcmp e x); try (rewrite canon_step_none in Hf; discriminate). eapply IH; eauto.
    - eapply IH; eauto.
  Qed.

  Lemma canon_contains vs m v : canon kcmp vcmp key vs = Some m -> In v vs -> In (key v, v) m.
  Proof.
    intros Hc Hin. destruct (canon_fold vs [] m Hc) as (_ & P2 & _).
    apply (find_in kcmp k_eq). apply P2, Hin.
  Qed.

  Lemma canon_sorted_gen vs : forall m m', sorted kcmp m ->
    fold_left (canon_step kcmp vcmp key) vs (Some m) = Some m' -> sorted kcmp m'.
  Proof.
    induction vs as [|x vs IH]; intros m m' Hs Hf; [inversion Hf; subst; exact Hs|].
    cbn [fold_left] in Hf. unfold canon_step at 2 in Hf.
    destruct (find kcmp (key x) m) as [e|].
    - destruct (vcmp e x); try (rewrite canon_step_none in Hf; discriminate).
      eapply IH; [|exact Hf]. apply set_sorted; try exact k_eq; try exact (ol_antisym _ KO); try exact (ol_trans _ KO); auto.
    - eapply IH; [|exact Hf]. apply set_sorted; try exact k_eq; try exact (ol_antisym _ KO); try exact (ol_trans _ KO); auto.
  Qed.

  Lemma canon_from vs m k v : canon kcmp vcmp key vs = Some m -> In (k, v) m -> sorted kcmp m -> In v vs.
  Proof.
    intros Hc Hin Hs. destruct (canon_fold vs [] m Hc) as (_ & _ & P3).
    assert (Hf : find kcmp k m = Some v).
    { apply (in_find kcmp k_eq (ol_antisym _ KO) (ol_trans _ KO)); auto. }
    destruct (P3 k v Hf) as [Hm|Hv]; [discriminate|exact Hv].
  Qed.
End CanonFacts.

Section ExportProofs.
  Variable H : bytes -> N.
  Notation Collision := (Collision H).

  (* ---- CAS-addressed ---- *)
  Lemma cas_blob_ok cas r : cas_blob H cas r = CASOk ->
    exists b, find N.compare (cref_hash r) cas = Some b /\ H b = cref_hash r /\ lenN b = cref_len r.
  Proof.
    unfold cas_blob. destruct (find N.compare (cref_hash r) cas) as [b|]; [|discriminate].
    destruct (N.eqb_spec (H b) (cref_hash r)); cbn; [|discriminate].
    destruct (N.eqb_spec (lenN b) (cref_len r)); cbn; [|discriminate].
    intros _. exists b. auto.
  Qed.

  Lemma cas_blobs_ok cas rs : cas_blobs H cas rs = CASOk -> forall r, In r rs -> cas_blob H cas r = CASOk.
  Proof.
    induction rs as [|x rs IH]; intros Hk r [].
    - subst. cbn in Hk. destruct (cas_blob H cas r); try discriminate. reflexivity.
    - cbn in Hk. destruct (cas_blob H cas x); try discriminate. auto.
  Qed.

  Lemma cas_blobs_all_ok cas rs : (forall r, In r rs -> cas_blob H cas r = CASOk) -> cas_blobs H cas rs = CASOk.
  Proof.
    induction rs as [|x rs IH]; intros Ha; [reflexivity|].
    cbn. rewrite (Ha x (or_introl eq_refl)). apply IH. intros r Hr. apply Ha. right; exact Hr.
  Qed.

  (* Ok means: every referenced blob is present, hashes to its reference and has the referenced length *)
  Lemma cas_ok_intact mats segrefs retrefs cas : cas_check H mats segrefs retrefs cas = CASOk ->
    forall r, In r (segrefs ++ retrefs) ->
      exists b, find N.compare (cref_hash r) cas = Some b /\ H b = cref_hash r /\ lenN b = cref_len r.
  Proof.
    unfold cas_check. destruct (canon key_cmp cref_cmp cref_key retrefs) as [rs|] eqn:Hc; [|discriminate].
    destruct (orb _ _); [discriminate|].
    destruct (cas_blobs H cas segrefs) eqn:Hs; try discriminate.
    intros Hr r Hin. apply cas_blob_ok. apply in_app_or in Hin as [Hin|Hin].
    - exact (cas_blobs_ok _ _ Hs r Hin).
    - eapply cas_blobs_ok; [exact Hr|]. apply in_map_iff. exists (cref_key r, r). split; [reflexivity|].
      eapply canon_contains; eauto using key_order, cref_order.
  Qed.

  Lemma cas_withheld_is_obstruction mats segrefs retrefs cas r :
    In r (segrefs ++ retrefs) -> find N.compare (cref_hash r) cas = None ->
    cas_check H mats segrefs retrefs cas <> CASOk.
  Proof.
    intros Hin Hf Hok. destruct (cas_ok_intact _ _ _ _ Hok r Hin) as (b & Hb & _). congruence.
  Qed.

  Lemma cas_corrupt_is_obstruction mats segrefs retrefs cas r orig c :
    In r (segrefs ++ retrefs) -> H orig = cref_hash r -> find N.compare (cref_hash r) cas = Some c -> c <> orig ->
    cas_check H mats segrefs retrefs cas <> CASOk \/ Collision.
  Proof.
    intros Hin Ho Hf Hne.
    destruct (cas_check H mats segrefs retrefs cas) eqn:Hk; try (left; discriminate).
    right. destruct (cas_ok_intact _ _ _ _ Hk r Hin) as (b & Hb & Hh & _).
    rewrite Hf in Hb. inversion Hb; subst b. exists c, orig. split; auto. congruence.
  Qed.

  (* ---- self-contained ---- *)
  Lemma sc_hashes_none ps : sc_hashes H ps = None ->
    forall d m b, In (d, (m, b)) ps -> H b = mat_digest m.
  Proof.
    induction ps as [|[d0 [m0 b0]] ps IH]; intros Hn d m b []; cbn in Hn.
    - inversion H0; subst. destruct (N.eqb_spec (H b) (mat_digest m)); [auto|discriminate].
    - destruct (N.eqb (H b0) (mat_digest m0)); [eauto|discriminate].
  Qed.

  Lemma sc_missing_none mats ps : sc_missing mats ps = None ->
    forall m, In m mats -> mat_present m = true -> mem N.compare (mat_digest m) ps = true.
  Proof.
    induction mats as [|x mats IH]; intros Hn m [] Hp; cbn in Hn.
    - subst. rewrite Hp in Hn. cbn in Hn. destruct (mem N.compare (mat_digest m) ps); [reflexivity|discriminate].
    - destruct (mat_present x && negb (mem N.compare (mat_digest x) ps)); [discriminate|eauto].
  Qed.

  Lemma sc_extra_none mats ps : sc_extra mats ps = None ->
    forall d p, In (d, p) ps -> exists m, In m mats /\ mat_digest m = d.
  Proof.
    induction ps as [|[d0 p0] ps IH]; intros Hn d p []; cbn in Hn.
    - inversion H0; subst. destruct (existsb (fun m => N.eqb (mat_digest m) d) mats) eqn:E; [|discriminate].
      apply existsb_exists in E as (m & Hm & Heq). exists m. split; auto. apply N.eqb_eq; exact Heq.
    - destruct (existsb (fun m => N.eqb (mat_digest m) d0) mats); [eauto|discriminate].
  Qed.

  (* Ok means: every embedded payload hashes to the digest of its record, every present record has
     such a payload, and no payload is for a digest outside the record set *)
  Lemma sc_ok_intact mats pays : sc_check H mats pays = SCOk ->
    (forall m b, In (m, b) pays -> H b = mat_digest m /\ exists m', In m' mats /\ mat_digest m' = mat_digest m) /\
    (forall m, In m mats -> mat_present m = true ->
       exists m' b, In (m', b) pays /\ mat_digest m' = mat_digest m /\ H b = mat_digest m).
  Proof.
    unfold sc_check.
    destruct (canon N.compare payload_cmp (fun p => mat_digest (fst p)) pays) as [ps|] eqn:Hc; [|discriminate].
    destruct (sc_hashes H ps) as [[e a]|] eqn:Hh; [discriminate|].
    destruct (sc_missing mats ps) eqn:Hm; [discriminate|].
    destruct (sc_extra mats ps) eqn:He; [discriminate|]. intros _.
    assert (Hs : sorted N.compare ps).
    { eapply canon_sorted_gen; try exact N_order; try exact Hc; exact I. }
    split.
    - intros m b Hin.
      pose proof (canon_contains N.compare payload_cmp _ N_order payload_order pays ps (m, b) Hc Hin) as Hi. cbn in Hi.
      split; [eapply sc_hashes_none; eauto|]. eapply sc_extra_none; eauto.
    - intros m Hin Hp. pose proof (sc_missing_none _ _ Hm m Hin Hp) as Hmem.
      unfold mem in Hmem. destruct (find N.compare (mat_digest m) ps) as [[m' b]|] eqn:F; [|discriminate].
      apply (find_in N.compare (ol_eq _ N_order)) in F.
      pose proof (canon_from N.compare payload_cmp _ N_order payload_order pays ps _ _ Hc F Hs) as Hv.
      pose proof (canon_contains N.compare payload_cmp _ N_order payload_order pays ps (m', b) Hc Hv) as Hi. cbn in Hi.
      assert (Hd : mat_digest m' = mat_digest m).
      { (* canon stores every value under its own key *)
        pose proof (in_find N.compare (ol_eq _ N_order) (ol_antisym _ N_order) (ol_trans _ N_order) _ _ _ Hs F) as F1.
        assert (Hkk : mat_digest m = mat_digest (fst (m', b))).
        { eapply (canon_keyed N.compare payload_cmp (fun p => mat_digest (fst p)) N_order pays [] ps Hc); [|exact F1].
          intros k v Hk. discriminate. }
        cbn in Hkk. congruence. }
      exists m', b. repeat split; auto. rewrite <- Hd. eapply sc_hashes_none; eauto.
  Qed.

  Lemma sc_withheld_is_obstruction mats pays m : In m mats -> mat_present m = true ->
    (forall m' b, In (m', b) pays -> mat_digest m' <> mat_digest m) -> sc_check H mats pays <> SCOk.
  Proof.
    intros Hin Hp Hno Hok. destruct (sc_ok_intact _ _ Hok) as [_ P2].
    destruct (P2 m Hin Hp) as (m' & b & Hi & Hd & _). exact (Hno m' b Hi Hd).
  Qed.

  Lemma sc_corrupt_is_obstruction mats pays m c orig : In (m, c) pays -> H orig = mat_digest m -> c <> orig ->
    sc_check H mats pays <> SCOk \/ Collision.
  Proof.
    intros Hin Ho Hne. destruct (sc_check H mats pays) eqn:Hk; try (left; discriminate).
    right. destruct (sc_ok_intact _ _ Hk) as [P1 _]. destruct (P1 m c Hin) as [Hh _].
    exists c, orig. split; auto. congruence.
  Qed.
  (* ---- round trips (record level): intact, complete material is accepted ---- *)
  Lemma cas_blob_intact_ok cas r b : find N.compare (cref_hash r) cas = Some b -> H b = cref_hash r ->
    lenN b = cref_len r -> cas_blob H cas r = CASOk.
  Proof. intros Hf Hh Hl. unfold cas_blob. rewrite Hf, Hh, Hl, !N.eqb_refl. reflexivity. Qed.

  Lemma cas_roundtrip mats segrefs retrefs cas rs :
    canon key_cmp cref_cmp cref_key retrefs = Some rs ->
    tdiff (tset (map mat_triple (filter mat_present mats))) (tset (map cref_triple (map snd rs))) = 0 ->
    tdiff (tset (map cref_triple (map snd rs))) (tset (map mat_triple (filter mat_present mats))) = 0 ->
    (forall r, In r (segrefs ++ retrefs) ->
       exists b, find N.compare (cref_hash r) cas = Some b /\ H b = cref_hash r /\ lenN b = cref_len r) ->
    cas_check H mats segrefs retrefs cas = CASOk.
  Proof.
    intros Hc H1 H2 Hall. unfold cas_check. rewrite Hc, H1, H2. cbn.
    assert (Hs : sorted key_cmp rs).
    { eapply canon_sorted_gen; try exact key_order; try exact Hc; exact I. }
    rewrite cas_blobs_all_ok.
    - apply cas_blobs_all_ok. intros r Hin. apply in_map_iff in Hin as ([k r'] & E & Hin). cbn in E. subst r'.
      pose proof (canon_from key_cmp cref_cmp cref_key key_order cref_order retrefs rs k r Hc Hin Hs) as Hr.
      destruct (Hall r (in_or_app _ _ _ (or_intror Hr))) as (b & Hf & Hh & Hl). eapply cas_blob_intact_ok; eauto.
    - intros r Hin. destruct (Hall r (in_or_app _ _ _ (or_introl Hin))) as (b & Hf & Hh & Hl).
      eapply cas_blob_intact_ok; eauto.
  Qed.

  Lemma sc_hashes_all ps : (forall d m b, In (d, (m, b)) ps -> H b = mat_digest m) -> sc_hashes H ps = None.
  Proof.
    induction ps as [|[d [m b]] ps IH]; intros Ha; [reflexivity|]. cbn.
    rewrite (Ha d m b (or_introl eq_refl)), N.eqb_refl. apply IH. intros; eapply Ha; right; eauto.
  Qed.

  Lemma sc_missing_all mats ps :
    (forall m, In m mats -> mat_present m = true -> mem N.compare (mat_digest m) ps = true) ->
    sc_missing mats ps = None.
  Proof.
    induction mats as [|m mats IH]; intros Ha; [reflexivity|]. cbn.
    destruct (mat_present m) eqn:Hp; cbn.
    - rewrite (Ha m (or_introl eq_refl) Hp). cbn. apply IH. intros; apply Ha; auto. right; auto.
    - apply IH. intros; apply Ha; auto. right; auto.
  Qed.

  Lemma sc_extra_all mats ps :
    (forall d p, In (d, p) ps -> exists m, In m mats /\ mat_digest m = d) -> sc_extra mats ps = None.
  Proof.
    induction ps as [|[d p] ps IH]; intros Ha; [reflexivity|]. cbn.
    destruct (Ha d p (or_introl eq_refl)) as (m & Hm & Hd).
    assert (E : existsb (fun m0 => N.eqb (mat_digest m0) d) mats = true).
    { apply existsb_exists. exists m. split; auto. apply N.eqb_eq; exact Hd. }
    rewrite E. apply IH. intros; eapply Ha; right; eauto.
  Qed.

  Lemma sc_roundtrip mats pays ps :
    canon N.compare payload_cmp (fun p => mat_digest (fst p)) pays = Some ps ->
    (forall m b, In (m, b) pays -> H b = mat_digest m /\ exists m', In m' mats /\ mat_digest m' = mat_digest m) ->
    (forall m, In m mats -> mat_present m = true -> exists m' b, In (m', b) pays /\ mat_digest m' = mat_digest m) ->
    sc_check H mats pays = SCOk.
  Proof.
    intros Hc Hp Hm. unfold sc_check. rewrite Hc.
    assert (Hs : sorted N.compare ps).
    { eapply canon_sorted_gen; try exact N_order; try exact Hc; exact I. }
    assert (Hfrom : forall d m b, In (d, (m, b)) ps -> In (m, b) pays /\ d = mat_digest m).
    { intros d m b Hin. split.
      - eapply (canon_from N.compare payload_cmp _ N_order payload_order); eauto.
      - pose proof (in_find N.compare (ol_eq _ N_order) (ol_antisym _ N_order) (ol_trans _ N_order) _ _ _ Hs Hin) as F1.
        apply (canon_keyed N.compare payload_cmp (fun p => mat_digest (fst p)) N_order pays [] ps Hc) in F1; auto.
        intros k v Hk; discriminate. }
    rewrite sc_hashes_all.
    - rewrite sc_missing_all.
      + rewrite sc_extra_all; [reflexivity|].
        intros d [m b] Hin. destruct (Hfrom d m b Hin) as [Hi ->]. destruct (Hp m b Hi) as [_ Hx]. exact Hx.
      + intros m Hin Hpres. destruct (Hm m Hin Hpres) as (m' & b & Hi & Hd).
        pose proof (canon_contains N.compare payload_cmp _ N_order payload_order pays ps (m', b) Hc Hi) as Hps. cbn in Hps.
        unfold mem. rewrite <- Hd.
        rewrite (in_find N.compare (ol_eq _ N_order) (ol_antisym _ N_order) (ol_trans _ N_order) _ _ _ Hs Hps). reflexivity.
    - intros d m b Hin. destruct (Hfrom d m b Hin) as [Hi _]. destruct (Hp m b Hi) as [Hh _]. exact Hh.
  Qed.
End ExportProofs.

(* ------------------------------------------------------------------ packaged statements pinned in Props/C20.v *)
Lemma mem_get_refines H mx ops :
  (forall h b, mem_get (fst (mem_run H (mem_new mx) ops)) h = Some b ->
               H b = h /\ In b (flat_map (offered H) ops)) /\
  (forall b, In b (flat_map (offered H) ops) ->
             mem_get (fst (mem_run H (mem_new mx) ops)) (H b) = Some b \/ Collision H).
Proof. split; [apply mem_get_sound | apply mem_get_complete]. Qed.

Lemma disk_get_refines H ops : forallb is_api ops = true ->
  (forall h b, disk_get H (fst (disk_run H (disk_open []) ops)) h = OBytes (Some b) ->
               H b = h /\ In b (flat_map (offered H) ops)) /\
  (forall b, In b (flat_map (offered H) ops) ->
             disk_get H (fst (disk_run H (disk_open []) ops)) (H b) = OBytes (Some b) \/ Collision H).
Proof. intros Hok. split; [intros h b; apply disk_get_sound, Hok | intros b; apply disk_get_complete, Hok]. Qed.

Lemma cas_withheld_or_corrupt H mats segrefs retrefs cas r :
  In r (segrefs ++ retrefs) ->
  (find N.compare (cref_hash r) cas = None -> cas_check H mats segrefs retrefs cas <> CASOk) /\
  (forall orig c, H orig = cref_hash r -> find N.compare (cref_hash r) cas = Some c -> c <> orig ->
     cas_check H mats segrefs retrefs cas <> CASOk \/ Collision H).
Proof.
  intros Hin. split.
  - apply cas_withheld_is_obstruction; exact Hin.
  - intros orig c. apply cas_corrupt_is_obstruction; exact Hin.
Qed.

Lemma sc_withheld_or_corrupt H mats pays :
  (forall m, In m mats -> mat_present m = true ->
     (forall m' b, In (m', b) pays -> mat_digest m' <> mat_digest m) -> sc_check H mats pays <> SCOk) /\
  (forall m c orig, In (m, c) pays -> H orig = mat_digest m -> c <> orig ->
     sc_check H mats pays <> SCOk \/ Collision H).
Proof.
  split.
  - intros m. apply sc_withheld_is_obstruction.
  - intros m c orig. apply sc_corrupt_is_obstruction.
Qed.
