(* The pending queue is a canonical map: draining after any enqueue sequence yields the
   (scope hash, rule id)-sorted association list of the last payload enqueued per key
   (C01: arrival order and multiplicity are irrelevant; C03: canonical consideration order). *)
From Coq Require Import List Arith NArith Lia Bool Permutation Sorting.Sorted.
From Echo Require Import Base.FinMap Base.Order Model.Sched Proofs.SortProofs.
Import ListNotations.
Open Scope N_scope.

Definition qkey := (N * N)%type.
Definition kcmp : qkey -> qkey -> comparison := pair_cmp N.compare N.compare.
Lemma kcmp_order : OrderLaws kcmp.
Proof. apply pair_order; apply N_order. Qed.
Definition k_eq := ol_eq _ kcmp_order.
Definition k_as := ol_antisym _ kcmp_order.
Definition k_tr := ol_trans _ kcmp_order.
Ltac fk := try exact k_eq; try exact k_as; try exact k_tr.

Lemma qkey_dec (a b : qkey) : {a = b} + {a <> b}.
Proof. decide equality; apply N.eq_dec. Qed.

Definition ckey (c : N * N * N) : qkey := (fst (fst c), snd (fst c)).
Definition chandle (c : N * N * N) : N := snd c.
Definition tkey (t : thin) : qkey := (t_scope t, t_rule t).
Definition kv (l : list thin) : list (qkey * N) := map (fun t => (tkey t, t_handle t)) l.

Definition wf_cand (c : N * N * N) : Prop := fst (fst c) < 2 ^ 256 /\ snd (fst c) < two32.

(* what the queue denotes: last payload per key, in key order *)
Definition queue_map (cs : list (N * N * N)) : list (qkey * N) :=
  of_list_set kcmp (map (fun c => (ckey c, chandle c)) cs).

Definition drain_kv (cs : list (N * N * N)) : list (qkey * N) := kv (drain_thin (enqueue_all cs)).

(* ---------- refresh ---------- *)

Definition kmatch (sc ru : N) (t : thin) : bool := (t_scope t =? sc) && (t_rule t =? ru).
Lemma kmatch_iff sc ru t : kmatch sc ru t = true <-> tkey t = (sc, ru).
Proof.
  unfold kmatch, tkey. rewrite andb_true_iff, !N.eqb_eq. split.
  - intros [-> ->]; reflexivity.
  - intros H; inversion H; auto.
Qed.

Definition upd (sc ru n h : N) (t : thin) : thin :=
  if kmatch sc ru t then {| t_scope := sc; t_rule := ru; t_nonce := n; t_handle := h |} else t.

Lemma upd_key sc ru n h t : tkey (upd sc ru n h t) = tkey t.
Proof.
  unfold upd. destruct (kmatch sc ru t) eqn:E; [|reflexivity].
  apply kmatch_iff in E. rewrite E. reflexivity.
Qed.

Lemma refresh_none sc ru n h l :
  ~ In (sc, ru) (map tkey l) -> refresh sc ru n h l = None.
Proof.
  induction l as [|r l IH]; cbn; intros H; [reflexivity|].
  fold (kmatch sc ru r). destruct (kmatch sc ru r) eqn:E.
  - apply kmatch_iff in E. exfalso. apply H. left. exact E.
  - rewrite IH; [reflexivity|]. intro; apply H; right; assumption.
Qed.

Lemma refresh_map sc ru n h l :
  NoDup (map tkey l) -> In (sc, ru) (map tkey l) ->
  refresh sc ru n h l = Some (map (upd sc ru n h) l).
Proof.
  induction l as [|r l IH]; cbn; intros Hnd Hin; [destruct Hin|].
  inversion Hnd as [|? ? Hni Hnd']; subst.
  fold (kmatch sc ru r). unfold upd at 1. destruct (kmatch sc ru r) eqn:E.
  - apply kmatch_iff in E. f_equal. f_equal.
    rewrite <- (map_id l) at 1. apply map_ext_in. intros t Ht.
    unfold upd. destruct (kmatch sc ru t) eqn:E2; [|reflexivity].
    apply kmatch_iff in E2. exfalso. apply Hni. rewrite E, <- E2. apply in_map. exact Ht.
  - destruct Hin as [Hin|Hin].
    + apply kmatch_iff in Hin. congruence.
    + rewrite (IH Hnd' Hin). reflexivity.
Qed.

(* ---------- the queue invariant ---------- *)

Definition Q (st : N * list thin) (cs : list (N * N * N)) : Prop :=
  fst st < two32 /\
  NoDup (map tkey (snd st)) /\
  Forall wf_thin (snd st) /\
  (forall k h, In (k, h) (kv (snd st)) <-> find kcmp k (queue_map cs) = Some h).

Lemma queue_map_snoc cs c :
  queue_map (cs ++ [c]) = set kcmp (ckey c) (chandle c) (queue_map cs).
Proof. unfold queue_map, of_list_set. rewrite map_app, fold_left_app. reflexivity. Qed.

Lemma queue_map_sorted cs : sorted kcmp (queue_map cs).
Proof.
  unfold queue_map, of_list_set. generalize (map (fun c => (ckey c, chandle c)) cs). intros l.
  assert (H : forall m, sorted kcmp m -> sorted kcmp (fold_left (fun m kv => set kcmp (fst kv) (snd kv) m) l m)).
  { induction l as [|x l IH]; cbn; intros m Hm; [exact Hm|]. apply IH. apply set_sorted; fk; exact Hm. }
  apply H. exact I.
Qed.

Lemma in_kv_key k h l : In (k, h) (kv l) -> In k (map tkey l).
Proof. unfold kv. rewrite in_map_iff. intros [t [E Ht]]. inversion E; subst. apply in_map; exact Ht. Qed.

Lemma key_in_kv k l : In k (map tkey l) -> exists h, In (k, h) (kv l).
Proof.
  rewrite in_map_iff. intros [t [E Ht]]. exists (t_handle t). unfold kv. apply in_map_iff.
  exists t. split; [rewrite E; reflexivity|exact Ht].
Qed.

Lemma Q_step st cs c : wf_cand c -> Q st cs -> Q (enqueue st c) (cs ++ [c]).
Proof.
  destruct c as [[sc ru] h]. destruct st as [n L]. intros [Hsc Hru] (Hn & Hnd & Hwf & Hkv).
  cbn [fst snd] in *. unfold Q, enqueue.
  assert (Hn' : (n + 1) mod two32 < two32) by (apply N.mod_lt; unfold two32; lia).
  assert (Hnew : wf_thin {| t_scope := sc; t_rule := ru; t_nonce := n; t_handle := h |})
    by (repeat split; assumption).
  destruct (in_dec qkey_dec (sc, ru) (map tkey L)) as [Hin|Hni].
  - rewrite (refresh_map sc ru n h L Hnd Hin). cbn [fst snd].
    split; [exact Hn'|]. split; [|split].
    + rewrite map_map. rewrite (map_ext _ tkey) by (intros; apply upd_key). exact Hnd.
    + rewrite Forall_forall in *. intros t Ht. apply in_map_iff in Ht. destruct Ht as [t0 [E Ht0]]. subst t.
      unfold upd. destruct (kmatch sc ru t0); [exact Hnew|apply Hwf; exact Ht0].
    + intros k x. rewrite queue_map_snoc. unfold ckey, chandle; cbn [fst snd].
      destruct (qkey_dec k (sc, ru)) as [->|Hne].
      * rewrite find_set_same by fk. split.
        -- unfold kv. rewrite map_map. rewrite in_map_iff. intros [t [E Ht]].
           unfold upd in E. destruct (kmatch sc ru t) eqn:M; cbn in E.
           ++ inversion E; reflexivity.
           ++ inversion E as [[E1 E2]]. exfalso.
              assert (kmatch sc ru t = true) by (apply kmatch_iff; unfold tkey; congruence). congruence.
        -- intros E; inversion E; subst x.
           apply in_map_iff in Hin. destruct Hin as [t [Et Ht]].
           unfold kv. rewrite map_map. apply in_map_iff. exists t. split; [|exact Ht].
           unfold upd. rewrite (proj2 (kmatch_iff sc ru t) Et). reflexivity.
      * rewrite find_set_other by (fk; exact Hne). rewrite <- Hkv.
        unfold kv. rewrite map_map. rewrite !in_map_iff. split.
        -- intros [t [E Ht]]. exists t. split; [|exact Ht].
           unfold upd in E. destruct (kmatch sc ru t) eqn:M; [|exact E].
           cbn in E. inversion E; subst. contradiction.
        -- intros [t [E Ht]]. exists t. split; [|exact Ht].
           unfold upd. destruct (kmatch sc ru t) eqn:M; [|exact E].
           apply kmatch_iff in M. inversion E; subst. contradiction.
  - rewrite (refresh_none sc ru n h L Hni). cbn [fst snd].
    split; [exact Hn'|]. split; [|split].
    + rewrite map_app. cbn.
      eapply Permutation_NoDup; [apply Permutation_cons_append|].
      constructor; [exact Hni|exact Hnd].
    + apply Forall_app. split; [exact Hwf|constructor; [exact Hnew|constructor]].
    + intros k x. rewrite queue_map_snoc. unfold ckey, chandle; cbn [fst snd].
      unfold kv. rewrite map_app, in_app_iff. cbn.
      destruct (qkey_dec k (sc, ru)) as [->|Hne].
      * rewrite find_set_same by fk. split.
        -- intros [H|[H|[]]]; [exfalso; apply Hni; eapply in_kv_key; exact H|inversion H; reflexivity].
        -- intros E; inversion E; subst. right; left; reflexivity.
      * rewrite find_set_other by (fk; exact Hne). rewrite <- Hkv. split.
        -- intros [H|[H|[]]]; [exact H|inversion H; subst; contradiction].
        -- intros H; left; exact H.
Qed.

Lemma Q_init : Q (0, []) [].
Proof.
  unfold Q; cbn. split; [unfold two32; lia|]. split; [constructor|]. split; [constructor|].
  intros k h. split; [intros []|discriminate].
Qed.

Lemma Q_all cs : Forall wf_cand cs -> Q (fold_left enqueue cs (0, [])) cs.
Proof.
  induction cs as [|c cs IH] using rev_ind; intros Hw; [exact Q_init|].
  apply Forall_app in Hw. destruct Hw as [Hw Hc]. inversion Hc; subst.
  rewrite fold_left_app. cbn [fold_left]. apply Q_step; auto.
Qed.

(* ---------- thin_key order vs (scope, rule) order ---------- *)

Lemma thin_key_kcmp a b :
  wf_thin a -> wf_thin b -> thin_key a <= thin_key b -> tkey a <> tkey b ->
  kcmp (tkey a) (tkey b) = Lt.
Proof.
  intros (Hs1 & Hr1 & Hn1) (Hs2 & Hr2 & Hn2) Hle Hne.
  unfold kcmp, pair_cmp, tkey in *; cbn [fst snd] in *. unfold thin_key, two32 in *.
  destruct (N.compare_spec (t_scope a) (t_scope b)) as [E|L|G].
  - destruct (N.compare_spec (t_rule a) (t_rule b)) as [E2|L2|G2]; [|reflexivity|].
    + exfalso. apply Hne. congruence.
    + exfalso. nia.
  - reflexivity.
  - exfalso. nia.
Qed.

Lemma tkey_thin_key_inj a b : wf_thin a -> wf_thin b -> thin_key a = thin_key b -> tkey a = tkey b.
Proof.
  intros (Hs1 & Hr1 & Hn1) (Hs2 & Hr2 & Hn2) E. unfold thin_key, tkey, two32 in *.
  assert (t_scope a = t_scope b) by nia. assert (t_rule a = t_rule b) by nia. congruence.
Qed.

Lemma NoDup_thin_key l : Forall wf_thin l -> NoDup (map tkey l) -> NoDup (map thin_key l).
Proof.
  induction l as [|a l IH]; cbn; intros Hw Hnd; [constructor|].
  inversion Hw as [|? ? Ha Hl]; subst. inversion Hnd as [|? ? Hni Hnd']; subst.
  constructor; [|apply IH; assumption].
  intro Hin. apply Hni. apply in_map_iff in Hin. destruct Hin as [b [E Hb]].
  rewrite Forall_forall in Hl.
  rewrite <- (tkey_thin_key_inj b a (Hl b Hb) Ha E). apply in_map; exact Hb.
Qed.

Lemma SS_sorted (m : list (qkey * N)) :
  StronglySorted (fun x y => kcmp (fst x) (fst y) = Lt) m -> sorted kcmp m.
Proof.
  induction 1 as [|[k v] m Hs IH Hf]; cbn; [exact I|]. split; [|exact IH].
  destruct m as [|[k2 v2] m2]; [exact I|]. cbn. inversion Hf; subst. assumption.
Qed.

Lemma kv_sorted D :
  Forall wf_thin D -> NoDup (map tkey D) ->
  StronglySorted (fun a b => thin_key a <= thin_key b) D -> sorted kcmp (kv D).
Proof.
  intros Hw Hnd Hs. apply SS_sorted. unfold kv.
  induction Hs as [|a D Hs IH Hf]; cbn; [constructor|].
  inversion Hw as [|? ? Ha HD]; subst. inversion Hnd as [|? ? Hni Hnd']; subst.
  constructor; [apply IH; assumption|].
  rewrite Forall_forall in *. intros x Hx. apply in_map_iff in Hx. destruct Hx as [b [E Hb]]. subst x. cbn.
  apply thin_key_kcmp; auto.
  intro Eab. apply Hni. rewrite Eab. apply in_map; exact Hb.
Qed.

(* ---------- main theorem ---------- *)

Theorem drain_canonical cs : Forall wf_cand cs -> drain_kv cs = queue_map cs.
Proof.
  intros Hw. pose proof (Q_all cs Hw) as (Hn & Hnd & Hwf & Hkv).
  unfold drain_kv, enqueue_all. set (L := snd (fold_left enqueue cs (0, []))) in *.
  destruct (drain_thin_sorted L Hwf (NoDup_thin_key L Hwf Hnd)) as (_ & HP & HS).
  set (D := drain_thin L) in *.
  assert (HwD : Forall wf_thin D) by (eapply Forall_perm; eauto).
  assert (HndD : NoDup (map tkey D)) by (eapply Permutation_NoDup; [apply Permutation_map; exact HP|exact Hnd]).
  assert (HsD : sorted kcmp (kv D)) by (apply kv_sorted; assumption).
  apply (sorted_ext kcmp k_eq k_as k_tr); [exact HsD|apply queue_map_sorted|].
  intros k. destruct (find kcmp k (queue_map cs)) as [h|] eqn:F.
  - apply Hkv in F. apply (in_find kcmp k_eq k_as k_tr); [exact HsD|].
    unfold kv in *. eapply Permutation_in; [apply Permutation_map; exact HP|exact F].
  - destruct (find kcmp k (kv D)) as [h|] eqn:F2; [|reflexivity].
    apply (find_in kcmp k_eq) in F2.
    assert (In (k, h) (kv L)).
    { unfold kv in *. eapply Permutation_in; [apply Permutation_map, Permutation_sym; exact HP|exact F2]. }
    apply Hkv in H. congruence.
Qed.

Corollary drain_handles_canonical cs :
  Forall wf_cand cs -> drain_handles cs = map snd (queue_map cs).
Proof.
  intros Hw. rewrite <- (drain_canonical cs Hw). unfold drain_handles, drain_kv, kv.
  rewrite map_map. reflexivity.
Qed.

(* ---------- arrival order and multiplicity are irrelevant ---------- *)

(* same key => same payload (match and footprint are functions of (state, rule, scope)) *)
Definition key_functional (cs : list (N * N * N)) : Prop :=
  forall c1 c2, In c1 cs -> In c2 cs -> ckey c1 = ckey c2 -> chandle c1 = chandle c2.

Lemma find_fold_set_in (l : list (qkey * N)) : forall m k h,
  find kcmp k (fold_left (fun m kv => set kcmp (fst kv) (snd kv) m) l m) = Some h ->
  In (k, h) l \/ find kcmp k m = Some h.
Proof.
  induction l as [|[k1 h1] l IH]; cbn; intros m k h H; [right; exact H|].
  destruct (IH _ _ _ H) as [Hin|Hf]; [left; right; exact Hin|].
  destruct (qkey_dec k k1) as [->|Hne].
  - rewrite find_set_same in Hf by fk. inversion Hf; subst. left; left; reflexivity.
  - rewrite find_set_other in Hf by (fk; exact Hne). right; exact Hf.
Qed.

Lemma find_fold_set_key (l : list (qkey * N)) : forall m k,
  In k (map fst l) ->
  exists h, find kcmp k (fold_left (fun m kv => set kcmp (fst kv) (snd kv) m) l m) = Some h.
Proof.
  induction l as [|[k1 h1] l IH]; cbn; intros m k Hin; [destruct Hin|].
  destruct (in_dec qkey_dec k (map fst l)) as [Hl|Hnl]; [apply IH; exact Hl|].
  destruct Hin as [->|Hin]; [|contradiction].
  clear IH. exists h1.
  assert (G : forall l m, ~ In k (map fst l) -> find kcmp k m = Some h1 ->
            find kcmp k (fold_left (fun m kv => set kcmp (fst kv) (snd kv) m) l m) = Some h1).
  { clear. induction l as [|[k2 h2] l IH]; cbn; intros m Hni Hf; [exact Hf|].
    apply IH; [tauto|]. rewrite find_set_other by (fk; intro; subst; tauto). exact Hf. }
  apply G; [exact Hnl|]. apply find_set_same; fk.
Qed.

Lemma queue_map_find cs k h :
  key_functional cs ->
  (find kcmp k (queue_map cs) = Some h <-> In (k, h) (map (fun c => (ckey c, chandle c)) cs)).
Proof.
  intros Hkf. unfold queue_map, of_list_set. split.
  - intros H. apply find_fold_set_in in H. destruct H as [H|H]; [exact H|discriminate].
  - intros Hin.
    destruct (find_fold_set_key (map (fun c => (ckey c, chandle c)) cs) [] k) as [h' Hh'].
    { rewrite map_map. apply in_map_iff in Hin. destruct Hin as [c [E Hc]]. inversion E; subst.
      apply in_map_iff. exists c. split; [reflexivity|exact Hc]. }
    rewrite Hh'. f_equal.
    apply find_fold_set_in in Hh'. destruct Hh' as [Hin'|Hd]; [|discriminate].
    apply in_map_iff in Hin. destruct Hin as [c [E Hc]]. inversion E; subst.
    apply in_map_iff in Hin'. destruct Hin' as [c' [E' Hc']].
    assert (Ek : ckey c' = ckey c) by congruence.
    assert (Eh : chandle c' = h') by congruence.
    rewrite <- Eh. apply Hkf; auto.
Qed.

Theorem queue_map_set_determined cs1 cs2 :
  key_functional cs1 -> key_functional cs2 ->
  (forall c, In c cs1 <-> In c cs2) -> queue_map cs1 = queue_map cs2.
Proof.
  intros H1 H2 Hs. apply (sorted_ext kcmp k_eq k_as k_tr); try apply queue_map_sorted.
  intros k.
  assert (E : forall h, find kcmp k (queue_map cs1) = Some h <-> find kcmp k (queue_map cs2) = Some h).
  { intros h. rewrite (queue_map_find cs1 k h H1), (queue_map_find cs2 k h H2).
    rewrite !in_map_iff. split; intros [c [E Hc]]; exists c; (split; [exact E|apply Hs; exact Hc]). }
  destruct (find kcmp k (queue_map cs1)) as [h|] eqn:F1.
  - symmetry. apply E. reflexivity.
  - destruct (find kcmp k (queue_map cs2)) as [h|] eqn:F2; [|reflexivity].
    destruct (E h) as [_ E2]. specialize (E2 eq_refl). discriminate.
Qed.

Theorem drain_set_determined cs1 cs2 :
  Forall wf_cand cs1 -> Forall wf_cand cs2 -> key_functional cs1 -> key_functional cs2 ->
  (forall c, In c cs1 <-> In c cs2) -> drain_handles cs1 = drain_handles cs2.
Proof.
  intros W1 W2 K1 K2 Hs. rewrite !drain_handles_canonical by assumption.
  rewrite (queue_map_set_determined cs1 cs2); auto.
Qed.
