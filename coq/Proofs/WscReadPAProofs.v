(* Lemmas about Model/WscReadPA.v (C13). *)
From Coq Require Import NArith Lia.
From Echo Require Import Model.CborPA Model.WscReadPA.
Open Scope N_scope.

Lemma index_range_ok usize_max len a e :
  a <= e -> e <= len -> len <= usize_max -> index_range usize_max len a e = ROk a e.
Proof.
  intros H1 H2 H3. unfold index_range.
  rewrite !N.mod_small by lia.
  assert (E1 : (e <? a) = false) by (apply N.ltb_ge; lia).
  assert (E2 : (len <? e) = false) by (apply N.ltb_ge; lia).
  rewrite E1, E2. reflexivity.
Qed.

(* a saturated end is u64::MAX, which exceeds every real buffer length *)
Lemma sat_add_le len a b : len < u64_max -> sat_add a b <= len -> sat_add a b = a + b.
Proof. unfold sat_add. lia. Qed.

Lemma read_bytes_total usize_max len offset length :
  len <= usize_max -> len < u64_max ->
  read_bytes_pa usize_max len offset length = RErrOob \/
  (read_bytes_pa usize_max len offset length = ROk offset (offset + length) /\ offset + length <= len).
Proof.
  intros Hl Hu. unfold read_bytes_pa.
  destruct (len <? sat_add offset length) eqn:E; [left; reflexivity|right].
  apply N.ltb_ge in E. pose proof (sat_add_le len offset length Hu E) as Hs. rewrite Hs in *.
  split; [apply index_range_ok; lia|lia].
Qed.

Lemma read_slice_total usize_max len base offset count elem align :
  len <= usize_max -> len < u64_max -> 0 < elem ->
  read_slice_pa usize_max len base offset count elem align = RErrOob \/
  read_slice_pa usize_max len base offset count elem align = RErrCast \/
  (read_slice_pa usize_max len base offset count elem align = ROk offset (offset + count * elem) /\
   offset + count * elem <= len /\ (base + offset) mod align = 0).
Proof.
  intros Hl Hu He. unfold read_slice_pa.
  destruct (len <? sat_add offset (sat_mul count elem)) eqn:E; [left; reflexivity|right].
  apply N.ltb_ge in E.
  pose proof (sat_add_le len offset (sat_mul count elem) Hu E) as Hs. rewrite Hs in *.
  assert (Hm : sat_mul count elem = count * elem) by (unfold sat_mul in *; lia).
  rewrite Hm in *.
  rewrite index_range_ok by lia.
  destruct ((base + offset) mod align =? 0) eqn:Ea; cbn [negb]; [|left; reflexivity].
  replace (offset + count * elem - offset) with (count * elem) by lia.
  rewrite N.mod_mul by lia. cbn. right. repeat split; try lia. apply N.eqb_eq. exact Ea.
Qed.

Theorem wsc_read_no_panic usize_max len base offset count elem align :
  len <= usize_max -> len < u64_max -> 0 < elem ->
  (forall p, read_bytes_pa usize_max len offset count <> RPanic p) /\
  (forall p, read_slice_pa usize_max len base offset count elem align <> RPanic p).
Proof.
  intros Hl Hu He. split; intros p.
  - destruct (read_bytes_total usize_max len offset count Hl Hu) as [E|[E _]]; rewrite E; discriminate.
  - destruct (read_slice_total usize_max len base offset count elem align Hl Hu He) as [E|[E|[E _]]]; rewrite E; discriminate.
Qed.

(* the hypothesis len < u64::MAX matters: without it the saturated end passes the check and a
   shorter slice than requested is returned (unreachable: no buffer has 2^64 - 1 bytes) *)
Lemma read_bytes_saturation_witness :
  read_bytes_pa u64_max u64_max 2 u64_max = ROk 2 u64_max.
Proof. vm_compute. reflexivity. Qed.
