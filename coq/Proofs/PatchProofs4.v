(* C04: when does an op apply?  Preconditions stated on slot values, then completeness of the diff. *)
From Coq Require Import List NArith Lia Bool Permutation Sorted.
From Echo Require Import Base.FinMap Base.Order Model.Patch Proofs.PatchProofs Proofs.PatchProofs2 Proofs.PatchProofs3.
Import ListNotations.
Open Scope N_scope.

Lemma look_inst_store st w : Struct st -> look st (SInst w) <> None -> exists s, get_store st w = Some s.
Proof.
  intros HS H. cbn in H. destruct (get_store st w) eqn:G; [eauto|].
  apply (sync_store_inst st w HS) in G. rewrite G in H. cbn in H. congruence.
Qed.

Lemma look_node_some st w n s : get_store st w = Some s ->
  (look st (SNode w n) <> None <-> nmem n (s_nodes s) = true).
Proof.
  intros G. cbn. rewrite G. cbn. unfold mem. destruct (nfind n (s_nodes s)); cbn; split; congruence.
Qed.

Lemma look_edge_some st w e s : get_store st w = Some s ->
  look st (SEdge w e) = option_map VEdge (nfind e (s_edges s)).
Proof. intros G. cbn. rewrite G. reflexivity. Qed.

Lemma ok_upsert_node st w n ty : Struct st -> look st (SInst w) <> None ->
  exists st', apply_op st (UpsertNode w n ty) = Ok st'.
Proof. intros HS H. destruct (look_inst_store st w HS H) as [s G]. cbn. rewrite G. eauto. Qed.

Lemma ok_upsert_edge st w e f t ty : Struct st -> look st (SInst w) <> None ->
  exists st', apply_op st (UpsertEdge w e f t ty) = Ok st'.
Proof. intros HS H. destruct (look_inst_store st w HS H) as [s G]. cbn. rewrite G. eauto. Qed.

Lemma ok_upsert_wi st w r p : exists st', apply_op st (UpsertWI w r p) = Ok st'.
Proof. cbn. eauto. Qed.

Lemma ok_delete_wi st w : look st (SInst w) <> None -> exists st', apply_op st (DeleteWI w) = Ok st'.
Proof. cbn. destruct (get_inst st w); cbn; [eauto|congruence]. Qed.

Lemma ok_delete_edge st w f e r : Struct st -> look st (SInst w) <> None ->
  look st (SEdge w e) = Some (VEdge r) -> e_from r = f ->
  exists st', apply_op st (DeleteEdge w f e) = Ok st'.
Proof.
  intros HS H He Hf. destruct (look_inst_store st w HS H) as [s G]. cbn [apply_op]. rewrite G.
  rewrite (look_edge_some st w e s G) in He. unfold delete_edge_exact.
  destruct (nfind e (s_edges s)) as [r'|]; cbn in He; [|discriminate]. inversion He; subst r'.
  rewrite Hf, N.eqb_refl. eauto.
Qed.

Lemma ok_delete_node st w n : Struct st -> look st (SInst w) <> None -> look st (SNode w n) <> None ->
  (forall e r, look st (SEdge w e) = Some (VEdge r) -> e_from r <> n /\ e_to r <> n) ->
  exists st', apply_op st (DeleteNode w n) = Ok st'.
Proof.
  intros HS H Hn Hiso. destruct (look_inst_store st w HS H) as [s G]. cbn [apply_op]. rewrite G.
  apply (look_node_some st w n s G) in Hn. unfold delete_node_isolated. apply nmem_true in Hn.
  destruct Hn as [ty Hn]. rewrite Hn.
  destruct (existsb (incident n) (s_edges s)) eqn:Ex; [exfalso|eauto].
  apply existsb_exists in Ex. destruct Ex as [[e r] [Hin Hinc]]. unfold incident in Hinc. cbn [snd] in Hinc.
  pose proof (Struct_store _ _ _ HS G) as (_ & Bs & _).
  apply (in_find_iff _ _ _ Bs) in Hin.
  destruct (Hiso e r) as [H1 H2]; [rewrite (look_edge_some st w e s G), Hin; reflexivity|].
  apply orb_true_iff in Hinc. destruct Hinc as [E|E]; apply N.eqb_eq in E; contradiction.
Qed.

Lemma ok_set_att st k v : Struct st -> plane_valid k = true -> look st (SInst (ak_warp k)) <> None ->
  look st (if ak_edge k then SEdge (ak_warp k) (ak_id k) else SNode (ak_warp k) (ak_id k)) <> None ->
  exists st', apply_op st (SetAtt k v) = Ok st'.
Proof.
  intros HS Hpl H Ho. destruct (look_inst_store st _ HS H) as [s G]. cbn [apply_op]. unfold apply_set_att.
  rewrite Hpl, G. cbn [negb]. destruct (ak_edge k).
  - rewrite (look_edge_some st _ _ s G) in Ho. unfold has_edge, mem.
    destruct (nfind (ak_id k) (s_edges s)); cbn in Ho; [eauto|congruence].
  - apply (look_node_some st _ _ s G) in Ho. apply nmem_true in Ho. destruct Ho as [ty Ho]. rewrite Ho. eauto.
Qed.

Lemma ok_open_portal st k cw cr ty : Struct st -> plane_valid k = true ->
  look st (SInst (ak_warp k)) <> None ->
  look st (if ak_edge k then SEdge (ak_warp k) (ak_id k) else SNode (ak_warp k) (ak_id k)) <> None ->
  look st (SInst cw) = None ->
  exists st', apply_op st (OpenPortal k cw cr (Some ty)) = Ok st'.
Proof.
  intros HS Hpl H Ho Hc. destruct (look_inst_store st _ HS H) as [s G]. cbn [apply_op].
  unfold apply_open_portal, bind, validate_owner. rewrite Hpl, G. cbn [negb].
  assert (Hic : get_inst st cw = None) by (cbn in Hc; destruct (get_inst st cw); [discriminate|reflexivity]).
  assert (Hne : ak_warp k <> cw).
  { intros E. rewrite E in G. apply (sync_store_inst st cw HS) in Hic. congruence. }
  assert (Hset : forall st0, st0 = upsert_instance st cw (cr, Some k) (insert_node empty_store cr ty) ->
             exists st', set_att_raw st0 (ak_warp k) k (Some (Descend cw)) = Ok st').
  { intros st0 ->. unfold set_att_raw, get_store, upsert_instance; cbn. rewrite nf_set.
    destruct (N.eqb_spec (ak_warp k) cw); [contradiction|]. unfold get_store in G. rewrite G. eauto. }
  destruct (ak_edge k).
  - rewrite (look_edge_some st _ _ s G) in Ho. unfold has_edge, mem.
    destruct (nfind (ak_id k) (s_edges s)); cbn in Ho; [|congruence]. rewrite Hic. apply Hset. reflexivity.
  - apply (look_node_some st _ _ s G) in Ho. apply nmem_true in Ho. destruct Ho as [ty' Ho]. rewrite Ho.
    rewrite Hic. apply Hset. reflexivity.
Qed.

(* ------------------------------------------------------------------ positions in the sorted diff *)

Lemma ssorted_app_rel {A} (R : A -> A -> Prop) l1 l2 :
  StronglySorted R (l1 ++ l2) -> forall x y, In x l1 -> In y l2 -> R x y.
Proof.
  induction l1 as [|a l1 IH]; cbn; intros HS x y Hx Hy; [destruct Hx|].
  inversion HS as [|a' l' HS' HF]; subst. destruct Hx as [<-|Hx].
  - rewrite Forall_forall in HF. apply HF, in_or_app. right; exact Hy.
  - apply IH; assumption.
Qed.

Lemma ssorted_app_l {A} (R : A -> A -> Prop) l1 l2 : StronglySorted R (l1 ++ l2) -> StronglySorted R l1.
Proof.
  induction l1 as [|a l1 IH]; cbn; intros HS; [constructor|].
  inversion HS as [|a' l' HS' HF]; subst. constructor; [apply IH, HS'|].
  rewrite Forall_forall in *. intros x Hx. apply HF, in_or_app. left; exact Hx.
Qed.

Lemma key_lt_irrefl k : ~ key_lt k k.
Proof. unfold key_lt. rewrite (proj2 (ol_eq _ key_order k k) eq_refl). discriminate. Qed.

Lemma key_lt_asym k1 k2 : key_lt k1 k2 -> ~ key_lt k2 k1.
Proof. unfold key_lt. intros H. rewrite (ol_antisym _ key_order), H. discriminate. Qed.

Section Prefix.
  Variables (L pre post : list op) (o : op).
  Hypothesis HL : L = pre ++ o :: post.
  Hypothesis Hstrict : StronglySorted key_lt (map sort_key L).

  Lemma pre_lt o' : In o' pre -> key_lt (sort_key o') (sort_key o).
  Proof.
    intros H. rewrite HL, map_app in Hstrict. cbn in Hstrict.
    apply (ssorted_app_rel _ _ _ Hstrict); [apply in_map, H|left; reflexivity].
  Qed.

  Lemma post_gt o' : In o' post -> key_lt (sort_key o) (sort_key o').
  Proof.
    intros H. rewrite HL, map_app in Hstrict. cbn in Hstrict.
    assert (HS2 : StronglySorted key_lt (sort_key o :: map sort_key post)).
    { clear -Hstrict. induction (map sort_key pre) as [|x l IH]; [exact Hstrict|].
      cbn in Hstrict. inversion Hstrict; subst. apply IH; assumption. }
    inversion HS2 as [|x l HS' HF]; subst. rewrite Forall_forall in HF. apply HF, in_map, H.
  Qed.

  Lemma lt_in_pre o' : In o' L -> key_lt (sort_key o') (sort_key o) -> In o' pre.
  Proof.
    intros Hin Hlt. rewrite HL in Hin. apply in_app_or in Hin. destruct Hin as [H|[<-|H]]; [exact H| |].
    - exfalso. eapply key_lt_irrefl; eauto.
    - exfalso. eapply key_lt_asym; [exact Hlt|]. apply post_gt, H.
  Qed.

  Lemma pre_in_L o' : In o' pre -> In o' L.
  Proof. intros H. rewrite HL. apply in_or_app. left; exact H. Qed.

  Lemma o_in_L : In o L.
  Proof. rewrite HL. apply in_or_app. right; left; reflexivity. Qed.

  Lemma pre_sorted : StronglySorted ople pre.
  Proof.
    rewrite HL, map_app in Hstrict. apply ssorted_app_l in Hstrict.
    clear -Hstrict. induction pre as [|x l IH]; [constructor|]. cbn in Hstrict.
    inversion Hstrict as [|x' l' HS HF]; subst. constructor; [apply IH, HS|].
    rewrite Forall_forall in *. intros y Hy. apply key_lt_ople. apply HF, in_map, Hy.
  Qed.

  (* a slot all of whose writers come before [o] already has its final value *)
  Lemma prefix_complete f sl :
    (forall o', In o' L -> wr o' sl <> None -> key_lt (sort_key o') (sort_key o)) ->
    fold_wr pre f sl = fold_wr L f sl.
  Proof.
    intros H. rewrite HL, fold_wr_app. symmetry. apply fold_wr_none.
    intros o' Hin. destruct (not_none_dec (wr o' sl)) as [E|E]; [exact E|exfalso].
    assert (HinL : In o' L) by (rewrite HL; apply in_or_app; right; exact Hin).
    specialize (H o' HinL E). destruct Hin as [<-|Hin].
    - eapply key_lt_irrefl; eauto.
    - eapply key_lt_asym; [exact H|]. apply post_gt, Hin.
  Qed.

  (* a slot none of whose writers comes before [o] still has its initial value *)
  Lemma prefix_untouched f sl :
    (forall o', In o' L -> wr o' sl <> None -> ~ key_lt (sort_key o') (sort_key o)) ->
    fold_wr pre f sl = f sl.
  Proof.
    intros H. apply fold_wr_none. intros o' Hin.
    destruct (not_none_dec (wr o' sl)) as [E|E]; [exact E|exfalso].
    apply (H o' (pre_in_L _ Hin) E). apply pre_lt, Hin.
  Qed.
End Prefix.

Lemma kind_lt_key_lt o1 o2 : kind o1 < kind o2 -> key_lt (sort_key o1) (sort_key o2).
Proof.
  unfold kind, key_lt, key_cmp, pair_cmp. intros H. apply N.compare_lt_iff in H. rewrite H. reflexivity.
Qed.

Lemma key_lt_kind_le o1 o2 : key_lt (sort_key o1) (sort_key o2) -> kind o1 <= kind o2.
Proof.
  unfold kind, key_lt, key_cmp, pair_cmp. destruct (fst (sort_key o1) ?= fst (sort_key o2)) eqn:E; intros H.
  - apply N.compare_eq in E. rewrite E. apply N.le_refl.
  - apply N.compare_lt_iff in E. apply N.lt_le_incl, E.
  - discriminate.
Qed.

(* ------------------------------------------------------------------ every op of the diff applies *)

Lemma wr_inst_kind o w : wr o (SInst w) <> None -> kind o <= 3.
Proof.
  intros H. apply wr_inst_inv in H. destruct H as [(? & ? & ? & ->)|[(? & ? & ->)| ->]]; cbn; lia.
Qed.

Lemma wr_node_kind o w n : wr o (SNode w n) <> None -> kind o <= 6.
Proof.
  intros H. apply wr_node_inv in H. destruct H as [(? & ? & ->)|[->|[(? & ->)| ->]]]; cbn; lia.
Qed.

Lemma wr_edge_kind o w e : wr o (SEdge w e) <> None -> kind o <= 7.
Proof.
  intros H. apply wr_edge_inv in H. destruct H as [->|[(? & ? & ? & ->)|(? & ->)]]; cbn; lia.
Qed.

Section Complete.
  Variables a b : state.
  Hypothesis Ha : Struct a.
  Hypothesis Hb : Struct b.
  Hypothesis Oa : Owned a.
  Hypothesis Ob : Owned b.
  Hypothesis Rb : RefOk b.

  Let D := diff_raw a b.
  Let L := diff a b.

  Lemma L_strict : StronglySorted key_lt (map sort_key L).
  Proof. apply diff_strictly_sorted; assumption. Qed.

  Lemma inL o : In o L <-> In o D.
  Proof. apply sort_ops_in. Qed.

  Lemma final_L sl : fold_wr L (look a) sl = look b sl.
  Proof. apply fold_diff_is_after; assumption. Qed.

  Lemma b_inst_some w q : get_store b w = Some q -> look b (SInst w) <> None.
  Proof.
    intros G. cbn. destruct (get_inst b w) eqn:E; cbn; [discriminate|].
    apply (sync_store_inst b w Hb) in E. congruence.
  Qed.

  Lemma inst_ready pre post o st w q :
    L = pre ++ o :: post -> (forall sl, look st sl = fold_wr pre (look a) sl) ->
    4 <= kind o -> get_store b w = Some q -> look st (SInst w) <> None.
  Proof.
    intros HL Hst Hk G. rewrite Hst, (prefix_complete L pre post o HL L_strict).
    - rewrite final_L. eapply b_inst_some; eauto.
    - intros o' _ Hw. apply kind_lt_key_lt. apply wr_inst_kind in Hw. lia.
  Qed.

  Lemma node_ready pre post o st w n q :
    L = pre ++ o :: post -> (forall sl, look st sl = fold_wr pre (look a) sl) ->
    7 <= kind o -> get_store b w = Some q -> nmem n (s_nodes q) = true -> look st (SNode w n) <> None.
  Proof.
    intros HL Hst Hk G Hn. rewrite Hst, (prefix_complete L pre post o HL L_strict).
    - rewrite final_L. cbn. rewrite G. cbn. apply nmem_true in Hn. destruct Hn as [x ->]. discriminate.
    - intros o' _ Hw. apply kind_lt_key_lt. apply wr_node_kind in Hw. lia.
  Qed.

  Lemma edge_ready pre post o st w e q rq :
    L = pre ++ o :: post -> (forall sl, look st sl = fold_wr pre (look a) sl) ->
    8 <= kind o -> get_store b w = Some q -> nfind e (s_edges q) = Some rq -> look st (SEdge w e) <> None.
  Proof.
    intros HL Hst Hk G He. rewrite Hst, (prefix_complete L pre post o HL L_strict).
    - rewrite final_L. cbn. rewrite G. cbn. rewrite He. discriminate.
    - intros o' _ Hw. apply kind_lt_key_lt. apply wr_edge_kind in Hw. lia.
  Qed.

  Lemma not_lt_of_kind o o' : kind o < kind o' -> ~ key_lt (sort_key o') (sort_key o).
  Proof. intros H Hlt. apply key_lt_kind_le in Hlt. lia. Qed.

  Lemma op_applies pre post o st :
    L = pre ++ o :: post -> Struct st -> (forall sl, look st sl = fold_wr pre (look a) sl) ->
    exists st', apply_op st o = Ok st'.
  Proof.
    intros HL HS Hst.
    assert (HoD : In o D) by (apply inL; apply (o_in_L L pre post o HL)).
    pose proof L_strict as HLs.
    destruct o as [k cw cr init|w root parent|w|w n ty|w n|w e f t ty|w f e|k v].
    - (* OpenPortal *)
      pose proof (portal_facts a b Ha Hb _ _ _ _ HoD) as (Hia & _ & _ & ty & cs & -> & _).
      pose proof (portal_owner_pre a b Ha Hb _ _ _ _ HoD) as (pw & Hv).
      apply validate_owner_ok in Hv. destruct Hv as (-> & Hpl & sp & Gp & Hown).
      assert (Hai : look a (SInst (ak_warp k)) <> None).
      { cbn. destruct (get_inst a (ak_warp k)) eqn:E; cbn; [discriminate|].
        apply (sync_store_inst a _ Ha) in E. congruence. }
      assert (Hnochild : forall k' cr' i', ~ In (OpenPortal k' (ak_warp k) cr' i') D).
      { intros k' cr' i' H. apply (portal_facts a b Ha Hb) in H. destruct H as (H & _).
        apply (sync_store_inst a _ Ha) in H. congruence. }
      apply ok_open_portal; [exact HS|exact Hpl| | |].
      + rewrite Hst, (prefix_untouched L pre post _ HL HLs); [exact Hai|].
        intros o' Hin Hw. apply wr_inst_inv in Hw. destruct Hw as [(k' & cr' & ty' & ->)|[(r' & p' & ->)| ->]].
        * exfalso. eapply Hnochild. apply inL. exact Hin.
        * apply not_lt_of_kind. cbn. lia.
        * apply not_lt_of_kind. cbn. lia.
      + destruct (ak_edge k) eqn:Ek.
        * rewrite Hst, (prefix_untouched L pre post _ HL HLs).
          -- cbn. rewrite Gp. cbn. unfold has_edge, mem in Hown. destruct (nfind (ak_id k) (s_edges sp)); [discriminate|discriminate].
          -- intros o' Hin Hw. apply wr_edge_inv in Hw. destruct Hw as [->|[(? & ? & ? & ->)|(? & ->)]];
               apply not_lt_of_kind; cbn; lia.
        * rewrite Hst, (prefix_untouched L pre post _ HL HLs).
          -- cbn. rewrite Gp. cbn. apply nmem_true in Hown. destruct Hown as [x ->]. discriminate.
          -- intros o' Hin Hw. apply wr_node_inv in Hw. destruct Hw as [(k' & ty' & ->)|[->|[(ty' & ->)| ->]]].
             ++ exfalso. eapply Hnochild. apply inL. exact Hin.
             ++ apply not_lt_of_kind. cbn. lia.
             ++ apply not_lt_of_kind. cbn. lia.
             ++ apply not_lt_of_kind. cbn. lia.
      + rewrite Hst. destruct (diff_ports_fresh a b Ha Hb pre k cw cr (Some ty) post HL) as [_ H]. exact H.
    - apply ok_upsert_wi.
    - (* DeleteWI *)
      apply (inD_delete_wi a b Ha Hb) in HoD. destruct HoD as (Hma & Hmb).
      apply ok_delete_wi. rewrite Hst, (prefix_untouched L pre post _ HL HLs).
      + cbn. apply nmem_true in Hma. destruct Hma as [x Hx]. unfold get_inst. rewrite Hx. discriminate.
      + intros o' Hin Hw. apply inL in Hin. apply wr_inst_inv in Hw.
        destruct Hw as [(k' & cr' & ty' & ->)|[(r' & p' & ->)| ->]].
        * exfalso. apply (portal_facts a b Ha Hb) in Hin. destruct Hin as (H & _).
          apply nmem_true in Hma. destruct Hma as [x Hx]. unfold get_inst in H. congruence.
        * exfalso. apply (inD_upsert_wi a b Ha Hb) in Hin. destruct Hin as (H & _).
          apply nmem_false in Hmb. unfold get_inst in H. congruence.
        * apply key_lt_irrefl.
    - (* UpsertNode *)
      apply (inD_upsert_node a b Ha Hb) in HoD. destruct HoD as (q & G & _).
      apply ok_upsert_node; [exact HS|]. apply (inst_ready _ _ _ _ w q HL Hst); [cbn; lia|exact G].
    - (* DeleteNode *)
      apply (inD_delete_node a b Ha Hb) in HoD. destruct HoD as (q & G & Hna & Hnq & Hsk).
      assert (Gi : look st (SInst w) <> None) by (apply (inst_ready _ _ _ _ w q HL Hst); [cbn; lia|exact G]).
      apply ok_delete_node; [exact HS|exact Gi| |].
      + rewrite Hst, (prefix_untouched L pre post _ HL HLs).
        * pose proof (look_bstore a (SNode w n)) as La. cbn [slot_warp slook] in La. rewrite La.
          apply nmem_true in Hna. destruct Hna as [x ->]. discriminate.
        * intros o' Hin Hw. apply inL in Hin. apply wr_node_inv in Hw.
          destruct Hw as [(k' & ty' & ->)|[->|[(ty' & ->)| ->]]].
          -- exfalso. apply mem_nk_false in Hsk. apply Hsk. apply in_skip_nodes. exists k', (Some ty').
             apply (portal_in_pops a b Ha Hb). exact Hin.
          -- exfalso. eapply (delete_wi_absurd a b Ha Hb); eauto.
          -- apply not_lt_of_kind. cbn. lia.
          -- apply key_lt_irrefl.
      + intros e r He. rewrite Hst in He.
        (* every writer of the edge slot before a DeleteNode is a DeleteEdge *)
        assert (Hwr : forall o', In o' pre -> wr o' (SEdge w e) = None \/ wr o' (SEdge w e) = Some None).
        { intros o' Hin. destruct (not_none_dec (wr o' (SEdge w e))) as [E|E]; [left; exact E|right].
          pose proof (pre_lt L pre post _ HL HLs o' Hin) as Hlt.
          apply wr_edge_inv in E. destruct E as [->|[(f' & t' & ty' & ->)|(f' & ->)]].
          - exfalso. eapply (delete_wi_absurd a b Ha Hb); eauto. apply inL. apply (pre_in_L L pre post _ HL). exact Hin.
          - exfalso. apply key_lt_kind_le in Hlt. cbn in Hlt. lia.
          - cbn [wr]. rewrite slot_eqb_refl. reflexivity. }
        destruct (fold_wr_same pre (look a) (SEdge w e) None Hwr) as [Hsame|Hnone]; [|congruence].
        rewrite Hsame in He. pose proof (look_bstore a (SEdge w e)) as La. cbn [slot_warp slook] in La.
        rewrite La in He. destruct (nfind e (s_edges (bstore a w))) as [r'|] eqn:Ea; cbn in He; [|discriminate].
        inversion He; subst r'.
        assert (Hnd : ~ In (DeleteEdge w (e_from r) e) D).
        { intros Hd. assert (Hp : In (DeleteEdge w (e_from r) e) pre).
          { apply (lt_in_pre L pre post _ HL HLs); [apply inL, Hd|]. apply kind_lt_key_lt. cbn. lia. }
          rewrite (fold_wr_const pre (look a) (SEdge w e) None _ Hp) in Hsame.
          - rewrite La in Hsame. discriminate.
          - cbn [wr]. rewrite slot_eqb_refl. reflexivity.
          - exact Hwr. }
        destruct (nfind e (s_edges q)) as [rq|] eqn:Eq.
        2:{ exfalso. apply Hnd. apply (inD_delete_edge a b Ha Hb). exists q, r. auto. }
        destruct (recreated q r rq) eqn:Erc.
        { exfalso. apply Hnd. apply (inD_delete_edge a b Ha Hb). exists q, r. repeat split; auto. right. eauto. }
        destruct (Rb w q G e rq Eq) as [Rf Rt].
        unfold recreated in Erc. apply orb_false_iff in Erc. destruct Erc as [E1 E2].
        apply negb_false_iff, N.eqb_eq in E1.
        split.
        * intros E. rewrite E1 in E. subst n. apply nmem_true in Rf. destruct Rf as [x Hx]. congruence.
        * intros E. apply andb_false_iff in E2. destruct E2 as [E2|E2].
          -- apply negb_false_iff, N.eqb_eq in E2. rewrite E2 in E. subst n.
             apply nmem_true in Rt. destruct Rt as [x Hx]. congruence.
          -- apply negb_false_iff in E2. rewrite E in E2. apply nmem_true in E2. destruct E2 as [x Hx]. congruence.
    - (* UpsertEdge *)
      apply (inD_upsert_edge a b Ha Hb) in HoD. destruct HoD as (q & G & _).
      apply ok_upsert_edge; [exact HS|]. apply (inst_ready _ _ _ _ w q HL Hst); [cbn; lia|exact G].
    - (* DeleteEdge *)
      apply (inD_delete_edge a b Ha Hb) in HoD. destruct HoD as (q & rp & G & Hrp & Hf & Hc).
      apply (ok_delete_edge st w f e rp); [exact HS|apply (inst_ready _ _ _ _ w q HL Hst); [cbn; lia|exact G]| |exact Hf].
      rewrite Hst, (prefix_untouched L pre post _ HL HLs).
      + pose proof (look_bstore a (SEdge w e)) as La. cbn [slot_warp slook] in La. rewrite La, Hrp. reflexivity.
      + intros o' Hin Hw. apply inL in Hin. apply wr_edge_inv in Hw.
        destruct Hw as [->|[(f' & t' & ty' & ->)|(f' & ->)]].
        * exfalso. eapply (delete_wi_absurd a b Ha Hb); eauto.
        * apply not_lt_of_kind. cbn. lia.
        * apply (inD_delete_edge a b Ha Hb) in Hin. destruct Hin as (q' & rp' & _ & Hrp' & Hf' & _).
          rewrite Hrp in Hrp'. inversion Hrp'; subst rp'. rewrite Hf in Hf'. subst f'. apply key_lt_irrefl.
    - (* SetAtt *)
      apply (inD_set_att a b Ha Hb) in HoD.
      destruct HoD as (w & q & G & [(n & -> & _ & Hn & _)|(e & rq & -> & _ & He & _)]).
      + apply ok_set_att; [exact HS|reflexivity|apply (inst_ready _ _ _ _ w q HL Hst); [cbn; lia|exact G]|].
        cbn. apply (node_ready _ _ _ _ w n q HL Hst); [cbn; lia|exact G|exact Hn].
      + apply ok_set_att; [exact HS|reflexivity|apply (inst_ready _ _ _ _ w q HL Hst); [cbn; lia|exact G]|].
        cbn. apply (edge_ready _ _ _ _ w e q rq HL Hst); [cbn; lia|exact G|exact He].
  Qed.
End Complete.

(* ------------------------------------------------------------------ completeness *)

Lemma loop_total a b : Struct a -> Struct b -> Owned a -> Owned b -> RefOk b ->
  forall post pre st t, diff a b = pre ++ post -> Struct st ->
    (forall sl, look st sl = fold_wr pre (look a) sl) ->
    exists s' t', apply_loop st t post = Ok (s', t').
Proof.
  intros Ha Hb Oa Ob Rb. induction post as [|o post IH]; intros pre st t HL HS Hst; cbn [apply_loop]; [eauto|].
  destruct (op_applies a b Ha Hb Oa Ob Rb pre post o st HL HS Hst) as [st1 E1]. rewrite E1.
  assert (Hside : port_side st o).
  { destruct o; cbn; auto. destruct (diff_ports_fresh a b Ha Hb pre k child_warp child_root init post HL) as [Hi Hn].
    split; [|exact Hi]. rewrite <- Hst in Hn. cbn in Hn. destruct (get_inst st child_warp); [discriminate|reflexivity]. }
  pose proof (apply_op_effect st o st1 HS Hside E1) as Heff.
  apply (IH (pre ++ [o]) st1).
  - rewrite <- app_assoc. exact HL.
  - eapply apply_op_Struct; eauto.
  - intros sl. rewrite Heff, fold_wr_app. cbn [fold_wr]. unfold upd. rewrite Hst. reflexivity.
Qed.

Theorem diff_apply_complete_wf a b : WFs a -> WF b -> apply_ops (diff a b) a = Ok b.
Proof.
  intros Wa (Wb & Rb & Pb). apply WFs_split in Wa, Wb. destruct Wa as [Ha Oa], Wb as [Hb Ob].
  destruct (loop_total a b Ha Hb Oa Ob Rb (diff a b) [] a false eq_refl Ha) as (s & t & Hloop); [reflexivity|].
  assert (Hs : s = b).
  { pose proof (apply_loop_Struct _ _ _ _ _ Ha Hloop) as HSs.
    apply look_ext; [exact HSs|exact Hb|]. intros sl.
    rewrite (apply_loop_effect _ _ _ _ _ Ha (diff_ports_fresh a b Ha Hb) Hloop sl).
    apply fold_diff_is_after; assumption. }
  subst s. unfold apply_ops. rewrite Hloop. destruct t; [|reflexivity].
  unfold PI in Pb. rewrite Pb. reflexivity.
Qed.

Corollary diff_apply_tick_wf ops a b :
  WFs a -> apply_ops ops a = Ok b -> WF b -> apply_ops (diff a b) a = Ok b.
Proof. intros Wa _ Wb. apply diff_apply_complete_wf; assumption. Qed.

(* a transition whose post state has a dangling edge (UpsertEdge does not check its endpoints) is
   outside: its emitted patch need not apply *)
Definition w4_ops : list op := [DeleteEdge 1 1 9; DeleteNode 1 3; UpsertEdge 1 9 1 3 8].
Definition w4_after : state :=
  mk_state [(1, mk_store [(1,7);(2,7)] [(9,(1,3,8))] [] [])] [(1,(1,None))].

Lemma w4_facts :
  wfb w2_before = true /\ apply_ops (patch_new w4_ops) w2_before = Ok w4_after /\
  wfsb w4_after = true /\ refb w4_after = false /\
  apply_ops (diff w2_before w4_after) w2_before = Err (NodeNotIsolated 1 3).
Proof. repeat split; vm_compute; reflexivity. Qed.

(* ------------------------------------------------------------------ the boolean checker is sound *)

Lemma nmem_keys {V1 V2} (m1 : list (N * V1)) (m2 : list (N * V2)) w :
  map fst m1 = map fst m2 -> nmem w m1 = nmem w m2.
Proof.
  revert m2; induction m1 as [|[k v] m1 IH]; destruct m2 as [|[k' v'] m2]; cbn; intros E; try discriminate; auto.
  inversion E; subst. unfold mem in *. cbn. destruct (w ?= k'); auto.
Qed.

Lemma store_wfb_sound s : store_wfb s = true -> store_sorted s /\ store_owned s.
Proof.
  unfold store_wfb, sortedN. rewrite !andb_true_iff. intros [[[[[A B] C] D] E] F].
  apply sortedb_spec in A, B, C, D. rewrite forallb_forall in E, F. split; [repeat split; assumption|]. split.
  - intros n H. apply nmem_true in H. destruct H as [v H]. apply nf_in in H. apply (E _ H).
  - intros e H. apply nmem_true in H. destruct H as [v H]. apply nf_in in H. apply (F _ H).
Qed.

Lemma wfsb_sound st : wfsb st = true -> WFs st.
Proof.
  unfold wfsb, sortedN. rewrite !andb_true_iff. intros [[[A B] C] D].
  apply sortedb_spec in A, B. apply list_eqb_spec in C. rewrite forallb_forall in D.
  split; [exact A|]. split; [exact B|]. split.
  - intros w. apply nmem_keys, C.
  - intros w s G. apply nf_in in G. apply store_wfb_sound. apply (D _ G).
Qed.

Lemma refb_sound st : refb st = true -> RefOk st.
Proof.
  unfold refb. rewrite forallb_forall. intros H w s G e r He. apply nf_in in G, He.
  specialize (H _ G). cbn in H. unfold store_refb in H. rewrite forallb_forall in H.
  specialize (H _ He). cbn in H. apply andb_true_iff in H. exact H.
Qed.

Lemma pib_sound st : pib st = true -> PI st.
Proof. unfold pib, PI. destruct (validate_portal_invariants st) as [[]|]; [reflexivity|discriminate]. Qed.

Lemma wfb_sound st : wfb st = true -> WF st.
Proof.
  unfold wfb. rewrite !andb_true_iff. intros [[A B] C].
  split; [apply wfsb_sound, A|]. split; [apply refb_sound, B|apply pib_sound, C].
Qed.

Lemma WF_WFs st : WF st -> WFs st.
Proof. intros [H _]; exact H. Qed.

Lemma WFs_Struct st : WFs st -> Struct st.
Proof. intros H. apply WFs_split in H. exact (proj1 H). Qed.

(* ------------------------------------------------------------------ attachments stay on existing owners *)

Lemma Owned_put_store st w s : Owned st -> store_owned s -> Owned (put_store st w s).
Proof.
  intros HO Hs w' s'. unfold get_store, put_store; cbn. rewrite nf_set.
  destruct (N.eqb_spec w' w); [intros E; inversion E; subst; exact Hs|apply HO].
Qed.

Lemma Owned_upsert_instance st w m s : Owned st -> store_owned s -> Owned (upsert_instance st w m s).
Proof.
  intros HO Hs w' s'. unfold get_store, upsert_instance; cbn. rewrite nf_set.
  destruct (N.eqb_spec w' w); [intros E; inversion E; subst; exact Hs|apply HO].
Qed.

Lemma empty_store_owned : store_owned empty_store.
Proof. split; intros x H; discriminate. Qed.

Lemma insert_node_owned s n ty : store_owned s -> store_owned (insert_node s n ty).
Proof.
  intros [H1 H2]. split; cbn; [|exact H2]. intros x Hx. rewrite nmem_set. rewrite (H1 x Hx). apply orb_true_r.
Qed.

Lemma upsert_edge_owned s e r : store_owned s -> store_owned (upsert_edge s e r).
Proof.
  intros [H1 H2]. split; cbn; [exact H1|]. intros x Hx. rewrite nmem_set. rewrite (H2 x Hx). apply orb_true_r.
Qed.

Lemma nmem_opt_set {V} k k' (v : option V) m : nsorted m ->
  nmem k' (opt_set k v m) = if k' =? k then (match v with Some _ => true | None => false end) else nmem k' m.
Proof.
  intros Hs. unfold mem. rewrite nf_opt_set by exact Hs. destruct (k' =? k); [destruct v|]; reflexivity.
Qed.

Lemma set_node_att_owned s n v : store_sorted s -> store_owned s -> nmem n (s_nodes s) = true ->
  store_owned (set_node_att s n v).
Proof.
  intros (_ & _ & C & _) [H1 H2] Hn. split; cbn; [|exact H2]. intros x Hx.
  rewrite nmem_opt_set in Hx by exact C. destruct (N.eqb_spec x n); [subst; exact Hn|apply H1, Hx].
Qed.

Lemma set_edge_att_owned s e v : store_sorted s -> store_owned s -> nmem e (s_edges s) = true ->
  store_owned (set_edge_att s e v).
Proof.
  intros (_ & _ & _ & D) [H1 H2] He. split; cbn; [exact H1|]. intros x Hx.
  rewrite nmem_opt_set in Hx by exact D. destruct (N.eqb_spec x e); [subst; exact He|apply H2, Hx].
Qed.

Lemma delete_node_owned s n s' : store_sorted s -> store_owned s -> delete_node_isolated s n = DnOk s' -> store_owned s'.
Proof.
  intros (A & _ & C & _) [H1 H2]. unfold delete_node_isolated.
  destruct (nfind n (s_nodes s)); [|discriminate]. destruct (existsb _ _); [discriminate|].
  intros E; inversion E; subst. split; cbn; [|exact H2]. intros x Hx.
  rewrite (nmem_del n x _ C) in Hx. rewrite (nmem_del n x _ A). apply andb_true_iff in Hx. destruct Hx as [Hx1 Hx2].
  rewrite Hx1, (H1 x Hx2). reflexivity.
Qed.

Lemma delete_edge_owned s f e s' : store_sorted s -> store_owned s -> delete_edge_exact s f e = Some s' -> store_owned s'.
Proof.
  intros (_ & B & _ & D) [H1 H2]. unfold delete_edge_exact.
  destruct (nfind e (s_edges s)); [|discriminate]. destruct (_ =? _); [|discriminate].
  intros E; inversion E; subst. split; cbn; [exact H1|]. intros x Hx.
  rewrite (nmem_del e x _ D) in Hx. rewrite (nmem_del e x _ B). apply andb_true_iff in Hx. destruct Hx as [Hx1 Hx2].
  rewrite Hx1, (H2 x Hx2). reflexivity.
Qed.

Definition owner_in (st : state) (k : akey) : Prop :=
  match get_store st (ak_warp k) with
  | Some s => if ak_edge k then nmem (ak_id k) (s_edges s) = true else nmem (ak_id k) (s_nodes s) = true
  | None => False
  end.

Lemma set_att_raw_Owned st k v st' : Struct st -> Owned st -> owner_in st k ->
  set_att_raw st (ak_warp k) k v = Ok st' -> Owned st'.
Proof.
  intros HS HO Hk. unfold set_att_raw, owner_in in *. destruct (get_store st (ak_warp k)) as [s|] eqn:G; [|discriminate].
  intros E; inversion E; subst. apply Owned_put_store; [exact HO|].
  pose proof (Struct_store _ _ _ HS G) as Hss. pose proof (HO _ _ G) as Hso.
  destruct (ak_edge k); [apply set_edge_att_owned|apply set_node_att_owned]; assumption.
Qed.

Lemma apply_op_Owned st o st' : Struct st -> Owned st -> apply_op st o = Ok st' -> Owned st'.
Proof.
  intros HS HO.
  destruct o as [k cw cr init|w root parent|w|w n ty|w n|w e f t ty|w f e|k v]; cbn [apply_op].
  - unfold apply_open_portal, bind. destruct (validate_owner st k) as [pw|] eqn:V; [|discriminate].
    apply validate_owner_ok in V. destruct V as (-> & _ & sp & Gp & Hown).
    assert (Hk : owner_in st k). { unfold owner_in. rewrite Gp. exact Hown. }
    destruct (get_inst st cw) as [m|] eqn:Gi.
    + destruct (_ || _); [discriminate|].
      destruct (ensure_child_root st cw cr init) as [st1|] eqn:E1; [|discriminate].
      intros E. eapply (set_att_raw_Owned st1); [eapply ensure_child_root_Struct; eauto| | |exact E].
      * unfold ensure_child_root in E1. destruct (get_store st cw) as [s|] eqn:G; [|discriminate].
        destruct init as [ty|].
        -- destruct (nfind cr (s_nodes s)) as [ty'|]; [destruct (ty' =? ty); inversion E1; subst; exact HO|].
           inversion E1; subst. apply Owned_put_store; [exact HO|]. apply insert_node_owned. apply (HO _ _ G).
        -- destruct (nfind cr (s_nodes s)); inversion E1; subst; exact HO.
      * unfold ensure_child_root in E1. destruct (get_store st cw) as [s|] eqn:G; [|discriminate].
        assert (Hsame : st1 = st \/ exists ty, st1 = put_store st cw (insert_node s cr ty)).
        { destruct init as [ty|].
          - destruct (nfind cr (s_nodes s)) as [ty'|]; [destruct (ty' =? ty); inversion E1; auto|].
            inversion E1; eauto.
          - destruct (nfind cr (s_nodes s)); inversion E1; auto. }
        destruct Hsame as [->|[ty ->]]; [exact Hk|].
        unfold owner_in, get_store, put_store in *; cbn. rewrite nf_set.
        destruct (N.eqb_spec (ak_warp k) cw) as [Ew|Ew]; [|exact Hk].
        rewrite Ew in *. unfold get_store in G. rewrite G in Hk. cbn.
        destruct (ak_edge k); [exact Hk|]. rewrite nmem_set, Hk. apply orb_true_r.
    + destruct init as [ty|]; [|discriminate]. intros E.
      assert (Hne : ak_warp k <> cw).
      { intros Ew. rewrite Ew in Gp. apply (sync_store_inst st cw HS) in Gi. congruence. }
      eapply (set_att_raw_Owned (upsert_instance st cw (cr, Some k) (insert_node empty_store cr ty))); [| | |exact E].
      * apply Struct_upsert_instance; [exact HS|apply insert_node_sorted, empty_store_sorted].
      * apply Owned_upsert_instance; [exact HO|apply insert_node_owned, empty_store_owned].
      * unfold owner_in, get_store, upsert_instance in *; cbn. rewrite nf_set.
        destruct (N.eqb_spec (ak_warp k) cw); [contradiction|exact Hk].
  - intros E; inversion E; subst. apply Owned_upsert_instance; [exact HO|].
    destruct (get_store st w) eqn:G; [apply (HO _ _ G)|apply empty_store_owned].
  - destruct (get_inst st w); [|discriminate]. intros E; inversion E; subst.
    intros w' s'. unfold get_store; cbn. destruct HS as (A & _). rewrite nf_del by exact A.
    destruct (w' =? w); [discriminate|apply HO].
  - destruct (get_store st w) as [s|] eqn:G; [|discriminate]. intros E; inversion E; subst.
    apply Owned_put_store; [exact HO|apply insert_node_owned, (HO _ _ G)].
  - destruct (get_store st w) as [s|] eqn:G; [|discriminate].
    destruct (delete_node_isolated s n) as [s'| |] eqn:Dn; try discriminate.
    intros E; inversion E; subst. apply Owned_put_store; [exact HO|].
    eapply delete_node_owned; [eapply Struct_store; eauto|apply (HO _ _ G)|exact Dn].
  - destruct (get_store st w) as [s|] eqn:G; [|discriminate]. intros E; inversion E; subst.
    apply Owned_put_store; [exact HO|apply upsert_edge_owned, (HO _ _ G)].
  - destruct (get_store st w) as [s|] eqn:G; [|discriminate].
    destruct (delete_edge_exact s f e) as [s'|] eqn:De; [|discriminate].
    intros E; inversion E; subst. apply Owned_put_store; [exact HO|].
    eapply delete_edge_owned; [eapply Struct_store; eauto|apply (HO _ _ G)|exact De].
  - unfold apply_set_att. destruct (negb (plane_valid k)); [discriminate|].
    destruct (get_store st (ak_warp k)) as [s|] eqn:G; [|discriminate].
    pose proof (Struct_store _ _ _ HS G) as Hss. pose proof (HO _ _ G) as Hso.
    destruct (ak_edge k).
    + destruct (has_edge s (ak_id k)) eqn:Hh; [|discriminate]. intros E; inversion E; subst.
      apply Owned_put_store; [exact HO|apply set_edge_att_owned; assumption].
    + destruct (nfind (ak_id k) (s_nodes s)) eqn:Hn; [|discriminate]. intros E; inversion E; subst.
      apply Owned_put_store; [exact HO|]. apply set_node_att_owned; [assumption|assumption|].
      unfold mem. rewrite Hn. reflexivity.
Qed.

Lemma apply_loop_WFs ops : forall st t st' t',
  Struct st -> Owned st -> apply_loop st t ops = Ok (st', t') -> Struct st' /\ Owned st'.
Proof.
  induction ops as [|o ops IH]; intros st t st' t' HS HO; cbn [apply_loop].
  - intros E; inversion E; subst; auto.
  - destruct (apply_op st o) as [st1|] eqn:E1; [|discriminate].
    apply IH; [eapply apply_op_Struct; eauto|eapply apply_op_Owned; eauto].
Qed.

Theorem apply_ops_WFs ops a s : WFs a -> apply_ops ops a = Ok s -> WFs s.
Proof.
  intros Wa H. apply WFs_split in Wa. destruct Wa as [Ha Oa]. apply apply_ops_loop in H. destruct H as [t H].
  apply WFs_split. eapply apply_loop_WFs; eauto.
Qed.

Lemma w4_not_ref : ~ RefOk w4_after.
Proof.
  intros H. specialize (H 1 (mk_store [(1,7);(2,7)] [(9,(1,3,8))] [] []) eq_refl 9 (1,3,8) eq_refl).
  destruct H as [_ H]. vm_compute in H. discriminate.
Qed.
