(* C04: when does an op apply?  Preconditions stated on slot values, then completeness of the diff. *)
From Coq Require Import List NArith Lia Bool Permutation Sorted.
From Echo Require Import Base.FinMap Base.Order Model.Patch Proofs.PatchProofs Proofs.PatchProofs2 Proofs.PatchProofs3.
Import ListNotations.
Open Scope N_scope.

Lemma look_inst_store st w : Struct st -> look st (SInst w) <> None -> exists s, get_store st w = Some s.
Proof.
  intros HS H. cbn in H. destruct (get_store st w) eqn:G; [eauto|].
  apply (sync_store_inst st w HS) in G. rewrite G in H. cbn in H. congruence.
Qed.

Lemma look_node_some st w n s : get_store st w = Some s ->
  (look st (SNode w n) <> None <-> nmem n (s_nodes s) = true).
Proof.
  intros G. cbn. rewrite G. cbn. unfold mem. destruct (nfind n (s_nodes s)); cbn; split; congruence.
Qed.

Lemma look_edge_some st w e s : get_store st w = Some s ->
  look st (SEdge w e) = option_map VEdge (nfind e (s_edges s)).
Proof. intros G. cbn. rewrite G. reflexivity. Qed.

Lemma ok_upsert_node st w n ty : Struct st -> look st (SInst w) <> None ->
  exists st', apply_op st (UpsertNode w n ty) = Ok st'.
Proof. intros HS H. destruct (look_inst_store st w HS H) as [s G]. cbn. rewrite G. eauto. Qed.

Lemma ok_upsert_edge st w e f t ty : Struct st -> look st (SInst w) <> None ->
  exists st', apply_op st (UpsertEdge w e f t ty) = Ok st'.
Proof. intros HS H. destruct (look_inst_store st w HS H) as [s G]. cbn. rewrite G. eauto. Qed.

Lemma ok_upsert_wi st w r p : exists st', apply_op st (UpsertWI w r p) = Ok st'.
Proof. cbn. eauto. Qed.

Lemma ok_delete_wi st w : look st (SInst w) <> None -> exists st', apply_op st (DeleteWI w) = Ok st'.
Proof. cbn. destruct (get_inst st w); cbn; [eauto|congruence]. Qed.

Lemma ok_delete_edge st w f e r : Struct st -> look st (SInst w) <> None ->
  look st (SEdge w e) = Some (VEdge r) -> e_from r = f ->
  exists st', apply_op st (DeleteEdge w f e) = Ok st'.
Proof.
  intros HS H He Hf. destruct (look_inst_store st w HS H) as [s G]. cbn [apply_op]. rewrite G.
  rewrite (look_edge_some st w e s G) in He. unfold delete_edge_exact.
  destruct (nfind e (s_edges s)) as [r'|]; cbn in He; [|discriminate]. inversion He; subst r'.
  rewrite Hf, N.eqb_refl. eauto.
Qed.

Lemma ok_delete_node st w n : Struct st -> look st (SInst w) <> None -> look st (SNode w n) <> None ->
  (forall e r, look st (SEdge w e) = Some (VEdge r) -> e_from r <> n /\ e_to r <> n) ->
  exists st', apply_op st (DeleteNode w n) = Ok st'.
Proof.
  intros HS H Hn Hiso. destruct (look_inst_store st w HS H) as [s G]. cbn [apply_op]. rewrite G.
  apply (look_node_some st w n s G) in Hn. unfold delete_node_isolated. apply nmem_true in Hn.
  destruct Hn as [ty Hn]. rewrite Hn.
  destruct (existsb (incident n) (s_edges s)) eqn:Ex; [exfalso|eauto].
  apply existsb_exists in Ex. destruct Ex as [[e r] [Hin Hinc]]. unfold incident in Hinc. cbn [snd] in Hinc.
  pose proof (Struct_store _ _ _ HS G) as (_ & Bs & _).
  apply (in_find_iff _ _ _ Bs) in Hin.
  destruct (Hiso e r) as [H1 H2]; [rewrite (look_edge_some st w e s G), Hin; reflexivity|].
  apply orb_true_iff in Hinc. destruct Hinc as [E|E]; apply N.eqb_eq in E; contradiction.
Qed.

Lemma ok_set_att st k v : Struct st -> plane_valid k = true -> look st (SInst (ak_warp k)) <> None ->
  look st (if ak_edge k then SEdge (ak_warp k) (ak_id k) else SNode (ak_warp k) (ak_id k)) <> None ->
  exists st', apply_op st (SetAtt k v) = Ok st'.
Proof.
  intros HS Hpl H Ho. destruct (look_inst_store st _ HS H) as [s G]. cbn [apply_op]. unfold apply_set_att.
  rewrite Hpl, G. cbn [negb]. destruct (ak_edge k).
  - rewrite (look_edge_some st _ _ s G) in Ho. unfold has_edge, mem.
    destruct (nfind (ak_id k) (s_edges s)); cbn in Ho; [eauto|congruence].
  - apply (look_node_some st _ _ s G) in Ho. apply nmem_true in Ho. destruct Ho as [ty Ho]. rewrite Ho. eauto.
Qed.

Lemma ok_open_portal st k cw cr ty : Struct st -> plane_valid k = true ->
  look st (SInst (ak_warp k)) <> None ->
  look st (if ak_edge k then SEdge (ak_warp k) (ak_id k) else SNode (ak_warp k) (ak_id k)) <> None ->
  look st (SInst cw) = None ->
  exists st', apply_op st (OpenPortal k cw cr (Some ty)) = Ok st'.
Proof.
  intros HS Hpl H Ho Hc. destruct (look_inst_store st _ HS H) as [s G]. cbn [apply_op].
  unfold apply_open_portal, bind, validate_owner. rewrite Hpl, G. cbn [negb].
  assert (Hic : get_inst st cw = None) by (cbn in Hc; destruct (get_inst st cw); [discriminate|reflexivity]).
  assert (Hne : ak_warp k <> cw).
  { intros E. rewrite E in G. apply (sync_store_inst st cw HS) in Hic. congruence. }
  assert (Hset : forall st0, st0 = upsert_instance st cw (cr, Some k) (insert_node empty_store cr ty) ->
             exists st', set_att_raw st0 (ak_warp k) k (Some (Descend cw)) = Ok st').
  { intros st0 ->. unfold set_att_raw, get_store, upsert_instance; cbn. rewrite nf_set.
    destruct (N.eqb_spec (ak_warp k) cw); [contradiction|]. unfold get_store in G. rewrite G. eauto. }
  destruct (ak_edge k).
  - rewrite (look_edge_some st _ _ s G) in Ho. unfold has_edge, mem.
    destruct (nfind (ak_id k) (s_edges s)); cbn in Ho; [|congruence]. rewrite Hic. apply Hset. reflexivity.
  - apply (look_node_some st _ _ s G) in Ho. apply nmem_true in Ho. destruct Ho as [ty' Ho]. rewrite Ho.
    rewrite Hic. apply Hset. reflexivity.
Qed.
