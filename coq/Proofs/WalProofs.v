(* Lemmas about Model/Wal.v, part 1: byte encoders, the disk-record layer (read_prefix, damage),
   codec round trips.  (C10, C11) *)
From Coq Require Import List NArith Lia Bool Arith.
From Echo Require Import Base.Bytes Model.Wal.
Import ListNotations.
Open Scope N_scope.

(* ------------------------------------------------------------------ generic list facts *)
Lemma firstn_app_exact {A} (a b : list A) n : length a = n -> firstn n (a ++ b) = a.
Proof.
  intros <-. rewrite firstn_app, Nat.sub_diag, firstn_all. cbn. apply app_nil_r.
Qed.
Lemma skipn_app_exact {A} (a b : list A) n : length a = n -> skipn n (a ++ b) = b.
Proof.
  intros <-. rewrite skipn_app, Nat.sub_diag, skipn_all. reflexivity.
Qed.
Lemma firstn_app_ge {A} (a b : list A) n :
  (length a <= n)%nat -> firstn n (a ++ b) = a ++ firstn (n - length a) b.
Proof. intros Hl. rewrite firstn_app, firstn_all2 by exact Hl. reflexivity. Qed.
Lemma firstn_app_lt {A} (a b : list A) n :
  (n <= length a)%nat -> firstn n (a ++ b) = firstn n a.
Proof.
  intros Hl. rewrite firstn_app. replace (n - length a)%nat with 0%nat by lia.
  cbn. apply app_nil_r.
Qed.

Lemma bytes_eqb_refl a : bytes_eqb a a = true.
Proof. induction a; cbn; auto. rewrite N.eqb_refl; auto. Qed.
Lemma bytes_eqb_eq a b : bytes_eqb a b = true <-> a = b.
Proof.
  revert b; induction a as [|x a IH]; destruct b as [|y b]; cbn; try (split; [reflexivity|reflexivity]);
    try (split; discriminate).
  rewrite andb_true_iff, N.eqb_eq, IH. split; [intros [-> ->]; reflexivity|intros E; inversion E; auto].
Qed.

(* ------------------------------------------------------------------ encoders *)
Lemma le_b_eq n x : le_b n x = le_bytes n x.
Proof.
  revert x; induction n as [|n IH]; intros x; cbn [le_b le_bytes]; [reflexivity|].
  f_equal.
  - change 255 with (N.ones 8). rewrite N.land_ones. reflexivity.
  - rewrite IH. f_equal. rewrite N.shiftr_div_pow2. reflexivity.
Qed.
Lemma le_b_length n x : length (le_b n x) = n.
Proof. rewrite le_b_eq. apply le_bytes_length. Qed.
Lemma h32b_length x : length (h32b x) = 32%nat.
Proof. unfold h32b. rewrite rev_length. apply le_b_length. Qed.

Lemma from_le_le_b n x : x < 256 ^ N.of_nat n -> from_le (le_b n x) = x.
Proof. intros Hx. rewrite le_b_eq, from_le_le_bytes. apply N.mod_small, Hx. Qed.
Lemma pow256_32 : 256 ^ N.of_nat 32 = 2 ^ 256.
Proof. reflexivity. Qed.
Lemma from_be_h32b x : x < 2 ^ 256 -> from_be (h32b x) = x.
Proof.
  intros Hx. unfold from_be, h32b. rewrite rev_involutive. apply from_le_le_b.
  rewrite pow256_32. exact Hx.
Qed.
Lemma le_b_inj n x y : x < 256 ^ N.of_nat n -> y < 256 ^ N.of_nat n -> le_b n x = le_b n y -> x = y.
Proof. rewrite !le_b_eq. apply le_bytes_inj. Qed.
Lemma h32b_inj x y : x < 2 ^ 256 -> y < 2 ^ 256 -> h32b x = h32b y -> x = y.
Proof.
  intros Hx Hy E. rewrite <- (from_be_h32b x Hx), <- (from_be_h32b y Hy). congruence.
Qed.

(* ------------------------------------------------------------------ cursor reads *)
Lemma take_app a r n : length a = n -> take n (a ++ r) = Ok (a, r).
Proof.
  intros Hn. unfold take. rewrite app_length, Hn.
  replace (Nat.ltb (n + length r) n) with false by (symmetry; apply Nat.ltb_ge; lia).
  rewrite firstn_app_exact, skipn_app_exact by exact Hn. reflexivity.
Qed.
Lemma rd_le_app n x r : x < 256 ^ N.of_nat n -> rd_le n (le_b n x ++ r) = Ok (x, r).
Proof.
  intros Hx. unfold rd_le. rewrite take_app by apply le_b_length.
  rewrite from_le_le_b by exact Hx. reflexivity.
Qed.
Lemma rd_h_app x r : x < 2 ^ 256 -> rd_h (h32b x ++ r) = Ok (x, r).
Proof.
  intros Hx. unfold rd_h. rewrite take_app by apply h32b_length.
  rewrite from_be_h32b by exact Hx. reflexivity.
Qed.
Lemma rd_byte_app k r : k < 256 -> rd_le 1 ([k] ++ r) = Ok (k, r).
Proof.
  intros Hk. unfold rd_le. rewrite take_app by reflexivity. cbn [from_le]. f_equal. f_equal. lia.
Qed.
Lemma rd_vec_app pb r : lenN pb < 2 ^ 64 -> rd_vec (le_b 8 (lenN pb) ++ pb ++ r) = Ok (pb, r).
Proof.
  intros Hl. unfold rd_vec. rewrite rd_le_app by exact Hl.
  replace (lenN (pb ++ r) <? lenN pb) with false.
  2:{ symmetry. apply N.ltb_ge. unfold lenN. rewrite app_length. lia. }
  unfold lenN. rewrite Nat2N.id.
  rewrite firstn_app_exact, skipn_app_exact by reflexivity. reflexivity.
Qed.

Lemma rkind_valid_lt k : rkind_valid k = true -> k < 256.
Proof. unfold rkind_valid. rewrite andb_true_iff, !N.leb_le. lia. Qed.
Lemma comp_valid_lt k : comp_valid k = true -> k < 256.
Proof. unfold comp_valid. rewrite N.eqb_eq. lia. Qed.
Lemma red_valid_lt k : red_valid k = true -> k < 256.
Proof. unfold red_valid. rewrite andb_true_iff, !N.leb_le. lia. Qed.
Lemma txkind_valid_lt k : txkind_valid k = true -> k < 256.
Proof. unfold txkind_valid. rewrite andb_true_iff, !N.leb_le. lia. Qed.
Lemma dur_valid_lt k : dur_valid k = true -> k < 256.
Proof. unfold dur_valid. rewrite andb_true_iff, !N.leb_le. lia. Qed.

(* decode . encode = id on well-formed records (hash free part) *)
Lemma parse_encode_frame f : wf_frame f -> parse_frame (encode_frame f) = Ok f.
Proof.
  intros (H1 & H2 & H3 & H4 & H5 & H6 & H7 & H8 & H9 & H10 & H11 & H12 & H13 & H14 & H15 & H16 &
          H17 & H18 & H19 & H20 & H21).
  unfold encode_frame, parse_frame.
  rewrite <- (app_nil_r (le_b 4 (f_fchk f))).
  rewrite (rd_le_app 2) by exact H1. cbv beta iota.
  rewrite rd_h_app by exact H2. cbv beta iota.
  rewrite (rd_le_app 8) by exact H3. cbv beta iota.
  rewrite (rd_le_app 8) by exact H4. cbv beta iota.
  rewrite rd_h_app by exact H5. cbv beta iota.
  rewrite (rd_le_app 4) by exact H6. cbv beta iota.
  rewrite rd_byte_app by (apply rkind_valid_lt; exact H7). cbv beta iota.
  rewrite H7. cbn [negb].
  rewrite (rd_le_app 8) by exact H8. cbv beta iota.
  rewrite rd_h_app by exact H9. cbv beta iota.
  rewrite rd_h_app by exact H10. cbv beta iota.
  rewrite rd_h_app by exact H11. cbv beta iota.
  rewrite (rd_le_app 2) by exact H12. cbv beta iota.
  rewrite (rd_le_app 2) by exact H13. cbv beta iota.
  rewrite rd_h_app by exact H14. cbv beta iota.
  rewrite rd_byte_app by (apply comp_valid_lt; exact H15). cbv beta iota.
  rewrite H15. cbn [negb].
  rewrite rd_byte_app by (apply red_valid_lt; exact H16). cbv beta iota.
  rewrite H16. cbn [negb].
  rewrite rd_h_app by exact H17. cbv beta iota.
  rewrite (rd_le_app 4) by exact H18. cbv beta iota.
  rewrite (rd_le_app 2) by exact H19. cbv beta iota.
  rewrite rd_vec_app by exact H20. cbv beta iota.
  rewrite (rd_le_app 4) by exact H21. cbv beta iota.
  destruct f; reflexivity.
Qed.

Lemma decode_encode_commit c : wf_commit c -> decode_commit (encode_commit c) = Ok c.
Proof.
  intros (H1 & H2 & H3 & H4 & H5 & H6 & H7 & H8 & H9 & H10 & H11 & H12).
  unfold encode_commit, decode_commit.
  rewrite <- (app_nil_r (h32b (c_digest c))).
  rewrite rd_h_app by exact H1. cbv beta iota.
  rewrite rd_h_app by exact H2. cbv beta iota.
  rewrite rd_byte_app by (apply txkind_valid_lt; exact H3). cbv beta iota.
  rewrite H3. cbn [negb].
  rewrite (rd_le_app 8) by exact H4. cbv beta iota.
  rewrite (rd_le_app 8) by exact H5. cbv beta iota.
  rewrite (rd_le_app 8) by exact H6. cbv beta iota.
  rewrite rd_h_app by exact H7. cbv beta iota.
  rewrite rd_h_app by exact H8. cbv beta iota.
  rewrite rd_h_app by exact H9. cbv beta iota.
  rewrite rd_byte_app by (apply dur_valid_lt; exact H10). cbv beta iota.
  rewrite H10. cbn [negb].
  rewrite (rd_le_app 2) by exact H11. cbv beta iota.
  rewrite rd_h_app by exact H12. cbv beta iota.
  destruct c; reflexivity.
Qed.

Section WithHash.
Variable H : bytes -> N.

Lemma H32_lt p : H32 H p < 2 ^ 256.
Proof. unfold H32. rewrite N.land_ones. apply N.mod_lt. discriminate. Qed.

Lemma magic_length : length magic = 8%nat.
Proof. reflexivity. Qed.

Lemma enc_rec_length kind payload :
  length (enc_rec H kind payload) = (49 + length payload)%nat.
Proof.
  unfold enc_rec. rewrite !app_length, magic_length, le_b_length, h32b_length. cbn. lia.
Qed.

(* ------------------------------------------------------------------ layer A: every byte prefix *)
Section ReadPrefix.
Context {A : Type}.
Variable dec : N -> bytes -> res A.

(* a disk record together with the value its payload decodes to *)
Definition drec := (N * bytes * A)%type.
Definition d_kind (r : drec) := fst (fst r).
Definition d_payload (r : drec) := snd (fst r).
Definition d_val (r : drec) := snd r.
Definition d_enc (r : drec) : bytes := enc_rec H (d_kind r) (d_payload r).
Definition d_size (r : drec) : nat := (49 + length (d_payload r))%nat.
Definition d_wf (r : drec) : Prop :=
  d_kind r < 256 /\ lenN (d_payload r) < 2 ^ 64 /\ dec (d_kind r) (d_payload r) = Ok (d_val r).
Definition d_log (rs : list drec) : bytes := flat_map d_enc rs.

Lemma d_enc_length r : length (d_enc r) = d_size r.
Proof. apply enc_rec_length. Qed.

Definition read_body (fuel : nat) (bs : bytes) : res (list A * bool) :=
  if Nat.ltb (length bs) 17 then Ok ([], true)
  else if negb (bytes_eqb (firstn 8 bs) magic) then Err EDigest
  else
    let kind := nth 8 bs 0 in
    let plen := from_le (firstn 8 (skipn 9 bs)) in
    let rest := skipn 17 bs in
    if lenN rest <? plen + 32 then Ok ([], true)
    else
      let payload := firstn (N.to_nat plen) rest in
      let dig := firstn 32 (skipn (N.to_nat plen) rest) in
      if negb (from_be dig =? disk_digest H kind payload) then Err EDigest
      else
        let* v := dec kind payload in
        let* (vs, torn) := read_loop H dec fuel (skipn (N.to_nat plen + 32) rest) in
        Ok (v :: vs, torn).

Lemma read_loop_S fuel bs : (0 < length bs)%nat -> read_loop H dec (S fuel) bs = read_body fuel bs.
Proof. destruct bs; cbn [length]; [lia|reflexivity]. Qed.

(* the 17-byte record header followed by anything *)
Definition hdr17 (kind n : N) : bytes := magic ++ [kind] ++ le_b 8 n.
Lemma hdr17_length kind n : length (hdr17 kind n) = 17%nat.
Proof. unfold hdr17. rewrite !app_length, magic_length, le_b_length. reflexivity. Qed.
Lemma hdr17_magic kind n body : firstn 8 (hdr17 kind n ++ body) = magic.
Proof.
  unfold hdr17. rewrite <- !app_assoc. apply firstn_app_exact. apply magic_length.
Qed.
Lemma hdr17_kind kind n body : nth 8 (hdr17 kind n ++ body) 0 = kind.
Proof.
  unfold hdr17. rewrite <- !app_assoc.
  rewrite app_nth2 by (rewrite magic_length; lia). rewrite magic_length. reflexivity.
Qed.
Lemma hdr17_len kind n body : firstn 8 (skipn 9 (hdr17 kind n ++ body)) = le_b 8 n.
Proof.
  unfold hdr17.
  replace ((magic ++ [kind] ++ le_b 8 n) ++ body) with ((magic ++ [kind]) ++ le_b 8 n ++ body)
    by (rewrite <- !app_assoc; reflexivity).
  rewrite skipn_app_exact by (rewrite app_length, magic_length; reflexivity).
  apply firstn_app_exact. apply le_b_length.
Qed.
Lemma hdr17_rest kind n body : skipn 17 (hdr17 kind n ++ body) = body.
Proof. apply skipn_app_exact. apply hdr17_length. Qed.

Lemma enc_rec_hdr kind payload :
  enc_rec H kind payload = hdr17 kind (lenN payload) ++ payload ++ h32b (disk_digest H kind payload).
Proof. unfold enc_rec, hdr17. rewrite <- !app_assoc. reflexivity. Qed.

(* one well-formed record followed by anything is read back, then the loop continues *)
Lemma read_loop_step fuel r rest :
  d_wf r ->
  read_loop H dec (S fuel) (d_enc r ++ rest) =
  match read_loop H dec fuel rest with
  | Ok (vs, torn) => Ok (d_val r :: vs, torn)
  | Err e => Err e
  end.
Proof.
  intros (Hk & Hl & Hd). destruct r as [[kind payload] v]. unfold d_enc, d_kind, d_payload, d_val in *.
  cbn [fst snd] in *.
  rewrite enc_rec_hdr.
  set (dg := h32b (disk_digest H kind payload)).
  assert (Hdg : length dg = 32%nat) by apply h32b_length.
  replace ((hdr17 kind (lenN payload) ++ payload ++ dg) ++ rest)
    with (hdr17 kind (lenN payload) ++ (payload ++ dg ++ rest))
    by (rewrite <- !app_assoc; reflexivity).
  set (body := payload ++ dg ++ rest).
  assert (Hb : length body = (length payload + 32 + length rest)%nat).
  { unfold body. rewrite !app_length, Hdg. lia. }
  assert (Hlen : length (hdr17 kind (lenN payload) ++ body) = (17 + length body)%nat).
  { rewrite app_length, hdr17_length. reflexivity. }
  rewrite read_loop_S by (rewrite Hlen; lia).
  unfold read_body. rewrite Hlen.
  replace (Nat.ltb (17 + length body) 17) with false by (symmetry; apply Nat.ltb_ge; lia).
  rewrite hdr17_magic, bytes_eqb_refl. cbn [negb].
  rewrite hdr17_kind, hdr17_len, hdr17_rest.
  rewrite from_le_le_b by (exact Hl).
  assert (Hlr : lenN body <? lenN payload + 32 = false).
  { apply N.ltb_ge. unfold lenN. rewrite Hb. lia. }
  rewrite Hlr.
  assert (Hn : N.to_nat (lenN payload) = length payload) by (unfold lenN; apply Nat2N.id).
  rewrite Hn. unfold body.
  rewrite (firstn_app_exact payload _ _ eq_refl).
  rewrite (skipn_app_exact payload _ _ eq_refl).
  rewrite (firstn_app_exact dg rest 32 Hdg).
  unfold dg at 1. rewrite from_be_h32b by apply H32_lt.
  rewrite N.eqb_refl. cbn [negb].
  rewrite Hd.
  replace (skipn (length payload + 32) (payload ++ dg ++ rest)) with rest.
  2:{ replace (payload ++ dg ++ rest) with ((payload ++ dg) ++ rest) by (rewrite <- app_assoc; reflexivity).
      symmetry. apply skipn_app_exact. rewrite app_length, Hdg. reflexivity. }
  reflexivity.
Qed.

(* a strict, non-empty prefix of one record is a torn tail *)
Lemma read_loop_torn fuel r k :
  d_wf r -> (0 < k)%nat -> (k < d_size r)%nat ->
  read_loop H dec (S fuel) (firstn k (d_enc r)) = Ok ([], true).
Proof.
  intros (Hk & Hl & Hd) Hk0 Hkn. destruct r as [[kind payload] v].
  unfold d_size in *. unfold d_enc, d_kind, d_payload, d_val in *. cbn [fst snd] in *.
  rewrite enc_rec_hdr.
  set (dg := h32b (disk_digest H kind payload)).
  assert (Hdg : length dg = 32%nat) by apply h32b_length.
  assert (Hfl : length (firstn k (hdr17 kind (lenN payload) ++ payload ++ dg)) = k).
  { apply firstn_length_le. rewrite !app_length, hdr17_length, Hdg. lia. }
  rewrite read_loop_S by (rewrite Hfl; lia).
  unfold read_body. rewrite Hfl.
  destruct (Nat.ltb k 17) eqn:E17; [reflexivity|].
  apply Nat.ltb_ge in E17.
  rewrite firstn_app_ge by (rewrite hdr17_length; lia).
  rewrite hdr17_length.
  set (body := firstn (k - 17) (payload ++ dg)).
  rewrite hdr17_magic, bytes_eqb_refl. cbn [negb].
  rewrite hdr17_kind, hdr17_len, hdr17_rest.
  rewrite from_le_le_b by exact Hl.
  assert (Hlt : lenN body <? lenN payload + 32 = true).
  { apply N.ltb_lt. unfold lenN, body. rewrite firstn_length, app_length, Hdg. lia. }
  rewrite Hlt. reflexivity.
Qed.

Lemma d_log_cons r rs : d_log (r :: rs) = d_enc r ++ d_log rs.
Proof. reflexivity. Qed.

(* C10 read_prefix: for EVERY byte length k, reading the first k bytes of a log returns exactly the
   records that lie wholly inside k, and flags a torn tail iff k is not a record boundary.  No
   assumption about the hash function. *)
Theorem read_loop_prefix rs : Forall d_wf rs -> forall k fuel,
  (length (firstn k (d_log rs)) <= fuel)%nat ->
  read_loop H dec fuel (firstn k (d_log rs)) =
  Ok (map d_val (whole_within d_size k rs), negb (on_boundary d_size k rs)).
Proof.
  induction 1 as [|r rs Hr Hrs IH]; intros k fuel Hf.
  - cbn [d_log flat_map]. rewrite firstn_nil. destruct fuel; reflexivity.
  - rewrite d_log_cons in *. cbn [whole_within on_boundary].
    destruct k as [|k'].
    + cbn [firstn]. destruct fuel; reflexivity.
    + set (k := S k') in *.
      destruct (Nat.leb (d_size r) k) eqn:Ek.
      * apply Nat.leb_le in Ek.
        rewrite firstn_app_ge in * by (rewrite d_enc_length; exact Ek).
        rewrite d_enc_length in *.
        destruct fuel as [|fuel].
        { rewrite app_length, d_enc_length in Hf. unfold d_size in *. lia. }
        rewrite read_loop_step by exact Hr.
        rewrite IH.
        2:{ rewrite app_length, d_enc_length in Hf. unfold d_size in *. lia. }
        reflexivity.
      * apply Nat.leb_gt in Ek.
        rewrite firstn_app_lt in * by (rewrite d_enc_length; lia).
        destruct fuel as [|fuel].
        { rewrite firstn_length_le in Hf by (rewrite d_enc_length; lia). lia. }
        rewrite read_loop_torn; auto; unfold k; lia.
Qed.

Corollary read_records_prefix rs k : Forall d_wf rs ->
  read_records H dec (firstn k (d_log rs)) =
  Ok (map d_val (whole_within d_size k rs), negb (on_boundary d_size k rs)).
Proof. intros Hw. unfold read_records. apply read_loop_prefix; auto. Qed.

End ReadPrefix.

(* instance: frames and commit markers *)
Lemma decode_rec_enc r : lrec_wf H r -> decode_rec H (lrec_kind r) (lrec_payload r) = Ok r.
Proof.
  destruct r as [f|c]; cbn [lrec_wf lrec_kind lrec_payload]; unfold decode_rec; cbn [N.eqb Pos.eqb].
  - intros [Hw Hok]. unfold decode_frame. rewrite parse_encode_frame by exact Hw. rewrite Hok. reflexivity.
  - intros Hw. rewrite decode_encode_commit by exact Hw. reflexivity.
Qed.


Definition to_drec (r : lrec) : drec (A := lrec) := (lrec_kind r, lrec_payload r, r).

Lemma whole_within_map {X Y} (g : X -> Y) (sx : X -> nat) (sy : Y -> nat) :
  (forall x, sy (g x) = sx x) -> forall l k,
  whole_within sy k (map g l) = map g (whole_within sx k l).
Proof.
  intros E l. induction l as [|x l IH]; intros k; cbn [map whole_within]; auto.
  rewrite E. destruct (Nat.leb (sx x) k); cbn [map]; [rewrite IH|]; reflexivity.
Qed.
Lemma on_boundary_map {X Y} (g : X -> Y) (sx : X -> nat) (sy : Y -> nat) :
  (forall x, sy (g x) = sx x) -> forall l k,
  on_boundary sy k (map g l) = on_boundary sx k l.
Proof.
  intros E l. induction l as [|x l IH]; intros k; cbn [map on_boundary]; auto.
  rewrite E. destruct k; auto. destruct (Nat.leb (sx x) (S k)); auto.
Qed.


Theorem read_segment_prefix rs k :
  Forall (lrec_wf H) rs -> Forall payload_small rs ->
  read_segment H (firstn k (encode_log H rs)) =
  Ok (whole_within lrec_size k rs, negb (on_boundary lrec_size k rs)).
Proof.
  intros Hw Hs. unfold read_segment.
  assert (E : encode_log H rs = d_log (map to_drec rs)).
  { unfold encode_log, d_log. rewrite flat_map_concat_map, flat_map_concat_map, map_map. reflexivity. }
  rewrite E, (read_records_prefix (decode_rec H)).
  - rewrite (whole_within_map to_drec lrec_size) by reflexivity.
    rewrite (on_boundary_map to_drec lrec_size) by reflexivity.
    rewrite map_map. cbn [to_drec d_val snd]. rewrite map_id. reflexivity.
  - apply Forall_map. rewrite Forall_forall in *. intros r Hr. unfold d_wf, to_drec, d_kind, d_payload, d_val.
    cbn [fst snd]. split; [destruct r; cbn; lia|]. split; [apply Hs; exact Hr|].
    apply decode_rec_enc. apply Hw. exact Hr.
Qed.

End WithHash.
