(* Lemmas about Model/CborPA.v (C13): the panic/alloc/depth-aware model of the ABI CBOR decoder.

   Structure: (1) checked-step lemmas, (2) the non-recursive scalar part, (3) specifications of the
   three step functions dec_step / arr_step / map_step relative to specifications of their
   continuations (post = facts for EVERY configuration, gpost = extra facts for a guarded one),
   (4) the fuel-indexed fixpoint, (5) theorems about dec_pa, (6) refutation witnesses for the
   unguarded configuration (= the decoder as it is in /repo). *)
From Coq Require Import List NArith ZArith Lia Bool.
From Echo Require Import Base.Bytes Model.CborPA.
Import ListNotations.
Open Scope N_scope.

Lemma lenN_nil {A} : lenN (@nil A) = 0. Proof. reflexivity. Qed.

Lemma get_some b i : i < lenN b -> exists x, get b i = Some x.
Proof.
  unfold get, lenN. intros H.
  destruct (nth_error b (N.to_nat i)) eqn:E; eauto.
  apply nth_error_None in E. lia.
Qed.

Lemma need_spec b i n : i <= lenN b -> need b i n = true <-> i + n <= lenN b.
Proof. unfold need. intros H. rewrite N.leb_le. lia. Qed.

Lemma uadd_some c a b : a + b <= usize_max c -> uadd c a b = Some (a + b).
Proof. unfold uadd. intros H. apply N.leb_le in H. rewrite H. reflexivity. Qed.

Lemma slice_val b a e : a <= e -> e <= lenN b ->
  exists l, slice b a e = Val l /\ lenN l = e - a.
Proof.
  intros H1 H2. unfold slice.
  assert (E1 : (e <? a) = false) by (apply N.ltb_ge; lia). rewrite E1.
  assert (E2 : (lenN b <? e) = false) by (apply N.ltb_ge; lia). rewrite E2.
  eexists; split; [reflexivity|].
  unfold lenN in *. rewrite firstn_length, skipn_length. lia.
Qed.

Section Steps.
Variable c : cfg.
Variable b : bytes.
Local Notation L := (lenN b).
Hypothesis Hfit : L <= usize_max c.

Lemma read_uint_loop_spec k : forall i v, i + N.of_nat k <= L ->
  exists v', read_uint_loop c b k i v = Val (v', i + N.of_nat k).
Proof.
  induction k as [|k IH]; intros i v H; cbn [read_uint_loop].
  - exists v. f_equal. f_equal. lia.
  - destruct (get_some b i) as [x Hx]; [lia|]. rewrite Hx.
    rewrite uadd_some by lia.
    destruct (IH (i + 1) (N.lor ((v * 256) mod two64) x)) as [v' Hv]; [lia|].
    exists v'. rewrite Hv. f_equal. f_equal. lia.
Qed.

(* read_uint: Val advances by k and stays in range; otherwise Incomplete *)
Lemma read_uint_spec i k : i <= L ->
  (exists v, read_uint c b i k = Val (v, i + N.of_nat k) /\ i + N.of_nat k <= L) \/
  read_uint c b i k = Err EIncomplete.
Proof.
  intros Hi. unfold read_uint. destruct (need b i (N.of_nat k)) eqn:E; [|right; reflexivity].
  apply need_spec in E; [|exact Hi]. left.
  destruct (read_uint_loop_spec k i 0) as [v Hv]; [exact E|]. exists v. split; [exact Hv|exact E].
Qed.

Inductive len_out (i : N) : res (N * N) -> Prop :=
| lo_val n i' : i <= i' -> i' <= L -> len_out i (Val (n, i'))
| lo_err e : len_out i (Err e).

Lemma read_len_spec i info : i <= L -> len_out i (read_len c b i info).
Proof.
  intros Hi. unfold read_len.
  destruct (info <=? 23); [constructor; lia|].
  destruct (28 <=? info); [destruct (info =? 31); constructor|].
  match goal with |- context [read_uint c b i ?k] => destruct (read_uint_spec i k Hi) as [[v [E Hle]]|E]; rewrite E end.
  - match goal with |- context [v <=? ?l] => destruct (v <=? l) end; constructor; lia.
  - constructor.
Qed.

Lemma read_fbits_spec i n : i <= L -> len_out i (read_fbits c b i n).
Proof.
  intros Hi. unfold read_fbits. destruct (need b i n) eqn:E; [|constructor].
  apply need_spec in E; [|exact Hi]. rewrite uadd_some by lia.
  destruct (slice_val b i (i + n)) as [l [Hs _]]; [lia|exact E|]. rewrite Hs. constructor; lia.
Qed.
Lemma peek2_spec i : i <= L -> (exists v, peek2 c b i = Val v) \/ peek2 c b i = Err EIncomplete.
Proof.
  intros Hi. unfold peek2. destruct (need b i 2) eqn:E; [|right; reflexivity].
  apply need_spec in E; [|exact Hi]. left.
  destruct (get_some b i) as [x Hx]; [lia|]. rewrite Hx. rewrite uadd_some by lia.
  destruct (get_some b (i + 1)) as [y Hy]; [lia|]. rewrite Hy. eauto.
Qed.
End Steps.

Section Scalar.
Variable c : cfg.
Variable b : bytes.
Local Notation L := (lenN b).
Hypothesis Hfit : L <= usize_max c.

Definition sstep (kl : N) (s s' : st) : Prop :=
  idx s <= idx s' /\ idx s' <= L /\ bud s' = bud s /\ dmax s' = dmax s /\
  cur s <= cur s' /\ cur s' + idx s <= cur s + idx s' /\
  peak s <= peak s' /\ peak s' <= N.max (peak s) (cur s' + kl).

Definition benign {A} (o : res A) : Prop :=
  match o with Panic _ | Fuel => False | _ => True end.

Lemma benign_cast_err {A B} (o : res A) : benign o -> (forall a, o <> Val a) -> benign (@cast A B o).
Proof. destruct o; cbn; auto. intros _ H. exact (H a eq_refl). Qed.

Ltac len_cases H :=
  inversion H as [n i' Hle1 Hle2 Heq | e Heq]; subst; clear H.

Lemma sstep_setidx kl s i : idx s <= i -> i <= L -> sstep kl s (set_idx s i).
Proof. intros. unfold sstep, set_idx; cbn. lia. Qed.

Lemma dec_scalar_spec major info kl s o s' :
  idx s <= L -> dec_scalar c b major info kl s = (o, s') -> sstep kl s s' /\ benign o.
Proof.
  intros Hi. unfold dec_scalar.
  assert (Hrefl : sstep kl s s) by (unfold sstep; lia).
  destruct (major <=? 1).
  { pose proof (read_len_spec c b Hfit (idx s) info Hi) as H.
    destruct (read_len c b (idx s) info) as [[n i]| | |] eqn:E; inversion H; subst.
    - cbv zeta. destruct (major =? 0); [|destruct (n <? two64)]; intros X; inversion X; subst.
      all: (split; [apply sstep_setidx; lia|exact I]).
    - intros X; inversion X; subst. split; [exact Hrefl|exact I]. }
  destruct (major <=? 3).
  { pose proof (read_len_spec c b Hfit (idx s) info Hi) as H.
    destruct (read_len c b (idx s) info) as [[n i]| | |] eqn:E; inversion H; subst.
    2:{ intros X; inversion X; subst. split; [exact Hrefl|exact I]. }
    cbv zeta. cbn [idx set_idx].
    destruct (need b i (as_usize c n)) eqn:En.
    2:{ intros X; inversion X; subst. split; [apply sstep_setidx; lia|exact I]. }
    apply need_spec in En; [|assumption]. 
    rewrite uadd_some by lia.
    destruct (slice_val b i (i + as_usize c n)) as [l [Hs Hl]]; [lia|exact En|]. rewrite Hs.
    assert (Ha : sstep kl s (alloc (as_usize c n) kl (set_idx (set_idx s i) (i + as_usize c n)))).
    { unfold sstep, alloc, set_idx; cbn. lia. }
    destruct (major =? 2); [|destruct (utf8_ok l)]; intros X; inversion X; subst;
      (split; [unfold sstep, alloc, set_idx in *; cbn [idx bud cur peak dmax] in *; lia|exact I]). }
  destruct (major =? 6); [intros X; inversion X; subst; split; [exact Hrefl|exact I]|].
  destruct (major =? 7); [|intros X; inversion X; subst; split; [exact Hrefl|exact I]].
  repeat match goal with
  | |- (if ?x =? ?y then _ else _) = _ -> _ => destruct (x =? y)
  end; try (intros X; inversion X; subst; split; [exact Hrefl|exact I]);
  try (match goal with |- context [peek2 c b (idx s)] =>
         destruct (peek2_spec c b Hfit (idx s) Hi) as [[hv Ep]|Ep]; rewrite Ep end);
  try (intros X; inversion X; subst; split; [exact Hrefl|exact I]);
  (match goal with |- context [read_fbits c b (idx s) ?k] =>
         pose proof (read_fbits_spec c b Hfit (idx s) k Hi) as H;
         destruct (read_fbits c b (idx s) k) as [[n i]| | |] eqn:E; inversion H; subst end);
  try (intros X; inversion X; subst; split; [exact Hrefl|exact I]);
  cbv zeta;
  repeat match goal with
       | |- (if ?x then _ else _) = _ -> _ => destruct x
       end; intros X; inversion X; subst; (split; [apply sstep_setidx; lia|exact I]).
Qed.
End Scalar.

Section Main.
Variable c : cfg.
Variable b : bytes.
Local Notation L := (lenN b).
Hypothesis Hfit : L <= usize_max c.

Record gd (m : N) : Prop := mkgd {
  gd_guard : guard c = true;
  gd_depth : depth_limit c = Some m;
  gd_small : size_entry * L <= isize_max c }.

Definition mono (s s' : st) : Prop :=
  idx s <= idx s' /\ idx s' <= L /\ bud s' <= bud s /\ cur s <= cur s' /\ peak s <= peak s' /\ dmax s <= dmax s'.
Definition vcost (s s' : st) : Prop := cur s' + 64 * bud s' + idx s <= cur s + 64 * bud s + idx s'.
Definition pcost (k : N) (s s' : st) : Prop :=
  peak s' <= N.max (peak s) (cur s + k + 64 * (bud s - bud s') + 2 * (idx s' - idx s)).
Definition dcost (m : N) (s s' : st) : Prop := dmax s' <= N.max (dmax s) (m + 1).

Definition post (strict : bool) (fuel_ok : Prop) (s : st) (r : res cval * st) : Prop :=
  mono s (snd r) /\
  (strict = true -> forall v, fst r = Val v -> idx s < idx (snd r)) /\
  (forall p, fst r = Panic p -> p = PCapacity) /\
  (fuel_ok -> fst r <> Fuel).

Definition gpost (m k : N) (s : st) (r : res cval * st) : Prop :=
  (forall p, fst r <> Panic p) /\ (forall v, fst r = Val v -> vcost s (snd r)) /\
  pcost k s (snd r) /\ dcost m s (snd r).

Definition llen (last : option bytes) : N := match last with Some p => lenN p | None => 0 end.

Definition dec_ok (dk : dec_k) (F : N) : Prop := forall d kl s, idx s <= L ->
  post true (2 * (L - idx s) + 1 <= F) s (dk d kl s) /\
  (forall m, gd m -> bud s <= L -> d <= m + 1 -> gpost m kl s (dk d kl s)).
Definition arr_ok (ak : arr_k) (F : N) : Prop := forall d kl n s acc, idx s <= L ->
  post false (2 * (L - idx s) + 2 <= F) s (ak d kl n s acc) /\
  (forall m, gd m -> bud s <= L -> d <= m -> gpost m kl s (ak d kl n s acc)).
Definition map_ok (mk : map_k) (F : N) : Prop := forall d kl n s acc last, idx s <= L ->
  post false (2 * (L - idx s) + 2 <= F) s (mk d kl n s acc last) /\
  (forall m, gd m -> bud s <= L -> d <= m -> gpost m (kl + llen last) s (mk d kl n s acc last)).

Ltac fields := unfold mono, vcost, pcost, dcost, alloc, touch, set_idx, enter, size_value, size_entry in *;
               cbn [idx bud cur peak dmax fst snd] in *.

Lemma head_spec s : idx s <= L ->
  (exists b0, head c b s = (Val b0, set_idx s (idx s + 1)) /\ idx s + 1 <= L) \/ head c b s = (Err EIncomplete, s).
Proof.
  intros Hi. unfold head. destruct (need b (idx s) 1) eqn:E; [|right; reflexivity].
  apply need_spec in E; [|exact Hi]. left.
  destruct (get_some b (idx s)) as [x Hx]; [lia|]. rewrite Hx. rewrite uadd_some by lia.
  exists x. split; [reflexivity|exact E].
Qed.

Lemma post_leaf strict (P : Prop) s o s' :
  mono s s' -> (forall v, o = Val v -> strict = true -> idx s < idx s') -> (forall p, o <> Panic p) -> o <> Fuel ->
  post strict P s (o, s').
Proof.
  intros Hm Hv Hp Hf. unfold post; cbn [fst snd]. repeat split; try apply Hm.
  - intros St v E. exact (Hv v E St).
  - intros p E. exfalso. exact (Hp p E).
  - intros _. exact Hf.
Qed.


Lemma post_chain strict (P Q : Prop) s s1 r :
  mono s s1 -> (strict = true -> idx s < idx s1) -> post false Q s1 r -> (P -> Q) -> post strict P s r.
Proof.
  intros Hm Hs [Hm1 [_ [Hp Hf]]] HPQ. unfold post. repeat split; try (fields; lia).
  - intros St v E. specialize (Hs St). fields; lia.
  - exact Hp.
  - intros HP. apply Hf. apply HPQ. exact HP.
Qed.

Lemma gpost_chain m k s s1 r :
  mono s s1 -> vcost s s1 -> pcost k s s1 -> dcost m s s1 -> mono s1 (snd r) -> gpost m k s1 r -> gpost m k s r.
Proof.
  intros Hm Hv Hp Hd Hm1 [G1 [G2 [G3 G4]]]. unfold gpost. repeat split.
  - exact G1.
  - intros v E. specialize (G2 v E). fields; lia.
  - fields; lia.
  - fields; lia.
Qed.

Lemma depth_ok m d : depth_limit c = Some m -> depth_exceeded c d = false -> d <= m.
Proof. unfold depth_exceeded. intros ->. intros H. apply N.ltb_ge in H. exact H. Qed.

Lemma reserve_spec n s s' : reserve c n s = Some s' ->
  idx s' = idx s /\ cur s' = cur s /\ peak s' = peak s /\ dmax s' = dmax s /\ bud s' <= bud s /\
  (guard c = true -> n <= bud s /\ bud s' = bud s - n).
Proof.
  unfold reserve. destruct (guard c).
  - destruct (bud s <? n) eqn:E; [discriminate|]. apply N.ltb_ge in E. intros X; inversion X; subst; cbn. repeat split; auto; lia.
  - intros X; inversion X; subst. repeat split; auto; try lia; try discriminate.
Qed.

Lemma with_cap_spec n sz kl s : 
  (with_cap c n sz kl s = None /\ isize_max c < n * sz) \/ with_cap c n sz kl s = Some (alloc (n * sz) kl s).
Proof.
  unfold with_cap. destruct (isize_max c <? n * sz) eqn:E; [left|right]; auto. split; auto. apply N.ltb_lt. exact E.
Qed.

(* the container header part shared by arrays (sz = 32) and maps (sz = 64) *)
Lemma container_ok (P : Prop) sz d kl s0 s1 n (K : st -> res cval * st) (F : N) k' :
  (sz = 32 \/ sz = 64) ->
  idx s0 <= idx s1 -> idx s1 <= L -> bud s1 = bud s0 -> cur s1 = cur s0 -> peak s1 = peak s0 -> dmax s1 = dmax s0 ->
  (forall s, idx s <= L -> post false (2 * (L - idx s) + 2 <= F) s (K s) /\
      (forall m, gd m -> bud s <= L -> d <= m -> gpost m k' s (K s))) ->
  k' = kl ->
  let r := match reserve c n s1 with
           | None => (Err EIncomplete, s1)
           | Some s => match with_cap c n sz kl s with None => (Panic PCapacity, s) | Some s => K s end
           end in
  post false (2 * (L - idx s0) + 2 <= F) s0 r /\
  (forall m, gd m -> bud s0 <= L -> d <= m -> gpost m kl s0 r).
Proof.
  intros Hsz Hlt Hle Hb Hc Hp Hd HK -> r. subst r.
  destruct (reserve c n s1) as [s2|] eqn:Er.
  2:{ split.
      - apply post_leaf; try discriminate. fields; lia.
      - intros m G Hbud Hdm. unfold gpost; cbn [fst snd]. repeat split; try discriminate; fields; lia. }
  apply reserve_spec in Er. destruct Er as [R1 [R2 [R3 [R4 [R5 R6]]]]].
  destruct (with_cap_spec n sz kl s2) as [[Ew Hbig]|Ew]; rewrite Ew.
  { split.
    - unfold post; cbn [fst snd]. repeat split; try discriminate; try (fields; lia).
      intros p E; inversion E; reflexivity.
    - intros m G Hbud Hdm. exfalso. destruct G as [Gg Gd Gs]. destruct (R6 Gg) as [R7 R8].
      unfold size_entry in Gs. destruct Hsz; subst sz; lia. }
  set (s3 := alloc (n * sz) kl s2).
  assert (H3 : idx s3 = idx s1 /\ bud s3 = bud s2 /\ cur s3 = cur s2 + n * sz /\
               peak s3 = N.max (peak s2) (cur s2 + n * sz + kl) /\ dmax s3 = dmax s2) by (unfold s3, alloc; cbn; auto).
  destruct H3 as [A1 [A2 [A3 [A4 A5]]]].
  destruct (HK s3) as [HKp HKg]; [lia|].
  assert (Hm03 : mono s0 s3) by (fields; lia).
  split.
  - eapply post_chain; [exact Hm03| discriminate | exact HKp | lia].
  - intros m G Hbud Hdm. destruct (G) as [Gg Gd Gs]. destruct (R6 Gg) as [R7 R8].
    eapply gpost_chain; [exact Hm03| | | | apply HKp | apply HKg; auto; lia].
    + fields. destruct Hsz; subst sz; lia.
    + fields. destruct Hsz; subst sz; lia.
    + fields. lia.
Qed.


Lemma dec_step_ok ak mk F : arr_ok ak F -> map_ok mk F -> dec_ok (dec_step c b ak mk) (F + 1).
Proof.
  intros Ha Hm d kl s Hi. unfold dec_step.
  set (s0 := enter d s).
  assert (H0 : idx s0 = idx s /\ bud s0 = bud s /\ cur s0 = cur s /\ peak s0 = peak s /\ dmax s0 = N.max (dmax s) d)
    by (unfold s0, enter; cbn; auto).
  destruct H0 as [I0 [B0 [C0 [P0 D0]]]].
  assert (Hm0 : mono s s0) by (fields; lia).
  destruct (depth_exceeded c d) eqn:Ed.
  { split.
    - apply post_leaf; try discriminate. exact Hm0.
    - intros m G Hb Hd. unfold gpost; cbn [fst snd]. repeat split; try discriminate; fields; lia. }
  destruct (head_spec s0) as [[b0 [Eh Hle]]|Eh]; [lia| |]; rewrite Eh.
  2:{ cbn [cast]. split.
      - apply post_leaf; try discriminate. exact Hm0.
      - intros m G Hb Hd. unfold gpost; cbn [fst snd]. repeat split; try discriminate; fields; lia. }
  set (s1 := set_idx s0 (idx s0 + 1)).
  assert (H1 : idx s1 = idx s + 1 /\ bud s1 = bud s /\ cur s1 = cur s /\ peak s1 = peak s /\ dmax s1 = N.max (dmax s) d)
    by (unfold s1, set_idx; cbn; repeat split; lia).
  destruct H1 as [I1 [B1 [C1 [P1 D1]]]].
  assert (Hm1 : mono s s1) by (fields; lia).
  cbv zeta.
  (* what holds for any leaf reached from s1 without further allocation beyond sstep *)
  assert (Leaf : forall o s', sstep b kl s1 s' -> benign o ->
            post true (2 * (L - idx s) + 1 <= F + 1) s (o, s') /\
            (forall m, gd m -> bud s <= L -> d <= m + 1 -> gpost m kl s (o, s'))).
  { intros o s' St Bn. unfold sstep in St. split.
    - apply post_leaf.
      + fields; lia.
      + intros; fields; lia.
      + intros p E; subst o; exact Bn.
      + intros E; subst o; exact Bn.
    - intros m G Hb Hd. unfold gpost; cbn [fst snd]. repeat split.
      + intros p E; subst o; exact Bn.
      + intros v E. fields; lia.
      + fields; lia.
      + fields; lia. }
  assert (Refl1 : sstep b kl s1 s1) by (unfold sstep; lia).
  destruct (b0 / 32 =? 4).
  { pose proof (read_len_spec c b Hfit (idx s1) (b0 mod 32)) as Hl.
    destruct (read_len c b (idx s1) (b0 mod 32)) as [[n i]| | |] eqn:El;
      (assert (Hl' := Hl ltac:(lia)); inversion Hl'; subst).
    2:{ apply Leaf; [exact Refl1|exact I]. }
    set (s2 := set_idx s1 i).
    assert (Hs2 : idx s2 = i /\ bud s2 = bud s /\ cur s2 = cur s /\ peak s2 = peak s /\ dmax s2 = N.max (dmax s) d)
      by (unfold s2, set_idx; cbn; repeat split; lia).
    destruct Hs2 as [I2 [B2 [C2 [P2 D2]]]].
    pose proof (container_ok True 32 d kl s1 s2 (as_usize c n) (fun s => ak d kl (as_usize c n) s []) F kl) as CO.
    cbv zeta in CO.
    destruct CO as [COp COg]; try lia; [intros Hx; apply Ha; exact Hx|].
    split.
    - eapply post_chain; [exact Hm1|intros _; lia|exact COp|lia].
    - intros m G Hb Hd. pose proof (depth_ok m d (gd_depth m G) Ed) as Hdm.
      eapply gpost_chain; [exact Hm1| | | | apply COp | apply COg; auto; lia]; fields; lia. }
  destruct (b0 / 32 =? 5).
  { pose proof (read_len_spec c b Hfit (idx s1) (b0 mod 32)) as Hl.
    destruct (read_len c b (idx s1) (b0 mod 32)) as [[n i]| | |] eqn:El;
      (assert (Hl' := Hl ltac:(lia)); inversion Hl'; subst).
    2:{ apply Leaf; [exact Refl1|exact I]. }
    set (s2 := set_idx s1 i).
    assert (Hs2 : idx s2 = i /\ bud s2 = bud s /\ cur s2 = cur s /\ peak s2 = peak s /\ dmax s2 = N.max (dmax s) d)
      by (unfold s2, set_idx; cbn; repeat split; lia).
    destruct Hs2 as [I2 [B2 [C2 [P2 D2]]]].
    pose proof (container_ok True 64 d kl s1 s2 (as_usize c n) (fun s => mk d kl (as_usize c n) s [] None) F (kl + llen None)) as CO.
    cbv zeta in CO.
    destruct CO as [COp COg]; try lia; [intros Hx; apply Hm; exact Hx|cbn [llen]; lia|].
    split.
    - eapply post_chain; [exact Hm1|intros _; lia|exact COp|lia].
    - intros m G Hb Hd. pose proof (depth_ok m d (gd_depth m G) Ed) as Hdm.
      eapply gpost_chain; [exact Hm1| | | | apply COp | apply COg; auto; lia]; fields; lia. }
  destruct (dec_scalar c b (b0 / 32) (b0 mod 32) kl s1) as [o s'] eqn:Es.
  apply (dec_scalar_spec c b Hfit) in Es; [|lia]. destruct Es as [St Bn]. apply Leaf; assumption.
Qed.


Lemma cast_id {A} (o : res A) : (forall v, o <> Val v) -> @cast A A o = o.
Proof. destruct o; cbn; auto. intros H. exfalso. exact (H a eq_refl). Qed.

Lemma post_weaken strict strict' (P Q : Prop) s r :
  post strict Q s r -> (P -> Q) -> (strict' = true -> strict = true) -> post strict' P s r.
Proof.
  intros [A1 [A2 [A3 A4]]] HPQ Hs. unfold post. split; [exact A1|]. split; [|split].
  - intros St. apply A2. apply Hs. exact St.
  - exact A3.
  - intros HP. apply A4. apply HPQ. exact HP.
Qed.

Lemma gpost_nonval m k s (o : res cval) s1 :
  (forall v, o <> Val v) -> gpost m k s (o, s1) -> gpost m k s (o, s1).
Proof. auto. Qed.

Lemma arr_step_ok dk ak F : dec_ok dk F -> arr_ok ak F -> arr_ok (arr_step dk ak) (F + 1).
Proof.
  intros Hd Ha d kl n s acc Hi. unfold arr_step.
  destruct (n =? 0).
  { split.
    - apply post_leaf; try discriminate. fields; lia.
    - intros m G Hb Hdm. unfold gpost; cbn [fst snd]. repeat split; try discriminate; fields; lia. }
  destruct (Hd (d + 1) kl s Hi) as [Dp Dg].
  destruct (dk (d + 1) kl s) as [o s1] eqn:E.
  assert (Hm1 : mono s s1) by apply Dp.
  destruct o as [v|e|p|].
  - (* element decoded: continue *)
    assert (Hlt : idx s < idx s1) by (apply Dp with (v := v); reflexivity).
    assert (Hi1 : idx s1 <= L) by (fields; lia).
    destruct (Ha d kl (n - 1) s1 (v :: acc) Hi1) as [Ap Ag].
    split.
    + eapply post_chain; [exact Hm1|discriminate|exact Ap|lia].
    + intros m G Hb Hdm. destruct (Dg m G Hb ltac:(lia)) as [G1 [G2 [G3 G4]]].
      cbn [fst snd] in *.
      eapply gpost_chain; [exact Hm1|apply (G2 v); reflexivity|exact G3|exact G4|apply Ap|apply Ag; auto; fields; lia].
  - cbn [cast]. split.
    + eapply post_weaken; [exact Dp|lia|discriminate].
    + intros m G Hb Hdm. apply (Dg m G Hb). lia.
  - cbn [cast]. split.
    + eapply post_weaken; [exact Dp|lia|discriminate].
    + intros m G Hb Hdm. apply (Dg m G Hb). lia.
  - cbn [cast]. split.
    + eapply post_weaken; [exact Dp|lia|discriminate].
    + intros m G Hb Hdm. apply (Dg m G Hb). lia.
Qed.


Lemma pk_step a p1 p0 x t : a <= N.max p1 x -> p1 <= N.max p0 t -> x <= t -> a <= N.max p0 t.
Proof. lia. Qed.
Lemma pk_weak a p x t : a <= N.max p x -> x <= t -> a <= N.max p t.
Proof. lia. Qed.
Lemma dk_step a d1 d0 t : a <= N.max d1 t -> d1 <= N.max d0 t -> a <= N.max d0 t.
Proof. lia. Qed.

Lemma map_step_ok dk mk F : dec_ok dk F -> map_ok mk F -> map_ok (map_step b dk mk) (F + 1).
Proof.
  intros Hd Hmk d kl n s acc last Hi. unfold map_step.
  destruct (n =? 0).
  { split.
    - apply post_leaf; try discriminate. fields; lia.
    - intros m G Hb Hdm. unfold gpost; cbn [fst snd]. repeat split; try discriminate; fields; lia. }
  cbv zeta. fold (llen last).
  set (ll := llen last).
  destruct (Hd (d + 1) (kl + ll) s Hi) as [Dp Dg].
  destruct (dk (d + 1) (kl + ll) s) as [o1 s1] eqn:E1.
  assert (Hm1 : mono s s1) by apply Dp.
  destruct o1 as [k|e|p|].
  2,3,4: (cbn [cast]; split;
          [eapply post_weaken; [exact Dp|lia|discriminate]
          |intros m G Hb Hdm; apply (Dg m G Hb); lia]).
  assert (Hlt : idx s < idx s1) by (apply Dp with (v := k); reflexivity).
  assert (Hi1 : idx s1 <= L) by (fields; lia).
  destruct (slice_val b (idx s) (idx s1)) as [kb [Es Hkb]]; [lia|exact Hi1|]. rewrite Es.
  destruct (key_order kb last) as [e|].
  { split.
    - apply post_leaf; try discriminate. exact Hm1.
    - intros m G Hb Hdm. destruct (Dg m G Hb ltac:(lia)) as [G1 [G2 [G3 G4]]].
      unfold gpost; cbn [fst snd] in *. repeat split; try discriminate; assumption. }
  set (s2 := touch (lenN kb) (kl + ll) s1).
  assert (H2 : idx s2 = idx s1 /\ bud s2 = bud s1 /\ cur s2 = cur s1 /\
               peak s2 = N.max (peak s1) (cur s1 + lenN kb + (kl + ll)) /\ dmax s2 = dmax s1)
    by (unfold s2, touch; cbn; auto).
  destruct H2 as [I2 [B2 [C2 [P2 D2]]]].
  assert (Hi2 : idx s2 <= L) by lia.
  destruct (Hd (d + 1) (kl + lenN kb) s2 Hi2) as [Dp2 Dg2].
  destruct (dk (d + 1) (kl + lenN kb) s2) as [o2 s3] eqn:E2.
  assert (Hm2 : mono s2 s3) by apply Dp2.
  assert (Hm03 : mono s s3) by (fields; lia).
  destruct o2 as [v|e|p|].
  - assert (Hlt2 : idx s2 < idx s3) by (apply Dp2 with (v := v); reflexivity).
    assert (Hi3 : idx s3 <= L) by (fields; lia).
    destruct (Hmk d kl (n - 1) s3 ((k, v) :: acc) (Some kb) Hi3) as [Mp Mg]. cbn [llen] in Mg.
    split.
    + eapply post_chain; [exact Hm03|discriminate|exact Mp|fields; lia].
    + intros m G Hb Hdm.
      destruct (Dg m G Hb ltac:(lia)) as [G1 [G2 [G3 G4]]].
      assert (Hb2 : bud s2 <= L) by (fields; lia).
      destruct (Dg2 m G Hb2 ltac:(lia)) as [K1 [K2 [K3 K4]]].
      assert (Hb3 : bud s3 <= L) by (fields; lia).
      destruct (Mg m G Hb3 Hdm) as [M1 [M2 [M3 M4]]].
      assert (Mm : mono s3 (snd (mk d kl (n - 1) s3 ((k, v) :: acc) (Some kb)))) by apply Mp.
      cbn [fst snd] in *.
      specialize (G2 k eq_refl). specialize (K2 v eq_refl).
      unfold gpost. cbn [fst snd].
      set (sf := snd (mk d kl (n - 1) s3 ((k, v) :: acc) (Some kb))) in *.
      split; [exact M1|]. split; [|split].
      * intros w Ew. specialize (M2 w Ew).
        clear - Hm1 Hm2 Mm I2 B2 C2 G2 K2 M2. fields; lia.
      * unfold pcost in *.
        eapply pk_step; [exact M3| |].
        eapply pk_step; [exact K3| |].
        eapply pk_step; [rewrite P2; apply N.le_refl| |].
        eapply pk_weak; [exact G3|].
        all: clear - Hm1 Hm2 Mm I2 B2 C2 G2 K2 Hkb; fields; lia.
      * unfold dcost in *. eapply dk_step; [exact M4|]. eapply dk_step; [exact K4|]. rewrite D2. exact G4.
  - cbn [cast]. split.
    + apply post_leaf; try discriminate. exact Hm03.
    + intros m G Hb Hdm.
      destruct (Dg m G Hb ltac:(lia)) as [G1 [G2 [G3 G4]]].
      assert (Hb2 : bud s2 <= L) by (fields; lia).
      destruct (Dg2 m G Hb2 ltac:(lia)) as [K1 [K2 [K3 K4]]].
      cbn [fst snd] in *. specialize (G2 k eq_refl).
      unfold gpost; cbn [fst snd]. split; [discriminate|]. split; [discriminate|]. split.
      * unfold pcost in *.
        eapply pk_step; [exact K3| |].
        eapply pk_step; [rewrite P2; apply N.le_refl| |].
        eapply pk_weak; [exact G3|].
        all: clear - Hm1 Hm2 I2 B2 C2 G2 Hkb; fields; lia.
      * unfold dcost in *. eapply dk_step; [exact K4|]. rewrite D2. exact G4.
  - cbn [cast]. split.
    + destruct Dp2 as [_ [_ [Q3 _]]]. cbn [fst snd] in Q3.
      unfold post; cbn [fst snd]. repeat split; try discriminate; try (fields; lia).
      exact Q3.
    + intros m G Hb Hdm. exfalso.
      assert (Hb2 : bud s2 <= L) by (fields; lia).
      destruct (Dg2 m G Hb2 ltac:(lia)) as [K1 _]. exact (K1 p eq_refl).
  - cbn [cast]. split.
    + destruct Dp2 as [_ [_ [_ Q4]]]. cbn [fst snd] in Q4.
      unfold post; cbn [fst snd]. repeat split; try discriminate; try (fields; lia).
      intros HP. apply Q4. fields; lia.
    + intros m G Hb Hdm.
      destruct (Dg m G Hb ltac:(lia)) as [G1 [G2 [G3 G4]]].
      assert (Hb2 : bud s2 <= L) by (fields; lia).
      destruct (Dg2 m G Hb2 ltac:(lia)) as [K1 [K2 [K3 K4]]].
      cbn [fst snd] in *. specialize (G2 k eq_refl).
      unfold gpost; cbn [fst snd]. split; [discriminate|]. split; [discriminate|]. split.
      * unfold pcost in *.
        eapply pk_step; [exact K3| |].
        eapply pk_step; [rewrite P2; apply N.le_refl| |].
        eapply pk_weak; [exact G3|].
        all: clear - Hm1 Hm2 I2 B2 C2 G2 Hkb; fields; lia.
      * unfold dcost in *. eapply dk_step; [exact K4|]. rewrite D2. exact G4.
Qed.


Lemma base_ok :
  dec_ok (fun _ _ s => (Fuel, s)) 0 /\ arr_ok (fun _ _ _ s _ => (Fuel, s)) 0 /\ map_ok (fun _ _ _ s _ _ => (Fuel, s)) 0.
Proof.
  repeat split; cbn [fst snd]; try discriminate; try (fields; lia).
Qed.

Lemma dec_all_ok f :
  dec_ok (dec c b f) (N.of_nat f) /\ arr_ok (arr_items c b f) (N.of_nat f) /\ map_ok (map_items c b f) (N.of_nat f).
Proof.
  induction f as [|f [IHd [IHa IHm]]].
  - exact base_ok.
  - replace (N.of_nat (S f)) with (N.of_nat f + 1) by lia.
    split; [|split].
    + exact (dec_step_ok _ _ _ IHa IHm).
    + exact (arr_step_ok _ _ _ IHd IHa).
    + exact (map_step_ok _ _ _ IHd IHm).
Qed.

Lemma dec_pa_state : snd (dec_pa c b) = snd (dec c b (fuel_for b) 0 0 (st0 b)).
Proof.
  unfold dec_pa. destruct (dec c b (fuel_for b) 0 0 (st0 b)) as [o s]. destruct o; cbn; auto.
  destruct (idx s =? L); reflexivity.
Qed.

Lemma dec_pa_result :
  result (dec_pa c b) = fst (dec c b (fuel_for b) 0 0 (st0 b)) \/
  (exists v, fst (dec c b (fuel_for b) 0 0 (st0 b)) = Val v) /\ result (dec_pa c b) = Err ETrailing.
Proof.
  unfold dec_pa, result. destruct (dec c b (fuel_for b) 0 0 (st0 b)) as [o s]. destruct o; cbn; auto.
  destruct (idx s =? L); cbn; eauto.
Qed.

Lemma top_post : post true (2 * (L - 0) + 1 <= N.of_nat (fuel_for b)) (st0 b) (dec c b (fuel_for b) 0 0 (st0 b)).
Proof. destruct (dec_all_ok (fuel_for b)) as [Hd _]. apply (Hd 0 0 (st0 b)). cbn. lia. Qed.

Lemma fuel_enough : 2 * (L - 0) + 1 <= N.of_nat (fuel_for b).
Proof. unfold fuel_for, lenN. lia. Qed.

Theorem pa_terminates : result (dec_pa c b) <> Fuel.
Proof.
  destruct top_post as [_ [_ [_ Hf]]]. specialize (Hf fuel_enough).
  destruct dec_pa_result as [E|[_ E]]; rewrite E; [exact Hf|discriminate].
Qed.

Theorem pa_panic_only_capacity p : result (dec_pa c b) = Panic p -> p = PCapacity.
Proof.
  destruct top_post as [_ [_ [Hp _]]].
  destruct dec_pa_result as [E|[_ E]]; rewrite E; [apply Hp|discriminate].
Qed.

Theorem pa_index_in_range : idx (snd (dec_pa c b)) <= L.
Proof. rewrite dec_pa_state. destruct top_post as [Hm _]. apply Hm. Qed.

Section Guarded.
Variable m : N.
Hypothesis HG : gd m.

Lemma top_gpost : gpost m 0 (st0 b) (dec c b (fuel_for b) 0 0 (st0 b)).
Proof.
  destruct (dec_all_ok (fuel_for b)) as [Hd _].
  destruct (Hd 0 0 (st0 b)) as [_ Hg]; [cbn; lia|]. apply Hg; [exact HG|cbn; lia|lia].
Qed.

Theorem pa_no_panic p : result (dec_pa c b) <> Panic p.
Proof.
  destruct top_gpost as [Hp _].
  destruct dec_pa_result as [E|[_ E]]; rewrite E; [apply Hp|discriminate].
Qed.

Theorem pa_alloc_linear : alloc_peak (dec_pa c b) <= 66 * L.
Proof.
  unfold alloc_peak. rewrite dec_pa_state.
  destruct top_gpost as [_ [_ [Hpk _]]]. destruct top_post as [Hm _].
  unfold pcost in Hpk. unfold mono in Hm. cbn [st0 idx bud cur peak dmax] in *. lia.
Qed.

Theorem pa_depth_bounded : depth_max (dec_pa c b) <= m + 1.
Proof.
  unfold depth_max. rewrite dec_pa_state.
  destruct top_gpost as [_ [_ [_ Hd]]]. unfold dcost in Hd. cbn [st0 dmax] in Hd. lia.
Qed.
End Guarded.

End Main.

(* ------------------------------------------------------------------ packaged for Props/C13.v *)

Lemma gd_of c (b : bytes) m : guard c = true -> depth_limit c = Some m -> size_entry * lenN b <= isize_max c -> gd c b m.
Proof. intros; constructor; assumption. Qed.

Lemma guarded_limit c : is_guarded c = true -> guard c = true /\ exists m, depth_limit c = Some m.
Proof.
  unfold is_guarded. destruct (guard c); [|discriminate]. destruct (depth_limit c) as [m|]; [|discriminate].
  intros _. split; [reflexivity|]. exists m. reflexivity.
Qed.

Lemma fits_of_small c (b : bytes) : isize_max c <= usize_max c -> size_entry * lenN b <= isize_max c -> lenN b <= usize_max c.
Proof. unfold size_entry. lia. Qed.

Theorem guarded_no_panic c (b : bytes) : is_guarded c = true -> isize_max c <= usize_max c ->
  size_entry * lenN b <= isize_max c -> forall p, result (dec_pa c b) <> Panic p.
Proof.
  intros G W S p. destruct (guarded_limit c G) as [Gg [m Gm]].
  exact (pa_no_panic c b (fits_of_small c b W S) m (gd_of c b m Gg Gm S) p).
Qed.

Theorem guarded_alloc_linear c (b : bytes) : is_guarded c = true -> isize_max c <= usize_max c ->
  size_entry * lenN b <= isize_max c -> alloc_peak (dec_pa c b) <= 66 * lenN b.
Proof.
  intros G W S. destruct (guarded_limit c G) as [Gg [m Gm]].
  exact (pa_alloc_linear c b (fits_of_small c b W S) m (gd_of c b m Gg Gm S)).
Qed.

Theorem guarded_depth_bounded c (b : bytes) m : guard c = true -> depth_limit c = Some m -> isize_max c <= usize_max c ->
  size_entry * lenN b <= isize_max c -> depth_max (dec_pa c b) <= m + 1.
Proof.
  intros Gg Gm W S. exact (pa_depth_bounded c b (fits_of_small c b W S) m (gd_of c b m Gg Gm S)).
Qed.

(* ------------------------------------------------------------------ refutations on the unguarded (current) decoder *)

Definition w_capacity : bytes := [155; 255; 255; 255; 255; 255; 255; 255; 255].       (* 9b ff*8 *)
Definition w_huge : bytes := [187; 0; 0; 0; 255; 255; 255; 255; 255].                 (* bb 00 00 00 ff*5 *)
Definition w_small_huge : bytes := [154; 0; 1; 0; 0].                                  (* 9a 00 01 00 00 *)

Lemma unguarded_capacity_panic : result (dec_pa cfg_unguarded w_capacity) = Panic PCapacity.
Proof. vm_compute. reflexivity. Qed.

Lemma unguarded_huge_alloc :
  lenN w_huge = 9 /\ alloc_peak (dec_pa cfg_unguarded w_huge) = 64 * (2 ^ 40 - 1).
Proof. split; vm_compute; reflexivity. Qed.

Lemma unguarded_small_huge_alloc :
  lenN w_small_huge = 5 /\ result (dec_pa cfg_unguarded w_small_huge) = Err EIncomplete /\
  alloc_peak (dec_pa cfg_unguarded w_small_huge) = 2 ^ 21.
Proof. repeat split; vm_compute; reflexivity. Qed.

Lemma unguarded_deep : lenN (nest 2000) = 2001 /\ depth_max (dec_pa cfg_unguarded (nest 2000)) = 2000.
Proof. split; vm_compute; reflexivity. Qed.

Lemma repo_cfg_cases : cfg_repo = cfg_unguarded \/ cfg_repo = cfg_guarded.
Proof. first [left; reflexivity | right; reflexivity]. Qed.

(* ------------------------------------------------------------------ instantiated at cfg_repo (the decoder in /repo now) *)

Lemma repo_guarded : is_guarded cfg_repo = true /\ guard cfg_repo = true /\ depth_limit cfg_repo = Some guard_depth /\
  isize_max cfg_repo <= usize_max cfg_repo.
Proof. repeat split; try reflexivity. vm_compute. discriminate. Qed.

Theorem repo_no_panic (b : bytes) : size_entry * lenN b <= isize_max cfg_repo -> forall p, result (dec_pa cfg_repo b) <> Panic p.
Proof. destruct repo_guarded as [G [_ [_ W]]]. exact (guarded_no_panic cfg_repo b G W). Qed.

Theorem repo_alloc_linear (b : bytes) : size_entry * lenN b <= isize_max cfg_repo -> alloc_peak (dec_pa cfg_repo b) <= 66 * lenN b.
Proof. destruct repo_guarded as [G [_ [_ W]]]. exact (guarded_alloc_linear cfg_repo b G W). Qed.

Theorem repo_depth_bounded (b : bytes) : size_entry * lenN b <= isize_max cfg_repo -> depth_max (dec_pa cfg_repo b) <= guard_depth + 1.
Proof. destruct repo_guarded as [_ [Gg [Gd W]]]. exact (guarded_depth_bounded cfg_repo b guard_depth Gg Gd W). Qed.
