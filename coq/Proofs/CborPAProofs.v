(* Lemmas about Model/CborPA.v (C13). *)
From Coq Require Import List NArith ZArith Lia Bool.
From Echo Require Import Base.Bytes Model.CborPA.
Import ListNotations.
Open Scope N_scope.

(* ------------------------------------------------------------------ refutations on the unguarded (current) decoder *)

Definition w_capacity : bytes := [155; 255; 255; 255; 255; 255; 255; 255; 255].       (* 9b ff*8 *)
Definition w_huge : bytes := [187; 0; 0; 0; 255; 255; 255; 255; 255].                 (* bb 00 00 00 ff*5 *)

Lemma unguarded_capacity_panic : result (dec_pa cfg_unguarded w_capacity) = Panic PCapacity.
Proof. vm_compute. reflexivity. Qed.

Lemma unguarded_huge_alloc :
  lenN w_huge = 9 /\ alloc_peak (dec_pa cfg_unguarded w_huge) = 64 * (2 ^ 40 - 1).
Proof. split; vm_compute; reflexivity. Qed.

Lemma unguarded_deep : lenN (nest 2000) = 2001 /\ depth_max (dec_pa cfg_unguarded (nest 2000)) = 2000.
Proof. split; vm_compute; reflexivity. Qed.
