(* Lemmas about Model/Wal.v, part 3 (C11): damage inside one disk record.
   Records before the damaged one are unaffected; at the damaged record the reader stops with an
   error, or classifies a torn tail (a prefix of the history), or its digest check passes on bytes
   that are not the original record - the explicit hash event [AcceptsAt]. *)
From Coq Require Import List NArith Lia Bool Arith.
From Echo Require Import Base.Bytes Model.Wal Proofs.WalProofs.
Import ListNotations.
Open Scope N_scope.

Lemma le_bytes_from_le l n :
  length l = n -> (forall x, In x l -> byteb x = true) -> le_bytes n (from_le l) = l.
Proof.
  revert n; induction l as [|b l IH]; intros n Hn Hw; subst n; [reflexivity|].
  cbn [length le_bytes from_le].
  assert (Hb : b < 256) by (apply N.ltb_lt; apply (Hw b); left; reflexivity).
  rewrite (N.mul_comm 256), N.mod_add, N.div_add by lia.
  rewrite N.mod_small, N.div_small by exact Hb. cbn [N.add].
  f_equal. apply IH; auto. intros x Hx. apply Hw. right. exact Hx.
Qed.

Section WithHash.
Variable H : bytes -> N.

Section Damage.
Context {A : Type}.
Variable dec : N -> bytes -> res A.

Notation d_wf := (d_wf dec).
Notation d_enc := (d_enc H (A:=A)).
Notation d_log := (d_log H (A:=A)).

(* the reader's acceptance condition at the head of [bs]: magic, a length that fits, and a stored
   digest equal to the recomputed one *)
Definition AcceptsAt (bs : bytes) : Prop :=
  (17 <= length bs)%nat /\ firstn 8 bs = magic /\
  let kind := nth 8 bs 0 in
  let plen := from_le (firstn 8 (skipn 9 bs)) in
  let rest := skipn 17 bs in
  plen + 32 <= lenN rest /\
  from_be (firstn 32 (skipn (N.to_nat plen) rest)) = disk_digest H kind (firstn (N.to_nat plen) rest).

Lemma read_body_cases fuel bs :
  (exists e, read_body H dec fuel bs = Err e) \/ read_body H dec fuel bs = Ok ([], true) \/ AcceptsAt bs.
Proof.
  unfold read_body, AcceptsAt.
  destruct (Nat.ltb (length bs) 17) eqn:E17; [right; left; reflexivity|].
  apply Nat.ltb_ge in E17.
  destruct (bytes_eqb (firstn 8 bs) magic) eqn:Em; cbn [negb]; [|left; eexists; reflexivity].
  apply bytes_eqb_eq in Em.
  destruct (lenN (skipn 17 bs) <? from_le (firstn 8 (skipn 9 bs)) + 32) eqn:El; [right; left; reflexivity|].
  apply N.ltb_ge in El.
  destruct (from_be (firstn 32 (skipn (N.to_nat (from_le (firstn 8 (skipn 9 bs)))) (skipn 17 bs))) =?
            disk_digest H (nth 8 bs 0) (firstn (N.to_nat (from_le (firstn 8 (skipn 9 bs)))) (skipn 17 bs))) eqn:Ed;
    cbn [negb]; [|left; eexists; reflexivity].
  apply N.eqb_eq in Ed. right. right. repeat split; auto.
Qed.

Lemma d_log_app a b : d_log (a ++ b) = d_log a ++ d_log b.
Proof. unfold WalProofs.d_log. apply flat_map_app. Qed.

(* well-formed records in front of arbitrary bytes are read back, then the loop continues *)
Lemma read_loop_app rs : Forall d_wf rs -> forall fuel rest,
  read_loop H dec (length rs + fuel) (d_log rs ++ rest) =
  match read_loop H dec fuel rest with
  | Ok (vs, torn) => Ok (map d_val rs ++ vs, torn)
  | Err e => Err e
  end.
Proof.
  induction 1 as [|r rs Hr _ IH]; intros fuel rest.
  - cbn [length Nat.add WalProofs.d_log flat_map app map]. destruct (read_loop H dec fuel rest) as [[vs t]|]; reflexivity.
  - rewrite (d_log_cons H). rewrite <- app_assoc. cbn [length Nat.add].
    rewrite read_loop_step by exact Hr. rewrite IH.
    destruct (read_loop H dec fuel rest) as [[vs t]|]; reflexivity.
Qed.

(* C11 record_damage: bytes [d] of the right length, different from the record they replace *)
Theorem record_damage_at rs r d post fuel :
  Forall d_wf rs -> length d = d_size r -> d <> d_enc r ->
  let b' := d_log rs ++ d ++ post in
  (exists e, read_loop H dec (length rs + S fuel) b' = Err e) \/
  read_loop H dec (length rs + S fuel) b' = Ok (map d_val rs, true) \/
  AcceptsAt (d ++ post).
Proof.
  intros Hrs Hl Hne. cbv zeta. rewrite read_loop_app by exact Hrs.
  assert (Hpos : (0 < length (d ++ post))%nat).
  { rewrite app_length, Hl. unfold d_size. lia. }
  rewrite read_loop_S by exact Hpos.
  destruct (read_body_cases fuel (d ++ post)) as [[e He]|[Ht|Ha]].
  - left. exists e. rewrite He. reflexivity.
  - right. left. rewrite Ht. rewrite app_nil_r. reflexivity.
  - right. right. exact Ha.
Qed.

End Damage.

(* ------------------------------------------------------------------ classifying the hash event *)
Definition Collision32 : Prop := exists x y : bytes, x <> y /\ H32 H x = H32 H y.

Lemma disk_pre_inj k1 p1 k2 p2 :
  length p1 = length p2 -> disk_pre k1 p1 = disk_pre k2 p2 -> k1 = k2 /\ p1 = p2.
Proof.
  intros Hl E. unfold disk_pre in E.
  apply app_inv_head in E.
  pose proof (f_equal (hd 0) E) as Hk. cbn [hd app] in Hk.
  pose proof (f_equal (@tl N) E) as Et. cbn [tl app] in Et.
  split; [exact Hk|].
  unfold lenN in Et. rewrite Hl in Et.
  apply app_inv_head in Et. exact Et.
Qed.

(* damage that leaves the length field and the stored digest alone (any change of the kind byte and
   the payload, e.g. bit flips and zeroed ranges inside the payload): rejected, or a collision *)
Theorem payload_damage_collision {A} (dec : N -> bytes -> res A) kind payload kind' payload' rest fuel :
  kind < 256 -> lenN payload < 2 ^ 64 -> length payload' = length payload ->
  (kind', payload') <> (kind, payload) ->
  let d := hdr17 kind' (lenN payload) ++ payload' ++ h32b (disk_digest H kind payload) in
  read_loop H dec (S fuel) (d ++ rest) = Err EDigest \/ Collision32.
Proof.
  intros Hk Hl Hlen Hne. cbv zeta.
  set (dg := h32b (disk_digest H kind payload)).
  assert (Hdg : length dg = 32%nat) by apply h32b_length.
  replace ((hdr17 kind' (lenN payload) ++ payload' ++ dg) ++ rest)
    with (hdr17 kind' (lenN payload) ++ (payload' ++ dg ++ rest)) by (rewrite <- !app_assoc; reflexivity).
  set (body := payload' ++ dg ++ rest).
  assert (Hb : length body = (length payload + 32 + length rest)%nat).
  { unfold body. rewrite !app_length, Hdg, Hlen. lia. }
  assert (Hlenb : length (hdr17 kind' (lenN payload) ++ body) = (17 + length body)%nat).
  { rewrite app_length, hdr17_length. reflexivity. }
  rewrite read_loop_S by (rewrite Hlenb; lia).
  unfold read_body. rewrite Hlenb.
  replace (Nat.ltb (17 + length body) 17) with false by (symmetry; apply Nat.ltb_ge; lia).
  rewrite hdr17_magic, bytes_eqb_refl. cbn [negb].
  rewrite hdr17_kind, hdr17_len, hdr17_rest.
  rewrite from_le_le_b by exact Hl.
  assert (Hlr : lenN body <? lenN payload + 32 = false).
  { apply N.ltb_ge. unfold lenN. rewrite Hb. lia. }
  rewrite Hlr.
  assert (Hn : N.to_nat (lenN payload) = length payload') by (unfold lenN; rewrite Nat2N.id; auto).
  rewrite Hn. unfold body.
  rewrite (firstn_app_exact payload' _ _ eq_refl).
  rewrite (skipn_app_exact payload' _ _ eq_refl).
  rewrite (firstn_app_exact dg rest 32 Hdg).
  unfold dg at 1. rewrite from_be_h32b by apply H32_lt.
  destruct (disk_digest H kind payload =? disk_digest H kind' payload') eqn:Ed; cbn [negb].
  - right. apply N.eqb_eq in Ed. unfold disk_digest in Ed.
    exists (disk_pre kind payload), (disk_pre kind' payload'). split; [|exact Ed].
    intros E. apply disk_pre_inj in E; [|auto]. destruct E as [-> ->]. apply Hne. reflexivity.
  - left. reflexivity.
Qed.

(* damage confined to the 32 stored digest bytes is always rejected: no assumption on the hash *)
Theorem digest_damage_detected {A} (dec : N -> bytes -> res A) kind payload dg' rest fuel :
  kind < 256 -> lenN payload < 2 ^ 64 -> length dg' = 32%nat -> wf_bytes dg' = true ->
  dg' <> h32b (disk_digest H kind payload) ->
  read_loop H dec (S fuel) ((hdr17 kind (lenN payload) ++ payload ++ dg') ++ rest) = Err EDigest.
Proof.
  intros Hk Hl Hdg Hwf Hne.
  replace ((hdr17 kind (lenN payload) ++ payload ++ dg') ++ rest)
    with (hdr17 kind (lenN payload) ++ (payload ++ dg' ++ rest)) by (rewrite <- !app_assoc; reflexivity).
  set (body := payload ++ dg' ++ rest).
  assert (Hb : length body = (length payload + 32 + length rest)%nat).
  { unfold body. rewrite !app_length, Hdg. lia. }
  assert (Hlenb : length (hdr17 kind (lenN payload) ++ body) = (17 + length body)%nat).
  { rewrite app_length, hdr17_length. reflexivity. }
  rewrite read_loop_S by (rewrite Hlenb; lia).
  unfold read_body. rewrite Hlenb.
  replace (Nat.ltb (17 + length body) 17) with false by (symmetry; apply Nat.ltb_ge; lia).
  rewrite hdr17_magic, bytes_eqb_refl. cbn [negb].
  rewrite hdr17_kind, hdr17_len, hdr17_rest.
  rewrite from_le_le_b by exact Hl.
  assert (Hlr : lenN body <? lenN payload + 32 = false).
  { apply N.ltb_ge. unfold lenN. rewrite Hb. lia. }
  rewrite Hlr.
  assert (Hn : N.to_nat (lenN payload) = length payload) by (unfold lenN; apply Nat2N.id).
  rewrite Hn. unfold body.
  rewrite (firstn_app_exact payload _ _ eq_refl).
  rewrite (skipn_app_exact payload _ _ eq_refl).
  rewrite (firstn_app_exact dg' rest 32 Hdg).
  destruct (from_be dg' =? disk_digest H kind payload) eqn:Ed; cbn [negb]; [|reflexivity].
  exfalso. apply N.eqb_eq in Ed. apply Hne.
  (* a 32-byte string of real bytes is determined by its big-endian value *)
  unfold h32b. rewrite <- Ed. unfold from_be.
  rewrite le_b_eq.
  rewrite <- (rev_involutive dg') at 1. f_equal.
  symmetry. apply le_bytes_from_le.
  - rewrite rev_length. exact Hdg.
  - unfold wf_bytes in *. rewrite forallb_forall in *. intros x Hx. apply Hwf. apply in_rev. exact Hx.
Qed.

End WithHash.
