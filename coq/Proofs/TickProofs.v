(* Lemmas about Model/Tick.v: merge is order-free, schedules are invisible, the tick is a
   function of the candidate set (C01, C02). *)
From Coq Require Import List Arith NArith Lia Bool Permutation Sorting.Sorted.
From Echo Require Import Base.FinMap Model.Sched Model.Tick Proofs.SchedProofs Proofs.SortProofs Proofs.DrainProofs.
Import ListNotations.
Open Scope N_scope.

(* ---------- op equality ---------- *)

Lemma opt_eqb_eq a b : opt_eqb a b = true <-> a = b.
Proof.
  destruct a, b; cbn; try (split; [discriminate|discriminate]); try tauto.
  rewrite N.eqb_eq. split; [intros ->; reflexivity|intros H; inversion H; reflexivity].
Qed.

Lemma mop_eqb_eq a b : mop_eqb a b = true <-> a = b.
Proof.
  destruct a as [k1 c1 n1 t1], b as [k2 c2 n2 t2]. unfold mop_eqb; cbn.
  rewrite !andb_true_iff, !N.eqb_eq, !opt_eqb_eq. split.
  - intros [[[-> ->] ->] ->]; reflexivity.
  - intros H; inversion H; auto.
Qed.

Lemma mop_dec (a b : mop) : {a = b} + {a <> b}.
Proof. destruct (mop_eqb a b) eqn:E; [left; apply mop_eqb_eq; exact E|right; intro H; apply mop_eqb_eq in H; congruence]. Qed.

(* ---------- sorted lists ---------- *)

Notation ksorted := (StronglySorted (fun a b : mop => op_key a <= op_key b)).

Lemma isort_ksorted l : ksorted (isort_by op_key l).
Proof.
  eapply SS_impl; [|apply (isort_by_SS op_key (fun _ _ => True)); apply SS_True].
  intros a b. apply Lex_key_le.
Qed.

Definition key_inj (l : list mop) : Prop :=
  forall a b, In a l -> In b l -> op_key a = op_key b -> a = b.

Definition conflicting (l : list mop) : Prop :=
  exists a b, In a l /\ In b l /\ op_key a = op_key b /\ a <> b.

Lemma key_inj_or_conflicting l : key_inj l \/ conflicting l.
Proof.
  induction l as [|x l [IH|IH]].
  - left. intros a b [].
  - destruct (existsb (fun y => (op_key x =? op_key y) && negb (mop_eqb x y)) l) eqn:E.
    + right. apply existsb_exists in E. destruct E as [y [Hy E]].
      apply andb_true_iff in E. destruct E as [E1 E2]. apply N.eqb_eq in E1.
      exists x, y. repeat split; [left; reflexivity|right; exact Hy|exact E1|].
      intro; subst. rewrite (proj2 (mop_eqb_eq y y) eq_refl) in E2. discriminate.
    + left. intros a b Ha Hb Hk.
      assert (Hno : forall y, In y l -> op_key x = op_key y -> x = y).
      { intros y Hy Hky. destruct (mop_dec x y) as [|Hne]; [assumption|]. exfalso.
        assert (existsb (fun y => (op_key x =? op_key y) && negb (mop_eqb x y)) l = true).
        { apply existsb_exists. exists y. split; [exact Hy|].
          rewrite (proj2 (N.eqb_eq _ _) Hky). cbn.
          destruct (mop_eqb x y) eqn:M; [apply mop_eqb_eq in M; contradiction|reflexivity]. }
        congruence. }
      destruct Ha as [<-|Ha], Hb as [<-|Hb]; auto.
      * symmetry. apply Hno; auto.
  - right. destruct IH as (a & b & Ha & Hb & Hk & Hne). exists a, b. repeat split; auto; right; assumption.
Qed.

Lemma conflicting_perm l1 l2 : Permutation l1 l2 -> conflicting l1 -> conflicting l2.
Proof.
  intros HP (a & b & Ha & Hb & Hk & Hne). exists a, b.
  repeat split; auto; eapply Permutation_in; eauto.
Qed.

Lemma key_inj_not_conflicting l : key_inj l -> ~ conflicting l.
Proof. intros H (a & b & Ha & Hb & Hk & Hne). apply Hne. apply H; auto. Qed.

Lemma divergent_conflicting s : divergent s = true -> conflicting s.
Proof.
  induction s as [|a s IH]; [discriminate|]. destruct s as [|b r]; [discriminate|].
  cbn [divergent]. intros H. apply orb_true_iff in H. destruct H as [H|H].
  - apply andb_true_iff in H. destruct H as [H1 H2]. apply N.eqb_eq in H1.
    exists a, b. repeat split; [left; reflexivity|right; left; reflexivity|exact H1|].
    intro; subst. rewrite (proj2 (mop_eqb_eq b b) eq_refl) in H2. discriminate.
  - destruct (IH H) as (x & y & Hx & Hy & Hk & Hne). exists x, y. repeat split; auto; right; assumption.
Qed.

Lemma conflicting_divergent s : ksorted s -> conflicting s -> divergent s = true.
Proof.
  induction 1 as [|a s Hs IH Hf]; intros (x & y & Hx & Hy & Hk & Hne); [destruct Hx|].
  destruct s as [|b r].
  { destruct Hx as [<-|[]], Hy as [<-|[]]. contradiction. }
  cbn [divergent]. apply orb_true_iff.
  rewrite Forall_forall in Hf.
  (* wlog the pair is (a, z) with z in the tail, or both in the tail *)
  assert (Hcase : conflicting (b :: r) \/ exists z, In z (b :: r) /\ op_key a = op_key z /\ a <> z).
  { destruct Hx as [<-|Hx], Hy as [<-|Hy].
    - contradiction.
    - right. exists y; auto.
    - right. exists x. repeat split; auto.
    - left. exists x, y; auto. }
  destruct Hcase as [Hc|(z & Hz & Hkz & Hnz)]; [right; apply IH; exact Hc|].
  destruct (mop_dec a b) as [Eab|Nab].
  - subst b. right. apply IH. destruct Hz as [<-|Hz]; [contradiction|].
    exists a, z. repeat split; [left; reflexivity|right; exact Hz|exact Hkz|exact Hnz].
  - left. apply andb_true_iff. split.
    + apply N.eqb_eq. pose proof (Hf b (or_introl eq_refl)) as H1.
      inversion Hs as [|? ? Hsr Hfb]; subst. rewrite Forall_forall in Hfb.
      destruct Hz as [<-|Hz]; [exact Hkz|]. pose proof (Hfb z Hz). lia.
    + destruct (mop_eqb a b) eqn:M; [apply mop_eqb_eq in M; contradiction|reflexivity].
Qed.

Lemma sorted_perm_unique_inj (l1 : list mop) : forall l2,
  ksorted l1 -> ksorted l2 -> Permutation l1 l2 -> key_inj l1 -> l1 = l2.
Proof.
  induction l1 as [|x r1 IH]; intros l2 H1 H2 HP Hinj.
  - apply Permutation_nil in HP; subst; reflexivity.
  - destruct l2 as [|y r2]; [apply Permutation_sym, Permutation_nil in HP; discriminate|].
    inversion H1 as [|? ? Hs1 Hf1]; subst. inversion H2 as [|? ? Hs2 Hf2]; subst.
    assert (Hxy : x = y).
    { assert (Hyin : In y (x :: r1)) by (eapply Permutation_in; [apply Permutation_sym; exact HP|left; reflexivity]).
      assert (Hxin : In x (y :: r2)) by (eapply Permutation_in; [exact HP|left; reflexivity]).
      destruct Hyin as [->|Hyin]; [reflexivity|].
      destruct Hxin as [->|Hxin]; [reflexivity|].
      rewrite Forall_forall in Hf1, Hf2.
      pose proof (Hf1 y Hyin). pose proof (Hf2 x Hxin).
      apply Hinj; [left; reflexivity|right; exact Hyin|lia]. }
    subst y. f_equal. apply IH; auto.
    + eapply Permutation_cons_inv; exact HP.
    + intros a b Ha Hb. apply Hinj; right; assumption.
Qed.

(* ---------- merge is a function of the multiset of ops ---------- *)

Theorem merge_perm l1 l2 : Permutation l1 l2 -> merge l1 = merge l2.
Proof.
  intros HP. unfold merge.
  pose proof (isort_ksorted l1) as S1. pose proof (isort_ksorted l2) as S2.
  pose proof (isort_by_perm op_key l1) as P1. pose proof (isort_by_perm op_key l2) as P2.
  assert (PS : Permutation (isort_by op_key l1) (isort_by op_key l2)).
  { eapply perm_trans; [apply Permutation_sym; exact P1|]. eapply perm_trans; [exact HP|exact P2]. }
  destruct (key_inj_or_conflicting (isort_by op_key l1)) as [Hinj|Hc].
  - rewrite (sorted_perm_unique_inj _ _ S1 S2 PS Hinj). reflexivity.
  - rewrite (conflicting_divergent _ S1 Hc).
    rewrite (conflicting_divergent _ S2 (conflicting_perm _ _ PS Hc)). reflexivity.
Qed.

(* ---------- schedules are invisible ---------- *)

Lemma concat_map_app_perm {A B} (f g : A -> list B) ws :
  Permutation (concat (map (fun w => f w ++ g w) ws)) (concat (map f ws) ++ concat (map g ws)).
Proof.
  induction ws as [|w ws IH]; cbn; [constructor|].
  rewrite <- !app_assoc. apply Permutation_app_head.
  eapply perm_trans; [apply Permutation_app_head; exact IH|].
  apply Permutation_app_swap_app.
Qed.

Lemma concat_pick {B} (a : N) (X : list B) ws :
  NoDup ws ->
  concat (map (fun w => if a =? w then X else []) ws) = if existsb (N.eqb a) ws then X else [].
Proof.
  induction ws as [|w ws IH]; cbn; intros Hnd; [reflexivity|].
  inversion Hnd as [|? ? Hni Hnd']; subst. rewrite IH by exact Hnd'.
  destruct (N.eqb_spec a w) as [->|Hne]; cbn.
  - destruct (existsb (N.eqb w) ws) eqn:E; [|apply app_nil_r].
    exfalso. apply Hni. apply existsb_exists in E. destruct E as [x [Hx Ex]]. apply N.eqb_eq in Ex. subst; exact Hx.
  - reflexivity.
Qed.

Definition workers_list (workers : nat) : list N := map N.of_nat (seq 0 workers).

Lemma workers_nodup workers : NoDup (workers_list workers).
Proof.
  unfold workers_list. apply FinFun.Injective_map_NoDup; [|apply seq_NoDup].
  intros x y H. apply Nat2N.inj; exact H.
Qed.

Lemma workers_mem workers a : (0 < workers)%nat ->
  existsb (N.eqb (a mod N.of_nat workers)) (workers_list workers) = true.
Proof.
  intros Hw. apply existsb_exists. exists (a mod N.of_nat workers). split; [|apply N.eqb_refl].
  unfold workers_list. apply in_map_iff. exists (N.to_nat (a mod N.of_nat workers)). split; [lia|].
  apply in_seq. pose proof (N.mod_lt a (N.of_nat workers) ltac:(lia)) as Hm.
  generalize dependent (a mod N.of_nat workers). intros m Hm. lia.
Qed.

Lemma run_schedule_alt units workers assign :
  run_schedule units workers assign
  = map (fun w => worker_delta units (map (fun a => a mod N.of_nat workers) assign) w) (workers_list workers).
Proof. unfold run_schedule, workers_list. rewrite map_map. reflexivity. Qed.

Lemma schedule_perm units workers assign : (0 < workers)%nat ->
  Permutation (concat (run_schedule units workers assign)) (flat_map c_ops (concat units)).
Proof.
  intros Hw. rewrite run_schedule_alt. set (ws := workers_list workers).
  set (asg := map (fun a => a mod N.of_nat workers) assign).
  assert (Hasg : Forall (fun a => existsb (N.eqb a) ws = true) asg).
  { unfold asg. apply Forall_forall. intros a Ha. apply in_map_iff in Ha. destruct Ha as [a0 [<- _]].
    apply workers_mem; exact Hw. }
  assert (H0 : existsb (N.eqb 0) ws = true).
  { replace 0 with (0 mod N.of_nat workers) by (apply N.mod_0_l; lia). apply workers_mem; exact Hw. }
  clearbody asg. revert asg Hasg. induction units as [|u us IH]; intros asg Hasg.
  - cbn. clear. induction ws; cbn; auto.
  - cbn [concat]. rewrite flat_map_app.
    destruct asg as [|a asg'].
    + cbn [worker_delta].
      eapply perm_trans; [apply (concat_map_app_perm (fun w => if 0 =? w then flat_map c_ops u else [])
                                   (fun w => worker_delta us [] w) ws)|].
      rewrite concat_pick by apply workers_nodup. rewrite H0.
      apply Permutation_app_head. apply IH. constructor.
    + cbn [worker_delta]. inversion Hasg as [|? ? Ha Hasg']; subst.
      eapply perm_trans; [apply (concat_map_app_perm (fun w => if a =? w then flat_map c_ops u else [])
                                   (fun w => worker_delta us asg' w) ws)|].
      rewrite concat_pick by apply workers_nodup. rewrite Ha.
      apply Permutation_app_head. apply IH. exact Hasg'.
Qed.

Lemma group_units_concat l : concat (group_units l) = l.
Proof.
  induction l as [|c r IH]; cbn; [reflexivity|].
  destruct (group_units r) as [|[|d u] g] eqn:G; cbn in *.
  - subst r. reflexivity.
  - rewrite <- IH. reflexivity.
  - destruct (unit_key c =? unit_key d); cbn; rewrite <- IH; reflexivity.
Qed.

Lemma flat_map_perm {A B} (f : A -> list B) l1 l2 :
  Permutation l1 l2 -> Permutation (flat_map f l1) (flat_map f l2).
Proof.
  induction 1; cbn; auto.
  - apply Permutation_app_head; assumption.
  - rewrite !app_assoc. apply Permutation_app_tail. apply Permutation_app_comm.
  - eapply perm_trans; eassumption.
Qed.

Theorem schedule_invisible_units acc workers assign : (0 < workers)%nat ->
  merge (concat (run_schedule (work_units acc) workers assign)) = merge (flat_map c_ops acc).
Proof.
  intros Hw. apply merge_perm.
  eapply perm_trans; [apply schedule_perm; exact Hw|].
  unfold work_units. rewrite group_units_concat.
  apply flat_map_perm. apply Permutation_sym, isort_by_perm.
Qed.

Theorem schedule_invisible_tick tbl enq workers assign : (0 < workers)%nat ->
  tick_ops_sched tbl enq workers assign = tick_ops tbl enq.
Proof. intros Hw. unfold tick_ops_sched, tick_ops. apply schedule_invisible_units; exact Hw. Qed.

(* ---------- the tick depends on the candidate set only ---------- *)

Definition table_ok (tbl : list cand) : Prop :=
  Forall (fun c => c_scope c < 2 ^ 256 /\ c_rule c < two32) tbl /\
  (forall i j, (i < length tbl)%nat -> (j < length tbl)%nat ->
     c_scope (nth i tbl dflt_cand) = c_scope (nth j tbl dflt_cand) ->
     c_rule (nth i tbl dflt_cand) = c_rule (nth j tbl dflt_cand) -> i = j).

Definition enq_ok (tbl : list cand) (enq : list N) : Prop :=
  Forall (fun h => (N.to_nat h < length tbl)%nat) enq.

Lemma queue_wf tbl enq : table_ok tbl -> enq_ok tbl enq -> Forall wf_cand (queue_of tbl enq).
Proof.
  intros [Hw _] He. unfold enq_ok in He. unfold queue_of. apply Forall_forall. intros c Hc.
  apply in_map_iff in Hc. destruct Hc as [h [<- Hh]].
  pose proof (proj1 (Forall_forall _ _) He) as He'. pose proof (proj1 (Forall_forall _ _) Hw) as Hw'.
  unfold wf_cand; cbn. apply Hw'. apply nth_In. apply He'; exact Hh.
Qed.

Lemma queue_key_functional tbl enq : table_ok tbl -> enq_ok tbl enq -> key_functional (queue_of tbl enq).
Proof.
  intros [_ Hinj] He c1 c2 H1 H2 Hk. unfold enq_ok in He. unfold queue_of in *.
  apply in_map_iff in H1, H2. destruct H1 as [h1 [<- Hh1]], H2 as [h2 [<- Hh2]].
  rewrite Forall_forall in He. unfold ckey, chandle in *; cbn in *. inversion Hk as [[Es Er]].
  assert (N.to_nat h1 = N.to_nat h2) by (apply Hinj; auto). lia.
Qed.

Theorem tick_set_determined tbl enq1 enq2 :
  table_ok tbl -> enq_ok tbl enq1 -> enq_ok tbl enq2 ->
  (forall h, In h enq1 <-> In h enq2) -> tick tbl enq1 = tick tbl enq2.
Proof.
  intros Ht H1 H2 Hs.
  assert (E : drain_handles (queue_of tbl enq1) = drain_handles (queue_of tbl enq2)).
  { apply drain_set_determined; auto using queue_wf, queue_key_functional.
    intros c. unfold queue_of. rewrite !in_map_iff. split; intros [h [Eh Hh]]; exists h; (split; [exact Eh|apply Hs; exact Hh]). }
  unfold tick, tick_ops, drained. rewrite E. reflexivity.
Qed.

(* canonical consideration order: ascending (scope hash, rule id), one entry per key *)
Theorem tick_order_canonical tbl enq :
  table_ok tbl -> enq_ok tbl enq ->
  to_order (tick tbl enq) = map snd (queue_map (queue_of tbl enq)) /\
  sorted kcmp (queue_map (queue_of tbl enq)).
Proof.
  intros Ht He. split; [|apply queue_map_sorted].
  cbn. apply drain_handles_canonical. apply queue_wf; assumption.
Qed.

(* rejected candidates are invisible: re-running admission on the accepted ones accepts all *)
Lemma greedy_select_all acc l :
  greedy_from acc (select l (greedy_from acc l)) = map (fun _ => true) (select l (greedy_from acc l)).
Proof.
  revert acc; induction l as [|f l IH]; intros acc; cbn; [reflexivity|].
  destruct (existsb (conflict f) acc) eqn:E; cbn.
  - apply IH.
  - rewrite E. f_equal. apply IH.
Qed.

Lemma select_map {A B} (g : A -> B) l d : select (map g l) d = map g (select l d).
Proof.
  revert d; induction l as [|x l IH]; intros d; cbn; [reflexivity|].
  destruct d as [|[|] d]; cbn; auto. f_equal. apply IH.
Qed.

Lemma select_all_true {A} (l : list A) : select l (map (fun _ => true) l) = l.
Proof. induction l; cbn; congruence. Qed.

Theorem accepted_idempotent cs : accepted (accepted cs) = accepted cs.
Proof.
  unfold accepted. rewrite !reserve_greedy. unfold greedy.
  set (D := greedy_from [] (map c_fp cs)).
  rewrite <- (select_map c_fp cs D). unfold D.
  rewrite greedy_select_all. fold D.
  rewrite (select_map c_fp cs D), map_map.
  apply select_all_true.
Qed.
