(* Lemmas about Model/Guard.v (C14). *)
From Coq Require Import List NArith Bool Lia.
From Echo Require Import Base.FinMap Base.Order Model.Patch Model.Guard.
Import ListNotations.
Open Scope N_scope.

Definition n_eq := ol_eq _ N_order.
Definition n_as := ol_antisym _ N_order.
Definition n_tr := ol_trans _ N_order.
Ltac fn := try exact n_eq; try exact n_as; try exact n_tr.

(* ---------- check_op ---------- *)

Lemma first_missing_none {A} (mem : A -> bool) l :
  first_missing mem l = None <-> forall x, In x l -> mem x = true.
Proof.
  unfold first_missing. split.
  - intros H x Hx. pose proof (List.find_none _ _ H x Hx) as E. cbn in E. destruct (mem x); [reflexivity|discriminate].
  - intros H. destruct (List.find (fun x => negb (mem x)) l) as [x|] eqn:F; [|reflexivity].
    apply List.find_some in F. destruct F as [Hx E]. rewrite (H x Hx) in E. discriminate.
Qed.

Definition declared_writes (g : guard) (o : op) : Prop :=
  let t := op_write_targets o in
  (t_instance t = true -> g_system g = true) /\
  t_warp t = g_warp g /\
  (forall n, In n (t_nodes t) -> memN n (g_nodes_write g) = true) /\
  (forall e, In e (t_edges t) -> memN e (g_edges_write g) = true) /\
  (forall k, In k (t_atts t) -> memK k (g_atts_write g) = true).

Lemma check_op_spec g o : check_op g o = None <-> declared_writes g o.
Proof.
  unfold check_op, declared_writes. set (t := op_write_targets o).
  destruct (t_instance t) eqn:Ei; destruct (g_system g) eqn:Es; cbn [andb negb].
  all: try (split; [discriminate|intros [H _]; specialize (H eq_refl); discriminate]).
  all: destruct (N.eqb_spec (t_warp t) (g_warp g)) as [Ew|Ew]; cbn [negb];
    try (split; [discriminate|intros (_ & H & _); contradiction]).
  all: destruct (first_missing _ (t_nodes t)) eqn:F1;
    [split; [discriminate|intros (_ & _ & H & _); apply first_missing_none in H; congruence]|];
    destruct (first_missing _ (t_edges t)) eqn:F2;
    [split; [discriminate|intros (_ & _ & _ & H & _); apply first_missing_none in H; congruence]|];
    destruct (first_missing _ (t_atts t)) eqn:F3;
    [split; [discriminate|intros (_ & _ & _ & _ & H); apply first_missing_none in H; congruence]|];
    split; [intros _|reflexivity];
    repeat split; try (intros; discriminate); try assumption; try reflexivity;
    apply first_missing_none; assumption.
Qed.

(* ---------- executor traces ---------- *)

Fixpoint emitted (tr : list event) : list op :=
  match tr with
  | [] => []
  | Emit o :: r => o :: emitted r
  | _ :: r => emitted r
  end.

Definition honest_trace (g : guard) (tr : list event) : Prop :=
  Forall (fun ev => match ev with
                    | Read a => check_read g a = None
                    | Emit o => check_op g o = None
                    | ExecPanic => False
                    end) tr.

Lemma run_exec_ok g tr ops :
  run_exec g tr = (ops, false) ->
  ops = emitted tr /\
  Forall (fun ev => match ev with Read a => check_read g a = None | Emit _ => True | ExecPanic => False end) tr.
Proof.
  revert ops; induction tr as [|ev tr IH]; intros ops H; cbn in H.
  - inversion H; subst. split; [reflexivity|constructor].
  - destruct ev as [a|o|].
    + destruct (check_read g a) eqn:C; [discriminate|].
      destruct (IH ops H) as [E F]. split; [exact E|constructor; [exact C|exact F]].
    + destruct (run_exec g tr) as [ops' st] eqn:R. inversion H; subst.
      destruct (IH ops' eq_refl) as [E F]. split; [cbn; f_equal; exact E|constructor; [exact I|exact F]].
    + discriminate.
Qed.

Lemma run_exec_honest g tr :
  Forall (fun ev => match ev with Read a => check_read g a = None | Emit _ => True | ExecPanic => False end) tr ->
  run_exec g tr = (emitted tr, false).
Proof.
  induction 1 as [|ev tr Hev Htr IH]; [reflexivity|]. cbn.
  destruct ev as [a|o|]; [rewrite Hev; exact IH|rewrite IH; reflexivity|contradiction].
Qed.

(* Soundness: an item is accepted only if EVERY read was declared, EVERY emitted op is inside the
   declared writes of its own instance (no cross-instance op, no instance-level op from a user
   rule) and the executor did not panic; equivalently any single violation poisons the item. *)
Theorem guard_sound g tr ops :
  execute_item_enforced g tr = ItemOk ops -> honest_trace g tr /\ ops = emitted tr.
Proof.
  unfold execute_item_enforced. destruct (run_exec g tr) as [ops' st] eqn:R.
  destruct st; [discriminate|].
  destruct (existsb _ ops') eqn:E; [discriminate|]. intros H; inversion H; subst ops'.
  destruct (run_exec_ok g tr ops R) as [Eo F]. split; [|exact Eo].
  unfold honest_trace. subst ops. clear R H.
  induction tr as [|ev tr IH]; [constructor|].
  inversion F as [|? ? Hev Htr]; subst.
  destruct ev as [a|o|].
  - constructor; [exact Hev|apply IH; assumption].
  - cbn in E. apply orb_false_iff in E. destruct E as [E1 E2].
    constructor; [destruct (check_op g o); [discriminate|reflexivity]|apply IH; assumption].
  - contradiction.
Qed.

(* Completeness: a rewrite that stays inside its declaration is never flagged. *)
Theorem guard_complete g tr :
  honest_trace g tr -> execute_item_enforced g tr = ItemOk (emitted tr).
Proof.
  intros H. unfold execute_item_enforced.
  rewrite run_exec_honest.
  - assert (E : existsb (fun o => match check_op g o with Some _ => true | None => false end) (emitted tr) = false).
    { induction H as [|ev tr Hev Htr IH]; [reflexivity|].
      destruct ev as [a|o|]; cbn; auto. rewrite Hev. exact IH. }
    rewrite E. reflexivity.
  - eapply Forall_impl; [|exact H]. intros [a|o|]; auto.
Qed.

(* ---------- attributed targets cover observable effects ---------- *)

Definition store_sorted (s : store) : Prop :=
  sorted N.compare (s_nodes s) /\ sorted N.compare (s_edges s) /\
  sorted N.compare (s_natt s) /\ sorted N.compare (s_eatt s).

Lemma opt_set_other {V} k k' (v : option V) m : k' <> k -> nfind k' (opt_set k v m) = nfind k' m.
Proof.
  intros H. unfold opt_set. destruct v; [apply find_set_other|apply find_del_other]; fn; exact H.
Qed.

Lemma mem_set_other {V} k k' (v : V) m : k' <> k -> nmem k' (nset k v m) = nmem k' m.
Proof. intros H. unfold mem. rewrite find_set_other by (fn; exact H). reflexivity. Qed.

Lemma mem_del_other {V} k k' (m : list (N * V)) : k' <> k -> nmem k' (ndel k m) = nmem k' m.
Proof. intros H. unfold mem. rewrite find_del_other by (fn; exact H). reflexivity. Qed.

Theorem targets_cover_effects_partial s o s' :
  store_sorted s -> reparents s o = false -> store_apply s o = Some s' ->
  forall l, ~ In l (target_locs o) -> obs_eq s s' l.
Proof.
  intros (Sn & Se & Sna & Sea) Hr Ha l Hl.
  destruct o as [k cw cr init|w root parent|w|w n ty|w n|w e from to ty|w from e|k v]; cbn in Ha; try discriminate.
  - (* UpsertNode *)
    inversion Ha; subst s'. unfold target_locs in Hl; cbn in Hl.
    destruct l as [m|e|m|e]; cbn; auto.
    split; [|intros; reflexivity].
    apply eq_sym, find_set_other; fn. intro; subst; apply Hl; left; reflexivity.
  - (* DeleteNode *)
    unfold delete_node_isolated in Ha. destruct (nfind n (s_nodes s)); [|discriminate].
    destruct (existsb (incident n) (s_edges s)); [discriminate|]. inversion Ha; subst s'.
    unfold target_locs in Hl; cbn in Hl.
    destruct l as [m|e|m|e]; cbn; auto.
    + split; [|intros; reflexivity].
      apply eq_sym, find_del_other; fn. intro; subst; apply Hl; left; reflexivity.
    + apply eq_sym, find_del_other; fn. intro; subst; apply Hl; right; left; reflexivity.
  - (* UpsertEdge *)
    inversion Ha; subst s'. unfold target_locs in Hl; cbn in Hl. cbn in Hr.
    destruct l as [m|e'|m|e']; cbn; auto.
    + split; [reflexivity|]. intros e'. unfold adj. cbn.
      destruct (N.eq_dec e' e) as [->|Hne].
      * rewrite find_set_same by fn. cbn.
        assert (Hm : m <> from) by (intro; subst; apply Hl; left; reflexivity).
        destruct (N.eqb_spec from m); [congruence|].
        destruct (nfind e (s_edges s)) as [r|]; [|reflexivity].
        apply negb_false_iff in Hr. apply N.eqb_eq in Hr.
        destruct (N.eqb_spec (e_from r) m); [congruence|reflexivity].
      * rewrite find_set_other by (fn; exact Hne). reflexivity.
    + apply eq_sym, mem_set_other. intro; subst; apply Hl; right; left; reflexivity.
  - (* DeleteEdge *)
    unfold delete_edge_exact in Ha. destruct (nfind e (s_edges s)) as [r|] eqn:F; [|discriminate].
    destruct (N.eqb_spec (e_from r) from) as [Ef|]; [|discriminate]. inversion Ha; subst s'.
    unfold target_locs in Hl; cbn in Hl.
    destruct l as [m|e'|m|e']; cbn; auto.
    + split; [reflexivity|]. intros e'. unfold adj. cbn.
      destruct (N.eq_dec e' e) as [->|Hne].
      * rewrite find_del_same by (fn; exact Se). rewrite F.
        assert (Hm : m <> from) by (intro; subst; apply Hl; left; reflexivity).
        destruct (N.eqb_spec (e_from r) m); [congruence|reflexivity].
      * rewrite find_del_other by (fn; exact Hne). reflexivity.
    + apply eq_sym, mem_del_other. intro; subst; apply Hl; right; left; reflexivity.
    + apply eq_sym, find_del_other; fn. intro; subst; apply Hl; right; right; left. reflexivity.
  - (* SetAtt *)
    unfold target_locs in Hl; cbn in Hl.
    destruct (ak_edge k) eqn:Ek; inversion Ha; subst s'.
    + destruct l as [m|e'|m|e']; cbn; auto; try (split; [reflexivity|intros; reflexivity]).
      apply eq_sym, opt_set_other. intro; subst; apply Hl; left; reflexivity.
    + destruct l as [m|e'|m|e']; cbn; auto; try (split; [reflexivity|intros; reflexivity]).
      apply eq_sym, opt_set_other. intro; subst; apply Hl; left; reflexivity.
Qed.

(* The full statement (without the re-parenting exclusion) is false: moving an existing edge to a
   new source changes the adjacency observed under the OLD source node, which is not attributed
   (the attribution is state-independent by design). *)
Theorem targets_cover_effects_refuted :
  exists s o s' l, store_sorted s /\ store_apply s o = Some s' /\ ~ In l (target_locs o) /\ ~ obs_eq s s' l.
Proof.
  exists (mk_store [(1, 7); (2, 7); (3, 7)] [(9, (1, 3, 8))] [] []), (UpsertEdge 1 9 2 3 8),
         (mk_store [(1, 7); (2, 7); (3, 7)] [(9, (2, 3, 8))] [] []), (LNode 1).
  split; [repeat split; cbn; auto|]. split; [reflexivity|]. split.
  - cbn. intros [H|[H|[]]]; discriminate.
  - cbn. intros [_ H]. specialize (H 9). vm_compute in H. discriminate.
Qed.
