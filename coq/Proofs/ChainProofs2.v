(* C05 proofs, part 2: replay verification. *)
From Coq Require Import List NArith Bool Lia PeanoNat.
From Echo Require Import Base.Bytes Model.Chain.
From Echo Require Import Proofs.ChainProofs.
Import ListNotations.
Open Scope N_scope.

(* values fit their Rust types (32-byte hashes, u32 policy, u64 counts); always true of real entries *)
Definition wf_entry (e : entry) : bool :=
  forallb idb (parent_ids e) && u64b (lenN (parent_ids e)) && idb (e_root e) && idb (e_pdig e)
  && match e_patch e with Some p => u32b (p_policy p) && wf_pbody (replay_body p) | None => true end.

Section ReplayProofs.
  Variable H : bytes -> N.
  Variable St : Type.
  Variable apply : St -> list op -> option St.
  Variable root : St -> N.
  Variable lc : bool.
  Variable wl : N.
  Variable u0 : N.

  Notation run := (run H St apply root lc wl u0).
  Notation advance_one := (advance_one H St apply root lc wl u0).
  Notation artifacts := (artifacts H).

  Definition cbody_of (e : entry) (p : patch) : cbody :=
    {| cb_parents := parent_ids e; cb_root := e_root e; cb_pdig := e_pdig e; cb_policy := p_policy p |}.

  Lemma artifacts_ok e p a :
    artifacts e p = inr a ->
    e_pdig e = p_digest p /\ patch_digest H (replay_body p) = p_digest p /\
    a_commit a = e_commit e /\ a_root a = e_root e /\ a_parents a = parent_ids e /\ a_pdig a = e_pdig e /\
    a_policy a = p_policy p /\ a_body a = replay_body p.
  Proof.
    unfold Chain.artifacts.
    destruct (e_pdig e =? p_digest p) eqn:E1; cbn [negb]; [|discriminate].
    destruct (patch_digest H (replay_body p) =? p_digest p) eqn:E2; cbn [negb]; [|discriminate].
    destruct (u64_max <=? e_tick e); [discriminate|].
    apply N.eqb_eq in E1, E2.
    destruct (e_receipt e) as [r|].
    - destruct (r_tx r =? e_tick e + 1); cbn [negb]; [|discriminate].
      destruct (receipt_digest H (r_entries r) =? p_decision p); cbn [negb]; [|discriminate].
      intros E; injection E as <-. cbn. auto 10.
    - intros E; injection E as <-. cbn. auto 10.
  Qed.

  Lemma advance_one_ok t e w w' :
    advance_one t e w = inr w' ->
    exists p s' a, e_patch e = Some p /\ p_warp p = u0 /\ apply (rs_state w) (p_ops p) = Some s' /\
      root s' = e_root e /\ commit_id H (cbody_of e p) = e_commit e /\ artifacts e p = inr a /\
      w' = {| rs_state := s'; rs_hist := rs_hist w ++ [a] |}.
  Proof.
    unfold Chain.advance_one. destruct (coord_link_check St lc wl t e w); [discriminate|].
    destruct (e_patch e) as [p|]; [|discriminate].
    destruct (p_warp p =? u0) eqn:Ew; cbn [negb]; [|discriminate].
    destruct (apply (rs_state w) (p_ops p)) as [s'|] eqn:Ea; [|discriminate].
    destruct (root s' =? e_root e) eqn:Er; cbn [negb]; [|discriminate].
    apply N.eqb_eq in Er. rewrite Er.
    destruct (commit_id H _ =? e_commit e) eqn:Ec; cbn [negb]; [|discriminate].
    destruct (artifacts e p) as [x|a] eqn:Ea2; [discriminate|].
    intros E; injection E as <-. apply N.eqb_eq in Ew, Ec.
    exists p, s', a. repeat split; auto.
  Qed.

  Lemma advance_one_coord t e w w' : advance_one t e w = inr w' -> coord_link_check St lc wl t e w = None.
  Proof. unfold Chain.advance_one. destruct (coord_link_check St lc wl t e w); [discriminate|auto]. Qed.

  Lemma run_app es1 es2 t w :
    run (es1 ++ es2) t w =
    match run es1 t w with inl x => inl x | inr w' => run es2 (t + lenN es1) w' end.
  Proof.
    revert t w; induction es1 as [|e r IH]; intros t w; cbn.
    - f_equal. unfold lenN. cbn. lia.
    - destruct (advance_one t e w) as [x|w']; auto. rewrite IH. destruct (run r (t + 1) w'); auto.
      f_equal. unfold lenN. cbn [length]. lia.
  Qed.

  Lemma run_chain es t w r :
    run es t w = inr r -> map a_commit (rs_hist r) = map a_commit (rs_hist w) ++ map e_commit es.
  Proof.
    revert t w; induction es as [|e es IH]; intros t w; cbn.
    - intros E; injection E as <-. rewrite app_nil_r. reflexivity.
    - destruct (advance_one t e w) as [x|w'] eqn:A; [discriminate|]. intros R.
      rewrite (IH _ _ R).
      destruct (advance_one_ok _ _ _ _ A) as (p & s' & a & _ & _ & _ & _ & _ & Ar & ->).
      cbn [rs_hist]. rewrite map_app, <- app_assoc. cbn.
      destruct (artifacts_ok _ _ _ Ar) as (_ & _ & -> & _). reflexivity.
  Qed.

  (* what a commit id pins of an entry *)
  Definition core_eq (e e' : entry) : Prop :=
    parent_ids e = parent_ids e' /\ e_root e = e_root e' /\ e_pdig e = e_pdig e' /\
    match e_patch e, e_patch e' with
    | Some p, Some p' => p_policy p = p_policy p' /\ replay_body p = replay_body p'
    | _, _ => False
    end.

  Lemma step_binds t t' e e' w w' w1 w1' :
    wf_entry e = true -> wf_entry e' = true ->
    advance_one t e w = inr w1 -> advance_one t' e' w' = inr w1' -> e_commit e = e_commit e' ->
    (core_eq e e' /\ root (rs_state w1) = root (rs_state w1')) \/ Collision H.
  Proof.
    intros W W' A A' Ec.
    destruct (advance_one_ok _ _ _ _ A) as (p & s & a & Ep & _ & _ & Er & Eh & Ar & ->).
    destruct (advance_one_ok _ _ _ _ A') as (p' & s' & a' & Ep' & _ & _ & Er' & Eh' & Ar' & ->).
    unfold wf_entry in W, W'. rewrite Ep in W. rewrite Ep' in W'. split_wf.
    assert (Hc : commit_id H (cbody_of e p) = commit_id H (cbody_of e' p')) by congruence.
    apply commit_binds_proof in Hc.
    2:{ unfold wf_cbody, cbody_of; cbn. repeat (apply andb_true_intro; split); auto. }
    2:{ unfold wf_cbody, cbody_of; cbn. repeat (apply andb_true_intro; split); auto. }
    destruct Hc as [Hc|C]; [|right; exact C].
    injection Hc as Epar Eroot Epd Epol.
    destruct (artifacts_ok _ _ _ Ar) as (D1 & D2 & _).
    destruct (artifacts_ok _ _ _ Ar') as (D1' & D2' & _).
    assert (Hp : patch_digest H (replay_body p) = patch_digest H (replay_body p')) by congruence.
    apply patch_binds_proof in Hp; auto.
    destruct Hp as [Hp|C]; [|right; exact C].
    left. split.
    - unfold core_eq. rewrite Ep, Ep'. auto.
    - cbn [rs_state]. congruence.
  Qed.

  (* ANY tamper that keeps the commit-id chain: both histories verify and carry the same commit ids => every
     committed field (parents, state root, patch digest, policy, canonical patch content) agrees, position by
     position, and the final state roots agree - or H collides. *)
  Theorem replay_anchored_proof es : forall es' t t' w w' r r',
    Forall (fun e => wf_entry e = true) es -> Forall (fun e => wf_entry e = true) es' ->
    run es t w = inr r -> run es' t' w' = inr r' ->
    map e_commit es = map e_commit es' ->
    root (rs_state w) = root (rs_state w') ->
    (Forall2 core_eq es es' /\ root (rs_state r) = root (rs_state r')) \/ Collision H.
  Proof.
    induction es as [|e es IH]; intros [|e' es'] t t' w w' r r' W W' R R' Ec Er; cbn in Ec; try discriminate.
    - cbn in R, R'. injection R as <-. injection R' as <-. left. split; auto.
    - cbn in R, R'.
      destruct (advance_one t e w) as [x|w1] eqn:A; [discriminate|].
      destruct (advance_one t' e' w') as [x|w1'] eqn:A'; [discriminate|].
      injection Ec as Ec1 Ec2. inversion W as [|? ? We Wes]; subst. inversion W' as [|? ? We' Wes']; subst.
      destruct (step_binds _ _ _ _ _ _ _ _ We We' A A' Ec1) as [[Hce Hr]|C]; [|right; exact C].
      destruct (IH _ _ _ _ _ _ _ Wes Wes' R R' Ec2 Hr) as [[Hf Hr2]|C]; [|right; exact C].
      left. split; auto.
  Qed.

  Hypothesis St_eq_dec : forall a b : St, {a = b} + {a <> b}.

  Lemma root_eq_cases (s s' : St) : root s = root s' -> s = s' \/ RootCollision St root.
  Proof. intros E. destruct (St_eq_dec s s') as [->|Hn]; [left; auto|right; exists s, s'; auto]. Qed.

  Lemma map_commit_replace i e e' (h : list entry) :
    nth_error h i = Some e -> e_commit e = e_commit e' ->
    map e_commit (replace_nth i e' h) = map e_commit h.
  Proof.
    revert i; induction h as [|x h IH]; intros [|i] Nx Ec; cbn in *; try discriminate.
    - injection Nx as ->. congruence.
    - f_equal. auto.
  Qed.

  Lemma replace_nth_firstn {A} n i (x : A) l : firstn n (replace_nth i x l) = replace_nth i x (firstn n l).
  Proof.
    revert n i; induction l as [|y l IH]; intros [|n] [|i]; cbn; auto. f_equal. apply IH.
  Qed.

  Lemma replace_nth_beyond {A} i (x : A) l : (length l <= i)%nat -> replace_nth i x l = l.
  Proof.
    revert i; induction l as [|y l IH]; intros [|i] L; cbn in *; auto; try lia. f_equal. apply IH. lia.
  Qed.

  Lemma replace_nth_split {A} i (x y : A) l :
    nth_error l i = Some y -> exists pre post, l = pre ++ y :: post /\ replace_nth i x l = pre ++ x :: post /\
                                               length pre = i.
  Proof.
    revert i; induction l as [|z l IH]; intros [|i] Nx; cbn in *; try discriminate.
    - injection Nx as ->. exists [], l. auto.
    - destruct (IH _ Nx) as (pre & post & -> & -> & L). exists (z :: pre), post. cbn. auto.
  Qed.

  Lemma Forall_replace {A} (P : A -> Prop) i x l : Forall P l -> P x -> Forall P (replace_nth i x l).
  Proof.
    intros F Px. revert i; induction F as [|y l Py F IH]; intros [|i]; cbn; auto.
  Qed.

  Lemma firstn_In' {A} n (x : A) l : In x (firstn n l) -> In x l.
  Proof. revert n; induction l as [|y l IH]; intros [|n]; cbn; auto; try tauto. intros [->|Hi]; eauto. Qed.

  Lemma nth_firstn_lt {A} n i (l : list A) : (i < n)%nat -> nth_error (firstn n l) i = nth_error l i.
  Proof. revert n i; induction l as [|y l IH]; intros [|n] [|i] L; cbn; auto; try lia. apply IH. lia. Qed.

  Lemma agree_commit_cases e e' :
    alters_one_field e e' -> e_commit e = e_commit e' \/ e' = set_commit e (e_commit e').
  Proof.
    intros [f A]. unfold agree_except in A.
    destruct A as (A1 & A2 & A3 & A4 & A5 & A6 & A7 & A8 & A9 & A10 & A11 & A12 & A13).
    destruct f; try (left; apply A9; discriminate).
    right. destruct e, e'; cbn in *. unfold set_commit; cbn.
    rewrite A1, A2, A3, A4, A5, A6, A7, A8, A10, A11, A12, A13 by discriminate. reflexivity.
  Qed.

  (* single-field tamper (the altered "field" may be the whole patch / parent list / receipt / outputs) *)
  Theorem replay_single_field_tamper_proof h i e e' n t w r :
    nth_error h i = Some e -> alters_one_field e e' ->
    Forall (fun x => wf_entry x = true) h -> wf_entry e' = true ->
    run (firstn n h) t w = inr r ->
    (exists x, run (firstn n (replace_nth i e' h)) t w = inl x)
    \/ (exists r', run (firstn n (replace_nth i e' h)) t w = inr r' /\
                   core_result St root r' = core_result St root r)
    \/ Collision H \/ RootCollision St root.
  Proof.
    intros Nx Alt W We' R.
    destruct (run (firstn n (replace_nth i e' h)) t w) as [x|r'] eqn:R'; [left; eauto|].
    right.
    destruct (agree_commit_cases _ _ Alt) as [Ec|Eset].
    - (* the commit id of the entry is untouched: the chain anchors everything *)
      assert (Em : map e_commit (firstn n h) = map e_commit (firstn n (replace_nth i e' h))).
      { rewrite <- !firstn_map. f_equal. symmetry. apply map_commit_replace with (e := e); auto. }
      assert (Wn : Forall (fun x => wf_entry x = true) (firstn n h)).
      { apply Forall_forall. intros x Hx. apply firstn_In' in Hx. revert x Hx. apply Forall_forall. auto. }
      assert (Wn' : Forall (fun x => wf_entry x = true) (firstn n (replace_nth i e' h))).
      { apply Forall_forall. intros x Hx. apply firstn_In' in Hx. revert x Hx. apply Forall_forall.
        apply Forall_replace; auto. }
      destruct (replay_anchored_proof _ _ _ _ _ _ _ _ Wn Wn' R R' Em eq_refl) as [[_ Hr]|C]; [|auto].
      destruct (root_eq_cases _ _ Hr) as [Hs|C]; [|auto].
      left. exists r'. split; auto. unfold core_result, rs_tick.
      assert (Hch : map a_commit (rs_hist r') = map a_commit (rs_hist r)).
      { rewrite (run_chain _ _ _ _ R), (run_chain _ _ _ _ R'). congruence. }
      assert (Hlen : lenN (rs_hist r') = lenN (rs_hist r)).
      { unfold lenN. f_equal. rewrite <- (map_length a_commit (rs_hist r')), Hch, map_length. reflexivity. }
      rewrite Hs, Hch, Hlen. reflexivity.
    - (* the commit id itself was altered *)
      remember (e_commit e') as c eqn:Hc. clear Hc. subst e'.
      destruct (N.eq_dec c (e_commit e)) as [Esame|Hdiff].
      { assert (set_commit e c = e) as Hee by (rewrite Esame; destruct e; reflexivity).
        rewrite Hee in R'.
        assert (replace_nth i e h = h) as Hh.
        { clear -Nx. revert i Nx; induction h as [|x h IH]; intros [|i] Nx; cbn in *; try discriminate.
          - injection Nx as ->; auto.
          - f_equal; auto. }
        rewrite Hh in R'. left. exists r'. split; auto. congruence. }
      rewrite replace_nth_firstn in R'.
      destruct (Nat.lt_ge_cases i (length (firstn n h))) as [Hlt|Hge].
      + (* the altered entry is read: the recomputed commit id no longer matches *)
        exfalso.
        assert (Nx' : nth_error (firstn n h) i = Some e).
        { rewrite firstn_length in Hlt. rewrite nth_firstn_lt; auto. lia. }
        destruct (replace_nth_split i (set_commit e c) e _ Nx') as (pre & post & Hl & Hl' & Lp).
        rewrite Hl in R. rewrite Hl' in R'. rewrite run_app in R, R'.
        destruct (run pre t w) as [x|w1]; [discriminate|]. cbn in R, R'.
        destruct (advance_one (t + lenN pre) e w1) as [x|w2] eqn:A; [discriminate|].
        destruct (advance_one (t + lenN pre) (set_commit e c) w1) as [x|w2'] eqn:A'; [discriminate|].
        destruct (advance_one_ok _ _ _ _ A) as (p & s & a & Ep & _ & Ea & _ & Eh & _).
        destruct (advance_one_ok _ _ _ _ A') as (p' & s' & a' & Ep' & _ & Ea' & _ & Eh' & _).
        cbn [set_commit e_patch] in Ep'. rewrite Ep in Ep'. injection Ep' as <-.
        assert (Hcb : cbody_of (set_commit e c) p = cbody_of e p) by reflexivity.
        rewrite Hcb in Eh'. cbn [set_commit e_commit] in Eh'. congruence.
      + (* the altered entry lies beyond the replayed prefix: it is never read *)
        rewrite replace_nth_beyond in R' by lia. left. exists r'. split; auto. congruence.
  Qed.

  (* truncation *)
  Definition trunc (h : whist) (k : nat) : whist :=
    {| h_u0 := h_u0 h; h_boundary := h_boundary h; h_entries := firstn k (h_entries h) |}.

  Theorem replay_truncation_proof h k base bw target :
    (k <= length (h_entries h))%nat ->
    (target <= N.of_nat k -> replay_at H St apply root lc wl (trunc h k) base bw target = replay_at H St apply root lc wl h base bw target)
    /\ (N.of_nat k < target -> replay_at H St apply root lc wl (trunc h k) base bw target = inl (EHistoryUnavailable target)).
  Proof.
    intros Lk. unfold replay_at, trunc; cbn [h_entries h_u0 h_boundary]. split; intros Ht.
    - assert (L1 : lenN (firstn k (h_entries h)) <? target = false).
      { apply N.ltb_ge. unfold lenN. rewrite firstn_length. lia. }
      assert (L2 : lenN (h_entries h) <? target = false).
      { apply N.ltb_ge. unfold lenN. lia. }
      rewrite L1, L2. destruct (negb (bw =? h_u0 h)); auto. destruct (negb (root base =? h_boundary h)); auto.
      f_equal. unfold slice. cbn [skipn N.to_nat]. rewrite N.sub_0_r.
      replace (N.to_nat 0) with 0%nat by reflexivity. cbn [skipn].
      rewrite firstn_firstn. f_equal. lia.
    - assert (L1 : lenN (firstn k (h_entries h)) <? target = true).
      { apply N.ltb_lt. unfold lenN. rewrite firstn_length. lia. }
      rewrite L1. reflexivity.
  Qed.
End ReplayProofs.
