(* Lemmas about Model/Cbor.v (ABI canonical CBOR). *)
From Coq Require Import List NArith ZArith Bool Lia.
From Echo Require Import Base.Bytes Base.Order Model.Cbor.
Import ListNotations.
Open Scope N_scope.

(* ------------------------------------------------------------------ refutations on the code as it is *)

(* F4: a half-precision NaN with a payload is accepted and re-encodes differently *)
Lemma canonical_refuted_f16_nan :
  exists b v, wf_bytes b = true /\ decode b = Ok v /\ enc v <> Ok b.
Proof.
  exists [0xf9; 0x7e; 0x01], (VFloat 0x7ff8040000000000).
  split; [reflexivity|]. split; [vm_compute; reflexivity|]. vm_compute. discriminate.
Qed.
