(* Lemmas about Model/Cbor.v (ABI canonical CBOR): heads, the canonical direction
   (accepted bytes re-encode identically) and the round-trip direction. *)
From Coq Require Import List NArith ZArith Bool Lia Permutation.
From Echo Require Import Base.Bytes Base.Order Model.Cbor Proofs.CborFloatProofs.
Import ListNotations.
Open Scope N_scope.

(* ================================================================== bytes, heads *)
(* ------------------------------------------------------------------ generic helpers *)

Lemma bind_ok {A B} (r : result A) (f : A -> result B) x :
  bind r f = Ok x -> exists a, r = Ok a /\ f a = Ok x.
Proof. destruct r as [a|e]; cbn; [eauto|discriminate]. Qed.

Lemma bind_eq {A B} (r : result A) (f : A -> result B) a : r = Ok a -> bind r f = f a.
Proof. intros ->. reflexivity. Qed.

Lemma wf_bytes_cons b l : wf_bytes (b :: l) = true <-> b < 256 /\ wf_bytes l = true.
Proof.
  unfold wf_bytes; cbn [forallb]. rewrite andb_true_iff. unfold byteb. rewrite N.ltb_lt. tauto.
Qed.

Lemma wf_bytes_app_iff a b : wf_bytes (a ++ b) = true <-> wf_bytes a = true /\ wf_bytes b = true.
Proof. rewrite wf_bytes_app, andb_true_iff. tauto. Qed.

Lemma wf_bytes_firstn n l : wf_bytes l = true -> wf_bytes (firstn n l) = true.
Proof.
  revert l; induction n as [|n IH]; intros [|x l] H; cbn [firstn]; auto.
  apply wf_bytes_cons in H as [Hx Hl]. apply wf_bytes_cons. auto.
Qed.

Lemma wf_bytes_skipn n l : wf_bytes l = true -> wf_bytes (skipn n l) = true.
Proof.
  revert l; induction n as [|n IH]; intros [|x l] H; cbn [skipn]; auto.
  apply wf_bytes_cons in H as [Hx Hl]. auto.
Qed.

Lemma wf_bytes_rev l : wf_bytes (rev l) = wf_bytes l.
Proof.
  induction l as [|x l IH]; cbn [rev]; auto.
  rewrite wf_bytes_app, IH. unfold wf_bytes; cbn [forallb]. rewrite andb_true_r, andb_comm. reflexivity.
Qed.

(* little/big endian round trips *)
Lemma from_le_bound l : wf_bytes l = true -> from_le l < 256 ^ N.of_nat (length l).
Proof.
  induction l as [|x l IH]; intros H.
  - cbn. lia.
  - apply wf_bytes_cons in H as [Hx Hl]. specialize (IH Hl).
    cbn [from_le length]. replace (N.of_nat (S (length l))) with (N.succ (N.of_nat (length l))) by lia.
    rewrite N.pow_succ_r'. nia.
Qed.

Lemma le_bytes_from_le l : wf_bytes l = true -> le_bytes (length l) (from_le l) = l.
Proof.
  induction l as [|x l IH]; intros H; [reflexivity|].
  apply wf_bytes_cons in H as [Hx Hl].
  cbn [length le_bytes from_le].
  replace (x + 256 * from_le l) with (x + from_le l * 256) by lia.
  rewrite N.mod_add, N.div_add by lia.
  rewrite N.mod_small, N.div_small by auto. cbn [N.add].
  rewrite IH; auto.
Qed.

Lemma from_be_be_bytes n x : x < 256 ^ N.of_nat n -> from_be (be_bytes n x) = x.
Proof.
  intros H. unfold from_be, be_bytes. rewrite rev_involutive, from_le_le_bytes. apply N.mod_small; auto.
Qed.

Lemma be_bytes_from_be l : wf_bytes l = true -> be_bytes (length l) (from_be l) = l.
Proof.
  intros H. unfold from_be, be_bytes.
  rewrite <- (rev_length l). rewrite le_bytes_from_le by (rewrite wf_bytes_rev; auto).
  apply rev_involutive.
Qed.

Lemma from_be_bound l : wf_bytes l = true -> from_be l < 256 ^ N.of_nat (length l).
Proof.
  intros H. unfold from_be. rewrite <- (rev_length l). apply from_le_bound. rewrite wf_bytes_rev; auto.
Qed.

Lemma be_bytes_wf n x : wf_bytes (be_bytes n x) = true.
Proof. unfold be_bytes. rewrite wf_bytes_rev. apply le_bytes_wf. Qed.

(* read_uint *)
Lemma read_uint_ok k r v r1 :
  read_uint k r = Ok (v, r1) ->
  exists ext, r = ext ++ r1 /\ length ext = k /\ v = from_be ext.
Proof.
  unfold read_uint. destruct (Nat.ltb_spec (length r) k) as [Hlt|Hge]; [discriminate|].
  intros H; inversion H; subst. exists (firstn k r). split; [symmetry; apply firstn_skipn|].
  split; [apply firstn_length_le; auto|reflexivity].
Qed.

Lemma read_uint_app ext rest :
  read_uint (length ext) (ext ++ rest) = Ok (from_be ext, rest).
Proof.
  unfold read_uint. rewrite app_length.
  destruct (Nat.ltb_spec (length ext + length rest) (length ext)) as [Hlt|Hge]; [lia|].
  rewrite firstn_app, Nat.sub_diag, firstn_all. cbn [firstn]. rewrite app_nil_r.
  rewrite skipn_app, Nat.sub_diag, skipn_all. reflexivity.
Qed.

(* heads *)
Definition info_of (n : N) : N :=
  if n <? 24 then n else if n <? 256 then 24 else if n <? 65536 then 25 else if n <? 4294967296 then 26 else 27.

Lemma read_uint_be k n rest :
  n < 256 ^ N.of_nat k -> read_uint k (be_bytes k n ++ rest) = Ok (n, rest).
Proof.
  intros H. rewrite <- (be_bytes_length k n) at 1. rewrite read_uint_app, from_be_be_bytes; auto.
Qed.

Lemma write_major_shape major n :
  n < 2 ^ 64 ->
  exists ext, write_major major n = (major * 32 + info_of n) :: ext /\ info_of n < 32 /\
    wf_bytes ext = true /\
    forall rest, read_len (info_of n) (ext ++ rest) = Ok (n, rest).
Proof.
  intros Hn. unfold write_major, info_of.
  destruct (N.ltb_spec n 24) as [H1|H1].
  { exists []. split; [reflexivity|]. split; [lia|]. split; [reflexivity|]. intros rest. unfold read_len.
    destruct (N.ltb_spec n 24); [reflexivity|lia]. }
  destruct (N.ltb_spec n 256) as [H2|H2].
  { assert (E1 : be_bytes 1 n = [n]).
    { unfold be_bytes. cbn [le_bytes rev app]. rewrite N.mod_small; auto. }
    exists [n]. split; [reflexivity|]. split; [lia|]. split; [rewrite <- E1; apply be_bytes_wf|].
    intros rest. rewrite <- E1. unfold read_len. change (24 <? 24) with false. change (24 =? 24) with true. cbv iota.
    rewrite read_uint_be by (change (256 ^ N.of_nat 1) with 256; lia). cbn [bind].
    destruct (N.leb_spec n 23); [lia|reflexivity]. }
  destruct (N.ltb_spec n 65536) as [H3|H3].
  { exists (be_bytes 2 n). split; [reflexivity|]. split; [lia|]. split; [apply be_bytes_wf|].
    intros rest. unfold read_len. change (25 <? 24) with false. change (25 =? 24) with false. change (25 =? 25) with true. cbv iota.
    rewrite read_uint_be by (change (256 ^ N.of_nat 2) with 65536; lia). cbn [bind].
    destruct (N.leb_spec n 255); [lia|reflexivity]. }
  destruct (N.ltb_spec n 4294967296) as [H4|H4].
  { exists (be_bytes 4 n). split; [reflexivity|]. split; [lia|]. split; [apply be_bytes_wf|].
    intros rest. unfold read_len. change (26 <? 24) with false. change (26 =? 24) with false. change (26 =? 25) with false.
    change (26 =? 26) with true. cbv iota.
    rewrite read_uint_be by (change (256 ^ N.of_nat 4) with 4294967296; lia). cbn [bind].
    destruct (N.leb_spec n 65535); [lia|reflexivity]. }
  exists (be_bytes 8 n). split; [reflexivity|]. split; [lia|]. split; [apply be_bytes_wf|].
  intros rest. unfold read_len. change (27 <? 24) with false. change (27 =? 24) with false. change (27 =? 25) with false.
  change (27 =? 26) with false. change (27 =? 27) with true. cbv iota.
  rewrite read_uint_be by (change (256 ^ N.of_nat 8) with (2 ^ 64); lia). cbn [bind].
  destruct (N.leb_spec n 4294967295); [lia|reflexivity].
Qed.

Lemma read_len_inv info r n r1 :
  wf_bytes r = true -> info < 32 ->
  read_len info r = Ok (n, r1) ->
  exists ext, r = ext ++ r1 /\ n < 2 ^ 64 /\ info_of n = info /\
    forall major, write_major major n = (major * 32 + info) :: ext.
Proof.
  intros Hwf Hinfo. unfold read_len.
  destruct (N.ltb_spec info 24) as [H1|H1].
  { intros H; inversion H; subst. exists []. repeat split; [lia| |].
    - unfold info_of. destruct (N.ltb_spec n 24); [reflexivity|lia].
    - intros major. unfold write_major. destruct (N.ltb_spec n 24); [reflexivity|lia]. }
  assert (Hgen : forall k lo,
     (k = 1 \/ k = 2 \/ k = 4 \/ k = 8)%nat ->
     bind (read_uint k r) (fun '(v, r0) => if v <=? lo then Err ENonCanonInt else Ok (v, r0)) = Ok (n, r1) ->
     exists ext, r = ext ++ r1 /\ length ext = k /\ n = from_be ext /\ lo < n /\ n < 256 ^ N.of_nat k /\ wf_bytes ext = true).
  { intros k lo Hk H. apply bind_ok in H as ((v & r0) & Hr & H).
    destruct (N.leb_spec v lo); [discriminate|]. inversion H; subst.
    apply read_uint_ok in Hr as (ext & -> & Hl & ->).
    apply wf_bytes_app_iff in Hwf as [Hwe _].
    exists ext. repeat split; auto. rewrite <- Hl. apply from_be_bound; auto. }
  destruct (N.eqb_spec info 24) as [->|N24].
  { intros H. apply (Hgen 1%nat 23) in H as (ext & -> & Hl & -> & Hlo & Hhi & Hwe); [|auto].
    exists ext. cbn in Hhi. repeat split; [lia| |].
    - unfold info_of. destruct (N.ltb_spec (from_be ext) 24); [lia|]. destruct (N.ltb_spec (from_be ext) 256); [reflexivity|lia].
    - intros major. unfold write_major.
      destruct (N.ltb_spec (from_be ext) 24); [lia|]. destruct (N.ltb_spec (from_be ext) 256); [|lia].
      destruct ext as [|x [|]]; try discriminate. unfold from_be; cbn. rewrite N.add_0_r. reflexivity. }
  destruct (N.eqb_spec info 25) as [->|N25].
  { intros H. apply (Hgen 2%nat 255) in H as (ext & -> & Hl & -> & Hlo & Hhi & Hwe); [|auto].
    exists ext. cbn in Hhi. repeat split; [lia| |].
    - unfold info_of. destruct (N.ltb_spec (from_be ext) 24); [lia|]. destruct (N.ltb_spec (from_be ext) 256); [lia|].
      destruct (N.ltb_spec (from_be ext) 65536); [reflexivity|lia].
    - intros major. unfold write_major.
      destruct (N.ltb_spec (from_be ext) 24); [lia|]. destruct (N.ltb_spec (from_be ext) 256); [lia|].
      destruct (N.ltb_spec (from_be ext) 65536); [|lia].
      rewrite <- Hl, be_bytes_from_be; auto. }
  destruct (N.eqb_spec info 26) as [->|N26].
  { intros H. apply (Hgen 4%nat 65535) in H as (ext & -> & Hl & -> & Hlo & Hhi & Hwe); [|auto].
    exists ext. cbn in Hhi. repeat split; [lia| |].
    - unfold info_of. destruct (N.ltb_spec (from_be ext) 24); [lia|]. destruct (N.ltb_spec (from_be ext) 256); [lia|].
      destruct (N.ltb_spec (from_be ext) 65536); [lia|]. destruct (N.ltb_spec (from_be ext) 4294967296); [reflexivity|lia].
    - intros major. unfold write_major.
      destruct (N.ltb_spec (from_be ext) 24); [lia|]. destruct (N.ltb_spec (from_be ext) 256); [lia|].
      destruct (N.ltb_spec (from_be ext) 65536); [lia|]. destruct (N.ltb_spec (from_be ext) 4294967296); [|lia].
      rewrite <- Hl, be_bytes_from_be; auto. }
  destruct (N.eqb_spec info 27) as [->|N27].
  { intros H. apply (Hgen 8%nat 4294967295) in H as (ext & -> & Hl & -> & Hlo & Hhi & Hwe); [|auto].
    exists ext. cbn in Hhi. repeat split; [lia| |].
    - unfold info_of. destruct (N.ltb_spec (from_be ext) 24); [lia|]. destruct (N.ltb_spec (from_be ext) 256); [lia|].
      destruct (N.ltb_spec (from_be ext) 65536); [lia|]. destruct (N.ltb_spec (from_be ext) 4294967296); [lia|reflexivity].
    - intros major. unfold write_major.
      destruct (N.ltb_spec (from_be ext) 24); [lia|]. destruct (N.ltb_spec (from_be ext) 256); [lia|].
      destruct (N.ltb_spec (from_be ext) 65536); [lia|]. destruct (N.ltb_spec (from_be ext) 4294967296); [lia|].
      rewrite <- Hl, be_bytes_from_be; auto. }
  destruct (N.eqb_spec info 31); discriminate.
Qed.

(* ================================================================== value induction, sorting, loops (canonical direction) *)
Section ValueInd.
  Variable P : value -> Prop.
  Hypothesis HB : forall b, P (VBool b).
  Hypothesis HN : P VNull.
  Hypothesis HI : forall z, P (VInt z).
  Hypothesis HF : forall b, P (VFloat b).
  Hypothesis HT : forall s, P (VText s).
  Hypothesis HY : forall s, P (VBytes s).
  Hypothesis HA : forall l, Forall P l -> P (VArray l).
  Hypothesis HM : forall es, Forall (fun kv => P (fst kv) /\ P (snd kv)) es -> P (VMap es).
  Hypothesis HG : forall t v, P v -> P (VTag t v).
  Fixpoint value_ind' (v : value) : P v :=
    match v with
    | VBool b => HB b | VNull => HN | VInt z => HI z | VFloat b => HF b
    | VText s => HT s | VBytes s => HY s
    | VArray l =>
        HA l ((fix go (l : list value) : Forall P l :=
                 match l with
                 | [] => Forall_nil _
                 | x :: r => Forall_cons _ (value_ind' x) (go r)
                 end) l)
    | VMap es =>
        HM es ((fix go (es : list (value * value)) : Forall (fun kv => P (fst kv) /\ P (snd kv)) es :=
                  match es with
                  | [] => Forall_nil _
                  | kv :: r => Forall_cons _ (conj (value_ind' (fst kv)) (value_ind' (snd kv))) (go r)
                  end) es)
    | VTag t v => HG t v (value_ind' v)
    end.
End ValueInd.

(* ------------------------------------------------------------------ head byte *)
Lemma head_split b0 : b0 = (b0 / 32) * 32 + b0 mod 32.
Proof. rewrite N.mul_comm. apply N.div_mod. lia. Qed.

Lemma head_major_lt b0 : b0 < 256 -> b0 / 32 < 8.
Proof. intros H. apply N.div_lt_upper_bound; lia. Qed.

Lemma head_info_lt b0 : b0 mod 32 < 32.
Proof. apply N.mod_lt. lia. Qed.

Lemma head_div major info : info < 32 -> (major * 32 + info) / 32 = major.
Proof. intros H. rewrite N.add_comm, N.div_add by lia. rewrite N.div_small; auto. Qed.
Lemma head_mod major info : info < 32 -> (major * 32 + info) mod 32 = info.
Proof. intros H. rewrite N.add_comm, N.mod_add by lia. apply N.mod_small; auto. Qed.

(* ------------------------------------------------------------------ sorting *)
Fixpoint chain (prev : option bytes) (ks : list bytes) : Prop :=
  match ks with
  | [] => True
  | k :: r => match prev with None => True | Some p => bytes_cmp p k = Lt end /\ chain (Some k) r
  end.

Lemma bytes_cmp_antisym a b : bytes_cmp b a = CompOpp (bytes_cmp a b).
Proof. apply (ol_antisym _ bytes_order). Qed.

Lemma bytes_cmp_gt_lt a b : bytes_cmp a b = Gt -> bytes_cmp b a = Lt.
Proof. intros H. rewrite bytes_cmp_antisym, H. reflexivity. Qed.
Lemma bytes_cmp_lt_gt a b : bytes_cmp a b = Lt -> bytes_cmp b a = Gt.
Proof. intros H. rewrite bytes_cmp_antisym, H. reflexivity. Qed.

Lemma sort_by_chain {A} (l : list (bytes * A)) prev :
  chain prev (map fst l) -> sort_by l = l.
Proof.
  revert prev; induction l as [|x l IH]; intros prev H; [reflexivity|].
  cbn [map chain] in H. destruct H as [_ H].
  unfold sort_by in *. cbn [fold_right]. rewrite (IH _ H).
  destruct l as [|y l]; [reflexivity|].
  cbn [map chain] in H. destruct H as [H _]. cbn [insert_by]. rewrite H. reflexivity.
Qed.

Lemma adjacent_dup_chain {A} (l : list (bytes * A)) prev :
  chain prev (map fst l) -> adjacent_dup l = false.
Proof.
  revert prev; induction l as [|x l IH]; intros prev H; [reflexivity|].
  cbn [map chain] in H. destruct H as [_ H].
  destruct l as [|y l]; [reflexivity|].
  cbn [adjacent_dup]. pose proof H as H'. cbn [map chain] in H'. destruct H' as [H' _]. rewrite H'.
  apply (IH _ H).
Qed.

(* ------------------------------------------------------------------ canonical direction *)

Definition canon_spec (d : bytes -> result (value * bytes)) : Prop :=
  forall b v rest, wf_bytes b = true -> d b = Ok (v, rest) ->
    exists pre, b = pre ++ rest /\ enc v = Ok pre.

Lemma dec_seq_canonical d (Hd : canon_spec d) :
  forall k n b vs rest, wf_bytes b = true -> dec_seq d k n b = Ok (vs, rest) ->
    exists pre, b = pre ++ rest /\ concat_results (map enc vs) = Ok pre /\ lenN vs = n.
Proof.
  induction k as [|k IH]; intros n b vs rest Hwf H; cbn [dec_seq] in H.
  - destruct (N.eqb_spec n 0) as [->|Hn0]; [|discriminate]. inversion H; subst.
    exists []. auto.
  - destruct (N.eqb_spec n 0) as [->|Hn0].
    + inversion H; subst. exists []. auto.
    + apply bind_ok in H as ((v & b1) & Hv & H). apply bind_ok in H as ((vs' & b2) & Hs & H).
      inversion H; subst.
      destruct (Hd _ _ _ Hwf Hv) as (p1 & -> & E1).
      apply wf_bytes_app_iff in Hwf as [_ Hwf1].
      destruct (IH _ _ _ _ Hwf1 Hs) as (p2 & -> & E2 & L2).
      exists (p1 ++ p2). split; [rewrite app_assoc; reflexivity|]. split.
      * cbn [map concat_results]. rewrite E1, E2. reflexivity.
      * unfold lenN in *. cbn [length]. lia.
Qed.

Lemma firstn_app_exact {A} (a b : list A) : firstn (length (a ++ b) - length b) (a ++ b) = a.
Proof.
  rewrite app_length. replace (length a + length b - length b)%nat with (length a) by lia.
  rewrite firstn_app, Nat.sub_diag, firstn_all. cbn. apply app_nil_r.
Qed.

Lemma dec_map_canonical d (Hd : canon_spec d) :
  forall k n last b es rest, wf_bytes b = true -> dec_map d k n last b = Ok (es, rest) ->
    exists kvs : list (bytes * bytes),
      b = concat (map (fun kv => fst kv ++ snd kv) kvs) ++ rest /\
      map (fun kv => (enc (fst kv), enc (snd kv))) es = map (fun kv => (Ok (fst kv), Ok (snd kv))) kvs /\
      lenN es = n /\ chain last (map fst kvs).
Proof.
  induction k as [|k IH]; intros n last b es rest Hwf H; cbn [dec_map] in H.
  - destruct (N.eqb_spec n 0) as [->|Hn0]; [|discriminate]. inversion H; subst.
    exists []. cbn. auto.
  - destruct (N.eqb_spec n 0) as [->|Hn0].
    + inversion H; subst. exists []. cbn. auto.
    + apply bind_ok in H as ((kv & b1) & Hk & H).
      apply bind_ok in H as ([] & Hord & H).
      apply bind_ok in H as ((vv & b2) & Hv & H).
      apply bind_ok in H as ((es' & b3) & Hs & H).
      inversion H; subst.
      destruct (Hd _ _ _ Hwf Hk) as (pk & -> & Ek).
      apply wf_bytes_app_iff in Hwf as [_ Hwf1].
      destruct (Hd _ _ _ Hwf1 Hv) as (pv & -> & Ev).
      apply wf_bytes_app_iff in Hwf1 as [_ Hwf2].
      rewrite firstn_app_exact in Hs, Hord.
      destruct (IH _ _ _ _ _ Hwf2 Hs) as (kvs & -> & Em & L & C).
      exists ((pk, pv) :: kvs). split; [|split; [|split]].
      * cbn [map concat fst snd]. rewrite <- !app_assoc. reflexivity.
      * cbn [map fst snd]. rewrite Ek, Ev, Em. reflexivity.
      * unfold lenN in *. cbn [length]. lia.
      * cbn [map chain fst]. split; auto.
        destruct last as [prev|]; auto.
        destruct (bytes_cmp pk prev) eqn:E; try discriminate. apply bytes_cmp_gt_lt; auto.
Qed.

Lemma seq_keys_oks (kvs : list (bytes * bytes)) :
  seq_keys (map (fun kv => (@Ok bytes (fst kv), @Ok bytes (snd kv))) kvs) =
  Ok (map (fun kv => (fst kv, @Ok bytes (snd kv))) kvs).
Proof.
  induction kvs as [|x l IH]; [reflexivity|]. cbn [map seq_keys bind]. rewrite IH. reflexivity.
Qed.

Lemma concat_entries_oks (kvs : list (bytes * bytes)) :
  concat_results (map (fun kv : bytes * result bytes => bind (snd kv) (fun vb => Ok (fst kv ++ vb)))
                    (map (fun kv => (fst kv, @Ok bytes (snd kv))) kvs)) =
  Ok (concat (map (fun kv => fst kv ++ snd kv) kvs)).
Proof.
  induction kvs as [|x l IH]; [reflexivity|]. cbn [map concat_results bind concat fst snd]. rewrite IH. reflexivity.
Qed.

Lemma finish_map_sorted (kvs : list (bytes * bytes)) :
  chain None (map fst kvs) ->
  finish_map (map (fun kv => (@Ok bytes (fst kv), @Ok bytes (snd kv))) kvs) =
  Ok (write_major 5 (lenN kvs) ++ concat (map (fun kv => fst kv ++ snd kv) kvs)).
Proof.
  intros C. unfold finish_map. rewrite seq_keys_oks. cbn [bind].
  assert (C' : chain None (map fst (map (fun kv : bytes * bytes => (fst kv, @Ok bytes (snd kv))) kvs))).
  { rewrite map_map. cbn [fst]. exact C. }
  rewrite (sort_by_chain _ _ C'), (adjacent_dup_chain _ _ C').
  rewrite concat_entries_oks. cbn [bind]. unfold lenN. rewrite map_length. reflexivity.
Qed.

(* ================================================================== canonical direction *)
Lemma ext_of_value ext k x : wf_bytes ext = true -> length ext = k -> from_be ext = x -> ext = be_bytes k x.
Proof. intros Hwf <- <-. symmetry. apply be_bytes_from_be; auto. Qed.

Lemma dec_float16_canonical r v rest :
  wf_bytes r = true -> dec_float16 r = Ok (v, rest) ->
  exists ext, r = ext ++ rest /\ enc v = Ok (0xf9 :: ext).
Proof.
  intros Hwf H. unfold dec_float16 in H. apply bind_ok in H as ((h & r1) & Hr & H).
  apply read_uint_ok in Hr as (ext & -> & Hl & ->).
  apply wf_bytes_app_iff in Hwf as [Hwe _].
  assert (Hh : from_be ext < 65536).
  { pose proof (from_be_bound ext Hwe) as B. rewrite Hl in B. exact B. }
  set (h := from_be ext) in *.
  destruct (f64_is_nan (widen16 h) && negb (h =? 0x7e00)) eqn:Enan; [discriminate|].
  destruct (f64_to_int (widen16 h)) eqn:Ei; [discriminate|]. inversion H; subst v r1. clear H.
  exists ext. split; [reflexivity|]. cbn [enc]. f_equal. unfold enc_float.
  destruct (f64_is_nan (widen16 h)) eqn:En.
  - cbn [andb] in Enan. apply negb_false_iff, N.eqb_eq in Enan.
    rewrite (ext_of_value ext 2%nat 0x7e00 Hwe Hl Enan). reflexivity.
  - destruct (f64_is_inf (widen16 h)) eqn:Einf.
    + destruct (widen16_inf h Hh Einf) as [[E1 E2]|[E1 E2]]; rewrite E2;
        rewrite (ext_of_value ext 2%nat _ Hwe Hl E1); reflexivity.
    + rewrite Ei. rewrite (widen16_nonnan_narrow h Hh En).
      f_equal. symmetry. apply ext_of_value; auto.
Qed.

Lemma dec_float32_canonical r v rest :
  wf_bytes r = true -> dec_float32 r = Ok (v, rest) ->
  exists ext, r = ext ++ rest /\ enc v = Ok (0xfa :: ext).
Proof.
  intros Hwf H. unfold dec_float32 in H. apply bind_ok in H as ((s & r1) & Hr & H).
  apply read_uint_ok in Hr as (ext & -> & Hl & ->).
  apply wf_bytes_app_iff in Hwf as [Hwe _].
  assert (Hs : from_be ext < 4294967296).
  { pose proof (from_be_bound ext Hwe) as B. rewrite Hl in B. exact B. }
  set (s := from_be ext) in *.
  destruct (f64_to_int (widen32 s)) eqn:Ei; [discriminate|].
  destruct (f64_is_nan (widen32 s)) eqn:En; [discriminate|].
  destruct (narrow16 (widen32 s)) eqn:E16; [discriminate|].
  inversion H; subst v r1. clear H.
  exists ext. split; [reflexivity|]. cbn [enc]. f_equal. unfold enc_float. rewrite En.
  destruct (f64_is_inf (widen32 s)) eqn:Einf.
  { exfalso. apply (inf_narrow16 _ Einf). exact E16. }
  rewrite Ei, E16. rewrite (narrow32_widen32 s Hs En). f_equal. symmetry. apply ext_of_value; auto.
Qed.

Lemma dec_float64_canonical r v rest :
  wf_bytes r = true -> dec_float64 r = Ok (v, rest) ->
  exists ext, r = ext ++ rest /\ enc v = Ok (0xfb :: ext).
Proof.
  intros Hwf H. unfold dec_float64 in H. apply bind_ok in H as ((f & r1) & Hr & H).
  apply read_uint_ok in Hr as (ext & -> & Hl & ->).
  apply wf_bytes_app_iff in Hwf as [Hwe _].
  set (f := from_be ext) in *.
  destruct (f64_to_int f) eqn:Ei; [discriminate|].
  destruct (f64_is_nan f) eqn:En; [discriminate|].
  destruct (narrow16 f) eqn:E16; [discriminate|].
  destruct (narrow32 f) eqn:E32; [discriminate|].
  inversion H; subst v r1. clear H.
  exists ext. split; [reflexivity|]. cbn [enc]. f_equal. unfold enc_float. rewrite En.
  destruct (f64_is_inf f) eqn:Einf.
  { exfalso. apply (inf_narrow16 _ Einf). exact E16. }
  rewrite Ei, E16, E32. f_equal. symmetry. apply ext_of_value; auto.
Qed.

Lemma lenN_firstn (n : N) (l : bytes) : n <= lenN l -> lenN (firstn (N.to_nat n) l) = n.
Proof. unfold lenN. intros H. rewrite firstn_length_le by lia. lia. Qed.

Lemma dec_scalar_canonical b0 r v rest :
  b0 < 256 -> wf_bytes r = true -> b0 / 32 <> 4 -> b0 / 32 <> 5 ->
  dec_scalar (b0 / 32) (b0 mod 32) r = Ok (v, rest) ->
  exists pre, b0 :: r = pre ++ rest /\ enc v = Ok pre.
Proof.
  intros Hb0 Hwr M4 M5 H. unfold dec_scalar in H.
  pose proof (head_split b0) as Hsplit. pose proof (head_major_lt b0 Hb0) as Hmaj.
  pose proof (head_info_lt b0) as Hinfo.
  set (major := b0 / 32) in *. set (info := b0 mod 32) in *.
  destruct (N.eqb_spec major 0) as [M0|M0].
  { apply bind_ok in H as ((n & r1) & Hr & H). inversion H; subst v rest. clear H.
    destruct (read_len_inv _ _ _ _ Hwr Hinfo Hr) as (ext & -> & Hn64 & _ & Hw).
    exists (b0 :: ext). split; [reflexivity|]. cbn [enc]. f_equal. unfold enc_int.
    destruct (Z.leb_spec 0 (Z.of_N n)); [|lia]. rewrite N2Z.id, Hw. f_equal. lia. }
  destruct (N.eqb_spec major 1) as [M1|M1].
  { apply bind_ok in H as ((n & r1) & Hr & H).
    assert (HH : v = VInt (-1 - Z.of_N n) /\ rest = r1) by (split; congruence). destruct HH as [-> ->]. clear H.
    destruct (read_len_inv _ _ _ _ Hwr Hinfo Hr) as (ext & -> & Hn64 & _ & Hw).
    exists (b0 :: ext). split; [reflexivity|]. cbn [enc]. f_equal. unfold enc_int.
    destruct (Z.leb_spec 0 (-1 - Z.of_N n)); [lia|].
    replace (-1 - (-1 - Z.of_N n))%Z with (Z.of_N n) by lia. rewrite N2Z.id, Hw. f_equal. lia. }
  destruct ((major =? 2) || (major =? 3)) eqn:M23.
  { apply bind_ok in H as ((n & r1) & Hr & H).
    destruct (N.ltb_spec (lenN r1) n) as [|Hle]; [discriminate|].
    destruct (read_len_inv _ _ _ _ Hwr Hinfo Hr) as (ext & -> & Hn64 & _ & Hw).
    apply wf_bytes_app_iff in Hwr as [_ Hw1].
    assert (Hsplit1 : r1 = firstn (N.to_nat n) r1 ++ skipn (N.to_nat n) r1) by (symmetry; apply firstn_skipn).
    destruct (N.eqb_spec major 2) as [M2|M2].
    - inversion H; subst v rest. clear H.
      exists (b0 :: ext ++ firstn (N.to_nat n) r1). split.
      + cbn [app]. f_equal. rewrite <- app_assoc. f_equal. exact Hsplit1.
      + cbn [enc]. rewrite lenN_firstn by auto. rewrite Hw. cbn [app]. do 2 f_equal. lia.
    - destruct (utf8_valid (firstn (N.to_nat n) r1)); [|discriminate].
      inversion H; subst v rest. clear H.
      assert (M3 : major = 3).
      { apply orb_true_iff in M23 as [E|E]; [discriminate|apply N.eqb_eq in E; exact E]. }
      exists (b0 :: ext ++ firstn (N.to_nat n) r1). split.
      + cbn [app]. f_equal. rewrite <- app_assoc. f_equal. exact Hsplit1.
      + cbn [enc]. rewrite lenN_firstn by auto. rewrite Hw. cbn [app]. do 2 f_equal. lia. }
  destruct (N.eqb_spec major 6) as [M6|M6]; [discriminate|].
  apply orb_false_iff in M23 as [M2 M3]. apply N.eqb_neq in M2, M3.
  assert (M7 : major = 7) by lia.
  assert (Hb : b0 = 224 + info) by lia.
  destruct (N.eqb_spec info 20) as [I|I].
  { inversion H; subst v rest. exists [b0]. split; [reflexivity|]. cbn [enc]. do 2 f_equal. lia. }
  destruct (N.eqb_spec info 21) as [I1|I1].
  { inversion H; subst v rest. exists [b0]. split; [reflexivity|]. cbn [enc]. do 2 f_equal. lia. }
  destruct (N.eqb_spec info 22) as [I2|I2].
  { inversion H; subst v rest. exists [b0]. split; [reflexivity|]. cbn [enc]. do 2 f_equal. lia. }
  destruct (N.eqb_spec info 25) as [I5|I5].
  { destruct (dec_float16_canonical _ _ _ Hwr H) as (ext & -> & E). exists (b0 :: ext).
    split; [reflexivity|]. rewrite E. do 2 f_equal. lia. }
  destruct (N.eqb_spec info 26) as [I6|I6].
  { destruct (dec_float32_canonical _ _ _ Hwr H) as (ext & -> & E). exists (b0 :: ext).
    split; [reflexivity|]. rewrite E. do 2 f_equal. lia. }
  destruct (N.eqb_spec info 27) as [I7|I7].
  { destruct (dec_float64_canonical _ _ _ Hwr H) as (ext & -> & E). exists (b0 :: ext).
    split; [reflexivity|]. rewrite E. do 2 f_equal. lia. }
  destruct (N.eqb_spec info 31); discriminate.
Qed.


Lemma dec_value_unfold f depth b0 r :
  depth <= 128 ->
  dec_value (S f) depth (b0 :: r) =
  if b0 / 32 =? 4 then
    bind (read_len (b0 mod 32) r) (fun '(n, r1) =>
    bind (dec_seq (dec_value f (depth + 1)) (S (length r1)) n r1) (fun '(items, r2) => Ok (VArray items, r2)))
  else if b0 / 32 =? 5 then
    bind (read_len (b0 mod 32) r) (fun '(n, r1) =>
    bind (dec_map (dec_value f (depth + 1)) (S (length r1)) n None r1) (fun '(es, r2) => Ok (VMap es, r2)))
  else dec_scalar (b0 / 32) (b0 mod 32) r.
Proof.
  intros Hd. cbn [dec_value]. unfold MAX_DECODE_DEPTH. destruct (N.ltb_spec 128 depth); [lia|reflexivity].
Qed.

Lemma dec_value_scalar_head f depth b0 r :
  depth <= 128 -> (b0 / 32 =? 4) = false -> (b0 / 32 =? 5) = false ->
  dec_value (S f) depth (b0 :: r) = dec_scalar (b0 / 32) (b0 mod 32) r.
Proof. intros Hd H4 H5. rewrite dec_value_unfold by exact Hd. rewrite H4, H5. reflexivity. Qed.

Lemma dec_value_depth_ok f depth b v rest : dec_value (S f) depth b = Ok (v, rest) -> depth <= 128.
Proof.
  cbn [dec_value]. unfold MAX_DECODE_DEPTH. destruct (N.ltb_spec 128 depth); [discriminate|auto].
Qed.

Lemma dec_value_canonical : forall fuel depth, canon_spec (dec_value fuel depth).
Proof.
  induction fuel as [|f IH]; intros depth b v rest Hwf H; [discriminate|].
  pose proof (dec_value_depth_ok _ _ _ _ _ H) as Hd.
  destruct b as [|b0 r]; [cbn [dec_value] in H; destruct (MAX_DECODE_DEPTH <? depth); discriminate|].
  rewrite dec_value_unfold in H by exact Hd.
  apply wf_bytes_cons in Hwf as [Hb0 Hwr].
  pose proof (head_split b0) as Hsplit. pose proof (head_major_lt b0 Hb0) as Hmaj.
  pose proof (head_info_lt b0) as Hinfo.
  specialize (IH (depth + 1)).
  destruct (N.eqb_spec (b0 / 32) 4) as [M4|M4].
  { apply bind_ok in H as ((n & r1) & Hr & H). apply bind_ok in H as ((items & r2) & Hs & H).
    inversion H; subst v rest. clear H.
    destruct (read_len_inv _ _ _ _ Hwr Hinfo Hr) as (ext & -> & Hn64 & _ & Hw).
    apply wf_bytes_app_iff in Hwr as [_ Hw1].
    destruct (dec_seq_canonical _ IH _ _ _ _ _ Hw1 Hs) as (body & -> & Eb & Ln).
    exists (b0 :: ext ++ body). split; [cbn [app]; rewrite <- app_assoc; reflexivity|].
    cbn [enc]. rewrite Eb. cbn [bind]. rewrite Ln, Hw. cbn [app]. do 2 f_equal. lia. }
  destruct (N.eqb_spec (b0 / 32) 5) as [M5|M5].
  { apply bind_ok in H as ((n & r1) & Hr & H). apply bind_ok in H as ((es & r2) & Hs & H).
    inversion H; subst v rest. clear H.
    destruct (read_len_inv _ _ _ _ Hwr Hinfo Hr) as (ext & -> & Hn64 & _ & Hw).
    apply wf_bytes_app_iff in Hwr as [_ Hw1].
    destruct (dec_map_canonical _ IH _ _ _ _ _ _ Hw1 Hs) as (kvs & -> & Em & Ln & C).
    exists (b0 :: ext ++ concat (map (fun kv => fst kv ++ snd kv) kvs)).
    split; [cbn [app]; rewrite <- app_assoc; reflexivity|].
    cbn [enc]. rewrite Em. rewrite (finish_map_sorted _ C).
    assert (lenN kvs = n).
    { rewrite <- Ln. unfold lenN. f_equal. apply (f_equal (@length _)) in Em. rewrite !map_length in Em. auto. }
    rewrite H, Hw. cbn [app]. do 2 f_equal. lia. }
  apply dec_scalar_canonical; auto.
Qed.

Theorem cbor_canonical_nb b v :
  wf_bytes b = true -> decode_nb b = Ok v -> enc v = Ok b.
Proof.
  intros Hwf H. unfold decode_nb in H.
  destruct (dec_value (S (length b)) 0 b) as [[v' rest]|e] eqn:E; [|discriminate].
  destruct rest as [|x rest]; [|discriminate]. inversion H; subst v'.
  destruct (dec_value_canonical _ _ _ _ _ Hwf E) as (pre & -> & Ee). rewrite app_nil_r. exact Ee.
Qed.

(* ================================================================== insertion sort facts, well-formedness *)
(* ------------------------------------------------------------------ insertion sort facts *)
Fixpoint lsorted {A} (l : list (bytes * A)) : Prop :=
  match l with
  | x :: ((y :: _) as r) => bytes_cmp (fst x) (fst y) <> Gt /\ lsorted r
  | _ => True
  end.

Lemma insert_by_lsorted {A} (x : bytes * A) l : lsorted l -> lsorted (insert_by x l).
Proof.
  induction l as [|y r IH]; intros H; [exact I|].
  cbn [insert_by]. destruct (bytes_cmp (fst x) (fst y)) eqn:E.
  - destruct r as [|z r'].
    + cbn. split; auto. rewrite bytes_cmp_antisym, E. discriminate.
    + destruct H as [Hyz Hr]. specialize (IH Hr). cbn [insert_by] in *.
      destruct (bytes_cmp (fst x) (fst z)) eqn:E2.
      * split; auto.
      * split; [rewrite bytes_cmp_antisym, E; discriminate|]. exact IH.
      * split; auto.
  - cbn [lsorted]. split; [rewrite E; discriminate|exact H].
  - destruct r as [|z r'].
    + cbn. split; auto. rewrite bytes_cmp_antisym, E. discriminate.
    + destruct H as [Hyz Hr]. specialize (IH Hr). cbn [insert_by] in *.
      destruct (bytes_cmp (fst x) (fst z)) eqn:E2.
      * split; auto.
      * split; [rewrite bytes_cmp_antisym, E; discriminate|]. exact IH.
      * split; auto.
Qed.

Lemma sort_by_lsorted {A} (l : list (bytes * A)) : lsorted (sort_by l).
Proof.
  induction l as [|x l IH]; [exact I|]. unfold sort_by in *. cbn [fold_right]. apply insert_by_lsorted, IH.
Qed.

Lemma insert_by_in {A} (x y : bytes * A) l : In x (insert_by y l) -> x = y \/ In x l.
Proof.
  induction l as [|z r IH]; cbn [insert_by]; intros H.
  - destruct H as [<-|[]]. auto.
  - destruct (bytes_cmp (fst y) (fst z)).
    + destruct H as [<-|H]; [right; left; auto|]. destruct (IH H); auto. right; right; auto.
    + destruct H as [<-|H]; auto.
    + destruct H as [<-|H]; [right; left; auto|]. destruct (IH H); auto. right; right; auto.
Qed.

Lemma sort_by_in {A} (x : bytes * A) l : In x (sort_by l) -> In x l.
Proof.
  induction l as [|y l IH]; [auto|]. unfold sort_by in *. cbn [fold_right]. intros H.
  apply insert_by_in in H as [->|H]; [left; auto|right; auto].
Qed.

Lemma insert_by_length {A} (x : bytes * A) l : length (insert_by x l) = S (length l).
Proof.
  induction l as [|y r IH]; [reflexivity|]. cbn [insert_by]. destruct (bytes_cmp (fst x) (fst y)); cbn [length]; rewrite ?IH; reflexivity.
Qed.
Lemma sort_by_length {A} (l : list (bytes * A)) : length (sort_by l) = length l.
Proof.
  induction l as [|x l IH]; [reflexivity|]. unfold sort_by in *. cbn [fold_right]. rewrite insert_by_length, IH. reflexivity.
Qed.

Definition map_payload {A B} (f : A -> B) (l : list (bytes * A)) : list (bytes * B) :=
  map (fun x => (fst x, f (snd x))) l.

Lemma insert_by_payload {A B} (f : A -> B) x l :
  insert_by (fst x, f (snd x)) (map_payload f l) = map_payload f (insert_by x l).
Proof.
  induction l as [|y r IH]; [reflexivity|]. cbn [map_payload map insert_by fst].
  destruct (bytes_cmp (fst x) (fst y)); cbn [map]; try reflexivity; f_equal; exact IH.
Qed.

Lemma sort_by_payload {A B} (f : A -> B) l : sort_by (map_payload f l) = map_payload f (sort_by l).
Proof.
  induction l as [|x l IH]; [reflexivity|]. unfold sort_by in *. cbn [map_payload map fold_right].
  fold (map_payload f l). rewrite IH. apply insert_by_payload.
Qed.

Lemma adjacent_dup_payload {A B} (f : A -> B) l : adjacent_dup (map_payload f l) = adjacent_dup l.
Proof.
  induction l as [|x l IH]; [reflexivity|]. destruct l as [|y l]; [reflexivity|].
  cbn [map_payload map adjacent_dup fst] in *. destruct (bytes_cmp (fst x) (fst y)); auto.
Qed.

Lemma lsorted_chain {A} (l : list (bytes * A)) :
  lsorted l -> adjacent_dup l = false -> forall prev,
  match l with [] => True | x :: _ => match prev with None => True | Some p => bytes_cmp p (fst x) = Lt end end ->
  chain prev (map fst l).
Proof.
  induction l as [|x l IH]; intros Hs Hd prev Hp; [exact I|].
  cbn [map chain]. split; [exact Hp|].
  destruct l as [|y l]; [exact I|].
  destruct Hs as [Hxy Hs]. cbn [adjacent_dup] in Hd.
  destruct (bytes_cmp (fst x) (fst y)) eqn:E; try discriminate; try congruence.
  apply IH; auto.
Qed.

(* ------------------------------------------------------------------ well-formedness *)
Definition good (v : value) : bool := wf_shape v.

Lemma good_array l : good (VArray l) = true -> lenN l < 2 ^ 64 /\ forallb good l = true.
Proof.
  unfold good. cbn [wf_shape]. intros H. apply andb_true_iff in H as [HL H]. apply N.ltb_lt in HL. auto.
Qed.

Lemma good_map es : good (VMap es) = true ->
  lenN es < 2 ^ 64 /\ forallb (fun kv => good (fst kv) && good (snd kv)) es = true.
Proof.
  unfold good. cbn [wf_shape]. intros H. apply andb_true_iff in H as [HL H]. apply N.ltb_lt in HL. auto.
Qed.

Lemma good_int z : good (VInt z) = true -> (- 2 ^ 64 <= z < 2 ^ 64)%Z.
Proof.
  unfold good. cbn [wf_shape]. intros H. apply andb_true_iff in H as [A B].
  apply Z.leb_le in A. apply Z.ltb_lt in B. lia.
Qed.

Lemma good_float b : good (VFloat b) = true -> b < 2 ^ 64.
Proof. unfold good. cbn [wf_shape]. apply N.ltb_lt. Qed.

Lemma good_text s : good (VText s) = true -> wf_bytes s = true /\ utf8_valid s = true /\ lenN s < 2 ^ 64.
Proof.
  unfold good. cbn [wf_shape]. intros H.
  apply andb_true_iff in H as [H H3]. apply andb_true_iff in H as [H1 H2]. apply N.ltb_lt in H3. auto.
Qed.

Lemma good_bytes s : good (VBytes s) = true -> wf_bytes s = true /\ lenN s < 2 ^ 64.
Proof.
  unfold good. cbn [wf_shape]. intros H. apply andb_true_iff in H as [H1 H3]. apply N.ltb_lt in H3. auto.
Qed.

(* ================================================================== round-trip direction *)
Definition rt_spec (v : value) : Prop :=
  forall pre, enc v = Ok pre -> good v = true ->
  forall fuel depth rest, (length pre <= fuel)%nat -> depth + vdepth v <= 128 ->
  dec_value fuel depth (pre ++ rest) = Ok (norm v, rest).

Lemma write_major_nonempty major n : (1 <= length (write_major major n))%nat.
Proof.
  unfold write_major. repeat match goal with |- context [if ?c then _ else _] => destruct c end; cbn [length]; lia.
Qed.

Lemma enc_float_nonempty b : (1 <= length (enc_float b))%nat.
Proof.
  unfold enc_float, enc_int.
  repeat match goal with
         | |- context [if ?c then _ else _] => destruct c
         | |- context [match ?c with Some _ => _ | None => _ end] => destruct c
         end; try apply write_major_nonempty; cbn [length]; lia.
Qed.

Lemma enc_nonempty v pre : enc v = Ok pre -> (1 <= length pre)%nat.
Proof.
  destruct v; cbn [enc]; intros H.
  - inversion H; cbn; lia.
  - inversion H; cbn; lia.
  - inversion H. unfold enc_int. destruct (0 <=? z)%Z; apply write_major_nonempty.
  - inversion H. apply enc_float_nonempty.
  - inversion H. rewrite app_length. pose proof (write_major_nonempty 3 (lenN s)). lia.
  - inversion H. rewrite app_length. pose proof (write_major_nonempty 2 (lenN s)). lia.
  - apply bind_ok in H as (body & _ & H). inversion H. rewrite app_length.
    pose proof (write_major_nonempty 4 (lenN l)). lia.
  - unfold finish_map in H. apply bind_ok in H as (kvs & _ & H).
    destruct (adjacent_dup (sort_by kvs)); [discriminate|].
    apply bind_ok in H as (body & _ & H). inversion H. rewrite app_length.
    match goal with |- context [write_major 5 ?n] => pose proof (write_major_nonempty 5 n) end. lia.
  - discriminate.
Qed.

Lemma enc_int_dec z f depth rest :
  depth <= 128 -> (- 2 ^ 64 <= z < 2 ^ 64)%Z ->
  dec_value (S f) depth (enc_int z ++ rest) = Ok (VInt z, rest).
Proof.
  intros Hd Hz. change (2 ^ 64)%Z with 18446744073709551616%Z in Hz.
  assert (P64 : 2 ^ 64 = 18446744073709551616) by reflexivity.
  unfold enc_int. destruct (Z.leb_spec 0 z) as [Hp|Hneg].
  - assert (Hn : Z.to_N z < 2 ^ 64) by (rewrite P64; lia).
    destruct (write_major_shape 0 (Z.to_N z) Hn) as (ext & -> & Hi & _ & Hr).
    cbn [app]. rewrite dec_value_unfold by exact Hd. rewrite head_div, head_mod by auto.
    unfold dec_scalar. cbn [N.eqb].
    rewrite Hr. cbn [bind]. rewrite Z2N.id by lia. reflexivity.
  - assert (Hn : Z.to_N (-1 - z) < 2 ^ 64) by (rewrite P64; lia).
    destruct (write_major_shape 1 (Z.to_N (-1 - z)) Hn) as (ext & -> & Hi & _ & Hr).
    cbn [app]. rewrite dec_value_unfold by exact Hd. rewrite head_div, head_mod by auto.
    unfold dec_scalar. cbn [N.eqb Pos.eqb].
    rewrite Hr. cbn [bind].
    rewrite Z2N.id by lia. replace (-1 - (-1 - z))%Z with z by lia. reflexivity.
Qed.

Lemma fuel_S (pre : bytes) fuel : (1 <= length pre)%nat -> (length pre <= fuel)%nat -> exists f, fuel = S f /\ (length pre - 1 <= f)%nat.
Proof. intros H1 H2. destruct fuel as [|f]; [lia|]. exists f. split; auto. lia. Qed.

Lemma rt_float b : rt_spec (VFloat b).
Proof.
  intros pre He Hg fuel depth rest Hf Hd. cbn [enc] in He. inversion He; subst pre; clear He.
  cbn [vdepth] in Hd. assert (Hd' : depth <= 128) by lia. clear Hd.
  pose proof (good_float _ Hg) as Hb.
  destruct (fuel_S _ _ (enc_float_nonempty b) Hf) as (f & -> & _). clear Hf.
  cbn [norm]. unfold enc_float.
  destruct (f64_is_nan b) eqn:En.
  { cbn [app]. rewrite dec_value_scalar_head by (auto; reflexivity). reflexivity. }
  destruct (f64_is_inf b) eqn:Einf.
  { rewrite (inf_bits b Hb Einf) at 2.
    destruct (fsign 11 52 b =? 0); cbn [app]; rewrite dec_value_scalar_head by (auto; reflexivity); reflexivity. }
  destruct (f64_to_int b) as [z|] eqn:Ei.
  { apply enc_int_dec; auto. apply (f64_to_int_range b); exact Ei. }
  destruct (narrow16 b) as [h|] eqn:E16.
  { destruct (narrow16_some b h Hb E16) as [Ew Hh].
    cbn [app]. rewrite dec_value_scalar_head by (auto; reflexivity).
    change (dec_scalar (249 / 32) (249 mod 32) (be_bytes 2 h ++ rest)) with (dec_float16 (be_bytes 2 h ++ rest)).
    unfold dec_float16. rewrite read_uint_be by (exact Hh). cbn [bind]. rewrite Ew, En, Ei. reflexivity. }
  destruct (narrow32 b) as [s|] eqn:E32.
  { destruct (narrow32_some b s Hb E32) as [Ew Hs].
    cbn [app]. rewrite dec_value_scalar_head by (auto; reflexivity).
    change (dec_scalar (250 / 32) (250 mod 32) (be_bytes 4 s ++ rest)) with (dec_float32 (be_bytes 4 s ++ rest)).
    unfold dec_float32. rewrite read_uint_be by (exact Hs). cbn [bind]. rewrite Ew, Ei, En, E16. reflexivity. }
  cbn [app]. rewrite dec_value_scalar_head by (auto; reflexivity).
  change (dec_scalar (251 / 32) (251 mod 32) (be_bytes 8 b ++ rest)) with (dec_float64 (be_bytes 8 b ++ rest)).
  unfold dec_float64. rewrite read_uint_be by (exact Hb). cbn [bind]. rewrite Ei, En, E16, E32. reflexivity.
Qed.

Lemma firstn_lenN_app (s rest : bytes) : firstn (N.to_nat (lenN s)) (s ++ rest) = s.
Proof. unfold lenN. rewrite Nat2N.id, firstn_app, Nat.sub_diag, firstn_all. cbn. apply app_nil_r. Qed.
Lemma skipn_lenN_app (s rest : bytes) : skipn (N.to_nat (lenN s)) (s ++ rest) = rest.
Proof. unfold lenN. rewrite Nat2N.id, skipn_app, Nat.sub_diag, skipn_all. reflexivity. Qed.

Lemma rt_strings (is_text : bool) s :
  wf_bytes s = true -> lenN s < 2 ^ 64 -> (is_text = true -> utf8_valid s = true) ->
  forall f depth rest, depth <= 128 ->
  dec_value (S f) depth ((write_major (if is_text then 3 else 2) (lenN s) ++ s) ++ rest) =
  Ok ((if is_text then VText s else VBytes s), rest).
Proof.
  intros Hw Hl Hu f depth rest Hd.
  destruct (write_major_shape (if is_text then 3 else 2) (lenN s) Hl) as (ext & -> & Hi & _ & Hr).
  cbn [app]. rewrite dec_value_scalar_head;
    [|exact Hd|rewrite head_div by auto; destruct is_text; reflexivity|rewrite head_div by auto; destruct is_text; reflexivity].
  rewrite head_div, head_mod by auto. unfold dec_scalar.
  replace ((if is_text then 3 else 2) =? 0) with false by (destruct is_text; reflexivity).
  replace ((if is_text then 3 else 2) =? 1) with false by (destruct is_text; reflexivity).
  replace (((if is_text then 3 else 2) =? 2) || ((if is_text then 3 else 2) =? 3)) with true by (destruct is_text; reflexivity).
  rewrite <- !app_assoc. rewrite Hr. cbn [bind].
  destruct (N.ltb_spec (lenN (s ++ rest)) (lenN s)) as [Hbad|_].
  { unfold lenN in Hbad. rewrite app_length in Hbad. lia. }
  rewrite firstn_lenN_app, skipn_lenN_app.
  destruct is_text; cbn [N.eqb Pos.eqb orb].
  - rewrite Hu; auto.
  - reflexivity.
Qed.

Lemma concat_results_length l body :
  concat_results (map enc l) = Ok body -> (length l <= length body)%nat.
Proof.
  revert body; induction l as [|x l IH]; intros body H; cbn [map concat_results] in H.
  - inversion H. cbn. lia.
  - apply bind_ok in H as (bx & Ex & H). apply bind_ok in H as (bs & Es & H). inversion H; subst.
    pose proof (enc_nonempty _ _ Ex). specialize (IH _ Es). rewrite app_length. cbn [length]. lia.
Qed.

Lemma enc_dec_seq f depth : forall l body,
  Forall rt_spec l -> concat_results (map enc l) = Ok body -> forallb good l = true ->
  Forall (fun x => depth + vdepth x <= 128) l ->
  forall k rest, (length body <= f)%nat -> (length l <= k)%nat ->
  dec_seq (dec_value f depth) k (lenN l) (body ++ rest) = Ok (map norm l, rest).
Proof.
  induction l as [|x l IH]; intros body HF He Hg HD k rest Hf Hk; cbn [map concat_results] in He.
  - inversion He; subst. destruct k; reflexivity.
  - apply bind_ok in He as (bx & Ex & He). apply bind_ok in He as (bs & Es & He). inversion He; subst body. clear He.
    inversion HF as [|? ? Hx HF']; subst. cbn [forallb] in Hg. apply andb_true_iff in Hg as [Hgx Hgl].
    inversion HD as [|? ? Hdx HD']; subst.
    destruct k as [|k]; [cbn in Hk; lia|]. cbn [dec_seq].
    destruct (N.eqb_spec (lenN (x :: l)) 0) as [E0|_]; [unfold lenN in E0; cbn in E0; lia|].
    rewrite app_length in Hf.
    rewrite <- app_assoc. rewrite (Hx _ Ex Hgx f depth (bs ++ rest)) by (auto; lia). cbn [bind].
    replace (lenN (x :: l) - 1) with (lenN l) by (unfold lenN; cbn [length]; lia).
    rewrite (IH _ HF' Es Hgl HD' k rest) by (cbn [length] in Hk; lia). reflexivity.
Qed.

Lemma vdepth_array_in x l : In x l -> 1 + vdepth x <= vdepth (VArray l).
Proof.
  induction l as [|y l IH]; [intros []|]. cbn [vdepth fold_right] in *. intros [->|H]; [lia|].
  specialize (IH H). lia.
Qed.

Lemma vdepth_map_in kv es : In kv es -> 1 + vdepth (fst kv) <= vdepth (VMap es) /\ 1 + vdepth (snd kv) <= vdepth (VMap es).
Proof.
  induction es as [|y l IH]; [intros []|]. cbn [vdepth fold_right] in *. intros [->|H]; [lia|].
  specialize (IH H). lia.
Qed.

Lemma rt_array l : Forall rt_spec l -> rt_spec (VArray l).
Proof.
  intros HF pre He Hg fuel depth rest Hf Hd. cbn [enc] in He.
  apply bind_ok in He as (body & Eb & He). inversion He; subst pre; clear He.
  destruct (good_array _ Hg) as [Hl Hgl].
  destruct (write_major_shape 4 (lenN l) Hl) as (ext & Ew & Hi & _ & Hr).
  rewrite Ew in *. cbn [app length] in Hf. destruct fuel as [|f]; [lia|].
  cbn [app]. rewrite dec_value_unfold by lia. rewrite head_div, head_mod by auto. cbn [N.eqb Pos.eqb orb].
  rewrite <- app_assoc, Hr. cbn [bind].
  rewrite app_length in Hf.
  rewrite (enc_dec_seq f (depth + 1) l body HF Eb Hgl).
  - reflexivity.
  - apply Forall_forall. intros x Hx. pose proof (vdepth_array_in x l Hx). lia.
  - lia.
  - pose proof (concat_results_length _ _ Eb). rewrite app_length. lia.
Qed.

(* ---- maps ---- *)
Definition entry_bytes (kv : bytes * result bytes) : result bytes :=
  bind (snd kv) (fun vb => Ok (fst kv ++ vb)).

Definition ent_ok (depth : N) (x : bytes * (value * value)) : Prop :=
  rt_spec (fst (snd x)) /\ rt_spec (snd (snd x)) /\
  good (fst (snd x)) = true /\ good (snd (snd x)) = true /\ enc (fst (snd x)) = Ok (fst x) /\
  depth + vdepth (fst (snd x)) <= 128 /\ depth + vdepth (snd (snd x)) <= 128.

Lemma enc_dec_map f depth : forall (L : list (bytes * (value * value))) last body,
  Forall (ent_ok depth) L -> chain last (map fst L) ->
  concat_results (map entry_bytes (map_payload (fun kv => enc (snd kv)) L)) = Ok body ->
  forall k rest, (length body <= f)%nat -> (length L <= k)%nat ->
  dec_map (dec_value f depth) k (lenN L) last (body ++ rest) =
  Ok (map (fun x => (norm (fst (snd x)), norm (snd (snd x)))) L, rest).
Proof.
  induction L as [|x L IH]; intros last body HF Hc He k rest Hf Hk; cbn [map_payload map concat_results] in He.
  - inversion He; subst. destruct k; reflexivity.
  - apply bind_ok in He as (bx & Ex & He). apply bind_ok in He as (bs & Es & He). inversion He; subst body. clear He.
    unfold entry_bytes in Ex. cbn [fst snd] in Ex. apply bind_ok in Ex as (vb & Ev & Ex). inversion Ex; subst bx. clear Ex.
    inversion HF as [|? ? Hx HF']; subst. destruct Hx as (Rk & Rv & Gk & Gv & Ek & Dk & Dv).
    cbn [map chain] in Hc. destruct Hc as [Hprev Hc].
    destruct k as [|k]; [cbn in Hk; lia|]. cbn [dec_map].
    destruct (N.eqb_spec (lenN (x :: L)) 0) as [E0|_]; [unfold lenN in E0; cbn in E0; lia|].
    rewrite !app_length in Hf.
    rewrite <- !app_assoc.
    rewrite (Rk _ Ek Gk f depth (vb ++ bs ++ rest)) by (auto; lia). cbn [bind].
    rewrite firstn_app_exact.
    assert (Hord : match last with
                   | None => Ok tt
                   | Some prev => match bytes_cmp (fst x) prev with
                                  | Eq => Err EMapKeyDup | Lt => Err EMapKeyOrder | Gt => Ok tt end
                   end = Ok tt).
    { destruct last as [prev|]; auto. rewrite (bytes_cmp_lt_gt _ _ Hprev). reflexivity. }
    rewrite Hord. cbn [bind].
    rewrite (Rv _ Ev Gv f depth (bs ++ rest)) by (auto; lia). cbn [bind].
    replace (lenN (x :: L) - 1) with (lenN L) by (unfold lenN; cbn [length]; lia).
    fold (map_payload (fun kv : value * value => enc (snd kv)) L) in Es.
    erewrite bind_eq; cycle 1.
    { apply (IH (Some (fst x)) bs HF' Hc Es k rest); [lia|cbn [length] in Hk; lia]. }
    reflexivity.
Qed.

Lemma seq_keys_inv es kvs :
  seq_keys (map (fun kv => (enc (fst kv), enc (snd kv))) es) = Ok kvs ->
  kvs = map_payload (fun kv => enc (snd kv)) (map (fun kv => (key_bytes (fst kv), kv)) es) /\
  Forall (fun kv => enc (fst kv) = Ok (key_bytes (fst kv))) es.
Proof.
  revert kvs; induction es as [|kv es IH]; intros kvs H; cbn [map seq_keys] in H.
  - inversion H. split; [reflexivity|constructor].
  - apply bind_ok in H as (kb & Ek & H). apply bind_ok in H as (r & Er & H). inversion H; subst kvs. clear H.
    destruct (IH _ Er) as [-> HF]. split.
    + cbn [map map_payload fst snd]. unfold key_bytes. rewrite Ek. reflexivity.
    + constructor; auto. unfold key_bytes. rewrite Ek. reflexivity.
Qed.

Lemma concat_entries_length (L : list (bytes * (value * value))) body :
  Forall (fun x => enc (fst (snd x)) = Ok (fst x)) L ->
  concat_results (map entry_bytes (map_payload (fun kv => enc (snd kv)) L)) = Ok body ->
  (length L <= length body)%nat.
Proof.
  revert body; induction L as [|x L IH]; intros body HF H; cbn [map_payload map concat_results] in H.
  - inversion H. cbn. lia.
  - apply bind_ok in H as (bx & Ex & H). apply bind_ok in H as (bs & Es & H). inversion H; subst.
    inversion HF as [|? ? Hx HF']; subst.
    unfold entry_bytes in Ex. cbn [fst snd] in Ex. apply bind_ok in Ex as (vb & Ev & Ex). inversion Ex; subst.
    pose proof (enc_nonempty _ _ Hx). specialize (IH _ HF' Es). rewrite !app_length. cbn [length]. lia.
Qed.

Lemma rt_map es : Forall (fun kv => rt_spec (fst kv) /\ rt_spec (snd kv)) es -> rt_spec (VMap es).
Proof.
  intros HF pre He Hg fuel depth rest Hf Hd. cbn [enc] in He. unfold finish_map in He.
  apply bind_ok in He as (kvs & Ek & He).
  destruct (seq_keys_inv _ _ Ek) as [-> HK]. clear Ek.
  set (L0 := map (fun kv : value * value => (key_bytes (fst kv), kv)) es) in *.
  rewrite sort_by_payload in He. rewrite adjacent_dup_payload in He.
  destruct (adjacent_dup (sort_by L0)) eqn:Edup; [discriminate|].
  apply bind_ok in He as (body & Eb & He). inversion He; subst pre; clear He.
  destruct (good_map _ Hg) as [Hl Hgl].
  set (L := sort_by L0) in *.
  assert (HL : Forall (ent_ok (depth + 1)) L).
  { apply Forall_forall. intros x Hx. apply sort_by_in in Hx. unfold L0 in Hx.
    apply in_map_iff in Hx as (kv & <- & Hin). cbn [fst snd].
    rewrite Forall_forall in HF, HK. destruct (HF _ Hin) as [Rk Rv]. 
    rewrite forallb_forall in Hgl. specialize (Hgl _ Hin). apply andb_true_iff in Hgl as [Gk Gv].
    destruct (vdepth_map_in kv es Hin) as [D1 D2].
    unfold ent_ok; cbn [fst snd]. refine (conj Rk (conj Rv (conj Gk (conj Gv (conj _ (conj _ _)))))); [apply HK; auto|lia|lia]. }
  assert (HC : chain None (map fst L)).
  { apply lsorted_chain; auto. apply sort_by_lsorted. destruct L; exact I. }
  assert (Hlen : lenN (map (fun kv : value * value => (enc (fst kv), enc (snd kv))) es) = lenN L).
  { unfold lenN, L, L0. rewrite sort_by_length, !map_length. reflexivity. }
  rewrite Hlen in *.
  assert (HlL : lenN L < 2 ^ 64).
  { unfold lenN, L, L0 in *. rewrite sort_by_length, map_length. exact Hl. }
  destruct (write_major_shape 5 (lenN L) HlL) as (ext & Ew & Hi & _ & Hr).
  rewrite Ew in *. cbn [app length] in Hf. destruct fuel as [|f]; [lia|].
  cbn [app]. rewrite dec_value_unfold by lia. rewrite head_div, head_mod by auto. cbn [N.eqb Pos.eqb orb].
  rewrite <- app_assoc, Hr. cbn [bind]. rewrite app_length in Hf.
  assert (HKL : Forall (fun x => enc (fst (snd x)) = Ok (fst x)) L).
  { eapply Forall_impl; [|exact HL]. intros x Hx. apply Hx. }
  rewrite (enc_dec_map f (depth + 1) L None body HL HC Eb).
  - cbn [norm]. do 3 f_equal.
    assert (Emap : map (fun kv : value * value => (key_bytes (fst kv), (norm (fst kv), norm (snd kv)))) es =
                   map_payload (fun kv : value * value => (norm (fst kv), norm (snd kv))) L0).
    { unfold map_payload, L0. rewrite map_map. reflexivity. }
    rewrite Emap, sort_by_payload. fold L. unfold map_payload. rewrite map_map. reflexivity.
  - lia.
  - pose proof (concat_entries_length _ _ HKL Eb). rewrite app_length. lia.
Qed.

Lemma enc_dec_value : forall v, rt_spec v.
Proof.
  induction v using value_ind'.
  - intros pre He _ fuel depth rest Hf Hd. cbn [enc] in He. inversion He; subst. destruct fuel; [cbn in Hf; lia|].
    cbn [vdepth] in Hd. destruct b; cbn [app]; rewrite dec_value_scalar_head by (try reflexivity; lia); reflexivity.
  - intros pre He _ fuel depth rest Hf Hd. cbn [enc] in He. inversion He; subst. destruct fuel; [cbn in Hf; lia|].
    cbn [vdepth] in Hd. cbn [app]. rewrite dec_value_scalar_head by (try reflexivity; lia). reflexivity.
  - intros pre He Hg fuel depth rest Hf Hd. cbn [enc] in He. inversion He; subst.
    destruct (fuel_S _ _ (enc_nonempty _ _ (eq_refl : enc (VInt z) = Ok (enc_int z))) Hf) as (f & -> & _).
    cbn [vdepth] in Hd. apply enc_int_dec; [lia|]. apply good_int; auto.
  - apply rt_float.
  - intros pre He Hg fuel depth rest Hf Hd. cbn [enc] in He. inversion He; subst.
    destruct (fuel_S _ _ (enc_nonempty _ _ (eq_refl : enc (VText s) = Ok _)) Hf) as (f & -> & _).
    cbn [vdepth] in Hd. destruct (good_text _ Hg) as (Hw & Hu & Hl). apply (rt_strings true); auto. lia.
  - intros pre He Hg fuel depth rest Hf Hd. cbn [enc] in He. inversion He; subst.
    destruct (fuel_S _ _ (enc_nonempty _ _ (eq_refl : enc (VBytes s) = Ok _)) Hf) as (f & -> & _).
    cbn [vdepth] in Hd. destruct (good_bytes _ Hg) as (Hw & Hl). apply (rt_strings false); auto; [discriminate|lia].
  - apply rt_array; auto.
  - apply rt_map; auto.
  - intros pre He. discriminate.
Qed.

Theorem cbor_roundtrip_nb v b :
  wf_value v = true -> enc v = Ok b -> decode_nb b = Ok (norm v).
Proof.
  intros Hg He. unfold wf_value in Hg. apply andb_true_iff in Hg as [Hs Hd]. apply N.leb_le in Hd.
  unfold decode_nb.
  pose proof (enc_dec_value v b He Hs (S (length b)) 0 [] (Nat.le_succ_diag_r _)) as H.
  rewrite app_nil_r in H. rewrite H; [reflexivity|]. unfold MAX_DECODE_DEPTH in Hd. lia.
Qed.

(* ================================================================== corollaries *)
Theorem cbor_decode_injective_nb b1 b2 v :
  wf_bytes b1 = true -> wf_bytes b2 = true -> decode_nb b1 = Ok v -> decode_nb b2 = Ok v -> b1 = b2.
Proof.
  intros W1 W2 D1 D2. pose proof (cbor_canonical_nb _ _ W1 D1) as E1.
  pose proof (cbor_canonical_nb _ _ W2 D2) as E2. congruence.
Qed.

(* ================================================================== decoder output: well formed, depth-bounded *)

Lemma widen32_bound s : s < 4294967296 -> widen32 s < 2 ^ 64.
Proof.
  intros Hs32. change 4294967296 with (2 ^ (1 + 8 + 23)) in Hs32.
  pose proof (fsign_lt 8 23 s Hs32) as Hs. pose proof (fexp_lt 8 23 s) as He. pose proof (fman_lt 23 s) as Hm.
  rewrite widen32_eq. cbv zeta. revert Hs He Hm. generalize (fsign 8 23 s) (fexp 8 23 s) (fman 23 s).
  intros s0 e m Hs He Hm. rewrite P8 in He. rewrite P23 in Hm.
  change (2 ^ 64) with (2 ^ (1 + 11 + 52)).
  destruct (e =? 255).
  { destruct (m =? 0); apply fpack_lt; auto; try (rewrite P11; lia); try (rewrite P52; lia).
    apply lor_lt; [apply N.pow_lt_mono_r; lia|]. rewrite shl_spec, P29, P52. lia. }
  destruct (N.eqb_spec e 0) as [E0|NE0].
  { destruct (N.eqb_spec m 0) as [M0|NM0]; [apply fpack_lt; auto; [rewrite P11|rewrite P52]; lia|].
    set (p := N.log2 m).
    assert (Hlog : 2 ^ p <= m < 2 ^ N.succ p) by (apply N.log2_spec; lia).
    destruct Hlog as [L1 L2]. rewrite <- N.add_1_r in L2.
    assert (Hp22 : p <= 22).
    { apply N.lt_succ_r. apply (N.pow_lt_mono_r_iff 2); [lia|]. rewrite N.pow_succ_r'.
      change (2 * 2 ^ 22) with 8388608. lia. }
    destruct (subnormal_widen m p ltac:(lia) L1 L2) as (B1 & _ & _).
    apply fpack_lt; auto; [rewrite P11; lia|]. rewrite shl_spec. exact B1. }
  apply fpack_lt; auto; [rewrite P11; lia|]. rewrite shl_spec, P29, P52. lia.
Qed.

Definition wf_spec (d : bytes -> result (value * bytes)) : Prop :=
  forall b v rest, wf_bytes b = true -> d b = Ok (v, rest) -> wf_shape v = true.

Lemma dec_seq_wf d (Hd : wf_spec d) (Hc : canon_spec d) :
  forall k n b vs rest, wf_bytes b = true -> dec_seq d k n b = Ok (vs, rest) ->
    forallb wf_shape vs = true /\ lenN vs = n.
Proof.
  induction k as [|k IH]; intros n b vs rest Hwf H; cbn [dec_seq] in H.
  - destruct (N.eqb_spec n 0) as [->|]; [|discriminate]. inversion H; subst. auto.
  - destruct (N.eqb_spec n 0) as [->|Hn0]; [inversion H; subst; auto|].
    apply bind_ok in H as ((v & b1) & Hv & H). apply bind_ok in H as ((vs' & b2) & Hs & H). inversion H; subst.
    destruct (Hc _ _ _ Hwf Hv) as (p1 & -> & _). apply wf_bytes_app_iff in Hwf as [Hp1 Hwf1].
    destruct (IH _ _ _ _ Hwf1 Hs) as [A B]. cbn [forallb].
    rewrite (Hd _ _ _ (proj2 (wf_bytes_app_iff _ _) (conj Hp1 Hwf1)) Hv), A. split; auto.
    unfold lenN in *. cbn [length]. lia.
Qed.

Lemma dec_map_wf d (Hd : wf_spec d) (Hc : canon_spec d) :
  forall k n last b es rest, wf_bytes b = true -> dec_map d k n last b = Ok (es, rest) ->
    forallb (fun kv => wf_shape (fst kv) && wf_shape (snd kv)) es = true /\ lenN es = n.
Proof.
  induction k as [|k IH]; intros n last b es rest Hwf H; cbn [dec_map] in H.
  - destruct (N.eqb_spec n 0) as [->|]; [|discriminate]. inversion H; subst. auto.
  - destruct (N.eqb_spec n 0) as [->|Hn0]; [inversion H; subst; auto|].
    apply bind_ok in H as ((kv & b1) & Hk & H). apply bind_ok in H as ([] & _ & H).
    apply bind_ok in H as ((vv & b2) & Hv & H). apply bind_ok in H as ((es' & b3) & Hs & H). inversion H; subst.
    pose proof (Hd _ _ _ Hwf Hk) as Wk.
    destruct (Hc _ _ _ Hwf Hk) as (pk & -> & _). apply wf_bytes_app_iff in Hwf as [_ Hwf1].
    pose proof (Hd _ _ _ Hwf1 Hv) as Wv.
    destruct (Hc _ _ _ Hwf1 Hv) as (pv & -> & _). apply wf_bytes_app_iff in Hwf1 as [_ Hwf2].
    destruct (IH _ _ _ _ _ Hwf2 Hs) as [A B]. cbn [forallb fst snd]. rewrite Wk, Wv, A. split; auto.
    unfold lenN in *. cbn [length]. lia.
Qed.

Lemma P64 : 2 ^ 64 = 18446744073709551616.
Proof. reflexivity. Qed.

Lemma dec_scalar_wf b0 r v rest :
  b0 < 256 -> wf_bytes r = true -> dec_scalar (b0 / 32) (b0 mod 32) r = Ok (v, rest) -> wf_shape v = true.
Proof.
  intros Hb0 Hwr H. unfold dec_scalar in H.
  pose proof (head_info_lt b0) as Hinfo.
  set (major := b0 / 32) in *. set (info := b0 mod 32) in *.
  destruct (major =? 0).
  { apply bind_ok in H as ((n & r1) & Hr & H). inversion H; subst v rest. clear H.
    destruct (read_len_inv _ _ _ _ Hwr Hinfo Hr) as (ext & -> & Hn64 & _ & _).
    cbn [wf_shape]. rewrite P64 in Hn64. change (2 ^ 64)%Z with 18446744073709551616%Z.
    apply andb_true_iff. split; [apply Z.leb_le|apply Z.ltb_lt]; lia. }
  destruct (major =? 1).
  { apply bind_ok in H as ((n & r1) & Hr & H).
    assert (HH : v = VInt (-1 - Z.of_N n)) by congruence. subst v. clear H.
    destruct (read_len_inv _ _ _ _ Hwr Hinfo Hr) as (ext & -> & Hn64 & _ & _).
    cbn [wf_shape]. rewrite P64 in Hn64. change (2 ^ 64)%Z with 18446744073709551616%Z.
    apply andb_true_iff. split; [apply Z.leb_le|apply Z.ltb_lt]; lia. }
  destruct ((major =? 2) || (major =? 3)).
  { apply bind_ok in H as ((n & r1) & Hr & H).
    destruct (N.ltb_spec (lenN r1) n) as [|Hle]; [discriminate|].
    destruct (read_len_inv _ _ _ _ Hwr Hinfo Hr) as (ext & -> & Hn64 & _ & _).
    apply wf_bytes_app_iff in Hwr as [_ Hw1].
    pose proof (wf_bytes_firstn (N.to_nat n) r1 Hw1) as Wd.
    pose proof (lenN_firstn n r1 Hle) as Ld.
    destruct (major =? 2).
    - inversion H; subst v rest. cbn [wf_shape]. rewrite Wd, Ld. apply N.ltb_lt in Hn64. rewrite Hn64. reflexivity.
    - destruct (utf8_valid (firstn (N.to_nat n) r1)) eqn:U; [|discriminate].
      inversion H; subst v rest. cbn [wf_shape]. rewrite Wd, U, Ld. apply N.ltb_lt in Hn64. rewrite Hn64. reflexivity. }
  destruct (major =? 6); [discriminate|].
  destruct (info =? 20); [inversion H; reflexivity|].
  destruct (info =? 21); [inversion H; reflexivity|].
  destruct (info =? 22); [inversion H; reflexivity|].
  destruct (info =? 25).
  { unfold dec_float16 in H. apply bind_ok in H as ((h & r1) & Hr & H).
    apply read_uint_ok in Hr as (ext & -> & Hl & ->). apply wf_bytes_app_iff in Hwr as [Hwe _].
    pose proof (from_be_bound ext Hwe) as B. rewrite Hl in B. change (256 ^ N.of_nat 2) with 65536 in B.
    destruct (f64_is_nan (widen16 (from_be ext)) && negb (from_be ext =? 32256)); [discriminate|].
    destruct (f64_to_int (widen16 (from_be ext))); [discriminate|]. inversion H; subst v rest.
    cbn [wf_shape]. apply N.ltb_lt. apply widen16_bound; auto. }
  destruct (info =? 26).
  { unfold dec_float32 in H. apply bind_ok in H as ((h & r1) & Hr & H).
    apply read_uint_ok in Hr as (ext & -> & Hl & ->). apply wf_bytes_app_iff in Hwr as [Hwe _].
    pose proof (from_be_bound ext Hwe) as B. rewrite Hl in B. change (256 ^ N.of_nat 4) with 4294967296 in B.
    destruct (f64_to_int (widen32 (from_be ext))); [discriminate|].
    destruct (f64_is_nan (widen32 (from_be ext))); [discriminate|].
    destruct (narrow16 (widen32 (from_be ext))); [discriminate|]. inversion H; subst v rest.
    cbn [wf_shape]. apply N.ltb_lt. apply widen32_bound; auto. }
  destruct (info =? 27).
  { unfold dec_float64 in H. apply bind_ok in H as ((h & r1) & Hr & H).
    apply read_uint_ok in Hr as (ext & -> & Hl & ->). apply wf_bytes_app_iff in Hwr as [Hwe _].
    pose proof (from_be_bound ext Hwe) as B. rewrite Hl in B. change (256 ^ N.of_nat 8) with (2 ^ 64) in B.
    destruct (f64_to_int (from_be ext)); [discriminate|].
    destruct (f64_is_nan (from_be ext)); [discriminate|].
    destruct (narrow16 (from_be ext)); [discriminate|].
    destruct (narrow32 (from_be ext)); [discriminate|]. inversion H; subst v rest.
    cbn [wf_shape]. apply N.ltb_lt. exact B. }
  destruct (info =? 31); discriminate.
Qed.

Lemma dec_value_wf : forall fuel depth, wf_spec (dec_value fuel depth).
Proof.
  induction fuel as [|f IH]; intros depth b v rest Hwf H; [discriminate|].
  pose proof (dec_value_depth_ok _ _ _ _ _ H) as Hd.
  pose proof (dec_value_canonical f (depth + 1)) as Hc. specialize (IH (depth + 1)).
  destruct b as [|b0 r]; [cbn [dec_value] in H; destruct (MAX_DECODE_DEPTH <? depth); discriminate|].
  rewrite dec_value_unfold in H by exact Hd.
  apply wf_bytes_cons in Hwf as [Hb0 Hwr].
  pose proof (head_info_lt b0) as Hinfo.
  destruct (b0 / 32 =? 4).
  { apply bind_ok in H as ((n & r1) & Hr & H). apply bind_ok in H as ((items & r2) & Hs & H).
    inversion H; subst v rest. clear H.
    destruct (read_len_inv _ _ _ _ Hwr Hinfo Hr) as (ext & -> & Hn64 & _ & _).
    apply wf_bytes_app_iff in Hwr as [_ Hw1].
    destruct (dec_seq_wf _ IH Hc _ _ _ _ _ Hw1 Hs) as [A B].
    cbn [wf_shape]. rewrite A, B. apply N.ltb_lt in Hn64. rewrite Hn64. reflexivity. }
  destruct (b0 / 32 =? 5).
  { apply bind_ok in H as ((n & r1) & Hr & H). apply bind_ok in H as ((es & r2) & Hs & H).
    inversion H; subst v rest. clear H.
    destruct (read_len_inv _ _ _ _ Hwr Hinfo Hr) as (ext & -> & Hn64 & _ & _).
    apply wf_bytes_app_iff in Hwr as [_ Hw1].
    destruct (dec_map_wf _ IH Hc _ _ _ _ _ _ Hw1 Hs) as [A B].
    cbn [wf_shape]. rewrite A, B. apply N.ltb_lt in Hn64. rewrite Hn64. reflexivity. }
  apply (dec_scalar_wf b0 r v rest); auto.
Qed.

(* nesting depth of decoded values *)
Lemma dec_scalar_vdepth major info r v rest : dec_scalar major info r = Ok (v, rest) -> vdepth v = 0.
Proof.
  unfold dec_scalar, dec_float16, dec_float32, dec_float64. intros H.
  repeat match type of H with
         | (if ?c then _ else _) = _ => destruct c
         | match ?c with Some _ => _ | None => _ end = _ => destruct c
         | bind _ _ = Ok _ => apply bind_ok in H as ((? & ?) & _ & H)
         end; try discriminate; inversion H; reflexivity.
Qed.

Lemma vdepth_array_bound l m : (forall x, In x l -> 1 + vdepth x <= m) -> vdepth (VArray l) <= m.
Proof.
  induction l as [|x l IH]; intros H; cbn [vdepth fold_right] in *; [lia|].
  pose proof (H x (or_introl eq_refl)). assert (forall y, In y l -> 1 + vdepth y <= m) by (intros y Hy; apply H; right; auto).
  specialize (IH H1). lia.
Qed.

Lemma vdepth_map_bound es m :
  (forall kv, In kv es -> 1 + vdepth (fst kv) <= m /\ 1 + vdepth (snd kv) <= m) -> vdepth (VMap es) <= m.
Proof.
  induction es as [|x l IH]; intros H; cbn [vdepth fold_right] in *; [lia|].
  destruct (H x (or_introl eq_refl)). assert (H2 : forall y, In y l -> 1 + vdepth (fst y) <= m /\ 1 + vdepth (snd y) <= m) by (intros y Hy; apply H; right; auto).
  specialize (IH H2). lia.
Qed.

Definition depth_spec (dp : N) (d : bytes -> result (value * bytes)) : Prop :=
  forall b v rest, d b = Ok (v, rest) -> dp + vdepth v <= 128.

Lemma dec_seq_depth dp d (Hd : depth_spec dp d) :
  forall k n b vs rest, dec_seq d k n b = Ok (vs, rest) -> forall x, In x vs -> dp + vdepth x <= 128.
Proof.
  induction k as [|k IH]; intros n b vs rest H; cbn [dec_seq] in H.
  - destruct (n =? 0); [|discriminate]. inversion H; subst. intros x [].
  - destruct (n =? 0); [inversion H; subst; intros x []|].
    apply bind_ok in H as ((v & b1) & Hv & H). apply bind_ok in H as ((vs' & b2) & Hs & H). inversion H; subst.
    intros x [<-|Hx]; [apply (Hd _ _ _ Hv)|apply (IH _ _ _ _ Hs x Hx)].
Qed.

Lemma dec_map_depth dp d (Hd : depth_spec dp d) :
  forall k n last b es rest, dec_map d k n last b = Ok (es, rest) ->
    forall kv, In kv es -> dp + vdepth (fst kv) <= 128 /\ dp + vdepth (snd kv) <= 128.
Proof.
  induction k as [|k IH]; intros n last b es rest H; cbn [dec_map] in H.
  - destruct (n =? 0); [|discriminate]. inversion H; subst. intros x [].
  - destruct (n =? 0); [inversion H; subst; intros x []|].
    apply bind_ok in H as ((kv & b1) & Hk & H). apply bind_ok in H as ([] & _ & H).
    apply bind_ok in H as ((vv & b2) & Hv & H). apply bind_ok in H as ((es' & b3) & Hs & H). inversion H; subst.
    intros x [<-|Hx]; [cbn [fst snd]; split; [apply (Hd _ _ _ Hk)|apply (Hd _ _ _ Hv)]|apply (IH _ _ _ _ _ Hs x Hx)].
Qed.

Lemma dec_value_vdepth : forall fuel depth, depth_spec depth (dec_value fuel depth).
Proof.
  induction fuel as [|f IH]; intros depth b v rest H; [discriminate|].
  pose proof (dec_value_depth_ok _ _ _ _ _ H) as Hd. specialize (IH (depth + 1)).
  destruct b as [|b0 r]; [cbn [dec_value] in H; destruct (MAX_DECODE_DEPTH <? depth); discriminate|].
  rewrite dec_value_unfold in H by exact Hd.
  destruct (b0 / 32 =? 4).
  { apply bind_ok in H as ((n & r1) & _ & H). apply bind_ok in H as ((items & r2) & Hs & H). inversion H; subst.
    pose proof (dec_seq_depth _ _ IH _ _ _ _ _ Hs) as K.
    pose proof (vdepth_array_bound items (128 - depth)) as B.
    assert (vdepth (VArray items) <= 128 - depth) by (apply B; intros x Hx; specialize (K x Hx); lia). lia. }
  destruct (b0 / 32 =? 5).
  { apply bind_ok in H as ((n & r1) & _ & H). apply bind_ok in H as ((es & r2) & Hs & H). inversion H; subst.
    pose proof (dec_map_depth _ _ IH _ _ _ _ _ _ Hs) as K.
    pose proof (vdepth_map_bound es (128 - depth)) as B.
    assert (vdepth (VMap es) <= 128 - depth) by (apply B; intros x Hx; specialize (K x Hx); lia). lia. }
  rewrite (dec_scalar_vdepth _ _ _ _ _ H). lia.
Qed.

Theorem decode_nb_output_wf b v : wf_bytes b = true -> decode_nb b = Ok v -> wf_value v = true.
Proof.
  intros Hwf H. unfold decode_nb in H.
  destruct (dec_value (S (length b)) 0 b) as [[v' rest]|e] eqn:E; [|discriminate].
  destruct rest; [|discriminate]. inversion H; subst v'. unfold wf_value.
  rewrite (dec_value_wf _ _ _ _ _ Hwf E). pose proof (dec_value_vdepth _ _ _ _ _ E) as D.
  apply N.leb_le. unfold MAX_DECODE_DEPTH. lia.
Qed.

Theorem decode_nb_output_normal b v : wf_bytes b = true -> decode_nb b = Ok v -> norm v = v.
Proof.
  intros Hwf H. pose proof (decode_nb_output_wf _ _ Hwf H) as W.
  pose proof (cbor_canonical_nb _ _ Hwf H) as E.
  pose proof (cbor_roundtrip_nb _ _ W E) as R. congruence.
Qed.

(* ================================================================== encoder output is bytes *)
(* ------------------------------------------------------------------ encoder output is bytes *)
Lemma write_major_wf major n : major < 8 -> wf_bytes (write_major major n) = true.
Proof.
  intros Hm. unfold write_major.
  destruct (N.ltb_spec n 24); [apply wf_bytes_cons; split; [lia|reflexivity]|].
  destruct (N.ltb_spec n 256); [apply wf_bytes_cons; split; [lia|apply wf_bytes_cons; split; [lia|reflexivity]]|].
  destruct (N.ltb_spec n 65536); [apply wf_bytes_cons; split; [lia|apply be_bytes_wf]|].
  destruct (N.ltb_spec n 4294967296); apply wf_bytes_cons; (split; [lia|apply be_bytes_wf]).
Qed.

Lemma enc_int_wf z : wf_bytes (enc_int z) = true.
Proof. unfold enc_int. destruct (0 <=? z)%Z; apply write_major_wf; lia. Qed.

Lemma enc_float_wf b : wf_bytes (enc_float b) = true.
Proof.
  unfold enc_float.
  destruct (f64_is_nan b); [reflexivity|].
  destruct (f64_is_inf b); [destruct (fsign 11 52 b =? 0); reflexivity|].
  destruct (f64_to_int b); [apply enc_int_wf|].
  destruct (narrow16 b); [apply wf_bytes_cons; split; [lia|apply be_bytes_wf]|].
  destruct (narrow32 b); apply wf_bytes_cons; (split; [lia|apply be_bytes_wf]).
Qed.

Definition encwf_spec (v : value) : Prop := forall b, wf_shape v = true -> enc v = Ok b -> wf_bytes b = true.

Lemma concat_results_wf l :
  Forall encwf_spec l -> forallb wf_shape l = true ->
  forall body, concat_results (map enc l) = Ok body -> wf_bytes body = true.
Proof.
  induction l as [|x l IH]; intros HF Hg body H; cbn [map concat_results] in H.
  - inversion H. reflexivity.
  - apply bind_ok in H as (bx & Ex & H). apply bind_ok in H as (bs & Es & H). inversion H; subst.
    inversion HF as [|? ? Hx HF']; subst. cbn [forallb] in Hg. apply andb_true_iff in Hg as [G1 G2].
    apply wf_bytes_app_iff. split; [apply (Hx _ G1 Ex)|apply (IH HF' G2 _ Es)].
Qed.

Lemma concat_entries_wf (L : list (bytes * result bytes)) body :
  Forall (fun x => wf_bytes (fst x) = true /\ forall vb, snd x = Ok vb -> wf_bytes vb = true) L ->
  concat_results (map entry_bytes L) = Ok body -> wf_bytes body = true.
Proof.
  revert body; induction L as [|x L IH]; intros body HF H; cbn [map concat_results] in H.
  - inversion H. reflexivity.
  - apply bind_ok in H as (bx & Ex & H). apply bind_ok in H as (bs & Es & H). inversion H; subst.
    inversion HF as [|? ? [Hk Hv] HF']; subst.
    unfold entry_bytes in Ex. apply bind_ok in Ex as (vb & Ev & Ex). inversion Ex; subst.
    apply wf_bytes_app_iff. split; [apply wf_bytes_app_iff; split; [exact Hk|apply Hv; exact Ev]|apply (IH _ HF' Es)].
Qed.

Lemma enc_wf : forall v, encwf_spec v.
Proof.
  induction v using value_ind'; intros bb Hg He; cbn [enc] in He.
  - inversion He. destruct b; reflexivity.
  - inversion He. reflexivity.
  - inversion He. apply enc_int_wf.
  - inversion He. apply enc_float_wf.
  - inversion He. destruct (good_text _ Hg) as (W & _ & _). apply wf_bytes_app_iff. split; [apply write_major_wf; lia|exact W].
  - inversion He. destruct (good_bytes _ Hg) as (W & _). apply wf_bytes_app_iff. split; [apply write_major_wf; lia|exact W].
  - apply bind_ok in He as (body & Eb & He). inversion He.
    destruct (good_array _ Hg) as [_ Hgl].
    apply wf_bytes_app_iff. split; [apply write_major_wf; lia|]. apply (concat_results_wf l H Hgl _ Eb).
  - unfold finish_map in He. apply bind_ok in He as (kvs & Ek & He).
    destruct (seq_keys_inv _ _ Ek) as [-> HK].
    set (L0 := map (fun kv : value * value => (key_bytes (fst kv), kv)) es) in *.
    destruct (adjacent_dup (sort_by (map_payload (fun kv : value * value => enc (snd kv)) L0))); [discriminate|].
    apply bind_ok in He as (body & Eb & He). inversion He.
    destruct (good_map _ Hg) as [_ Hgl].
    apply wf_bytes_app_iff. split; [apply write_major_wf; lia|].
    eapply concat_entries_wf; [|exact Eb].
    apply Forall_forall. intros x Hx. apply sort_by_in in Hx.
    unfold map_payload, L0 in Hx. rewrite map_map in Hx. apply in_map_iff in Hx as (kv & <- & Hin). cbn [fst snd].
    rewrite Forall_forall in H, HK. destruct (H _ Hin) as [Sk Sv].
    rewrite forallb_forall in Hgl. specialize (Hgl _ Hin). apply andb_true_iff in Hgl as [Gk Gv].
    split; [apply (Sk _ Gk (HK _ Hin))|intros vb Ev; apply (Sv _ Gv Ev)].
  - discriminate.
Qed.

(* ================================================================== map entry order *)
(* ------------------------------------------------------------------ encoding does not depend on map entry order *)
Lemma bytes_cmp_trans a b c : bytes_cmp a b = Lt -> bytes_cmp b c = Lt -> bytes_cmp a c = Lt.
Proof. apply (ol_trans _ bytes_order). Qed.
Lemma bytes_cmp_eq a b : bytes_cmp a b = Eq <-> a = b.
Proof. apply (ol_eq _ bytes_order). Qed.

Definition ble (a b : bytes) : Prop := bytes_cmp a b <> Gt.

Lemma ble_cases a b : ble a b <-> bytes_cmp a b = Lt \/ a = b.
Proof.
  unfold ble. destruct (bytes_cmp a b) eqn:E.
  - apply bytes_cmp_eq in E. split; auto. intros _. discriminate.
  - split; auto. intros _. discriminate.
  - split; [congruence|]. intros [H| ->]; [discriminate|].
    assert (bytes_cmp b b = Eq) by (apply bytes_cmp_eq; reflexivity). congruence.
Qed.

Lemma ble_trans a b c : ble a b -> ble b c -> ble a c.
Proof.
  rewrite !ble_cases. intros [H1| ->] [H2| ->]; auto. left. eapply bytes_cmp_trans; eauto.
Qed.

Lemma lt_not_ble a b : bytes_cmp a b = Lt -> ~ ble b a.
Proof. intros H K. apply K. apply bytes_cmp_lt_gt. exact H. Qed.

Lemma chain_forall_lt {A} (x : bytes * A) (r : list (bytes * A)) :
  chain (Some (fst x)) (map fst r) -> Forall (fun z => bytes_cmp (fst x) (fst z) = Lt) r.
Proof.
  revert x; induction r as [|y r IH]; intros x H; constructor.
  - destruct H as [H _]. exact H.
  - destruct H as [Hxy H]. specialize (IH y H). eapply Forall_impl; [|exact IH].
    intros z Hz. eapply bytes_cmp_trans; eauto.
Qed.

Lemma lsorted_forall_le {A} (y : bytes * A) (r : list (bytes * A)) :
  lsorted (y :: r) -> Forall (fun z => ble (fst y) (fst z)) r.
Proof.
  revert y; induction r as [|z r IH]; intros y H; constructor.
  - destruct H as [H _]. exact H.
  - destruct H as [Hyz H]. specialize (IH z H). eapply Forall_impl; [|exact IH].
    intros w Hw. eapply ble_trans; eauto.
Qed.

Lemma lsorted_tail {A} (y : bytes * A) r : lsorted (y :: r) -> lsorted r.
Proof. destruct r; [auto|]. intros [_ H]. exact H. Qed.

Lemma sorted_perm_unique {A} : forall (s1 s2 : list (bytes * A)),
  chain None (map fst s1) -> lsorted s2 -> Permutation s1 s2 -> s1 = s2.
Proof.
  induction s1 as [|x r1 IH]; intros s2 C L P.
  - apply Permutation_nil in P. subst. reflexivity.
  - destruct s2 as [|y r2]; [apply Permutation_sym, Permutation_nil in P; discriminate|].
    cbn [map chain] in C. destruct C as [_ C].
    pose proof (chain_forall_lt x r1 C) as Hx. pose proof (lsorted_forall_le y r2 L) as Hy.
    assert (Exy : x = y).
    { assert (Hin : In y (x :: r1)) by (eapply Permutation_in; [apply Permutation_sym; exact P|left; reflexivity]).
      destruct Hin as [E|Hin]; [exact E|].
      rewrite Forall_forall in Hx. pose proof (Hx _ Hin) as Lt1.
      assert (Hin2 : In x (y :: r2)) by (eapply Permutation_in; [exact P|left; reflexivity]).
      destruct Hin2 as [E|Hin2]; [symmetry; exact E|].
      rewrite Forall_forall in Hy. pose proof (Hy _ Hin2) as Le2.
      exfalso. exact (lt_not_ble _ _ Lt1 Le2). }
    subst y. f_equal. apply IH.
    + destruct r1 as [|z r1']; [exact I|]. cbn [map chain] in *. destruct C as [_ C]. split; auto.
    + eapply lsorted_tail; eauto.
    + eapply Permutation_cons_inv; eauto.
Qed.

Lemma insert_by_perm {A} (x : bytes * A) l : Permutation (x :: l) (insert_by x l).
Proof.
  induction l as [|y r IH]; [reflexivity|]. cbn [insert_by]. destruct (bytes_cmp (fst x) (fst y)).
  - rewrite perm_swap. constructor. exact IH.
  - reflexivity.
  - rewrite perm_swap. constructor. exact IH.
Qed.

Lemma sort_by_perm {A} (l : list (bytes * A)) : Permutation l (sort_by l).
Proof.
  induction l as [|x l IH]; [reflexivity|]. unfold sort_by in *. cbn [fold_right].
  etransitivity; [|apply insert_by_perm]. constructor. exact IH.
Qed.

Lemma seq_keys_perm {A} (l1 l2 : list (result bytes * A)) :
  Permutation l1 l2 -> forall k1, seq_keys l1 = Ok k1 -> exists k2, seq_keys l2 = Ok k2 /\ Permutation k1 k2.
Proof.
  induction 1 as [|[rk a] l1 l2 P IH|[rk1 a1] [rk2 a2] l|l1 l2 l3 P1 IH1 P2 IH2]; intros k1 H.
  - exists k1. split; auto.
  - cbn [seq_keys] in *. apply bind_ok in H as (kb & -> & H). apply bind_ok in H as (r & Er & H). inversion H; subst.
    destruct (IH _ Er) as (k2 & -> & Pk). exists ((kb, a) :: k2). split; [reflexivity|]. constructor. exact Pk.
  - cbn [seq_keys] in *. apply bind_ok in H as (kb2 & -> & H). apply bind_ok in H as (r & H1 & H). inversion H; subst.
    apply bind_ok in H1 as (kb1 & -> & H1). apply bind_ok in H1 as (r' & -> & H1). inversion H1; subst.
    exists ((kb1, a1) :: (kb2, a2) :: r'). split; [reflexivity|]. apply perm_swap.
  - destruct (IH1 _ H) as (k2 & E2 & Pk2). destruct (IH2 _ E2) as (k3 & E3 & Pk3).
    exists k3. split; auto. etransitivity; eauto.
Qed.

Theorem enc_map_order_free es1 es2 b :
  Permutation es1 es2 -> enc (VMap es1) = Ok b -> enc (VMap es2) = Ok b.
Proof.
  intros P H. cbn [enc] in *. unfold finish_map in *.
  set (pe := fun kv : value * value => (enc (fst kv), enc (snd kv))) in *.
  assert (Pp : Permutation (map pe es1) (map pe es2)) by (apply Permutation_map; exact P).
  apply bind_ok in H as (k1 & E1 & H).
  destruct (seq_keys_perm _ _ Pp _ E1) as (k2 & E2 & Pk). rewrite E2. cbn [bind].
  destruct (adjacent_dup (sort_by k1)) eqn:Ed; [discriminate|].
  assert (Es : sort_by k1 = sort_by k2).
  { apply sorted_perm_unique.
    - apply lsorted_chain; auto. apply sort_by_lsorted. destruct (sort_by k1); exact I.
    - apply sort_by_lsorted.
    - etransitivity; [apply Permutation_sym, sort_by_perm|]. etransitivity; [exact Pk|apply sort_by_perm]. }
  rewrite <- Es, Ed.
  apply bind_ok in H as (body & Eb & H). rewrite Eb. cbn [bind].
  unfold lenN in *. rewrite <- (Permutation_length Pp). exact H.
Qed.

