(* Lemmas about Model/Wal.v, part 7 (C10): the store-level recovery of every byte prefix, and
   idempotence of the repair: recover . repair . (crash prefix) = the committed transactions, Clean. *)
From Coq Require Import List NArith Lia Bool Arith.
From Echo Require Import Base.Bytes Model.Wal Proofs.WalProofs Proofs.WalProofs2 Proofs.WalProofs4.
Import ListNotations.
Open Scope N_scope.

Section WithHash.
Variable H : bytes -> N.

Notation tx_valid := (tx_valid H).
Notation log_valid := (log_valid H).
Notation fr_ok := (fr_ok H).
Notation tx_size := (tx_size H).

(* ------------------------------------------------------------------ commit markers are ordered *)
Lemma log_valid_bounds ts : forall l0, log_valid l0 ts ->
  Forall (fun t => l0 <= c_first (w_commit t) /\ c_first (w_commit t) <= c_last (w_commit t)) ts.
Proof.
  induction ts as [|t ts IH]; intros l0 Hv; [constructor|].
  apply log_valid_cons in Hv. destruct Hv as (Ht & Hc & Hr).
  destruct (tx_valid_shape H t Ht) as (Hn & _ & _ & _ & Hl).
  assert (Hpos : 1 <= lenN (w_frames t)).
  { destruct (w_frames t); [congruence|]. rewrite lenN_cons. lia. }
  constructor; [lia|].
  eapply Forall_impl; [|apply (IH _ Hr)]. cbv beta. intros t' [? ?]. lia.
Qed.

Lemma commits_inc ts : forall l0, log_valid l0 ts -> inc_keys c_last (map w_commit ts).
Proof.
  induction ts as [|t ts IH]; intros l0 Hv; [exact I|].
  pose proof Hv as Hv0. apply log_valid_cons in Hv. destruct Hv as (Ht & Hc & Hr).
  cbn [map inc_keys]. split; [|apply (IH _ Hr)].
  apply Forall_map. eapply Forall_impl; [|apply (log_valid_bounds _ _ Hr)]. cbv beta. intros t' [? ?]. lia.
Qed.

(* ------------------------------------------------------------------ what a prefix reads as *)
Lemma log_recs_wf ts l0 : log_valid l0 ts -> Forall (lrec_wf H) (log_recs ts).
Proof.
  intros [Hall _]. unfold log_recs. apply Forall_flat_map. eapply Forall_impl; [|exact Hall].
  cbv beta. intros t (Hwf & Hwc & Hvt).
  assert (Ho : Forall fr_ok (w_frames t)).
  { destruct (tx_valid_shape H t (conj Hwf (conj Hwc Hvt))) as (_ & _ & Ho & _). exact Ho. }
  unfold tx_recs. apply Forall_app. split; [|constructor; [exact Hwc|constructor]].
  apply Forall_map. rewrite Forall_forall in *. intros f Hf. split; [apply Hwf; exact Hf|].
  unfold frame_ok. specialize (Ho f Hf). unfold WalProofs2.fr_ok in Ho. rewrite Ho. reflexivity.
Qed.

Lemma read_prefix_log l0 ts k :
  log_valid l0 ts -> Forall payload_small (log_recs ts) ->
  read_segment H (firstn k (log_bytes H ts)) =
  Ok (log_recs (whole_within tx_size k ts) ++ map LFrame (tail_frames H k ts),
      negb (on_boundary lrec_size k (log_recs ts))).
Proof.
  intros Hv Hs. unfold log_bytes.
  rewrite read_segment_prefix; [|apply (log_recs_wf ts l0 Hv)|exact Hs]. rewrite (ww_log H). reflexivity.
Qed.

(* C10 recover_prefix at the filesystem-store layer (frames and markers are sorted first) *)
Theorem recover_store_prefix l0 ts k :
  log_valid l0 ts -> Forall payload_small (log_recs ts) ->
  recover_store H (firstn k (log_bytes H ts)) =
  Ok (map rtx_of (whole_within tx_size k ts), prefix_tail H k ts).
Proof.
  intros Hv Hs. unfold recover_store. rewrite (read_prefix_log l0) by auto. cbv beta iota.
  rewrite frames_of_app, commits_of_app, frames_of_log, commits_of_log,
          frames_of_frames, commits_of_frames, app_nil_r.
  set (cts := whole_within tx_size k ts). set (fr := tail_frames H k ts).
  destruct (tail_frames_ok H ts l0 k Hv) as (Hc & Ho & _). fold cts fr in Hc, Ho.
  pose proof (log_valid_prefix H ts l0 k Hv) as Hvc. fold cts in Hvc.
  destruct (log_valid_consec H _ _ Hvc) as [Hcc _].
  rewrite sort_by_sorted.
  2:{ eapply (consec_inc l0). apply consec_app. split; [exact Hcc|exact Hc]. }
  rewrite sort_by_sorted by (eapply commits_inc; exact Hvc).
  rewrite (recover_fc_log H l0 cts fr Hvc Hc Ho). cbv beta iota.
  f_equal. unfold torn_adjust, prefix_tail, expected_tail.
  rewrite (ob_log H ts l0 k Hv). fold fr cts.
  destruct fr as [|f0 fr'].
  - rewrite andb_true_r. destruct (on_boundary lrec_size k (log_recs ts)); cbn [negb]; [reflexivity|].
    rewrite (max_commit_is_last H cts l0 Hvc). reflexivity.
  - rewrite andb_false_r. destruct (last_commit_lsn (map w_commit cts)); reflexivity.
Qed.

(* ------------------------------------------------------------------ the repaired file *)
Lemma ww_all {A} (sz : A -> nat) (l : list A) k : (total sz l <= k)%nat -> whole_within sz k l = l.
Proof.
  intros Hk. rewrite <- (app_nil_r l) at 1. rewrite ww_app_ge by exact Hk. cbn [whole_within]. apply app_nil_r.
Qed.
Lemma ob_all {A} (sz : A -> nat) (Hp : forall x, (0 < sz x)%nat) (l : list A) k :
  (total sz l <= k)%nat -> on_boundary sz k l = true.
Proof.
  intros Hk. rewrite <- (app_nil_r l). rewrite (ob_app_ge sz Hp) by exact Hk. reflexivity.
Qed.

Lemma read_whole rs : Forall (lrec_wf H) rs -> Forall payload_small rs ->
  read_segment H (encode_log H rs) = Ok (rs, false).
Proof.
  intros Hw Hs. rewrite <- (firstn_all (encode_log H rs)).
  rewrite read_segment_prefix by auto.
  rewrite ww_all by (rewrite encode_log_total; lia).
  rewrite (ob_all lrec_size lrec_size_pos) by (rewrite encode_log_total; lia). reflexivity.
Qed.

(* frames first, then commit markers: the layout the truncation rewrite produces *)
Definition repaired_recs (cts : list wtx) : list lrec :=
  map LFrame (log_frames cts) ++ map LCommit (map w_commit cts).

Lemma frames_of_commits cs : frames_of (map LCommit cs) = [].
Proof. induction cs; cbn; auto. Qed.
Lemma commits_of_commits cs : commits_of (map LCommit cs) = cs.
Proof. induction cs; cbn; [reflexivity|]. f_equal. assumption. Qed.

Lemma repaired_steps l0 cts :
  log_valid l0 cts -> Forall payload_small (log_recs cts) ->
  read_segment H (encode_log H (repaired_recs cts)) = Ok (repaired_recs cts, false) /\
  recover_fc H (sort_by f_lsn (frames_of (repaired_recs cts))) (sort_by c_last (commits_of (repaired_recs cts)))
    = Ok (map rtx_of cts, TClean).
Proof.
  intros Hv Hs.
  assert (Hw : Forall (lrec_wf H) (repaired_recs cts) /\ Forall payload_small (repaired_recs cts)).
  { pose proof (log_recs_wf _ _ Hv) as Hw.
    (* the same records, in another order *)
    assert (Hin : forall r, In r (repaired_recs cts) -> In r (log_recs cts)).
    { intros r Hr. unfold repaired_recs in Hr. apply in_app_or in Hr. destruct Hr as [Hr|Hr].
      - apply in_map_iff in Hr. destruct Hr as (f & <- & Hf).
        unfold log_frames in Hf. apply in_flat_map in Hf. destruct Hf as (t & Ht & Hf).
        unfold log_recs. apply in_flat_map. exists t. split; [exact Ht|].
        unfold tx_recs. apply in_or_app. left. apply in_map. exact Hf.
      - apply in_map_iff in Hr. destruct Hr as (c & <- & Hc).
        apply in_map_iff in Hc. destruct Hc as (t & <- & Ht).
        unfold log_recs. apply in_flat_map. exists t. split; [exact Ht|].
        unfold tx_recs. apply in_or_app. right. left. reflexivity. }
    split; apply Forall_forall; intros r Hr.
    - rewrite Forall_forall in Hw. apply Hw. auto.
    - rewrite Forall_forall in Hs. apply Hs. auto. }
  destruct Hw as [Hw Hsm].
  split; [apply read_whole; auto|].
  unfold repaired_recs. rewrite frames_of_app, commits_of_app, frames_of_frames, commits_of_frames,
    frames_of_commits, commits_of_commits, app_nil_r. cbn [app].
  destruct (log_valid_consec H _ _ Hv) as [Hcc _].
  rewrite sort_by_sorted by (eapply (consec_inc l0); exact Hcc).
  rewrite sort_by_sorted by (eapply commits_inc; exact Hv).
  pose proof (recover_fc_log H l0 cts [] Hv I (Forall_nil _)) as R. rewrite app_nil_r in R.
  exact R.
Qed.

Lemma recover_repaired l0 cts :
  log_valid l0 cts -> Forall payload_small (log_recs cts) ->
  recover_store H (encode_log H (repaired_recs cts)) = Ok (map rtx_of cts, TClean).
Proof.
  intros Hv Hs. destruct (repaired_steps l0 cts Hv Hs) as [R1 R2].
  unfold recover_store. rewrite R1. cbv beta iota. rewrite R2. reflexivity.
Qed.

Lemma repair_repaired l0 cts :
  log_valid l0 cts -> Forall payload_small (log_recs cts) ->
  repair H (encode_log H (repaired_recs cts)) = encode_log H (repaired_recs cts).
Proof.
  intros Hv Hs. destruct (repaired_steps l0 cts Hv Hs) as [R1 R2].
  unfold repair. rewrite R1. rewrite R2. reflexivity.
Qed.

(* what the rewrite keeps: exactly the committed transactions *)
Lemma rewrite_after_committed l0 cts fr l :
  log_valid l0 cts -> consec (l0 + lenN (log_frames cts)) fr -> cts <> [] ->
  last_commit_lsn (map w_commit cts) = Some l ->
  rewrite_after H l (log_frames cts ++ fr) (map w_commit cts) = encode_log H (repaired_recs cts).
Proof.
  intros Hv Hc Hn Hl. unfold rewrite_after, repaired_recs.
  destruct (exists_last Hn) as (a & t & E). subst cts.
  rewrite map_app in Hl. cbn [map] in Hl. rewrite last_commit_lsn_snoc in Hl. inversion Hl; subst l. clear Hl.
  pose proof (log_valid_last H _ _ _ Hv) as Hlast.
  destruct (log_valid_consec H _ _ Hv) as [Hcc _].
  rewrite filter_app.
  rewrite (filter_all _ (log_frames (a ++ [t]))).
  2:{ eapply Forall_impl; [|apply consec_bounds; exact Hcc]. cbv beta. intros f [_ Hhi]. apply N.leb_le. lia. }
  rewrite (filter_none _ fr).
  2:{ eapply Forall_impl; [|apply consec_bounds; exact Hc]. cbv beta. intros f [Hlo _]. apply N.leb_gt. lia. }
  rewrite app_nil_r.
  rewrite (filter_all _ (map w_commit (a ++ [t]))); [reflexivity|].
  apply Forall_map. apply Forall_forall. intros t' Ht'.
  apply N.leb_le.
  (* every commit of the log ends at or before the last one *)
  apply in_app_or in Ht'. destruct Ht' as [Ht'|[<-|[]]]; [|lia].
  destruct (log_valid_app H _ _ _ Hv) as [Ha Htl].
  apply log_valid_cons in Htl. destruct Htl as (Htv & Hf & _).
  destruct (tx_valid_shape H t Htv) as (Hnt & _ & _ & _ & Hlt).
  assert (Hpos : 1 <= lenN (w_frames t)).
  { destruct (w_frames t); [congruence|]. rewrite lenN_cons. lia. }
  destruct (in_split _ _ Ht') as (a1 & a2 & ->).
  destruct (log_valid_app H _ _ _ Ha) as [_ Ht2].
  apply log_valid_cons in Ht2. destruct Ht2 as (Htv' & Hf' & _).
  destruct (tx_valid_shape H t' Htv') as (_ & _ & _ & _ & Hlt').
  rewrite !log_frames_app, !lenN_app, log_frames_cons, lenN_app in *. lia.
Qed.

(* C10 recover_idempotent: crash at ANY byte, repair (writable recovery), recover again: exactly the
   committed transactions, tail Clean - and repairing again changes nothing. *)
Theorem repair_then_recover l0 ts k :
  log_valid l0 ts -> Forall payload_small (log_recs ts) ->
  let disk := repair H (firstn k (log_bytes H ts)) in
  recover_store H disk = Ok (map rtx_of (whole_within tx_size k ts), TClean) /\
  repair H disk = disk.
Proof.
  intros Hv Hs. cbv zeta.
  pose proof (recover_store_prefix l0 ts k Hv Hs) as R.
  set (cts := whole_within tx_size k ts) in *. set (fr := tail_frames H k ts).
  destruct (tail_frames_ok H ts l0 k Hv) as (Hc & Ho & _). fold cts fr in Hc, Ho.
  pose proof (log_valid_prefix H ts l0 k Hv) as Hvc. fold cts in Hvc.
  destruct (log_valid_consec H _ _ Hvc) as [Hcc _].
  assert (Hsc : Forall payload_small (log_recs cts)).
  { destruct (ww_prefix tx_size ts k) as [rest Er]. fold cts in Er.
    rewrite Er in Hs. unfold log_recs in *. rewrite flat_map_app in Hs. apply Forall_app in Hs. tauto. }
  (* the disk after the repair *)
  assert (Hd : repair H (firstn k (log_bytes H ts)) =
               match prefix_tail H k ts with
               | TClean => firstn k (log_bytes H ts)
               | TAll => []
               | TAfter l => rewrite_after H l (log_frames cts ++ fr) (map w_commit cts)
               end).
  { unfold repair. rewrite (read_prefix_log l0) by auto.
    rewrite frames_of_app, commits_of_app, frames_of_log, commits_of_log,
            frames_of_frames, commits_of_frames, app_nil_r. fold cts fr.
    rewrite sort_by_sorted by (eapply (consec_inc l0); apply consec_app; split; [exact Hcc|exact Hc]).
    rewrite sort_by_sorted by (eapply commits_inc; exact Hvc).
    unfold recover_store in R. rewrite (read_prefix_log l0) in R by auto. cbv beta iota in R.
    rewrite frames_of_app, commits_of_app, frames_of_log, commits_of_log,
            frames_of_frames, commits_of_frames, app_nil_r in R. fold cts fr in R.
    rewrite sort_by_sorted in R by (eapply (consec_inc l0); apply consec_app; split; [exact Hcc|exact Hc]).
    rewrite sort_by_sorted in R by (eapply commits_inc; exact Hvc).
    destruct (recover_fc H (log_frames cts ++ fr) (map w_commit cts)) as [r|e]; [|discriminate].
    inversion R as [R']. rewrite R'. cbn [snd]. reflexivity. }
  unfold prefix_tail in Hd, R. fold cts in Hd, R.
  destruct (on_boundary tx_size k ts) eqn:Eb; cbv beta iota in Hd.
  - (* on a transaction boundary: nothing to repair *)
    rewrite Hd. split; [exact R|exact Hd].
  - destruct (last_commit_lsn (map w_commit cts)) as [l|] eqn:El; cbv beta iota in Hd; rewrite Hd.
    + assert (Hn : cts <> []) by (intros E0; rewrite E0 in El; discriminate).
      rewrite (rewrite_after_committed l0 cts fr l) by auto.
      split; [apply (recover_repaired l0); auto|apply (repair_repaired l0); auto].
    + assert (E0 : cts = []).
      { destruct cts as [|t c']; [reflexivity|]. exfalso.
        destruct (@exists_last _ (t :: c')) as (x & y & E1); [discriminate|]. rewrite E1 in El.
        rewrite map_app in El. cbn [map] in El. rewrite last_commit_lsn_snoc in El. discriminate. }
      rewrite E0. split; reflexivity.
Qed.

End WithHash.
